(** The v5 event loop (Client/Loop5.v, after the fix: commits a6a5e44, 0960300 and 6b2911f) never hands
    the state machine a request outside its contract, whatever the user sends through the client
    API, whatever the broker sends — CONNACKs with any receive-maximum (0 included: refused, the
    connection attempt ends), renegotiation to smaller and larger values, read bursts — wherever
    the connection fails and however often: K7 is false on every history whose user requests the
    API can produce, and the state invariant holds in every reachable state ([lrun5_inv_all]).
    Port of Client/LoopInv.v.

    The negotiated limit [s5_max] plays NO role in the loop invariant: the contract [op_ok5] bounds
    a replayed release by the configured limit [s5_max_limit] (the table size), which no op changes
    ([next5_frame]); so neither [low5] nor [op_low5] (Client/Wire5.v) is needed anywhere here. *)
From Coq Require Import Arith ZifyBool ZifyN ZifyNat.
From Rumqtt Require Import Client.VecLemmas Client.State5 Client.Inv5 Client.Eff5 Client.Flow5 Client.Wire5
  Client.Loop5 Client.Loop5Proofs.

(** what the v5 AsyncClient can put into the channel: ids are assigned by the state machine *)
Definition user_req5 (r : request5) : bool :=
  match r with
  | R5Publish p => q_pkid p =? 0
  | R5Subscribe _ | R5Unsubscribe _ | R5PubAck _ | R5PubRec _ | R5Disconnect | R5PingReq => true
  | _ => false
  end.

(** what [MqttState::clean] hands back: publishes with their id, releases *)
Definition carried5 (lim : N) (r : request5) : bool :=
  match r with
  | R5Publish p => (1 <=? q_pkid p) && negb (match q_qos p with Q0 => true | _ => false end)
  | R5PubRel i => (1 <=? i) && (i <=? lim)
  | _ => false
  end.

Fixpoint shape5 (lim : N) (l : list request5) : bool :=
  match l with
  | [] => true
  | r :: t => if carried5 lim r then shape5 lim t else forallb user_req5 (r :: t)
  end.

Definition wf_user5 (o : lop5) : bool := match o with UserSend5 r => user_req5 r | _ => true end.

(** every release still pending can be replayed when its turn comes: its id is free now, and no
    request in front of it (a publish with that id, the same release twice) takes the id first *)
Fixpoint rel_ok5 (s : state5) (l : list request5) : Prop :=
  match l with
  | [] => True
  | r :: t =>
      match r with
      | R5Publish p => ~ In (R5PubRel (q_pkid p)) t
      | R5PubRel i => busy5 s i = false /\ ~ In (R5PubRel i) t
      | _ => True
      end /\ rel_ok5 s t
  end.

Record LInv5 (l : lstate5) : Prop := {
  l5_inv : Inv5 (st5 l);
  l5_shape : shape5 (s5_max_limit (st5 l)) (pending5 l) = true;
  l5_chan : forallb user_req5 (chan5 l) = true;
  l5_rel : rel_ok5 (st5 l) (pending5 l) }.

(** ---- list facts *)
Lemma shape5_user lim l : forallb user_req5 l = true -> shape5 lim l = true.
Proof.
  destruct l as [| r t]; [reflexivity|]. intros H. cbn [shape5].
  destruct (carried5 lim r) eqn:E; [|exact H]. exfalso.
  cbn [forallb] in H. apply andb_true_iff in H. destruct H as [Hu _].
  destruct r; cbn in E, Hu; try discriminate.
  apply andb_true_iff in E. destruct E as [E _]. lia.
Qed.

Lemma shape5_app_carried lim F l : forallb (carried5 lim) F = true -> shape5 lim l = true -> shape5 lim (F ++ l) = true.
Proof.
  induction F as [| r F IH]; intros HF Hl; [exact Hl|]. cbn [forallb] in HF. apply andb_true_iff in HF. destruct HF as [Hr HF].
  cbn [app shape5]. rewrite Hr. auto.
Qed.

Lemma shape5_app_user lim l Z : shape5 lim l = true -> forallb user_req5 Z = true -> shape5 lim (l ++ Z) = true.
Proof.
  induction l as [| r t IH]; intros Hl HZ; [apply shape5_user; exact HZ|]. cbn [app shape5] in *.
  destruct (carried5 lim r); [auto|]. cbn [forallb] in *. apply andb_true_iff in Hl. destruct Hl as [Hr Ht].
  rewrite Hr. cbn [andb]. rewrite forallb_app, Ht, HZ. reflexivity.
Qed.

Lemma shape5_tail lim r t : shape5 lim (r :: t) = true -> shape5 lim t = true.
Proof.
  cbn [shape5]. destruct (carried5 lim r); [auto|]. cbn [forallb]. intros H. apply andb_true_iff in H. apply shape5_user, H.
Qed.

Lemma user5_no_rel l : forallb user_req5 l = true -> forall i, ~ In (R5PubRel i) l.
Proof. intros H i Hin. rewrite forallb_forall in H. specialize (H _ Hin). discriminate. Qed.

Lemma filter_user5 l : forallb user_req5 l = true -> forallb user_req5 (filter not_puback5 l) = true.
Proof.
  intros H. rewrite forallb_forall in *. intros x Hx. apply filter_In in Hx. apply H, Hx.
Qed.

(** ---- busy frames, all read off the wire facts of one op ([step5_wire], Client/Wire5.v) *)
Lemma res_state5_out2 (r : R5 (option packet5)) s' : res_state5 r = Some s' -> exists rep, out2_5 r = Some (s', rep).
Proof. destruct r as [[s2 x] | [s2 e] | t]; cbn [res_state5 out2_5]; intros H; inversion H; eauto. Qed.

(** a request from the user or from pending makes busy at most the id it carries / is given *)
Lemma outgoing_busy_frame5 s r s' :
  Inv5 s -> op_ok5 s (Out5 r) = true -> res_state5 (handle_outgoing_packet5 s r) = Some s' ->
  forall i, busy5 s i = false -> busy5 s' i = true ->
    match r with
    | R5Publish p => q_pkid p = 0 \/ q_pkid p = i
    | R5PubRel j => j = i
    | _ => False
    end.
Proof.
  intros I Hok Hs i Hb Hb'. destruct (res_state5_out2 _ _ Hs) as [rep Ho]. rewrite <- outcome5_out in Ho.
  destruct (step5_wire s (Out5 r) s' rep I Hok Ho) as [_ [_ [W3 [_ [_ [W6 _]]]]]].
  destruct (W6 i Hb Hb') as [[p [Hp [Hid Hq]]] | E].
  - destruct (W3 p Hp Hq) as [_ [[_ [r0 [E [_ [Hpre _]]]]] | [Hf _]]]; [|destruct r; contradiction].
    inversion E. subst r. destruct (N.eq_dec (q_pkid r0) 0) as [E0 | E0]; [left; exact E0|right].
    rewrite <- (Hpre E0). exact Hid.
  - inversion E. reflexivity.
Qed.

(** a packet from the broker never makes a free id busy *)
Lemma incoming_keeps_free5 s pk s' :
  Inv5 s -> res_state5 (handle_incoming_packet5 s pk) = Some s' -> forall i, busy5 s i = false -> busy5 s' i = false.
Proof.
  intros I Hs i Hb. destruct (busy5 s' i) eqn:E; [exfalso|reflexivity].
  destruct (res_state5_out2 _ _ Hs) as [rep Ho]. rewrite <- outcome5_inc in Ho.
  destruct (step5_wire s (Inc5 pk) s' rep I eq_refl Ho) as [_ [_ [W3 [_ [_ [W6 _]]]]]].
  destruct (W6 i Hb E) as [[p [Hp [Hid Hq]]] | E1]; [|discriminate].
  destruct (W3 p Hp Hq) as [_ [[_ [r0 [E1 _]]] | [_ Hc]]]; [discriminate|].
  destruct (j_coll s I p Hc) as [Hbp _]. rewrite Hid in Hbp. congruence.
Qed.

Lemma out_limit s r s' : res_state5 (handle_outgoing_packet5 s r) = Some s' -> s5_max_limit s' = s5_max_limit s.
Proof. rewrite <- next5_out. intros H. apply (next5_frame s (Out5 r) s' H). Qed.

Lemma in_limit s pk s' : res_state5 (handle_incoming_packet5 s pk) = Some s' -> s5_max_limit s' = s5_max_limit s.
Proof. rewrite <- next5_inc. intros H. apply (next5_frame s (Inc5 pk) s' H). Qed.

(** ---- rel_ok5 facts *)
Lemma relok5_in s l i : rel_ok5 s l -> In (R5PubRel i) l -> busy5 s i = false.
Proof.
  induction l as [| r t IH]; intros H Hin; [destruct Hin|]. cbn [rel_ok5] in H. destruct H as [Hr Ht].
  destruct Hin as [-> | Hin]; [apply Hr|auto].
Qed.

Lemma relok5_state s s' l : rel_ok5 s l -> (forall i, In (R5PubRel i) l -> busy5 s' i = false) -> rel_ok5 s' l.
Proof.
  induction l as [| r t IH]; intros H Hb; [exact Logic.I|]. cbn [rel_ok5] in *. destruct H as [Hr Ht].
  split; [|apply IH; [exact Ht|intros i Hi; apply Hb; right; exact Hi]].
  destruct r; auto. split; [apply Hb; left; reflexivity|apply Hr].
Qed.

Lemma relok5_user s l : forallb user_req5 l = true -> rel_ok5 s l.
Proof.
  induction l as [| r t IH]; intros H; [exact Logic.I|]. cbn [forallb] in H. apply andb_true_iff in H. destruct H as [Hr Ht].
  cbn [rel_ok5]. split; [|auto]. destruct r; auto; try discriminate.
  intros Hin. apply (user5_no_rel t Ht _ Hin).
Qed.

Lemma relok5_app s a b :
  rel_ok5 s a -> rel_ok5 s b ->
  (forall p, In (R5Publish p) a -> ~ In (R5PubRel (q_pkid p)) b) ->
  (forall i, In (R5PubRel i) a -> ~ In (R5PubRel i) b) ->
  rel_ok5 s (a ++ b).
Proof.
  induction a as [| r t IH]; intros Ha Hb Hp Hr; [exact Hb|]. cbn [app rel_ok5] in *. destruct Ha as [Hh Ht].
  split.
  - destruct r; auto.
    + intros Hin. apply in_app_or in Hin. destruct Hin as [Hin | Hin]; [exact (Hh Hin)|].
      apply (Hp p (or_introl eq_refl) Hin).
    + destruct Hh as [Hb0 Hn]. split; [exact Hb0|]. intros Hin. apply in_app_or in Hin. destruct Hin as [Hin | Hin]; [exact (Hn Hin)|].
      apply (Hr id (or_introl eq_refl) Hin).
  - apply IH; auto.
    + intros p Hin. apply Hp. right. exact Hin.
    + intros i Hin. apply Hr. right. exact Hin.
Qed.

Lemma ones_from_ge5 l s i : In i (ones_from l s) -> s <= i.
Proof.
  revert s. induction l as [| b l IH]; intros s H; [destruct H|]. cbn [ones_from] in H.
  destruct b; [destruct H as [<- | H]; [lia|]|]; apply IH in H; lia.
Qed.

Lemma relok5_rels s l st0 : (forall i, busy5 s i = false) -> rel_ok5 s (map R5PubRel (ones_from l st0)).
Proof.
  intros Hb. revert st0. induction l as [| b l IH]; intros st0; [exact Logic.I|]. cbn [ones_from].
  destruct b; [|apply IH]. cbn [map rel_ok5]. split; [|apply IH]. split; [apply Hb|].
  intros Hin. apply in_map_iff in Hin. destruct Hin as [j [Hj Hin]]. inversion Hj. subst j.
  apply ones_from_ge5 in Hin. lia.
Qed.

Lemma relok5_pubs s (ps : list publish5) : rel_ok5 s (map R5Publish ps).
Proof.
  induction ps as [| p ps IH]; [exact Logic.I|]. cbn [map rel_ok5]. split; [|exact IH].
  intros Hin. apply in_map_iff in Hin. destruct Hin as [q [Hq _]]. discriminate.
Qed.

(** ---- EventLoop::clean keeps the loop invariant *)
Lemma loop_clean5_limit l : s5_max_limit (st5 (loop_clean5 l)) = s5_max_limit (st5 l).
Proof. unfold loop_clean5, clean5. reflexivity. Qed.

Lemma linv5_clean l : LInv5 l -> LInv5 (loop_clean5 l).
Proof.
  intros [I Hsh Hch Hrl]. destruct (loop_clean5_spec l I) as [I' [_ [Hchan [Hheld Hpend]]]].
  pose proof (loop_clean5_limit l) as Hlim.
  set (s := st5 l) in *. set (s' := st5 (loop_clean5 l)) in *.
  assert (Hfree : forall i, busy5 s' i = false).
  { intros i. destruct (busy5 s' i) eqn:E; [exfalso|reflexivity]. unfold busy5 in E. apply orb_true_iff in E.
    destruct E as [E | E].
    - destruct (vget (s5_pub s') i) as [[p|]|] eqn:Eg; try discriminate.
      destruct (j_slot s' I' i p Eg) as [Hid _].
      assert (Hin : In (R5Publish p) (held5 s')) by (apply in_held5; [exact I'|]; cbn [holds5]; left; rewrite Hid; exact Eg).
      rewrite Hheld in Hin. destruct Hin.
    - assert (Hin : In (R5PubRel i) (held5 s')) by (apply in_held5; [exact I'|exact E]).
      rewrite Hheld in Hin. destruct Hin. }
  assert (Hps : forall p, In p (somes (s5_pub s)) -> vget (s5_pub s) (q_pkid p) = Some (Some p)).
  { intros p Hin. apply somes_in in Hin. destruct Hin as [k Hk].
    assert (Hv : vget (s5_pub s) (N.of_nat k) = Some (Some p)) by (unfold vget, idx; rewrite Nat2N.id; exact Hk).
    destruct (j_slot s I _ _ Hv) as [E _]. rewrite E. exact Hv. }
  assert (Hpb : forall p, In p (somes (s5_pub s)) -> busy5 s (q_pkid p) = true).
  { intros p Hp. unfold busy5. rewrite (Hps p Hp). reflexivity. }
  assert (Hrb : forall i, In i (ones (s5_rel s)) -> busy5 s i = true).
  { intros i Hi. apply ones_in in Hi. unfold busy5. rewrite Hi. apply orb_true_r. }
  constructor.
  - exact I'.
  - fold s'. rewrite Hlim, Hpend. unfold held5. fold s. rewrite <- !app_assoc. apply shape5_app_carried.
    + rewrite forallb_forall. intros r Hr. apply in_map_iff in Hr. destruct Hr as [p [<- Hp]].
      destruct (j_slot s I _ _ (Hps p Hp)) as [_ [H1 Hq]]. cbn [carried5].
      destruct (N.leb_spec 1 (q_pkid p)); [|lia]. destruct (q_qos p); [congruence|reflexivity|reflexivity].
    + apply shape5_app_carried.
      * rewrite forallb_forall. intros r Hr. apply in_map_iff in Hr. destruct Hr as [i [<- Hi]].
        destruct (inv5_busy_le s i I (Hrb i Hi)). cbn [carried5]. apply andb_true_iff. split; apply N.leb_le; assumption.
      * apply shape5_app_carried.
        -- destruct (s5_collision s) as [q|] eqn:Ec; [|reflexivity]. cbn [forallb carried5]. rewrite andb_true_r.
           destruct (j_coll s I q Ec) as [Hb Hq]. destruct (inv5_busy_le s _ I Hb).
           destruct (N.leb_spec 1 (q_pkid q)); [|lia]. destruct (q_qos q); [congruence|reflexivity|reflexivity].
        -- apply shape5_app_user; [exact Hsh|apply filter_user5; exact Hch].
  - rewrite Hchan. reflexivity.
  - fold s'. rewrite Hpend. unfold held5. fold s. rewrite <- !app_assoc.
    set (rest := pending5 l ++ filter not_puback5 (chan5 l)).
    assert (Hold : forall i, In (R5PubRel i) rest -> busy5 s i = false).
    { intros i Hi. apply in_app_or in Hi. destruct Hi as [Hi | Hi]; [apply (relok5_in s _ i Hrl Hi)|].
      exfalso. apply (user5_no_rel _ (filter_user5 _ Hch) i Hi). }
    assert (Hrest : rel_ok5 s' rest).
    { apply relok5_state with (s := s); [|intros i _; apply Hfree].
      apply relok5_app; [exact Hrl|apply relok5_user, filter_user5, Hch| |];
        intros x _ Hin; apply (user5_no_rel _ (filter_user5 _ Hch) _ Hin). }
    assert (Hpark : rel_ok5 s' (match s5_collision s with Some p => [R5Publish p] | None => [] end ++ rest)).
    { destruct (s5_collision s) as [q|] eqn:Ec; [|exact Hrest]. cbn [app rel_ok5]. split; [|exact Hrest].
      intros Hin. destruct (j_coll s I q Ec) as [Hb _]. rewrite (Hold _ Hin) in Hb. discriminate. }
    apply relok5_app.
    + apply relok5_pubs.
    + apply relok5_app.
      * apply relok5_rels. exact Hfree.
      * exact Hpark.
      * intros p Hp. apply in_map_iff in Hp. destruct Hp as [x [Hx _]]. discriminate.
      * intros i Hi Hin. apply in_map_iff in Hi. destruct Hi as [k [Hk Hi]]. inversion Hk. subst k.
        apply in_app_or in Hin. destruct Hin as [Hin | Hin].
        -- destruct (s5_collision s); [destruct Hin as [Hin | []]; discriminate|destruct Hin].
        -- pose proof (Hrb i Hi) as Hb. rewrite (Hold i Hin) in Hb. discriminate.
    + intros p Hp Hin. apply in_map_iff in Hp. destruct Hp as [x [Hx Hp]]. inversion Hx. subst x.
      apply in_app_or in Hin. destruct Hin as [Hin | Hin].
      * apply in_map_iff in Hin. destruct Hin as [k [Hk Hin]]. inversion Hk. subst k.
        apply ones_in in Hin. rewrite (j_excl s I _ _ (Hps p Hp)) in Hin. discriminate.
      * apply in_app_or in Hin. destruct Hin as [Hin | Hin].
        -- destruct (s5_collision s); [destruct Hin as [Hin | []]; discriminate|destruct Hin].
        -- pose proof (Hpb p Hp) as Hb. rewrite (Hold _ Hin) in Hb. discriminate.
    + intros i Hi. apply in_map_iff in Hi. destruct Hi as [x [Hx _]]. discriminate.
Qed.

(** ---- the request arm honours the contract *)
Lemma take_enabled5_facts l : take_enabled5 l = true ->
  connected5 l = true /\ s5_events (st5 l) = [] /\ s5_collision (st5 l) = None /\ s5_inflight (st5 l) < s5_max (st5 l).
Proof.
  unfold take_enabled5, inflight_full5. intros H.
  apply andb_true_iff in H. destruct H as [H _].
  apply andb_true_iff in H. destruct H as [H Hg].
  apply andb_true_iff in H. destruct H as [Hc He].
  apply andb_true_iff in Hg. destruct Hg as [Hf Hcol].
  destruct (s5_events (st5 l)); [|discriminate]. destruct (s5_collision (st5 l)); [discriminate|].
  repeat split; auto. destruct (N.leb_spec (s5_max (st5 l)) (s5_inflight (st5 l))); [discriminate|lia].
Qed.

Lemma user_req5_ok s r : s5_collision s = None -> user_req5 r = true -> op_ok5 s (Out5 r) = true.
Proof.
  intros Hc Hu. destruct r; cbn in Hu; try discriminate; cbn [op_ok5 api_request5]; try reflexivity.
  rewrite Hc. destruct (q_qos p); reflexivity.
Qed.

Lemma head_ok5 l r rest : LInv5 l -> s5_collision (st5 l) = None -> pending5 l = r :: rest -> op_ok5 (st5 l) (Out5 r) = true.
Proof.
  intros [I Hsh Hch Hrl] Hc Hp. rewrite Hp in Hsh, Hrl. cbn [shape5] in Hsh.
  destruct (carried5 (s5_max_limit (st5 l)) r) eqn:Ec.
  - destruct r; cbn in Ec; try discriminate.
    + cbn [op_ok5]. rewrite Hc. destruct (q_qos p); reflexivity.
    + cbn [op_ok5]. cbn [rel_ok5] in Hrl. destruct Hrl as [[Hb _] _]. rewrite Hb, Ec. reflexivity.
  - cbn [forallb] in Hsh. apply andb_true_iff in Hsh. apply user_req5_ok; [exact Hc|apply Hsh].
Qed.

Theorem take_ok5_linv l : LInv5 l -> take_ok5 l = true.
Proof.
  intros LI. unfold take_ok5, take_ok5_gen. destruct (take_enabled5 l) eqn:Et; [|reflexivity].
  destruct (take_enabled5_facts l Et) as [_ [_ [Hc _]]].
  unfold next_request5. destruct (pending5 l) as [| r rest] eqn:Ep.
  - destruct (chan5 l) as [| r rest] eqn:Ech; [reflexivity|]. cbn [st5].
    apply user_req5_ok; [exact Hc|]. pose proof (l5_chan l LI) as H. rewrite Ech in H. cbn [forallb] in H.
    apply andb_true_iff in H. apply H.
  - cbn [st5]. eapply head_ok5; eauto.
Qed.

(** handling the request at the head of pending leaves the rest replayable *)
Lemma relok5_after_head s r rest s' lim :
  Inv5 s -> op_ok5 s (Out5 r) = true -> res_state5 (handle_outgoing_packet5 s r) = Some s' ->
  shape5 lim (r :: rest) = true -> rel_ok5 s (r :: rest) -> rel_ok5 s' rest.
Proof.
  intros I Hok Hs Hsh Hrl. cbn [rel_ok5] in Hrl. destruct Hrl as [Hh Ht].
  cbn [shape5] in Hsh. destruct (carried5 lim r) eqn:Ec.
  2:{ cbn [forallb] in Hsh. apply andb_true_iff in Hsh. apply relok5_user, Hsh. }
  apply relok5_state with (s := s); [exact Ht|]. intros i Hi.
  destruct (busy5 s' i) eqn:Eb; [exfalso|reflexivity].
  pose proof (relok5_in s rest i Ht Hi) as Hbi.
  pose proof (outgoing_busy_frame5 s r s' I Hok Hs i Hbi Eb) as Hf.
  destruct r; cbn in Ec; try discriminate.
  - destruct Hf as [E | E]; [apply andb_true_iff in Ec; destruct Ec as [E1 _]; lia|]. rewrite E in Hh. exact (Hh Hi).
  - subst id. destruct Hh as [_ Hn]. exact (Hn Hi).
Qed.

Lemma read_batch5_linv pkts : forall s buf pend, Inv5 s -> rel_ok5 s pend ->
  match read_batch5 s pkts buf with
  | Ok (s', _) => Inv5 s' /\ rel_ok5 s' pend /\ s5_max_limit s' = s5_max_limit s
  | Err (s', _) => Inv5 s' /\ rel_ok5 s' pend /\ s5_max_limit s' = s5_max_limit s
  | Panic _ => False
  end.
Proof.
  induction pkts as [| pk pkts IH]; intros s buf pend I Hr; cbn [read_batch5]; [auto|].
  pose proof (handle_incoming_packet5_inv s pk I) as H.
  assert (Hstep : forall s', res_state5 (handle_incoming_packet5 s pk) = Some s' ->
            rel_ok5 s' pend /\ s5_max_limit s' = s5_max_limit s).
  { intros s' Hs. split; [|apply (in_limit s pk s' Hs)].
    apply relok5_state with (s := s); [exact Hr|]. intros i Hi.
    apply (incoming_keeps_free5 s pk s' I Hs). apply (relok5_in s pend i Hr Hi). }
  destruct (handle_incoming_packet5 s pk) as [[s' [rp|]] | [s' e] | t] eqn:E; cbn [post5] in H; try contradiction.
  - destruct (Hstep s' eq_refl) as [Hr' Hm]. specialize (IH s' (buf ++ [rp]) pend H Hr').
    destruct (read_batch5 s' pkts (buf ++ [rp])) as [[s2 x] | [s2 e] | t]; try contradiction; rewrite <- Hm; exact IH.
  - destruct (Hstep s' eq_refl) as [Hr' Hm]. specialize (IH s' buf pend H Hr').
    destruct (read_batch5 s' pkts buf) as [[s2 x] | [s2 e] | t]; try contradiction; rewrite <- Hm; exact IH.
  - destruct (Hstep s' eq_refl) as [Hr' Hm]. auto.
Qed.

Lemma linv5_with s' l : Inv5 s' -> s5_max_limit s' = s5_max_limit (st5 l) -> rel_ok5 s' (pending5 l) ->
  shape5 (s5_max_limit (st5 l)) (pending5 l) = true -> forallb user_req5 (chan5 l) = true -> LInv5 (with_st5 l s').
Proof.
  intros I Hm Hr Hs Hc. constructor; cbn [with_st5 st5 pending5 chan5]; auto. rewrite Hm. exact Hs.
Qed.

Lemma linv5_wire l w : LInv5 l -> LInv5 (with_wire5 l w).
Proof. intros [I Hs Hc Hr]. constructor; cbn [with_wire5 st5 pending5 chan5]; auto. Qed.

Theorem lstep5_linv l o : LInv5 l -> wf_user5 o = true ->
  match lstep5 l o with
  | Stepped5 l' => LInv5 l' | Failed5 l' _ => LInv5 l' | Disabled5 => True | LPanic5 _ => False
  end.
Proof.
  intros LI Hw. pose proof LI as [I Hsh Hch Hrl]. destruct o; unfold lstep5; cbn [lstep5_gen].
  - (* UserSend *) constructor; cbn [st5 pending5 chan5]; auto. rewrite forallb_app, Hch. cbn [forallb wf_user5] in *. rewrite Hw. reflexivity.
  - (* Yield *) destruct (s5_events (st5 l)) eqn:E; [exact Logic.I|]. constructor; cbn [st5 pending5 chan5]; auto.
    + apply inv5_u_events. exact I.
    + apply relok5_state with (s := st5 l); [exact Hrl|]. intros i Hi. apply (relok5_in _ _ i Hrl Hi).
  - (* TakeRequest *)
    pose proof (take_ok5_linv l LI) as Hok. unfold take_ok5, take_ok5_gen in Hok.
    destruct (take_enabled5 l) eqn:Et; [|exact Logic.I].
    destruct (next_request5 l) as [[r l1]|] eqn:En; [|exact Logic.I].
    assert (Hl1 : st5 l1 = st5 l /\
                  ((pending5 l = r :: pending5 l1 /\ chan5 l1 = chan5 l) \/
                   (pending5 l = [] /\ pending5 l1 = [] /\ chan5 l = r :: chan5 l1))).
    { unfold next_request5 in En. destruct (pending5 l) as [| r0 rest] eqn:Ep.
      - destruct (chan5 l) as [| r0 rest] eqn:Ec; [discriminate|]. inversion En. subst. cbn. repeat split; auto.
      - inversion En. subst. cbn. repeat split; auto. }
    destruct Hl1 as [Hst Hpc]. rewrite Hst in *.
    pose proof (handle_outgoing_packet5_inv (st5 l) r I Hok) as Hinv.
    assert (Hafter : forall s', res_state5 (handle_outgoing_packet5 (st5 l) r) = Some s' -> Inv5 s' -> LInv5 (with_st5 l1 s')).
    { intros s' Hs I'. pose proof (out_limit _ _ _ Hs) as Hm.
      constructor; cbn [with_st5 st5 pending5 chan5]; [exact I'| | |].
      - rewrite Hm. destruct Hpc as [[Hp _] | [_ [Hp _]]]; [rewrite Hp in Hsh; apply (shape5_tail _ r), Hsh|rewrite Hp; reflexivity].
      - destruct Hpc as [[_ Hc] | [_ [_ Hc]]]; [rewrite Hc; exact Hch|].
        rewrite Hc in Hch. cbn [forallb] in Hch. apply andb_true_iff in Hch. apply Hch.
      - destruct Hpc as [[Hp _] | [_ [Hp _]]]; [|rewrite Hp; exact Logic.I].
        rewrite Hp in Hsh, Hrl. exact (relok5_after_head (st5 l) r (pending5 l1) s' (s5_max_limit (st5 l)) I Hok Hs Hsh Hrl). }
    destruct (handle_outgoing_packet5 (st5 l) r) as [[s' [pk|]] | [s' e] | t]; cbn [post5] in Hinv; try contradiction.
    + apply linv5_wire. apply Hafter; [reflexivity|exact Hinv].
    + apply Hafter; [reflexivity|exact Hinv].
    + apply linv5_clean. apply Hafter; [reflexivity|exact Hinv].
  - (* TakeCancelled *) exact LI.
  - (* Net *)
    destruct (arm_ready5 l && negb _); [|exact Logic.I].
    pose proof (read_batch5_linv pkts (st5 l) [] (pending5 l) I Hrl) as H.
    destruct (read_batch5 (st5 l) pkts []) as [[s' rp] | [s' e] | t]; try contradiction; destruct H as [I' [Hr' Hm]].
    + apply linv5_wire. apply linv5_with; auto.
    + apply linv5_clean. apply linv5_with; auto.
  - (* NetAbort *)
    destruct (arm_ready5 l); [|exact Logic.I].
    pose proof (read_batch5_linv pkts (st5 l) [] (pending5 l) I Hrl) as H.
    destruct (read_batch5 (st5 l) pkts []) as [[s' rp] | [s' e] | t]; try contradiction; destruct H as [I' [Hr' Hm]];
      apply linv5_clean; apply linv5_with; auto.
  - (* KeepAliveFire *)
    destruct (arm_ready5 l); [|exact Logic.I].
    pose proof (handle_outgoing_packet5_inv (st5 l) R5PingReq I eq_refl) as Hinv.
    assert (Hafter : forall s', res_state5 (handle_outgoing_packet5 (st5 l) R5PingReq) = Some s' -> Inv5 s' -> LInv5 (with_st5 l s')).
    { intros s' Hs I'. apply linv5_with; auto; [apply (out_limit _ _ _ Hs)|].
      apply relok5_state with (s := st5 l); [exact Hrl|]. intros i Hi.
      destruct (busy5 s' i) eqn:Eb; [exfalso|reflexivity].
      exact (outgoing_busy_frame5 (st5 l) R5PingReq s' I eq_refl Hs i (relok5_in _ _ i Hrl Hi) Eb). }
    destruct (handle_outgoing_packet5 (st5 l) R5PingReq) as [[s' [pk|]] | [s' e] | t]; cbn [post5] in Hinv; try contradiction.
    + apply linv5_wire. apply Hafter; [reflexivity|exact Hinv].
    + apply Hafter; [reflexivity|exact Hinv].
    + apply linv5_clean. apply Hafter; [reflexivity|exact Hinv].
  - (* Fail *)
    destruct (connected5 l); [|exact Logic.I]. apply linv5_clean. exact LI.
  - (* Reconnect: the CONNACK goes through the state machine, whatever it announces *)
    destruct (connected5 l); [exact Logic.I|].
    set (pk := P5ConnAck session_present 0 receive_max topic_alias_max).
    pose proof (handle_incoming_packet5_inv (st5 l) pk I) as Hinv.
    set (l1 := mkLoop5 (st5 l) (if session_present then pending5 l else []) (chan5 l) true [] (yielded5 l)).
    assert (Hafter : forall s', res_state5 (handle_incoming_packet5 (st5 l) pk) = Some s' -> Inv5 s' -> LInv5 (with_st5 l1 s')).
    { intros s' Hs I'. pose proof (in_limit _ _ _ Hs) as Hm.
      constructor; cbn [with_st5 l1 st5 pending5 chan5]; [exact I'| |exact Hch|].
      - rewrite Hm. destruct session_present; [exact Hsh|reflexivity].
      - destruct session_present; [|exact Logic.I].
        apply relok5_state with (s := st5 l); [exact Hrl|]. intros i Hi.
        apply (incoming_keeps_free5 (st5 l) pk s' I Hs). apply (relok5_in _ _ i Hrl Hi). }
    destruct (handle_incoming_packet5 (st5 l) pk) as [[s' rp] | [s' e] | t]; cbn [post5] in Hinv; try contradiction.
    + apply Hafter; [reflexivity|exact Hinv].
    + apply linv5_clean. apply Hafter; [reflexivity|exact Hinv].
Qed.

Lemma linv5_init max manual : 1 <= max -> max <= 65535 -> LInv5 (linit5 max manual).
Proof.
  intros H1 H2. constructor; cbn [linit5 st5 pending5 chan5]; try reflexivity; try exact Logic.I. apply inv5_init; assumption.
Qed.

(** K7 is false, and the loop invariant holds, on every history of well-formed user requests *)
Theorem k7_5_never h : forall l, LInv5 l -> forallb wf_user5 h = true ->
  k7_5 l h = false /\ exists l', lrun5 l h = Some l' /\ LInv5 l'.
Proof.
  induction h as [| o h IH]; intros l LI Hw; [split; [reflexivity|exists l; auto]|].
  cbn [forallb] in Hw. apply andb_true_iff in Hw. destruct Hw as [Ho Hw].
  pose proof (lstep5_linv l o LI Ho) as H.
  unfold k7_5, lrun5. cbn [k7_5_gen lrun5_gen]. fold k7_5 lrun5. unfold lnext5_gen.
  assert (Hk : match o with TakeRequest5 => negb (take_ok5_gen take_enabled5 l) | _ => false end = false).
  { destruct o; try reflexivity. fold (take_ok5 l). rewrite (take_ok5_linv l LI). reflexivity. }
  rewrite Hk. cbn [orb].
  destruct (lstep5 l o) as [l' | l' e | | t]; try contradiction; apply IH; auto.
Qed.

Theorem lrun5_inv_all max manual h : 1 <= max -> max <= 65535 -> forallb wf_user5 h = true ->
  k7_5 (linit5 max manual) h = false /\ exists l, lrun5 (linit5 max manual) h = Some l /\ Inv5 (st5 l).
Proof.
  intros H1 H2 Hw. destruct (k7_5_never h (linit5 max manual) (linv5_init max manual H1 H2) Hw) as [Hk [l [Hr LI]]].
  split; [exact Hk|]. exists l. split; [exact Hr|apply LI].
Qed.

(** the hypotheses are met by a non-trivial history: window 3, backlog, a burst of acks in one read,
    a refused CONNACK (receive-maximum 0) that closes the attempt, renegotiation down to 1 and up
    again to 65535 (capped by the configured 3), a cancelled request arm, an aborted read with an
    unsolicited PUBCOMP, three connections *)
Example lrun5_inv_all_nontrivial :
  let pq q tag := UserSend5 (R5Publish (mkPub5 q 0 tag tag None)) in
  let h := [Reconnect5 true None None; Yield5; pq Q1 1; pq Q2 2; pq Q1 3; pq Q1 4; TakeRequest5; Yield5; TakeRequest5; Yield5;
            TakeRequest5; Yield5; TakeRequest5; Net5 [P5PubAck 1 0; P5PubRec 2 0]; Yield5; Yield5; Yield5; Fail5;
            Reconnect5 true (Some 0) None; Yield5; Reconnect5 true (Some 1) (Some 4); Yield5; TakeRequest5; Yield5; TakeCancelled5; TakeRequest5;
            NetAbort5 [P5PubComp 2 0]; Yield5; Yield5; Reconnect5 true (Some 65535) None; Yield5; TakeRequest5; Yield5; TakeRequest5; Yield5;
            TakeRequest5; Yield5] in
  forallb wf_user5 h = true /\
  option_map (fun l => (s5_max (st5 l), held5 (st5 l), pending5 l, chan5 l, wire5 l)) (lrun5 (linit5 3 false) h)
  = Some (3, [R5Publish (mkPub5 Q1 1 4 4 None); R5Publish (mkPub5 Q1 3 3 3 None); R5PubRel 2], [], [],
          [P5Publish (mkPub5 Q1 3 3 3 None); P5PubRel 2 0; P5Publish (mkPub5 Q1 1 4 4 None)]).
Proof. vm_compute. split; reflexivity. Qed.

(** ---- C02 at loop level: what the client owes — the requests the state machine holds and the ones
    carried over in [pending] — is never dropped by the loop, with three exits, all explicit:
      (1) the broker's word on it, in a packet of the read batch (final ack / refusing PUBREC /
          accepting PUBREC, after which the release of the same id is owed);
      (2) a reconnect WITHOUT session (pending.clear(), by design);
      (3) [rejected]: it is at the head of [pending], is taken, and the state machine refuses it:
          the request is consumed, poll() returns the error, and it is gone.  For a carried
          publish this happens: FINDING, witness [alias_lowered_replay_loses_publish5] below. *)
Definition op_pkts5 (o : lop5) : list packet5 := match o with Net5 p | NetAbort5 p => p | _ => [] end.

Definition ack_exit5 (pk : packet5) (r : request5) : Prop :=
  final_ack5 (Inc5 pk) r \/ refused_by_pubrec5 (Inc5 pk) r \/ released5 (Inc5 pk) r.

Definition lexit5 (l : lstate5) (o : lop5) (r : request5) : Prop :=
  (exists pk, In pk (op_pkts5 o) /\ ack_exit5 pk r)
  \/ (exists rm tam, o = Reconnect5 false rm tam)
  \/ (o = TakeRequest5 /\ exists rest s' e, pending5 l = r :: rest /\ handle_outgoing_packet5 (st5 l) r = Err (s', e)).

Definition owed5 (l : lstate5) : list request5 := held5 (st5 l) ++ pending5 l.

Lemma owed5_intro l r : Inv5 (st5 l) -> holds5 (st5 l) r \/ In r (pending5 l) -> In r (owed5 l).
Proof. intros I [H | H]; apply in_or_app; [left; apply in_held5; assumption|right; exact H]. Qed.

Lemma owed5_clean l r : Inv5 (st5 l) -> holds5 (st5 l) r \/ In r (pending5 l) -> In r (owed5 (loop_clean5 l)).
Proof.
  intros I H. destruct (loop_clean5_spec l I) as [_ [_ [_ [_ Hp]]]]. unfold owed5. apply in_or_app. right. rewrite Hp.
  destruct H as [H | H]; [apply in_or_app; left; apply in_held5; assumption|].
  apply in_or_app. right. apply in_or_app. left. exact H.
Qed.

Lemma read_batch5_keeps pkts : forall s buf, Inv5 s ->
  forall s', match read_batch5 s pkts buf with Ok (x, _) => Some x | Err (x, _) => Some x | Panic _ => None end = Some s' ->
  forall r, holds5 s r -> holds5 s' r \/ exists pk, In pk pkts /\ ack_exit5 pk r.
Proof.
  induction pkts as [| pk pkts IH]; intros s buf I s' Hs r Hr; cbn [read_batch5] in Hs.
  { inversion Hs. subst. left. exact Hr. }
  pose proof (handle_incoming_packet5_inv s pk I) as Hinv.
  assert (Hone : forall s1, res_state5 (handle_incoming_packet5 s pk) = Some s1 -> holds5 s1 r \/ ack_exit5 pk r).
  { intros s1 H1. rewrite <- next5_inc in H1.
    destruct (keep_held5 s (Inc5 pk) s1 I eq_refl ltac:(discriminate) H1 r Hr) as [H | [H | [H | H]]]; [left; exact H| | |];
      right; unfold ack_exit5; [left; exact H|right; left; exact H|right; right].
    destruct pk; cbn [moved_to_release5 released5] in *; try contradiction. destruct r; try contradiction. tauto. }
  destruct (handle_incoming_packet5 s pk) as [[s1 [rp|]] | [s1 e] | t]; cbn [post5] in Hinv; try contradiction.
  - destruct (Hone s1 eq_refl) as [H | H]; [|right; exists pk; split; [left; reflexivity|exact H]].
    destruct (IH s1 _ Hinv s' Hs r H) as [G | [pk' [Hin G]]]; [left; exact G|right; exists pk'; split; [right; exact Hin|exact G]].
  - destruct (Hone s1 eq_refl) as [H | H]; [|right; exists pk; split; [left; reflexivity|exact H]].
    destruct (IH s1 _ Hinv s' Hs r H) as [G | [pk' [Hin G]]]; [left; exact G|right; exists pk'; split; [right; exact Hin|exact G]].
  - inversion Hs. subst s1. destruct (Hone s' eq_refl) as [H | H]; [left; exact H|right; exists pk; split; [left; reflexivity|exact H]].
Qed.

Lemma out_keeps s rq s' r : Inv5 s -> op_ok5 s (Out5 rq) = true -> res_state5 (handle_outgoing_packet5 s rq) = Some s' ->
  holds5 s r -> holds5 s' r.
Proof.
  intros I Hok Hs Hr. rewrite <- next5_out in Hs.
  destruct (keep_held5 s (Out5 rq) s' I Hok ltac:(discriminate) Hs r Hr) as [H | [H | [H | H]]]; [exact H| | |];
    cbn in H; contradiction.
Qed.

Theorem lstep5_keeps_owed l o l' : LInv5 l -> wf_user5 o = true -> lnext5 l o = Some l' ->
  forall r, carried5 (s5_max_limit (st5 l)) r = true -> In r (owed5 l) -> In r (owed5 l') \/ lexit5 l o r.
Proof.
  intros LI Hw Hn r Hcar Hin. pose proof LI as [I Hsh Hch Hrl].
  assert (Hor : holds5 (st5 l) r \/ In r (pending5 l)).
  { unfold owed5 in Hin. apply in_app_or in Hin. destruct Hin as [H | H]; [left; apply in_held5; assumption|right; exact H]. }
  unfold lnext5, lnext5_gen, lstep5 in Hn. destruct o; cbn [lstep5_gen] in Hn.
  - (* UserSend *) inversion Hn. subst l'. left. apply owed5_intro; cbn [st5 pending5]; assumption.
  - (* Yield *) destruct (s5_events (st5 l)); inversion Hn; subst l'; left; [exact Hin|].
    apply owed5_intro; cbn [st5 pending5]; [apply inv5_u_events; exact I|exact Hor].
  - (* TakeRequest *)
    pose proof (take_ok5_linv l LI) as Hok. unfold take_ok5, take_ok5_gen in Hok.
    destruct (take_enabled5 l) eqn:Et; [|inversion Hn; subst; left; exact Hin].
    destruct (next_request5 l) as [[rq l1]|] eqn:En; [|inversion Hn; subst; left; exact Hin].
    assert (Hl1 : st5 l1 = st5 l /\
                  ((pending5 l = rq :: pending5 l1) \/ (pending5 l = [] /\ pending5 l1 = []))).
    { unfold next_request5 in En. destruct (pending5 l) as [| r0 rest] eqn:Ep.
      - destruct (chan5 l) as [| r0 rest] eqn:Ec; [discriminate|]. inversion En. subst. cbn. auto.
      - inversion En. subst. cbn. auto. }
    destruct Hl1 as [Hst Hpc]. rewrite Hst in *.
    pose proof (handle_outgoing_packet5_inv (st5 l) rq I Hok) as Hinv.
    (* what becomes of r in the state the handler leaves, whatever the handler answers *)
    assert (Hnew : forall s', res_state5 (handle_outgoing_packet5 (st5 l) rq) = Some s' ->
              holds5 s' r \/ In r (pending5 l1) \/
              (exists rest e, pending5 l = r :: rest /\ handle_outgoing_packet5 (st5 l) r = Err (s', e))).
    { intros s' Hs. destruct Hor as [Hh | Hp]; [left; apply (out_keeps _ rq _ _ I Hok Hs Hh)|].
      destruct Hpc as [Hp1 | [Hp1 _]]; [|rewrite Hp1 in Hp; destruct Hp].
      rewrite Hp1 in Hp. destruct Hp as [<- | Hp]; [|right; left; exact Hp].
      destruct (handle_outgoing_packet5 (st5 l) rq) as [[s2 rep] | [s2 e] | t] eqn:E; cbn [res_state5] in Hs; inversion Hs; subst s2.
      - left. destruct rq; cbn in Hcar; try discriminate.
        + apply andb_true_iff in Hcar. destruct Hcar as [H1 Hq].
          assert (Hq0 : q_qos p <> Q0) by (destruct (q_qos p); [discriminate|discriminate|discriminate]).
          destruct (accept_held5 (st5 l) p s' rep I Hok Hq0 E) as [id [_ [_ [Hid [Hh _]]]]].
          assert (E0 : id = q_pkid p) by (apply Hid; lia). subst id.
          replace (with_pkid5 p (q_pkid p)) with p in Hh by (destruct p; reflexivity). exact Hh.
        + cbn [op_ok5] in Hok. apply andb_true_iff in Hok. destruct Hok as [Hok Hb]. apply andb_true_iff in Hok. destruct Hok as [H1 H2].
          assert (Hbf : busy5 (st5 l) id = false) by (destruct (busy5 (st5 l) id); [discriminate|reflexivity]).
          destruct (outgoing_pubrel5_eff (st5 l) id I ltac:(lia) ltac:(lia) Hbf) as [rl [Hrl' He]].
          cbn [handle_outgoing_packet5] in E. rewrite He in E. inversion E. subst s'. cbn [holds5]. sproj5.
          rewrite (bit_vset _ _ _ id _ Hrl'), N.eqb_refl. reflexivity.
      - right. right. exists (pending5 l1), e. split; [exact Hp1|reflexivity]. }
    destruct (handle_outgoing_packet5 (st5 l) rq) as [[s' [pk|]] | [s' e] | t] eqn:E; cbn [post5] in Hinv; try discriminate;
      inversion Hn; subst l'; destruct (Hnew s' eq_refl) as [H | [H | [rest [e' [Hp He]]]]].
    all: try (left; apply owed5_intro; cbn [with_wire5 with_st5 st5 pending5]; [exact Hinv|auto]; fail).
    all: try (left; apply owed5_clean; cbn [with_st5 st5 pending5]; [exact Hinv|auto]; fail).
    all: right; right; right; split; [reflexivity|]; exists rest; eauto.
  - (* TakeCancelled *) inversion Hn. subst. left. exact Hin.
  - (* Net *)
    destruct (arm_ready5 l && negb _); [|inversion Hn; subst; left; exact Hin].
    pose proof (read_batch5_inv pkts (st5 l) [] I) as Hinv.
    pose proof (read_batch5_keeps pkts (st5 l) [] I) as Hk.
    destruct (read_batch5 (st5 l) pkts []) as [[s' rp] | [s' e] | t]; try discriminate; inversion Hn; subst l';
      (destruct Hor as [Hh | Hp];
       [destruct (Hk s' eq_refl r Hh) as [G | G]; [|right; left; exact G]|]).
    + left. apply owed5_intro; cbn [with_wire5 with_st5 st5 pending5]; auto.
    + left. apply owed5_intro; cbn [with_wire5 with_st5 st5 pending5]; auto.
    + left. apply owed5_clean; cbn [with_st5 st5 pending5]; auto.
    + left. apply owed5_clean; cbn [with_st5 st5 pending5]; auto.
  - (* NetAbort *)
    destruct (arm_ready5 l); [|inversion Hn; subst; left; exact Hin].
    pose proof (read_batch5_inv pkts (st5 l) [] I) as Hinv.
    pose proof (read_batch5_keeps pkts (st5 l) [] I) as Hk.
    destruct (read_batch5 (st5 l) pkts []) as [[s' rp] | [s' e] | t]; try discriminate; inversion Hn; subst l';
      (destruct Hor as [Hh | Hp];
       [destruct (Hk s' eq_refl r Hh) as [G | G]; [|right; left; exact G]|]);
      left; apply owed5_clean; cbn [with_st5 st5 pending5]; auto.
  - (* KeepAliveFire *)
    destruct (arm_ready5 l); [|inversion Hn; subst; left; exact Hin].
    pose proof (handle_outgoing_packet5_inv (st5 l) R5PingReq I eq_refl) as Hinv.
    assert (Hk : forall s', res_state5 (handle_outgoing_packet5 (st5 l) R5PingReq) = Some s' -> holds5 s' r \/ In r (pending5 l)).
    { intros s' Hs. destruct Hor as [Hh | Hp]; [left; apply (out_keeps _ R5PingReq _ _ I eq_refl Hs Hh)|right; exact Hp]. }
    destruct (handle_outgoing_packet5 (st5 l) R5PingReq) as [[s' [pk|]] | [s' e] | t]; cbn [post5] in Hinv; try discriminate;
      inversion Hn; subst l'; left.
    + apply owed5_intro; cbn [with_wire5 with_st5 st5 pending5]; auto.
    + apply owed5_intro; cbn [with_st5 st5 pending5]; auto.
    + apply owed5_clean; cbn [with_st5 st5 pending5]; auto.
  - (* Fail *)
    destruct (connected5 l); inversion Hn; subst l'; left; [apply owed5_clean; assumption|exact Hin].
  - (* Reconnect *)
    destruct (connected5 l); [inversion Hn; subst; left; exact Hin|].
    set (pk := P5ConnAck session_present 0 receive_max topic_alias_max) in *.
    pose proof (handle_incoming_packet5_inv (st5 l) pk I) as Hinv.
    assert (Hk : forall s', res_state5 (handle_incoming_packet5 (st5 l) pk) = Some s' -> holds5 (st5 l) r -> holds5 s' r).
    { intros s' Hs Hh. rewrite <- next5_inc in Hs.
      destruct (keep_held5 (st5 l) (Inc5 pk) s' I eq_refl ltac:(discriminate) Hs r Hh) as [H | [H | [H | H]]]; [exact H| | |];
        cbn in H; contradiction. }
    destruct session_present.
    + destruct (handle_incoming_packet5 (st5 l) pk) as [[s' rp] | [s' e] | t]; cbn [post5] in Hinv; try discriminate;
        inversion Hn; subst l'; left; [apply owed5_intro|apply owed5_clean]; cbn [with_st5 st5 pending5]; auto;
        (destruct Hor as [Hh | Hp]; [left; apply Hk; auto|right; exact Hp]).
    + destruct Hor as [Hh | Hp]; [|right; right; left; eauto].
      destruct (handle_incoming_packet5 (st5 l) pk) as [[s' rp] | [s' e] | t]; cbn [post5] in Hinv; try discriminate;
        inversion Hn; subst l'; left; [apply owed5_intro|apply owed5_clean]; cbn [with_st5 st5 pending5]; auto.
Qed.

Lemma read_batch5_limit pkts : forall s buf s',
  match read_batch5 s pkts buf with Ok (x, _) => Some x | Err (x, _) => Some x | Panic _ => None end = Some s' ->
  s5_max_limit s' = s5_max_limit s.
Proof.
  induction pkts as [| pk pkts IH]; intros s buf s' H; cbn [read_batch5] in H; [inversion H; reflexivity|].
  pose proof (in_limit s pk) as Hl. destruct (handle_incoming_packet5 s pk) as [[s1 [rp|]] | [s1 e] | t]; try discriminate.
  - rewrite (IH _ _ _ H). apply Hl. reflexivity.
  - rewrite (IH _ _ _ H). apply Hl. reflexivity.
  - inversion H. subst. apply Hl. reflexivity.
Qed.

(** no loop op changes the configured limit *)
Lemma lnext5_limit l o l1 : lnext5 l o = Some l1 -> s5_max_limit (st5 l1) = s5_max_limit (st5 l).
Proof.
  intros En. unfold lnext5, lnext5_gen, lstep5 in En. pose proof loop_clean5_limit as Hcl.
  destruct o; cbn [lstep5_gen] in En.
  - inversion En. reflexivity.
  - destruct (s5_events (st5 l)); inversion En; reflexivity.
  - destruct (take_enabled5 l); [|inversion En; reflexivity].
    destruct (next_request5 l) as [[rq l0]|] eqn:E; [|inversion En; reflexivity].
    rewrite <- (next_request5_st _ _ _ E). pose proof (out_limit (st5 l0) rq) as Hol.
    destruct (handle_outgoing_packet5 (st5 l0) rq) as [[s' [pk|]] | [s' e] | t]; inversion En; subst;
      rewrite ?Hcl; cbn [with_wire5 with_st5 st5]; apply Hol; reflexivity.
  - inversion En. reflexivity.
  - destruct (arm_ready5 l && negb _); [|inversion En; reflexivity].
    pose proof (read_batch5_limit pkts (st5 l) []) as Hb.
    destruct (read_batch5 (st5 l) pkts []) as [[s' rp] | [s' e] | t]; inversion En; subst;
      rewrite ?Hcl; cbn [with_wire5 with_st5 st5]; apply Hb; reflexivity.
  - destruct (arm_ready5 l); [|inversion En; reflexivity].
    pose proof (read_batch5_limit pkts (st5 l) []) as Hb.
    destruct (read_batch5 (st5 l) pkts []) as [[s' rp] | [s' e] | t]; inversion En; subst;
      rewrite ?Hcl; cbn [with_wire5 with_st5 st5]; apply Hb; reflexivity.
  - destruct (arm_ready5 l); [|inversion En; reflexivity].
    pose proof (out_limit (st5 l) R5PingReq) as Hol.
    destruct (handle_outgoing_packet5 (st5 l) R5PingReq) as [[s' [pk|]] | [s' e] | t]; inversion En; subst;
      rewrite ?Hcl; cbn [with_wire5 with_st5 st5]; apply Hol; reflexivity.
  - destruct (connected5 l); inversion En; subst; [apply Hcl|reflexivity].
  - destruct (connected5 l); [inversion En; reflexivity|].
    match type of En with context [handle_incoming_packet5 ?s ?pk] =>
      pose proof (in_limit s pk) as Hil; destruct (handle_incoming_packet5 s pk) as [[s' rp] | [s' e] | t] end;
      inversion En; subst; rewrite ?Hcl; cbn [with_st5 st5]; apply Hil; reflexivity.
Qed.

(** run level: along EVERY history of well-formed loop ops, from every reachable loop state *)
Fixpoint lexit5_in (l : lstate5) (h : list lop5) (r : request5) : Prop :=
  match h with
  | [] => False
  | o :: t => lexit5 l o r \/ match lnext5 l o with Some l' => lexit5_in l' t r | None => False end
  end.

Theorem lrun5_keeps_owed h : forall l l', LInv5 l -> forallb wf_user5 h = true -> lrun5 l h = Some l' ->
  forall r, carried5 (s5_max_limit (st5 l)) r = true -> In r (owed5 l) -> In r (owed5 l') \/ lexit5_in l h r.
Proof.
  induction h as [| o h IH]; intros l l' LI Hw Hr r Hc Hin.
  { cbn in Hr. inversion Hr. subst. left. exact Hin. }
  cbn [forallb] in Hw. apply andb_true_iff in Hw. destruct Hw as [Ho Hw].
  unfold lrun5 in Hr. cbn [lrun5_gen] in Hr. fold lrun5 in Hr. fold lnext5 in Hr.
  destruct (lnext5 l o) as [l1|] eqn:En; [|discriminate].
  assert (LI1 : LInv5 l1).
  { pose proof (lstep5_linv l o LI Ho) as H. unfold lnext5, lnext5_gen in En.
    destruct (lstep5 l o) as [x | x e | | t]; inversion En; subst; auto. }
  pose proof (lnext5_limit l o l1 En) as Hlim.
  destruct (lstep5_keeps_owed l o l1 LI Ho En r Hc Hin) as [H | H]; [|right; cbn [lexit5_in]; left; exact H].
  rewrite <- Hlim in Hc.
  destruct (IH l1 l' LI1 Hw Hr r Hc H) as [G | G]; [left; exact G|right; cbn [lexit5_in]; right; rewrite En; exact G].
Qed.

(** FINDING (C02, v5 only): exit (3) is reachable for an accepted publish.  A QoS 1 publish carrying
    topic alias 5 is accepted and written under topic-alias-maximum 10; the connection fails; the
    broker resumes the session with topic-alias-maximum 3; the retransmission is refused
    ([InvalidAlias 5 3]) — the request has been consumed, poll() returns the error, clean() runs: the
    publish is neither held, nor pending, nor queued.  Replayed on the real v5 EventLoop
    (build/c5/alias_loss.txt: ERROR InvalidAlias:5:3, then HELD []). *)
Example alias_lowered_replay_loses_publish5 :
  let p := mkPub5 Q1 0 1 1 (Some 5) in
  let h := [Reconnect5 true None (Some 10); Yield5; UserSend5 (R5Publish p); TakeRequest5; Yield5; Fail5;
            Reconnect5 true None (Some 3); Yield5] in
  forallb wf_user5 (h ++ [TakeRequest5]) = true /\
  option_map (fun l => (owed5 l, chan5 l, wire5 l)) (lrun5 (linit5 2 false) (firstn 5 h))
    = Some ([R5Publish (with_pkid5 p 1)], [], [P5Publish (with_pkid5 p 1)]) /\
  option_map (fun l => (owed5 l, chan5 l)) (lrun5 (linit5 2 false) h) = Some ([R5Publish (with_pkid5 p 1)], []) /\
  (exists l l', lrun5 (linit5 2 false) h = Some l /\
     lstep5 l TakeRequest5 = Failed5 l' (LE5State (E5InvalidAlias 5 3)) /\
     owed5 l' = [] /\ chan5 l' = [] /\ connected5 l' = false).
Proof. vm_compute. repeat split. eexists. eexists. repeat split. Qed.
