(** Witnesses of the findings on the v4 client state machine.  F4/F8/F9 are about the code before
    the fix: commits (Client/State4Orig.v) and are shown NOT to reproduce on the current model;
    F29/F30 are about the current code (C11 known findings, classes K29/K30 of Run4.v).
    All by [vm_compute] on closed terms. *)
From Rumqtt Require Import Client.Run4.

Definition pq (q : qos) (tag : N) : op := Out (RPublish (mkPub q 0 tag tag)).

(** the final [clean] of a history *)
Definition clean_after (stp : state -> op -> R reply) (max : N) (h : list op) : option (list request) :=
  match run_with stp (init max false) h with
  | Some s => match stp s Clean with Ok (_, Cleaned l) => Some l | _ => None end
  | None => None
  end.

(** F4: P1 QoS2 (id 1), P2 QoS1 (id 2), PUBACK 2, P3 parked on id 1, PUBREC 1, PUBCOMP 1:
    P3 is written but not recorded — [clean] returns nothing, inflight = 0. *)
Definition f4_history : list op :=
  [pq Q2 1; pq Q1 2; Inc (PPubAck 2); pq Q1 3; Inc (PPubRec 1); Inc (PPubComp 1)].

Lemma f4_refuted :
  step_orig (match run_orig (init 2 false) (firstn 5 f4_history) with Some s => set_events s [] | None => init 2 false end)
            (Inc (PPubComp 1))
  = Ok (match run_orig (init 2 false) f4_history with Some s => set_events s [EvIn (PPubComp 1); EvOut (OPublish 1)] | None => init 2 false end,
        Wrote (Some (PPublish (mkPub Q1 1 3 3))))
  /\ clean_after step_orig 2 f4_history = Some []
  /\ option_map inflight (run_orig (init 2 false) f4_history) = Some 0.
Proof. vm_compute. repeat split. Qed.

Lemma f4_fixed :
  clean_after step 2 f4_history = Some [RPublish (mkPub Q1 1 3 3)]
  /\ option_map inflight (run (init 2 false) f4_history) = Some 1.
Proof. vm_compute. repeat split. Qed.

(** F9: P1 QoS2 id 1, PUBREC 1, P2 id 2, PUBACK 2, then P3 is WRITTEN with id 1 while PUBREL 1
    still awaits PUBCOMP; after PUBREC 1, PUBCOMP 1 the inflight counter is 1 with nothing held. *)
Definition f9_history : list op :=
  [pq Q2 1; Inc (PPubRec 1); pq Q1 2; Inc (PPubAck 2)].

Lemma f9_refuted :
  (exists s s', run_orig (init 2 false) f9_history = Some s
     /\ bit (outgoing_rel s) 1 = true
     /\ step_orig s (pq Q1 3) = Ok (s', Wrote (Some (PPublish (mkPub Q1 1 3 3)))))
  /\ option_map (fun s => (inflight s, somes (outgoing_pub s), ones (outgoing_rel s)))
       (run_orig (init 2 false) (f9_history ++ [pq Q1 3; Inc (PPubRec 1); Inc (PPubComp 1)]))
     = Some (1, [], []).
Proof. split; [eexists; eexists|]; vm_compute; repeat split. Qed.

Lemma f9_fixed :
  exists s s', run (init 2 false) f9_history = Some s
     /\ step s (pq Q1 3) = Ok (s', Wrote None) /\ collision s' = Some (mkPub Q1 1 3 3).
Proof. eexists; eexists; vm_compute; repeat split. Qed.

(** F8: max_inflight 1: P1 id 1; P2 parked; [clean] returns P1 only and leaves the collision set. *)
Lemma f8_refuted :
  clean_after step_orig 1 [pq Q1 1; pq Q1 2] = Some [RPublish (mkPub Q1 1 1 1)]
  /\ option_map collision (match run_orig (init 1 false) [pq Q1 1; pq Q1 2] with
                           | Some s => next step_orig s Clean | None => None end)
     = Some (Some (mkPub Q1 1 2 2)).
Proof. vm_compute. repeat split. Qed.

Lemma f8_fixed :
  clean_after step 1 [pq Q1 1; pq Q1 2] = Some [RPublish (mkPub Q1 1 1 1); RPublish (mkPub Q1 1 2 2)]
  /\ option_map collision (match run (init 1 false) [pq Q1 1; pq Q1 2] with
                           | Some s => next step s Clean | None => None end)
     = Some None.
Proof. vm_compute. repeat split. Qed.

(** F7 (state-machine half, current code): a second publish handed over while a collision is
    parked overwrites it.  This is a breach of the caller contract ([contract] = false): whether
    the event loop commits it is the loop half (Client/Loop.v). *)
Lemma f7_state_half :
  clean_after step 1 [pq Q1 1; pq Q1 2; pq Q1 3] = Some [RPublish (mkPub Q1 1 1 1); RPublish (mkPub Q1 1 3 3)]
  /\ contract (init 1 false) [pq Q1 1; pq Q1 2; pq Q1 3] = false.
Proof. vm_compute. repeat split. Qed.

(** F30 (current code, C11): subscribe (id 1), publish (id 2), publish (id 1), nothing acked:
    [clean] returns id 1 before id 2 — not the order they were sent in. *)
Definition f30_history : list op := [Out (RSubscribe 1); pq Q1 1; pq Q1 2].
Lemma f30_witness :
  k30 f30_history = true /\ k29 2 false f30_history = false /\ contract (init 2 false) f30_history = true
  /\ clean_after step 2 f30_history = Some [RPublish (mkPub Q1 1 2 2); RPublish (mkPub Q1 2 1 1)].
Proof. vm_compute. repeat split. Qed.

(** F29 (current code, C11): publish (id 1), failure, reconnect WITHOUT session (nothing replayed),
    publish (id 2), publish (id 1), failure: [clean] returns id 1 before id 2. *)
Definition f29_history : list op := [pq Q1 1; Clean; pq Q1 2; pq Q1 3].
Lemma f29_witness :
  k29 2 false f29_history = true /\ k30 f29_history = false /\ contract (init 2 false) f29_history = true
  /\ clean_after step 2 f29_history = Some [RPublish (mkPub Q1 1 3 3); RPublish (mkPub Q1 2 2 2)].
Proof. vm_compute. repeat split. Qed.

Lemma f4_summary :
  clean_after step_orig 2 f4_history = Some [] /\ option_map inflight (run_orig (init 2 false) f4_history) = Some 0
  /\ clean_after step 2 f4_history = Some [RPublish (mkPub Q1 1 3 3)].
Proof. vm_compute. repeat split. Qed.

Lemma f8_summary :
  clean_after step_orig 1 [pq Q1 1; pq Q1 2] = Some [RPublish (mkPub Q1 1 1 1)]
  /\ clean_after step 1 [pq Q1 1; pq Q1 2] = Some [RPublish (mkPub Q1 1 1 1); RPublish (mkPub Q1 1 2 2)].
Proof. vm_compute. repeat split. Qed.
