(** Effect lemmas for the v5 client state machine (Client/State5.v): what each handler does to the
    slot vectors, the parked collision, the notification queue and the reply — under [Inv5].
    Port of Client/Eff4.v.  v5 differences: no [last_puback]; a PUBREC carrying a failure reason
    frees the id like a PUBACK does (same tail); the tables have [s5_max_limit]+1 slots. *)
From Coq Require Import Arith ZifyBool ZifyN ZifyNat.
From Rumqtt Require Import Client.VecLemmas Client.State5 Client.Inv5.

Definition pub_at5 (s : state5) (i : N) : option publish5 :=
  match vget (s5_pub s) i with Some (Some p) => Some p | _ => None end.

(** the part of the state the flow properties talk about *)
Definition slots_eq5 (s s' : state5) : Prop :=
  s5_pub s' = s5_pub s /\ s5_rel s' = s5_rel s /\ s5_collision s' = s5_collision s
  /\ s5_max s' = s5_max s /\ s5_max_limit s' = s5_max_limit s /\ s5_manual s' = s5_manual s.

Lemma slots_eq5_refl s : slots_eq5 s s.
Proof. repeat split. Qed.

Definition res_state5 {A} (r : R5 A) : option state5 :=
  match r with Ok (s, _) => Some s | Err (s, _) => Some s | Panic _ => None end.

Lemma inv5_id_le s i x : Inv5 s -> vget (s5_pub s) i = Some x -> i <= s5_max_limit s.
Proof.
  intros I Eg. apply vget_some_lt in Eg. rewrite (j_lenp s I) in Eg. apply idx_lt_len5. exact Eg.
Qed.

Lemma inv5_busy_le s i : Inv5 s -> busy5 s i = true -> 1 <= i <= s5_max_limit s.
Proof.
  intros I Hb. unfold busy5 in Hb. apply orb_true_iff in Hb. destruct Hb as [Hb | Hb].
  - destruct (vget (s5_pub s) i) as [[p|]|] eqn:Eg; try discriminate.
    split; [apply (j_slot s I i p Eg)|eapply inv5_id_le; eauto].
  - split.
    + destruct (N.eq_dec i 0) as [-> |]; [|lia]. rewrite (j_rel0 s I) in Hb. discriminate.
    + unfold bit in Hb. destruct (vget (s5_rel s) i) eqn:E; [|discriminate].
      apply vget_some_lt in E. rewrite (j_lenr s I) in E. apply idx_lt_len5. exact E.
Qed.

(** ---- place_publish5 *)
Lemma place_publish5_eff s p :
  Inv5 s -> s5_collision s = None -> 1 <= q_pkid p -> q_qos p <> Q0 ->
  (q_pkid p > s5_max_limit s /\ place_publish5 s p = Err (s, E5Unsolicited (q_pkid p)))
  \/ (q_pkid p <= s5_max_limit s /\ busy5 s (q_pkid p) = true /\
      place_publish5 s p = Ok (push5 (u_collision s (Some p)) (Ev5Out (OAwaitAck (q_pkid p))), None))
  \/ (q_pkid p <= s5_max_limit s /\ busy5 s (q_pkid p) = false /\
      exists l, vset (s5_pub s) (q_pkid p) (Some p) = Some l /\
        place_publish5 s p = Ok (push5 (u_inflight (u_pub s l) (s5_inflight s + 1)) (Ev5Out (OPublish (q_pkid p))),
                                 Some (P5Publish p))).
Proof.
  intros I Hc H1 Hq. unfold place_publish5.
  destruct (vget (s5_pub s) (q_pkid p)) as [slot|] eqn:Eg.
  2:{ left. split; [|reflexivity]. apply vget_none_ge in Eg. rewrite (j_lenp s I) in Eg. unfold idx in Eg. lia. }
  assert (Hle : q_pkid p <= s5_max_limit s) by (eapply inv5_id_le; eauto).
  right. destruct (is_some slot || bit (s5_rel s) (q_pkid p)) eqn:Eb.
  - left. split; [exact Hle|]. split; [|reflexivity]. unfold busy5. rewrite Eg.
    destruct slot; cbn [is_some] in Eb; [reflexivity|exact Eb].
  - right. destruct slot as [x|]; [discriminate|]. cbn [is_some orb] in Eb.
    split; [exact Hle|]. split; [unfold busy5; rewrite Eg; exact Eb|].
    unfold pub_store5, inflight_inc5.
    destruct (vset_of_vget _ _ _ (Some p) Eg) as [l Hl]. rewrite Hl. cbn [bind]. sproj5.
    destruct (inv5_store s p l I H1 Hq Eg Eb Hl) as [Hinf _].
    { intros q Hcq. congruence. }
    pose proof (j_max2 s I). unfold U16_MAX in *.
    destruct (N.eqb_spec (s5_inflight s) 65535); [lia|]. cbn [bind]. exists l. split; reflexivity.
Qed.

(** ---- resend5: the publish goes into its (free) slot and onto the wire *)
Lemma resend5_eff s p :
  Inv5 s -> s5_collision s = None -> 1 <= q_pkid p -> q_qos p <> Q0 ->
  vget (s5_pub s) (q_pkid p) = Some None -> bit (s5_rel s) (q_pkid p) = false ->
  exists l, vset (s5_pub s) (q_pkid p) (Some p) = Some l /\
    resend5 s p = Ok (u_cpc (push5 (u_inflight (u_pub s l) (s5_inflight s + 1)) (Ev5Out (OPublish (q_pkid p)))) 0,
                      Some (P5Publish p)).
Proof.
  intros I Hc H1 Hq Hfree Hrel. unfold resend5, pub_store5, inflight_inc5.
  destruct (vset_of_vget _ _ _ (Some p) Hfree) as [l Hl]. rewrite Hl. cbn [bind]. sproj5.
  destruct (inv5_store s p l I H1 Hq Hfree Hrel Hl) as [Hle _].
  { intros q Hcq. congruence. }
  pose proof (j_max2 s I). unfold U16_MAX in *.
  destruct (N.eqb_spec (s5_inflight s) 65535); [lia|]. cbn [bind]. exists l. split; reflexivity.
Qed.

(** ---- the tail shared by PUBACK, PUBCOMP and a refusing PUBREC *)
Lemma ack_tail5_eff s id :
  Inv5 (u_collision s None) -> 1 <= id ->
  vget (s5_pub s) id = Some None -> bit (s5_rel s) id = false ->
  (forall q, s5_collision s = Some q -> q_qos q <> Q0) ->
  (exists q l, s5_collision s = Some q /\ q_pkid q = id /\ vset (s5_pub s) id (Some q) = Some l /\
     ack_tail5 s id = Ok (u_cpc (push5 (u_inflight (u_pub (u_collision s None) l) (s5_inflight s + 1)) (Ev5Out (OPublish id))) 0,
                          Some (P5Publish q)))
  \/ ((forall q, s5_collision s = Some q -> q_pkid q <> id) /\ ack_tail5 s id = Ok (s, None)).
Proof.
  intros I H1 Hfree Hrel Hq. unfold ack_tail5.
  destruct (check_collision5_spec s id) as [[p [Hp [Hid ->]]] | [Hne ->]].
  - left. subst id.
    destruct (resend5_eff (u_collision s None) p I eq_refl H1 (Hq p Hp) Hfree Hrel) as [l [Hl Hr]].
    exists p, l. repeat split; auto.
  - right. split; auto.
Qed.

(** ---- a publish slot is freed and the tail runs (PUBACK; PUBREC with a failure reason) *)
Definition free_pub_then_tail5 (s : state5) (id : N) : R5 (option packet5) :=
  do (s, _) <- pub_store5 s id None; do (s, _) <- inflight_dec5 s; ack_tail5 s id.

Lemma free_pub_then_tail5_eff s id p0 :
  Inv5 s -> vget (s5_pub s) id = Some (Some p0) ->
  exists l, vset (s5_pub s) id None = Some l /\
    let s1 := u_inflight (u_pub s l) (s5_inflight s - 1) in
    free_pub_then_tail5 s id = ack_tail5 s1 id /\ 1 <= id /\ 1 <= s5_inflight s /\
    Inv5 (u_collision s1 None) /\ vget l id = Some None /\ bit (s5_rel s) id = false.
Proof.
  intros I Eg. unfold free_pub_then_tail5, pub_store5, inflight_dec5.
  destruct (vset_of_vget _ _ _ None Eg) as [l Hl]. rewrite Hl. cbn [bind]. sproj5.
  pose proof (inv5_infl_pos_pub s id p0 I Eg) as Hpos.
  destruct (N.eqb_spec (s5_inflight s) 0); [lia|]. cbn [bind].
  destruct (j_slot s I id p0 Eg) as [_ [H1 _]].
  exists l. split; [reflexivity|]. cbv zeta.
  split; [reflexivity|]. split; [exact H1|]. split; [exact Hpos|]. split; [|split].
  - assert (I0 : Inv5 (u_inflight (u_pub (u_collision s None) l) (s5_inflight s - 1))).
    { apply (inv5_free_pub (u_collision s None) id p0 l); sproj5.
      - apply inv5_drop_collision; assumption.
      - exact Eg.
      - exact Hl.
      - split; [exact Hpos|]. intros q Hq. discriminate. }
    eapply inv5_frame; [exact I0|..]; reflexivity.
  - eapply vget_vset_same; eauto.
  - apply (j_excl s I id p0 Eg).
Qed.

(** ---- handle_incoming_puback5 *)
Lemma handle_incoming_puback5_eff s id r :
  Inv5 s ->
  (pub_at5 s id = None /\ handle_incoming_puback5 s id r = Err (s, E5Unsolicited id))
  \/ (exists p0, vget (s5_pub s) id = Some (Some p0) /\ handle_incoming_puback5 s id r = free_pub_then_tail5 s id).
Proof.
  intros I. unfold handle_incoming_puback5, pub_at5, free_pub_then_tail5.
  destruct (vget (s5_pub s) id) as [[p0|]|] eqn:Eg; [right|left; auto|left; auto].
  exists p0. split; reflexivity.
Qed.

(** ---- handle_incoming_pubrec5 *)
Lemma handle_incoming_pubrec5_eff s id r :
  Inv5 s ->
  (pub_at5 s id = None /\ handle_incoming_pubrec5 s id r = Err (s, E5Unsolicited id))
  \/ (ack_ok r = false /\ exists p0, vget (s5_pub s) id = Some (Some p0) /\
      handle_incoming_pubrec5 s id r = free_pub_then_tail5 s id)
  \/ (ack_ok r = true /\ exists p0 l rl, vget (s5_pub s) id = Some (Some p0) /\ vset (s5_pub s) id None = Some l /\
      vset (s5_rel s) id true = Some rl /\
      handle_incoming_pubrec5 s id r = Ok (push5 (u_rel (u_pub s l) rl) (Ev5Out (OPubRel id)), Some (P5PubRel id 0))).
Proof.
  intros I. unfold handle_incoming_pubrec5, pub_at5, free_pub_then_tail5.
  destruct (vget (s5_pub s) id) as [[p0|]|] eqn:Eg; [right|left; auto|left; auto].
  destruct (ack_ok r) eqn:Er; cbn [negb]; [right|left].
  - unfold pub_store5, rel_set5.
    destruct (vset_of_vget _ _ _ None Eg) as [l Hl]. rewrite Hl. cbn [bind]. sproj5.
    assert (Hlt : (idx id < length (s5_rel s))%nat).
    { apply vget_some_lt in Eg. rewrite (j_lenr s I), <- (j_lenp s I). exact Eg. }
    destruct (vset_some (s5_rel s) id true Hlt) as [rl Hr]. rewrite Hr. cbn [bind]. sproj5.
    split; [reflexivity|]. exists p0, l, rl. repeat split; auto.
  - split; [reflexivity|]. exists p0. split; [reflexivity|].
    unfold pub_store5. destruct (vset (s5_pub s) id None); reflexivity.
Qed.

(** ---- handle_incoming_pubcomp5 *)
Lemma handle_incoming_pubcomp5_eff s id r :
  Inv5 s ->
  (bit (s5_rel s) id = false /\ handle_incoming_pubcomp5 s id r = Err (s, E5Unsolicited id))
  \/ (bit (s5_rel s) id = true /\ exists rl, vset (s5_rel s) id false = Some rl /\
      let s1 := u_inflight (u_rel s rl) (s5_inflight s - 1) in
      handle_incoming_pubcomp5 s id r = ack_tail5 s1 id /\ 1 <= id /\ 1 <= s5_inflight s /\
      Inv5 (u_collision s1 None) /\ vget (s5_pub s) id = Some None /\ bit rl id = false).
Proof.
  intros I. unfold handle_incoming_pubcomp5.
  destruct (bit (s5_rel s) id) eqn:Eb; cbn [negb]; [right|left; auto].
  split; [reflexivity|]. unfold rel_set5, inflight_dec5.
  assert (Hlt : (idx id < length (s5_rel s))%nat).
  { unfold bit in Eb. destruct (vget (s5_rel s) id) eqn:E; [|discriminate]. eapply vget_some_lt; eauto. }
  destruct (vset_some (s5_rel s) id false Hlt) as [l Hl]. rewrite Hl. cbn [bind]. sproj5.
  pose proof (inv5_infl_pos_rel s id I Eb) as Hpos.
  destruct (N.eqb_spec (s5_inflight s) 0); [lia|]. cbn [bind].
  assert (H1 : 1 <= id).
  { destruct (N.eq_dec id 0) as [-> |]; [|lia]. rewrite (j_rel0 s I) in Eb. discriminate. }
  assert (Hnone : vget (s5_pub s) id = Some None).
  { rewrite (j_lenr s I), <- (j_lenp s I) in Hlt. destruct (vget_lt_some _ _ Hlt) as [[p|] Hp]; [|exact Hp].
    rewrite (j_excl s I id p Hp) in Eb. discriminate. }
  pose proof (count_true_vset _ _ _ _ Hl) as Hcnt. rewrite Eb in Hcnt. cbn [b2n] in Hcnt.
  pose proof (j_infl s I) as Hinf.
  exists l. split; [reflexivity|]. cbv zeta. split; [reflexivity|]. split; [exact H1|]. split; [exact Hpos|].
  split; [|split; [exact Hnone|]].
  - constructor; sproj5; try apply I.
    + rewrite (vset_length _ _ _ _ Hl). apply I.
    + rewrite (bit_vset _ _ _ 0 _ Hl). destruct (id =? 0); [reflexivity|apply I].
    + intros j q Hj. rewrite (bit_vset _ _ _ j _ Hl). destruct (id =? j); [reflexivity|apply (j_excl s I j q Hj)].
    + lia.
    + intros q Hq. discriminate.
  - rewrite (bit_vset _ _ _ id _ Hl). rewrite N.eqb_refl. reflexivity.
Qed.

(** ---- outgoing_pubrel5 under the contract (a replayed release) *)
Lemma outgoing_pubrel5_eff s id :
  Inv5 s -> 1 <= id -> id <= s5_max_limit s -> busy5 s id = false ->
  exists rl, vset (s5_rel s) id true = Some rl /\
    outgoing_pubrel5 s id = Ok (push5 (u_inflight (u_rel s rl) (s5_inflight s + 1)) (Ev5Out (OPubRel id)), Some (P5PubRel id 0)).
Proof.
  intros I H1 H2 Hb.
  pose proof (outgoing_pubrel5_inv s id I H1 H2 Hb) as Hpost.
  unfold outgoing_pubrel5 in *. destruct (N.eqb_spec id 0); [lia|]. cbn [bind] in *. unfold rel_set5, inflight_inc5 in *.
  destruct (vset (s5_rel s) id true) as [rl|] eqn:Hrl; cbn [bind] in *; [|contradiction]. sproj5.
  destruct (s5_inflight s =? U16_MAX); cbn [bind] in *; [contradiction|].
  exists rl. split; reflexivity.
Qed.

(** ---- handle_incoming_connack5: only the allocator, the limit and the alias maximum change; a
    refused CONNACK (failure code; receive-maximum 0) changes nothing but the alias maximum *)
Definition alias_taken5 (s : state5) (tam : option N) : state5 :=
  match tam with Some t => u_alias_max s t | None => s end.

Lemma alias_taken5_slots s tam : slots_eq5 s (alias_taken5 s tam) /\ s5_events (alias_taken5 s tam) = s5_events s.
Proof. destruct tam; repeat split. Qed.

Lemma handle_incoming_connack5_eff s code rm tam :
  (code <> 0 /\ handle_incoming_connack5 s code rm tam = Err (s, E5ConnFail code))
  \/ (code = 0 /\ rm = Some 0 /\ handle_incoming_connack5 s code rm tam = Err (alias_taken5 s tam, E5ConnFail 130))
  \/ (code = 0 /\ rm <> Some 0 /\ exists s', handle_incoming_connack5 s code rm tam = Ok (s', None) /\
      s5_pub s' = s5_pub s /\ s5_rel s' = s5_rel s /\ s5_collision s' = s5_collision s /\
      s5_max_limit s' = s5_max_limit s /\ s5_manual s' = s5_manual s /\ s5_events s' = s5_events s /\
      s5_inflight s' = s5_inflight s /\ s5_incoming s' = s5_incoming s /\
      s5_max s' = match rm with Some m => N.min m (s5_max_limit s) | None => s5_max s end).
Proof.
  unfold handle_incoming_connack5, alias_taken5. destruct (N.eqb_spec code 0) as [E | E]; cbn [negb]; [right|left; auto].
  destruct rm as [m|].
  - destruct (N.eqb_spec m 0) as [E0 | E0]; [left; subst; auto|right].
    split; [exact E|]. split; [congruence|]. eexists. split; [reflexivity|].
    destruct tam; sproj5; destruct (_ <=? _); sproj5; repeat split.
  - right. split; [exact E|]. split; [discriminate|]. eexists. split; [reflexivity|].
    destruct tam; sproj5; repeat split.
Qed.

(** ---- no op ever changes the configured limit or the manual-ack flag (any state, any op) *)
Ltac brk5 H :=
  repeat (match type of H with
          | context [match ?x with _ => _ end] =>
              lazymatch x with
              | context [match _ with _ => _ end] => fail
              | _ => destruct x eqn:?; cbn beta iota zeta in H; sproj5
              end
          end).

Lemma next5_frame s o s' : next5 s o = Some s' -> s5_max_limit s' = s5_max_limit s /\ s5_manual s' = s5_manual s.
Proof.
  intros H. unfold next5, step5 in H. destruct o as [r | pk |].
  - destruct r; cbn [handle_outgoing_packet5] in H;
    unfold outgoing_publish5, place_publish5, outgoing_pubrel5, outgoing_subscribe5, outgoing_unsubscribe5,
      outgoing_ping5, outgoing_disconnect5, outgoing_puback5, outgoing_pubrec5, next_pkid5, pub_store5, rel_set5,
      inflight_inc5, inflight_dec5 in H; unfold bind in H; brk5 H; try discriminate; inversion H; subst; sproj5; split; first [reflexivity | assumption].
  - unfold handle_incoming_packet5 in H. destruct pk;
    unfold handle_incoming_connack5, handle_incoming_publish5, handle_incoming_puback5, handle_incoming_pubrec5,
      handle_incoming_pubrel5, handle_incoming_pubcomp5, ack_tail5, resend5, check_collision5, outgoing_disconnect5,
      outgoing_puback5, outgoing_pubrec5, pub_store5, rel_set5, inflight_inc5, inflight_dec5 in H; unfold bind in H; sproj5;
      brk5 H; try discriminate; inversion H; subst; sproj5; split; first [reflexivity | assumption].
  - unfold clean5 in H. inversion H. split; reflexivity.
Qed.

Lemma run5_frame s h s' : run5 s h = Some s' -> s5_max_limit s' = s5_max_limit s /\ s5_manual s' = s5_manual s.
Proof.
  revert s. induction h as [| o h IH]; intros s H; cbn [run5] in H.
  - inversion H. split; reflexivity.
  - destruct (next5 s o) as [s1|] eqn:E; [|discriminate]. destruct (next5_frame s o s1 E) as [A B].
    destruct (IH s1 H) as [C D]. split; congruence.
Qed.

(** splitting a history *)
Lemma run5_app s h1 h2 : run5 s (h1 ++ h2) = match run5 s h1 with Some s1 => run5 s1 h2 | None => None end.
Proof.
  revert s. induction h1 as [| o h1 IH]; intros s; [reflexivity|]. cbn [app run5].
  destruct (next5 s o); [apply IH|reflexivity].
Qed.

Lemma contract5_app s h1 h2 s1 : run5 s h1 = Some s1 -> contract5 s (h1 ++ h2) = contract5 s h1 && contract5 s1 h2.
Proof.
  revert s. induction h1 as [| o h1 IH]; intros s H; cbn [run5] in H.
  - inversion H. reflexivity.
  - cbn [app contract5]. destruct (next5 s o) as [s2|]; [|discriminate]. rewrite (IH s2 H). apply andb_assoc.
Qed.

(** the state reached along a contract-honouring history satisfies the invariant, and the last
    op honours the contract there *)
Lemma contract5_last s h o s1 :
  Inv5 s -> contract5 s (h ++ [o]) = true -> run5 s h = Some s1 -> Inv5 s1 /\ op_ok5 s1 o = true.
Proof.
  intros I Hc Hr. rewrite (contract5_app s h [o] s1 Hr) in Hc. apply andb_true_iff in Hc. destruct Hc as [Hc1 Hc2].
  destruct (run5_inv s h I Hc1) as [s2 [Hr2 I2]]. rewrite Hr in Hr2. inversion Hr2. subst s2.
  split; [exact I2|]. cbn [contract5] in Hc2. apply andb_true_iff in Hc2. apply Hc2.
Qed.
