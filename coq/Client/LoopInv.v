(** The event loop (Client/Loop.v, after the fix: commits a6a5e44 and 0960300) never hands the state
    machine a request outside its contract, whatever the user sends through the client API,
    whatever the broker sends, wherever the connection fails and however often: K7 is false on
    every history whose user requests the API can produce.  Hence the state invariant holds in
    every reachable state of the loop ([lrun_inv_all]). *)
From Coq Require Import Arith ZifyBool ZifyN ZifyNat Permutation.
From Rumqtt Require Import Client.VecLemmas Client.Run4 Client.Inv4 Client.Eff4 Client.Flow4 Client.Loop Client.LoopProofs.

(** what AsyncClient can put into the channel: ids are assigned by the state machine *)
Definition user_req (r : request) : bool :=
  match r with
  | RPublish p => p_pkid p =? 0
  | RSubscribe _ | RUnsubscribe _ | RPubAck _ | RPubRec _ | RDisconnect | RPingReq => true
  | _ => false
  end.

(** what [MqttState::clean] hands back: publishes with their id, releases *)
Definition carried (max : N) (r : request) : bool :=
  match r with
  | RPublish p => (1 <=? p_pkid p) && negb (match p_qos p with Q0 => true | _ => false end)
  | RPubRel i => (1 <=? i) && (i <=? max)
  | _ => false
  end.

Fixpoint shape (max : N) (l : list request) : bool :=
  match l with
  | [] => true
  | r :: t => if carried max r then shape max t else forallb user_req (r :: t)
  end.

Definition wf_user (o : lop) : bool := match o with UserSend r => user_req r | _ => true end.

(** every release still pending can be replayed when its turn comes: its id is free now, and no
    request in front of it (a publish with that id, the same release twice) takes the id first *)
Fixpoint rel_ok (s : state) (l : list request) : Prop :=
  match l with
  | [] => True
  | r :: t =>
      match r with
      | RPublish p => ~ In (RPubRel (p_pkid p)) t
      | RPubRel i => busy s i = false /\ ~ In (RPubRel i) t
      | _ => True
      end /\ rel_ok s t
  end.

Record LInv (l : lstate) : Prop := {
  li_inv : Inv (st l);
  li_shape : shape (max_inflight (st l)) (pending l) = true;
  li_chan : forallb user_req (chan l) = true;
  li_rel : rel_ok (st l) (pending l) }.

(** ---- list facts *)
Lemma shape_user max l : forallb user_req l = true -> shape max l = true.
Proof.
  destruct l as [| r t]; [reflexivity|]. intros H. cbn [shape].
  destruct (carried max r) eqn:E; [|exact H]. exfalso.
  cbn [forallb] in H. apply andb_true_iff in H. destruct H as [Hu _].
  destruct r; cbn in E, Hu; try discriminate.
  apply andb_true_iff in E. destruct E as [E _]. lia.
Qed.

Lemma shape_app_carried max F l : forallb (carried max) F = true -> shape max l = true -> shape max (F ++ l) = true.
Proof.
  induction F as [| r F IH]; intros HF Hl; [exact Hl|]. cbn [forallb] in HF. apply andb_true_iff in HF. destruct HF as [Hr HF].
  cbn [app shape]. rewrite Hr. auto.
Qed.

Lemma shape_app_user max l Z : shape max l = true -> forallb user_req Z = true -> shape max (l ++ Z) = true.
Proof.
  induction l as [| r t IH]; intros Hl HZ; [apply shape_user; exact HZ|]. cbn [app shape] in *.
  destruct (carried max r); [auto|]. cbn [forallb] in *. apply andb_true_iff in Hl. destruct Hl as [Hr Ht].
  rewrite Hr. cbn [andb]. rewrite forallb_app, Ht, HZ. reflexivity.
Qed.

Lemma shape_tail max r t : shape max (r :: t) = true -> shape max t = true.
Proof.
  cbn [shape]. destruct (carried max r); [auto|]. cbn [forallb]. intros H. apply andb_true_iff in H. apply shape_user, H.
Qed.

Lemma user_no_rel l : forallb user_req l = true -> forall i, ~ In (RPubRel i) l.
Proof. intros H i Hin. rewrite forallb_forall in H. specialize (H _ Hin). discriminate. Qed.

Lemma filter_user l : forallb user_req l = true -> forallb user_req (filter not_puback l) = true.
Proof.
  intros H. rewrite forallb_forall in *. intros x Hx. apply filter_In in Hx. apply H, Hx.
Qed.

(** ---- busy frames *)
Lemma busy_false_0 s : Inv s -> busy s 0 = false.
Proof.
  intros I. unfold busy. rewrite (i_rel0 s I), orb_false_r.
  destruct (vget (outgoing_pub s) 0) as [[p|]|] eqn:E; try reflexivity.
  destruct (i_slot s I 0 p E) as [_ [H _]]. lia.
Qed.

Lemma busy_range s i : Inv s -> busy s i = true -> 1 <= i <= max_inflight s.
Proof.
  intros I Hb. destruct (N.eq_dec i 0) as [-> | Hn]; [rewrite (busy_false_0 s I) in Hb; discriminate|].
  split; [lia|]. unfold busy in Hb. apply orb_true_iff in Hb. destruct Hb as [Hb | Hb].
  - destruct (vget (outgoing_pub s) i) eqn:E; [|discriminate]. apply vget_some_lt in E. rewrite (i_lenp s I) in E.
    apply idx_lt_len. exact E.
  - unfold bit in Hb. destruct (vget (outgoing_rel s) i) eqn:E; [|discriminate]. apply vget_some_lt in E.
    rewrite (i_lenr s I) in E. apply idx_lt_len. exact E.
Qed.

(** a request from the user or from pending makes busy at most the id it carries / is given *)
Lemma outgoing_busy_frame s r s' :
  Inv s -> op_ok s (Out r) = true -> res_state (handle_outgoing_packet s r) = Some s' ->
  forall i, busy s i = false -> busy s' i = true ->
    match r with
    | RPublish p => p_pkid p = 0 \/ p_pkid p = i
    | RPubRel j => j = i
    | _ => True
    end.
Proof.
  intros I Hok Hs i Hb Hb'. destruct r; cbn [op_ok api_request] in Hok; try discriminate; cbn [handle_outgoing_packet] in Hs; auto.
  - (* publish *)
    destruct (N.eq_dec (p_pkid p) 0) as [E0 | E0]; [left; exact E0|right].
    unfold outgoing_publish in Hs. destruct (p_qos p) eqn:Eq.
    { cbn [res_state] in Hs. inversion Hs. subst. unfold busy in *. sproj. congruence. }
    all: assert (Hc : collision s = None) by (destruct (collision s); cbn in Hok; congruence).
    all: destruct (N.eqb_spec (p_pkid p) 0); [contradiction|].
    all: destruct (place_publish_eff s p I Hc) as [[_ He] | [[_ [_ He]] | [_ [_ [l [Hl He]]]]]]; try lia; try congruence;
         rewrite He in Hs; cbn [res_state] in Hs; inversion Hs; subst s'; unfold busy in *; sproj; try congruence.
    all: rewrite (vget_vset _ _ _ i _ Hl) in Hb'; destruct (N.eqb_spec (p_pkid p) i); [assumption|congruence].
  - (* release *)
    apply andb_true_iff in Hok. destruct Hok as [Hok Hbz]. apply andb_true_iff in Hok. destruct Hok as [H1 H2].
    pose proof (outgoing_pubrel_inv s id I ltac:(lia) ltac:(lia) ltac:(destruct (busy s id); [discriminate|reflexivity])) as Hpost.
    unfold outgoing_pubrel in *. destruct (N.eqb_spec id 0); [lia|]. cbn [bind] in *. unfold rel_set, inflight_inc in *.
    destruct (vset (outgoing_rel s) id true) as [rl|] eqn:Hrl; cbn [bind] in *; [|contradiction]. sproj.
    destruct (inflight s =? U16_MAX); cbn [bind] in *; [contradiction|]. cbn [res_state] in Hs. inversion Hs. subst s'.
    unfold busy in *. sproj. rewrite (bit_vset _ _ _ i _ Hrl) in Hb'.
    destruct (N.eqb_spec id i); [assumption|congruence].
Qed.

Lemma other_requests_busy s r s' :
  Inv s -> op_ok s (Out r) = true -> res_state (handle_outgoing_packet s r) = Some s' ->
  (forall p, r <> RPublish p) -> (forall j, r <> RPubRel j) -> forall i, busy s' i = busy s i.
Proof.
  intros I Hok Hs Hnp Hnr i.
  destruct r; cbn [op_ok api_request] in Hok; try discriminate; cbn [handle_outgoing_packet] in Hs;
    try (exfalso; eapply Hnp; reflexivity); try (exfalso; eapply Hnr; reflexivity).
  - cbn [res_state outgoing_puback] in Hs. inversion Hs. reflexivity.
  - cbn [res_state outgoing_pubrec] in Hs. inversion Hs. reflexivity.
  - unfold outgoing_ping in Hs. destruct (is_some (collision s)); sproj.
    + destruct (2 <=? collision_ping_count s + 1); cbn [bind res_state] in Hs; [inversion Hs; reflexivity|].
      sproj. destruct (await_pingresp s); cbn [res_state] in Hs; inversion Hs; reflexivity.
    + cbn [bind] in Hs. destruct (await_pingresp s); cbn [res_state] in Hs; inversion Hs; reflexivity.
  - unfold outgoing_subscribe in Hs. destruct (n =? 0); [cbn [res_state] in Hs; inversion Hs; reflexivity|].
    destruct (next_pkid_spec s I) as [v [Hn _]]. rewrite Hn in Hs. cbn [bind res_state] in Hs. inversion Hs. reflexivity.
  - unfold outgoing_unsubscribe in Hs.
    destruct (next_pkid_spec s I) as [v [Hn _]]. rewrite Hn in Hs. cbn [bind res_state] in Hs. inversion Hs. reflexivity.
  - cbn [res_state outgoing_disconnect] in Hs. inversion Hs. reflexivity.
Qed.

(** a packet from the broker never makes a free id busy *)
Lemma incoming_keeps_free s pk s' :
  Inv s -> res_state (handle_incoming_packet s pk) = Some s' -> forall i, busy s i = false -> busy s' i = false.
Proof.
  intros I Hs i Hb. destruct (busy s' i) eqn:E; [exfalso|reflexivity].
    unfold handle_incoming_packet in Hs.
    pose proof (inv_push s (EvIn pk) I) as I1.
    assert (Hb1 : busy (push_event s (EvIn pk)) i = false) by exact Hb.
    set (s0 := push_event s (EvIn pk)) in *. clearbody s0.
    destruct pk; cbn [res_state] in Hs; try (inversion Hs; subst s'; unfold busy in *; sproj; congruence).
    - unfold handle_incoming_publish, outgoing_puback, outgoing_pubrec in Hs.
      destruct (p_qos p); sproj; destruct (manual_acks s0); cbn [res_state] in Hs; inversion Hs; subst s';
        unfold busy in *; sproj; congruence.
    - destruct (handle_incoming_puback_eff s0 id I1) as [[_ [s2 [He [[Hp [Hr _]] _]]]] | [p0 [l [Eg [Hl Hrest]]]]].
      { rewrite He in Hs. cbn [res_state] in Hs. inversion Hs. subst. unfold busy in *. rewrite Hp, Hr in E. congruence. }
      cbv zeta in Hrest. destruct Hrest as [He [H1 [Hpos [I2 [Hfree Hrel]]]]]. rewrite He in Hs.
      set (s1 := set_inflight (set_pub (set_last_puback s0 id) l) (inflight s0 - 1)) in *.
      destruct (ack_tail_keeps s1 id s' I2 H1) as [_ [Hk _]]; subst s1; sproj; auto.
      { intros q Hq. apply (i_coll s0 I1 q Hq). }
      destruct (N.eq_dec i id) as [-> | Hne].
      + unfold busy in Hb1. rewrite Eg in Hb1. discriminate.
      + rewrite (Hk i Hne) in E. unfold busy in E, Hb1. sproj. rewrite (vget_vset_other _ _ _ _ _ Hl) in E; auto. congruence.
    - destruct (handle_incoming_pubrec_eff s0 id I1) as [[_ He] | [p0 [l [rl [Eg [Hl [Hrl He]]]]]]];
        rewrite He in Hs; cbn [res_state] in Hs; inversion Hs; subst s'; [congruence|].
      unfold busy in E, Hb1. sproj. rewrite (vget_vset _ _ _ i _ Hl), (bit_vset _ _ _ i _ Hrl) in E.
      destruct (N.eqb_spec id i) as [-> |]; [rewrite Eg in Hb1; discriminate|congruence].
    - unfold handle_incoming_pubrel in Hs. destruct (negb _); cbn [res_state] in Hs; inversion Hs; subst s';
        unfold busy in *; sproj; congruence.
    - destruct (handle_incoming_pubcomp_eff s0 id I1) as [[_ He] | [Hbb [rl [Hrl Hrest]]]].
      { rewrite He in Hs. cbn [res_state] in Hs. inversion Hs. subst. congruence. }
      cbv zeta in Hrest. destruct Hrest as [He [H1 [Hpos [I2 [Hfree Hrel]]]]]. rewrite He in Hs.
      set (s1 := set_inflight (set_rel s0 rl) (inflight s0 - 1)) in *.
      destruct (ack_tail_keeps s1 id s' I2 H1) as [_ [Hk _]]; subst s1; sproj; auto.
      { intros q Hq. apply (i_coll s0 I1 q Hq). }
      destruct (N.eq_dec i id) as [-> | Hne].
      + unfold busy in Hb1. rewrite Hbb, orb_true_r in Hb1. discriminate.
      + rewrite (Hk i Hne) in E. unfold busy in E, Hb1. sproj. rewrite (bit_vset _ _ _ i _ Hrl) in E.
        destruct (N.eqb_spec id i); congruence.
Qed.

(** ---- rel_ok facts *)
Lemma relok_in s l i : rel_ok s l -> In (RPubRel i) l -> busy s i = false.
Proof.
  induction l as [| r t IH]; intros H Hin; [destruct Hin|]. cbn [rel_ok] in H. destruct H as [Hr Ht].
  destruct Hin as [-> | Hin]; [apply Hr|auto].
Qed.

Lemma relok_state s s' l : rel_ok s l -> (forall i, In (RPubRel i) l -> busy s' i = false) -> rel_ok s' l.
Proof.
  induction l as [| r t IH]; intros H Hb; [exact Logic.I|]. cbn [rel_ok] in *. destruct H as [Hr Ht].
  split; [|apply IH; [exact Ht|intros i Hi; apply Hb; right; exact Hi]].
  destruct r; auto. split; [apply Hb; left; reflexivity|apply Hr].
Qed.

Lemma relok_user s l : forallb user_req l = true -> rel_ok s l.
Proof.
  induction l as [| r t IH]; intros H; [exact Logic.I|]. cbn [forallb] in H. apply andb_true_iff in H. destruct H as [Hr Ht].
  cbn [rel_ok]. split; [|auto]. destruct r; auto; try discriminate.
  intros Hin. apply (user_no_rel t Ht _ Hin).
Qed.

Lemma relok_app s a b :
  rel_ok s a -> rel_ok s b ->
  (forall p, In (RPublish p) a -> ~ In (RPubRel (p_pkid p)) b) ->
  (forall i, In (RPubRel i) a -> ~ In (RPubRel i) b) ->
  rel_ok s (a ++ b).
Proof.
  induction a as [| r t IH]; intros Ha Hb Hp Hr; [exact Hb|]. cbn [app rel_ok] in *. destruct Ha as [Hh Ht].
  split.
  - destruct r; auto.
    + intros Hin. apply in_app_or in Hin. destruct Hin as [Hin | Hin]; [exact (Hh Hin)|].
      apply (Hp p (or_introl eq_refl) Hin).
    + destruct Hh as [Hb0 Hn]. split; [exact Hb0|]. intros Hin. apply in_app_or in Hin. destruct Hin as [Hin | Hin]; [exact (Hn Hin)|].
      apply (Hr id (or_introl eq_refl) Hin).
  - apply IH; auto.
    + intros p Hin. apply Hp. right. exact Hin.
    + intros i Hin. apply Hr. right. exact Hin.
Qed.

Lemma ones_from_ge l s i : In i (ones_from l s) -> s <= i.
Proof.
  revert s. induction l as [| b l IH]; intros s H; [destruct H|]. cbn [ones_from] in H.
  destruct b; [destruct H as [<- | H]; [lia|]|]; apply IH in H; lia.
Qed.

Lemma relok_rels s l st0 : (forall i, busy s i = false) -> rel_ok s (map RPubRel (ones_from l st0)).
Proof.
  intros Hb. revert st0. induction l as [| b l IH]; intros st0; [exact Logic.I|]. cbn [ones_from].
  destruct b; [|apply IH]. cbn [map rel_ok]. split; [|apply IH]. split; [apply Hb|].
  intros Hin. apply in_map_iff in Hin. destruct Hin as [j [Hj Hin]]. inversion Hj. subst j.
  apply ones_from_ge in Hin. lia.
Qed.

Lemma relok_pubs s (ps : list publish) : rel_ok s (map RPublish ps).
Proof.
  induction ps as [| p ps IH]; [exact Logic.I|]. cbn [map rel_ok]. split; [|exact IH].
  intros Hin. apply in_map_iff in Hin. destruct Hin as [q [Hq _]]. discriminate.
Qed.

(** ---- EventLoop::clean keeps the loop invariant *)
Lemma linv_clean l : LInv l -> exists l', loop_clean l = Ok l' /\ LInv l'.
Proof.
  intros [I Hsh Hch Hrl]. pose proof (clean_inv (st l) I) as Hc. unfold loop_clean, clean in *.
  destruct (Nat.ltb (length (outgoing_pub (st l))) (S (idx (last_puback (st l))))); [contradiction|]. cbv zeta in *.
  eexists. split; [reflexivity|]. destruct Hc as [I' _].
  set (ps := somes (skipn (S (idx (last_puback (st l)))) (outgoing_pub (st l)) ++ firstn (S (idx (last_puback (st l)))) (outgoing_pub (st l)))) in *.
  set (s := st l) in *.
  assert (Hps : forall p, In p ps -> vget (outgoing_pub s) (p_pkid p) = Some (Some p)).
  { intros p Hp. assert (Hin : In p (somes (outgoing_pub s))).
    { apply (Permutation_in p (somes_rotate (outgoing_pub s) (S (idx (last_puback s))))). exact Hp. }
    apply somes_in in Hin. destruct Hin as [k Hk].
    assert (Hv : vget (outgoing_pub s) (N.of_nat k) = Some (Some p)) by (unfold vget, idx; rewrite Nat2N.id; exact Hk).
    destruct (i_slot s I _ _ Hv) as [E _]. rewrite E. exact Hv. }
  assert (Hpb : forall p, In p ps -> busy s (p_pkid p) = true).
  { intros p Hp. unfold busy. rewrite (Hps p Hp). reflexivity. }
  assert (Hrb : forall i, In i (ones (outgoing_rel s)) -> busy s i = true).
  { intros i Hi. apply ones_in in Hi. unfold busy. rewrite Hi. apply orb_true_r. }
  assert (Hfree : forall i, busy (set_inflight (set_cpc (set_await (set_incoming (set_collision (set_rel (set_pub s (repeat None (length (outgoing_pub s)))) (repeat false (length (outgoing_rel s)))) None) []) false) 0) 0) i = false).
  { intros i. unfold busy. sproj. rewrite vget_repeat, bit_repeat_false. destruct (Nat.ltb _ _); reflexivity. }
  constructor; cbn [st pending chan].
  - exact I'.
  - sproj. rewrite <- !app_assoc. apply shape_app_carried.
    + rewrite forallb_forall. intros r Hr. apply in_map_iff in Hr. destruct Hr as [p [<- Hp]].
      destruct (i_slot s I _ _ (Hps p Hp)) as [_ [H1 Hq]]. cbn [carried].
      destruct (N.leb_spec 1 (p_pkid p)); [|lia]. destruct (p_qos p); [congruence|reflexivity|reflexivity].
    + apply shape_app_carried.
      * rewrite forallb_forall. intros r Hr. apply in_map_iff in Hr. destruct Hr as [i [<- Hi]].
        destruct (busy_range s i I (Hrb i Hi)). cbn [carried]. apply andb_true_iff. split; apply N.leb_le; assumption.
      * apply shape_app_carried.
        -- destruct (collision s) as [q|] eqn:Ec; [|reflexivity]. cbn [forallb carried]. rewrite andb_true_r.
           destruct (i_coll s I q Ec) as [Hb Hq]. destruct (busy_range s _ I Hb).
           destruct (N.leb_spec 1 (p_pkid q)); [|lia]. destruct (p_qos q); [congruence|reflexivity|reflexivity].
        -- apply shape_app_user; [exact Hsh|apply filter_user; exact Hch].
  - reflexivity.
  - sproj. set (s' := set_inflight (set_cpc (set_await (set_incoming (set_collision (set_rel (set_pub s (repeat None (length (outgoing_pub s)))) (repeat false (length (outgoing_rel s)))) None) []) false) 0) 0) in *.
    rewrite <- !app_assoc.
    set (rest := pending l ++ filter not_puback (chan l)).
    assert (Hold : forall i, In (RPubRel i) rest -> busy s i = false).
    { intros i Hi. apply in_app_or in Hi. destruct Hi as [Hi | Hi]; [apply (relok_in s _ i Hrl Hi)|].
      exfalso. apply (user_no_rel _ (filter_user _ Hch) i Hi). }
    assert (Hrest : rel_ok s' rest).
    { apply relok_state with (s := s); [|intros i _; apply Hfree].
      apply relok_app; [exact Hrl|apply relok_user, filter_user, Hch| |];
        intros x _ Hin; apply (user_no_rel _ (filter_user _ Hch) _ Hin). }
    assert (Hpark : rel_ok s' (match collision s with Some p => [RPublish p] | None => [] end ++ rest)).
    { destruct (collision s) as [q|] eqn:Ec; [|exact Hrest]. cbn [app rel_ok]. split; [|exact Hrest].
      intros Hin. destruct (i_coll s I q Ec) as [Hb _]. rewrite (Hold _ Hin) in Hb. discriminate. }
    apply relok_app.
    + apply relok_pubs.
    + apply relok_app.
      * apply relok_rels. exact Hfree.
      * exact Hpark.
      * intros p Hp. apply in_map_iff in Hp. destruct Hp as [x [Hx _]]. discriminate.
      * intros i Hi Hin. apply in_map_iff in Hi. destruct Hi as [k [Hk Hi]]. inversion Hk. subst k.
        apply in_app_or in Hin. destruct Hin as [Hin | Hin].
        -- destruct (collision s); [destruct Hin as [Hin | []]; discriminate|destruct Hin].
        -- pose proof (Hrb i Hi) as Hb. rewrite (Hold i Hin) in Hb. discriminate.
    + intros p Hp Hin. apply in_map_iff in Hp. destruct Hp as [x [Hx Hp]]. inversion Hx. subst x.
      apply in_app_or in Hin. destruct Hin as [Hin | Hin].
      * apply in_map_iff in Hin. destruct Hin as [k [Hk Hin]]. inversion Hk. subst k.
        apply ones_in in Hin. rewrite (i_excl s I _ _ (Hps p Hp)) in Hin. discriminate.
      * apply in_app_or in Hin. destruct Hin as [Hin | Hin].
        -- destruct (collision s); [destruct Hin as [Hin | []]; discriminate|destruct Hin].
        -- pose proof (Hpb p Hp) as Hb. rewrite (Hold _ Hin) in Hb. discriminate.
    + intros i Hi. apply in_map_iff in Hi. destruct Hi as [x [Hx _]]. discriminate.
Qed.

(** ---- the request arm honours the contract *)
Lemma take_enabled_facts l : take_enabled l = true ->
  connected l = true /\ events (st l) = [] /\ collision (st l) = None /\ inflight (st l) < max_inflight (st l).
Proof.
  unfold take_enabled, inflight_full. intros H.
  apply andb_true_iff in H. destruct H as [H _].
  apply andb_true_iff in H. destruct H as [H Hg].
  apply andb_true_iff in H. destruct H as [Hc He].
  apply andb_true_iff in Hg. destruct Hg as [Hf Hcol].
  destruct (events (st l)); [|discriminate]. destruct (collision (st l)); [discriminate|].
  repeat split; auto. destruct (N.leb_spec (max_inflight (st l)) (inflight (st l))); [discriminate|lia].
Qed.

Lemma user_req_ok s r : collision s = None -> user_req r = true -> op_ok s (Out r) = true.
Proof.
  intros Hc Hu. destruct r; cbn in Hu; try discriminate; cbn [op_ok api_request]; try reflexivity.
  rewrite Hc. destruct (p_qos p); reflexivity.
Qed.

Lemma head_ok l r rest : LInv l -> collision (st l) = None -> pending l = r :: rest -> op_ok (st l) (Out r) = true.
Proof.
  intros [I Hsh Hch Hrl] Hc Hp. rewrite Hp in Hsh, Hrl. cbn [shape] in Hsh.
  destruct (carried (max_inflight (st l)) r) eqn:Ec.
  - destruct r; cbn in Ec; try discriminate.
    + cbn [op_ok]. rewrite Hc. destruct (p_qos p); reflexivity.
    + cbn [op_ok]. cbn [rel_ok] in Hrl. destruct Hrl as [[Hb _] _]. rewrite Hb, Ec. reflexivity.
  - cbn [forallb] in Hsh. apply andb_true_iff in Hsh. apply user_req_ok; [exact Hc|apply Hsh].
Qed.

Theorem take_ok_linv l : LInv l -> take_ok l = true.
Proof.
  intros LI. unfold take_ok, take_ok_gen. destruct (take_enabled l) eqn:Et; [|reflexivity].
  destruct (take_enabled_facts l Et) as [_ [_ [Hc _]]].
  unfold next_request. destruct (pending l) as [| r rest] eqn:Ep.
  - destruct (chan l) as [| r rest] eqn:Ech; [reflexivity|]. cbn [st].
    apply user_req_ok; [exact Hc|]. pose proof (li_chan l LI) as H. rewrite Ech in H. cbn [forallb] in H.
    apply andb_true_iff in H. apply H.
  - cbn [st]. eapply head_ok; eauto.
Qed.

(** handling the request at the head of pending leaves the rest replayable *)
Lemma relok_after_head s r rest s' max :
  Inv s -> op_ok s (Out r) = true -> res_state (handle_outgoing_packet s r) = Some s' ->
  shape max (r :: rest) = true -> rel_ok s (r :: rest) -> rel_ok s' rest.
Proof.
  intros I Hok Hs Hsh Hrl. cbn [rel_ok] in Hrl. destruct Hrl as [Hh Ht].
  cbn [shape] in Hsh. destruct (carried max r) eqn:Ec.
  2:{ cbn [forallb] in Hsh. apply andb_true_iff in Hsh. apply relok_user, Hsh. }
  apply relok_state with (s := s); [exact Ht|]. intros i Hi.
  destruct (busy s' i) eqn:Eb; [exfalso|reflexivity].
  pose proof (relok_in s rest i Ht Hi) as Hbi.
  pose proof (outgoing_busy_frame s r s' I Hok Hs i Hbi Eb) as Hf.
  destruct r; cbn in Ec; try discriminate.
  - destruct Hf as [E | E]; [apply andb_true_iff in Ec; destruct Ec as [E1 _]; lia|]. rewrite E in Hh. exact (Hh Hi).
  - subst id. destruct Hh as [_ Hn]. exact (Hn Hi).
Qed.

(** no handler touches [max_inflight] *)
Ltac crush H :=
  repeat (cbn [bind res_state] in H; sproj;
          match type of H with
          | context [match ?x with _ => _ end] => destruct x eqn:?
          end);
  cbn [bind res_state] in H; sproj; try discriminate; try (inversion H; subst; sproj; reflexivity).

Lemma max_out s r s' : res_state (handle_outgoing_packet s r) = Some s' -> max_inflight s' = max_inflight s.
Proof.
  intros H. unfold handle_outgoing_packet, outgoing_publish, place_publish, outgoing_pubrel, outgoing_puback, outgoing_pubrec,
    outgoing_ping, outgoing_subscribe, outgoing_unsubscribe, outgoing_disconnect, next_pkid, pub_store, rel_set, inflight_inc in H.
  crush H.
Qed.

Lemma check_collision_max s id s0 o : check_collision s id = (s0, o) -> max_inflight s0 = max_inflight s.
Proof.
  unfold check_collision. destruct (collision s); [destruct (_ =? _)|]; intros H; inversion H; reflexivity.
Qed.

Lemma max_in s pk s' : res_state (handle_incoming_packet s pk) = Some s' -> max_inflight s' = max_inflight s.
Proof.
  intros H. unfold handle_incoming_packet, handle_incoming_publish, handle_incoming_puback, handle_incoming_pubrec,
    handle_incoming_pubrel, handle_incoming_pubcomp, resend_collided, outgoing_puback, outgoing_pubrec,
    pub_store, rel_set, inflight_inc, inflight_dec in H.
  crush H.
  all: match goal with E : check_collision ?x _ = (_, _) |- _ => pose proof (check_collision_max _ _ _ _ E) as Hm end;
       inversion H; subst; sproj; exact Hm.
Qed.

Lemma read_batch_linv pkts : forall s buf pend, Inv s -> rel_ok s pend ->
  match read_batch s pkts buf with
  | Ok (s', _) => Inv s' /\ rel_ok s' pend /\ max_inflight s' = max_inflight s
  | Err (s', _) => Inv s' /\ rel_ok s' pend /\ max_inflight s' = max_inflight s
  | Panic _ => False
  end.
Proof.
  induction pkts as [| pk pkts IH]; intros s buf pend I Hr; cbn [read_batch]; [auto|].
  pose proof (handle_incoming_packet_inv s pk I) as H.
  assert (Hstep : forall s', res_state (handle_incoming_packet s pk) = Some s' ->
            rel_ok s' pend /\ max_inflight s' = max_inflight s).
  { intros s' Hs. split; [|apply (max_in s pk s' Hs)].
    apply relok_state with (s := s); [exact Hr|]. intros i Hi.
    apply (incoming_keeps_free s pk s' I Hs). apply (relok_in s pend i Hr Hi). }
  destruct (handle_incoming_packet s pk) as [[s' [rp|]] | [s' e] | t] eqn:E; cbn [post] in H; try contradiction.
  - destruct (Hstep s' eq_refl) as [Hr' Hm]. specialize (IH s' (buf ++ [rp]) pend H Hr').
    destruct (read_batch s' pkts (buf ++ [rp])) as [[s2 x] | [s2 e] | t]; try contradiction; rewrite <- Hm; exact IH.
  - destruct (Hstep s' eq_refl) as [Hr' Hm]. specialize (IH s' buf pend H Hr').
    destruct (read_batch s' pkts buf) as [[s2 x] | [s2 e] | t]; try contradiction; rewrite <- Hm; exact IH.
  - destruct (Hstep s' eq_refl) as [Hr' Hm]. auto.
Qed.

Lemma linv_with s' l : Inv s' -> max_inflight s' = max_inflight (st l) -> rel_ok s' (pending l) ->
  shape (max_inflight (st l)) (pending l) = true -> forallb user_req (chan l) = true -> LInv (with_st l s').
Proof.
  intros I Hm Hr Hs Hc. constructor; cbn [with_st st pending chan]; auto. rewrite Hm. exact Hs.
Qed.

Lemma linv_wire l w : LInv l -> LInv (with_wire l w).
Proof. intros [I Hs Hc Hr]. constructor; cbn [with_wire st pending chan]; auto. Qed.

Lemma fail_linv l e : LInv l ->
  match fail_with l e with Stepped l' => LInv l' | Failed l' _ => LInv l' | Disabled => True | LPanic _ => False end.
Proof.
  intros LI. unfold fail_with, fail_with_gen. destruct (linv_clean l LI) as [l' [Hc LI']]. rewrite Hc. exact LI'.
Qed.

Theorem lstep_linv l o : LInv l -> wf_user o = true ->
  match lstep l o with
  | Stepped l' => LInv l' | Failed l' _ => LInv l' | Disabled => True | LPanic _ => False
  end.
Proof.
  intros LI Hw. pose proof LI as [I Hsh Hch Hrl]. destruct o; unfold lstep; cbn [lstep_gen]; fold fail_with.
  - (* UserSend *) constructor; cbn [st pending chan]; auto. rewrite forallb_app, Hch. cbn [forallb wf_user] in *. rewrite Hw. reflexivity.
  - (* Yield *) destruct (events (st l)) eqn:E; [exact Logic.I|]. constructor; cbn [st pending chan]; auto.
    + apply inv_set_events. exact I.
    + apply relok_state with (s := st l); [exact Hrl|]. intros i Hi. apply (relok_in _ _ i Hrl Hi).
  - (* TakeRequest *)
    pose proof (take_ok_linv l LI) as Hok. unfold take_ok, take_ok_gen in Hok.
    destruct (take_enabled l) eqn:Et; [|exact Logic.I].
    destruct (next_request l) as [[r l1]|] eqn:En; [|exact Logic.I].
    assert (Hl1 : st l1 = st l /\ connected l1 = connected l /\ wire l1 = wire l /\ yielded l1 = yielded l /\
                  ((pending l = r :: pending l1 /\ chan l1 = chan l) \/
                   (pending l = [] /\ pending l1 = [] /\ chan l = r :: chan l1))).
    { unfold next_request in En. destruct (pending l) as [| r0 rest] eqn:Ep.
      - destruct (chan l) as [| r0 rest] eqn:Ec; [discriminate|]. inversion En. subst. cbn. repeat split; auto.
      - inversion En. subst. cbn. repeat split; auto. }
    destruct Hl1 as [Hst [_ [_ [_ Hpc]]]]. rewrite Hst in *.
    pose proof (handle_outgoing_packet_inv (st l) r I Hok) as Hinv.
    assert (Hafter : forall s', res_state (handle_outgoing_packet (st l) r) = Some s' -> Inv s' -> LInv (with_st l1 s')).
    { intros s' Hs I'. pose proof (max_out _ _ _ Hs) as Hm.
      constructor; cbn [with_st st pending chan]; [exact I'| | |].
      - rewrite Hm. destruct Hpc as [[Hp _] | [_ [Hp _]]]; [rewrite Hp in Hsh; apply (shape_tail _ r), Hsh|rewrite Hp; reflexivity].
      - destruct Hpc as [[_ Hc] | [_ [_ Hc]]]; [rewrite Hc; exact Hch|].
        rewrite Hc in Hch. cbn [forallb] in Hch. apply andb_true_iff in Hch. apply Hch.
      - destruct Hpc as [[Hp _] | [_ [Hp _]]]; [|rewrite Hp; exact Logic.I].
        rewrite Hp in Hsh, Hrl. exact (relok_after_head (st l) r (pending l1) s' (max_inflight (st l)) I Hok Hs Hsh Hrl). }
    destruct (handle_outgoing_packet (st l) r) as [[s' [pk|]] | [s' e] | t]; cbn [post] in Hinv; try contradiction.
    + apply linv_wire. apply Hafter; [reflexivity|exact Hinv].
    + apply Hafter; [reflexivity|exact Hinv].
    + apply fail_linv. apply Hafter; [reflexivity|exact Hinv].
  - (* TakeCancelled *) exact LI.
  - (* Net *)
    destruct (arm_ready l && negb _); [|exact Logic.I].
    pose proof (read_batch_linv pkts (st l) [] (pending l) I Hrl) as H.
    destruct (read_batch (st l) pkts []) as [[s' rp] | [s' e] | t]; try contradiction; destruct H as [I' [Hr' Hm]].
    + apply linv_wire. apply linv_with; auto.
    + apply fail_linv. apply linv_with; auto.
  - (* NetAbort *)
    destruct (arm_ready l); [|exact Logic.I].
    pose proof (read_batch_linv pkts (st l) [] (pending l) I Hrl) as H.
    destruct (read_batch (st l) pkts []) as [[s' rp] | [s' e] | t]; try contradiction; destruct H as [I' [Hr' Hm]];
      apply fail_linv; apply linv_with; auto.
  - (* KeepAliveFire *)
    destruct (arm_ready l); [|exact Logic.I].
    pose proof (handle_outgoing_packet_inv (st l) RPingReq I eq_refl) as Hinv.
    assert (Hafter : forall s', res_state (handle_outgoing_packet (st l) RPingReq) = Some s' -> Inv s' -> LInv (with_st l s')).
    { intros s' Hs I'. apply linv_with; auto; [apply (max_out _ _ _ Hs)|].
      apply relok_state with (s := st l); [exact Hrl|]. intros i Hi.
      rewrite (other_requests_busy (st l) RPingReq s' I eq_refl Hs); [apply (relok_in _ _ i Hrl Hi)|discriminate|discriminate]. }
    destruct (handle_outgoing_packet (st l) RPingReq) as [[s' [pk|]] | [s' e] | t]; cbn [post] in Hinv; try contradiction.
    + apply linv_wire. apply Hafter; [reflexivity|exact Hinv].
    + apply Hafter; [reflexivity|exact Hinv].
    + apply fail_linv. apply Hafter; [reflexivity|exact Hinv].
  - (* Fail *)
    destruct (connected l); [|exact Logic.I]. destruct (linv_clean l LI) as [l' [Hc LI']]. rewrite Hc. exact LI'.
  - (* Reconnect *)
    destruct (connected l); [exact Logic.I|]. constructor; cbn [st pending chan]; auto.
    + destruct session_present; [exact Hsh|reflexivity].
    + destruct session_present; [exact Hrl|exact Logic.I].
Qed.

Lemma linv_init max manual : 1 <= max -> max <= 65535 -> LInv (linit max manual).
Proof.
  intros H1 H2. constructor; cbn [linit st pending chan]; try reflexivity; try exact Logic.I. apply inv_init; assumption.
Qed.

(** K7 is false, and the state invariant holds, on every history of well-formed user requests *)
Theorem k7_never h : forall l, LInv l -> forallb wf_user h = true ->
  k7 l h = false /\ exists l', lrun l h = Some l' /\ LInv l'.
Proof.
  induction h as [| o h IH]; intros l LI Hw; [split; [reflexivity|exists l; auto]|].
  cbn [forallb] in Hw. apply andb_true_iff in Hw. destruct Hw as [Ho Hw].
  pose proof (lstep_linv l o LI Ho) as H.
  unfold k7, lrun. cbn [k7_gen lrun_gen]. fold k7 lrun. unfold lnext_gen. fold lstep.
  assert (Hk : match o with TakeRequest => negb (take_ok_gen take_enabled l) | _ => false end = false).
  { destruct o; try reflexivity. fold (take_ok l). rewrite (take_ok_linv l LI). reflexivity. }
  rewrite Hk. cbn [orb].
  destruct (lstep l o) as [l' | l' e | | t]; try contradiction; apply IH; auto.
Qed.

Theorem lrun_inv_all max manual h : 1 <= max -> max <= 65535 -> forallb wf_user h = true ->
  k7 (linit max manual) h = false /\ exists l, lrun (linit max manual) h = Some l /\ Inv (st l).
Proof.
  intros H1 H2 Hw. destruct (k7_never h (linit max manual) (linv_init max manual H1 H2) Hw) as [Hk [l [Hr LI]]].
  split; [exact Hk|]. exists l. split; [exact Hr|apply LI].
Qed.
