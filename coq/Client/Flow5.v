(** C02 / C07(d,e) for the v5 client state machine: what the client holds ([held5], Client/Inv5.v),
    that accepted publishes enter it, that only the broker's final word takes anything out of it,
    that [clean5] hands all of it back.  Port of Client/Flow4.v.
    v5-specific exits, stated explicitly: a PUBACK / PUBCOMP is final whatever its reason code; a
    PUBREC carrying a failure reason (anything but Success 0 / NoMatchingSubscribers 16) ends the
    QoS 2 flow without a release — the broker has refused the publish ([refused_by_pubrec5]). *)
From Coq Require Import Arith ZifyBool ZifyN ZifyNat.
From Rumqtt Require Import Client.VecLemmas Client.State5 Client.Inv5 Client.Eff5.

Definition holds5 (s : state5) (r : request5) : Prop :=
  match r with
  | R5Publish p => vget (s5_pub s) (q_pkid p) = Some (Some p) \/ s5_collision s = Some p
  | R5PubRel i => bit (s5_rel s) i = true
  | _ => False
  end.

Lemma in_held5 s r : Inv5 s -> (In r (held5 s) <-> holds5 s r).
Proof.
  intros I. unfold held5. rewrite !in_app_iff, !in_map_iff. split.
  - intros [[p [<- Hp]] | [[i [<- Hi]] | Hc]].
    + apply somes_in in Hp. destruct Hp as [k Hk]. left.
      assert (Hv : vget (s5_pub s) (N.of_nat k) = Some (Some p)) by (unfold vget, idx; rewrite Nat2N.id; exact Hk).
      destruct (j_slot s I _ _ Hv) as [E _]. rewrite E. exact Hv.
    + apply ones_in. exact Hi.
    + destruct (s5_collision s) as [q|] eqn:E; [|destruct Hc]. destruct Hc as [<- | []]. right. exact E.
  - destruct r; cbn [holds5]; try tauto.
    + intros [Hv | Hc].
      * left. exists p. split; [reflexivity|]. apply somes_in. exists (idx (q_pkid p)). exact Hv.
      * right. right. rewrite Hc. left. reflexivity.
    + intros Hb. right. left. exists id. split; [reflexivity|]. apply ones_in. exact Hb.
Qed.

Lemma holds5_slots_eq s s' r : slots_eq5 s s' -> holds5 s r -> holds5 s' r.
Proof. intros [Hp [Hr [Hc _]]] H. destruct r; cbn [holds5] in *; rewrite ?Hp, ?Hr, ?Hc; exact H. Qed.

(** ---- clean hands back everything that is held, and keeps the invariant *)
Theorem clean5_returns_held_inv s : Inv5 s ->
  exists s' l, step5 s Clean5 = Ok (s', Cleaned5 l) /\ l = held5 s /\ held5 s' = [] /\ Inv5 s'
               /\ (forall r, holds5 s r -> In r l).
Proof.
  intros I. cbn [step5]. destruct (clean5 s) as [s' l] eqn:E. exists s', l.
  pose proof (clean5_returns_held s) as [H1 H2]. pose proof (clean5_inv s I) as [I' _].
  rewrite E in *. cbn [fst snd] in *. split; [reflexivity|]. split; [exact H1|]. split; [exact H2|]. split; [exact I'|].
  intros r Hr. rewrite H1. apply in_held5; assumption.
Qed.

(** ---- an accepted QoS>0 publish is held (written and recorded, or parked).  A fresh id
    (request id 0) lies within the CURRENT negotiated limit [s5_max]; a preset one (replay)
    within the table, i.e. the configured limit [s5_max_limit]. *)
Theorem accept_held5 s p s' rep :
  Inv5 s -> op_ok5 s (Out5 (R5Publish p)) = true -> q_qos p <> Q0 ->
  handle_outgoing_packet5 s (R5Publish p) = Ok (s', rep) ->
  exists id, 1 <= id <= s5_max_limit s /\ (q_pkid p = 0 -> id <= s5_max s) /\ (q_pkid p <> 0 -> id = q_pkid p) /\
    holds5 s' (R5Publish (with_pkid5 p id)) /\
    ((rep = Some (P5Publish (with_pkid5 p id)) /\ busy5 s id = false /\
      vget (s5_pub s') id = Some (Some (with_pkid5 p id)))
     \/ (rep = None /\ s5_collision s' = Some (with_pkid5 p id) /\ busy5 s id = true)).
Proof.
  intros I Hok Hq H. cbn [handle_outgoing_packet5] in H. unfold outgoing_publish5 in H.
  destruct (match q_alias p with Some a => if s5_alias_max s <? a then Some a else None | None => None end); [discriminate|].
  assert (Hc : s5_collision s = None).
  { cbn [op_ok5] in Hok. destruct (q_qos p); [congruence| |]; destruct (s5_collision s); cbn in Hok; congruence. }
  assert (Hgo : forall s1 p1 id, Inv5 s1 -> s5_collision s1 = None -> q_pkid p1 = id -> 1 <= id -> q_qos p1 <> Q0 ->
            s5_pub s1 = s5_pub s -> s5_rel s1 = s5_rel s -> s5_max_limit s1 = s5_max_limit s ->
            p1 = with_pkid5 p id ->
            place_publish5 s1 p1 = Ok (s', rep) ->
            1 <= id <= s5_max_limit s /\ holds5 s' (R5Publish (with_pkid5 p id)) /\
            ((rep = Some (P5Publish (with_pkid5 p id)) /\ busy5 s id = false /\
              vget (s5_pub s') id = Some (Some (with_pkid5 p id)))
             \/ (rep = None /\ s5_collision s' = Some (with_pkid5 p id) /\ busy5 s id = true))).
  { intros s1 p1 id I1 Hc1 Hid H1 Hq1 Hp Hr Hm Hp1 Hpl. subst id.
    assert (Hbusy : busy5 s1 (q_pkid p1) = busy5 s (q_pkid p1)) by (unfold busy5; rewrite Hp, Hr; reflexivity).
    destruct (place_publish5_eff s1 p1 I1 Hc1 H1 Hq1) as [[_ He] | [[Hle [Hb He]] | [Hle [Hb [l [Hl He]]]]]];
      rewrite He in Hpl; inversion Hpl; subst s' rep; clear Hpl.
    - split; [lia|]. split; [cbn [holds5]; right; sproj5; congruence|]. right. sproj5. rewrite <- Hbusy. repeat split; congruence.
    - assert (Hv : vget l (q_pkid p1) = Some (Some p1)) by (eapply vget_vset_same; eauto).
      split; [lia|]. split; [|left; rewrite <- Hbusy; split; [congruence|split; [exact Hb|sproj5; congruence]]].
      cbn [holds5]. left. sproj5. rewrite <- Hp1. exact Hv. }
  destruct (q_qos p) eqn:Eq; [congruence| |].
  all: destruct (N.eqb_spec (q_pkid p) 0) as [E0 | E0].
  all: try (destruct (next_pkid5_spec s I) as [v [Hn [Hv Hid]]]; rewrite Hn in H; cbn [bind] in H;
            exists (s5_last_pkid s + 1);
            assert (G := Hgo (u_last_pkid s v) (with_pkid5 p (s5_last_pkid s + 1)) (s5_last_pkid s + 1)
                         (inv5_u_last_pkid s v I Hv) Hc eq_refl ltac:(lia) ltac:(cbn [q_qos with_pkid5]; congruence)
                         eq_refl eq_refl eq_refl eq_refl H);
            destruct G as [G1 G2]; split; [exact G1|]; split; [intros _; lia|]; split; [intros; congruence|exact G2]).
  all: exists (q_pkid p); assert (E : p = with_pkid5 p (q_pkid p)) by (destruct p; reflexivity);
       assert (G := Hgo s p (q_pkid p) I Hc eq_refl ltac:(lia) ltac:(congruence) eq_refl eq_refl eq_refl E H);
       destruct G as [G1 G2]; split; [exact G1|]; split; [intros; congruence|]; split; [reflexivity|exact G2].
Qed.

(** ---- nothing held disappears except by the broker's final word *)
Definition final_ack5 (o : op5) (r : request5) : Prop :=
  match o, r with
  | Inc5 (P5PubAck i _), R5Publish p => q_pkid p = i
  | Inc5 (P5PubComp i _), R5PubRel j => i = j
  | _, _ => False
  end.

(** v5 only: the broker refuses a QoS 2 publish in its PUBREC: no release follows, the flow is over *)
Definition refused_by_pubrec5 (o : op5) (r : request5) : Prop :=
  match o, r with
  | Inc5 (P5PubRec i reason), R5Publish p => q_pkid p = i /\ ack_ok reason = false
  | _, _ => False
  end.

(** an accepting PUBREC turns an unacknowledged publish into a pending release of the same id *)
Definition moved_to_release5 (o : op5) (r : request5) (s' : state5) : Prop :=
  match o, r with
  | Inc5 (P5PubRec i reason), R5Publish p => q_pkid p = i /\ ack_ok reason = true /\ holds5 s' (R5PubRel i)
  | _, _ => False
  end.

Lemma next5_out s r : next5 s (Out5 r) = res_state5 (handle_outgoing_packet5 s r).
Proof. unfold next5. cbn [step5]. destruct (handle_outgoing_packet5 s r) as [[? ?] | [? ?] | ?]; reflexivity. Qed.
Lemma next5_inc s pk : next5 s (Inc5 pk) = res_state5 (handle_incoming_packet5 s pk).
Proof. unfold next5. cbn [step5]. destruct (handle_incoming_packet5 s pk) as [[? ?] | [? ?] | ?]; reflexivity. Qed.

Lemma holds5_mono s s' r :
  (forall j x, vget (s5_pub s) j = Some (Some x) -> vget (s5_pub s') j = Some (Some x)) ->
  (forall j, bit (s5_rel s) j = true -> bit (s5_rel s') j = true) ->
  (forall q, s5_collision s = Some q -> s5_collision s' = Some q \/ vget (s5_pub s') (q_pkid q) = Some (Some q)) ->
  holds5 s r -> holds5 s' r.
Proof.
  intros Hp Hr Hc H. destruct r; cbn [holds5] in *; auto.
  destruct H as [H | H]; [left; auto|]. destruct (Hc p H); auto.
Qed.

(** the shared tail: after id [id] was freed in [s1] *)
Lemma ack_tail5_keeps s1 id s2 :
  Inv5 (u_collision s1 None) -> 1 <= id ->
  vget (s5_pub s1) id = Some None -> bit (s5_rel s1) id = false ->
  (forall q, s5_collision s1 = Some q -> q_qos q <> Q0) ->
  res_state5 (ack_tail5 s1 id) = Some s2 ->
  (forall r, holds5 s1 r -> holds5 s2 r) /\
  (forall j, j <> id -> busy5 s2 j = busy5 s1 j) /\ s5_max s2 = s5_max s1 /\ s5_max_limit s2 = s5_max_limit s1 /\
  s5_rel s2 = s5_rel s1.
Proof.
  intros I H1 Hfree Hrel Hq Hres.
  destruct (ack_tail5_eff s1 id I H1 Hfree Hrel Hq) as [[q [l [Hc [Hid [Hl He]]]]] | [Hne He]];
    rewrite He in Hres; cbn [res_state5] in Hres; inversion Hres; subst s2; clear Hres.
  - split; [|split; [|repeat split]].
    + intros r. apply holds5_mono; sproj5.
      * intros j x Hj. rewrite (vget_vset _ _ _ j _ Hl). destruct (N.eqb_spec id j); [congruence|exact Hj].
      * auto.
      * intros q' Hq'. right. rewrite Hc in Hq'. inversion Hq'. subst q'. rewrite Hid. eapply vget_vset_same; eauto.
    + intros j Hj. unfold busy5. sproj5. rewrite (vget_vset_other _ _ _ _ _ Hl); auto.
  - split; [auto|]. split; [auto|repeat split].
Qed.

(** freeing a publish slot, then the tail: everything but the publish of that id stays *)
Lemma free_pub_then_tail5_keeps s0 id p0 s' :
  Inv5 s0 -> vget (s5_pub s0) id = Some (Some p0) ->
  res_state5 (free_pub_then_tail5 s0 id) = Some s' ->
  forall r, holds5 s0 r -> holds5 s' r \/ (exists p, r = R5Publish p /\ q_pkid p = id).
Proof.
  intros I1 Eg Hn r Hr1.
  destruct (free_pub_then_tail5_eff s0 id p0 I1 Eg) as [l [Hl Hrest]].
  cbv zeta in Hrest. destruct Hrest as [He [H1 [Hpos [I2 [Hfree Hrel]]]]]. rewrite He in Hn.
  set (s1 := u_inflight (u_pub s0 l) (s5_inflight s0 - 1)) in *.
  destruct (ack_tail5_keeps s1 id s' I2 H1) as [Hk _]; subst s1; sproj5; auto.
  { intros q Hq. apply (j_coll s0 I1 q Hq). }
  destruct r; cbn [holds5] in Hr1; try contradiction.
  - destruct (N.eq_dec (q_pkid p) id) as [E | E]; [right; exists p; auto|left].
    apply Hk. cbn [holds5]. sproj5. destruct Hr1 as [Hs | Hc]; [left|right; exact Hc].
    rewrite (vget_vset_other _ _ _ _ _ Hl); auto.
  - left. apply Hk. cbn [holds5]. sproj5. exact Hr1.
Qed.

Ltac fin5 Hn Hr := inversion Hn; subst; first [exact Hr | revert Hr; apply holds5_slots_eq; repeat split].

Theorem keep_held5 s o s' : Inv5 s -> op_ok5 s o = true -> o <> Clean5 -> next5 s o = Some s' ->
  forall r, holds5 s r -> holds5 s' r \/ final_ack5 o r \/ refused_by_pubrec5 o r \/ moved_to_release5 o r s'.
Proof.
  intros I Hok Hnc Hn r Hr. destruct o as [rq | pk |]; [| |congruence].
  - (* user request *)
    left. rewrite next5_out in Hn. destruct rq; cbn [op_ok5 api_request5] in Hok; try discriminate;
      cbn [handle_outgoing_packet5] in Hn.
    + (* publish *)
      unfold outgoing_publish5 in Hn.
      destruct (match q_alias p with Some a => if s5_alias_max s <? a then Some a else None | None => None end).
      { cbn [res_state5] in Hn. fin5 Hn Hr. }
      destruct (q_qos p) eqn:Eq.
      { cbn [res_state5] in Hn. fin5 Hn Hr. }
      all: assert (Hc : s5_collision s = None) by (destruct (s5_collision s); cbn in Hok; congruence).
      all: assert (Hgo : forall s1 p1, Inv5 s1 -> s5_collision s1 = None -> 1 <= q_pkid p1 -> q_qos p1 <> Q0 ->
             slots_eq5 s s1 -> res_state5 (place_publish5 s1 p1) = Some s' -> holds5 s' r).
      1,3: intros s1 p1 I1 Hc1 H1 Hq1 Heq Hres; apply (holds5_slots_eq _ _ _ Heq) in Hr;
           destruct (place_publish5_eff s1 p1 I1 Hc1 H1 Hq1) as [[_ He] | [[Hle [Hb He]] | [Hle [Hb [l [Hl He]]]]]];
           rewrite He in Hres; cbn [res_state5] in Hres; inversion Hres; subst s'; clear Hres;
           [ exact Hr
           | revert Hr; apply holds5_mono; sproj5; [auto | auto | intros q Hq'; congruence]
           | revert Hr; apply holds5_mono; sproj5;
             [ intros j x Hj; rewrite (vget_vset _ _ _ j _ Hl); destruct (N.eqb_spec (q_pkid p1) j); [|exact Hj];
               subst j; unfold busy5 in Hb; rewrite Hj in Hb; discriminate
             | auto
             | intros q Hq'; congruence ] ].
      all: destruct (N.eqb_spec (q_pkid p) 0) as [E0 | E0].
      all: try (destruct (next_pkid5_spec s I) as [v [Hnp [Hv Hid]]]; rewrite Hnp in Hn; cbn [bind] in Hn;
                apply (Hgo (u_last_pkid s v) (with_pkid5 p (s5_last_pkid s + 1)));
                [apply inv5_u_last_pkid; assumption|exact Hc|cbn [q_pkid with_pkid5]; lia|cbn [q_qos with_pkid5]; congruence
                |repeat split|exact Hn]).
      all: apply (Hgo s p); [exact I|exact Hc|lia|congruence|apply slots_eq5_refl|exact Hn].
    + cbn [res_state5 outgoing_puback5] in Hn. fin5 Hn Hr.
    + cbn [res_state5 outgoing_pubrec5] in Hn. fin5 Hn Hr.
    + (* replayed release *)
      apply andb_true_iff in Hok. destruct Hok as [Hok Hb]. apply andb_true_iff in Hok. destruct Hok as [H1 H2].
      destruct (outgoing_pubrel5_eff s id I ltac:(lia) ltac:(lia) ltac:(destruct (busy5 s id); [discriminate|reflexivity]))
        as [rl [Hrl He]].
      rewrite He in Hn. cbn [res_state5] in Hn. inversion Hn. subst s'.
      revert Hr. apply holds5_mono; sproj5; auto.
      intros j Hj. rewrite (bit_vset _ _ _ j _ Hrl). destruct (id =? j); [reflexivity|exact Hj].
    + unfold outgoing_ping5 in Hn. destruct (is_some (s5_collision s)); sproj5.
      * destruct (2 <=? s5_cpc s + 1); cbn [bind res_state5] in Hn;
          [fin5 Hn Hr|].
        sproj5. destruct (s5_await_pingresp s); cbn [res_state5] in Hn; fin5 Hn Hr.
      * cbn [bind] in Hn. destruct (s5_await_pingresp s); cbn [res_state5] in Hn; fin5 Hn Hr.
    + unfold outgoing_subscribe5 in Hn. destruct (n =? 0); [cbn [res_state5] in Hn; congruence|].
      destruct (next_pkid5_spec s I) as [v [Hnp _]]. rewrite Hnp in Hn. cbn [bind res_state5] in Hn. fin5 Hn Hr.
    + unfold outgoing_unsubscribe5 in Hn.
      destruct (next_pkid5_spec s I) as [v [Hnp _]]. rewrite Hnp in Hn. cbn [bind res_state5] in Hn. fin5 Hn Hr.
    + cbn [res_state5 outgoing_disconnect5] in Hn. fin5 Hn Hr.
  - (* packet from the broker *)
    rewrite next5_inc in Hn. unfold handle_incoming_packet5 in Hn.
    pose proof (inv5_push s (Ev5In pk) I) as I1.
    assert (Hr1 : holds5 (push5 s (Ev5In pk)) r) by (revert Hr; apply holds5_slots_eq; repeat split).
    set (s0 := push5 s (Ev5In pk)) in *. clearbody s0. clear Hr I.
    destruct pk; cbn [res_state5] in Hn; try (inversion Hn; subst s'; left; exact Hr1).
    + (* connack *) left.
      destruct (handle_incoming_connack5_eff s0 code receive_max topic_alias_max)
        as [[_ He] | [[_ [_ He]] | [_ [_ [s2 [He [Hp [Hr [Hc _]]]]]]]]];
        rewrite He in Hn; cbn [res_state5] in Hn; inversion Hn; subst s';
        [exact Hr1|revert Hr1; apply holds5_slots_eq; apply alias_taken5_slots|].
      destruct r; cbn [holds5] in *; rewrite ?Hp, ?Hr, ?Hc; exact Hr1.
    + (* publish *) left. unfold handle_incoming_publish5, outgoing_puback5, outgoing_pubrec5, outgoing_disconnect5 in Hn.
      destruct (q_alias p) as [a|]; [destruct (negb (q_topic p =? 0)); [|destruct (iset_mem (s5_aliases s0) a)]|];
        destruct (q_qos p); sproj5; try destruct (s5_manual s0); cbn [res_state5] in Hn; fin5 Hn Hr1.
    + (* puback *)
      destruct (handle_incoming_puback5_eff s0 id reason I1) as [[_ He] | [p0 [Eg He]]]; rewrite He in Hn.
      { cbn [res_state5] in Hn. inversion Hn. subst. left. exact Hr1. }
      destruct (free_pub_then_tail5_keeps s0 id p0 s' I1 Eg Hn r Hr1) as [H | [p [-> E]]]; [left; exact H|].
      right. left. exact E.
    + (* pubrec *)
      destruct (handle_incoming_pubrec5_eff s0 id reason I1)
        as [[_ He] | [[Hno [p0 [Eg He]]] | [Hyes [p0 [l [rl [Eg [Hl [Hrl He]]]]]]]]]; rewrite He in Hn.
      { cbn [res_state5] in Hn. inversion Hn. subst. left. exact Hr1. }
      { destruct (free_pub_then_tail5_keeps s0 id p0 s' I1 Eg Hn r Hr1) as [H | [p [-> E]]]; [left; exact H|].
        right. right. left. cbn [refused_by_pubrec5]. split; assumption. }
      cbn [res_state5] in Hn. inversion Hn. subst s'.
      destruct r; cbn [holds5] in Hr1; try contradiction.
      * destruct (N.eq_dec (q_pkid p) id) as [E | E].
        -- right. right. right. cbn [moved_to_release5 holds5]. split; [exact E|]. split; [exact Hyes|]. sproj5.
           rewrite (bit_vset _ _ _ id _ Hrl), N.eqb_refl. reflexivity.
        -- left. cbn [holds5]. sproj5. destruct Hr1 as [Hs | Hc]; [left|right; exact Hc].
           rewrite (vget_vset_other _ _ _ _ _ Hl); auto.
      * left. cbn [holds5]. sproj5. rewrite (bit_vset _ _ _ id0 _ Hrl). destruct (id =? id0); [reflexivity|exact Hr1].
    + (* pubrel *) left. unfold handle_incoming_pubrel5 in Hn. destruct (negb _); cbn [res_state5] in Hn; fin5 Hn Hr1.
    + (* pubcomp *)
      destruct (handle_incoming_pubcomp5_eff s0 id reason I1) as [[_ He] | [Hb [rl [Hrl Hrest]]]].
      { rewrite He in Hn. cbn [res_state5] in Hn. inversion Hn. subst. left. exact Hr1. }
      cbv zeta in Hrest. destruct Hrest as [He [H1 [Hpos [I2 [Hfree Hrel]]]]]. rewrite He in Hn.
      set (s1 := u_inflight (u_rel s0 rl) (s5_inflight s0 - 1)) in *.
      destruct (ack_tail5_keeps s1 id s' I2 H1) as [Hk _]; subst s1; sproj5; auto.
      { intros q Hq. apply (j_coll s0 I1 q Hq). }
      destruct r; cbn [holds5] in Hr1; try contradiction.
      * left. apply Hk. cbn [holds5]. sproj5. exact Hr1.
      * destruct (N.eq_dec id id0) as [E | E]; [right; left; exact E|left].
        apply Hk. cbn [holds5]. sproj5. rewrite (bit_vset _ _ _ id0 _ Hrl).
        destruct (N.eqb_spec id id0); [congruence|exact Hr1].
Qed.

(** ---- run level: along EVERY op sequence that honours the contract, from any configured limit,
    a held request is still held at the end unless one of the listed exits was taken on the way *)
Definition op5_is_clean (o : op5) : bool := match o with Clean5 => true | _ => false end.

(** the QoS 2 publish of id [i] was received: from here on the release of [i] is what is held *)
Definition released5 (o : op5) (r : request5) : Prop :=
  match o, r with
  | Inc5 (P5PubRec i reason), R5Publish p => q_pkid p = i /\ ack_ok reason = true
  | _, _ => False
  end.

Definition exit5 (o : op5) (r : request5) : Prop :=
  final_ack5 o r \/ refused_by_pubrec5 o r \/ released5 o r \/ o = Clean5.

Theorem run5_keeps_held s h s' : Inv5 s -> contract5 s h = true -> run5 s h = Some s' ->
  forall r, holds5 s r -> holds5 s' r \/ exists o, In o h /\ exit5 o r.
Proof.
  revert s. induction h as [| o h IH]; intros s I Hc Hrun r Hr.
  { cbn [run5] in Hrun. inversion Hrun. subst. left. exact Hr. }
  cbn [contract5] in Hc. apply andb_true_iff in Hc. destruct Hc as [Hok Hc].
  cbn [run5] in Hrun. destruct (next5 s o) as [s1|] eqn:En; [|discriminate].
  assert (I1 : Inv5 s1).
  { pose proof (step5_inv s o I Hok) as H. unfold next5 in En.
    destruct (step5 s o) as [[s2 x] | [s2 e] | t]; inversion En; subst; exact H. }
  destruct (op5_is_clean o) eqn:Ecl.
  { right. exists o. split; [left; reflexivity|]. destruct o; try discriminate. right. right. right. reflexivity. }
  assert (Hnc : o <> Clean5) by (intros ->; discriminate).
  destruct (keep_held5 s o s1 I Hok Hnc En r Hr) as [H | [H | [H | H]]].
  - destruct (IH s1 I1 Hc Hrun r H) as [G | [o' [Hin G]]]; [left; exact G|right; exists o'; split; [right; exact Hin|exact G]].
  - right. exists o. split; [left; reflexivity|left; exact H].
  - right. exists o. split; [left; reflexivity|right; left; exact H].
  - right. exists o. split; [left; reflexivity|]. right. right. left.
    destruct o as [| [] |]; cbn [moved_to_release5 released5] in *; try contradiction.
    destruct r; try contradiction. tauto.
Qed.

(** the statements apply to a non-trivial reachable state: limit 2, wrap-around, a QoS 2 publish
    in flight on id 1 with a QoS 1 publish parked on the same id; then each v5 exit in turn:
    the refusing PUBREC takes the QoS 2 publish out ([refused_by_pubrec5]) and puts the parked one
    on the wire; a PUBACK with a failure reason is final for that one ([final_ack5]) *)
Example held5_nontrivial :
  let pq q tag := Out5 (R5Publish (mkPub5 q 0 tag tag None)) in
  let h := [pq Q2 1; pq Q1 2; Inc5 (P5PubAck 2 0); pq Q1 3] in
  contract5 (init5 2 false) (h ++ [Inc5 (P5PubRec 1 135); Inc5 (P5PubAck 1 128)]) = true /\
  option_map held5 (run5 (init5 2 false) h) = Some [R5Publish (mkPub5 Q2 1 1 1 None); R5Publish (mkPub5 Q1 1 3 3 None)] /\
  option_map held5 (run5 (init5 2 false) (h ++ [Inc5 (P5PubRec 1 135)])) = Some [R5Publish (mkPub5 Q1 1 3 3 None)] /\
  option_map held5 (run5 (init5 2 false) (h ++ [Inc5 (P5PubRec 1 135); Inc5 (P5PubAck 1 128)])) = Some [] /\
  option_map held5 (run5 (init5 2 false) (h ++ [Inc5 (P5PubRec 1 16)])) = Some [R5PubRel 1; R5Publish (mkPub5 Q1 1 3 3 None)].
Proof. vm_compute. repeat split. Qed.

(** and [clean5] hands back exactly that, ids and contents intact, the parked publish last *)
Example clean5_nontrivial :
  let pq q tag := Out5 (R5Publish (mkPub5 q 0 tag tag None)) in
  match run5 (init5 2 false) [pq Q2 1; pq Q1 2; Inc5 (P5PubAck 2 0); pq Q1 3; Inc5 (P5PubRec 1 16)] with
  | Some s => step5 s Clean5 = Ok (fst (clean5 s), Cleaned5 [R5PubRel 1; R5Publish (mkPub5 Q1 1 3 3 None)])
  | None => False
  end.
Proof. vm_compute. reflexivity. Qed.
