(** Running op sequences on the v4 model; the caller contract; known-finding predicates.
    Executable definitions only (extracted for the check). *)
From Rumqtt Require Export Client.State4 Client.State4Orig.

(** state after one op: an [Err] keeps the mutated state (the caller may go on), a panic is final *)
Definition next (stp : state -> op -> R reply) (s : state) (o : op) : option state :=
  match stp s o with
  | Ok (s', _) => Some s'
  | Err (s', _) => Some s'
  | Panic _ => None
  end.

Fixpoint run_with (stp : state -> op -> R reply) (s : state) (h : list op) : option state :=
  match h with
  | [] => Some s
  | o :: r => match next stp s o with Some s' => run_with stp s' r | None => None end
  end.

Definition run := run_with step.
Definition run_orig := run_with step_orig.

(** ---- decidable equality on ops (for the replay test of K29) *)
Definition qos_eqb (a b : qos) : bool :=
  match a, b with Q0, Q0 | Q1, Q1 | Q2, Q2 => true | _, _ => false end.
Definition publish_eqb (a b : publish) : bool :=
  qos_eqb (p_qos a) (p_qos b) && (p_pkid a =? p_pkid b) && (p_topic a =? p_topic b) && (p_payload a =? p_payload b).
Definition request_eqb (a b : request) : bool :=
  match a, b with
  | RPublish p, RPublish q => publish_eqb p q
  | RPubAck i, RPubAck j | RPubRec i, RPubRec j | RPubComp i, RPubComp j | RPubRel i, RPubRel j => i =? j
  | RPingReq, RPingReq | RPingResp, RPingResp | RDisconnect, RDisconnect => true
  | RSubscribe i, RSubscribe j | RUnsubscribe i, RUnsubscribe j => i =? j
  | RSubAck i, RSubAck j | RUnsubAck i, RUnsubAck j => i =? j
  | _, _ => false
  end.

(** [l] (requests) is replayed, in order, at the head of [h] *)
Fixpoint replayed (l : list request) (h : list op) : bool :=
  match l, h with
  | [], _ => true
  | r :: l', Out r' :: h' => request_eqb r r' && replayed l' h'
  | _, _ => false
  end.

(** ---- known-finding classes of C11 (retransmission ORDER only; nothing is lost) *)

(** K30: a Subscribe/Unsubscribe request in the history.  They draw packet ids from the same
    allocator as publishes, so the ids of the unacknowledged publishes no longer form the cyclic
    interval that [clean]'s rotation at [last_puback + 1] assumes. *)
Definition is_sub (o : op) : bool :=
  match o with Out (RSubscribe _) | Out (RUnsubscribe _) => true | _ => false end.
Definition k30 (h : list op) : bool := existsb is_sub h.

(** K29: some [Clean] before the end of the history returned work that was not replayed
    right after it (a reconnect without session): [last_puback] and the id allocator keep
    their old values, so the rotation point is stale on the next failure. *)
Fixpoint k29_from (s : state) (h : list op) : bool :=
  match h with
  | [] => false
  | o :: r =>
      match step s o with
      | Ok (s', Cleaned l) =>
          (match r, l with
           | [], _ => false
           | _, [] => false
           | _, _ => negb (replayed l r)
           end) || k29_from s' r
      | Ok (s', _) => k29_from s' r
      | Err (s', _) => k29_from s' r
      | Panic _ => false
      end
  end.
Definition k29 (max : N) (manual : bool) (h : list op) : bool := k29_from (init max manual) h.

(** ---- the contract EventLoop keeps towards MqttState (what "user requests" means at this level) *)
Definition api_request (r : request) : bool :=
  match r with
  | RPublish _ | RSubscribe _ | RUnsubscribe _ | RPubAck _ | RPubRec _ | RPingReq | RDisconnect => true
  | RPubRel _ | RPubComp _ | RPingResp | RSubAck _ | RUnsubAck _ => false
  end.

(** id [i] is busy: a publish or a release holds it *)
Definition busy (s : state) (i : N) : bool :=
  match vget (outgoing_pub s) i with Some (Some _) => true | _ => false end || bit (outgoing_rel s) i.

Definition op_ok (s : state) (o : op) : bool :=
  match o with
  | Out (RPublish p) =>
      match p_qos p with Q0 => true | _ => negb (is_some (collision s)) end
  | Out (RPubRel i) => (1 <=? i) && (i <=? max_inflight s) && negb (busy s i)
  | Out r => api_request r
  | Inc _ => true
  | Clean => true
  end.

Fixpoint contract (s : state) (h : list op) : bool :=
  match h with
  | [] => true
  | o :: r => op_ok s o && match next step s o with Some s' => contract s' r | None => true end
  end.
