(** Witnesses of the findings on the v5 client state machine, about the code before the v5 fix:
    commits (Client/State5Orig.v, module [Orig]), each with the behaviour of the current model.
    All by [vm_compute] on closed terms.  Every witness was replayed through the Rust driver on
    the real [rumqttc::v5::MqttState] before the fix (build/client/f14.txt). *)
From Rumqtt Require Import Client.State5 Client.State5Orig.

Definition next5 (stp : state5 -> op5 -> R5 reply5) (s : state5) (o : op5) : option state5 :=
  match stp s o with Ok (s', _) => Some s' | Err (s', _) => Some s' | Panic _ => None end.
Fixpoint run5_with (stp : state5 -> op5 -> R5 reply5) (s : state5) (h : list op5) : option state5 :=
  match h with
  | [] => Some s
  | o :: r => match next5 stp s o with Some s' => run5_with stp s' r | None => None end
  end.
Definition run5 := run5_with step5.
Definition run5_orig := run5_with Orig.step5.

Definition p5 (q : qos) (tag : N) : op5 := Out5 (R5Publish (mkPub5 q 0 tag tag None)).
Definition obs (s : state5) := (s5_inflight s, somes (s5_pub s), ones (s5_rel s), s5_collision s).
Definition cleaned (stp : state5 -> op5 -> R5 reply5) (s : option state5) : option (list request5) :=
  match s with
  | Some s => match stp s Clean5 with Ok (_, Cleaned5 l) => Some l | _ => None end
  | None => None
  end.

(** F14a: a PUBACK carrying a failure reason frees the id but leaves the publish parked on it
    behind — forever (nothing else can resolve it), and [clean] drops it (F8). *)
Definition f14a : list op5 := [p5 Q1 1; p5 Q1 2; Inc5 (P5PubAck 2 0); p5 Q1 3; Inc5 (P5PubAck 1 128)].
Lemma f14a_refuted :
  option_map obs (run5_orig (init5 2 false) f14a) = Some (0, [], [], Some (mkPub5 Q1 1 3 3 None))
  /\ cleaned Orig.step5 (run5_orig (init5 2 false) f14a) = Some []
  /\ option_map obs (run5 (init5 2 false) f14a) = Some (1, [mkPub5 Q1 1 3 3 None], [], None).
Proof. vm_compute. repeat split. Qed.

(** F14a': a PUBREC carrying a failure reason frees the id without [inflight -= 1]: the window
    leaks one slot per refused QoS 2 publish *)
Lemma f14a_pubrec_refuted :
  option_map obs (run5_orig (init5 2 false) [p5 Q2 1; Inc5 (P5PubRec 1 128)]) = Some (1, [], [], None)
  /\ option_map obs (run5 (init5 2 false) [p5 Q2 1; Inc5 (P5PubRec 1 128)]) = Some (0, [], [], None).
Proof. vm_compute. split; reflexivity. Qed.

(** F14b: an UNSOLICITED PUBCOMP takes the parked publish (announces it) and then fails: the
    publish is neither written nor kept *)
Definition f14b : list op5 := [p5 Q2 1; p5 Q1 2; Inc5 (P5PubAck 2 0); p5 Q1 3].
Lemma f14b_refuted :
  (exists s s', run5_orig (init5 2 false) f14b = Some s /\ s5_collision s = Some (mkPub5 Q1 1 3 3 None) /\
     Orig.step5 (u_events s []) (Inc5 (P5PubComp 1 0)) = Err (s', E5Unsolicited 1) /\
     s5_collision s' = None /\ s5_events s' = [Ev5In (P5PubComp 1 0); Ev5Out (OPublish 1)] /\ somes (s5_pub s') = [mkPub5 Q2 1 1 1 None])
  /\ (exists s s', run5 (init5 2 false) f14b = Some s /\
     step5 (u_events s []) (Inc5 (P5PubComp 1 0)) = Err (s', E5Unsolicited 1) /\
     s5_collision s' = Some (mkPub5 Q1 1 3 3 None) /\ s5_events s' = [Ev5In (P5PubComp 1 0)]).
Proof. split; eexists; eexists; vm_compute; repeat split. Qed.

(** F14c: unknown topic alias: DISCONNECT(0x82) is announced, never handed to the network, and
    the publish is acknowledged as if nothing happened *)
Definition unknown_alias := P5Publish (mkPub5 Q1 5 0 1 (Some 7)).
Lemma f14c_refuted :
  (exists s', Orig.step5 (init5 2 false) (Inc5 unknown_alias) = Ok (s', Wrote5 (Some (P5PubAck 5 0))) /\
     s5_events s' = [Ev5In unknown_alias; Ev5Out ODisconnect; Ev5Out (OPubAck 5)])
  /\ (exists s', step5 (init5 2 false) (Inc5 unknown_alias) = Ok (s', Wrote5 (Some (P5Disconnect 130))) /\
     s5_events s' = [Ev5In unknown_alias; Ev5Out ODisconnect]).
Proof. split; eexists; vm_compute; split; reflexivity. Qed.

(** F14d: CONNACK lowers receive-maximum to 2 while last_pkid = 3: the allocator never wraps
    again (ids 4, 5, 6 ... on the wire, above the limit) *)
Definition f14d : list op5 := [p5 Q1 1; p5 Q1 2; p5 Q1 3; Inc5 (P5ConnAck true 0 (Some 2) None)].
Lemma f14d_refuted :
  (exists s s', run5_orig (init5 10 false) f14d = Some s /\ s5_max s = 2 /\
     Orig.step5 s (p5 Q1 4) = Ok (s', Wrote5 (Some (P5Publish (mkPub5 Q1 4 4 4 None)))))
  /\ (exists s s', run5 (init5 10 false) f14d = Some s /\ s5_max s = 2 /\ s5_last_pkid s = 0 /\
     step5 s (p5 Q1 4) = Ok (s', Wrote5 None) /\ s5_collision s' = Some (mkPub5 Q1 1 4 4 None)).
Proof. split; eexists; eexists; vm_compute; repeat split. Qed.

(** F14e: an alias above the broker's maximum is refused AFTER the publish was recorded: it is
    never written, holds a window slot, and [clean] hands it back to fail again *)
Definition bad_alias := Out5 (R5Publish (mkPub5 Q1 0 1 1 (Some 9))).
Lemma f14e_refuted :
  (exists s', Orig.step5 (init5 2 false) bad_alias = Err (s', E5InvalidAlias 9 0) /\
     obs s' = (1, [mkPub5 Q1 1 1 1 (Some 9)], [], None) /\ s5_events s' = [])
  /\ (exists s', step5 (init5 2 false) bad_alias = Err (s', E5InvalidAlias 9 0) /\ obs s' = (0, [], [], None)).
Proof. split; eexists; vm_compute; repeat split. Qed.

(** F13-like: the release of a known id with a reason code other than Success got no PUBCOMP *)
Lemma f14_pubrel_refuted :
  (exists s s', run5_orig (init5 2 false) [Inc5 (P5Publish (mkPub5 Q2 6 1 1 None))] = Some s /\
     Orig.step5 s (Inc5 (P5PubRel 6 146)) = Ok (s', Wrote5 None))
  /\ (exists s s', run5 (init5 2 false) [Inc5 (P5Publish (mkPub5 Q2 6 1 1 None))] = Some s /\
     step5 s (Inc5 (P5PubRel 6 146)) = Ok (s', Wrote5 (Some (P5PubComp 6 0)))).
Proof. split; eexists; eexists; vm_compute; split; reflexivity. Qed.

(** the v5 copies of F4 / F9 / F8 *)
Lemma f4_v5_refuted :
  let h := [p5 Q2 1; p5 Q1 2; Inc5 (P5PubAck 2 0); p5 Q1 3; Inc5 (P5PubRec 1 0); Inc5 (P5PubComp 1 0)] in
  option_map obs (run5_orig (init5 2 false) h) = Some (0, [], [], None)
  /\ option_map obs (run5 (init5 2 false) h) = Some (1, [mkPub5 Q1 1 3 3 None], [], None).
Proof. vm_compute. split; reflexivity. Qed.

Lemma f9_v5_refuted :
  let h := [p5 Q2 1; Inc5 (P5PubRec 1 0); p5 Q1 2; Inc5 (P5PubAck 2 0); p5 Q1 3] in
  option_map obs (run5_orig (init5 2 false) h) = Some (2, [mkPub5 Q1 1 3 3 None], [1], None)
  /\ option_map obs (run5 (init5 2 false) h) = Some (1, [], [1], Some (mkPub5 Q1 1 3 3 None)).
Proof. vm_compute. split; reflexivity. Qed.

Lemma f8_v5_refuted :
  cleaned Orig.step5 (run5_orig (init5 1 false) [p5 Q1 1; p5 Q1 2]) = Some [R5Publish (mkPub5 Q1 1 1 1 None)]
  /\ cleaned step5 (run5 (init5 1 false) [p5 Q1 1; p5 Q1 2])
     = Some [R5Publish (mkPub5 Q1 1 1 1 None); R5Publish (mkPub5 Q1 1 2 2 None)].
Proof. vm_compute. split; reflexivity. Qed.

(** F37: a CONNACK announcing receive-maximum 0 was taken as an inflight limit of zero: the
    allocator never wrapped again — SUBSCRIBE ids ran past the configured limit 2 and every QoS>0
    publish was refused as unsolicited.  Now (fix: commit b2fc5b9) the CONNACK is refused and the
    allocator keeps cycling in 1..2. *)
Definition f37 : list op5 :=
  [Inc5 (P5ConnAck true 0 (Some 0) None); Out5 (R5Subscribe 1); Out5 (R5Subscribe 1)].
Lemma f37_refuted :
  (exists s s1 s2, run5_orig (init5 2 false) f37 = Some s /\ s5_max s = 0 /\
     Orig.step5 s (Out5 (R5Subscribe 1)) = Ok (s1, Wrote5 (Some (P5Subscribe 3 1))) /\
     Orig.step5 s1 (p5 Q1 1) = Err (s2, E5Unsolicited 4))
  /\ (exists s s1 s2, run5 (init5 2 false) f37 = Some s /\ s5_max s = 2 /\
     step5 s (Out5 (R5Subscribe 1)) = Ok (s1, Wrote5 (Some (P5Subscribe 1 1))) /\
     step5 s1 (p5 Q1 1) = Ok (s2, Wrote5 (Some (P5Publish (mkPub5 Q1 2 1 1 None)))))
  /\ (exists s', step5 (init5 2 false) (Inc5 (P5ConnAck true 0 (Some 0) None)) = Err (s', E5ConnFail 130) /\
     s5_max s' = 2 /\ s5_last_pkid s' = 0).
Proof.
  split; [|split].
  - eexists. eexists. eexists. vm_compute. repeat split.
  - eexists. eexists. eexists. vm_compute. repeat split.
  - eexists. vm_compute. repeat split.
Qed.
