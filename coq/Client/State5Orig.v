(** M-CLIENT (v5) as the code was BEFORE the v5 fix: commits dacd5a3, 7f7c0fd, dbc4d0a, 1b8f296,
    1f8a3a7, e3e8c14, f762552, c064db0, b2fc5b9 — kept as the record of findings F4/F8/F9 (v5 copies),
    F14a-e and F37 (CONNACK receive-maximum 0) (witness lemmas: Client/Findings5.v).  Same types as Client/State5.v; the functions
    live in module [Orig].  No proofs here. *)
From Rumqtt Require Export Client.State5.

Module Orig.
Definition inflight_inc5 (s : state5) : R5 unit :=
  if s5_inflight s =? U16_MAX then Panic P_ADD_OVERFLOW else Ok (u_inflight s (s5_inflight s + 1), tt).
Definition inflight_dec5 (s : state5) : R5 unit :=
  if s5_inflight s =? 0 then Panic P_SUB_OVERFLOW else Ok (u_inflight s (s5_inflight s - 1), tt).
Definition pub_store5 (s : state5) (i : N) (v : option publish5) : R5 unit :=
  match vset (s5_pub s) i v with Some l => Ok (u_pub s l, tt) | None => Panic P_INDEX end.
Definition rel_set5 (s : state5) (i : N) (v : bool) : R5 unit :=
  match vset (s5_rel s) i v with Some l => Ok (u_rel s l, tt) | None => Panic P_BITSET end.

Definition next_pkid5 (s : state5) : R5 N :=
  if s5_last_pkid s =? U16_MAX then Panic P_ADD_OVERFLOW
  else
    let n := s5_last_pkid s + 1 in
    if n =? s5_max s then Ok (u_last_pkid s 0, n) else Ok (u_last_pkid s n, n).

Definition check_collision5 (s : state5) (pkid : N) : state5 * option publish5 :=
  match s5_collision s with
  | Some p => if q_pkid p =? pkid then (u_collision s None, Some p) else (s, None)
  | None => (s, None)
  end.

(** [outgoing_publish] *)
Definition outgoing_publish5 (s : state5) (p : publish5) : R5 (option packet5) :=
  do (s, p, parked) <-
    match q_qos p with
    | Q0 => Ok (s, p, false)
    | _ =>
        do (s, p) <- (if q_pkid p =? 0
                      then do (s, id) <- next_pkid5 s; Ok (s, with_pkid5 p id)
                      else Ok (s, p));
        match vget (s5_pub s) (q_pkid p) with
        | None => Err (s, E5Unsolicited (q_pkid p))
        | Some slot =>
            if is_some slot
            then Ok (push5 (u_collision s (Some p)) (Ev5Out (OAwaitAck (q_pkid p))), p, true)
            else
              do (s, _) <- pub_store5 s (q_pkid p) (Some p);
              do (s, _) <- inflight_inc5 s;
              Ok (s, p, false)
        end
    end;
  if parked then Ok (s, None)
  else
    match q_alias p with
    | Some a => if s5_alias_max s <? a then Err (s, E5InvalidAlias a (s5_alias_max s))
                else Ok (push5 s (Ev5Out (OPublish (q_pkid p))), Some (P5Publish p))
    | None => Ok (push5 s (Ev5Out (OPublish (q_pkid p))), Some (P5Publish p))
    end.

Definition outgoing_pubrel5 (s : state5) (id : N) : R5 (option packet5) :=
  do (s, id) <- (if id =? 0 then next_pkid5 s else Ok (s, id));
  do (s, _) <- rel_set5 s id true;
  do (s, _) <- inflight_inc5 s;
  Ok (push5 s (Ev5Out (OPubRel id)), Some (P5PubRel id 0)).

Definition outgoing_puback5 (s : state5) (id : N) : R5 (option packet5) :=
  Ok (push5 s (Ev5Out (OPubAck id)), Some (P5PubAck id 0)).
Definition outgoing_pubrec5 (s : state5) (id : N) : R5 (option packet5) :=
  Ok (push5 s (Ev5Out (OPubRec id)), Some (P5PubRec id 0)).

Definition outgoing_ping5 (s : state5) : R5 (option packet5) :=
  let chk :=
    if is_some (s5_collision s)
    then let s := u_cpc s (s5_cpc s + 1) in
         if 2 <=? s5_cpc s then Err (s, E5CollisionTimeout) else Ok (s, tt)
    else Ok (s, tt) in
  do (s, _) <- chk;
  if s5_await_pingresp s then Err (s, E5AwaitPingResp)
  else Ok (push5 (u_await s true) (Ev5Out OPingReq), Some P5PingReq).

Definition outgoing_subscribe5 (s : state5) (n : N) : R5 (option packet5) :=
  if n =? 0 then Err (s, E5EmptySubscription)
  else do (s, id) <- next_pkid5 s; Ok (push5 s (Ev5Out (OSubscribe id)), Some (P5Subscribe id n)).

Definition outgoing_unsubscribe5 (s : state5) (n : N) : R5 (option packet5) :=
  do (s, id) <- next_pkid5 s; Ok (push5 s (Ev5Out (OUnsubscribe id)), Some (P5Unsubscribe id n)).

(** [outgoing_disconnect(reason)] *)
Definition outgoing_disconnect5 (s : state5) (reason : N) : R5 (option packet5) :=
  Ok (push5 s (Ev5Out ODisconnect), Some (P5Disconnect reason)).

Definition handle_outgoing_packet5 (s : state5) (r : request5) : R5 (option packet5) :=
  match r with
  | R5Publish p => outgoing_publish5 s p
  | R5PubRel id => outgoing_pubrel5 s id
  | R5Subscribe n => outgoing_subscribe5 s n
  | R5Unsubscribe n => outgoing_unsubscribe5 s n
  | R5PingReq => outgoing_ping5 s
  | R5Disconnect => outgoing_disconnect5 s 0
  | R5PubAck id => outgoing_puback5 s id
  | R5PubRec id => outgoing_pubrec5 s id
  | R5PubComp _ | R5PingResp | R5SubAck _ | R5UnsubAck _ => Panic P_UNIMPLEMENTED
  end.

(** [handle_incoming_connack] *)
Definition handle_incoming_connack5 (s : state5) (code : N) (rm tam : option N) : R5 (option packet5) :=
  if negb (code =? 0) then Err (s, E5ConnFail code)
  else
    let s := match tam with Some t => u_alias_max s t | None => s end in
    let s := match rm with Some m => u_max s (N.min m (s5_max_limit s)) | None => s end in
    Ok (s, None).

(** [handle_incoming_publish]: alias bookkeeping first; an unknown alias on an empty topic runs
    [handle_protocol_error()?] — the DISCONNECT it builds is announced (event) and then DROPPED
    (the value of the [?] expression is ignored), and the normal ack flow continues *)
Definition handle_incoming_publish5 (s : state5) (p : publish5) : R5 (option packet5) :=
  let s :=
    match q_alias p with
    | Some a =>
        if negb (q_topic p =? 0) then u_aliases s (iset_add (s5_aliases s) a)
        else if iset_mem (s5_aliases s) a then s
        else push5 s (Ev5Out ODisconnect)
    | None => s
    end in
  match q_qos p with
  | Q0 => Ok (s, None)
  | Q1 => if s5_manual s then Ok (s, None) else outgoing_puback5 s (q_pkid p)
  | Q2 =>
      let s := u_incoming s (iset_add (s5_incoming s) (q_pkid p)) in
      if s5_manual s then Ok (s, None) else outgoing_pubrec5 s (q_pkid p)
  end.

(** [handle_incoming_puback] *)
Definition handle_incoming_puback5 (s : state5) (id reason : N) : R5 (option packet5) :=
  match vget (s5_pub s) id with
  | None => Err (s, E5Unsolicited id)
  | Some None => Err (s, E5Unsolicited id)
  | Some (Some _) =>
      do (s, _) <- pub_store5 s id None;
      do (s, _) <- inflight_dec5 s;
      if negb (ack_ok reason) then Ok (s, None)
      else
        match check_collision5 s id with
        | (s, Some p) =>
            do (s, _) <- pub_store5 s (q_pkid p) (Some p);
            do (s, _) <- inflight_inc5 s;
            let s := push5 s (Ev5Out (OPublish (q_pkid p))) in
            Ok (u_cpc s 0, Some (P5Publish p))
        | (s, None) => Ok (s, None)
        end
  end.

(** [handle_incoming_pubrec] *)
Definition handle_incoming_pubrec5 (s : state5) (id reason : N) : R5 (option packet5) :=
  match vget (s5_pub s) id with
  | None => Err (s, E5Unsolicited id)
  | Some None => Err (s, E5Unsolicited id)
  | Some (Some _) =>
      do (s, _) <- pub_store5 s id None;
      if negb (ack_ok reason) then Ok (s, None)
      else
        do (s, _) <- rel_set5 s id true;
        Ok (push5 s (Ev5Out (OPubRel id)), Some (P5PubRel id 0))
  end.

(** [handle_incoming_pubrel] *)
Definition handle_incoming_pubrel5 (s : state5) (id reason : N) : R5 (option packet5) :=
  if negb (iset_mem (s5_incoming s) id) then Err (s, E5Unsolicited id)
  else
    let s := u_incoming s (iset_del (s5_incoming s) id) in
    if negb (rel_ok reason) then Ok (s, None)
    else Ok (push5 s (Ev5Out (OPubComp id)), Some (P5PubComp id 0)).

(** [handle_incoming_pubcomp]: the collision is taken (and announced) BEFORE the solicited test *)
Definition handle_incoming_pubcomp5 (s : state5) (id reason : N) : R5 (option packet5) :=
  let '(s, outgoing) :=
    match check_collision5 s id with
    | (s, Some p) => (u_cpc (push5 s (Ev5Out (OPublish (q_pkid p)))) 0, Some (P5Publish p))
    | (s, None) => (s, None)
    end in
  if negb (bit (s5_rel s) id) then Err (s, E5Unsolicited id)
  else
    do (s, _) <- rel_set5 s id false;
    if negb (rel_ok reason) then Ok (s, None)
    else
      do (s, _) <- inflight_dec5 s;
      Ok (s, outgoing).

Definition handle_incoming_packet5 (s : state5) (pk : packet5) : R5 (option packet5) :=
  let s := push5 s (Ev5In pk) in
  match pk with
  | P5PingResp => Ok (u_await s false, None)
  | P5Publish p => handle_incoming_publish5 s p
  | P5SubAck _ => Ok (s, None)
  | P5UnsubAck _ => Ok (s, None)
  | P5PubAck id r => handle_incoming_puback5 s id r
  | P5PubRec id r => handle_incoming_pubrec5 s id r
  | P5PubRel id r => handle_incoming_pubrel5 s id r
  | P5PubComp id r => handle_incoming_pubcomp5 s id r
  | P5ConnAck _ code rm tam => handle_incoming_connack5 s code rm tam
  | P5Disconnect r => Err (s, E5ServerDisconnect r)
  | P5Auth | P5Connect | P5Subscribe _ _ | P5Unsubscribe _ _ | P5PingReq => Err (s, E5WrongPacket)
  end.

(** [clean]: index order, no rotation; the parked collision is neither returned nor cleared *)
Definition clean5 (s : state5) : state5 * list request5 :=
  let pubs := map R5Publish (somes (s5_pub s)) in
  let rels := map R5PubRel (ones (s5_rel s)) in
  let s := u_pub s (repeat None (length (s5_pub s))) in
  let s := u_rel s (repeat false (length (s5_rel s))) in
  let s := u_incoming s [] in
  let s := u_await s false in
  let s := u_cpc s 0 in
  let s := u_inflight s 0 in
  (s, pubs ++ rels).

Definition step5 (s : state5) (o : op5) : R5 reply5 :=
  match o with
  | Out5 r => do (s, p) <- handle_outgoing_packet5 s r; Ok (s, Wrote5 p)
  | Inc5 pk => do (s, p) <- handle_incoming_packet5 s pk; Ok (s, Wrote5 p)
  | Clean5 => let (s, l) := clean5 s in Ok (s, Cleaned5 l)
  end.

Definition drain5 (s : state5) : list event5 * state5 := (s5_events s, u_events s []).

End Orig.
