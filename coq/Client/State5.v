(** M-CLIENT (v5): executable model of [rumqttc::v5::MqttState] (rumqttc/src/v5/state.rs), written
    function by function after the Rust, as it is NOW, i.e. after the v5 fix: commits (the code
    before them is Client/State5Orig.v; witnesses in Client/Findings5.v).  Dev profile.  No proofs here.

    Differences from v4: no [last_puback] ([clean] iterates from index 0); reason codes on the
    four acks; topic aliases on inbound publishes (only whether an alias is KNOWN is observable:
    the resolved topic is written into a local copy that nobody sees); CONNACK lowers
    [max_outgoing_inflight] (never the vectors' length); DISCONNECT from the server is an error;
    an outgoing alias above the broker's maximum is an error.
    Dropped: all properties except topic_alias / receive_max / topic_alias_max, reason strings,
    the [debug!] line that would [unwrap] a non-UTF-8 topic (not evaluated without a logger). *)
From Rumqtt Require Export Client.Types.

(** v5 publish: topic tag 0 = the empty topic *)
Record publish5 := mkPub5 { q_qos : qos; q_pkid : N; q_topic : N; q_payload : N; q_alias : option N }.
Definition with_pkid5 (p : publish5) (id : N) : publish5 :=
  mkPub5 (q_qos p) id (q_topic p) (q_payload p) (q_alias p).

Inductive request5 :=
| R5Publish (p : publish5)
| R5PubAck (id : N) | R5PubRec (id : N) | R5PubComp (id : N) | R5PubRel (id : N)
| R5PingReq | R5PingResp
| R5Subscribe (n : N) | R5SubAck (id : N)
| R5Unsubscribe (n : N) | R5UnsubAck (id : N)
| R5Disconnect.

(** reason codes are their MQTT byte values; CONNACK carries (code, receive_max, topic_alias_max) *)
Inductive packet5 :=
| P5Auth | P5Connect
| P5ConnAck (session_present : bool) (code : N) (receive_max : option N) (topic_alias_max : option N)
| P5Publish (p : publish5)
| P5PubAck (id reason : N) | P5PubRec (id reason : N) | P5PubRel (id reason : N) | P5PubComp (id reason : N)
| P5Subscribe (id n : N) | P5SubAck (id : N)
| P5Unsubscribe (id n : N) | P5UnsubAck (id : N)
| P5PingReq | P5PingResp | P5Disconnect (reason : N).

Inductive event5 := Ev5In (p : packet5) | Ev5Out (o : outgoing).

Inductive error5 :=
| E5Unsolicited (id : N) | E5AwaitPingResp | E5WrongPacket | E5CollisionTimeout | E5EmptySubscription
| E5InvalidAlias (alias max : N) | E5ServerDisconnect (reason : N) | E5ConnFail (code : N).

(** PubAckReason / PubRecReason: Success (0) and NoMatchingSubscribers (16) continue the flow *)
Definition ack_ok (reason : N) : bool := (reason =? 0) || (reason =? 16).
(** PubRelReason / PubCompReason: only Success (0) *)
Definition rel_ok (reason : N) : bool := reason =? 0.

Record state5 := mkState5 {
  s5_await_pingresp : bool;
  s5_cpc : N;
  s5_last_pkid : N;
  s5_inflight : N;
  s5_pub : list (option publish5);
  s5_rel : list bool;
  s5_incoming : list N;
  s5_collision : option publish5;
  s5_events : list event5;
  s5_manual : bool;
  s5_aliases : list N;          (* keys of topic_alises *)
  s5_alias_max : N;             (* broker_topic_alias_max *)
  s5_max : N;                   (* max_outgoing_inflight *)
  s5_max_limit : N }.           (* max_outgoing_inflight_upper_limit *)

Definition R5 (A : Type) := Outcome (state5 * error5) (state5 * A).

Definition u_await s v := mkState5 v (s5_cpc s) (s5_last_pkid s) (s5_inflight s) (s5_pub s) (s5_rel s) (s5_incoming s) (s5_collision s) (s5_events s) (s5_manual s) (s5_aliases s) (s5_alias_max s) (s5_max s) (s5_max_limit s).
Definition u_cpc s v := mkState5 (s5_await_pingresp s) v (s5_last_pkid s) (s5_inflight s) (s5_pub s) (s5_rel s) (s5_incoming s) (s5_collision s) (s5_events s) (s5_manual s) (s5_aliases s) (s5_alias_max s) (s5_max s) (s5_max_limit s).
Definition u_last_pkid s v := mkState5 (s5_await_pingresp s) (s5_cpc s) v (s5_inflight s) (s5_pub s) (s5_rel s) (s5_incoming s) (s5_collision s) (s5_events s) (s5_manual s) (s5_aliases s) (s5_alias_max s) (s5_max s) (s5_max_limit s).
Definition u_inflight s v := mkState5 (s5_await_pingresp s) (s5_cpc s) (s5_last_pkid s) v (s5_pub s) (s5_rel s) (s5_incoming s) (s5_collision s) (s5_events s) (s5_manual s) (s5_aliases s) (s5_alias_max s) (s5_max s) (s5_max_limit s).
Definition u_pub s v := mkState5 (s5_await_pingresp s) (s5_cpc s) (s5_last_pkid s) (s5_inflight s) v (s5_rel s) (s5_incoming s) (s5_collision s) (s5_events s) (s5_manual s) (s5_aliases s) (s5_alias_max s) (s5_max s) (s5_max_limit s).
Definition u_rel s v := mkState5 (s5_await_pingresp s) (s5_cpc s) (s5_last_pkid s) (s5_inflight s) (s5_pub s) v (s5_incoming s) (s5_collision s) (s5_events s) (s5_manual s) (s5_aliases s) (s5_alias_max s) (s5_max s) (s5_max_limit s).
Definition u_incoming s v := mkState5 (s5_await_pingresp s) (s5_cpc s) (s5_last_pkid s) (s5_inflight s) (s5_pub s) (s5_rel s) v (s5_collision s) (s5_events s) (s5_manual s) (s5_aliases s) (s5_alias_max s) (s5_max s) (s5_max_limit s).
Definition u_collision s v := mkState5 (s5_await_pingresp s) (s5_cpc s) (s5_last_pkid s) (s5_inflight s) (s5_pub s) (s5_rel s) (s5_incoming s) v (s5_events s) (s5_manual s) (s5_aliases s) (s5_alias_max s) (s5_max s) (s5_max_limit s).
Definition u_events s v := mkState5 (s5_await_pingresp s) (s5_cpc s) (s5_last_pkid s) (s5_inflight s) (s5_pub s) (s5_rel s) (s5_incoming s) (s5_collision s) v (s5_manual s) (s5_aliases s) (s5_alias_max s) (s5_max s) (s5_max_limit s).
Definition u_aliases s v := mkState5 (s5_await_pingresp s) (s5_cpc s) (s5_last_pkid s) (s5_inflight s) (s5_pub s) (s5_rel s) (s5_incoming s) (s5_collision s) (s5_events s) (s5_manual s) v (s5_alias_max s) (s5_max s) (s5_max_limit s).
Definition u_alias_max s v := mkState5 (s5_await_pingresp s) (s5_cpc s) (s5_last_pkid s) (s5_inflight s) (s5_pub s) (s5_rel s) (s5_incoming s) (s5_collision s) (s5_events s) (s5_manual s) (s5_aliases s) v (s5_max s) (s5_max_limit s).
Definition u_max s v := mkState5 (s5_await_pingresp s) (s5_cpc s) (s5_last_pkid s) (s5_inflight s) (s5_pub s) (s5_rel s) (s5_incoming s) (s5_collision s) (s5_events s) (s5_manual s) (s5_aliases s) (s5_alias_max s) v (s5_max_limit s).

Definition push5 (s : state5) (e : event5) : state5 := u_events s (s5_events s ++ [e]).

Definition init5 (max : N) (manual : bool) : state5 :=
  mkState5 false 0 0 0 (repeat None (S (idx max))) (repeat false (S (idx max))) [] None [] manual [] 0 max max.

Definition inflight_inc5 (s : state5) : R5 unit :=
  if s5_inflight s =? U16_MAX then Panic P_ADD_OVERFLOW else Ok (u_inflight s (s5_inflight s + 1), tt).
Definition inflight_dec5 (s : state5) : R5 unit :=
  if s5_inflight s =? 0 then Panic P_SUB_OVERFLOW else Ok (u_inflight s (s5_inflight s - 1), tt).
Definition pub_store5 (s : state5) (i : N) (v : option publish5) : R5 unit :=
  match vset (s5_pub s) i v with Some l => Ok (u_pub s l, tt) | None => Panic P_INDEX end.
Definition rel_set5 (s : state5) (i : N) (v : bool) : R5 unit :=
  match vset (s5_rel s) i v with Some l => Ok (u_rel s l, tt) | None => Panic P_BITSET end.

Definition next_pkid5 (s : state5) : R5 N :=
  if s5_last_pkid s =? U16_MAX then Panic P_ADD_OVERFLOW
  else
    let n := s5_last_pkid s + 1 in
    if n =? s5_max s then Ok (u_last_pkid s 0, n) else Ok (u_last_pkid s n, n).

Definition check_collision5 (s : state5) (pkid : N) : state5 * option publish5 :=
  match s5_collision s with
  | Some p => if q_pkid p =? pkid then (u_collision s None, Some p) else (s, None)
  | None => (s, None)
  end.

(** the closure run on a resolved collision ([resend_collided] in the Rust; inlined in
    [handle_incoming_puback] / [handle_incoming_pubcomp]) *)
Definition resend5 (s : state5) (p : publish5) : R5 (option packet5) :=
  do (s, _) <- pub_store5 s (q_pkid p) (Some p);
  do (s, _) <- inflight_inc5 s;
  let s := push5 s (Ev5Out (OPublish (q_pkid p))) in
  Ok (u_cpc s 0, Some (P5Publish p)).

Definition ack_tail5 (s : state5) (id : N) : R5 (option packet5) :=
  match check_collision5 s id with
  | (s, Some p) => resend5 s p
  | (s, None) => Ok (s, None)
  end.

(** [outgoing_publish], second half *)
Definition place_publish5 (s : state5) (p : publish5) : R5 (option packet5) :=
  match vget (s5_pub s) (q_pkid p) with
  | None => Err (s, E5Unsolicited (q_pkid p))
  | Some slot =>
      if is_some slot || bit (s5_rel s) (q_pkid p)
      then Ok (push5 (u_collision s (Some p)) (Ev5Out (OAwaitAck (q_pkid p))), None)
      else
        do (s, _) <- pub_store5 s (q_pkid p) (Some p);
        do (s, _) <- inflight_inc5 s;
        Ok (push5 s (Ev5Out (OPublish (q_pkid p))), Some (P5Publish p))
  end.

(** [outgoing_publish]: the alias test comes first *)
Definition outgoing_publish5 (s : state5) (p : publish5) : R5 (option packet5) :=
  match (match q_alias p with Some a => if s5_alias_max s <? a then Some a else None | None => None end) with
  | Some a => Err (s, E5InvalidAlias a (s5_alias_max s))
  | None =>
      match q_qos p with
      | Q0 => Ok (push5 s (Ev5Out (OPublish (q_pkid p))), Some (P5Publish p))
      | _ =>
          if q_pkid p =? 0
          then do (s, id) <- next_pkid5 s; place_publish5 s (with_pkid5 p id)
          else place_publish5 s p
      end
  end.

Definition outgoing_pubrel5 (s : state5) (id : N) : R5 (option packet5) :=
  do (s, id) <- (if id =? 0 then next_pkid5 s else Ok (s, id));
  do (s, _) <- rel_set5 s id true;
  do (s, _) <- inflight_inc5 s;
  Ok (push5 s (Ev5Out (OPubRel id)), Some (P5PubRel id 0)).

Definition outgoing_puback5 (s : state5) (id : N) : R5 (option packet5) :=
  Ok (push5 s (Ev5Out (OPubAck id)), Some (P5PubAck id 0)).
Definition outgoing_pubrec5 (s : state5) (id : N) : R5 (option packet5) :=
  Ok (push5 s (Ev5Out (OPubRec id)), Some (P5PubRec id 0)).

Definition outgoing_ping5 (s : state5) : R5 (option packet5) :=
  let chk :=
    if is_some (s5_collision s)
    then let s := u_cpc s (s5_cpc s + 1) in
         if 2 <=? s5_cpc s then Err (s, E5CollisionTimeout) else Ok (s, tt)
    else Ok (s, tt) in
  do (s, _) <- chk;
  if s5_await_pingresp s then Err (s, E5AwaitPingResp)
  else Ok (push5 (u_await s true) (Ev5Out OPingReq), Some P5PingReq).

Definition outgoing_subscribe5 (s : state5) (n : N) : R5 (option packet5) :=
  if n =? 0 then Err (s, E5EmptySubscription)
  else do (s, id) <- next_pkid5 s; Ok (push5 s (Ev5Out (OSubscribe id)), Some (P5Subscribe id n)).

Definition outgoing_unsubscribe5 (s : state5) (n : N) : R5 (option packet5) :=
  do (s, id) <- next_pkid5 s; Ok (push5 s (Ev5Out (OUnsubscribe id)), Some (P5Unsubscribe id n)).

(** [outgoing_disconnect(reason)] *)
Definition outgoing_disconnect5 (s : state5) (reason : N) : R5 (option packet5) :=
  Ok (push5 s (Ev5Out ODisconnect), Some (P5Disconnect reason)).

Definition handle_outgoing_packet5 (s : state5) (r : request5) : R5 (option packet5) :=
  match r with
  | R5Publish p => outgoing_publish5 s p
  | R5PubRel id => outgoing_pubrel5 s id
  | R5Subscribe n => outgoing_subscribe5 s n
  | R5Unsubscribe n => outgoing_unsubscribe5 s n
  | R5PingReq => outgoing_ping5 s
  | R5Disconnect => outgoing_disconnect5 s 0
  | R5PubAck id => outgoing_puback5 s id
  | R5PubRec id => outgoing_pubrec5 s id
  | R5PubComp _ | R5PingResp | R5SubAck _ | R5UnsubAck _ => Panic P_UNIMPLEMENTED
  end.

(** [handle_incoming_connack]: a receive-maximum of 0 is a protocol error (fix: commit b2fc5b9, F37;
    ConnectReturnCode::ProtocolError = 130) detected after [topic_alias_max] was taken over and
    before the limit and the allocator are touched *)
Definition handle_incoming_connack5 (s : state5) (code : N) (rm tam : option N) : R5 (option packet5) :=
  if negb (code =? 0) then Err (s, E5ConnFail code)
  else
    let s := match tam with Some t => u_alias_max s t | None => s end in
    match rm with
    | Some m =>
        if m =? 0 then Err (s, E5ConnFail 130)
        else
          let s := u_max s (N.min m (s5_max_limit s)) in
          Ok ((if s5_max s <=? s5_last_pkid s then u_last_pkid s 0 else s), None)
    | None => Ok (s, None)
    end.

(** [handle_incoming_publish]: alias bookkeeping first; an unknown alias on an empty topic is a
    protocol error: DISCONNECT (0x82) is announced and returned to be written, nothing else happens *)
Definition handle_incoming_publish5 (s : state5) (p : publish5) : R5 (option packet5) :=
  let flow (s : state5) :=
    match q_qos p with
    | Q0 => Ok (s, None)
    | Q1 => if s5_manual s then Ok (s, None) else outgoing_puback5 s (q_pkid p)
    | Q2 =>
        let s := u_incoming s (iset_add (s5_incoming s) (q_pkid p)) in
        if s5_manual s then Ok (s, None) else outgoing_pubrec5 s (q_pkid p)
    end in
  match q_alias p with
  | Some a =>
      if negb (q_topic p =? 0) then flow (u_aliases s (iset_add (s5_aliases s) a))
      else if iset_mem (s5_aliases s) a then flow s
      else outgoing_disconnect5 s 130
  | None => flow s
  end.

(** [handle_incoming_puback]: a failure reason is only logged *)
Definition handle_incoming_puback5 (s : state5) (id reason : N) : R5 (option packet5) :=
  match vget (s5_pub s) id with
  | None => Err (s, E5Unsolicited id)
  | Some None => Err (s, E5Unsolicited id)
  | Some (Some _) =>
      do (s, _) <- pub_store5 s id None;
      do (s, _) <- inflight_dec5 s;
      ack_tail5 s id
  end.

(** [handle_incoming_pubrec]: a refused publish ends the flow (no PUBREL) and frees the id *)
Definition handle_incoming_pubrec5 (s : state5) (id reason : N) : R5 (option packet5) :=
  match vget (s5_pub s) id with
  | None => Err (s, E5Unsolicited id)
  | Some None => Err (s, E5Unsolicited id)
  | Some (Some _) =>
      do (s, _) <- pub_store5 s id None;
      if negb (ack_ok reason) then
        do (s, _) <- inflight_dec5 s;
        ack_tail5 s id
      else
        do (s, _) <- rel_set5 s id true;
        Ok (push5 s (Ev5Out (OPubRel id)), Some (P5PubRel id 0))
  end.

(** [handle_incoming_pubrel]: PUBCOMP whatever the reason code *)
Definition handle_incoming_pubrel5 (s : state5) (id reason : N) : R5 (option packet5) :=
  if negb (iset_mem (s5_incoming s) id) then Err (s, E5Unsolicited id)
  else
    let s := u_incoming s (iset_del (s5_incoming s) id) in
    Ok (push5 s (Ev5Out (OPubComp id)), Some (P5PubComp id 0)).

(** [handle_incoming_pubcomp] *)
Definition handle_incoming_pubcomp5 (s : state5) (id reason : N) : R5 (option packet5) :=
  if negb (bit (s5_rel s) id) then Err (s, E5Unsolicited id)
  else
    do (s, _) <- rel_set5 s id false;
    do (s, _) <- inflight_dec5 s;
    ack_tail5 s id.

Definition handle_incoming_packet5 (s : state5) (pk : packet5) : R5 (option packet5) :=
  let s := push5 s (Ev5In pk) in
  match pk with
  | P5PingResp => Ok (u_await s false, None)
  | P5Publish p => handle_incoming_publish5 s p
  | P5SubAck _ => Ok (s, None)
  | P5UnsubAck _ => Ok (s, None)
  | P5PubAck id r => handle_incoming_puback5 s id r
  | P5PubRec id r => handle_incoming_pubrec5 s id r
  | P5PubRel id r => handle_incoming_pubrel5 s id r
  | P5PubComp id r => handle_incoming_pubcomp5 s id r
  | P5ConnAck _ code rm tam => handle_incoming_connack5 s code rm tam
  | P5Disconnect r => Err (s, E5ServerDisconnect r)
  | P5Auth | P5Connect | P5Subscribe _ _ | P5Unsubscribe _ _ | P5PingReq => Err (s, E5WrongPacket)
  end.

(** [clean]: index order, no rotation; then the releases; then the parked collision *)
Definition clean5 (s : state5) : state5 * list request5 :=
  let pubs := map R5Publish (somes (s5_pub s)) in
  let rels := map R5PubRel (ones (s5_rel s)) in
  let parked := match s5_collision s with Some p => [R5Publish p] | None => [] end in
  let s := u_pub s (repeat None (length (s5_pub s))) in
  let s := u_rel s (repeat false (length (s5_rel s))) in
  let s := u_collision s None in
  let s := u_incoming s [] in
  let s := u_await s false in
  let s := u_cpc s 0 in
  let s := u_inflight s 0 in
  (s, pubs ++ rels ++ parked).

Inductive op5 := Out5 (r : request5) | Inc5 (p : packet5) | Clean5.
Inductive reply5 := Wrote5 (p : option packet5) | Cleaned5 (l : list request5).

Definition step5 (s : state5) (o : op5) : R5 reply5 :=
  match o with
  | Out5 r => do (s, p) <- handle_outgoing_packet5 s r; Ok (s, Wrote5 p)
  | Inc5 pk => do (s, p) <- handle_incoming_packet5 s pk; Ok (s, Wrote5 p)
  | Clean5 => let (s, l) := clean5 s in Ok (s, Cleaned5 l)
  end.

Definition drain5 (s : state5) : list event5 * state5 := (s5_events s, u_events s []).
