(** C07 (d), (e), (g) at the state-machine level: ids on the wire, freshness of the id of every
    publish put on the wire, ids are freed only by their final acknowledgement, a parked
    collision is resolved by the acknowledgement of its id. *)
From Coq Require Import Arith ZifyBool ZifyN ZifyNat.
From Rumqtt Require Import Client.VecLemmas Client.Run4 Client.Inv4 Client.Eff4 Client.Flow4.

Definition wire_id_ok (max : N) (pk : packet) : Prop :=
  match pk with
  | PPublish p => p_qos p <> Q0 -> 1 <= p_pkid p <= max
  | PSubscribe id _ | PUnsubscribe id _ | PPubRel id => 1 <= id <= max
  | _ => True
  end.

(** what one op yields: next state and the packet handed to the network, if any *)
Definition out2 (r : R (option packet)) : option (state * option packet) :=
  match r with Ok (s', p) => Some (s', p) | Err (s', _) => Some (s', None) | Panic _ => None end.

Definition outcome (s : state) (o : op) : option (state * option packet) :=
  match o with
  | Out r => out2 (handle_outgoing_packet s r)
  | Inc pk => out2 (handle_incoming_packet s pk)
  | Clean => None
  end.

Definition wire_facts (s : state) (o : op) (s' : state) (rep : option packet) : Prop :=
  (forall pk, rep = Some pk -> wire_id_ok (max_inflight s) pk) /\
  (forall p, rep = Some (PPublish p) -> p_qos p <> Q0 ->
     vget (outgoing_pub s') (p_pkid p) = Some (Some p) /\
     (busy s (p_pkid p) = false \/ o = Inc (PPubAck (p_pkid p)) \/ o = Inc (PPubComp (p_pkid p)))) /\
  (forall i, busy s i = true -> busy s' i = false -> o = Inc (PPubAck i) \/ o = Inc (PPubComp i)).

Lemma wire_same s o s' rep :
  slots_eq s s' ->
  (forall pk, rep = Some pk -> wire_id_ok (max_inflight s) pk) ->
  (forall p, rep = Some (PPublish p) -> p_qos p = Q0) ->
  wire_facts s o s' rep.
Proof.
  intros [Hp [Hr _]] Hid Hq. split; [exact Hid|]. split.
  - intros p Hrep Hq0. rewrite (Hq p Hrep) in Hq0. congruence.
  - intros i Hb Hb'. unfold busy in *. rewrite Hp, Hr in Hb'. congruence.
Qed.

Ltac same_tac Hn :=
  cbn [out2] in Hn; inversion Hn; subst; apply wire_same;
  [repeat split | intros pk Hpk; inversion Hpk; subst; cbn [wire_id_ok]; auto | intros p0 Hp0; try discriminate].

Lemma busy_vset_pub s l k v j :
  vset (outgoing_pub s) k v = Some l -> j <> k ->
  (match vget l j with Some (Some _) => true | _ => false end) =
  (match vget (outgoing_pub s) j with Some (Some _) => true | _ => false end).
Proof. intros Hl Hne. rewrite (vget_vset_other _ _ _ _ _ Hl); auto. Qed.

(** the shared tail again, now for the wire facts *)
Lemma ack_tail_wire s1 id s2 rep :
  Inv (set_collision s1 None) -> 1 <= id -> id <= max_inflight s1 ->
  vget (outgoing_pub s1) id = Some None -> bit (outgoing_rel s1) id = false ->
  (forall q, collision s1 = Some q -> p_qos q <> Q0) ->
  out2 (ack_tail s1 id) = Some (s2, rep) ->
  (forall j, j <> id -> busy s2 j = busy s1 j) /\
  (rep = None \/ exists q, rep = Some (PPublish q) /\ p_pkid q = id /\ collision s1 = Some q /\ collision s2 = None
                            /\ vget (outgoing_pub s2) id = Some (Some q)).
Proof.
  intros I H1 H2 Hfree Hrel Hq Hres.
  destruct (ack_tail_eff s1 id I H1 Hfree Hrel Hq) as [[q [l [Hc [Hid [Hl He]]]]] | [Hne He]];
    rewrite He in Hres; cbn [out2] in Hres; inversion Hres; subst s2 rep; clear Hres.
  - split.
    + intros j Hj. unfold busy. sproj. rewrite (vget_vset_other _ _ _ _ _ Hl); auto.
    + right. exists q. sproj. repeat split; auto. eapply vget_vset_same; eauto.
  - split; auto.
Qed.

Lemma place_publish_wire s0 o s1 p1 s' rep :
  Inv s1 -> collision s1 = None -> 1 <= p_pkid p1 -> p_qos p1 <> Q0 ->
  outgoing_pub s1 = outgoing_pub s0 -> outgoing_rel s1 = outgoing_rel s0 -> max_inflight s1 = max_inflight s0 ->
  out2 (place_publish s1 p1) = Some (s', rep) -> wire_facts s0 o s' rep.
Proof.
  intros I1 Hc1 H1 Hq1 Hp Hr Hm Hpl.
  assert (Hbusy : forall j, busy s1 j = busy s0 j) by (intros j; unfold busy; rewrite Hp, Hr; reflexivity).
  destruct (place_publish_eff s1 p1 I1 Hc1 H1 Hq1) as [[_ He] | [[Hle [Hb He]] | [Hle [Hb [l [Hl He]]]]]];
    rewrite He in Hpl; cbn [out2] in Hpl; inversion Hpl; subst s' rep; clear Hpl.
  - split; [intros pk Hpk; discriminate|]. split; [intros p0 Hp0; discriminate|].
    intros i Hb Hb'. rewrite <- Hbusy in Hb. congruence.
  - split; [intros pk Hpk; discriminate|]. split; [intros p0 Hp0; discriminate|].
    intros i Hbi Hbi'. rewrite <- Hbusy in Hbi. unfold busy in *. sproj. congruence.
  - split; [|split].
    + intros pk Hpk. inversion Hpk. subst pk. cbn [wire_id_ok]. intros _. lia.
    + intros p0 Hp0 _. inversion Hp0. subst p0. sproj. split; [eapply vget_vset_same; eauto|].
      left. rewrite <- Hbusy. exact Hb.
    + intros i Hbi Hbi'. exfalso. rewrite <- Hbusy in Hbi. unfold busy in *. sproj.
      rewrite (vget_vset _ _ _ i _ Hl) in Hbi'. destruct (p_pkid p1 =? i); [discriminate|congruence].
Qed.

Lemma publish_wire s p s' rep :
  Inv s -> collision s = None -> p_qos p <> Q0 ->
  out2 (outgoing_publish s p) = Some (s', rep) -> wire_facts s (Out (RPublish p)) s' rep.
Proof.
  intros I Hc Hq Hn. unfold outgoing_publish in Hn.
  destruct (p_qos p) eqn:Eq; [congruence| |].
  all: destruct (N.eqb_spec (p_pkid p) 0) as [E0 | E0].
  all: try (destruct (next_pkid_spec s I) as [v [Hnp [Hv Hid]]]; rewrite Hnp in Hn; cbn [bind] in Hn;
            apply (place_publish_wire s (Out (RPublish p)) (set_last_pkid s v) (with_pkid p (last_pkid s + 1)));
            [apply inv_set_last_pkid; assumption|exact Hc|cbn [p_pkid with_pkid]; lia|cbn [p_qos with_pkid]; congruence
            |reflexivity|reflexivity|reflexivity|exact Hn]).
  all: apply (place_publish_wire s (Out (RPublish p)) s p); [exact I|exact Hc|lia|congruence|reflexivity|reflexivity|reflexivity|exact Hn].
Qed.

Theorem step_wire s o s' rep :
  Inv s -> op_ok s o = true -> outcome s o = Some (s', rep) -> wire_facts s o s' rep.
Proof.
  intros I Hok Hn. destruct o as [rq | pk |]; cbn [outcome] in Hn; [| |discriminate].
  - destruct rq; cbn [op_ok api_request] in Hok; try discriminate; cbn [handle_outgoing_packet] in Hn.
    + (* publish *)
      destruct (p_qos p) eqn:Eq.
      { unfold outgoing_publish in Hn. rewrite Eq in Hn. cbn [out2] in Hn. inversion Hn. subst. apply wire_same.
        - repeat split.
        - intros pk Hpk. inversion Hpk. subst. cbn [wire_id_ok]. congruence.
        - intros p0 Hp0. inversion Hp0. subst. exact Eq. }
      all: assert (Hc0 : collision s = None) by (destruct (collision s); cbn in Hok; congruence).
      all: apply publish_wire; [exact I|exact Hc0|congruence|exact Hn].
    + same_tac Hn.
    + same_tac Hn.
    + (* replayed release *)
      apply andb_true_iff in Hok. destruct Hok as [Hok Hb]. apply andb_true_iff in Hok. destruct Hok as [H1 H2].
      pose proof (outgoing_pubrel_inv s id I ltac:(lia) ltac:(lia) ltac:(destruct (busy s id); [discriminate|reflexivity])) as Hpost.
      unfold outgoing_pubrel in *. destruct (N.eqb_spec id 0); [lia|]. cbn [bind] in *. unfold rel_set, inflight_inc in *.
      destruct (vset (outgoing_rel s) id true) as [rl|] eqn:Hrl; cbn [bind] in *; [|contradiction]. sproj.
      destruct (inflight s =? U16_MAX); cbn [bind] in *; [contradiction|]. cbn [out2] in Hn. inversion Hn. subst s' rep.
      split; [|split].
      * intros pk Hpk. inversion Hpk. cbn [wire_id_ok]. lia.
      * intros p0 Hp0. discriminate.
      * intros i Hbi Hbi'. exfalso. unfold busy in *. sproj. rewrite (bit_vset _ _ _ i _ Hrl) in Hbi'.
        destruct (id =? i); [rewrite orb_true_r in Hbi'; discriminate|congruence].
    + unfold outgoing_ping in Hn. destruct (is_some (collision s)); sproj.
      * destruct (2 <=? collision_ping_count s + 1); cbn [bind] in Hn; [same_tac Hn|].
        sproj. destruct (await_pingresp s); same_tac Hn.
      * cbn [bind] in Hn. destruct (await_pingresp s); same_tac Hn.
    + unfold outgoing_subscribe in Hn. destruct (n =? 0); [same_tac Hn|].
      destruct (next_pkid_spec s I) as [v [Hnp [Hv Hid]]]. rewrite Hnp in Hn. cbn [bind] in Hn. same_tac Hn.
    + unfold outgoing_unsubscribe in Hn.
      destruct (next_pkid_spec s I) as [v [Hnp [Hv Hid]]]. rewrite Hnp in Hn. cbn [bind] in Hn. same_tac Hn.
    + same_tac Hn.
  - (* packet from the broker *)
    unfold handle_incoming_packet in Hn.
    pose proof (inv_push s (EvIn pk) I) as I1.
    assert (Hbusy : forall j, busy (push_event s (EvIn pk)) j = busy s j) by reflexivity.
    assert (Hmax : max_inflight (push_event s (EvIn pk)) = max_inflight s) by reflexivity.
    set (s0 := push_event s (EvIn pk)) in *. clearbody s0.
    assert (Hsame : forall s1 rp, slots_eq s0 s1 -> (forall pk0, rp = Some pk0 -> wire_id_ok (max_inflight s) pk0) ->
              (forall p0, rp = Some (PPublish p0) -> p_qos p0 = Q0) -> wire_facts s (Inc pk) s1 rp).
    { intros s1 rp [Hp [Hr _]] Hid Hq0. split; [exact Hid|]. split.
      - intros p0 Hrep Hq. rewrite (Hq0 p0 Hrep) in Hq. congruence.
      - intros i Hb Hb'. rewrite <- Hbusy in Hb. unfold busy in *. rewrite Hp, Hr in Hb'. congruence. }
    destruct pk; try (cbn [out2] in Hn; inversion Hn; subst; apply Hsame;
                      [repeat split | intros pk0 Hpk0; discriminate | intros p0 Hp0; discriminate]).
    + (* publish *) unfold handle_incoming_publish, outgoing_puback, outgoing_pubrec in Hn.
      destruct (p_qos p); sproj; destruct (manual_acks s0); cbn [out2] in Hn; inversion Hn; subst; apply Hsame;
        try (repeat split); try (intros pk0 Hpk0; inversion Hpk0; subst; cbn [wire_id_ok]; auto);
        try (intros p0 Hp0; discriminate).
    + (* puback *)
      destruct (handle_incoming_puback_eff s0 id I1) as [[_ [s2 [He [Heq _]]]] | [p0 [l [Eg [Hl Hrest]]]]].
      { rewrite He in Hn. cbn [out2] in Hn. inversion Hn. subst. apply Hsame;
          [exact Heq | intros pk0 Hpk0; discriminate | intros p1 Hp1; discriminate]. }
      cbv zeta in Hrest. destruct Hrest as [He [H1 [Hpos [I2 [Hfree Hrel]]]]]. rewrite He in Hn.
      assert (Hid : id <= max_inflight s0).
      { apply vget_some_lt in Eg. rewrite (i_lenp s0 I1) in Eg. apply idx_lt_len. exact Eg. }
      set (s1 := set_inflight (set_pub (set_last_puback s0 id) l) (inflight s0 - 1)) in *.
      destruct (ack_tail_wire s1 id s' rep I2 H1) as [Hk Hrep]; subst s1; sproj; auto.
      { intros q Hq. apply (i_coll s0 I1 q Hq). }
      split; [|split].
      * intros pk0 Hpk0. destruct Hrep as [-> | [q [-> [Hq1 _]]]]; [discriminate|]. inversion Hpk0. subst pk0.
        cbn [wire_id_ok]. intros _. rewrite Hq1. lia.
      * intros p1 Hp1 Hq. destruct Hrep as [-> | [q [Hr [Hq1 [_ [_ Hv]]]]]]; [discriminate|].
        rewrite Hr in Hp1. inversion Hp1. subst p1. rewrite Hq1. split; [exact Hv|]. right. left. reflexivity.
      * intros i Hbi Hbi'. left. f_equal. f_equal. destruct (N.eq_dec i id) as [E | E]; [symmetry; exact E|exfalso].
        rewrite (Hk i E) in Hbi'. rewrite <- Hbusy in Hbi. unfold busy in Hbi, Hbi'. sproj.
        rewrite (vget_vset_other _ _ _ _ _ Hl) in Hbi'; auto. congruence.
    + (* pubrec *)
      destruct (handle_incoming_pubrec_eff s0 id I1) as [[_ He] | [p0 [l [rl [Eg [Hl [Hrl He]]]]]]];
        rewrite He in Hn; cbn [out2] in Hn; inversion Hn; subst s' rep.
      { apply Hsame; [apply slots_eq_refl | intros pk0 Hpk0; discriminate | intros p1 Hp1; discriminate]. }
      destruct (i_slot s0 I1 id p0 Eg) as [_ [H1 _]].
      assert (Hid : id <= max_inflight s0).
      { apply vget_some_lt in Eg. rewrite (i_lenp s0 I1) in Eg. apply idx_lt_len. exact Eg. }
      split; [|split].
      * intros pk0 Hpk0. inversion Hpk0. cbn [wire_id_ok]. lia.
      * intros p1 Hp1. discriminate.
      * intros i Hbi Hbi'. exfalso. rewrite <- Hbusy in Hbi. unfold busy in *. sproj.
        rewrite (vget_vset _ _ _ i _ Hl), (bit_vset _ _ _ i _ Hrl) in Hbi'.
        destruct (id =? i); [rewrite orb_true_r in Hbi'; discriminate|congruence].
    + (* pubrel *) unfold handle_incoming_pubrel in Hn. destruct (negb _); cbn [out2] in Hn; inversion Hn; subst; apply Hsame;
        try (repeat split); try (intros pk0 Hpk0; inversion Hpk0; subst; cbn [wire_id_ok]; auto);
        try (intros p0 Hp0; discriminate).
    + (* pubcomp *)
      destruct (handle_incoming_pubcomp_eff s0 id I1) as [[_ He] | [Hb [rl [Hrl Hrest]]]].
      { rewrite He in Hn. cbn [out2] in Hn. inversion Hn. subst. apply Hsame;
          [apply slots_eq_refl | intros pk0 Hpk0; discriminate | intros p1 Hp1; discriminate]. }
      cbv zeta in Hrest. destruct Hrest as [He [H1 [Hpos [I2 [Hfree Hrel]]]]]. rewrite He in Hn.
      assert (Hid : id <= max_inflight s0).
      { apply vget_some_lt in Hfree. rewrite (i_lenp s0 I1) in Hfree. apply idx_lt_len. exact Hfree. }
      set (s1 := set_inflight (set_rel s0 rl) (inflight s0 - 1)) in *.
      destruct (ack_tail_wire s1 id s' rep I2 H1) as [Hk Hrep]; subst s1; sproj; auto.
      { intros q Hq. apply (i_coll s0 I1 q Hq). }
      split; [|split].
      * intros pk0 Hpk0. destruct Hrep as [-> | [q [-> [Hq1 _]]]]; [discriminate|]. inversion Hpk0. subst pk0.
        cbn [wire_id_ok]. intros _. rewrite Hq1. lia.
      * intros p1 Hp1 Hq. destruct Hrep as [-> | [q [Hr [Hq1 [_ [_ Hv]]]]]]; [discriminate|].
        rewrite Hr in Hp1. inversion Hp1. subst p1. rewrite Hq1. split; [exact Hv|]. right. right. reflexivity.
      * intros i Hbi Hbi'. right. f_equal. f_equal. destruct (N.eq_dec i id) as [E | E]; [symmetry; exact E|exfalso].
        rewrite (Hk i E) in Hbi'. rewrite <- Hbusy in Hbi. unfold busy in Hbi, Hbi'. sproj.
        rewrite (bit_vset _ _ _ i _ Hrl) in Hbi'. destruct (N.eqb_spec id i); [congruence|congruence].
Qed.

(** (g) a parked collision is resolved by the final acknowledgement of its id: the parked publish
    goes on the wire, recorded, and the flag clears — in that same step *)
Theorem collision_resolved s q o s' rep :
  Inv s -> collision s = Some q ->
  (o = Inc (PPubAck (p_pkid q)) /\ pub_at s (p_pkid q) <> None
   \/ o = Inc (PPubComp (p_pkid q)) /\ bit (outgoing_rel s) (p_pkid q) = true) ->
  outcome s o = Some (s', rep) ->
  rep = Some (PPublish q) /\ collision s' = None /\ vget (outgoing_pub s') (p_pkid q) = Some (Some q).
Proof.
  intros I Hc Ho Hn.
  pose proof (inv_push s (EvIn (PPubAck (p_pkid q))) I) as I1.
  pose proof (inv_push s (EvIn (PPubComp (p_pkid q))) I) as I1'.
  destruct Ho as [[-> Hp] | [-> Hb]]; cbn [outcome handle_incoming_packet] in Hn.
  - destruct (handle_incoming_puback_eff _ (p_pkid q) I1) as [[Hnone _] | [p0 [l [Eg [Hl Hrest]]]]].
    { exfalso. apply Hp. exact Hnone. }
    cbv zeta in Hrest. destruct Hrest as [He [H1 [Hpos [I2 [Hfree Hrel]]]]]. rewrite He in Hn.
    set (s1 := set_inflight (set_pub (set_last_puback (push_event s (EvIn (PPubAck (p_pkid q)))) (p_pkid q)) l) (inflight (push_event s (EvIn (PPubAck (p_pkid q)))) - 1)) in *.
    destruct (ack_tail_eff s1 (p_pkid q) I2 H1) as [[q' [l' [Hc' [Hid [Hl' He']]]]] | [Hne He']]; subst s1; sproj; auto.
    + intros x Hx. apply (i_coll s I x Hx).
    + rewrite He' in Hn. cbn [out2] in Hn. inversion Hn. subst s' rep. rewrite Hc in Hc'. inversion Hc'. subst q'.
      sproj. repeat split. eapply vget_vset_same; eauto.
    + exfalso. apply (Hne q Hc). reflexivity.
  - destruct (handle_incoming_pubcomp_eff _ (p_pkid q) I1') as [[Hnone _] | [_ [rl [Hrl Hrest]]]].
    { sproj. congruence. }
    cbv zeta in Hrest. destruct Hrest as [He [H1 [Hpos [I2 [Hfree Hrel]]]]]. rewrite He in Hn.
    set (s1 := set_inflight (set_rel (push_event s (EvIn (PPubComp (p_pkid q)))) rl) (inflight (push_event s (EvIn (PPubComp (p_pkid q)))) - 1)) in *.
    destruct (ack_tail_eff s1 (p_pkid q) I2 H1) as [[q' [l' [Hc' [Hid [Hl' He']]]]] | [Hne He']]; subst s1; sproj; auto.
    + intros x Hx. apply (i_coll s I x Hx).
    + rewrite He' in Hn. cbn [out2] in Hn. inversion Hn. subst s' rep. rewrite Hc in Hc'. inversion Hc'. subst q'.
      sproj. repeat split. eapply vget_vset_same; eauto.
    + exfalso. apply (Hne q Hc). reflexivity.
Qed.

(** the hypotheses of the theorems above are met by non-trivial reachable states: a history with
    wrap-around, a parked collision and its resolution by PUBCOMP honours the contract *)
Example contract_nontrivial :
  let h := [Out (RPublish (mkPub Q2 0 1 1)); Out (RPublish (mkPub Q1 0 2 2)); Inc (PPubAck 2);
            Out (RPublish (mkPub Q1 0 3 3)); Inc (PPubRec 1); Inc (PPubComp 1); Inc (PPubAck 7); Clean] in
  contract (init 2 false) h = true /\
  option_map (fun s => (inflight s, collision s)) (run (init 2 false) (firstn 4 h)) = Some (1, Some (mkPub Q1 1 3 3)).
Proof. vm_compute. split; reflexivity. Qed.
