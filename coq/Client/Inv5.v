(** The state invariant of the v5 client state machine (Client/State5.v) and its preservation by
    every op that honours the caller contract [op_ok5]; no op panics under it.
    Same structure as Client/Inv4.v; differences: the tables have [s5_max_limit]+1 slots while
    the allocator runs in 1..[s5_max] (CONNACK may lower it, never below 1 by the contract);
    PUBREC with a failure reason frees the id; an unknown inbound topic alias answers DISCONNECT. *)
From Coq Require Import Arith ZifyBool ZifyN ZifyNat.
From Rumqtt Require Import Client.VecLemmas Client.State5.

Arguments N.add : simpl never.
Arguments N.sub : simpl never.
Arguments N.eqb : simpl never.
Arguments N.leb : simpl never.
Arguments N.ltb : simpl never.
Arguments N.min : simpl never.

Ltac sproj5 :=
  cbn [s5_await_pingresp s5_cpc s5_last_pkid s5_inflight s5_pub s5_rel s5_incoming s5_collision s5_events
       s5_manual s5_aliases s5_alias_max s5_max s5_max_limit u_await u_cpc u_last_pkid u_inflight u_pub u_rel
       u_incoming u_collision u_events u_aliases u_alias_max u_max push5] in *.

Definition busy5 (s : state5) (i : N) : bool :=
  match vget (s5_pub s) i with Some (Some _) => true | _ => false end || bit (s5_rel s) i.

Definition api_request5 (r : request5) : bool :=
  match r with
  | R5Publish _ | R5Subscribe _ | R5Unsubscribe _ | R5PubAck _ | R5PubRec _ | R5PingReq | R5Disconnect => true
  | R5PubRel _ | R5PubComp _ | R5PingResp | R5SubAck _ | R5UnsubAck _ => false
  end.

(** the contract of the v5 state machine: as v4.  Nothing is asked of the broker: since the fix:
    commit b2fc5b9 (F37) a CONNACK announcing receive-maximum 0 is refused by the state machine *)
Definition op_ok5 (s : state5) (o : op5) : bool :=
  match o with
  | Out5 (R5Publish p) => match q_qos p with Q0 => true | _ => negb (is_some (s5_collision s)) end
  | Out5 (R5PubRel i) => (1 <=? i) && (i <=? s5_max_limit s) && negb (busy5 s i)
  | Out5 r => api_request5 r
  | Inc5 _ => true
  | Clean5 => true
  end.

Record Inv5 (s : state5) : Prop := mkInv5 {
  j_max1 : 1 <= s5_max s;
  j_maxle : s5_max s <= s5_max_limit s;
  j_max2 : s5_max_limit s <= U16_MAX;
  j_lenp : length (s5_pub s) = S (idx (s5_max_limit s));
  j_lenr : length (s5_rel s) = S (idx (s5_max_limit s));
  j_slot : forall i p, vget (s5_pub s) i = Some (Some p) -> q_pkid p = i /\ 1 <= i /\ q_qos p <> Q0;
  j_rel0 : bit (s5_rel s) 0 = false;
  j_excl : forall i p, vget (s5_pub s) i = Some (Some p) -> bit (s5_rel s) i = false;
  j_lpk : s5_last_pkid s < s5_max s;
  j_infl : s5_inflight s = count_some (s5_pub s) + count_true (s5_rel s);
  j_coll : forall p, s5_collision s = Some p -> busy5 s (q_pkid p) = true /\ q_qos p <> Q0 }.

Lemma idx_lt_len5 (m i : N) : (idx i < S (idx m))%nat <-> i <= m.
Proof. unfold idx. lia. Qed.

Lemma bound_raw5 (m : N) (pubs : list (option publish5)) (rels : list bool) :
  length pubs = S (idx m) -> length rels = S (idx m) ->
  (forall i p, vget pubs i = Some (Some p) -> 1 <= i /\ bit rels i = false) ->
  bit rels 0 = false ->
  count_some pubs + count_true rels <= m.
Proof.
  intros Hp Hr Hex H0.
  destruct pubs as [| o pubs]; [discriminate|]. destruct rels as [| b rels]; [discriminate|].
  cbn [length] in Hp, Hr.
  assert (o = None).
  { destruct o as [x|]; [|reflexivity]. destruct (Hex 0 x eq_refl) as [H1 _]. lia. }
  assert (b = false) by (unfold bit, vget in H0; cbn in H0; exact H0).
  subst. rewrite count_some_cons, count_true_cons. cbn [is_some b2n].
  assert (H : count_some pubs + count_true rels <= lenN pubs).
  { apply count_excl_le; [lia|]. intros i x Hi.
    destruct (Hex (N.of_nat (S i)) x) as [_ Hb].
    - unfold vget, idx. rewrite Nat2N.id. exact Hi.
    - unfold bit, vget, idx in Hb. rewrite Nat2N.id in Hb. cbn [nth_error] in Hb.
      destruct (nth_error rels i) as [[|]|] eqn:E; try discriminate; [reflexivity|].
      apply nth_error_None in E. assert (i < length pubs)%nat by (apply nth_error_Some; congruence). lia. }
  unfold lenN in H. unfold idx in *. lia.
Qed.

Lemma inv5_bound s : Inv5 s -> s5_inflight s <= s5_max_limit s.
Proof.
  intros I. rewrite (j_infl s I). apply bound_raw5; try apply I.
  intros i p Hi. split; [apply (j_slot s I i p Hi)|apply (j_excl s I i p Hi)].
Qed.

Lemma inv5_init max manual : 1 <= max -> max <= U16_MAX -> Inv5 (init5 max manual).
Proof.
  intros H1 H2. unfold init5. constructor; sproj5; try assumption; try lia.
  - apply repeat_length.
  - apply repeat_length.
  - intros i p. rewrite vget_repeat. destruct (Nat.ltb (idx i) (S (idx max))); discriminate.
  - apply bit_repeat_false.
  - intros i p. rewrite vget_repeat. destruct (Nat.ltb (idx i) (S (idx max))); discriminate.
  - rewrite count_some_repeat_none, count_true_repeat_false. reflexivity.
  - intros p H. discriminate.
Qed.

Lemma inv5_frame s s' :
  Inv5 s ->
  s5_max s' = s5_max s -> s5_max_limit s' = s5_max_limit s -> s5_pub s' = s5_pub s -> s5_rel s' = s5_rel s ->
  s5_last_pkid s' = s5_last_pkid s -> s5_inflight s' = s5_inflight s -> s5_collision s' = s5_collision s -> Inv5 s'.
Proof.
  intros I Hm Hl Hp Hr Hk Hi Hc.
  constructor; unfold busy5; rewrite ?Hm, ?Hl, ?Hp, ?Hr, ?Hk, ?Hi, ?Hc; try apply I.
  all: try (intros p Hcp; apply (j_coll s I p Hcp)).
Qed.

Lemma inv5_push s e : Inv5 s -> Inv5 (push5 s e).
Proof. intros I. eapply inv5_frame; eauto. Qed.
Lemma inv5_u_events s e : Inv5 s -> Inv5 (u_events s e).
Proof. intros I. eapply inv5_frame; eauto. Qed.
Lemma inv5_u_await s v : Inv5 s -> Inv5 (u_await s v).
Proof. intros I. eapply inv5_frame; eauto. Qed.
Lemma inv5_u_cpc s v : Inv5 s -> Inv5 (u_cpc s v).
Proof. intros I. eapply inv5_frame; eauto. Qed.
Lemma inv5_u_incoming s v : Inv5 s -> Inv5 (u_incoming s v).
Proof. intros I. eapply inv5_frame; eauto. Qed.
Lemma inv5_u_aliases s v : Inv5 s -> Inv5 (u_aliases s v).
Proof. intros I. eapply inv5_frame; eauto. Qed.
Lemma inv5_u_alias_max s v : Inv5 s -> Inv5 (u_alias_max s v).
Proof. intros I. eapply inv5_frame; eauto. Qed.

Lemma inv5_u_last_pkid s v : Inv5 s -> v < s5_max s -> Inv5 (u_last_pkid s v).
Proof. intros I Hv. constructor; sproj5; try apply I; assumption. Qed.

Lemma next_pkid5_spec s : Inv5 s ->
  exists v, next_pkid5 s = Ok (u_last_pkid s v, s5_last_pkid s + 1)
            /\ v < s5_max s /\ 1 <= s5_last_pkid s + 1 <= s5_max s.
Proof.
  intros I. pose proof (j_lpk s I). pose proof (j_max2 s I). pose proof (j_maxle s I). unfold next_pkid5, U16_MAX in *.
  destruct (N.eqb_spec (s5_last_pkid s) 65535); [lia|].
  destruct (N.eqb_spec (s5_last_pkid s + 1) (s5_max s)).
  - exists 0. split; [reflexivity|lia].
  - exists (s5_last_pkid s + 1). split; [reflexivity|lia].
Qed.

Lemma inv5_store s (p : publish5) l :
  Inv5 s -> 1 <= q_pkid p -> q_qos p <> Q0 ->
  vget (s5_pub s) (q_pkid p) = Some None -> bit (s5_rel s) (q_pkid p) = false ->
  vset (s5_pub s) (q_pkid p) (Some p) = Some l ->
  (forall q, s5_collision s = Some q -> q_pkid q = q_pkid p \/ busy5 s (q_pkid q) = true) ->
  s5_inflight s + 1 <= s5_max_limit s /\ Inv5 (u_inflight (u_pub s l) (s5_inflight s + 1)).
Proof.
  intros I H1 Hq Hfree Hrel Hl Hc.
  assert (Hcnt : count_some l + 0 = count_some (s5_pub s) + 1).
  { exact (count_some_vset _ _ _ _ _ Hl Hfree). }
  assert (Hslot : forall i q, vget l i = Some (Some q) -> q_pkid q = i /\ 1 <= i /\ q_qos q <> Q0).
  { intros i q Hi. rewrite (vget_vset _ _ _ i _ Hl) in Hi. destruct (N.eqb_spec (q_pkid p) i).
    - inversion Hi. subst. auto.
    - apply (j_slot s I i q Hi). }
  assert (Hexcl : forall i q, vget l i = Some (Some q) -> bit (s5_rel s) i = false).
  { intros i q Hi. rewrite (vget_vset _ _ _ i _ Hl) in Hi. destruct (N.eqb_spec (q_pkid p) i).
    - subst. exact Hrel.
    - apply (j_excl s I i q Hi). }
  assert (Hlen : length l = S (idx (s5_max_limit s))).
  { rewrite (vset_length _ _ _ _ Hl). apply I. }
  assert (Hb : count_some l + count_true (s5_rel s) <= s5_max_limit s).
  { apply bound_raw5; try apply I; try assumption.
    intros i q Hi. split; [apply (Hslot i q Hi)|apply (Hexcl i q Hi)]. }
  pose proof (j_infl s I) as Hinf.
  split; [lia|].
  constructor; sproj5; try apply I; try assumption; try lia.
  intros q Hcq. split; [|apply (j_coll s I q Hcq)].
  unfold busy5. sproj5. rewrite (vget_vset _ _ _ (q_pkid q) _ Hl).
  destruct (N.eqb_spec (q_pkid p) (q_pkid q)); [reflexivity|].
  destruct (Hc q Hcq) as [E | Hbusy]; [congruence|]. exact Hbusy.
Qed.

Lemma inv5_drop_collision s : Inv5 s -> Inv5 (u_collision s None).
Proof. intros I. constructor; sproj5; try apply I. intros p H. discriminate. Qed.

Lemma inv5_set_collision s q :
  Inv5 s -> busy5 s (q_pkid q) = true -> q_qos q <> Q0 -> Inv5 (u_collision s (Some q)).
Proof.
  intros I Hb Hq. constructor; sproj5; try apply I.
  intros p H. inversion H. subst. split; assumption.
Qed.

Lemma inv5_free_pub s i p l :
  Inv5 s -> vget (s5_pub s) i = Some (Some p) -> vset (s5_pub s) i None = Some l ->
  1 <= s5_inflight s /\ (forall q, s5_collision s = Some q -> q_pkid q <> i) ->
  Inv5 (u_inflight (u_pub s l) (s5_inflight s - 1)).
Proof.
  intros I Hp Hl [H1 Hc].
  assert (Hcnt : count_some l + 1 = count_some (s5_pub s) + 0).
  { exact (count_some_vset _ _ _ _ _ Hl Hp). }
  pose proof (j_infl s I) as Hinf.
  constructor; sproj5; try apply I.
  - rewrite (vset_length _ _ _ _ Hl). apply I.
  - intros j q Hj. rewrite (vget_vset _ _ _ j _ Hl) in Hj. destruct (i =? j); [discriminate|].
    apply (j_slot s I j q Hj).
  - intros j q Hj. rewrite (vget_vset _ _ _ j _ Hl) in Hj. destruct (i =? j); [discriminate|].
    apply (j_excl s I j q Hj).
  - lia.
  - intros q Hq. destruct (j_coll s I q Hq) as [Hb Hq0]. split; [|exact Hq0].
    unfold busy5 in *. sproj5. rewrite (vget_vset _ _ _ (q_pkid q) _ Hl).
    destruct (N.eqb_spec i (q_pkid q)) as [E | E]; [exfalso; apply (Hc q Hq); congruence|exact Hb].
Qed.

Lemma inv5_infl_pos_pub s i p : Inv5 s -> vget (s5_pub s) i = Some (Some p) -> 1 <= s5_inflight s.
Proof.
  intros I Hp. rewrite (j_infl s I).
  destruct (vset_of_vget (s5_pub s) i (Some p) None Hp) as [l Hl].
  pose proof (count_some_vset _ _ _ _ _ Hl Hp) as H. cbn [is_some b2n] in H. lia.
Qed.

Lemma inv5_infl_pos_rel s i : Inv5 s -> bit (s5_rel s) i = true -> 1 <= s5_inflight s.
Proof.
  intros I Hb. rewrite (j_infl s I).
  assert (Hlt : (idx i < length (s5_rel s))%nat).
  { unfold bit in Hb. destruct (vget (s5_rel s) i) eqn:E; [|discriminate]. eapply vget_some_lt; eauto. }
  destruct (vset_some (s5_rel s) i false Hlt) as [l Hl].
  pose proof (count_true_vset _ _ _ _ Hl) as H. rewrite Hb in H. cbn [b2n] in H. lia.
Qed.

Definition post5 (r : R5 (option packet5)) (P : state5 -> Prop) : Prop :=
  match r with Ok (s', _) => P s' | Err (s', _) => P s' | Panic _ => False end.

Lemma resend5_inv s p :
  Inv5 s -> s5_collision s = None -> 1 <= q_pkid p -> q_qos p <> Q0 ->
  vget (s5_pub s) (q_pkid p) = Some None -> bit (s5_rel s) (q_pkid p) = false ->
  post5 (resend5 s p) Inv5.
Proof.
  intros I Hc H1 Hq Hfree Hrel. unfold resend5, pub_store5, inflight_inc5.
  destruct (vset_of_vget _ _ _ (Some p) Hfree) as [l Hl]. rewrite Hl. cbn [bind]. sproj5.
  destruct (inv5_store s p l I H1 Hq Hfree Hrel Hl) as [Hle I'].
  { intros q Hcq. congruence. }
  pose proof (j_max2 s I). unfold U16_MAX in *.
  destruct (N.eqb_spec (s5_inflight s) 65535); [lia|]. cbn [bind post5].
  apply inv5_u_cpc, inv5_push. exact I'.
Qed.

Lemma place_publish5_inv s p :
  Inv5 s -> s5_collision s = None -> 1 <= q_pkid p -> q_qos p <> Q0 -> post5 (place_publish5 s p) Inv5.
Proof.
  intros I Hc H1 Hq. unfold place_publish5.
  destruct (vget (s5_pub s) (q_pkid p)) as [slot|] eqn:Eg; [|exact I].
  destruct (is_some slot || bit (s5_rel s) (q_pkid p)) eqn:Eb.
  - cbn [post5]. apply inv5_push, inv5_set_collision; [exact I| |exact Hq].
    unfold busy5. rewrite Eg. destruct slot; cbn [is_some] in Eb; [reflexivity|exact Eb].
  - destruct slot as [x|]; [discriminate|]. cbn [is_some orb] in Eb.
    unfold pub_store5, inflight_inc5.
    destruct (vset_of_vget _ _ _ (Some p) Eg) as [l Hl]. rewrite Hl. cbn [bind]. sproj5.
    destruct (inv5_store s p l I H1 Hq Eg Eb Hl) as [Hle I'].
    { intros q Hcq. congruence. }
    pose proof (j_max2 s I). unfold U16_MAX in *.
    destruct (N.eqb_spec (s5_inflight s) 65535); [lia|]. cbn [bind post5].
    apply inv5_push. exact I'.
Qed.

Lemma outgoing_publish5_inv s p :
  Inv5 s -> (q_qos p <> Q0 -> s5_collision s = None) -> post5 (outgoing_publish5 s p) Inv5.
Proof.
  intros I Hc. unfold outgoing_publish5.
  destruct (match q_alias p with Some a => if s5_alias_max s <? a then Some a else None | None => None end); [exact I|].
  destruct (q_qos p) eqn:Eq.
  { cbn [post5]. apply inv5_push, I. }
  all: assert (Hcn : s5_collision s = None) by (apply Hc; congruence).
  all: destruct (N.eqb_spec (q_pkid p) 0) as [E0 | E0].
  all: try (destruct (next_pkid5_spec s I) as [v [Hn [Hv Hid]]]; rewrite Hn; cbn [bind];
            apply place_publish5_inv; [apply inv5_u_last_pkid; assumption|exact Hcn|cbn [q_pkid with_pkid5]; lia|cbn [q_qos with_pkid5]; congruence]).
  all: apply place_publish5_inv; [exact I|exact Hcn|lia|congruence].
Qed.

Lemma check_collision5_spec s id :
  (exists p, s5_collision s = Some p /\ q_pkid p = id /\ check_collision5 s id = (u_collision s None, Some p))
  \/ ((forall q, s5_collision s = Some q -> q_pkid q <> id) /\ check_collision5 s id = (s, None)).
Proof.
  unfold check_collision5. destruct (s5_collision s) as [p|] eqn:E.
  - destruct (N.eqb_spec (q_pkid p) id) as [H | H].
    + left. exists p. auto.
    + right. split; [|reflexivity]. intros q Hq. inversion Hq. subst. exact H.
  - right. split; [|reflexivity]. intros q Hq. discriminate.
Qed.

Lemma ack_tail5_inv s id :
  Inv5 (u_collision s None) -> 1 <= id ->
  vget (s5_pub s) id = Some None -> bit (s5_rel s) id = false ->
  (forall q, s5_collision s = Some q -> q_qos q <> Q0 /\ (q_pkid q = id \/ busy5 s (q_pkid q) = true)) ->
  post5 (ack_tail5 s id) Inv5.
Proof.
  intros I H1 Hfree Hrel Hc. unfold ack_tail5.
  destruct (check_collision5_spec s id) as [[p [Hp [Hid ->]]] | [Hne ->]].
  - subst id. apply resend5_inv; sproj5; auto. apply (Hc p Hp).
  - cbn [post5]. constructor; try apply I.
    intros q Hq. destruct (Hc q Hq) as [Hq0 [E | Hb]]; [exfalso; apply (Hne q Hq E)|]. split; assumption.
Qed.

(** a publish slot is freed (PUBACK; PUBREC with a failure reason): shared by both handlers *)
Lemma free_then_tail_inv s id p0 :
  Inv5 s -> vget (s5_pub s) id = Some (Some p0) ->
  post5 (do (s, _) <- pub_store5 s id None; do (s, _) <- inflight_dec5 s; ack_tail5 s id) Inv5.
Proof.
  intros I Eg. unfold pub_store5, inflight_dec5.
  destruct (vset_of_vget _ _ _ None Eg) as [l Hl]. rewrite Hl. cbn [bind]. sproj5.
  pose proof (inv5_infl_pos_pub s id p0 I Eg) as Hpos.
  destruct (N.eqb_spec (s5_inflight s) 0); [lia|]. cbn [bind].
  destruct (j_slot s I id p0 Eg) as [_ [H1 _]].
  apply ack_tail5_inv; sproj5; auto.
  - assert (I0 : Inv5 (u_inflight (u_pub (u_collision s None) l) (s5_inflight s - 1))).
    { apply (inv5_free_pub (u_collision s None) id p0 l); sproj5.
      - apply inv5_drop_collision; assumption.
      - exact Eg.
      - exact Hl.
      - split; [exact Hpos|]. intros q Hq. discriminate. }
    eapply inv5_frame; [exact I0|..]; reflexivity.
  - eapply vget_vset_same; eauto.
  - apply (j_excl s I id p0 Eg).
  - intros q Hq. destruct (j_coll s I q Hq) as [Hb Hq0]. split; [exact Hq0|].
    destruct (N.eq_dec (q_pkid q) id) as [E | E]; [left; exact E|right].
    unfold busy5 in *. sproj5. rewrite (vget_vset_other _ _ _ _ _ Hl); auto.
Qed.

Lemma handle_incoming_puback5_inv s id r : Inv5 s -> post5 (handle_incoming_puback5 s id r) Inv5.
Proof.
  intros I. unfold handle_incoming_puback5.
  destruct (vget (s5_pub s) id) as [[p0|]|] eqn:Eg; [|exact I|exact I].
  eapply free_then_tail_inv; eauto.
Qed.

Lemma handle_incoming_pubrec5_inv s id r : Inv5 s -> post5 (handle_incoming_pubrec5 s id r) Inv5.
Proof.
  intros I. unfold handle_incoming_pubrec5.
  destruct (vget (s5_pub s) id) as [[p0|]|] eqn:Eg; [|exact I|exact I].
  destruct (negb (ack_ok r)).
  { pose proof (free_then_tail_inv s id p0 I Eg) as H. unfold pub_store5 in *.
    destruct (vset (s5_pub s) id None); cbn [bind] in *; exact H. }
  unfold pub_store5, rel_set5.
  destruct (vset_of_vget _ _ _ None Eg) as [l Hl]. rewrite Hl. cbn [bind]. sproj5.
  assert (Hlt : (idx id < length (s5_rel s))%nat).
  { apply vget_some_lt in Eg. rewrite (j_lenr s I), <- (j_lenp s I). exact Eg. }
  destruct (vset_some (s5_rel s) id true Hlt) as [rl Hr]. rewrite Hr. cbn [bind post5]. sproj5.
  apply inv5_push.
  destruct (j_slot s I id p0 Eg) as [_ [H1 _]].
  pose proof (count_some_vset _ _ _ _ _ Hl Eg) as Hc1. cbn [is_some b2n] in Hc1.
  pose proof (count_true_vset _ _ _ _ Hr) as Hc2. rewrite (j_excl s I id p0 Eg) in Hc2. cbn [b2n] in Hc2.
  pose proof (j_infl s I) as Hinf.
  constructor; sproj5; try apply I.
  - rewrite (vset_length _ _ _ _ Hl). apply I.
  - rewrite (vset_length _ _ _ _ Hr). apply I.
  - intros j q Hj. rewrite (vget_vset _ _ _ j _ Hl) in Hj. destruct (id =? j); [discriminate|].
    apply (j_slot s I j q Hj).
  - rewrite (bit_vset _ _ _ 0 _ Hr). destruct (N.eqb_spec id 0); [lia|apply I].
  - intros j q Hj. rewrite (vget_vset _ _ _ j _ Hl) in Hj. rewrite (bit_vset _ _ _ j _ Hr).
    destruct (id =? j); [discriminate|]. apply (j_excl s I j q Hj).
  - lia.
  - intros q Hq. destruct (j_coll s I q Hq) as [Hb Hq0]. split; [|exact Hq0].
    unfold busy5 in *. sproj5. rewrite (vget_vset _ _ _ (q_pkid q) _ Hl), (bit_vset _ _ _ (q_pkid q) _ Hr).
    destruct (id =? q_pkid q); [reflexivity|exact Hb].
Qed.

Lemma handle_incoming_pubcomp5_inv s id r : Inv5 s -> post5 (handle_incoming_pubcomp5 s id r) Inv5.
Proof.
  intros I. unfold handle_incoming_pubcomp5.
  destruct (bit (s5_rel s) id) eqn:Eb; cbn [negb]; [|exact I].
  unfold rel_set5, inflight_dec5.
  assert (Hlt : (idx id < length (s5_rel s))%nat).
  { unfold bit in Eb. destruct (vget (s5_rel s) id) eqn:E; [|discriminate]. eapply vget_some_lt; eauto. }
  destruct (vset_some (s5_rel s) id false Hlt) as [l Hl]. rewrite Hl. cbn [bind]. sproj5.
  pose proof (inv5_infl_pos_rel s id I Eb) as Hpos.
  destruct (N.eqb_spec (s5_inflight s) 0); [lia|]. cbn [bind].
  assert (H1 : 1 <= id).
  { destruct (N.eq_dec id 0) as [-> |]; [|lia]. rewrite (j_rel0 s I) in Eb. discriminate. }
  assert (Hnone : vget (s5_pub s) id = Some None).
  { rewrite (j_lenr s I), <- (j_lenp s I) in Hlt. destruct (vget_lt_some _ _ Hlt) as [[p|] Hp]; [|exact Hp].
    rewrite (j_excl s I id p Hp) in Eb. discriminate. }
  pose proof (count_true_vset _ _ _ _ Hl) as Hcnt. rewrite Eb in Hcnt. cbn [b2n] in Hcnt.
  pose proof (j_infl s I) as Hinf.
  apply ack_tail5_inv; sproj5; auto.
  - constructor; sproj5; try apply I.
    + rewrite (vset_length _ _ _ _ Hl). apply I.
    + rewrite (bit_vset _ _ _ 0 _ Hl). destruct (id =? 0); [reflexivity|apply I].
    + intros j q Hj. rewrite (bit_vset _ _ _ j _ Hl). destruct (id =? j); [reflexivity|apply (j_excl s I j q Hj)].
    + lia.
    + intros q Hq. discriminate.
  - rewrite (bit_vset _ _ _ id _ Hl). rewrite N.eqb_refl. reflexivity.
  - intros q Hq. destruct (j_coll s I q Hq) as [Hb Hq0]. split; [exact Hq0|].
    destruct (N.eq_dec (q_pkid q) id) as [E | E]; [left; exact E|right].
    unfold busy5 in *. sproj5. rewrite (bit_vset _ _ _ (q_pkid q) _ Hl).
    destruct (N.eqb_spec id (q_pkid q)); [congruence|exact Hb].
Qed.

Lemma handle_incoming_connack5_inv s code rm tam :
  Inv5 s -> post5 (handle_incoming_connack5 s code rm tam) Inv5.
Proof.
  intros I. unfold handle_incoming_connack5. destruct (negb (code =? 0)); [exact I|].
  assert (I1 : Inv5 (match tam with Some t => u_alias_max s t | None => s end)).
  { destruct tam; [apply inv5_u_alias_max|]; exact I. }
  set (s1 := match tam with Some t => u_alias_max s t | None => s end) in *. clearbody s1.
  destruct rm as [m|]; [|exact I1].
  destruct (N.eqb_spec m 0) as [E0 | E0]; [exact I1|]. cbn [post5].
  pose proof (j_max1 s1 I1). pose proof (j_maxle s1 I1). sproj5.
  assert (Hmin : 1 <= N.min m (s5_max_limit s1) /\ N.min m (s5_max_limit s1) <= s5_max_limit s1) by lia.
  destruct (N.leb_spec (N.min m (s5_max_limit s1)) (s5_last_pkid s1)).
  - constructor; sproj5; try apply I1; try lia. all: try (unfold busy5; sproj5; apply I1).
  - constructor; sproj5; try apply I1; try lia. all: try (unfold busy5; sproj5; apply I1).
Qed.

Lemma handle_incoming_packet5_inv s pk :
  Inv5 s -> post5 (handle_incoming_packet5 s pk) Inv5.
Proof.
  intros I. unfold handle_incoming_packet5.
  pose proof (inv5_push s (Ev5In pk) I) as I1.
  destruct pk; cbn [post5]; try exact I1.
  - apply handle_incoming_connack5_inv. exact I1.
  - (* publish *) unfold handle_incoming_publish5, outgoing_puback5, outgoing_pubrec5, outgoing_disconnect5.
    destruct (q_alias p) as [a|]; [destruct (negb (q_topic p =? 0)); [|destruct (iset_mem (s5_aliases (push5 s (Ev5In (P5Publish p)))) a)]|];
      destruct (q_qos p); sproj5; try destruct (s5_manual s); cbn [post5];
      repeat (first [apply inv5_push | apply inv5_u_incoming | apply inv5_u_aliases]); exact I.
  - apply handle_incoming_puback5_inv, I1.
  - apply handle_incoming_pubrec5_inv, I1.
  - unfold handle_incoming_pubrel5. destruct (negb _); cbn [post5]; [exact I1|].
    apply inv5_push, inv5_u_incoming. exact I1.
  - apply handle_incoming_pubcomp5_inv, I1.
  - apply inv5_u_await. exact I1.
Qed.

Lemma outgoing_pubrel5_inv s id :
  Inv5 s -> 1 <= id -> id <= s5_max_limit s -> busy5 s id = false -> post5 (outgoing_pubrel5 s id) Inv5.
Proof.
  intros I H1 H2 Hb. unfold outgoing_pubrel5.
  destruct (N.eqb_spec id 0); [lia|]. cbn [bind]. unfold rel_set5, inflight_inc5.
  assert (Hlt : (idx id < length (s5_rel s))%nat) by (rewrite (j_lenr s I); apply idx_lt_len5; exact H2).
  destruct (vset_some (s5_rel s) id true Hlt) as [r Hr]. rewrite Hr. cbn [bind]. sproj5.
  unfold busy5 in Hb. apply orb_false_iff in Hb. destruct Hb as [Hbp Hbr].
  pose proof (count_true_vset _ _ _ _ Hr) as Hc. rewrite Hbr in Hc. cbn [b2n] in Hc.
  pose proof (j_infl s I) as Hinf.
  assert (Hex : forall j q, vget (s5_pub s) j = Some (Some q) -> bit r j = false).
  { intros j q Hj. rewrite (bit_vset _ _ _ j _ Hr). destruct (N.eqb_spec id j); [|apply (j_excl s I j q Hj)].
    subst. rewrite Hj in Hbp. discriminate. }
  assert (H0 : bit r 0 = false).
  { rewrite (bit_vset _ _ _ 0 _ Hr). destruct (N.eqb_spec id 0); [lia|apply I]. }
  assert (Hlr : length r = S (idx (s5_max_limit s))) by (rewrite (vset_length _ _ _ _ Hr); apply I).
  assert (Hbd : count_some (s5_pub s) + count_true r <= s5_max_limit s).
  { apply bound_raw5; try apply I; auto. intros j q Hj. split; [apply (j_slot s I j q Hj)|eauto]. }
  pose proof (j_max2 s I). unfold U16_MAX in *.
  destruct (N.eqb_spec (s5_inflight s) 65535); [lia|]. cbn [bind post5]. apply inv5_push.
  constructor; sproj5; try apply I; auto; try lia.
  intros q Hq. destruct (j_coll s I q Hq) as [Hb Hq0]. split; [|exact Hq0].
  unfold busy5 in *. sproj5. rewrite (bit_vset _ _ _ (q_pkid q) _ Hr).
  destruct (id =? q_pkid q); [apply orb_true_r|exact Hb].
Qed.

Lemma outgoing_ping5_inv s : Inv5 s -> post5 (outgoing_ping5 s) Inv5.
Proof.
  intros I. unfold outgoing_ping5.
  destruct (is_some (s5_collision s)); sproj5.
  - destruct (2 <=? s5_cpc s + 1); cbn [bind post5]; [apply inv5_u_cpc, I|].
    sproj5. destruct (s5_await_pingresp s); cbn [post5]; [apply inv5_u_cpc, I|].
    apply inv5_push, inv5_u_await, inv5_u_cpc, I.
  - cbn [bind]. destruct (s5_await_pingresp s); cbn [post5]; [exact I|]. apply inv5_push, inv5_u_await, I.
Qed.

Lemma handle_outgoing_packet5_inv s r :
  Inv5 s -> op_ok5 s (Out5 r) = true -> post5 (handle_outgoing_packet5 s r) Inv5.
Proof.
  intros I Hok. unfold handle_outgoing_packet5. destruct r; cbn [op_ok5 api_request5] in Hok; try discriminate.
  - apply outgoing_publish5_inv; [exact I|]. intros Hq. destruct (q_qos p); [congruence| |];
      destruct (s5_collision s); cbn in Hok; congruence.
  - cbn [post5 outgoing_puback5]. apply inv5_push, I.
  - cbn [post5 outgoing_pubrec5]. apply inv5_push, I.
  - apply andb_true_iff in Hok. destruct Hok as [Hok Hb]. apply andb_true_iff in Hok. destruct Hok as [H1 H2].
    apply outgoing_pubrel5_inv; [exact I|lia|lia|]. destruct (busy5 s id); [discriminate|reflexivity].
  - apply outgoing_ping5_inv, I.
  - unfold outgoing_subscribe5. destruct (n =? 0); [exact I|].
    destruct (next_pkid5_spec s I) as [v [Hn [Hv Hid]]]. rewrite Hn. cbn [bind post5].
    apply inv5_push, inv5_u_last_pkid; assumption.
  - unfold outgoing_unsubscribe5.
    destruct (next_pkid5_spec s I) as [v [Hn [Hv Hid]]]. rewrite Hn. cbn [bind post5].
    apply inv5_push, inv5_u_last_pkid; assumption.
  - cbn [post5 outgoing_disconnect5]. apply inv5_push, I.
Qed.

Lemma clean5_inv s : Inv5 s -> Inv5 (fst (clean5 s)) /\ s5_inflight (fst (clean5 s)) = 0 /\ s5_collision (fst (clean5 s)) = None.
Proof.
  intros I. unfold clean5. cbn [fst]. sproj5. split; [|split; reflexivity].
  constructor; sproj5; try apply I.
  - rewrite repeat_length. apply I.
  - rewrite repeat_length. apply I.
  - intros i p. rewrite vget_repeat. destruct (Nat.ltb _ _); discriminate.
  - apply bit_repeat_false.
  - intros i p H. apply bit_repeat_false.
  - rewrite count_some_repeat_none, count_true_repeat_false. reflexivity.
  - intros p H. discriminate.
Qed.

Theorem step5_inv s o : Inv5 s -> op_ok5 s o = true ->
  match step5 s o with Ok (s', _) => Inv5 s' | Err (s', _) => Inv5 s' | Panic _ => False end.
Proof.
  intros I Hok. destruct o as [r | pk |]; cbn [step5].
  - pose proof (handle_outgoing_packet5_inv s r I Hok) as H.
    destruct (handle_outgoing_packet5 s r) as [[s' x] | [s' e] | t]; cbn [bind]; exact H.
  - pose proof (handle_incoming_packet5_inv s pk I) as H.
    destruct (handle_incoming_packet5 s pk) as [[s' x] | [s' e] | t]; cbn [bind]; exact H.
  - pose proof (clean5_inv s I) as H. destruct (clean5 s) as [s' l]. cbn [fst] in H. tauto.
Qed.

Definition next5 (s : state5) (o : op5) : option state5 :=
  match step5 s o with Ok (s', _) => Some s' | Err (s', _) => Some s' | Panic _ => None end.

Fixpoint run5 (s : state5) (h : list op5) : option state5 :=
  match h with
  | [] => Some s
  | o :: r => match next5 s o with Some s' => run5 s' r | None => None end
  end.

Fixpoint contract5 (s : state5) (h : list op5) : bool :=
  match h with
  | [] => true
  | o :: r => op_ok5 s o && match next5 s o with Some s' => contract5 s' r | None => true end
  end.

Theorem run5_inv s h : Inv5 s -> contract5 s h = true -> exists s', run5 s h = Some s' /\ Inv5 s'.
Proof.
  revert s. induction h as [| o h IH]; intros s I Hc; [exists s; split; [reflexivity|exact I]|].
  cbn [contract5] in Hc. apply andb_true_iff in Hc. destruct Hc as [Hok Hc].
  pose proof (step5_inv s o I Hok) as H. cbn [run5]. unfold next5 in *.
  destruct (step5 s o) as [[s' x] | [s' e] | t]; [apply IH; assumption|apply IH; assumption|contradiction].
Qed.

Theorem run5_inv_init max manual h : 1 <= max -> max <= 65535 -> contract5 (init5 max manual) h = true ->
  exists s, run5 (init5 max manual) h = Some s /\ Inv5 s.
Proof. intros H1 H2. apply run5_inv. apply inv5_init; assumption. Qed.

(** a non-trivial history honours the contract: wrap-around, a collision parked on a QoS 2 id,
    a refused PUBREC that frees it and releases the parked publish, receive-maximum lowered *)
Example contract5_nontrivial :
  let pq q tag := Out5 (R5Publish (mkPub5 q 0 tag tag None)) in
  let h := [pq Q2 1; pq Q1 2; Inc5 (P5PubAck 2 0); pq Q1 3; Inc5 (P5PubRec 1 135);
            Inc5 (P5ConnAck true 0 (Some 1) (Some 4)); pq Q1 4; Inc5 (P5PubAck 1 128); Clean5] in
  contract5 (init5 2 false) h = true /\
  option_map (fun s => (s5_inflight s, s5_collision s)) (run5 (init5 2 false) (firstn 7 h))
    = Some (1, Some (mkPub5 Q1 1 4 4 None)).
Proof. vm_compute. split; reflexivity. Qed.

(** everything the v5 state machine owes, and that [clean] hands all of it back (index order) *)
Definition held5 (s : state5) : list request5 :=
  map R5Publish (somes (s5_pub s)) ++ map R5PubRel (ones (s5_rel s))
  ++ match s5_collision s with Some p => [R5Publish p] | None => [] end.

Theorem clean5_returns_held s : snd (clean5 s) = held5 s /\ held5 (fst (clean5 s)) = [].
Proof.
  unfold clean5, held5. cbn [fst snd]. sproj5. split; [reflexivity|].
  rewrite somes_repeat_none.
  assert (E : ones (repeat false (length (s5_rel s))) = []).
  { destruct (ones _) as [| x t] eqn:Eo; [reflexivity|]. exfalso.
    assert (Hin : In x (ones (repeat false (length (s5_rel s))))) by (rewrite Eo; left; reflexivity).
    apply ones_in in Hin. rewrite bit_repeat_false in Hin. discriminate. }
  rewrite E. reflexivity.
Qed.
