(** C18: period, detection, no false alarm, keep-alive zero, connect timeout, the CollisionTimeout
    carve-out — about Client/KeepAlive.v — and the tie of its ping/flag logic to M-CLIENT
    (Client/State4.v): [outgoing_ping] is [kping], and nothing but a ping, a PINGRESP or clean()
    touches [await_pingresp]. *)
From Coq Require Import Arith ZifyBool ZifyN ZifyNat.
From Rumqtt Require Import Client.KeepAlive Client.State4 Client.Run4 Client.Inv4 Client.Eff4 Client.Flow4.

Arguments N.add : simpl never.
Arguments N.mul : simpl never.
Arguments N.leb : simpl never.
Arguments N.ltb : simpl never.
Arguments N.eqb : simpl never.

Definition no_err (outs : list kout) : bool := forallb (fun o => negb (is_err o)) outs.
Definition is_fail (e : kev) : bool := match e with ConnFail _ => true | _ => false end.

Lemma krun_cons ka s e r :
  krun ka s (e :: r) = let (s1, o1) := kstep ka s e in let (s2, o2) := krun ka s1 r in (s2, o1 ++ o2).
Proof. reflexivity. Qed.

(** PINGREQs at d, d + ka, ..., d + (n-1) ka *)
Fixpoint pings (d ka : N) (n : nat) : list kout :=
  match n with O => [] | S m => PingReqAt d :: pings (d + ka) ka m end.

(** ---- period *)
Lemma period_gen ka tr : forall s d s' outs, 0 < ka -> existsb is_fail tr = false ->
  deadline s = Some d -> prompt ka s tr = true -> krun ka s tr = (s', outs) -> no_err outs = true ->
  exists n, outs = pings d ka n /\ deadline s' = Some (d + N.of_nat n * ka).
Proof.
  induction tr as [| e tr IH]; intros s d s' outs Hka Hnf Hd Hp Hr Hn.
  - cbn in Hr. inversion Hr. subst. exists O. split; [reflexivity|]. rewrite Hd. f_equal. lia.
  - cbn [existsb] in Hnf. apply orb_false_iff in Hnf. destruct Hnf as [Hnfe Hnf].
    cbn [prompt] in Hp. apply andb_true_iff in Hp. destruct Hp as [Hpe Hp].
    rewrite krun_cons in Hr. destruct (kstep ka s e) as [s1 o1] eqn:E1. destruct (krun ka s1 tr) as [s2 o2] eqn:E2.
    inversion Hr. subst s' outs. clear Hr. cbn [fst] in Hp.
    unfold no_err in Hn. rewrite forallb_app in Hn. apply andb_true_iff in Hn. destruct Hn as [Hn1 Hn2].
    unfold prompt_ev in Hpe. rewrite Hd in Hpe.
    assert (Hcase : (o1 = [] /\ deadline s1 = Some d) \/ (o1 = [PingReqAt d] /\ deadline s1 = Some (d + ka))).
    { destruct e; unfold kstep in E1; cbn [kstep_gen andb time_of] in E1, Hpe.
      - rewrite Hd in E1. inversion E1. subst. left. auto.
      - rewrite Hd in E1. destruct (N.leb_spec d t).
        + assert (t = d) by lia. subst t. unfold kping in E1. cbn [coll cpc await deadline] in E1.
          destruct (coll s && (2 <=? (if coll s then cpc s + 1 else cpc s))).
          { inversion E1. subst. cbn in Hn1. discriminate. }
          destruct (await s); [inversion E1; subst; cbn in Hn1; discriminate|].
          inversion E1. subst. right. auto.
        + inversion E1. subst. left. auto.
      - inversion E1. subst. left. auto.
      - inversion E1. subst. left. auto.
      - inversion E1. subst. left. auto.
      - inversion E1. subst. left. auto.
      - discriminate. }
    destruct Hcase as [[-> Hd1] | [-> Hd1]].
    + destruct (IH s1 d s2 o2 Hka Hnf Hd1 Hp E2 Hn2) as [n [Ho Hdd]]. exists n. auto.
    + destruct (IH s1 (d + ka) s2 o2 Hka Hnf Hd1 Hp E2 Hn2) as [n [Ho Hdd]]. exists (S n). split.
      * cbn [app pings]. rewrite Ho. reflexivity.
      * rewrite Hdd. f_equal. lia.
Qed.

(** from the connection established at [c]: PINGREQs exactly at c + ka, c + 2 ka, ..., c + n ka, and
    the timer is armed for c + (n+1) ka: one PINGREQ per keep-alive interval *)
Theorem ka_period ka c tr s' outs : 0 < ka -> existsb is_fail tr = false ->
  prompt ka (fst (kstep ka kinit (Connect c))) tr = true ->
  krun ka (fst (kstep ka kinit (Connect c))) tr = (s', outs) -> no_err outs = true ->
  exists n, outs = pings (c + ka) ka n /\ deadline s' = Some (c + ka + N.of_nat n * ka).
Proof.
  intros Hka Hnf Hp Hr Hn. apply (period_gen ka tr (fst (kstep ka kinit (Connect c))) (c + ka) s' outs Hka Hnf); auto.
  unfold kstep. cbn [kstep_gen andb kinit deadline fst]. destruct (N.eqb_spec ka 0); [lia|reflexivity].
Qed.

(** ---- detection *)
Definition is_pingresp (e : kev) : bool := match e with PingResp _ => true | _ => false end.
Definition is_parked (e : kev) : bool := match e with Parked _ => true | _ => false end.

Theorem ka_detect ka tr : forall s d s' outs,
  deadline s = Some d -> await s = true -> existsb is_fail tr = false ->
  prompt ka s tr = true -> existsb is_pingresp tr = false -> In (Tick d) tr ->
  krun ka s tr = (s', outs) ->
  exists rest, outs = ErrAwait d :: rest \/ (outs = ErrCollision d :: rest /\ (coll s = true \/ existsb is_parked tr = true)).
Proof.
  induction tr as [| e tr IH]; intros s d s' outs Hd Ha Hnf Hp Hnp Hin Hr; [destruct Hin|].
  cbn [existsb] in Hnf. apply orb_false_iff in Hnf. destruct Hnf as [Hnfe Hnf].
  cbn [prompt] in Hp. apply andb_true_iff in Hp. destruct Hp as [Hpe Hp].
  cbn [existsb] in Hnp. apply orb_false_iff in Hnp. destruct Hnp as [Hne Hnp].
  rewrite krun_cons in Hr. destruct (kstep ka s e) as [s1 o1] eqn:E1. destruct (krun ka s1 tr) as [s2 o2] eqn:E2.
  inversion Hr. subst s' outs. clear Hr. cbn [fst] in Hp.
  unfold prompt_ev in Hpe. rewrite Hd in Hpe.
  assert (Hfire : forall t, e = Tick t -> d <= t ->
            exists rest, o1 ++ o2 = ErrAwait d :: rest \/ (o1 ++ o2 = ErrCollision d :: rest /\ coll s = true)).
  { intros t -> Hle. cbn [time_of] in Hpe. assert (t = d) by lia. subst t.
    unfold kstep in E1; cbn [kstep_gen andb] in E1. rewrite Hd in E1. destruct (N.leb_spec d d); [|lia].
    unfold kping in E1. cbn [coll cpc await deadline] in E1. rewrite Ha in E1.
    destruct (coll s) eqn:Ec; cbn [andb] in E1.
    - destruct (2 <=? cpc s + 1); inversion E1; subst; eexists; [right|left]; cbn [app]; auto.
    - inversion E1. subst. eexists. left. reflexivity. }
  destruct e; cbn [is_pingresp is_fail] in Hne, Hnfe; try discriminate.
  - (* Connect *) unfold kstep in E1; cbn [kstep_gen andb] in E1. rewrite Hd in E1. inversion E1. subst.
    destruct Hin as [Hin | Hin]; [discriminate|].
    destruct (IH (mkK (Some d) (await s) (coll s) (cpc s)) d s2 o2 eq_refl Ha Hnf Hp Hnp Hin E2) as [rest [Ho | [Ho Hc]]]; exists rest; cbn [app]; [left; exact Ho|right].
    split; [exact Ho|]. cbn [coll existsb is_parked] in *. exact Hc.
  - (* Tick *) destruct (N.leb_spec d t) as [Hle | Hlt].
    + destruct (Hfire t eq_refl Hle) as [rest [Ho | [Ho Hc]]]; exists rest; [left; exact Ho|right; auto].
    + unfold kstep in E1; cbn [kstep_gen andb] in E1. rewrite Hd in E1. destruct (N.leb_spec d t); [lia|]. inversion E1. subst.
      destruct Hin as [Hin | Hin]; [inversion Hin; lia|].
      destruct (IH _ d s2 o2 Hd Ha Hnf Hp Hnp Hin E2) as [rest [Ho | [Ho Hc]]]; exists rest; cbn [app]; [left; exact Ho|right].
      split; [exact Ho|]. cbn [existsb is_parked]. exact Hc.
  - (* Other *) unfold kstep in E1; cbn [kstep_gen andb] in E1. inversion E1. subst. destruct Hin as [Hin | Hin]; [discriminate|].
    destruct (IH _ d s2 o2 Hd Ha Hnf Hp Hnp Hin E2) as [rest [Ho | [Ho Hc]]]; exists rest; cbn [app]; [left; exact Ho|right].
    split; [exact Ho|]. cbn [existsb is_parked]. exact Hc.
  - (* Parked *) unfold kstep in E1; cbn [kstep_gen andb] in E1. inversion E1. subst. destruct Hin as [Hin | Hin]; [discriminate|].
    destruct (IH (mkK (deadline s) (await s) true (cpc s)) d s2 o2 Hd Ha Hnf Hp Hnp Hin E2) as [rest [Ho | [Ho Hc]]]; exists rest; cbn [app]; [left; exact Ho|right].
    split; [exact Ho|]. right. reflexivity.
  - (* Resolved *) unfold kstep in E1; cbn [kstep_gen andb] in E1. inversion E1. subst. destruct Hin as [Hin | Hin]; [discriminate|].
    destruct (IH (mkK (deadline s) (await s) false 0) d s2 o2 Hd Ha Hnf Hp Hnp Hin E2) as [rest [Ho | [Ho Hc]]]; exists rest; cbn [app]; [left; exact Ho|right].
    split; [exact Ho|]. cbn [coll] in Hc. destruct Hc as [Hc | Hc]; [discriminate|]. right. cbn [existsb is_parked]. exact Hc.
Qed.

(** the "second interval": the broker is silent from [sil]; the last PINGREQ it answered was written
    at [p <= sil]; the next one, written at p + ka, gets no answer; the failure is reported at
    p + 2 ka, which is no later than the end of the second interval after the broker went silent *)
Theorem ka_detect_second_interval ka p sil : p <= sil -> (p + ka) + ka <= sil + 2 * ka.
Proof. lia. Qed.

(** ---- no false alarm *)
Fixpoint sorted (tr : list kev) : bool :=
  match tr with
  | [] => true
  | e :: r => forallb (fun e' => time_of e <=? time_of e') r && sorted r
  end.

Definition reply_before (lim : N) (e : kev) : bool :=
  match e with PingResp t => t <? lim | _ => false end.

(** every PINGREQ written at t is followed by a PINGRESP processed at some t' < t + ka *)
Fixpoint answered (ka : N) (s : kstate) (tr : list kev) : bool :=
  match tr with
  | [] => true
  | e :: r =>
      let (s1, o) := kstep ka s e in
      forallb (fun x => match x with PingReqAt t => existsb (reply_before (t + ka)) r | _ => true end) o
      && answered ka s1 r
  end.

Theorem ka_no_false_alarm ka tr : forall s s' outs,
  coll s = false -> existsb is_parked tr = false -> existsb is_fail tr = false ->
  (await s = true -> exists d, deadline s = Some d /\ existsb (reply_before d) tr = true) ->
  sorted tr = true -> prompt ka s tr = true -> answered ka s tr = true ->
  krun ka s tr = (s', outs) -> no_err outs = true.
Proof.
  induction tr as [| e tr IH]; intros s s' outs Hc Hnp Hnf Hinv Hs Hp Ha Hr.
  - cbn in Hr. inversion Hr. reflexivity.
  - cbn [existsb] in Hnf. apply orb_false_iff in Hnf. destruct Hnf as [Hnfe Hnf].
    cbn [sorted] in Hs. apply andb_true_iff in Hs. destruct Hs as [Hse Hs].
    cbn [prompt] in Hp. apply andb_true_iff in Hp. destruct Hp as [Hpe Hp].
    cbn [existsb] in Hnp. apply orb_false_iff in Hnp. destruct Hnp as [Hne Hnp].
    cbn [answered] in Ha. rewrite krun_cons in Hr.
    destruct (kstep ka s e) as [s1 o1] eqn:E1. destruct (krun ka s1 tr) as [s2 o2] eqn:E2.
    apply andb_true_iff in Ha. destruct Ha as [Hao Ha].
    inversion Hr. subst s' outs. clear Hr. cbn [fst] in Hp.
    unfold no_err. rewrite forallb_app. apply andb_true_iff.
    assert (Hkeep : o1 = [] -> deadline s1 = deadline s -> coll s1 = false ->
              (await s1 = true -> await s = true) -> e <> Tick (time_of e) \/ True ->
              is_pingresp e = false ->
              forallb (fun o => negb (is_err o)) [] = true /\ no_err o2 = true).
    { intros _ Hd1 Hc1 Haw _ Hnr. split; [reflexivity|].
      refine (IH s1 s2 o2 Hc1 Hnp Hnf _ Hs Hp Ha E2).
      intros Ha1. destruct (Hinv (Haw Ha1)) as [d [Hd He]]. exists d. split; [congruence|].
      cbn [existsb] in He. destruct e; cbn [reply_before is_pingresp] in *; try discriminate; exact He. }
    destruct e; cbn [is_parked is_fail] in Hne, Hnfe; try discriminate; unfold kstep in E1; cbn [kstep_gen andb] in E1.
    + (* Connect *) inversion E1. subst. cbn [app]. split; [reflexivity|].
      refine (IH _ s2 o2 _ Hnp Hnf _ Hs Hp Ha E2); [first [exact Hc | reflexivity]|]. cbn [await deadline]. intros Ha1. destruct (Hinv Ha1) as [d [Hd He]].
      exists d. rewrite Hd. split; [reflexivity|]. cbn [existsb reply_before] in He. exact He.
    + (* Tick *) destruct (deadline s) as [d|] eqn:Hd.
      2:{ inversion E1. subst. apply Hkeep; auto. }
      destruct (N.leb_spec d t) as [Hle | Hlt].
      2:{ inversion E1. subst. apply Hkeep; auto. }
      unfold prompt_ev in Hpe. rewrite Hd in Hpe. cbn [time_of] in Hpe. assert (t = d) by lia. subst t.
      assert (Haf : await s = false).
      { destruct (await s) eqn:Eaw; [exfalso|reflexivity]. destruct (Hinv eq_refl) as [d' [Hd' He]].
        inversion Hd'. subst d'. cbn [existsb reply_before] in He.
        apply existsb_exists in He. destruct He as [x [Hx Hr]]. rewrite forallb_forall in Hse. specialize (Hse x Hx).
        destruct x; cbn [reply_before time_of] in *; try discriminate. lia. }
      unfold kping in E1. cbn [coll cpc await deadline] in E1. rewrite Hc, Haf in E1. cbn [andb] in E1.
      inversion E1. subst s1 o1. split; [reflexivity|].
      refine (IH _ s2 o2 _ Hnp Hnf _ Hs Hp Ha E2); [reflexivity|]. cbn [await deadline]. intros _. exists (d + ka). split; [reflexivity|].
      cbn [forallb] in Hao. apply andb_true_iff in Hao. apply Hao.
    + (* PingResp *) inversion E1. subst. split; [reflexivity|]. refine (IH _ s2 o2 _ Hnp Hnf _ Hs Hp Ha E2); [exact Hc|]. cbn [await]. discriminate.
    + (* Other *) inversion E1. subst. apply Hkeep; auto.
    + (* Resolved *) inversion E1. subst. cbn [app]. split; [reflexivity|].
      refine (IH _ s2 o2 _ Hnp Hnf _ Hs Hp Ha E2); [first [exact Hc | reflexivity]|]. cbn [await deadline]. intros Ha1. destruct (Hinv Ha1) as [d [Hd He]].
      exists d. split; [exact Hd|]. cbn [existsb reply_before] in He. exact He.
Qed.

(** ---- keep-alive zero *)
Theorem ka_zero tr : forall s s' outs, deadline s = None -> krun 0 s tr = (s', outs) -> outs = [] /\ deadline s' = None.
Proof.
  induction tr as [| e tr IH]; intros s s' outs Hd Hr.
  - cbn in Hr. inversion Hr. subst. auto.
  - rewrite krun_cons in Hr. destruct (kstep 0 s e) as [s1 o1] eqn:E1. destruct (krun 0 s1 tr) as [s2 o2] eqn:E2.
    assert (H1 : o1 = [] /\ deadline s1 = None).
    { destruct e; unfold kstep in E1; cbn [kstep_gen andb] in E1; rewrite ?Hd in E1; inversion E1; subst; auto. }
    destruct H1 as [Ho1 Hd1]. destruct (IH s1 s2 o2 Hd1 E2) as [Ho2 Hd2].
    inversion Hr. subst. auto.
Qed.

(** ---- a new connection starts from scratch whatever state the previous one ended in: clean()
    (run by every failure) drops the timer and clears the outstanding-ping flag, so the
    no-false-alarm theorem holds on every connection of a run *)
Lemma fresh_connection ka s t0 c : 0 < ka ->
  fst (kstep ka (fst (kstep ka s (ConnFail t0))) (Connect c)) = mkK (Some (c + ka)) false false 0.
Proof.
  intros Hka. unfold kstep. cbn [kstep_gen kclean fst deadline await coll cpc andb].
  destruct (N.eqb_spec ka 0); [lia|reflexivity].
Qed.

Lemma error_is_clean s t : is_err (snd (kping s t)) = true -> fst (kping s t) = kclean s.
Proof.
  unfold kping. destruct (coll s && (2 <=? (if coll s then cpc s + 1 else cpc s))); [reflexivity|].
  destruct (await s); [reflexivity|]. cbn. discriminate.
Qed.

Theorem ka_no_false_alarm_after_reconnect ka s t0 c tr s' outs : 0 < ka ->
  existsb is_parked tr = false -> existsb is_fail tr = false ->
  sorted tr = true ->
  prompt ka (fst (kstep ka (fst (kstep ka s (ConnFail t0))) (Connect c))) tr = true ->
  answered ka (fst (kstep ka (fst (kstep ka s (ConnFail t0))) (Connect c))) tr = true ->
  krun ka (fst (kstep ka (fst (kstep ka s (ConnFail t0))) (Connect c))) tr = (s', outs) -> no_err outs = true.
Proof.
  intros Hka Hnp Hnf Hs Hp Ha Hr. rewrite (fresh_connection ka s t0 c Hka) in *.
  apply (ka_no_false_alarm ka tr (mkK (Some (c + ka)) false false 0) s' outs); auto. cbn [await]. discriminate.
Qed.

(** the previous connection ended with a PINGREQ unanswered (the half-open detection itself), the
    next one answers at once: three clean round trips, no error *)
Example ex_reconnect_after_await :
  snd (krun 1000 kinit [Connect 0; Tick 1000; Tick 2000; Connect 2000; Tick 3000; PingResp 3000; Tick 4000; PingResp 4001; Tick 5000; PingResp 5500])
  = [PingReqAt 1000; ErrAwait 2000; PingReqAt 3000; PingReqAt 4000; PingReqAt 5000]
  /\ snd (krun 1000 kinit [Connect 0; Tick 1000; ConnFail 1500; Connect 1500; Tick 2500; PingResp 2600; Tick 3500])
  = [PingReqAt 1000; PingReqAt 2500; PingReqAt 3500].
Proof. vm_compute. split; reflexivity. Qed.

(** ---- connect timeout *)
Theorem connect_timeout tm h :
  (h = None \/ (exists x, h = Some x /\ tm < x)) -> poll_connect tm h = NetworkTimeout tm.
Proof.
  intros [-> | [x [-> Hx]]]; cbn [poll_connect]; [reflexivity|]. destruct (N.ltb_spec x tm); [lia|reflexivity].
Qed.

Theorem connect_in_time tm x : x < tm -> poll_connect tm (Some x) = Connected x.
Proof. intros H. cbn [poll_connect]. destruct (N.ltb_spec x tm); [reflexivity|lia]. Qed.

(** ---- CollisionTimeout is a different error and needs a parked collision *)
Theorem collision_timeout_distinct ka tr : forall s s' outs t,
  coll s = false -> existsb is_parked tr = false -> krun ka s tr = (s', outs) -> ~ In (ErrCollision t) outs.
Proof.
  induction tr as [| e tr IH]; intros s s' outs t Hc Hnp Hr Hin.
  - cbn in Hr. inversion Hr. subst. destruct Hin.
  - cbn [existsb] in Hnp. apply orb_false_iff in Hnp. destruct Hnp as [Hne Hnp].
    rewrite krun_cons in Hr. destruct (kstep ka s e) as [s1 o1] eqn:E1. destruct (krun ka s1 tr) as [s2 o2] eqn:E2.
    assert (Eo : outs = o1 ++ o2) by (inversion Hr; reflexivity). rewrite Eo in Hin. clear Hr Eo. apply in_app_or in Hin.
    assert (H1 : coll s1 = false /\ ~ In (ErrCollision t) o1).
    { destruct e; cbn [is_parked] in Hne; try discriminate; unfold kstep in E1; cbn [kstep_gen andb] in E1.
      - inversion E1. subst. cbn. auto.
      - destruct (deadline s); [destruct (_ <=? _)|]; try (inversion E1; subst; cbn; auto; fail).
        unfold kping in E1. cbn [coll cpc await deadline] in E1. rewrite Hc in E1. cbn [andb] in E1.
        destruct (await s); inversion E1; subst; cbn; split; auto; intros [H | []]; discriminate.
      - inversion E1. subst. cbn. auto.
      - inversion E1. subst. cbn. auto.
      - inversion E1. subst. cbn. auto.
      - inversion E1. subst. cbn. auto. }
    destruct H1 as [Hc1 Hn1]. destruct Hin as [Hin | Hin]; [exact (Hn1 Hin)|].
    exact (IH s1 s2 o2 t Hc1 Hnp E2 Hin).
Qed.

(** ---- non-vacuity and the carve-out, on concrete traces (ka = 1000 ms, connected at 50) *)
Example ex_period :
  let tr := [Other 400; Tick 1050; PingResp 1300; Other 1900; Tick 2050; Other 2050; PingResp 2051; Tick 3050; PingResp 3500] in
  prompt 1000 (fst (kstep 1000 kinit (Connect 50))) tr = true /\ sorted tr = true /\
  answered 1000 (fst (kstep 1000 kinit (Connect 50))) tr = true /\
  snd (krun 1000 (fst (kstep 1000 kinit (Connect 50))) tr) = [PingReqAt 1050; PingReqAt 2050; PingReqAt 3050].
Proof. vm_compute. repeat split. Qed.

Example ex_detect :
  let tr := [Tick 1050; PingResp 1300; Tick 2050; Other 2500; Tick 3050] in
  snd (krun 1000 (fst (kstep 1000 kinit (Connect 50))) tr) = [PingReqAt 1050; PingReqAt 2050; ErrAwait 3050].
Proof. vm_compute. reflexivity. Qed.

(** a reply processed at exactly t + ka is too late if the timer arm runs first, in time if the
    read arm runs first: the model leaves that order to the trace (tokio's select! picks) *)
Example ex_reply_at_exactly_ka :
  snd (krun 1000 (fst (kstep 1000 kinit (Connect 0))) [Tick 1000; Tick 2000; PingResp 2000]) = [PingReqAt 1000; ErrAwait 2000]
  /\ snd (krun 1000 (fst (kstep 1000 kinit (Connect 0))) [Tick 1000; PingResp 2000; Tick 2000]) = [PingReqAt 1000; PingReqAt 2000].
Proof. vm_compute. split; reflexivity. Qed.

(** the carve-out: every PINGREQ is answered at once, yet a collision parked across two timer
    firings ends the connection with CollisionTimeout *)
Example ex_collision_timeout :
  let tr := [Parked 100; Tick 1000; PingResp 1001; Tick 2000] in
  answered 1000 (fst (kstep 1000 kinit (Connect 0))) tr = true /\
  snd (krun 1000 (fst (kstep 1000 kinit (Connect 0))) tr) = [PingReqAt 1000; ErrCollision 2000].
Proof. vm_compute. split; reflexivity. Qed.

(** late polling is outside the hypothesis: the timer is reset to NOW + ka when the arm runs, so a
    poll that comes 300 ms late shifts every later PINGREQ by 300 ms (gap 1300 > ka) *)
Example ex_late_poll_shifts_period :
  prompt 1000 (fst (kstep 1000 kinit (Connect 0))) [Tick 1300; Tick 2300] = false /\
  snd (krun 1000 (fst (kstep 1000 kinit (Connect 0))) [Tick 1300; PingResp 1400; Tick 2000; Tick 2300]) = [PingReqAt 1300; PingReqAt 2300].
Proof. vm_compute. split; reflexivity. Qed.

(** F32 (v5, before the fix: commit 30fc7fa): the server assigns keep alive 0; the unguarded timer
    fires at once, twice, and the fresh connection is reported dead — with the guard: no ping, no error *)
Lemma v5_server_ka_zero_refuted :
  snd (krun_v5_orig 0 kinit [Connect 0; Tick 0; Tick 0]) = [PingReqAt 0; ErrAwait 0]
  /\ snd (krun 0 kinit [Connect 0; Tick 0; Tick 0; Tick 100000]) = [].
Proof. vm_compute. split; reflexivity. Qed.

(** ---- tie to M-CLIENT: [MqttState::outgoing_ping] is [kping] *)
Definition kabs (d : option N) (s : state) : kstate :=
  mkK d (await_pingresp s) (is_some (collision s)) (collision_ping_count s).

Theorem outgoing_ping_is_kping s d t :
  match outgoing_ping s with
  | Ok (s', Some PPingReq) => kping (kabs d s) t = (kabs d s', PingReqAt t)
  | Err (_, EAwaitPingResp) => snd (kping (kabs d s) t) = ErrAwait t
  | Err (_, ECollisionTimeout) => snd (kping (kabs d s) t) = ErrCollision t
  | _ => False
  end.
Proof.
  unfold outgoing_ping, kping, kabs. cbn [coll cpc await deadline].
  destruct (collision s) as [c|] eqn:Ec; cbn [is_some andb].
  - cbn [collision_ping_count set_cpc]. destruct (2 <=? collision_ping_count s + 1) eqn:E2; cbn [bind].
    + reflexivity.
    + cbn [await_pingresp set_cpc]. destruct (await_pingresp s) eqn:Ea; [reflexivity|].
      cbn [push_event set_await set_events set_cpc await_pingresp collision collision_ping_count is_some]. rewrite Ec. reflexivity.
  - cbn [bind]. destruct (await_pingresp s) eqn:Ea; [reflexivity|].
    cbn [push_event set_await set_events await_pingresp collision collision_ping_count is_some]. rewrite Ec. reflexivity.
Qed.

(** other traffic cannot influence the outstanding-ping flag: only a ping, a PINGRESP or clean() writes it *)
Ltac crushk H :=
  repeat (cbn [bind res_state] in H; sproj;
          match type of H with
          | context [match ?x with _ => _ end] => destruct x eqn:?
          end);
  cbn [bind res_state] in H; sproj; try discriminate; try (inversion H; subst; sproj; reflexivity).

Lemma check_collision_await s id s0 o : check_collision s id = (s0, o) -> await_pingresp s0 = await_pingresp s.
Proof.
  unfold check_collision. destruct (collision s); [destruct (_ =? _)|]; intros H; inversion H; reflexivity.
Qed.

Lemma await_out s r s' : r <> RPingReq -> res_state (handle_outgoing_packet s r) = Some s' -> await_pingresp s' = await_pingresp s.
Proof.
  intros Hr H. destruct r; try congruence;
    unfold handle_outgoing_packet, outgoing_publish, place_publish, outgoing_pubrel, outgoing_puback, outgoing_pubrec,
      outgoing_subscribe, outgoing_unsubscribe, outgoing_disconnect, next_pkid, pub_store, rel_set, inflight_inc in H;
    crushk H.
Qed.

Lemma await_in s pk s' : pk <> PPingResp -> res_state (handle_incoming_packet s pk) = Some s' -> await_pingresp s' = await_pingresp s.
Proof.
  intros Hp H. destruct pk; try congruence;
    unfold handle_incoming_packet, handle_incoming_publish, handle_incoming_puback, handle_incoming_pubrec,
      handle_incoming_pubrel, handle_incoming_pubcomp, resend_collided, outgoing_puback, outgoing_pubrec,
      pub_store, rel_set, inflight_inc, inflight_dec in H;
    crushk H.
  all: match goal with E : check_collision ?x _ = (_, _) |- _ => pose proof (check_collision_await _ _ _ _ E) as Hm end;
       inversion H; subst; sproj; exact Hm.
Qed.

Theorem other_traffic_keeps_await s o s' :
  o <> Out RPingReq -> o <> Inc PPingResp -> o <> Clean ->
  next step s o = Some s' -> await_pingresp s' = await_pingresp s.
Proof.
  intros H1 H2 H3 H. destruct o as [r | pk |]; [| |congruence].
  - rewrite next_out in H. apply (await_out s r s'); [congruence|exact H].
  - rewrite next_inc in H. apply (await_in s pk s'); [congruence|exact H].
Qed.

Theorem pingresp_clears_await s : exists s', step s (Inc PPingResp) = Ok (s', Wrote None) /\ await_pingresp s' = false.
Proof. eexists. split; reflexivity. Qed.

(** the keep-alive arm does not wait for flow control.  The model has no inflight field at all: the
    guard of the timer arm in select() is `keepalive_timeout.is_some() && !keep_alive.is_zero()` and
    [outgoing_ping] reads neither `inflight` nor `max_inflight`, so what a Tick does is a function of
    (deadline, await, coll, cpc) only — the full window is tied to the real loop by the scenarios
    "full1" / "full2" (tools/comp_client.py).  For the parked collision, which the model has: at an
    expired deadline the arm ALWAYS produces something at that instant — a PINGREQ or an error,
    never silence — and a collision changes the outcome only as CollisionTimeout, only from the
    second firing on; the first firing with a collision parked behaves exactly as without one *)
Theorem ka_independent_of_window ka s t d : deadline s = Some d -> d <= t ->
  (exists s' o, kstep ka s (Tick t) = (s', [o]) /\ ping_time o = t /\
     (o = ErrCollision t <-> coll s = true /\ 1 <= cpc s)) /\
  (forall c n, c = false \/ n = 0 ->
     snd (kstep ka (mkK (deadline s) (await s) c n) (Tick t)) = [if await s then ErrAwait t else PingReqAt t]).
Proof.
  intros Hd Hle. split.
  - unfold kstep. cbn [kstep_gen]. rewrite Hd. destruct (N.leb_spec d t) as [_|]; [|lia].
    unfold kping. cbn [coll await cpc deadline].
    destruct (coll s) eqn:Ec; cbn [andb].
    + destruct (N.leb_spec 2 (cpc s + 1)) as [H2 | H2].
      * eexists _, _. split; [reflexivity|]. split; [reflexivity|]. split; [intros _; split; [reflexivity|lia]|reflexivity].
      * destruct (await s); eexists _, _; (split; [reflexivity|]); (split; [reflexivity|]); (split; [discriminate|intros [_ H]; lia]).
    + destruct (await s); eexists _, _; (split; [reflexivity|]); (split; [reflexivity|]); (split; [discriminate|intros [H _]; discriminate]).
  - intros c n Hcn. unfold kstep. cbn [kstep_gen deadline]. rewrite Hd. destruct (N.leb_spec d t) as [_|]; [|lia].
    unfold kping. cbn [coll await cpc deadline].
    destruct Hcn as [-> | ->].
    + cbn [andb]. destruct (await s); reflexivity.
    + destruct c; cbn [andb]; [change (2 <=? 0 + 1) with false; cbn iota|]; destruct (await s); reflexivity.
Qed.
