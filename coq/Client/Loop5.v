(** M-LOOP (v5): the part of [rumqttc::v5::EventLoop] (rumqttc/src/v5/eventloop.rs) that is logic, as
    a pure model over the v5 state machine (Client/State5.v).  Same op language as Client/Loop.v
    (the v4 loop); the ops, the select() guard, [next_request], the read batch, [clean] are the same
    code in the Rust.  What differs in the v5 loop:

      Reconnect5 sp rm tam   poll() with no network: connect; pending.clear() iff !session_present;
                     network = Some; THEN the CONNACK (session_present, receive_maximum rm,
                     topic_alias_maximum tam) is handed to the state machine
                     ([handle_incoming_packet(ConnAck)]: the negotiated limit is taken over at EVERY
                     CONNACK) and its notification is QUEUED behind whatever notifications the
                     previous connection left unread (v4 returns it at once, in front of them);
                     poll() then goes on into select(), which pops the oldest queued notification.
                     A CONNACK the state machine refuses (receive_maximum 0: commit b2fc5b9, F37)
                     ends the connection attempt: clean() runs (network = None, pending rebuilt as
                     for any failure; pending.clear() for !session_present has already happened) and
                     poll() returns the error; the next poll() reconnects (fix: commit 6b2911f, F38).
                     Before it poll() returned the error through `?` BEFORE select(): clean() did NOT
                     run, the connection stayed up and the next poll() used it ([lstep5_keep]).
      errors         a v5 state error, or the connection ending inside/after a read batch
                     ([LE5Aborted]); DISCONNECT from the server is a state error (E5ServerDisconnect)
                     raised by the read batch like any other.

    The select arms only run when the notification queue is empty.  An op that is not enabled leaves
    the loop unchanged ([Disabled5]).  Not modelled: as in Client/Loop.v.  No proofs here. *)
From Rumqtt Require Export Client.State5.

Record lstate5 := mkLoop5 {
  st5 : state5;
  pending5 : list request5;     (* EventLoop.pending *)
  chan5 : list request5;        (* requests_rx contents, FIFO *)
  connected5 : bool;            (* network.is_some() *)
  wire5 : list packet5;         (* packets flushed to the transport on the current connection *)
  yielded5 : list event5 }.     (* what poll() has returned so far (Ok values), in order *)

Inductive lop5 :=
| UserSend5 (r : request5)
| Yield5
| TakeRequest5
| TakeCancelled5
| Net5 (pkts : list packet5)
| NetAbort5 (pkts : list packet5)
| KeepAliveFire5
| Fail5
| Reconnect5 (session_present : bool) (receive_max topic_alias_max : option N).

Inductive lerr5 := LE5State (e : error5) | LE5Aborted.

Inductive lres5 := Stepped5 (l : lstate5) | Failed5 (l : lstate5) (e : lerr5) | Disabled5 | LPanic5 (tag : N).

Definition linit5 (max : N) (manual : bool) : lstate5 :=
  mkLoop5 (init5 max manual) [] [] false [] [].

Definition with_st5 (l : lstate5) (s : state5) := mkLoop5 s (pending5 l) (chan5 l) (connected5 l) (wire5 l) (yielded5 l).
Definition with_wire5 (l : lstate5) (w : list packet5) := mkLoop5 (st5 l) (pending5 l) (chan5 l) (connected5 l) w (yielded5 l).

Definition not_puback5 (r : request5) : bool := match r with R5PubAck _ => false | _ => true end.

(** [EventLoop::clean]: drop the network; the state's pending work, then what was still pending,
    then the channel's requests (minus PubAcks) *)
Definition loop_clean5 (l : lstate5) : lstate5 :=
  let (s', reqs) := clean5 (st5 l) in
  mkLoop5 s' (reqs ++ pending5 l ++ filter not_puback5 (chan5 l)) [] false (wire5 l) (yielded5 l).

(** before commit 0960300 *)
Definition loop_clean5_orig (l : lstate5) : lstate5 :=
  let (s', reqs) := clean5 (st5 l) in
  mkLoop5 s' (pending5 l ++ reqs ++ filter not_puback5 (chan5 l)) [] false (wire5 l) (yielded5 l).

(** the flow-control guard of the request arm, as written in select(): the limit is the one
    negotiated at the last CONNACK ([max_outgoing_inflight]) *)
Definition inflight_full5 (l : lstate5) : bool := s5_max (st5 l) <=? s5_inflight (st5 l).
Definition take_enabled5 (l : lstate5) : bool :=
  connected5 l && match s5_events (st5 l) with [] => true | _ => false end &&
  (negb (inflight_full5 l) && negb (is_some (s5_collision (st5 l)))) &&
  negb (match pending5 l, chan5 l with [], [] => true | _, _ => false end).

(** before commit a6a5e44 *)
Definition take_enabled5_orig (l : lstate5) : bool :=
  connected5 l && match s5_events (st5 l) with [] => true | _ => false end &&
  (negb (match pending5 l with [] => true | _ => false end)
   || (negb (inflight_full5 l) && negb (is_some (s5_collision (st5 l))))) &&
  negb (match pending5 l, chan5 l with [], [] => true | _, _ => false end).

(** [next_request]: pending first *)
Definition next_request5 (l : lstate5) : option (request5 * lstate5) :=
  match pending5 l with
  | r :: rest => Some (r, mkLoop5 (st5 l) rest (chan5 l) (connected5 l) (wire5 l) (yielded5 l))
  | [] => match chan5 l with
          | r :: rest => Some (r, mkLoop5 (st5 l) [] rest (connected5 l) (wire5 l) (yielded5 l))
          | [] => None
          end
  end.

(** [readb] (v5/framed.rs, the same loop as v4): at most [max_readb_count - 1] packets per call *)
Definition max_readb_count5 : nat := 10.
Definition readb_take5 (inbox : list packet5) : list packet5 * list packet5 :=
  (firstn (max_readb_count5 - 1) inbox, skipn (max_readb_count5 - 1) inbox).

(** [readb]: the packets of one batch, replies buffered *)
Fixpoint read_batch5 (s : state5) (pkts : list packet5) (buf : list packet5) : Outcome (state5 * error5) (state5 * list packet5) :=
  match pkts with
  | [] => Ok (s, buf)
  | pk :: rest =>
      match handle_incoming_packet5 s pk with
      | Ok (s', Some reply) => read_batch5 s' rest (buf ++ [reply])
      | Ok (s', None) => read_batch5 s' rest buf
      | Err e => Err e
      | Panic t => Panic t
      end
  end.

Definition arm_ready5 (l : lstate5) : bool :=
  connected5 l && match s5_events (st5 l) with [] => true | _ => false end.

Definition lstep5_gen (te : lstate5 -> bool) (lc : lstate5 -> lstate5) (refused_closes : bool) (l : lstate5) (o : lop5) : lres5 :=
  let fail_with (l : lstate5) (e : lerr5) := Failed5 (lc l) e in
  match o with
  | UserSend5 r => Stepped5 (mkLoop5 (st5 l) (pending5 l) (chan5 l ++ [r]) (connected5 l) (wire5 l) (yielded5 l))
  | Yield5 =>
      match s5_events (st5 l) with
      | e :: rest => Stepped5 (mkLoop5 (u_events (st5 l) rest) (pending5 l) (chan5 l) (connected5 l) (wire5 l) (yielded5 l ++ [e]))
      | [] => Disabled5
      end
  | TakeRequest5 =>
      if te l then
        match next_request5 l with
        | Some (r, l1) =>
            match handle_outgoing_packet5 (st5 l1) r with
            | Ok (s', Some pk) => Stepped5 (with_wire5 (with_st5 l1 s') (wire5 l1 ++ [pk]))
            | Ok (s', None) => Stepped5 (with_st5 l1 s')
            | Err (s', e) => fail_with (with_st5 l1 s') (LE5State e)
            | Panic t => LPanic5 t
            end
        | None => Disabled5
        end
      else Disabled5
  | TakeCancelled5 => Stepped5 l
  | Net5 pkts =>
      if arm_ready5 l && negb (match pkts with [] => true | _ => false end) then
        match read_batch5 (st5 l) pkts [] with
        | Ok (s', replies) => Stepped5 (with_wire5 (with_st5 l s') (wire5 l ++ replies))
        | Err (s', e) => fail_with (with_st5 l s') (LE5State e)
        | Panic t => LPanic5 t
        end
      else Disabled5
  | NetAbort5 pkts =>
      if arm_ready5 l then
        match read_batch5 (st5 l) pkts [] with
        | Ok (s', _) => fail_with (with_st5 l s') LE5Aborted
        | Err (s', e) => fail_with (with_st5 l s') (LE5State e)
        | Panic t => LPanic5 t
        end
      else Disabled5
  | KeepAliveFire5 =>
      if arm_ready5 l then
        match handle_outgoing_packet5 (st5 l) R5PingReq with
        | Ok (s', Some pk) => Stepped5 (with_wire5 (with_st5 l s') (wire5 l ++ [pk]))
        | Ok (s', None) => Stepped5 (with_st5 l s')
        | Err (s', e) => fail_with (with_st5 l s') (LE5State e)
        | Panic t => LPanic5 t
        end
      else Disabled5
  | Fail5 => if connected5 l then Stepped5 (lc l) else Disabled5
  | Reconnect5 sp rm tam =>
      if connected5 l then Disabled5
      else
        let l1 := mkLoop5 (st5 l) (if sp then pending5 l else []) (chan5 l) true [] (yielded5 l) in
        match handle_incoming_packet5 (st5 l) (P5ConnAck sp 0 rm tam) with
        | Ok (s', _) => Stepped5 (with_st5 l1 s')
        | Err (s', e) =>
            if refused_closes then fail_with (with_st5 l1 s') (LE5State e)
            else Failed5 (with_st5 l1 s') (LE5State e)      (* before commit 6b2911f: no clean(), the connection stays *)
        | Panic t => LPanic5 t
        end
  end.

Definition lstep5 := lstep5_gen take_enabled5 loop_clean5 true.
(** before commit 6b2911f only (F38) *)
Definition lstep5_keep := lstep5_gen take_enabled5 loop_clean5 false.
(** before commits a6a5e44, 0960300 and 6b2911f *)
Definition lstep5_orig := lstep5_gen take_enabled5_orig loop_clean5_orig false.

Definition lnext5_gen (stp : lstate5 -> lop5 -> lres5) (l : lstate5) (o : lop5) : option lstate5 :=
  match stp l o with
  | Stepped5 l' => Some l'
  | Failed5 l' _ => Some l'
  | Disabled5 => Some l
  | LPanic5 _ => None
  end.

Definition lnext5 := lnext5_gen lstep5.

Fixpoint lrun5_gen (stp : lstate5 -> lop5 -> lres5) (l : lstate5) (h : list lop5) : option lstate5 :=
  match h with
  | [] => Some l
  | o :: r => match lnext5_gen stp l o with Some l' => lrun5_gen stp l' r | None => None end
  end.
Definition lrun5 := lrun5_gen lstep5.
Definition lrun5_orig := lrun5_gen lstep5_orig.
