(** C02 / C07(d,e) at the state-machine level: what the client holds ([held]), that accepted
    publishes enter it, that only the broker's final acknowledgement takes anything out of it,
    that [clean] hands all of it back, and that an id is put on the wire only while free. *)
From Coq Require Import Arith ZifyBool ZifyN ZifyNat Permutation.
From Rumqtt Require Import Client.VecLemmas Client.Run4 Client.Inv4 Client.Eff4.

(** everything the state machine owes: unacknowledged publishes, pending releases, the publish
    parked on a collision *)
Definition parked (s : state) : list request :=
  match collision s with Some p => [RPublish p] | None => [] end.
Definition held (s : state) : list request :=
  map RPublish (somes (outgoing_pub s)) ++ map RPubRel (ones (outgoing_rel s)) ++ parked s.

Definition holds (s : state) (r : request) : Prop :=
  match r with
  | RPublish p => vget (outgoing_pub s) (p_pkid p) = Some (Some p) \/ collision s = Some p
  | RPubRel i => bit (outgoing_rel s) i = true
  | _ => False
  end.

Lemma in_held s r : Inv s -> (In r (held s) <-> holds s r).
Proof.
  intros I. unfold held, parked. rewrite !in_app_iff, !in_map_iff. split.
  - intros [[p [<- Hp]] | [[i [<- Hi]] | Hc]].
    + apply somes_in in Hp. destruct Hp as [k Hk]. left.
      assert (Hv : vget (outgoing_pub s) (N.of_nat k) = Some (Some p)) by (unfold vget, idx; rewrite Nat2N.id; exact Hk).
      destruct (i_slot s I _ _ Hv) as [E _]. rewrite E. exact Hv.
    + apply ones_in. exact Hi.
    + destruct (collision s) as [q|] eqn:E; [|destruct Hc]. destruct Hc as [<- | []]. right. exact E.
  - destruct r; cbn [holds]; try tauto.
    + intros [Hv | Hc].
      * left. exists p. split; [reflexivity|]. apply somes_in. exists (idx (p_pkid p)). exact Hv.
      * right. right. rewrite Hc. left. reflexivity.
    + intros Hb. right. left. exists id. split; [reflexivity|]. apply ones_in. exact Hb.
Qed.

Lemma holds_slots_eq s s' r : slots_eq s s' -> holds s r -> holds s' r.
Proof. intros [Hp [Hr [Hc _]]] H. destruct r; cbn [holds] in *; rewrite ?Hp, ?Hr, ?Hc; exact H. Qed.

(** ---- clean hands back everything that is held *)
Lemma somes_rotate {A} (l : list (option A)) k : Permutation (somes (skipn k l ++ firstn k l)) (somes l).
Proof.
  rewrite somes_app. rewrite <- (firstn_skipn k l) at 3. rewrite somes_app. apply Permutation_app_comm.
Qed.

Theorem clean_returns_held s : Inv s ->
  exists s' l, clean s = Ok (s', l) /\ Permutation l (held s) /\ held s' = [] /\ Inv s'.
Proof.
  intros I. pose proof (clean_inv s I) as H. unfold clean in *.
  destruct (Nat.ltb (length (outgoing_pub s)) (S (idx (last_puback s)))); [contradiction|].
  cbv zeta in *. eexists. eexists. split; [reflexivity|]. split; [|split; [|apply H]].
  - unfold held, parked. apply Permutation_app; [|apply Permutation_refl].
    apply Permutation_map. apply somes_rotate.
  - unfold held, parked. sproj. rewrite somes_repeat_none. cbn [map app].
    assert (E : ones (repeat false (length (outgoing_rel s))) = []).
    { destruct (ones _) as [| x t] eqn:Eo; [reflexivity|]. exfalso.
      assert (Hin : In x (ones (repeat false (length (outgoing_rel s))))) by (rewrite Eo; left; reflexivity).
      apply ones_in in Hin. rewrite bit_repeat_false in Hin. discriminate. }
    rewrite E. reflexivity.
Qed.

(** ---- an accepted QoS>0 publish is held (written and recorded, or parked) *)
Theorem accept_held s p s' rep :
  Inv s -> op_ok s (Out (RPublish p)) = true -> p_qos p <> Q0 ->
  handle_outgoing_packet s (RPublish p) = Ok (s', rep) ->
  exists id, 1 <= id <= max_inflight s /\ (p_pkid p <> 0 -> id = p_pkid p) /\
    holds s' (RPublish (with_pkid p id)) /\
    ((rep = Some (PPublish (with_pkid p id)) /\ busy s id = false /\
      vget (outgoing_pub s') id = Some (Some (with_pkid p id)))
     \/ (rep = None /\ collision s' = Some (with_pkid p id) /\ busy s id = true)).
Proof.
  intros I Hok Hq H. cbn [handle_outgoing_packet] in H. unfold outgoing_publish in H.
  assert (Hc : collision s = None).
  { cbn [op_ok] in Hok. destruct (p_qos p); [congruence| |]; destruct (collision s); cbn in Hok; congruence. }
  assert (Hgo : forall s1 p1 id, Inv s1 -> collision s1 = None -> p_pkid p1 = id -> 1 <= id -> p_qos p1 <> Q0 ->
            outgoing_pub s1 = outgoing_pub s -> outgoing_rel s1 = outgoing_rel s -> max_inflight s1 = max_inflight s ->
            p1 = with_pkid p id ->
            place_publish s1 p1 = Ok (s', rep) ->
            1 <= id <= max_inflight s /\ holds s' (RPublish (with_pkid p id)) /\
            ((rep = Some (PPublish (with_pkid p id)) /\ busy s id = false /\
              vget (outgoing_pub s') id = Some (Some (with_pkid p id)))
             \/ (rep = None /\ collision s' = Some (with_pkid p id) /\ busy s id = true))).
  { intros s1 p1 id I1 Hc1 Hid H1 Hq1 Hp Hr Hm Hp1 Hpl. subst id.
    assert (Hbusy : busy s1 (p_pkid p1) = busy s (p_pkid p1)) by (unfold busy; rewrite Hp, Hr; reflexivity).
    destruct (place_publish_eff s1 p1 I1 Hc1 H1 Hq1) as [[_ He] | [[Hle [Hb He]] | [Hle [Hb [l [Hl He]]]]]];
      rewrite He in Hpl; inversion Hpl; subst s' rep; clear Hpl.
    - split; [lia|]. split; [cbn [holds]; right; sproj; congruence|]. right. sproj. rewrite <- Hbusy. repeat split; congruence.
    - assert (Hv : vget l (p_pkid p1) = Some (Some p1)) by (eapply vget_vset_same; eauto).
      split; [lia|]. split; [|left; rewrite <- Hbusy; split; [congruence|split; [exact Hb|sproj; congruence]]].
      cbn [holds]. left. sproj. rewrite <- Hp1. exact Hv. }
  destruct (p_qos p) eqn:Eq; [congruence| |].
  all: destruct (N.eqb_spec (p_pkid p) 0) as [E0 | E0].
  all: try (destruct (next_pkid_spec s I) as [v [Hn [Hv Hid]]]; rewrite Hn in H; cbn [bind] in H;
            exists (last_pkid s + 1); split; [lia|]; split; [intros; congruence|];
            eapply (Hgo (set_last_pkid s v) (with_pkid p (last_pkid s + 1)) (last_pkid s + 1)); eauto;
            [apply inv_set_last_pkid; assumption | lia | cbn [p_qos with_pkid]; congruence]).
  all: exists (p_pkid p); assert (E : p = with_pkid p (p_pkid p)) by (destruct p; reflexivity);
       assert (G := Hgo s p (p_pkid p) I Hc eq_refl ltac:(lia) ltac:(congruence) eq_refl eq_refl eq_refl E H);
       destruct G as [G1 G2]; split; [exact G1|]; split; [reflexivity|exact G2].
Qed.

(** ---- nothing held disappears except by the broker's final acknowledgement *)
Definition final_ack (o : op) (r : request) : Prop :=
  match o, r with
  | Inc (PPubAck i), RPublish p => p_pkid p = i
  | Inc (PPubComp i), RPubRel j => i = j
  | _, _ => False
  end.

(** PUBREC turns an unacknowledged publish into a pending release of the same id *)
Definition moved_to_release (o : op) (r : request) (s' : state) : Prop :=
  match o, r with
  | Inc (PPubRec i), RPublish p => p_pkid p = i /\ holds s' (RPubRel i)
  | _, _ => False
  end.

Lemma next_out s r : next step s (Out r) = res_state (handle_outgoing_packet s r).
Proof. unfold next. cbn [step]. destruct (handle_outgoing_packet s r) as [[? ?] | [? ?] | ?]; reflexivity. Qed.
Lemma next_inc s pk : next step s (Inc pk) = res_state (handle_incoming_packet s pk).
Proof. unfold next. cbn [step]. destruct (handle_incoming_packet s pk) as [[? ?] | [? ?] | ?]; reflexivity. Qed.

(** monotone change of the slots keeps what is held *)
Lemma holds_mono s s' r :
  (forall j x, vget (outgoing_pub s) j = Some (Some x) -> vget (outgoing_pub s') j = Some (Some x)) ->
  (forall j, bit (outgoing_rel s) j = true -> bit (outgoing_rel s') j = true) ->
  (forall q, collision s = Some q -> collision s' = Some q \/ vget (outgoing_pub s') (p_pkid q) = Some (Some q)) ->
  holds s r -> holds s' r.
Proof.
  intros Hp Hr Hc H. destruct r; cbn [holds] in *; auto.
  destruct H as [H | H]; [left; auto|]. destruct (Hc p H); auto.
Qed.

(** the shared tail: after id [id] was freed in [s1] *)
Lemma ack_tail_keeps s1 id s2 :
  Inv (set_collision s1 None) -> 1 <= id ->
  vget (outgoing_pub s1) id = Some None -> bit (outgoing_rel s1) id = false ->
  (forall q, collision s1 = Some q -> p_qos q <> Q0) ->
  res_state (ack_tail s1 id) = Some s2 ->
  (forall r, holds s1 r -> holds s2 r) /\
  (forall j, j <> id -> busy s2 j = busy s1 j) /\ max_inflight s2 = max_inflight s1 /\
  outgoing_rel s2 = outgoing_rel s1.
Proof.
  intros I H1 Hfree Hrel Hq Hres.
  destruct (ack_tail_eff s1 id I H1 Hfree Hrel Hq) as [[q [l [Hc [Hid [Hl He]]]]] | [Hne He]];
    rewrite He in Hres; cbn [res_state] in Hres; inversion Hres; subst s2; clear Hres.
  - split; [|split; [|split; reflexivity]].
    + intros r. apply holds_mono; sproj.
      * intros j x Hj. rewrite (vget_vset _ _ _ j _ Hl). destruct (N.eqb_spec id j); [congruence|exact Hj].
      * auto.
      * intros q' Hq'. right. rewrite Hc in Hq'. inversion Hq'. subst q'. rewrite Hid. eapply vget_vset_same; eauto.
    + intros j Hj. unfold busy. sproj. rewrite (vget_vset_other _ _ _ _ _ Hl); auto.
  - split; [auto|]. split; [auto|split; reflexivity].
Qed.

Ltac fin Hn Hr := inversion Hn; subst; first [exact Hr | revert Hr; apply holds_slots_eq; repeat split].

Theorem keep_held s o s' : Inv s -> op_ok s o = true -> o <> Clean -> next step s o = Some s' ->
  forall r, holds s r -> holds s' r \/ final_ack o r \/ moved_to_release o r s'.
Proof.
  intros I Hok Hnc Hn r Hr. destruct o as [rq | pk |]; [| |congruence].
  - (* user request *)
    left. rewrite next_out in Hn. destruct rq; cbn [op_ok api_request] in Hok; try discriminate;
      cbn [handle_outgoing_packet] in Hn.
    + (* publish *)
      unfold outgoing_publish in Hn.
      destruct (p_qos p) eqn:Eq.
      { cbn [res_state] in Hn. fin Hn Hr. }
      all: assert (Hc : collision s = None) by (destruct (collision s); cbn in Hok; congruence).
      all: assert (Hgo : forall s1 p1, Inv s1 -> collision s1 = None -> 1 <= p_pkid p1 -> p_qos p1 <> Q0 ->
             slots_eq s s1 -> res_state (place_publish s1 p1) = Some s' -> holds s' r).
      1,3: intros s1 p1 I1 Hc1 H1 Hq1 Heq Hres; apply (holds_slots_eq _ _ _ Heq) in Hr;
           destruct (place_publish_eff s1 p1 I1 Hc1 H1 Hq1) as [[_ He] | [[Hle [Hb He]] | [Hle [Hb [l [Hl He]]]]]];
           rewrite He in Hres; cbn [res_state] in Hres; inversion Hres; subst s'; clear Hres;
           [ exact Hr
           | revert Hr; apply holds_mono; sproj; [auto | auto | intros q Hq'; congruence]
           | revert Hr; apply holds_mono; sproj;
             [ intros j x Hj; rewrite (vget_vset _ _ _ j _ Hl); destruct (N.eqb_spec (p_pkid p1) j); [|exact Hj];
               subst j; unfold busy in Hb; rewrite Hj in Hb; discriminate
             | auto
             | intros q Hq'; congruence ] ].
      all: destruct (N.eqb_spec (p_pkid p) 0) as [E0 | E0].
      all: try (destruct (next_pkid_spec s I) as [v [Hnp [Hv Hid]]]; rewrite Hnp in Hn; cbn [bind] in Hn;
                apply (Hgo (set_last_pkid s v) (with_pkid p (last_pkid s + 1)));
                [apply inv_set_last_pkid; assumption|exact Hc|cbn [p_pkid with_pkid]; lia|cbn [p_qos with_pkid]; congruence
                |repeat split|exact Hn]).
      all: apply (Hgo s p); [exact I|exact Hc|lia|congruence|apply slots_eq_refl|exact Hn].
    + cbn [res_state outgoing_puback] in Hn. fin Hn Hr.
    + cbn [res_state outgoing_pubrec] in Hn. fin Hn Hr.
    + (* replayed release *)
      apply andb_true_iff in Hok. destruct Hok as [Hok Hb]. apply andb_true_iff in Hok. destruct Hok as [H1 H2].
      pose proof (outgoing_pubrel_inv s id I ltac:(lia) ltac:(lia) ltac:(destruct (busy s id); [discriminate|reflexivity])) as Hpost.
      unfold outgoing_pubrel in *. destruct (N.eqb_spec id 0); [lia|]. cbn [bind] in *. unfold rel_set, inflight_inc in *.
      destruct (vset (outgoing_rel s) id true) as [rl|] eqn:Hrl; cbn [bind] in *; [|contradiction]. sproj.
      destruct (inflight s =? U16_MAX); cbn [bind] in *; [contradiction|]. cbn [res_state] in Hn. inversion Hn. subst s'.
      revert Hr. apply holds_mono; sproj; auto.
      intros j Hj. rewrite (bit_vset _ _ _ j _ Hrl). destruct (id =? j); [reflexivity|exact Hj].
    + unfold outgoing_ping in Hn. destruct (is_some (collision s)); sproj.
      * destruct (2 <=? collision_ping_count s + 1); cbn [bind res_state] in Hn;
          [fin Hn Hr|].
        sproj. destruct (await_pingresp s); cbn [res_state] in Hn; fin Hn Hr.
      * cbn [bind] in Hn. destruct (await_pingresp s); cbn [res_state] in Hn; fin Hn Hr.
    + unfold outgoing_subscribe in Hn. destruct (n =? 0); [cbn [res_state] in Hn; congruence|].
      destruct (next_pkid_spec s I) as [v [Hnp _]]. rewrite Hnp in Hn. cbn [bind res_state] in Hn. fin Hn Hr.
    + unfold outgoing_unsubscribe in Hn.
      destruct (next_pkid_spec s I) as [v [Hnp _]]. rewrite Hnp in Hn. cbn [bind res_state] in Hn. fin Hn Hr.
    + cbn [res_state outgoing_disconnect] in Hn. fin Hn Hr.
  - (* packet from the broker *)
    rewrite next_inc in Hn. unfold handle_incoming_packet in Hn.
    pose proof (inv_push s (EvIn pk) I) as I1.
    assert (Hr1 : holds (push_event s (EvIn pk)) r) by (revert Hr; apply holds_slots_eq; repeat split).
    set (s0 := push_event s (EvIn pk)) in *. clearbody s0. clear Hr I.
    destruct pk; cbn [res_state] in Hn; try (inversion Hn; subst s'; left; exact Hr1).
    + (* publish *) left. unfold handle_incoming_publish, outgoing_puback, outgoing_pubrec in Hn.
      destruct (p_qos p); sproj; destruct (manual_acks s0); cbn [res_state] in Hn; fin Hn Hr1.
    + (* puback *)
      destruct (handle_incoming_puback_eff s0 id I1) as [[_ [s2 [He [Heq _]]]] | [p0 [l [Eg [Hl Hrest]]]]].
      { rewrite He in Hn. cbn [res_state] in Hn. inversion Hn. subst. left. revert Hr1. apply holds_slots_eq, Heq. }
      cbv zeta in Hrest. destruct Hrest as [He [H1 [Hpos [I2 [Hfree Hrel]]]]]. rewrite He in Hn.
      set (s1 := set_inflight (set_pub (set_last_puback s0 id) l) (inflight s0 - 1)) in *.
      destruct (ack_tail_keeps s1 id s' I2 H1) as [Hk _]; subst s1; sproj; auto.
      { intros q Hq. apply (i_coll s0 I1 q Hq). }
      destruct r; cbn [holds] in Hr1; try contradiction.
      * destruct (N.eq_dec (p_pkid p) id) as [E | E]; [right; left; exact E|left].
        apply Hk. cbn [holds]. sproj. destruct Hr1 as [Hs | Hc]; [left|right; exact Hc].
        rewrite (vget_vset_other _ _ _ _ _ Hl); auto.
      * left. apply Hk. cbn [holds]. sproj. exact Hr1.
    + (* pubrec *)
      destruct (handle_incoming_pubrec_eff s0 id I1) as [[_ He] | [p0 [l [rl [Eg [Hl [Hrl He]]]]]]];
        rewrite He in Hn; cbn [res_state] in Hn; inversion Hn; subst s'; [left; exact Hr1|].
      destruct r; cbn [holds] in Hr1; try contradiction.
      * destruct (N.eq_dec (p_pkid p) id) as [E | E].
        -- right. right. cbn [moved_to_release holds]. split; [exact E|]. sproj.
           rewrite (bit_vset _ _ _ id _ Hrl), N.eqb_refl. reflexivity.
        -- left. cbn [holds]. sproj. destruct Hr1 as [Hs | Hc]; [left|right; exact Hc].
           rewrite (vget_vset_other _ _ _ _ _ Hl); auto.
      * left. cbn [holds]. sproj. rewrite (bit_vset _ _ _ id0 _ Hrl). destruct (id =? id0); [reflexivity|exact Hr1].
    + (* pubrel *) left. unfold handle_incoming_pubrel in Hn. destruct (negb _); cbn [res_state] in Hn; fin Hn Hr1.
    + (* pubcomp *)
      destruct (handle_incoming_pubcomp_eff s0 id I1) as [[_ He] | [Hb [rl [Hrl Hrest]]]].
      { rewrite He in Hn. cbn [res_state] in Hn. inversion Hn. subst. left. exact Hr1. }
      cbv zeta in Hrest. destruct Hrest as [He [H1 [Hpos [I2 [Hfree Hrel]]]]]. rewrite He in Hn.
      set (s1 := set_inflight (set_rel s0 rl) (inflight s0 - 1)) in *.
      destruct (ack_tail_keeps s1 id s' I2 H1) as [Hk _]; subst s1; sproj; auto.
      { intros q Hq. apply (i_coll s0 I1 q Hq). }
      destruct r; cbn [holds] in Hr1; try contradiction.
      * left. apply Hk. cbn [holds]. sproj. exact Hr1.
      * destruct (N.eq_dec id id0) as [E | E]; [right; left; exact E|left].
        apply Hk. cbn [holds]. sproj. rewrite (bit_vset _ _ _ id0 _ Hrl).
        destruct (N.eqb_spec id id0); [congruence|exact Hr1].
Qed.
