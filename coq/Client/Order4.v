(** C11, order: for histories of one connection that contain only QoS 0/1 publishes and in which
    every PUBACK acknowledges the oldest unacknowledged publish, [clean] returns the
    unacknowledged publishes in the order they were sent — wherever in the id cycle the failure
    happens (ids may have wrapped any number of times, a collision may be parked).
    Outside the class: Subscribe/Unsubscribe (K30), an earlier Clean (K29), QoS 2, PUBREC,
    PUBACKs that acknowledge nothing or not the oldest. *)
From Coq Require Import Arith ZifyBool ZifyN ZifyNat.
From Rumqtt Require Import Client.VecLemmas Client.Run4 Client.Inv4 Client.Eff4 Client.Flow4.

(** ---- the class, with the ghost send-order queue [L] threaded through *)
Definition plain_step (s : state) (o : op) : option state :=
  match step s o with Ok (s', _) => Some s' | Err (s', _) => Some s' | Panic _ => None end.

Definition ostep (s : state) (L : list publish) (o : op) : option (state * list publish) :=
  match o with
  | Out (RPublish p) =>
      if negb (p_pkid p =? 0) then None
      else match p_qos p with
           | Q2 => None
           | Q0 => match plain_step s o with Some s' => Some (s', L) | None => None end
           | Q1 =>
               if is_some (collision s) then None
               else match step s o with
                    | Ok (s', Wrote (Some (PPublish p'))) => Some (s', L ++ [p'])
                    | Ok (s', _) => Some (s', L)
                    | _ => None
                    end
           end
  | Out (RPubAck _) | Out (RPubRec _) | Out RPingReq | Out RDisconnect =>
      match plain_step s o with Some s' => Some (s', L) | None => None end
  | Inc (PPubAck i) =>
      match L with
      | p :: L' =>
          if p_pkid p =? i
          then match step s o with
               | Ok (s', Wrote (Some (PPublish q))) => Some (s', L' ++ [q])
               | Ok (s', _) => Some (s', L')
               | _ => None
               end
          else None
      | [] => None
      end
  | Inc (PPubRec _) => None
  | Inc _ => match plain_step s o with Some s' => Some (s', L) | None => None end
  | _ => None
  end.

Fixpoint orun (s : state) (L : list publish) (h : list op) : option (state * list publish) :=
  match h with
  | [] => Some (s, L)
  | o :: r => match ostep s L o with Some (s', L') => orun s' L' r | None => None end
  end.

(** ---- position of an id in the order [clean] walks the table: last_puback+1 .. max, 1 .. last_puback *)
Definition pos (lp max i : N) : N := if lp <? i then i - lp - 1 else i + max - lp - 1.
Definition sc (max i : N) : N := if i =? max then 1 else i + 1.

Lemma pos_range lp max i : lp <= max -> 1 <= i <= max -> pos lp max i < max.
Proof. intros. unfold pos. destruct (N.ltb_spec lp i); lia. Qed.

Lemma pos_inj lp max i j : lp <= max -> 1 <= i <= max -> 1 <= j <= max -> pos lp max i = pos lp max j -> i = j.
Proof. intros Hl Hi Hj. unfold pos. destruct (N.ltb_spec lp i), (N.ltb_spec lp j); lia. Qed.

Lemma pos_sc lp max i : lp <= max -> 1 <= i <= max ->
  pos lp max (sc max i) = if pos lp max i + 1 =? max then 0 else pos lp max i + 1.
Proof.
  intros Hl Hi. unfold pos, sc.
  destruct (N.eqb_spec i max); destruct (N.ltb_spec lp i); destruct (N.ltb_spec lp 1);
    destruct (N.ltb_spec lp (i + 1));
    repeat match goal with |- context [?a =? ?b] => destruct (N.eqb_spec a b) end; lia.
Qed.

Lemma pos_sc_lp lp max : 1 <= max -> lp <= max -> pos lp max (sc max lp) = 0.
Proof. intros. unfold pos, sc. destruct (N.eqb_spec lp max); [destruct (N.ltb_spec lp 1)|destruct (N.ltb_spec lp (lp + 1))]; lia. Qed.

(** after the id at position 0 became [last_puback], every other position moves down by one *)
Lemma pos_shift lp max lp' x : lp <= max -> 1 <= lp' <= max -> pos lp max lp' = 0 -> 1 <= x <= max ->
  pos lp' max x = if pos lp max x =? 0 then max - 1 else pos lp max x - 1.
Proof.
  intros Hl Hl' H0 Hx. revert H0. unfold pos.
  destruct (N.ltb_spec lp lp'), (N.ltb_spec lp x), (N.ltb_spec lp' x); intros Hz;
    repeat match goal with |- context [?a =? ?b] => destruct (N.eqb_spec a b) end; lia.
Qed.

(** ---- the invariant *)
Record Ord (s : state) (L : list publish) : Prop := mkOrd {
  o_inv : Inv s;
  o_rel : forall i, bit (outgoing_rel s) i = false;
  o_len : lenN L <= max_inflight s;
  o_pos : forall j p, nth_error L j = Some p ->
            1 <= p_pkid p <= max_inflight s /\ pos (last_puback s) (max_inflight s) (p_pkid p) = N.of_nat j /\
            vget (outgoing_pub s) (p_pkid p) = Some (Some p);
  o_slot : forall i p, vget (outgoing_pub s) i = Some (Some p) -> In p L;
  o_next : match collision s with
           | None => pos (last_puback s) (max_inflight s) (last_pkid s + 1)
                     = if lenN L =? max_inflight s then 0 else lenN L
           | Some q => lenN L = max_inflight s /\ pos (last_puback s) (max_inflight s) (p_pkid q) = 0 /\
                       pos (last_puback s) (max_inflight s) (last_pkid s + 1) = (if max_inflight s =? 1 then 0 else 1)
           end }.

Lemma ord_init max manual : 1 <= max -> max <= 65535 -> Ord (init max manual) [].
Proof.
  intros H1 H2. constructor.
  - apply inv_init; assumption.
  - intros i. unfold init. sproj. apply bit_repeat_false.
  - change (lenN (@nil publish)) with 0. lia.
  - intros j p H. destruct j; discriminate.
  - intros i p H. unfold init in H. sproj. rewrite vget_repeat in H. destruct (Nat.ltb _ _); discriminate.
  - unfold init. sproj. unfold pos. change (lenN (@nil publish)) with 0. destruct (N.eqb_spec 0 max); [lia|].
    destruct (N.ltb_spec 0 (0 + 1)); lia.
Qed.

(** a change outside the ordered fields keeps [Ord] *)
Lemma ord_frame s s' L :
  Ord s L -> Inv s' ->
  max_inflight s' = max_inflight s -> outgoing_pub s' = outgoing_pub s -> outgoing_rel s' = outgoing_rel s ->
  last_pkid s' = last_pkid s -> last_puback s' = last_puback s -> collision s' = collision s -> Ord s' L.
Proof.
  intros O I' Hm Hp Hr Hk Ha Hc. constructor; rewrite ?Hm, ?Hp, ?Hr, ?Hk, ?Ha, ?Hc; try apply O. exact I'.
Qed.

Lemma nth_error_lenN {A} (L : list A) j x : nth_error L j = Some x -> N.of_nat j < lenN L.
Proof. intros H. assert (j < length L)%nat by (apply nth_error_Some; congruence). unfold lenN. lia. Qed.

(** the slot of the next id is free exactly when the queue is not full *)
Lemma ord_next_free s L : Ord s L -> collision s = None -> lenN L < max_inflight s ->
  1 <= last_pkid s + 1 <= max_inflight s -> busy s (last_pkid s + 1) = false.
Proof.
  intros O Hc Hn Hid. unfold busy. rewrite (o_rel s L O). rewrite orb_false_r.
  destruct (vget (outgoing_pub s) (last_pkid s + 1)) as [[p|]|] eqn:Eg; try reflexivity. exfalso.
  pose proof (o_slot s L O _ _ Eg) as Hin. apply In_nth_error in Hin. destruct Hin as [j Hj].
  destruct (o_pos s L O j p Hj) as [Hr [Hp Hv]].
  destruct (i_slot s (o_inv s L O) _ _ Eg) as [Hid' _]. rewrite Hid' in Hp.
  pose proof (o_next s L O) as Hnx. rewrite Hc in Hnx.
  destruct (N.eqb_spec (lenN L) (max_inflight s)); [lia|].
  pose proof (nth_error_lenN L j p Hj). lia.
Qed.

(** ---- a QoS 1 publish with a fresh id *)
Lemma ord_publish s L p s' rep :
  Ord s L -> collision s = None -> p_qos p = Q1 -> p_pkid p = 0 ->
  step s (Out (RPublish p)) = Ok (s', Wrote rep) ->
  match rep with
  | Some (PPublish p') => Ord s' (L ++ [p'])
  | _ => Ord s' L
  end.
Proof.
  intros O Hc Hq H0 Hs. pose proof (o_inv s L O) as I.
  cbn [step handle_outgoing_packet] in Hs. unfold outgoing_publish in Hs. rewrite Hq, H0 in Hs.
  change (0 =? 0) with true in Hs. cbv iota in Hs.
  destruct (next_pkid_spec s I) as [v [Hn [Hv Hid]]]. rewrite Hn in Hs. cbn [bind] in Hs.
  assert (Hv' : v = if last_pkid s + 1 =? max_inflight s then 0 else last_pkid s + 1).
  { unfold next_pkid in Hn. destruct (last_pkid s =? U16_MAX); [discriminate|].
    destruct (last_pkid s + 1 =? max_inflight s); inversion Hn; reflexivity. }
  set (nx := last_pkid s + 1) in *. set (p1 := with_pkid p nx) in *.
  assert (I1 : Inv (set_last_pkid s v)) by (apply inv_set_last_pkid; assumption).
  assert (Hnx' : v + 1 = sc (max_inflight s) nx).
  { unfold sc. rewrite Hv'. destruct (nx =? max_inflight s); reflexivity. }
  pose proof (i_lpa s I) as Hlpa.
  destruct (place_publish_eff (set_last_pkid s v) p1 I1 Hc) as [[Hgt _] | [[Hle [Hb He]] | [Hle [Hb [l [Hl He]]]]]];
    try (subst p1; cbn [p_pkid p_qos with_pkid]; first [lia | congruence]).
  - subst p1. cbn [p_pkid with_pkid] in Hgt. sproj. lia.
  - (* parked: the queue is full *)
    rewrite He in Hs. cbn [bind] in Hs. inversion Hs. subst s' rep. clear Hs.
    assert (Hfull : lenN L = max_inflight s).
    { destruct (N.eq_dec (lenN L) (max_inflight s)) as [E | E]; [exact E|exfalso].
      pose proof (o_len s L O). assert (Hb' : busy s nx = false) by (apply (ord_next_free s L O Hc); lia).
      unfold busy in Hb, Hb'. sproj. subst p1. cbn [p_pkid with_pkid] in Hb. congruence. }
    pose proof (o_next s L O) as Hnxt. rewrite Hc in Hnxt. rewrite Hfull, N.eqb_refl in Hnxt. fold nx in Hnxt.
    constructor; sproj; try apply O.
    + apply inv_push, inv_set_collision; [exact I1| |subst p1; cbn; congruence].
      unfold busy in *. sproj. exact Hb.
    + subst p1. cbn [p_pkid with_pkid]. split; [exact Hfull|]. split; [exact Hnxt|].
      rewrite Hnx'. rewrite pos_sc by lia. rewrite Hnxt.
      destruct (N.eqb_spec (0 + 1) (max_inflight s)), (N.eqb_spec (max_inflight s) 1); lia.
  - (* stored: appended to the queue *)
    rewrite He in Hs. cbn [bind] in Hs. inversion Hs. subst s' rep. clear Hs.
    subst p1. cbn [p_pkid with_pkid] in *. set (p1 := with_pkid p nx) in *.
    assert (Hnf : lenN L < max_inflight s).
    { destruct (N.ltb_spec (lenN L) (max_inflight s)) as [E | E]; [exact E|exfalso].
      pose proof (o_len s L O). pose proof (o_next s L O) as Hnxt. rewrite Hc in Hnxt.
      assert (El : lenN L = max_inflight s) by lia. rewrite El, N.eqb_refl in Hnxt. fold nx in Hnxt.
      (* position 0 is taken by the head of the queue *)
      destruct L as [| p0 L0]; [cbn in El; lia|].
      destruct (o_pos s _ O 0%nat p0 eq_refl) as [Hr0 [Hp0 Hv0]]. cbn in Hp0.
      assert (Epn : p_pkid p0 = nx) by (apply (pos_inj (last_puback s) (max_inflight s)); try lia).
      unfold busy in Hb. sproj. rewrite <- Epn, Hv0 in Hb. discriminate. }
    pose proof (o_next s L O) as Hnxt. rewrite Hc in Hnxt. fold nx in Hnxt.
    destruct (N.eqb_spec (lenN L) (max_inflight s)) as [E | E]; [lia|].
    assert (Hst : Inv (push_event (set_inflight (set_pub (set_last_pkid s v) l) (inflight s + 1)) (EvOut (OPublish nx)))).
    { pose proof (place_publish_inv (set_last_pkid s v) p1 I1 Hc) as Hpi. unfold p1 in Hpi. cbn [p_pkid p_qos with_pkid] in Hpi.
      fold p1 in Hpi. rewrite He in Hpi. cbn [post] in Hpi. apply Hpi; [lia|congruence]. }
    constructor; sproj.
    + exact Hst.
    + apply O.
    + rewrite lenN_app. change (lenN [p1]) with 1. lia.
    + intros j q Hj. destruct (Nat.lt_ge_cases j (length L)) as [Hlt | Hge].
      * rewrite nth_error_app1 in Hj by exact Hlt. destruct (o_pos s L O j q Hj) as [Hr [Hp Hvq]].
        split; [exact Hr|]. split; [exact Hp|]. rewrite (vget_vset _ _ _ (p_pkid q) _ Hl).
        destruct (N.eqb_spec nx (p_pkid q)) as [E' | E']; [|exact Hvq].
        exfalso. unfold busy in Hb. sproj. rewrite E', Hvq in Hb. discriminate.
      * rewrite nth_error_app2 in Hj by exact Hge. destruct (j - length L)%nat as [| k] eqn:Ek; [|destruct k; discriminate].
        cbn in Hj. inversion Hj. subst q. unfold p1. cbn [p_pkid with_pkid]. split; [lia|]. split.
        -- rewrite Hnxt. unfold lenN. lia.
        -- eapply vget_vset_same; eauto.
    + intros i q Hi. rewrite (vget_vset _ _ _ i _ Hl) in Hi. apply in_or_app.
      destruct (nx =? i); [right; inversion Hi; left; reflexivity|left; apply (o_slot s L O i q Hi)].
    + rewrite Hc. rewrite Hnx', pos_sc by lia. rewrite Hnxt, lenN_app. change (lenN [p1]) with 1.
      destruct (N.eqb_spec (lenN L + 1) (max_inflight s)); reflexivity.
Qed.

(** ---- the in-order PUBACK *)
Lemma ord_puback s p L s' rep :
  Ord s (p :: L) ->
  step s (Inc (PPubAck (p_pkid p))) = Ok (s', Wrote rep) ->
  match rep with
  | Some (PPublish q) => Ord s' (L ++ [q])
  | _ => Ord s' L
  end.
Proof.
  intros O Hs. pose proof (o_inv s _ O) as I.
  destruct (o_pos s _ O 0%nat p eq_refl) as [Hr0 [Hp0 Hv0]]. cbn in Hp0.
  set (id := p_pkid p) in *.
  cbn [step handle_incoming_packet] in Hs.
  pose proof (inv_push s (EvIn (PPubAck id)) I) as I1.
  destruct (handle_incoming_puback_eff _ id I1) as [[Hnone _] | [p0 [l [Eg [Hl Hrest]]]]].
  { unfold pub_at in Hnone. sproj. rewrite Hv0 in Hnone. discriminate. }
  sproj. rewrite Hv0 in Eg. inversion Eg. subst p0. clear Eg.
  cbv zeta in Hrest. destruct Hrest as [He [H1 [Hpos [I2 [Hfree Hrel]]]]]. rewrite He in Hs. sproj.
  set (s1 := set_inflight (set_pub (set_last_puback (push_event s (EvIn (PPubAck id))) id) l) (inflight s - 1)) in *.
  pose proof (i_lpa s I) as Hlpa. pose proof (i_max1 s I) as Hm1.
  set (lp := last_puback s) in *. set (mx := max_inflight s) in *.
  assert (Hshift : forall x, 1 <= x <= mx -> pos id mx x = if pos lp mx x =? 0 then mx - 1 else pos lp mx x - 1).
  { intros x Hx. apply pos_shift; try lia; exact Hp0. }
  pose proof (o_next s _ O) as Hnxt. pose proof (o_len s _ O) as Hlen. rewrite lenN_cons in Hlen, Hnxt.
  pose proof (i_lpk s I) as Hlpk.
  (* the queue minus its head, against the freed table *)
  assert (Hpos' : forall j q, nth_error L j = Some q ->
            1 <= p_pkid q <= mx /\ pos id mx (p_pkid q) = N.of_nat j /\ vget l (p_pkid q) = Some (Some q) /\ p_pkid q <> id).
  { intros j q Hj. destruct (o_pos s _ O (S j) q Hj) as [Hr [Hp Hv]]. fold lp mx in Hp.
    assert (Hne : p_pkid q <> id).
    { intros E. rewrite E in Hp. rewrite Hp0 in Hp. lia. }
    split; [exact Hr|]. split; [|split; [|exact Hne]].
    - rewrite Hshift by exact Hr. rewrite Hp. destruct (N.eqb_spec (N.of_nat (S j)) 0); lia.
    - rewrite (vget_vset_other _ _ _ _ _ Hl); auto. }
  assert (Hslot' : forall i q, vget l i = Some (Some q) -> In q L).
  { intros i q Hi. rewrite (vget_vset _ _ _ i _ Hl) in Hi. destruct (N.eqb_spec id i); [discriminate|].
    destruct (o_slot s _ O i q Hi) as [E | Hin]; [|exact Hin]. subst q.
    exfalso. destruct (i_slot s I i p Hi) as [E' _]. fold id in E'. congruence. }
  destruct (ack_tail_eff s1 id I2 H1) as [[q [l2 [Hc [Hid [Hl2 Het]]]]] | [Hne Het]]; subst s1; sproj; auto.
  { intros x Hx. apply (i_coll s I x Hx). }
  - (* a parked publish takes the freed id and the end of the queue *)
    rewrite Het in Hs. cbn [bind] in Hs. inversion Hs. subst s' rep. clear Hs.
    rewrite Hc in Hnxt. destruct Hnxt as [Hfull [_ Hnx]].
    assert (HI : Inv (set_cpc (push_event (set_inflight (set_pub (set_collision (set_inflight (set_pub (set_last_puback (push_event s (EvIn (PPubAck id))) id) l) (inflight s - 1)) None) l2) (inflight s - 1 + 1)) (EvOut (OPublish id))) 0)).
    { pose proof (handle_incoming_puback_inv _ id I1) as Hpi. rewrite He, Het in Hpi. exact Hpi. }
    constructor; sproj.
    + exact HI.
    + apply O.
    + rewrite lenN_app. change (lenN [q]) with 1. fold mx. lia.
    + intros j x Hj. destruct (Nat.lt_ge_cases j (length L)) as [Hlt | Hge].
      * rewrite nth_error_app1 in Hj by exact Hlt. destruct (Hpos' j x Hj) as [Hr [Hp [Hv Hne]]].
        split; [exact Hr|]. split; [exact Hp|]. rewrite (vget_vset_other _ _ _ _ _ Hl2); auto.
      * rewrite nth_error_app2 in Hj by exact Hge. destruct (j - length L)%nat as [| k] eqn:Ek; [|destruct k; discriminate].
        cbn in Hj. inversion Hj. subst x. rewrite Hid. split; [lia|]. split.
        -- rewrite Hshift by lia. rewrite Hp0, N.eqb_refl. unfold lenN in Hfull. lia.
        -- eapply vget_vset_same; eauto.
    + intros i x Hi. rewrite (vget_vset _ _ _ i _ Hl2) in Hi. apply in_or_app.
      destruct (id =? i); [right; inversion Hi; left; reflexivity|left; apply (Hslot' i x Hi)].
    + rewrite lenN_app. change (lenN [q]) with 1. fold mx.
      assert (E : lenN L + 1 = mx) by lia. rewrite E, N.eqb_refl.
      rewrite Hshift by lia. fold lp mx in Hnx. rewrite Hnx.
      destruct (N.eqb_spec mx 1); [rewrite N.eqb_refl; lia|]. destruct (N.eqb_spec 1 0); lia.
  - (* nothing parked on that id *)
    rewrite Het in Hs. cbn [bind] in Hs. inversion Hs. subst s' rep. clear Hs.
    assert (Hcn : collision s = None).
    { destruct (collision s) as [q|] eqn:Ec; [|reflexivity]. exfalso. destruct Hnxt as [_ [Hq0 _]].
      apply (Hne q eq_refl). destruct (i_coll s I q Ec) as [Hb _].
      assert (Hqr : 1 <= p_pkid q <= mx).
      { unfold busy in Hb. rewrite (o_rel s _ O), orb_false_r in Hb.
        destruct (vget (outgoing_pub s) (p_pkid q)) as [[x|]|] eqn:Ex; try discriminate.
        destruct (i_slot s I _ _ Ex) as [_ [Hx1 _]]. apply vget_some_lt in Ex. rewrite (i_lenp s I) in Ex.
        apply idx_lt_len in Ex. fold mx in Ex. lia. }
      apply (pos_inj lp mx); try lia. fold lp mx in Hq0. congruence. }
    rewrite Hcn in Hnxt.
    assert (HI : Inv (set_inflight (set_pub (set_last_puback (push_event s (EvIn (PPubAck id))) id) l) (inflight s - 1))).
    { pose proof (handle_incoming_puback_inv _ id I1) as Hpi. rewrite He, Het in Hpi. exact Hpi. }
    constructor; sproj.
    + exact HI.
    + apply O.
    + fold mx. lia.
    + intros j x Hj. destruct (Hpos' j x Hj) as [Hr [Hp [Hv _]]]. auto.
    + exact Hslot'.
    + rewrite Hcn. fold mx lp in Hnxt |- *. rewrite Hshift by lia. rewrite Hnxt.
      destruct (N.eqb_spec (1 + lenN L) mx) as [E | E].
      * rewrite N.eqb_refl. destruct (N.eqb_spec (lenN L) mx); lia.
      * destruct (N.eqb_spec (1 + lenN L) 0); [lia|]. destruct (N.eqb_spec (lenN L) mx); lia.
Qed.

(** ---- ops that do not touch the ordered fields *)
Lemma ord_same s s' L :
  Ord s L -> Inv s' ->
  max_inflight s' = max_inflight s -> outgoing_pub s' = outgoing_pub s -> outgoing_rel s' = outgoing_rel s ->
  last_pkid s' = last_pkid s -> last_puback s' = last_puback s -> collision s' = collision s -> Ord s' L.
Proof. exact (ord_frame s s' L). Qed.

Definition frame_op (o : op) : bool :=
  match o with
  | Out (RPublish p) => match p_qos p with Q0 => true | _ => false end
  | Out (RPubAck _) | Out (RPubRec _) | Out RPingReq | Out RDisconnect => true
  | Inc (PPubAck _) | Inc (PPubRec _) => false
  | Inc _ => true
  | _ => false
  end.

Lemma ord_frame_op s L o s' : Ord s L -> frame_op o = true -> plain_step s o = Some s' -> Ord s' L.
Proof.
  intros O Hf Hs. pose proof (o_inv s L O) as I.
  assert (Hok : op_ok s o = true).
  { destruct o as [r | pk |]; [|reflexivity|discriminate].
    destruct r; cbn [frame_op] in Hf; try discriminate; try reflexivity.
    cbn [op_ok]. destruct (p_qos p); [reflexivity|discriminate|discriminate]. }
  pose proof (step_inv s o I Hok) as Hinv. unfold plain_step in Hs.
  assert (I' : Inv s').
  { destruct (step s o) as [[s1 x] | [s1 e] | t]; inversion Hs; subst; exact Hinv. }
  apply (ord_same s s' L O I'); clear Hinv I' Hok.
  all: destruct o as [r | pk |]; cbn [frame_op] in Hf; try discriminate.
  all: try (destruct r; try discriminate; cbn [step handle_outgoing_packet] in Hs;
            try (unfold outgoing_publish in Hs; destruct (p_qos p); try discriminate);
            try (unfold outgoing_ping in Hs; destruct (is_some (collision s)); sproj;
                 [destruct (2 <=? collision_ping_count s + 1); cbn [bind] in Hs; sproj; [|destruct (await_pingresp s)]
                 |cbn [bind] in Hs; destruct (await_pingresp s)]);
            cbn [bind outgoing_puback outgoing_pubrec outgoing_disconnect] in Hs; inversion Hs; reflexivity).
  all: destruct pk; try discriminate; cbn [step handle_incoming_packet] in Hs;
       try (unfold handle_incoming_publish, outgoing_puback, outgoing_pubrec in Hs; destruct (p_qos p); sproj; destruct (manual_acks s));
       try (unfold handle_incoming_pubrel in Hs; sproj; destruct (negb _));
       try (unfold handle_incoming_pubcomp in Hs; sproj; rewrite (o_rel s L O) in Hs; cbn [negb] in Hs);
       cbn [bind] in Hs; inversion Hs; reflexivity.
Qed.

(** ---- what [clean] returns under the invariant *)
Lemma nth_error_skipn' {A} (l : list A) k j : nth_error (skipn k l) j = nth_error l (k + j).
Proof.
  revert l. induction k as [| k IH]; intros l; [reflexivity|]. destruct l as [| x l]; [destruct j; reflexivity|].
  cbn [skipn Nat.add nth_error]. apply IH.
Qed.

Lemma nth_error_firstn' {A} (l : list A) k j : (j < k)%nat -> nth_error (firstn k l) j = nth_error l j.
Proof.
  revert l j. induction k as [| k IH]; intros l j Hj; [lia|]. destruct l as [| x l]; [destruct j; reflexivity|].
  destruct j as [| j]; [reflexivity|]. cbn [firstn nth_error]. apply IH. lia.
Qed.

Lemma list_ext {A} (a b : list A) : (forall j, nth_error a j = nth_error b j) -> a = b.
Proof.
  revert b. induction a as [| x a IH]; intros b H.
  - destruct b; [reflexivity|]. specialize (H O). discriminate.
  - destruct b as [| y b]; [specialize (H O); discriminate|].
    pose proof (H O) as H0. cbn in H0. inversion H0. f_equal. apply IH. intros j. exact (H (S j)).
Qed.

Lemma somes_map_some {A} (L : list A) n : somes (map Some L ++ repeat None n) = L.
Proof. rewrite somes_app, somes_repeat_none, app_nil_r. induction L as [| x L IH]; [reflexivity|]. cbn. rewrite IH. reflexivity. Qed.

Lemma ones_all_false l : (forall i, bit l i = false) -> ones l = [].
Proof.
  intros H. destruct (ones l) as [| x t] eqn:E; [reflexivity|]. exfalso.
  assert (Hin : In x (ones l)) by (rewrite E; left; reflexivity). apply ones_in in Hin. rewrite H in Hin. discriminate.
Qed.

Lemma ord_rotation s L : Ord s L ->
  somes (skipn (S (idx (last_puback s))) (outgoing_pub s) ++ firstn (S (idx (last_puback s))) (outgoing_pub s)) = L.
Proof.
  intros O. pose proof (o_inv s L O) as I.
  pose proof (i_lenp s I) as Hlen. pose proof (i_lpa s I) as Hlpa. pose proof (i_max1 s I) as Hm1.
  set (lp := last_puback s) in *. set (mx := max_inflight s) in *.
  destruct (outgoing_pub s) as [| v0 u] eqn:Ev; [discriminate|]. cbn [length] in Hlen.
  assert (Hv0 : v0 = None).
  { destruct v0 as [x|]; [|reflexivity]. exfalso.
    assert (Hg : vget (outgoing_pub s) 0 = Some (Some x)) by (rewrite Ev; reflexivity).
    destruct (i_slot s I 0 x Hg) as [_ [Hx _]]. lia. }
  subst v0. cbn [skipn firstn]. rewrite somes_app. cbn [somes]. rewrite <- somes_app.
  set (k := idx lp) in *. set (m := idx mx) in *.
  assert (Hk : (k <= m)%nat) by (unfold k, m, idx; lia).
  assert (Hu : length u = m) by lia.
  assert (Hn : (length L <= m)%nat) by (pose proof (o_len s L O) as H; unfold lenN, m, idx in *; fold mx in H; lia).
  rewrite <- (somes_map_some L (m - length L)). f_equal. apply list_ext. intros j.
  destruct (Nat.lt_ge_cases j m) as [Hj | Hj].
  2:{ rewrite (proj2 (nth_error_None _ _)), (proj2 (nth_error_None _ _)); [reflexivity| |].
      - rewrite app_length, map_length, repeat_length. lia.
      - rewrite app_length, skipn_length, firstn_length. lia. }
  (* the id sitting at position j of the walk *)
  set (i := if N.of_nat j <? mx - lp then lp + N.of_nat j + 1 else N.of_nat j - (mx - lp) + 1).
  assert (Hm : N.of_nat m = mx) by (unfold m, idx; lia).
  assert (Hkk : N.of_nat k = lp) by (unfold k, idx; lia).
  assert (Hi : 1 <= i <= mx) by (unfold i; destruct (N.ltb_spec (N.of_nat j) (mx - lp)); lia).
  assert (Hpi : pos lp mx i = N.of_nat j).
  { unfold pos, i. destruct (N.ltb_spec (N.of_nat j) (mx - lp)).
    - destruct (N.ltb_spec lp (lp + N.of_nat j + 1)); lia.
    - destruct (N.ltb_spec lp (N.of_nat j - (mx - lp) + 1)); lia. }
  assert (Hget : nth_error (skipn k u ++ firstn k u) j = vget (outgoing_pub s) i).
  { rewrite Ev. unfold vget. destruct (Nat.lt_ge_cases j (m - k)) as [Hjk | Hjk].
    - rewrite nth_error_app1 by (rewrite skipn_length; lia). rewrite nth_error_skipn'.
      assert (Ei : idx i = S (k + j)).
      { unfold i. destruct (N.ltb_spec (N.of_nat j) (mx - lp)); unfold idx; lia. }
      rewrite Ei. reflexivity.
    - rewrite nth_error_app2 by (rewrite skipn_length; lia). rewrite skipn_length.
      rewrite nth_error_firstn' by lia.
      assert (Ei : idx i = S (j - (length u - k))).
      { unfold i. destruct (N.ltb_spec (N.of_nat j) (mx - lp)); unfold idx; lia. }
      rewrite Ei. reflexivity. }
  rewrite Hget. destruct (Nat.lt_ge_cases j (length L)) as [Hjl | Hjl].
  - rewrite nth_error_app1 by (rewrite map_length; exact Hjl). rewrite nth_error_map.
    destruct (nth_error L j) as [p|] eqn:Ep; [|apply nth_error_None in Ep; lia]. cbn [option_map].
    destruct (o_pos s L O j p Ep) as [Hr [Hp Hv]]. fold lp mx in Hp, Hr.
    assert (p_pkid p = i) by (apply (pos_inj lp mx); try lia; congruence). subst i. rewrite <- H. exact Hv.
  - rewrite nth_error_app2 by (rewrite map_length; exact Hjl). rewrite map_length.
    assert (Hrn : nth_error (repeat (@None publish) (m - length L)) (j - length L) = Some None).
    { apply nth_error_repeat. lia. }
    rewrite Hrn. destruct (vget (outgoing_pub s) i) as [[q|]|] eqn:Eq.
    + exfalso. pose proof (o_slot s L O i q Eq) as Hin. apply In_nth_error in Hin. destruct Hin as [j' Hj'].
      destruct (o_pos s L O j' q Hj') as [Hr [Hp Hv]]. fold lp mx in Hp.
      destruct (i_slot s I i q Eq) as [Eid _]. rewrite Eid, Hpi in Hp.
      assert (j' < length L)%nat by (apply nth_error_Some; congruence). lia.
    + reflexivity.
    + exfalso. apply vget_none_ge in Eq. rewrite (i_lenp s I) in Eq. fold mx m in Eq. unfold idx in Eq. lia.
Qed.

Theorem ord_clean s L : Ord s L -> exists s', clean s = Ok (s', map RPublish L ++ parked s).
Proof.
  intros O. pose proof (o_inv s L O) as I. pose proof (clean_inv s I) as Hc. unfold clean in *.
  destruct (Nat.ltb (length (outgoing_pub s)) (S (idx (last_puback s)))); [contradiction|]. cbv zeta.
  eexists. f_equal. f_equal. rewrite (ord_rotation s L O). rewrite (ones_all_false _ (o_rel s L O)). reflexivity.
Qed.

(** ---- the theorem *)
Lemma step_not_cleaned s o s1 l : o <> Clean -> step s o = Ok (s1, Cleaned l) -> False.
Proof.
  intros Hne H. destruct o; [| |congruence]; cbn [step] in H.
  - destruct (handle_outgoing_packet s r) as [[? ?] | [? ?] | ?]; discriminate.
  - destruct (handle_incoming_packet s p) as [[? ?] | [? ?] | ?]; discriminate.
Qed.

Lemma ostep_ord s L o s' L' : Ord s L -> ostep s L o = Some (s', L') -> Ord s' L'.
Proof.
  intros O Hs. destruct o as [r | pk |]; cbn [ostep] in Hs; [| |discriminate].
  - destruct r; try discriminate.
    + destruct (N.eqb_spec (p_pkid p) 0) as [E0 | E0]; cbn [negb] in Hs; [|discriminate].
      destruct (p_qos p) eqn:Eq; [| |discriminate].
      * destruct (plain_step s (Out (RPublish p))) as [s1|] eqn:Ep; [|discriminate]. inversion Hs. subst.
        eapply ord_frame_op; eauto. cbn [frame_op]. rewrite Eq. reflexivity.
      * destruct (collision s) as [c|] eqn:Ec; cbn [is_some] in Hs; [discriminate|].
        destruct (step s (Out (RPublish p))) as [[s1 [rp|l]] | [s1 e] | t] eqn:Es; try discriminate;
          [|exfalso; eapply step_not_cleaned; [|exact Es]; discriminate].
        pose proof (ord_publish s L p s1 rp O Ec Eq E0 Es) as H.
        destruct rp as [[]|]; inversion Hs; subst; exact H.
    + destruct (plain_step s (Out (RPubAck id))) as [s1|] eqn:Ep; [|discriminate]. inversion Hs. subst.
      eapply ord_frame_op; eauto; reflexivity.
    + destruct (plain_step s (Out (RPubRec id))) as [s1|] eqn:Ep; [|discriminate]. inversion Hs. subst.
      eapply ord_frame_op; eauto; reflexivity.
    + destruct (plain_step s (Out RPingReq)) as [s1|] eqn:Ep; [|discriminate]. inversion Hs. subst.
      eapply ord_frame_op; eauto; reflexivity.
    + destruct (plain_step s (Out RDisconnect)) as [s1|] eqn:Ep; [|discriminate]. inversion Hs. subst.
      eapply ord_frame_op; eauto; reflexivity.
  - destruct pk; try discriminate;
      try (destruct (plain_step s _) as [s1|] eqn:Ep; [|discriminate]; inversion Hs; subst;
           eapply ord_frame_op; eauto; reflexivity).
    destruct L as [| p0 L0]; [discriminate|].
    destruct (N.eqb_spec (p_pkid p0) id) as [E | E]; [|discriminate]. subst id.
    destruct (step s (Inc (PPubAck (p_pkid p0)))) as [[s1 [rp|l]] | [s1 e] | t] eqn:Es; try discriminate;
      [|exfalso; eapply step_not_cleaned; [|exact Es]; discriminate].
    pose proof (ord_puback s p0 L0 s1 rp O Es) as H.
    destruct rp as [[]|]; inversion Hs; subst; exact H.
Qed.

Theorem clean_in_send_order max manual h s L :
  1 <= max -> max <= 65535 ->
  orun (init max manual) [] h = Some (s, L) ->
  exists s', clean s = Ok (s', map RPublish L ++ parked s).
Proof.
  intros H1 H2 Hr. apply ord_clean.
  assert (G : forall h s0 L0, Ord s0 L0 -> orun s0 L0 h = Some (s, L) -> Ord s L).
  { clear. induction h as [| o h IH]; intros s0 L0 O Hr; cbn [orun] in Hr.
    - inversion Hr. subst. exact O.
    - destruct (ostep s0 L0 o) as [[s1 L1]|] eqn:Eo; [|discriminate].
      eapply IH; [|exact Hr]. eapply ostep_ord; eauto. }
  eapply G; [|exact Hr]. apply ord_init; assumption.
Qed.

(** the class is not empty: ids wrap twice, a collision is parked and resolved, the failure hits
    in the middle of the cycle — the send order (payload tags 4, 5, 6) comes back *)
Example order_nontrivial :
  let pubq tag := Out (RPublish (mkPub Q1 0 tag tag)) in
  let h := [pubq 1; pubq 2; pubq 3; Inc (PPubAck 1); pubq 4; Inc (PPubAck 2); Inc (PPubAck 3);
            pubq 5; pubq 6; pubq 7; Inc (PPubAck 1)] in
  option_map (fun sl => map p_payload (snd sl)) (orun (init 3 false) [] h) = Some [5; 6; 7]
  /\ option_map (fun sl => map p_pkid (snd sl)) (orun (init 3 false) [] h) = Some [2; 3; 1].
Proof. vm_compute. split; reflexivity. Qed.

(** ---- repeated failures: each failure is [clean] followed by the session being resumed, i.e. the
    exact replay of what [clean] handed back through handle_outgoing_packet (ids are kept) — K29
    is false by construction.  A replayed publish keeps its place in the send order. *)
Inductive seg := Ops (h : list op) | Resume.

Fixpoint srun (s : state) (L : list publish) (segs : list seg) : option (state * list publish) :=
  match segs with
  | [] => Some (s, L)
  | Ops h :: r => match orun s L h with Some (s', L') => srun s' L' r | None => None end
  | Resume :: r =>
      match clean s with
      | Ok (s1, reqs) => match run s1 (map Out reqs) with Some s2 => srun s2 L r | None => None end
      | _ => None
      end
  end.

(** the op history a segment list stands for *)
Fixpoint flatten (s : state) (segs : list seg) : list op :=
  match segs with
  | [] => []
  | Ops h :: r => h ++ match run s h with Some s' => flatten s' r | None => [] end
  | Resume :: r =>
      match clean s with
      | Ok (s1, reqs) => Clean :: map Out reqs ++ match run s1 (map Out reqs) with Some s2 => flatten s2 r | None => [] end
      | _ => []
      end
  end.

Lemma ord_ids_distinct s L j1 j2 p1 p2 : Ord s L ->
  nth_error L j1 = Some p1 -> nth_error L j2 = Some p2 -> p_pkid p1 = p_pkid p2 -> j1 = j2.
Proof.
  intros O H1 H2 E. destruct (o_pos s L O j1 p1 H1) as [_ [P1 _]]. destruct (o_pos s L O j2 p2 H2) as [_ [P2 _]].
  rewrite E in P1. lia.
Qed.

(** replaying a list of publishes (with their ids) into free slots stores exactly them *)
Lemma replay_pubs ps : forall s,
  Inv s -> collision s = None -> (forall i, bit (outgoing_rel s) i = false) ->
  (forall p, In p ps -> 1 <= p_pkid p /\ p_qos p <> Q0 /\ busy s (p_pkid p) = false) ->
  (forall j1 j2 p1 p2, nth_error ps j1 = Some p1 -> nth_error ps j2 = Some p2 -> p_pkid p1 = p_pkid p2 -> j1 = j2) ->
  (forall p, In p ps -> p_pkid p <= max_inflight s) ->
  exists s', run s (map Out (map RPublish ps)) = Some s' /\ Inv s' /\ collision s' = None /\
    (forall i, bit (outgoing_rel s') i = false) /\
    max_inflight s' = max_inflight s /\ last_puback s' = last_puback s /\ last_pkid s' = last_pkid s /\
    (forall i p, vget (outgoing_pub s') i = Some (Some p) <->
                 (vget (outgoing_pub s) i = Some (Some p) \/ (In p ps /\ p_pkid p = i))).
Proof.
  induction ps as [| p ps IH]; intros s I Hc Hr Hps Hd Hle.
  - exists s. split; [reflexivity|]. split; [exact I|]. split; [exact Hc|]. split; [exact Hr|].
    split; [reflexivity|]. split; [reflexivity|]. split; [reflexivity|].
    intros i p. split; [auto|]. intros [H | [Hf _]]; [exact H|destruct Hf].
  - destruct (Hps p (or_introl eq_refl)) as [H1 [Hq Hb]].
    assert (Hstep : exists l, vset (outgoing_pub s) (p_pkid p) (Some p) = Some l /\
              step s (Out (RPublish p)) = Ok (push_event (set_inflight (set_pub s l) (inflight s + 1)) (EvOut (OPublish (p_pkid p))), Wrote (Some (PPublish p)))).
    { cbn [step handle_outgoing_packet]. unfold outgoing_publish.
      destruct (p_qos p) eqn:Eq; [congruence| |];
        (destruct (N.eqb_spec (p_pkid p) 0); [lia|]);
        (destruct (place_publish_eff s p I Hc H1 ltac:(congruence)) as [[Hgt _] | [[_ [Hbb _]] | [_ [_ [l [Hl He]]]]]];
         [specialize (Hle p (or_introl eq_refl)); lia | congruence | exists l; rewrite He; split; [exact Hl|reflexivity]]). }
    destruct Hstep as [l [Hl Hs]].
    set (s1 := push_event (set_inflight (set_pub s l) (inflight s + 1)) (EvOut (OPublish (p_pkid p)))) in *.
    assert (I1 : Inv s1).
    { pose proof (step_inv s (Out (RPublish p)) I) as Hi. rewrite Hs in Hi. apply Hi. cbn [op_ok]. rewrite Hc. destruct (p_qos p); reflexivity. }
    assert (Hbusy1 : forall i, busy s1 i = if p_pkid p =? i then true else busy s i).
    { intros i. unfold busy, s1. sproj. rewrite (vget_vset _ _ _ i _ Hl). destruct (p_pkid p =? i); reflexivity. }
    destruct (IH s1 I1 Hc Hr) as [s' [Hrun [I' [Hc' [Hr' [Hm [Hlp [Hlk Hsl]]]]]]]].
    + intros q Hq'. destruct (Hps q (or_intror Hq')) as [Q1 [Qq Qb]]. split; [exact Q1|]. split; [exact Qq|].
      rewrite Hbusy1. destruct (N.eqb_spec (p_pkid p) (p_pkid q)) as [E | E]; [|exact Qb].
      exfalso. apply In_nth_error in Hq'. destruct Hq' as [j Hj].
      assert (O = S j) by (apply (Hd O (S j) p q); auto). discriminate.
    + intros j1 j2 p1 p2 H1' H2' E. assert (S j1 = S j2) by (apply (Hd (S j1) (S j2) p1 p2); auto). lia.
    + intros q Hq'. apply (Hle q (or_intror Hq')).
    + exists s'. cbn [map run run_with]. unfold run in Hrun. unfold next. rewrite Hs. fold s1.
      split; [exact Hrun|]. split; [exact I'|]. split; [exact Hc'|]. split; [exact Hr'|].
      split; [rewrite Hm; reflexivity|]. split; [rewrite Hlp; reflexivity|]. split; [rewrite Hlk; reflexivity|].
      intros i q. rewrite Hsl. unfold s1. sproj. rewrite (vget_vset _ _ _ i _ Hl). split.
      * intros [H | [Hin Hid]]; [|right; split; [right; exact Hin|exact Hid]].
        destruct (N.eqb_spec (p_pkid p) i); [inversion H; subst; right; split; [left; reflexivity|reflexivity]|left; exact H].
      * intros [H | [[<- | Hin] Hid]].
        -- left. destruct (N.eqb_spec (p_pkid p) i) as [E | E]; [|exact H].
           exfalso. unfold busy in Hb. rewrite E, H in Hb. discriminate.
        -- left. rewrite Hid. rewrite N.eqb_refl. reflexivity.
        -- right. auto.
Qed.

Lemma busy_range4 s i : Inv s -> busy s i = true -> 1 <= i <= max_inflight s.
Proof.
  intros I Hb. assert (Hn : i <> 0).
  { intros ->. unfold busy in Hb. rewrite (i_rel0 s I), orb_false_r in Hb.
    destruct (vget (outgoing_pub s) 0) as [[p|]|] eqn:E; try discriminate. destruct (i_slot s I 0 p E) as [_ [H _]]. lia. }
  split; [lia|]. unfold busy in Hb. apply orb_true_iff in Hb. destruct Hb as [Hb | Hb].
  - destruct (vget (outgoing_pub s) i) eqn:E; [|discriminate]. apply vget_some_lt in E. rewrite (i_lenp s I) in E.
    apply idx_lt_len. exact E.
  - unfold bit in Hb. destruct (vget (outgoing_rel s) i) eqn:E; [|discriminate]. apply vget_some_lt in E.
    rewrite (i_lenr s I) in E. apply idx_lt_len. exact E.
Qed.

Theorem resume_ord s L s1 reqs s2 :
  Ord s L -> clean s = Ok (s1, reqs) -> run s1 (map Out reqs) = Some s2 -> Ord s2 L.
Proof.
  intros O Hcl Hrun. pose proof (o_inv s L O) as I.
  destruct (ord_clean s L O) as [s1' Hcl']. rewrite Hcl in Hcl'. inversion Hcl'. subst s1' reqs. clear Hcl'.
  pose proof (clean_inv s I) as Hci. rewrite Hcl in Hci. destruct Hci as [I1 [_ Hc1]].
  (* what clean leaves behind *)
  assert (Hs1 : max_inflight s1 = max_inflight s /\ last_puback s1 = last_puback s /\ last_pkid s1 = last_pkid s /\
                (forall i, busy s1 i = false) /\ (forall i, bit (outgoing_rel s1) i = false)).
  { unfold clean in Hcl. destruct (Nat.ltb _ _); [discriminate|]. cbv zeta in Hcl. inversion Hcl. subst s1. sproj.
    repeat split; auto.
    - intros i. unfold busy. sproj. rewrite vget_repeat, bit_repeat_false. destruct (Nat.ltb _ _); reflexivity.
    - intros i. apply bit_repeat_false. }
  destruct Hs1 as [Hm1 [Hlp1 [Hlk1 [Hfree1 Hrel1]]]].
  rewrite map_app in Hrun.
  destruct (replay_pubs L s1 I1 Hc1 Hrel1) as [s' [Hr' [I' [Hc' [Hrl' [Hm' [Hlp' [Hlk' Hsl']]]]]]]].
  { intros p Hp. apply In_nth_error in Hp. destruct Hp as [j Hj]. destruct (o_pos s L O j p Hj) as [Hr [_ Hv]].
    destruct (i_slot s I _ _ Hv) as [_ [_ Hq]]. split; [lia|]. split; [exact Hq|apply Hfree1]. }
  { intros j1 j2 p1 p2 H1 H2 E. apply (ord_ids_distinct s L j1 j2 p1 p2 O H1 H2 E). }
  { intros p Hp. apply In_nth_error in Hp. destruct Hp as [j Hj]. destruct (o_pos s L O j p Hj) as [Hr _]. rewrite Hm1. lia. }
  assert (Hsplit : forall a b sa, run sa (a ++ b) = match run sa a with Some sb => run sb b | None => None end).
  { clear. induction a as [| o a IH]; intros b sa; [reflexivity|]. unfold run in *. cbn [app run_with]. destruct (next step sa o); [apply IH|reflexivity]. }
  rewrite Hsplit, Hr' in Hrun.
  assert (Hslots : forall i p, vget (outgoing_pub s') i = Some (Some p) <-> (In p L /\ p_pkid p = i)).
  { intros i p. rewrite Hsl'. split; [|auto]. intros [H | H]; [|exact H]. exfalso.
    pose proof (Hfree1 i) as Hf. unfold busy in Hf. rewrite H in Hf. discriminate. }
  assert (Hbase : forall sx, Inv sx -> max_inflight sx = max_inflight s -> last_puback sx = last_puback s -> last_pkid sx = last_pkid s ->
            outgoing_pub sx = outgoing_pub s' -> outgoing_rel sx = outgoing_rel s' -> collision sx = collision s -> Ord sx L).
  { intros sx Ix Hmx Hlpx Hlkx Hpx Hrx Hcx. constructor; rewrite ?Hmx, ?Hlpx, ?Hlkx, ?Hpx, ?Hrx, ?Hcx; try apply O; auto.
    - intros j p Hj. destruct (o_pos s L O j p Hj) as [Hr [Hp _]]. split; [exact Hr|]. split; [exact Hp|].
      apply Hslots. split; [eapply nth_error_In; eauto|reflexivity].
    - intros i p Hi. apply Hslots in Hi. apply Hi. }
  unfold parked in Hrun. destruct (collision s) as [q|] eqn:Ecq.
  - (* the parked publish is handed over last, collides again with the oldest, and is parked again *)
    cbn [map app] in Hrun. unfold run in Hrun. cbn [run_with] in Hrun. unfold next in Hrun.
    pose proof (o_next s L O) as Hnx. rewrite Ecq in Hnx. destruct Hnx as [Hfull [Hq0 _]].
    destruct (i_coll s I q Ecq) as [Hbq Hqq].
    destruct L as [| p0 L0]; [cbn in Hfull; pose proof (i_max1 s I); lia|].
    destruct (o_pos s _ O 0%nat p0 eq_refl) as [Hr0 [Hp0 _]]. cbn in Hp0.
    pose proof (busy_range4 s _ I Hbq) as Hqr.
    assert (Eid : p_pkid q = p_pkid p0).
    { apply (pos_inj (last_puback s) (max_inflight s)); try lia. apply (i_lpa s I). }
    assert (Hbusy' : busy s' (p_pkid q) = true).
    { unfold busy. rewrite (proj2 (Hslots (p_pkid q) p0)); [reflexivity|]. split; [left; reflexivity|congruence]. }
    cbn [step handle_outgoing_packet] in Hrun. unfold outgoing_publish in Hrun.
    assert (Hpp : place_publish s' q = Ok (push_event (set_collision s' (Some q)) (EvOut (OAwaitAck (p_pkid q))), None)).
    { destruct (place_publish_eff s' q I' Hc') as [[Hgt _] | [[_ [_ He]] | [_ [Hbf _]]]]; try lia; try congruence.
      all: try (rewrite Hm', Hm1 in Hgt; lia). }
    destruct (p_qos q) eqn:Eqq; [congruence| |];
      (destruct (N.eqb_spec (p_pkid q) 0); [lia|]); rewrite Hpp in Hrun; cbn [bind] in Hrun; inversion Hrun; subst s2;
      (apply Hbase; sproj; auto; [apply inv_push, inv_set_collision; auto; rewrite Eqq; discriminate | congruence | congruence | congruence]).
  - cbn [map app] in Hrun. unfold run in Hrun. cbn [run_with] in Hrun. inversion Hrun. subst s2.
    apply Hbase; auto; congruence.
Qed.

Theorem clean_in_send_order_repeated max manual segs s L :
  1 <= max -> max <= 65535 ->
  srun (init max manual) [] segs = Some (s, L) ->
  exists s', clean s = Ok (s', map RPublish L ++ parked s).
Proof.
  intros H1 H2 Hr. apply ord_clean.
  assert (G : forall segs s0 L0, Ord s0 L0 -> srun s0 L0 segs = Some (s, L) -> Ord s L).
  { clear. induction segs as [| sg segs IH]; intros s0 L0 O Hr; cbn [srun] in Hr.
    - inversion Hr. subst. exact O.
    - destruct sg as [h|].
      + destruct (orun s0 L0 h) as [[s1 L1]|] eqn:Eo; [|discriminate]. eapply IH; [|exact Hr].
        clear Hr IH. revert s0 L0 O Eo. induction h as [| o h IHh]; intros s0 L0 O Eo; cbn [orun] in Eo.
        * inversion Eo. subst. exact O.
        * destruct (ostep s0 L0 o) as [[sa La]|] eqn:Es; [|discriminate]. eapply IHh; [|exact Eo]. eapply ostep_ord; eauto.
      + destruct (clean s0) as [[s1 reqs] | e | t] eqn:Ec; try discriminate.
        destruct (run s1 (map Out reqs)) as [s2|] eqn:Er; [|discriminate].
        eapply IH; [|exact Hr]. eapply resume_ord; eauto. }
  eapply G; [|exact Hr]. apply ord_init; assumption.
Qed.

(** non-vacuity: the history of the seeded change — ids wrap, failure, full replay, second failure
    before any PUBACK: the second clean() still returns the send order c(3), d(1), e(2) *)
Example order_repeated_nontrivial :
  let pubq tag := Out (RPublish (mkPub Q1 0 tag tag)) in
  let segs := [Ops [pubq 1; pubq 2; pubq 3; Inc (PPubAck 1); Inc (PPubAck 2); pubq 4; pubq 5]; Resume; Resume; Ops [Inc (PPubAck 3)]; Resume] in
  option_map (fun sl => map p_pkid (snd sl)) (srun (init 3 false) [] segs) = Some [1; 2]
  /\ option_map (fun sl => map p_payload (snd sl)) (srun (init 3 false) [] segs) = Some [4; 5]
  /\ k29 3 false (flatten (init 3 false) segs) = false /\ k30 (flatten (init 3 false) segs) = false.
Proof. vm_compute. repeat split. Qed.
