(** M-CLIENT vocabulary (MQTT 3.1.1 client, rumqttc/src/{lib,state}.rs): requests, packets,
    notifications, error kinds, panic tags, and the two indexed containers of [MqttState]
    ([Vec<Option<Publish>>] and [FixedBitSet]).  No proofs here. *)
From Rumqtt Require Export Base.Outcome.

Inductive qos := Q0 | Q1 | Q2.

(** [Publish].  [topic]/[payload] are opaque content tags (the drivers map tag k to the topic
    string "t<k>" and a payload holding k); [dup]/[retain] are never read or written by
    state.rs and are dropped. *)
Record publish := mkPub { p_qos : qos; p_pkid : N; p_topic : N; p_payload : N }.

Definition with_pkid (p : publish) (id : N) : publish :=
  mkPub (p_qos p) id (p_topic p) (p_payload p).

(** [rumqttc::Request] — all twelve variants.  Subscribe/Unsubscribe carry the number of
    filters (their pkid field is overwritten by the state machine). *)
Inductive request :=
| RPublish (p : publish)
| RPubAck (id : N) | RPubRec (id : N) | RPubComp (id : N) | RPubRel (id : N)
| RPingReq | RPingResp
| RSubscribe (n : N) | RSubAck (id : N)
| RUnsubscribe (n : N) | RUnsubAck (id : N)
| RDisconnect.

(** [mqttbytes::v4::Packet] — all fourteen variants. *)
Inductive packet :=
| PConnect | PConnAck (session_present : bool) (code : N)
| PPublish (p : publish)
| PPubAck (id : N) | PPubRec (id : N) | PPubRel (id : N) | PPubComp (id : N)
| PSubscribe (id n : N) | PSubAck (id : N)
| PUnsubscribe (id n : N) | PUnsubAck (id : N)
| PPingReq | PPingResp | PDisconnect.

(** [rumqttc::Outgoing] *)
Inductive outgoing :=
| OPublish (id : N) | OSubscribe (id : N) | OUnsubscribe (id : N)
| OPubAck (id : N) | OPubRec (id : N) | OPubRel (id : N) | OPubComp (id : N)
| OPingReq | OPingResp | ODisconnect | OAwaitAck (id : N).

Inductive event := EvIn (p : packet) | EvOut (o : outgoing).

(** [StateError] kinds that state.rs can produce *)
Inductive error :=
| EUnsolicited (id : N) | EAwaitPingResp | EWrongPacket | ECollisionTimeout | EEmptySubscription
| EConnectionAborted.   (* framed.rs: the transport ended; never produced by state.rs *)

(** panic tags *)
Definition P_INDEX : N := 1.        (* outgoing_pub[i] out of range *)
Definition P_BITSET : N := 2.       (* FixedBitSet::insert / set out of range *)
Definition P_SUB_OVERFLOW : N := 3. (* inflight -= 1 at 0 (overflow checks on) *)
Definition P_ADD_OVERFLOW : N := 4. (* u16 += 1 at 65535 (overflow checks on) *)
Definition P_UNIMPLEMENTED : N := 5. (* unimplemented!() arm of handle_outgoing_packet *)
Definition P_SPLIT : N := 6.        (* split_at_mut(mid) with mid > len *)

Definition U16_MAX : N := 65535.

(** ---- containers *)
Definition is_some {A} (o : option A) : bool := match o with Some _ => true | None => false end.

Definition idx (i : N) : nat := N.to_nat i.

(** [v.get(i)] *)
Definition vget {A} (l : list A) (i : N) : option A := nth_error l (idx i).

Fixpoint upd_nat {A} (l : list A) (i : nat) (x : A) : option (list A) :=
  match l, i with
  | [], _ => None
  | _ :: r, O => Some (x :: r)
  | y :: r, S j => match upd_nat r j x with Some r' => Some (y :: r') | None => None end
  end.

(** [v[i] = x]; [None] = index out of range *)
Definition vset {A} (l : list A) (i : N) (x : A) : option (list A) := upd_nat l (idx i) x.

(** [FixedBitSet::contains]: false when out of range *)
Definition bit (l : list bool) (i : N) : bool :=
  match vget l i with Some b => b | None => false end.

(** ids of the set bits, ascending ([FixedBitSet::ones]) *)
Fixpoint ones_from (l : list bool) (i : N) : list N :=
  match l with
  | [] => []
  | b :: r => if b then i :: ones_from r (i + 1) else ones_from r (i + 1)
  end.
Definition ones (l : list bool) : list N := ones_from l 0.

(** the [Some] entries of a slot vector, in index order *)
Fixpoint somes {A} (l : list (option A)) : list A :=
  match l with
  | [] => []
  | Some x :: r => x :: somes r
  | None :: r => somes r
  end.

Definition count_true (l : list bool) : N := lenN (filter (fun b => b) l).
Definition count_some {A} (l : list (option A)) : N := lenN (somes l).

(** [incoming_pub]: a FixedBitSet of capacity 65536 indexed by a u16 — never out of range;
    modelled as the list of set ids. *)
Definition iset_mem (l : list N) (i : N) : bool := existsb (N.eqb i) l.
Definition iset_add (l : list N) (i : N) : list N := if iset_mem l i then l else i :: l.
Definition iset_del (l : list N) (i : N) : list N := filter (fun j => negb (i =? j)) l.
