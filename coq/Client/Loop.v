(** M-LOOP: the part of [rumqttc::EventLoop] (rumqttc/src/eventloop.rs) that is logic, as a pure
    model over the v4 state machine.  One op = one thing that can happen to the event loop:

      UserSend r     a request enters the bounded flume channel (AsyncClient::publish etc.)
      Yield          poll() pops the oldest queued notification (done before any select arm runs)
      TakeRequest    the request arm of select(): enabled iff !inflight_full && !collision
                     (after the fix: commit a6a5e44; before it a non-empty pending bypassed the
                     guard — finding F7, [take_enabled_orig]) and something is there to take;
                     pending first, else the channel
      Net pkts       the readb arm: a batch of packets; replies are buffered and flushed after
                     the whole batch; an Err inside the batch fails the loop before the flush
      NetAbort pkts  the readb arm when the connection ends right after those packets: the state
                     machine has processed them, the buffered replies are NOT flushed, the loop
                     fails ("FailInBatch": the crash point inside a read batch)
      TakeCancelled  the request arm had started (next_request: sleep(pending_throttle), and only then
                     pop the request) and select() dropped it because another arm completed first:
                     nothing has been taken — the loop is unchanged
      KeepAliveFire  the keep-alive arm: handle_outgoing_packet(PingReq)
      Fail           any Err out of select(): EventLoop::clean() — the state's unacknowledged work
                     goes IN FRONT of what is still pending (after the fix: commit 0960300; before
                     it, behind — finding F31, [loop_clean_orig]), then the channel's requests
      Reconnect sp   poll() with no network: connect; pending.clear() iff !session_present

    The select arms only run when the notification queue is empty (select() returns a queued
    event first).  An op that is not enabled leaves the loop unchanged ([Disabled]).
    Not modelled: tokio (timers, fairness), the channel's capacity (it only blocks the sender),
    pending_throttle, network timeouts, byte-level framing (C05).  No proofs here. *)
From Rumqtt Require Export Client.State4 Client.Run4.

Record lstate := mkLoop {
  st : state;
  pending : list request;     (* EventLoop.pending *)
  chan : list request;        (* requests_rx contents, FIFO *)
  connected : bool;           (* network.is_some() *)
  wire : list packet;         (* packets flushed to the transport on the current connection *)
  yielded : list event }.     (* what poll() has returned so far (Ok values), in order *)

Inductive lop :=
| UserSend (r : request)
| Yield
| TakeRequest
| TakeCancelled
| Net (pkts : list packet)
| NetAbort (pkts : list packet)
| KeepAliveFire
| Fail
| Reconnect (session_present : bool).

Inductive lres := Stepped (l : lstate) | Failed (l : lstate) (e : error) | Disabled | LPanic (tag : N).

Definition linit (max : N) (manual : bool) : lstate :=
  mkLoop (init max manual) [] [] false [] [].

Definition with_st (l : lstate) (s : state) := mkLoop s (pending l) (chan l) (connected l) (wire l) (yielded l).
Definition with_wire (l : lstate) (w : list packet) := mkLoop (st l) (pending l) (chan l) (connected l) w (yielded l).

Definition not_puback (r : request) : bool := match r with RPubAck _ => false | _ => true end.

(** [EventLoop::clean]: drop the network; the state's pending work, then what was still pending,
    then the channel's requests (minus PubAcks) *)
Definition loop_clean (l : lstate) : Outcome (state * error) lstate :=
  match clean (st l) with
  | Ok (s', reqs) =>
      Ok (mkLoop s' (reqs ++ pending l ++ filter not_puback (chan l)) [] false (wire l) (yielded l))
  | Err e => Err e
  | Panic t => Panic t
  end.

(** before commit 0960300 *)
Definition loop_clean_orig (l : lstate) : Outcome (state * error) lstate :=
  match clean (st l) with
  | Ok (s', reqs) =>
      Ok (mkLoop s' (pending l ++ reqs ++ filter not_puback (chan l)) [] false (wire l) (yielded l))
  | Err e => Err e
  | Panic t => Panic t
  end.

(** an Err out of select(): clean(), and poll() returns the error *)
Definition fail_with_gen (lc : lstate -> Outcome (state * error) lstate) (l : lstate) (e : error) : lres :=
  match lc l with
  | Ok l' => Failed l' e
  | Err _ => LPanic 0
  | Panic t => LPanic t
  end.

(** the flow-control guard of the request arm, as written in select() *)
Definition inflight_full (l : lstate) : bool := max_inflight (st l) <=? inflight (st l).
Definition take_enabled (l : lstate) : bool :=
  connected l && match events (st l) with [] => true | _ => false end &&
  (negb (inflight_full l) && negb (is_some (collision (st l)))) &&
  negb (match pending l, chan l with [], [] => true | _, _ => false end).

(** before commit a6a5e44 *)
Definition take_enabled_orig (l : lstate) : bool :=
  connected l && match events (st l) with [] => true | _ => false end &&
  (negb (match pending l with [] => true | _ => false end)
   || (negb (inflight_full l) && negb (is_some (collision (st l))))) &&
  negb (match pending l, chan l with [], [] => true | _, _ => false end).

(** [next_request]: pending first *)
Definition next_request (l : lstate) : option (request * lstate) :=
  match pending l with
  | r :: rest => Some (r, mkLoop (st l) rest (chan l) (connected l) (wire l) (yielded l))
  | [] => match chan l with
          | r :: rest => Some (r, mkLoop (st l) [] rest (connected l) (wire l) (yielded l))
          | [] => None
          end
  end.

(** [readb] reads at most [max_readb_count - 1] packets per call (framed.rs: `count` starts at 1,
    is incremented after each handled packet, and the loop breaks when `count >= max_readb_count`,
    BEFORE the next frame is taken from the socket): what is readable beyond that stays in the
    transport for the next poll — nothing is dropped. *)
Definition max_readb_count : nat := 10.
Definition readb_take (inbox : list packet) : list packet * list packet :=
  (firstn (max_readb_count - 1) inbox, skipn (max_readb_count - 1) inbox).

(** [readb]: the packets of one batch, replies buffered *)
Fixpoint read_batch (s : state) (pkts : list packet) (buf : list packet) : Outcome (state * error) (state * list packet) :=
  match pkts with
  | [] => Ok (s, buf)
  | pk :: rest =>
      match handle_incoming_packet s pk with
      | Ok (s', Some reply) => read_batch s' rest (buf ++ [reply])
      | Ok (s', None) => read_batch s' rest buf
      | Err e => Err e
      | Panic t => Panic t
      end
  end.

Definition arm_ready (l : lstate) : bool :=
  connected l && match events (st l) with [] => true | _ => false end.

Definition lstep_gen (te : lstate -> bool) (lc : lstate -> Outcome (state * error) lstate) (l : lstate) (o : lop) : lres :=
  let fail_with := fail_with_gen lc in
  match o with
  | UserSend r => Stepped (mkLoop (st l) (pending l) (chan l ++ [r]) (connected l) (wire l) (yielded l))
  | Yield =>
      match events (st l) with
      | e :: rest => Stepped (mkLoop (set_events (st l) rest) (pending l) (chan l) (connected l) (wire l) (yielded l ++ [e]))
      | [] => Disabled
      end
  | TakeRequest =>
      if te l then
        match next_request l with
        | Some (r, l1) =>
            match handle_outgoing_packet (st l1) r with
            | Ok (s', Some pk) => Stepped (with_wire (with_st l1 s') (wire l1 ++ [pk]))
            | Ok (s', None) => Stepped (with_st l1 s')
            | Err (s', e) => fail_with (with_st l1 s') e
            | Panic t => LPanic t
            end
        | None => Disabled
        end
      else Disabled
  | TakeCancelled => Stepped l
  | Net pkts =>
      if arm_ready l && negb (match pkts with [] => true | _ => false end) then
        match read_batch (st l) pkts [] with
        | Ok (s', replies) => Stepped (with_wire (with_st l s') (wire l ++ replies))
        | Err (s', e) => fail_with (with_st l s') e
        | Panic t => LPanic t
        end
      else Disabled
  | NetAbort pkts =>
      if arm_ready l then
        match read_batch (st l) pkts [] with
        | Ok (s', _) => fail_with (with_st l s') EConnectionAborted
        | Err (s', e) => fail_with (with_st l s') e
        | Panic t => LPanic t
        end
      else Disabled
  | KeepAliveFire =>
      if arm_ready l then
        match handle_outgoing_packet (st l) RPingReq with
        | Ok (s', Some pk) => Stepped (with_wire (with_st l s') (wire l ++ [pk]))
        | Ok (s', None) => Stepped (with_st l s')
        | Err (s', e) => fail_with (with_st l s') e
        | Panic t => LPanic t
        end
      else Disabled
  | Fail =>
      if connected l then
        match lc l with
        | Ok l' => Stepped l'
        | Err _ => LPanic 0
        | Panic t => LPanic t
        end
      else Disabled
  | Reconnect sp =>
      if connected l then Disabled
      else Stepped (mkLoop (st l) (if sp then pending l else []) (chan l) true []
                           (yielded l ++ [EvIn (PConnAck sp 0)]))
  end.

Definition lstep := lstep_gen take_enabled loop_clean.
Definition lstep_orig := lstep_gen take_enabled_orig loop_clean_orig.
Definition fail_with := fail_with_gen loop_clean.

Definition lnext_gen (stp : lstate -> lop -> lres) (l : lstate) (o : lop) : option lstate :=
  match stp l o with
  | Stepped l' => Some l'
  | Failed l' _ => Some l'
  | Disabled => Some l
  | LPanic _ => None
  end.

Definition lnext := lnext_gen lstep.

Fixpoint lrun_gen (stp : lstate -> lop -> lres) (l : lstate) (h : list lop) : option lstate :=
  match h with
  | [] => Some l
  | o :: r => match lnext_gen stp l o with Some l' => lrun_gen stp l' r | None => None end
  end.
Definition lrun := lrun_gen lstep.
Definition lrun_orig := lrun_gen lstep_orig.
