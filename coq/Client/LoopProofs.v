(** Loop-level statements (C07 h, C02 resume, C11 first / no session) about Client/Loop.v, and the
    loop half of finding F7 as a model-level witness + known-finding class K7. *)
From Coq Require Import Arith ZifyBool ZifyN ZifyNat Permutation.
From Rumqtt Require Import Client.VecLemmas Client.Run4 Client.Inv4 Client.Eff4 Client.Flow4 Client.Loop.

(** K7: some TakeRequest of the history handed the state machine a request outside its contract
    ([op_ok]).  Before the fix: commits a6a5e44 / 0960300 the event loop did that itself: a QoS>0
    publish while a collision was parked (a non-empty [pending] bypassed the flow-control guard:
    F7), a replayed PUBREL whose id was busy ([pending ++ state.clean()] put fresh-id requests in
    front of it after a second failure: F31).  In the current loop it needs a request the client API
    cannot produce. Parameterised by the loop variant. *)
Definition take_ok_gen (te : lstate -> bool) (l : lstate) : bool :=
  if te l
  then match next_request l with Some (r, l1) => op_ok (st l1) (Out r) | None => true end
  else true.
Definition take_ok := take_ok_gen take_enabled.

Fixpoint k7_gen (te : lstate -> bool) (stp : lstate -> lop -> lres) (l : lstate) (h : list lop) : bool :=
  match h with
  | [] => false
  | o :: r =>
      (match o with TakeRequest => negb (take_ok_gen te l) | _ => false end)
      || match lnext_gen stp l o with Some l' => k7_gen te stp l' r | None => false end
  end.
Definition k7 := k7_gen take_enabled lstep.
Definition k7_orig := k7_gen take_enabled_orig lstep_orig.

Lemma read_batch_inv pkts : forall s buf, Inv s ->
  match read_batch s pkts buf with Ok (s', _) => Inv s' | Err (s', _) => Inv s' | Panic _ => False end.
Proof.
  induction pkts as [| pk pkts IH]; intros s buf I; cbn [read_batch]; [exact I|].
  pose proof (handle_incoming_packet_inv s pk I) as H.
  destruct (handle_incoming_packet s pk) as [[s' [rp|]] | [s' e] | t]; cbn [post] in H; try exact H; apply IH; exact H.
Qed.

Lemma loop_clean_inv l : Inv (st l) ->
  exists l', loop_clean l = Ok l' /\ Inv (st l') /\ connected l' = false /\ chan l' = [] /\ held (st l') = [] /\
    exists reqs, Permutation reqs (held (st l)) /\ pending l' = reqs ++ pending l ++ filter not_puback (chan l).
Proof.
  intros I. destruct (clean_returns_held (st l) I) as [s' [reqs [Hc [Hp [Hh I']]]]].
  unfold loop_clean. rewrite Hc. eexists. split; [reflexivity|]. cbn [st connected chan pending].
  split; [exact I'|]. split; [reflexivity|]. split; [reflexivity|]. split; [exact Hh|].
  exists reqs. split; [exact Hp|reflexivity].
Qed.

(** one loop op keeps the state invariant, provided a TakeRequest honours the contract *)
Theorem lstep_inv l o : Inv (st l) -> (o = TakeRequest -> take_ok l = true) ->
  match lstep l o with
  | Stepped l' => Inv (st l') | Failed l' _ => Inv (st l') | Disabled => True | LPanic _ => False
  end.
Proof.
  intros I Hok. unfold take_ok, take_ok_gen in Hok. destruct o; unfold lstep; cbn [lstep_gen]; fold fail_with.
  - exact I.
  - destruct (events (st l)) eqn:E; [exact Logic.I|]. cbn [st]. apply inv_set_events. exact I.
  - specialize (Hok eq_refl). destruct (take_enabled l); [|exact Logic.I].
    destruct (next_request l) as [[r l1]|] eqn:En; [|exact Logic.I].
    assert (Hst : st l1 = st l).
    { unfold next_request in En. destruct (pending l); [destruct (chan l); [discriminate|]|]; inversion En; reflexivity. }
    rewrite Hst in *.
    pose proof (handle_outgoing_packet_inv (st l) r I Hok) as H.
    destruct (handle_outgoing_packet (st l) r) as [[s' [pk|]] | [s' e] | t]; cbn [post] in H; try exact H; try contradiction.
    unfold fail_with, fail_with_gen. destruct (loop_clean_inv (with_st l1 s') H) as [l' [Hc [I' _]]]. rewrite Hc. exact I'.
  - exact I.
  - destruct (arm_ready l && negb _); [|exact Logic.I].
    pose proof (read_batch_inv pkts (st l) [] I) as H.
    destruct (read_batch (st l) pkts []) as [[s' rp] | [s' e] | t]; try exact H; try contradiction.
    unfold fail_with, fail_with_gen. destruct (loop_clean_inv (with_st l s') H) as [l' [Hc [I' _]]]. rewrite Hc. exact I'.
  - destruct (arm_ready l); [|exact Logic.I].
    pose proof (read_batch_inv pkts (st l) [] I) as H.
    destruct (read_batch (st l) pkts []) as [[s' rp] | [s' e] | t]; try contradiction;
      unfold fail_with, fail_with_gen; destruct (loop_clean_inv (with_st l s') H) as [l' [Hc [I' _]]]; rewrite Hc; exact I'.
  - destruct (arm_ready l); [|exact Logic.I].
    pose proof (outgoing_ping_inv (st l) I) as H. cbn [handle_outgoing_packet].
    destruct (outgoing_ping (st l)) as [[s' [pk|]] | [s' e] | t]; cbn [post] in H; try exact H; try contradiction.
    unfold fail_with, fail_with_gen. destruct (loop_clean_inv (with_st l s') H) as [l' [Hc [I' _]]]. rewrite Hc. exact I'.
  - destruct (connected l); [|exact Logic.I].
    destruct (loop_clean_inv l I) as [l' [Hc [I' _]]]. rewrite Hc. exact I'.
  - destruct (connected l); [exact Logic.I|exact I].
Qed.

Theorem lrun_inv h : forall l, Inv (st l) -> k7 l h = false -> exists l', lrun l h = Some l' /\ Inv (st l').
Proof.
  induction h as [| o h IH]; intros l I Hk; [exists l; split; [reflexivity|exact I]|].
  unfold k7 in Hk. cbn [k7_gen] in Hk. fold k7 in Hk. apply orb_false_iff in Hk. destruct Hk as [Hk1 Hk2].
  assert (Hok : o = TakeRequest -> take_ok l = true).
  { intros ->. unfold take_ok. destruct (take_ok_gen take_enabled l); [reflexivity|discriminate]. }
  pose proof (lstep_inv l o I Hok) as H. unfold lrun. cbn [lrun_gen]. fold lrun. unfold lnext_gen in *.
  destruct (lstep l o) as [l' | l' e | | t]; try contradiction; apply IH; assumption.
Qed.

Theorem lrun_inv_init max manual h : 1 <= max -> max <= 65535 -> k7 (linit max manual) h = false ->
  exists l, lrun (linit max manual) h = Some l /\ Inv (st l).
Proof. intros H1 H2. apply lrun_inv. cbn [linit st]. apply inv_init; assumption. Qed.

(** (h): a request — pending or from the channel — is taken iff the window is open and no
    collision is parked: a pure function of the current state, so the ack that re-opens the window
    re-enables the arm in that same state, with no further stimulus *)
Theorem take_guard l :
  connected l = true -> events (st l) = [] -> (pending l <> [] \/ chan l <> []) ->
  (take_enabled l = true <-> inflight (st l) < max_inflight (st l) /\ collision (st l) = None).
Proof.
  intros Hc He Hp. unfold take_enabled, inflight_full. rewrite Hc, He. cbn [andb].
  assert (Hne : negb (match pending l, chan l with [], [] => true | _, _ => false end) = true).
  { destruct (pending l), (chan l); cbn; try reflexivity. destruct Hp; congruence. }
  rewrite Hne, andb_true_r.
  destruct (collision (st l)); cbn [is_some negb]; split.
  - intros H. rewrite andb_false_r in H. discriminate.
  - intros [_ H]. discriminate.
  - intros H. rewrite andb_true_r in H. split; [lia|reflexivity].
  - intros [H _]. rewrite andb_true_r. lia.
Qed.

(** C11: no session -> nothing carried over is sent *)
Theorem reconnect_no_session l : connected l = false ->
  exists l', lstep l (Reconnect false) = Stepped l' /\ pending l' = [] /\ wire l' = [] /\ connected l' = true.
Proof. intros Hc. unfold lstep. cbn [lstep_gen]. rewrite Hc. eexists. split; [reflexivity|]. repeat split. Qed.

(** C11 / C02: what a failure leaves for the next connection, and that it is served first *)
Theorem fail_then_resume l : Inv (st l) -> connected l = true ->
  exists l1 l2 reqs,
    lstep l Fail = Stepped l1 /\ lstep l1 (Reconnect true) = Stepped l2 /\
    Permutation reqs (held (st l)) /\
    pending l2 = reqs ++ pending l ++ filter not_puback (chan l) /\ chan l2 = [] /\
    held (st l2) = [] /\ wire l2 = [] /\ connected l2 = true /\ Inv (st l2).
Proof.
  intros I Hc. destruct (loop_clean_inv l I) as [l1 [Hcl [I1 [Hc1 [Hch [Hh [reqs [Hp Hpend]]]]]]]].
  exists l1. eexists. exists reqs. unfold lstep. cbn [lstep_gen]. rewrite Hc, Hcl. split; [reflexivity|]. rewrite Hc1.
  split; [reflexivity|]. cbn [pending chan st wire connected].
  split; [exact Hp|]. split; [exact Hpend|]. split; [exact Hch|]. split; [exact Hh|]. split; [reflexivity|].
  split; [reflexivity|exact I1].
Qed.

(** pending is drained before the channel, in order; right after a resume the window is open and
    nothing is parked, so the first retransmission needs no stimulus at all, and every later one
    needs only the acknowledgements that open the window ([take_guard]) *)
Theorem pending_first l r rest :
  pending l = r :: rest ->
  next_request l = Some (r, mkLoop (st l) rest (chan l) (connected l) (wire l) (yielded l)) /\
  (connected l = true -> events (st l) = [] -> inflight (st l) < max_inflight (st l) -> collision (st l) = None ->
   take_enabled l = true).
Proof.
  intros Hp. split; [unfold next_request; rewrite Hp; reflexivity|].
  intros Hc He Hi Hcol. apply take_guard; auto. left. rewrite Hp. discriminate.
Qed.

(** every held publish / release is pending after fail + resume *)
Theorem resume_holds_all l : Inv (st l) -> connected l = true ->
  exists l1 l2, lstep l Fail = Stepped l1 /\ lstep l1 (Reconnect true) = Stepped l2 /\
    forall r, holds (st l) r -> List.In r (pending l2).
Proof.
  intros I Hc. destruct (fail_then_resume l I Hc) as [l1 [l2 [reqs [H1 [H2 [Hp [Hpend _]]]]]]].
  exists l1, l2. split; [exact H1|]. split; [exact H2|]. intros r Hr. rewrite Hpend.
  apply in_or_app. left.
  apply (Permutation_in r (Permutation_sym Hp)). apply in_held; assumption.
Qed.

(** ---- F7, loop half: the loop before commit a6a5e44 ([lstep_orig]); reproduced on the real
    EventLoop through harness/src/bin/clientloop.rs (build/client/f7loop.txt) *)
Definition pq1 (tag : N) : request := RPublish (mkPub Q1 0 tag tag).
Definition f7_loop_history : list lop :=
  [Reconnect true; UserSend (pq1 1); TakeRequest; Yield; UserSend (pq1 2); UserSend (pq1 3);
   Fail; Reconnect true; TakeRequest; Yield; TakeRequest; Yield; TakeRequest; Yield].

Lemma f7_loop_witness :
  k7_orig (linit 1 false) f7_loop_history = true /\
  option_map (fun l => (held (st l), pending l, chan l, wire l)) (lrun_orig (linit 1 false) f7_loop_history)
  = Some ([RPublish (mkPub Q1 1 1 1); RPublish (mkPub Q1 1 3 3)], [], [], [PPublish (mkPub Q1 1 1 1)])
  /\ k7 (linit 1 false) f7_loop_history = false /\
  option_map (fun l => (held (st l), pending l, chan l, wire l)) (lrun (linit 1 false) f7_loop_history)
  = Some ([RPublish (mkPub Q1 1 1 1)], [pq1 2; pq1 3], [], [PPublish (mkPub Q1 1 1 1)]).
Proof. vm_compute. repeat split. Qed.

(** ---- F31: a second failure before pending is drained; before commit 0960300 the queued publish
    overtakes the PUBREL retransmission and is sent under the id (1) whose release is still open *)
Definition f31_loop_history : list lop :=
  [Reconnect true; UserSend (RPublish (mkPub Q2 0 1 1)); TakeRequest; Yield; Net [PPubRec 1]; Yield; Yield;
   UserSend (pq1 2); Fail; Reconnect true; TakeRequest; Yield; Fail; Reconnect true; TakeRequest; Yield].

Lemma f31_loop_witness :
  option_map wire (lrun_orig (linit 1 false) f31_loop_history) = Some [PPublish (mkPub Q1 1 2 2)]
  /\ option_map (fun l => (wire l, pending l)) (lrun (linit 1 false) f31_loop_history) = Some ([PPubRel 1], [pq1 2]).
Proof. vm_compute. split; reflexivity. Qed.

(** a non-trivial history on which K7 is false: window-full backlog, failure, resume, acks *)
Example k7_false_nontrivial :
  k7 (linit 2 false)
     [Reconnect true; UserSend (pq1 1); UserSend (pq1 2); UserSend (pq1 3); TakeRequest; Yield; TakeRequest; Yield;
      Fail; Reconnect true; TakeRequest; Yield; TakeRequest; Yield; Net [PPubAck 1]; Yield; TakeRequest; Yield] = false.
Proof. vm_compute. reflexivity. Qed.

(** the read batch limit loses nothing: what one readb call does not take is left for the next *)
Theorem readb_take_keeps_all inbox :
  fst (readb_take inbox) ++ snd (readb_take inbox) = inbox /\ (length (fst (readb_take inbox)) <= 9)%nat.
Proof. unfold readb_take. cbn [fst snd]. split; [apply firstn_skipn|apply firstn_le_length]. Qed.

(** pending_throttle: next_request sleeps BEFORE it pops the request, so a request arm that select()
    cancels during the throttle wait (a broker packet or the keep-alive timer came first) has taken
    nothing: pending, the channel and the state are exactly what they were, and the retransmission
    is attempted again by the next poll *)
Theorem throttle_cancel_safe l : lstep l TakeCancelled = Stepped l /\
  forall l', lstep l TakeCancelled = Stepped l' -> pending l' = pending l /\ chan l' = chan l /\ st l' = st l.
Proof. split; [reflexivity|]. intros l' H. inversion H. subst. auto. Qed.

(** retransmit first over a SECOND failure while the replay is incomplete and the channel is not
    empty: [loop_clean] puts what the state holds, then what was STILL pending, then the channel.
    Three publishes unacknowledged, failure, resume, one retransmission, two new user publishes,
    second failure: pending is 1, 2, 3 (original ids) and only then 4, 5 — and [pending_first]
    applies to that state: they are taken in this order on the next connection *)
Definition replay_cut_history : list lop :=
  [Reconnect true; UserSend (pq1 1); UserSend (pq1 2); UserSend (pq1 3); TakeRequest; Yield; TakeRequest; Yield; TakeRequest; Yield;
   Fail; Reconnect true; TakeRequest; Yield; UserSend (pq1 4); UserSend (pq1 5); Fail].

Example second_failure_during_replay :
  option_map (fun l => (pending l, chan l)) (lrun (linit 10 false) replay_cut_history)
  = Some ([RPublish (mkPub Q1 1 1 1); RPublish (mkPub Q1 2 2 2); RPublish (mkPub Q1 3 3 3); pq1 4; pq1 5], []) /\
  option_map wire (lrun (linit 10 false)
    (replay_cut_history ++ [Reconnect true; TakeRequest; Yield; TakeRequest; Yield; TakeRequest; Yield; TakeRequest; Yield; TakeRequest; Yield]))
  = Some [PPublish (mkPub Q1 1 1 1); PPublish (mkPub Q1 2 2 2); PPublish (mkPub Q1 3 3 3); PPublish (mkPub Q1 4 4 4); PPublish (mkPub Q1 5 5 5)].
Proof. vm_compute. split; reflexivity. Qed.

(** the general step behind it: whatever is still pending stays in front of the channel's requests *)
Theorem clean_keeps_pending_before_channel l : Inv (st l) ->
  exists l' reqs, loop_clean l = Ok l' /\ pending l' = reqs ++ pending l ++ filter not_puback (chan l) /\ chan l' = [].
Proof.
  intros I. destruct (loop_clean_inv l I) as [l' [Hc [_ [_ [Hch [_ [reqs [_ Hp]]]]]]]]. exists l', reqs. auto.
Qed.
