(** M-CLIENT (v4): executable model of [rumqttc::MqttState] (rumqttc/src/state.rs), written
    function by function after the Rust.  Dev profile (overflow checks on).  No proofs here.
    This is the code AFTER the fix: commits for findings F4 (af37a3d), F9 (3b55918) and
    F8 (d47ed07); the code as it was before them is Client/State4Orig.v.

    Every function returns [Outcome (state * error) (state * A)]: a Rust [Err] leaves the
    mutations done before the [?] in place, so the error case carries the state too.
    Dropped: [last_incoming]/[last_outgoing] (feed a debug! line only), log output. *)
From Rumqtt Require Export Client.Types.

Record state := mkState {
  await_pingresp : bool;
  collision_ping_count : N;
  last_pkid : N;
  last_puback : N;
  inflight : N;
  max_inflight : N;
  outgoing_pub : list (option publish);   (* Vec<Option<Publish>>, len max_inflight+1 *)
  outgoing_rel : list bool;               (* FixedBitSet, capacity max_inflight+1 *)
  incoming_pub : list N;                  (* FixedBitSet, capacity 65536 *)
  collision : option publish;
  events : list event;                    (* VecDeque<Event>, push_back = append *)
  manual_acks : bool }.

Definition R (A : Type) := Outcome (state * error) (state * A).

Definition set_await (s : state) v := mkState v (collision_ping_count s) (last_pkid s) (last_puback s) (inflight s) (max_inflight s) (outgoing_pub s) (outgoing_rel s) (incoming_pub s) (collision s) (events s) (manual_acks s).
Definition set_cpc (s : state) v := mkState (await_pingresp s) v (last_pkid s) (last_puback s) (inflight s) (max_inflight s) (outgoing_pub s) (outgoing_rel s) (incoming_pub s) (collision s) (events s) (manual_acks s).
Definition set_last_pkid (s : state) v := mkState (await_pingresp s) (collision_ping_count s) v (last_puback s) (inflight s) (max_inflight s) (outgoing_pub s) (outgoing_rel s) (incoming_pub s) (collision s) (events s) (manual_acks s).
Definition set_last_puback (s : state) v := mkState (await_pingresp s) (collision_ping_count s) (last_pkid s) v (inflight s) (max_inflight s) (outgoing_pub s) (outgoing_rel s) (incoming_pub s) (collision s) (events s) (manual_acks s).
Definition set_inflight (s : state) v := mkState (await_pingresp s) (collision_ping_count s) (last_pkid s) (last_puback s) v (max_inflight s) (outgoing_pub s) (outgoing_rel s) (incoming_pub s) (collision s) (events s) (manual_acks s).
Definition set_pub (s : state) v := mkState (await_pingresp s) (collision_ping_count s) (last_pkid s) (last_puback s) (inflight s) (max_inflight s) v (outgoing_rel s) (incoming_pub s) (collision s) (events s) (manual_acks s).
Definition set_rel (s : state) v := mkState (await_pingresp s) (collision_ping_count s) (last_pkid s) (last_puback s) (inflight s) (max_inflight s) (outgoing_pub s) v (incoming_pub s) (collision s) (events s) (manual_acks s).
Definition set_incoming (s : state) v := mkState (await_pingresp s) (collision_ping_count s) (last_pkid s) (last_puback s) (inflight s) (max_inflight s) (outgoing_pub s) (outgoing_rel s) v (collision s) (events s) (manual_acks s).
Definition set_collision (s : state) v := mkState (await_pingresp s) (collision_ping_count s) (last_pkid s) (last_puback s) (inflight s) (max_inflight s) (outgoing_pub s) (outgoing_rel s) (incoming_pub s) v (events s) (manual_acks s).
Definition set_events (s : state) v := mkState (await_pingresp s) (collision_ping_count s) (last_pkid s) (last_puback s) (inflight s) (max_inflight s) (outgoing_pub s) (outgoing_rel s) (incoming_pub s) (collision s) v (manual_acks s).

Definition push_event (s : state) (e : event) : state := set_events s (events s ++ [e]).

(** [MqttState::new] *)
Definition init (max : N) (manual : bool) : state :=
  mkState false 0 0 0 0 max
          (repeat None (S (idx max))) (repeat false (S (idx max))) []
          None [] manual.

(** [self.inflight += 1] / [-= 1] on a u16 with overflow checks *)
Definition inflight_inc (s : state) : R unit :=
  if inflight s =? U16_MAX then Panic P_ADD_OVERFLOW else Ok (set_inflight s (inflight s + 1), tt).
Definition inflight_dec (s : state) : R unit :=
  if inflight s =? 0 then Panic P_SUB_OVERFLOW else Ok (set_inflight s (inflight s - 1), tt).

(** [self.outgoing_pub[i] = v] *)
Definition pub_store (s : state) (i : N) (v : option publish) : R unit :=
  match vset (outgoing_pub s) i v with
  | Some l => Ok (set_pub s l, tt)
  | None => Panic P_INDEX
  end.

(** [self.outgoing_rel.insert(i)] / [.set(i, false)] *)
Definition rel_set (s : state) (i : N) (v : bool) : R unit :=
  match vset (outgoing_rel s) i v with
  | Some l => Ok (set_rel s l, tt)
  | None => Panic P_BITSET
  end.

(** [next_pkid] *)
Definition next_pkid (s : state) : R N :=
  if last_pkid s =? U16_MAX then Panic P_ADD_OVERFLOW
  else
    let n := last_pkid s + 1 in
    if n =? max_inflight s then Ok (set_last_pkid s 0, n)
    else Ok (set_last_pkid s n, n).

(** [check_collision] *)
Definition check_collision (s : state) (pkid : N) : state * option publish :=
  match collision s with
  | Some p => if p_pkid p =? pkid then (set_collision s None, Some p) else (s, None)
  | None => (s, None)
  end.

(** the closure both ack handlers run on a resolved collision (since the fix: commit for F4
    handle_incoming_pubcomp records the publish too, as handle_incoming_puback always did) *)
Definition resend_collided (s : state) (p : publish) : R (option packet) :=
  do (s, _) <- pub_store s (p_pkid p) (Some p);
  do (s, _) <- inflight_inc s;
  let s := push_event s (EvOut (OPublish (p_pkid p))) in
  Ok (set_cpc s 0, Some (PPublish p)).

(** [outgoing_publish], second half: the collision test and the bookkeeping, once the publish
    carries its id *)
Definition place_publish (s : state) (p : publish) : R (option packet) :=
  let pkid := p_pkid p in
  match vget (outgoing_pub s) pkid with
  | None => Err (s, EUnsolicited pkid)
  | Some slot =>
      if is_some slot || bit (outgoing_rel s) pkid
      then Ok (push_event (set_collision s (Some p)) (EvOut (OAwaitAck pkid)), None)
      else
        do (s, _) <- pub_store s pkid (Some p);
        do (s, _) <- inflight_inc s;
        Ok (push_event s (EvOut (OPublish pkid)), Some (PPublish p))
  end.

(** [outgoing_publish] *)
Definition outgoing_publish (s : state) (p : publish) : R (option packet) :=
  match p_qos p with
  | Q0 => Ok (push_event s (EvOut (OPublish (p_pkid p))), Some (PPublish p))
  | _ =>
      if p_pkid p =? 0
      then do (s, id) <- next_pkid s; place_publish s (with_pkid p id)
      else place_publish s p
  end.

(** [save_pubrel] + [outgoing_pubrel] *)
Definition outgoing_pubrel (s : state) (id : N) : R (option packet) :=
  do (s, id) <- (if id =? 0 then next_pkid s else Ok (s, id));
  do (s, _) <- rel_set s id true;
  do (s, _) <- inflight_inc s;
  Ok (push_event s (EvOut (OPubRel id)), Some (PPubRel id)).

Definition outgoing_puback (s : state) (id : N) : R (option packet) :=
  Ok (push_event s (EvOut (OPubAck id)), Some (PPubAck id)).

Definition outgoing_pubrec (s : state) (id : N) : R (option packet) :=
  Ok (push_event s (EvOut (OPubRec id)), Some (PPubRec id)).

(** [outgoing_ping]; [collision_ping_count] is a usize (no overflow modelled) *)
Definition outgoing_ping (s : state) : R (option packet) :=
  let chk :=
    if is_some (collision s)
    then let s := set_cpc s (collision_ping_count s + 1) in
         if 2 <=? collision_ping_count s then Err (s, ECollisionTimeout) else Ok (s, tt)
    else Ok (s, tt) in
  do (s, _) <- chk;
  if await_pingresp s then Err (s, EAwaitPingResp)
  else Ok (push_event (set_await s true) (EvOut OPingReq), Some PPingReq).

Definition outgoing_subscribe (s : state) (n : N) : R (option packet) :=
  if n =? 0 then Err (s, EEmptySubscription)
  else
    do (s, id) <- next_pkid s;
    Ok (push_event s (EvOut (OSubscribe id)), Some (PSubscribe id n)).

Definition outgoing_unsubscribe (s : state) (n : N) : R (option packet) :=
  do (s, id) <- next_pkid s;
  Ok (push_event s (EvOut (OUnsubscribe id)), Some (PUnsubscribe id n)).

Definition outgoing_disconnect (s : state) : R (option packet) :=
  Ok (push_event s (EvOut ODisconnect), Some PDisconnect).

(** [handle_outgoing_packet] *)
Definition handle_outgoing_packet (s : state) (r : request) : R (option packet) :=
  match r with
  | RPublish p => outgoing_publish s p
  | RPubRel id => outgoing_pubrel s id
  | RSubscribe n => outgoing_subscribe s n
  | RUnsubscribe n => outgoing_unsubscribe s n
  | RPingReq => outgoing_ping s
  | RDisconnect => outgoing_disconnect s
  | RPubAck id => outgoing_puback s id
  | RPubRec id => outgoing_pubrec s id
  | RPubComp _ | RPingResp | RSubAck _ | RUnsubAck _ => Panic P_UNIMPLEMENTED
  end.

(** [handle_incoming_publish] *)
Definition handle_incoming_publish (s : state) (p : publish) : R (option packet) :=
  match p_qos p with
  | Q0 => Ok (s, None)
  | Q1 => if manual_acks s then Ok (s, None) else outgoing_puback s (p_pkid p)
  | Q2 =>
      let s := set_incoming s (iset_add (incoming_pub s) (p_pkid p)) in
      if manual_acks s then Ok (s, None) else outgoing_pubrec s (p_pkid p)
  end.

(** [handle_incoming_puback] *)
Definition handle_incoming_puback (s : state) (id : N) : R (option packet) :=
  match vget (outgoing_pub s) id with
  | None => Err (s, EUnsolicited id)
  | Some slot =>
      let s := set_last_puback s id in
      match slot with
      | None => Err (s, EUnsolicited id)
      | Some _ =>
          do (s, _) <- pub_store s id None;
          do (s, _) <- inflight_dec s;
          match check_collision s id with
          | (s, Some p) => resend_collided s p
          | (s, None) => Ok (s, None)
          end
      end
  end.

(** [handle_incoming_pubrec] *)
Definition handle_incoming_pubrec (s : state) (id : N) : R (option packet) :=
  match vget (outgoing_pub s) id with
  | None => Err (s, EUnsolicited id)
  | Some None => Err (s, EUnsolicited id)
  | Some (Some _) =>
      do (s, _) <- pub_store s id None;
      do (s, _) <- rel_set s id true;
      Ok (push_event s (EvOut (OPubRel id)), Some (PPubRel id))
  end.

(** [handle_incoming_pubrel] *)
Definition handle_incoming_pubrel (s : state) (id : N) : R (option packet) :=
  if negb (iset_mem (incoming_pub s) id) then Err (s, EUnsolicited id)
  else
    let s := set_incoming s (iset_del (incoming_pub s) id) in
    Ok (push_event s (EvOut (OPubComp id)), Some (PPubComp id)).

(** [handle_incoming_pubcomp] *)
Definition handle_incoming_pubcomp (s : state) (id : N) : R (option packet) :=
  if negb (bit (outgoing_rel s) id) then Err (s, EUnsolicited id)
  else
    do (s, _) <- rel_set s id false;
    do (s, _) <- inflight_dec s;
    match check_collision s id with
    | (s, Some p) => resend_collided s p
    | (s, None) => Ok (s, None)
    end.

(** [handle_incoming_packet] *)
Definition handle_incoming_packet (s : state) (pk : packet) : R (option packet) :=
  let s := push_event s (EvIn pk) in
  match pk with
  | PPingResp => Ok (set_await s false, None)
  | PPublish p => handle_incoming_publish s p
  | PSubAck _ => Ok (s, None)
  | PUnsubAck _ => Ok (s, None)
  | PPubAck id => handle_incoming_puback s id
  | PPubRec id => handle_incoming_pubrec s id
  | PPubRel id => handle_incoming_pubrel s id
  | PPubComp id => handle_incoming_pubcomp s id
  | PConnect | PConnAck _ _ | PSubscribe _ _ | PUnsubscribe _ _ | PPingReq | PDisconnect =>
      Err (s, EWrongPacket)
  end.

(** [clean]: [split_at_mut(last_puback + 1)], second half first; then the releases; then the
    parked collision (F8 fix) *)
Definition clean (s : state) : Outcome (state * error) (state * list request) :=
  let mid := S (idx (last_puback s)) in
  if Nat.ltb (length (outgoing_pub s)) mid then Panic P_SPLIT
  else
    let first_half := firstn mid (outgoing_pub s) in
    let second_half := skipn mid (outgoing_pub s) in
    let pubs := map RPublish (somes (second_half ++ first_half)) in
    let rels := map RPubRel (ones (outgoing_rel s)) in
    let parked := match collision s with Some p => [RPublish p] | None => [] end in
    let s := set_pub s (repeat None (length (outgoing_pub s))) in
    let s := set_rel s (repeat false (length (outgoing_rel s))) in
    let s := set_collision s None in
    let s := set_incoming s [] in
    let s := set_await s false in
    let s := set_cpc s 0 in
    let s := set_inflight s 0 in
    Ok (s, pubs ++ rels ++ parked).

(** ---- the state machine the drivers step: one op = one public API call *)
Inductive op := Out (r : request) | Inc (p : packet) | Clean.

Inductive reply := Wrote (p : option packet) | Cleaned (l : list request).

Definition step (s : state) (o : op) : R reply :=
  match o with
  | Out r => do (s, p) <- handle_outgoing_packet s r; Ok (s, Wrote p)
  | Inc pk => do (s, p) <- handle_incoming_packet s pk; Ok (s, Wrote p)
  | Clean => do (s, l) <- clean s; Ok (s, Cleaned l)
  end.

(** what the drivers print after each op: the notifications queued so far, then drained *)
Definition drain (s : state) : list event * state := (events s, set_events s []).
