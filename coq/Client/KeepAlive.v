(** M-KEEPALIVE: the keep-alive logic of [rumqttc::EventLoop] + [MqttState::outgoing_ping] over
    discrete virtual time (ms).  Written after eventloop.rs (poll: the timer is created at
    connect time iff keep_alive != 0; select: the timer arm resets the timer to NOW + keep_alive,
    then handle_outgoing_packet(PingReq); any Err runs clean(), which drops the timer) and state.rs
    (outgoing_ping: CollisionTimeout on the second ping while a collision is parked, AwaitPingResp
    if the previous ping is unanswered; handle_incoming_pingresp clears the flag).

    State: the timer's deadline (None = no timer: keep-alive 0, or not connected), the
    outstanding-ping flag, the parked-collision flag and its ping counter.
    Events, each stamped with the virtual time at which poll() handles it:
      Connect t      the connection is established at t (CONNACK read)
      Tick t         poll() runs the select at time t: if the deadline has passed the timer arm runs
      PingResp t     a PINGRESP is processed at t
      Other t        any other traffic, either direction (publishes, acks, subscribes ...)
      Parked t / Resolved t   a publish is parked on a packet id collision / the collision resolves
      ConnFail t     the connection ends for any other reason; the next Connect starts a new one
    No proofs here. *)
From Rumqtt Require Export Base.Outcome.

Record kstate := mkK {
  deadline : option N;     (* keepalive_timeout: Some d = the Sleep fires at d *)
  await : bool;            (* MqttState.await_pingresp *)
  coll : bool;             (* MqttState.collision.is_some() *)
  cpc : N }.               (* MqttState.collision_ping_count *)

Inductive kev :=
| Connect (t : N) | Tick (t : N) | PingResp (t : N) | Other (t : N) | Parked (t : N) | Resolved (t : N)
| ConnFail (t : N).   (* any other Err out of select() (transport closed, unsolicited ack, ...): EventLoop::clean() *)

Definition time_of (e : kev) : N :=
  match e with Connect t | Tick t | PingResp t | Other t | Parked t | Resolved t | ConnFail t => t end.

Inductive kout :=
| PingReqAt (t : N)          (* PINGREQ handed to the network at t *)
| ErrAwait (t : N)           (* poll() returns StateError::AwaitPingResp at t *)
| ErrCollision (t : N).      (* poll() returns StateError::CollisionTimeout at t *)

Definition kinit : kstate := mkK None false false 0.

(** EventLoop::clean + MqttState::clean: no timer, no outstanding ping, counter 0, collision handed back *)
Definition kclean (s : kstate) : kstate := mkK None false false 0.

(** [outgoing_ping] at time t *)
Definition kping (s : kstate) (t : N) : kstate * kout :=
  let cpc' := if coll s then cpc s + 1 else cpc s in
  if coll s && (2 <=? cpc') then (kclean s, ErrCollision t)
  else if await s then (kclean s, ErrAwait t)
  else (mkK (deadline s) true (coll s) cpc', PingReqAt t).

(** [zero_guard]: the timer is only created when keep_alive != 0.  True for the v4 loop, and for
    the v5 loop since the fix: commit 30fc7fa; before it the v5 loop created (and polled) the timer
    unconditionally, and the server can assign keep alive 0 in CONNACK (finding F32). *)
Definition kstep_gen (zero_guard : bool) (ka : N) (s : kstate) (e : kev) : kstate * list kout :=
  match e with
  | Connect t =>
      (* poll(): `if keepalive_timeout.is_none() && !keep_alive.is_zero()` *)
      (mkK (match deadline s with
            | Some d => Some d
            | None => if zero_guard && (ka =? 0) then None else Some (t + ka)
            end) (await s) (coll s) (cpc s), [])
  | Tick t =>
      match deadline s with
      | Some d =>
          if d <=? t
          then (* the arm: reset(Instant::now() + keep_alive), then the ping *)
            let (s', o) := kping (mkK (Some (t + ka)) (await s) (coll s) (cpc s)) t in (s', [o])
          else (s, [])
      | None => (s, [])
      end
  | PingResp _ => (mkK (deadline s) false (coll s) (cpc s), [])
  | Other _ => (s, [])
  | Parked _ => (mkK (deadline s) (await s) true (cpc s), [])
  | Resolved _ => (mkK (deadline s) (await s) false 0, [])
  | ConnFail _ => (kclean s, [])
  end.

Definition kstep := kstep_gen true.
Definition kstep_v5_orig := kstep_gen false.

Fixpoint krun_gen (stp : N -> kstate -> kev -> kstate * list kout) (ka : N) (s : kstate) (tr : list kev) : kstate * list kout :=
  match tr with
  | [] => (s, [])
  | e :: r => let (s1, o1) := stp ka s e in let (s2, o2) := krun_gen stp ka s1 r in (s2, o1 ++ o2)
  end.
Definition krun := krun_gen kstep.
Definition krun_v5_orig := krun_gen kstep_v5_orig.

(** "prompt polling": poll() is called again as soon as it returns, so nothing is handled after a
    pending deadline before the timer arm has run — no event overshoots the deadline *)
Definition prompt_ev (s : kstate) (e : kev) : bool :=
  match deadline s with Some d => time_of e <=? d | None => true end.

Fixpoint prompt (ka : N) (s : kstate) (tr : list kev) : bool :=
  match tr with
  | [] => true
  | e :: r => prompt_ev s e && prompt ka (fst (kstep ka s e)) r
  end.

Definition is_err (o : kout) : bool := match o with PingReqAt _ => false | _ => true end.
Definition is_ping (o : kout) : bool := match o with PingReqAt _ => true | _ => false end.
Definition ping_time (o : kout) : N := match o with PingReqAt t | ErrAwait t | ErrCollision t => t end.

(** the connect step of poll(): `timeout(connection_timeout, connect(..))`.  [handshake] = the
    virtual time the handshake takes, None = it never completes.  A handshake completing at exactly
    the limit races with the timer (observed on the real loop: the timeout wins when the broker's
    answer is produced in that same instant); the theorems only speak about the strict cases. *)
Inductive conn_result := Connected (at_ms : N) | NetworkTimeout (at_ms : N).
Definition poll_connect (timeout_ms : N) (handshake : option N) : conn_result :=
  match handshake with
  | Some h => if h <? timeout_ms then Connected h else NetworkTimeout timeout_ms
  | None => NetworkTimeout timeout_ms
  end.
