(** The state invariant of the v4 client state machine (DESIGN §7 C07, conjuncts a-c, f, g)
    and its preservation by every op that honours the caller contract [op_ok]. *)
From Coq Require Import Arith ZifyBool ZifyN ZifyNat.
From Rumqtt Require Import Client.VecLemmas Client.Run4.

Arguments N.add : simpl never.
Arguments N.sub : simpl never.
Arguments N.eqb : simpl never.
Arguments N.leb : simpl never.
Arguments N.ltb : simpl never.

Ltac sproj :=
  cbn [await_pingresp collision_ping_count last_pkid last_puback inflight max_inflight outgoing_pub
       outgoing_rel incoming_pub collision events manual_acks set_await set_cpc set_last_pkid
       set_last_puback set_inflight set_pub set_rel set_incoming set_collision set_events push_event] in *.

Definition pub_at (s : state) (i : N) : option publish :=
  match vget (outgoing_pub s) i with Some (Some p) => Some p | _ => None end.

Record Inv (s : state) : Prop := mkInv {
  i_max1 : 1 <= max_inflight s;
  i_max2 : max_inflight s <= U16_MAX;
  i_lenp : length (outgoing_pub s) = S (idx (max_inflight s));
  i_lenr : length (outgoing_rel s) = S (idx (max_inflight s));
  (* a *) i_slot : forall i p, vget (outgoing_pub s) i = Some (Some p) -> p_pkid p = i /\ 1 <= i /\ p_qos p <> Q0;
  i_rel0 : bit (outgoing_rel s) 0 = false;
  i_excl : forall i p, vget (outgoing_pub s) i = Some (Some p) -> bit (outgoing_rel s) i = false;
  (* b *) i_lpk : last_pkid s < max_inflight s;
  i_lpa : last_puback s <= max_inflight s;
  (* c *) i_infl : inflight s = count_some (outgoing_pub s) + count_true (outgoing_rel s);
  (* g *) i_coll : forall p, collision s = Some p -> busy s (p_pkid p) = true /\ p_qos p <> Q0 }.

Lemma idx_lt_len (m i : N) : (idx i < S (idx m))%nat <-> i <= m.
Proof. unfold idx. lia. Qed.

Lemma bound_raw (m : N) (pubs : list (option publish)) (rels : list bool) :
  length pubs = S (idx m) -> length rels = S (idx m) ->
  (forall i p, vget pubs i = Some (Some p) -> 1 <= i /\ bit rels i = false) ->
  bit rels 0 = false ->
  count_some pubs + count_true rels <= m.
Proof.
  intros Hp Hr Hex H0.
  destruct pubs as [| o pubs]; [discriminate|]. destruct rels as [| b rels]; [discriminate|].
  cbn [length] in Hp, Hr.
  assert (o = None).
  { destruct o as [x|]; [|reflexivity]. destruct (Hex 0 x eq_refl) as [H1 _]. lia. }
  assert (b = false) by (unfold bit, vget in H0; cbn in H0; exact H0).
  subst. rewrite count_some_cons, count_true_cons. cbn [is_some b2n].
  assert (H : count_some pubs + count_true rels <= lenN pubs).
  { apply count_excl_le; [lia|]. intros i x Hi.
    destruct (Hex (N.of_nat (S i)) x) as [_ Hb].
    - unfold vget, idx. rewrite Nat2N.id. exact Hi.
    - unfold bit, vget, idx in Hb. rewrite Nat2N.id in Hb. cbn [nth_error] in Hb.
      destruct (nth_error rels i) as [[|]|] eqn:E; try discriminate; [reflexivity|].
      apply nth_error_None in E. assert (i < length pubs)%nat by (apply nth_error_Some; congruence). lia. }
  unfold lenN in H. unfold idx in *. lia.
Qed.

Lemma inv_bound s : Inv s -> inflight s <= max_inflight s.
Proof.
  intros I. rewrite (i_infl s I). apply bound_raw; try apply I.
  intros i p Hi. split; [apply (i_slot s I i p Hi)|apply (i_excl s I i p Hi)].
Qed.

Lemma inv_init max manual : 1 <= max -> max <= U16_MAX -> Inv (init max manual).
Proof.
  intros H1 H2. unfold init. constructor; sproj; try assumption; try lia.
  - apply repeat_length.
  - apply repeat_length.
  - intros i p H. rewrite vget_repeat in H. destruct (Nat.ltb (idx i) (S (idx max))); discriminate.
  - apply bit_repeat_false.
  - intros i p H. rewrite vget_repeat in H. destruct (Nat.ltb (idx i) (S (idx max))); discriminate.
  - rewrite count_some_repeat_none, count_true_repeat_false. reflexivity.
  - intros p H. discriminate.
Qed.

(** fields that do not take part in the invariant can be changed freely *)
Lemma inv_frame s s' :
  Inv s ->
  max_inflight s' = max_inflight s -> outgoing_pub s' = outgoing_pub s -> outgoing_rel s' = outgoing_rel s ->
  last_pkid s' = last_pkid s -> last_puback s' = last_puback s -> inflight s' = inflight s ->
  collision s' = collision s -> Inv s'.
Proof.
  intros I Hm Hp Hr Hk Ha Hi Hc.
  constructor; unfold busy; rewrite ?Hm, ?Hp, ?Hr, ?Hk, ?Ha, ?Hi, ?Hc; try apply I.
  all: try (intros p Hcp; apply (i_coll s I p Hcp)).
Qed.

Lemma inv_push s e : Inv s -> Inv (push_event s e).
Proof. intros I. eapply inv_frame; eauto. Qed.

Lemma inv_set_events s e : Inv s -> Inv (set_events s e).
Proof. intros I. eapply inv_frame; eauto. Qed.

Lemma inv_set_await s v : Inv s -> Inv (set_await s v).
Proof. intros I. eapply inv_frame; eauto. Qed.

Lemma inv_set_cpc s v : Inv s -> Inv (set_cpc s v).
Proof. intros I. eapply inv_frame; eauto. Qed.

Lemma inv_set_incoming s v : Inv s -> Inv (set_incoming s v).
Proof. intros I. eapply inv_frame; eauto. Qed.

Lemma inv_set_last_pkid s v : Inv s -> v < max_inflight s -> Inv (set_last_pkid s v).
Proof. intros I Hv. constructor; sproj; try apply I; assumption. Qed.

Lemma inv_set_last_puback s v : Inv s -> v <= max_inflight s -> Inv (set_last_puback s v).
Proof. intros I Hv. constructor; sproj; try apply I; assumption. Qed.

(** [next_pkid] never panics under the invariant and yields an id in 1..max *)
Lemma next_pkid_spec s : Inv s ->
  exists v, next_pkid s = Ok (set_last_pkid s v, last_pkid s + 1)
            /\ v < max_inflight s /\ 1 <= last_pkid s + 1 <= max_inflight s.
Proof.
  intros I. pose proof (i_lpk s I). pose proof (i_max2 s I). unfold next_pkid, U16_MAX in *.
  destruct (N.eqb_spec (last_pkid s) 65535); [lia|].
  destruct (N.eqb_spec (last_pkid s + 1) (max_inflight s)).
  - exists 0. split; [reflexivity|lia].
  - exists (last_pkid s + 1). split; [reflexivity|lia].
Qed.

(** ---- the three primitive transitions on the slot vectors *)

(** store a publish into a free slot (outgoing_publish, resend_collided) *)
Lemma inv_store s (p : publish) l :
  Inv s -> 1 <= p_pkid p -> p_qos p <> Q0 ->
  vget (outgoing_pub s) (p_pkid p) = Some None -> bit (outgoing_rel s) (p_pkid p) = false ->
  vset (outgoing_pub s) (p_pkid p) (Some p) = Some l ->
  (forall q, collision s = Some q -> p_pkid q = p_pkid p \/ busy s (p_pkid q) = true) ->
  inflight s + 1 <= max_inflight s /\ Inv (set_inflight (set_pub s l) (inflight s + 1)).
Proof.
  intros I H1 Hq Hfree Hrel Hl Hc.
  assert (Hcnt : count_some l + 0 = count_some (outgoing_pub s) + 1).
  { exact (count_some_vset _ _ _ _ _ Hl Hfree). }
  assert (Hslot : forall i q, vget l i = Some (Some q) -> p_pkid q = i /\ 1 <= i /\ p_qos q <> Q0).
  { intros i q Hi. rewrite (vget_vset _ _ _ i _ Hl) in Hi. destruct (N.eqb_spec (p_pkid p) i).
    - inversion Hi. subst. auto.
    - apply (i_slot s I i q Hi). }
  assert (Hexcl : forall i q, vget l i = Some (Some q) -> bit (outgoing_rel s) i = false).
  { intros i q Hi. rewrite (vget_vset _ _ _ i _ Hl) in Hi. destruct (N.eqb_spec (p_pkid p) i).
    - subst. exact Hrel.
    - apply (i_excl s I i q Hi). }
  assert (Hlen : length l = S (idx (max_inflight s))).
  { rewrite (vset_length _ _ _ _ Hl). apply I. }
  assert (Hb : count_some l + count_true (outgoing_rel s) <= max_inflight s).
  { apply bound_raw; try apply I; try assumption.
    intros i q Hi. split; [apply (Hslot i q Hi)|apply (Hexcl i q Hi)]. }
  pose proof (i_infl s I) as Hinf.
  split; [lia|].
  constructor; sproj; try apply I; try assumption; try lia.
  intros q Hcq. split; [|apply (i_coll s I q Hcq)].
  unfold busy. sproj. rewrite (vget_vset _ _ _ (p_pkid q) _ Hl).
  destruct (N.eqb_spec (p_pkid p) (p_pkid q)); [reflexivity|].
  destruct (Hc q Hcq) as [E | Hbusy]; [congruence|]. exact Hbusy.
Qed.

Lemma inv_drop_collision s : Inv s -> Inv (set_collision s None).
Proof. intros I. constructor; sproj; try apply I. intros p H. discriminate. Qed.

Lemma inv_set_collision s q :
  Inv s -> busy s (p_pkid q) = true -> p_qos q <> Q0 -> Inv (set_collision s (Some q)).
Proof.
  intros I Hb Hq. constructor; sproj; try apply I.
  intros p H. inversion H. subst. split; assumption.
Qed.

(** release a publish slot: [outgoing_pub[i] = None; inflight -= 1] *)
Lemma inv_free_pub s i p l :
  Inv s -> vget (outgoing_pub s) i = Some (Some p) -> vset (outgoing_pub s) i None = Some l ->
  1 <= inflight s /\
  (forall q, collision s = Some q -> p_pkid q <> i) ->
  Inv (set_inflight (set_pub s l) (inflight s - 1)).
Proof.
  intros I Hp Hl [H1 Hc].
  assert (Hcnt : count_some l + 1 = count_some (outgoing_pub s) + 0).
  { exact (count_some_vset _ _ _ _ _ Hl Hp). }
  pose proof (i_infl s I) as Hinf.
  constructor; sproj; try apply I.
  - rewrite (vset_length _ _ _ _ Hl). apply I.
  - intros j q Hj. rewrite (vget_vset _ _ _ j _ Hl) in Hj. destruct (i =? j); [discriminate|].
    apply (i_slot s I j q Hj).
  - intros j q Hj. rewrite (vget_vset _ _ _ j _ Hl) in Hj. destruct (i =? j); [discriminate|].
    apply (i_excl s I j q Hj).
  - lia.
  - intros q Hq. destruct (i_coll s I q Hq) as [Hb Hq0]. split; [|exact Hq0].
    unfold busy in *. sproj. rewrite (vget_vset _ _ _ (p_pkid q) _ Hl).
    destruct (N.eqb_spec i (p_pkid q)) as [E | E]; [exfalso; apply (Hc q Hq); congruence|exact Hb].
Qed.

Lemma inv_infl_pos_pub s i p : Inv s -> vget (outgoing_pub s) i = Some (Some p) -> 1 <= inflight s.
Proof.
  intros I Hp. rewrite (i_infl s I).
  destruct (vset_of_vget (outgoing_pub s) i (Some p) None Hp) as [l Hl].
  pose proof (count_some_vset _ _ _ _ _ Hl Hp) as H. cbn [is_some b2n] in H. lia.
Qed.

Lemma inv_infl_pos_rel s i : Inv s -> bit (outgoing_rel s) i = true -> 1 <= inflight s.
Proof.
  intros I Hb. rewrite (i_infl s I).
  assert (Hlt : (idx i < length (outgoing_rel s))%nat).
  { unfold bit in Hb. destruct (vget (outgoing_rel s) i) eqn:E; [|discriminate]. eapply vget_some_lt; eauto. }
  destruct (vset_some (outgoing_rel s) i false Hlt) as [l Hl].
  pose proof (count_true_vset _ _ _ _ Hl) as H. rewrite Hb in H. cbn [b2n] in H. lia.
Qed.

(** ---- handlers *)

Definition post (r : R (option packet)) (P : state -> Prop) : Prop :=
  match r with Ok (s', _) => P s' | Err (s', _) => P s' | Panic _ => False end.

Lemma resend_collided_inv s p :
  Inv s -> collision s = None -> 1 <= p_pkid p -> p_qos p <> Q0 ->
  vget (outgoing_pub s) (p_pkid p) = Some None -> bit (outgoing_rel s) (p_pkid p) = false ->
  post (resend_collided s p) Inv.
Proof.
  intros I Hc H1 Hq Hfree Hrel. unfold resend_collided, pub_store, inflight_inc.
  destruct (vset_of_vget _ _ _ (Some p) Hfree) as [l Hl]. rewrite Hl. cbn [bind]. sproj.
  destruct (inv_store s p l I H1 Hq Hfree Hrel Hl) as [Hle I'].
  { intros q Hcq. congruence. }
  pose proof (i_max2 s I). unfold U16_MAX in *.
  destruct (N.eqb_spec (inflight s) 65535); [lia|]. cbn [bind post].
  apply inv_set_cpc, inv_push. exact I'.
Qed.

Lemma place_publish_inv s p :
  Inv s -> collision s = None -> 1 <= p_pkid p -> p_qos p <> Q0 -> post (place_publish s p) Inv.
Proof.
  intros I Hc H1 Hq. unfold place_publish. cbv zeta.
  destruct (vget (outgoing_pub s) (p_pkid p)) as [slot|] eqn:Eg; [|exact I].
  destruct (is_some slot || bit (outgoing_rel s) (p_pkid p)) eqn:Eb.
  - cbn [post]. apply inv_push, inv_set_collision; [exact I| |exact Hq].
    unfold busy. rewrite Eg. destruct slot; cbn [is_some] in Eb; [reflexivity|exact Eb].
  - destruct slot as [x|]; [discriminate|]. cbn [is_some orb] in Eb.
    unfold pub_store, inflight_inc.
    destruct (vset_of_vget _ _ _ (Some p) Eg) as [l Hl]. rewrite Hl. cbn [bind]. sproj.
    destruct (inv_store s p l I H1 Hq Eg Eb Hl) as [Hle I'].
    { intros q Hcq. congruence. }
    pose proof (i_max2 s I). unfold U16_MAX in *.
    destruct (N.eqb_spec (inflight s) 65535); [lia|]. cbn [bind post].
    apply inv_push. exact I'.
Qed.

Lemma outgoing_publish_inv s p :
  Inv s -> (p_qos p <> Q0 -> collision s = None) -> post (outgoing_publish s p) Inv.
Proof.
  intros I Hc. unfold outgoing_publish.
  destruct (p_qos p) eqn:Eq.
  { cbn [post]. apply inv_push, I. }
  all: assert (Hcn : collision s = None) by (apply Hc; congruence).
  all: destruct (N.eqb_spec (p_pkid p) 0) as [E0 | E0].
  all: try (destruct (next_pkid_spec s I) as [v [Hn [Hv Hid]]]; rewrite Hn; cbn [bind];
            apply place_publish_inv; [apply inv_set_last_pkid; assumption|exact Hcn|cbn [p_pkid with_pkid]; lia|cbn [p_qos with_pkid]; congruence]).
  all: apply place_publish_inv; [exact I|exact Hcn|lia|congruence].
Qed.

Lemma check_collision_spec s id :
  (exists p, collision s = Some p /\ p_pkid p = id /\ check_collision s id = (set_collision s None, Some p))
  \/ ((forall q, collision s = Some q -> p_pkid q <> id) /\ check_collision s id = (s, None)).
Proof.
  unfold check_collision. destruct (collision s) as [p|] eqn:E.
  - destruct (N.eqb_spec (p_pkid p) id) as [H | H].
    + left. exists p. auto.
    + right. split; [|reflexivity]. intros q Hq. inversion Hq. subst. exact H.
  - right. split; [|reflexivity]. intros q Hq. discriminate.
Qed.

(** common tail of [handle_incoming_puback] / [handle_incoming_pubcomp]: id [id] has just been
    freed in [s] (whose collision may dangle on [id]) *)
Lemma ack_tail_inv s id :
  Inv (set_collision s None) -> 1 <= id ->
  vget (outgoing_pub s) id = Some None -> bit (outgoing_rel s) id = false ->
  (forall q, collision s = Some q -> p_qos q <> Q0 /\ (p_pkid q = id \/ busy s (p_pkid q) = true)) ->
  post (match check_collision s id with
        | (s, Some p) => resend_collided s p
        | (s, None) => Ok (s, None)
        end) Inv.
Proof.
  intros I H1 Hfree Hrel Hc.
  destruct (check_collision_spec s id) as [[p [Hp [Hid ->]]] | [Hne ->]].
  - subst id. apply resend_collided_inv; sproj; auto. apply (Hc p Hp).
  - cbn [post]. constructor; try apply I.
    intros q Hq. destruct (Hc q Hq) as [Hq0 [E | Hb]]; [exfalso; apply (Hne q Hq E)|]. split; assumption.
Qed.

Lemma handle_incoming_puback_inv s id : Inv s -> post (handle_incoming_puback s id) Inv.
Proof.
  intros I. unfold handle_incoming_puback.
  destruct (vget (outgoing_pub s) id) as [slot|] eqn:Eg; [|exact I].
  assert (Hid : id <= max_inflight s).
  { apply vget_some_lt in Eg. rewrite (i_lenp s I) in Eg. apply idx_lt_len. exact Eg. }
  destruct slot as [p0|]; [|cbn [post]; apply inv_set_last_puback; assumption].
  unfold pub_store, inflight_dec. sproj.
  destruct (vset_of_vget _ _ _ None Eg) as [l Hl]. rewrite Hl. cbn [bind]. sproj.
  pose proof (inv_infl_pos_pub s id p0 I Eg) as Hpos.
  destruct (N.eqb_spec (inflight s) 0); [lia|]. cbn [bind].
  destruct (i_slot s I id p0 Eg) as [_ [H1 _]].
  apply ack_tail_inv; sproj; auto.
  - assert (I0 : Inv (set_inflight (set_pub (set_collision (set_last_puback s id) None) l) (inflight s - 1))).
    { apply (inv_free_pub (set_collision (set_last_puback s id) None) id p0 l); sproj.
      - apply inv_drop_collision, inv_set_last_puback; assumption.
      - exact Eg.
      - exact Hl.
      - split; [exact Hpos|]. intros q Hq. discriminate. }
    eapply inv_frame; [exact I0|..]; reflexivity.
  - eapply vget_vset_same; eauto.
  - apply (i_excl s I id p0 Eg).
  - intros q Hq. destruct (i_coll s I q Hq) as [Hb Hq0]. split; [exact Hq0|].
    destruct (N.eq_dec (p_pkid q) id) as [E | E]; [left; exact E|right].
    unfold busy in *. sproj. rewrite (vget_vset_other _ _ _ _ _ Hl); auto.
Qed.

Lemma handle_incoming_pubcomp_inv s id : Inv s -> post (handle_incoming_pubcomp s id) Inv.
Proof.
  intros I. unfold handle_incoming_pubcomp.
  destruct (bit (outgoing_rel s) id) eqn:Eb; cbn [negb]; [|exact I].
  unfold rel_set, inflight_dec.
  assert (Hlt : (idx id < length (outgoing_rel s))%nat).
  { unfold bit in Eb. destruct (vget (outgoing_rel s) id) eqn:E; [|discriminate]. eapply vget_some_lt; eauto. }
  destruct (vset_some (outgoing_rel s) id false Hlt) as [l Hl]. rewrite Hl. cbn [bind]. sproj.
  pose proof (inv_infl_pos_rel s id I Eb) as Hpos.
  destruct (N.eqb_spec (inflight s) 0); [lia|]. cbn [bind].
  assert (H1 : 1 <= id).
  { destruct (N.eq_dec id 0) as [-> |]; [|lia]. rewrite (i_rel0 s I) in Eb. discriminate. }
  assert (Hnone : vget (outgoing_pub s) id = Some None).
  { rewrite (i_lenr s I), <- (i_lenp s I) in Hlt. destruct (vget_lt_some _ _ Hlt) as [[p|] Hp]; [|exact Hp].
    rewrite (i_excl s I id p Hp) in Eb. discriminate. }
  pose proof (count_true_vset _ _ _ _ Hl) as Hcnt. rewrite Eb in Hcnt. cbn [b2n] in Hcnt.
  pose proof (i_infl s I) as Hinf.
  apply ack_tail_inv; sproj; auto.
  - constructor; sproj; try apply I.
    + rewrite (vset_length _ _ _ _ Hl). apply I.
    + rewrite (bit_vset _ _ _ 0 _ Hl). destruct (id =? 0); [reflexivity|apply I].
    + intros j q Hj. rewrite (bit_vset _ _ _ j _ Hl). destruct (id =? j); [reflexivity|apply (i_excl s I j q Hj)].
    + lia.
    + intros q Hq. discriminate.
  - rewrite (bit_vset _ _ _ id _ Hl). rewrite N.eqb_refl. reflexivity.
  - intros q Hq. destruct (i_coll s I q Hq) as [Hb Hq0]. split; [exact Hq0|].
    destruct (N.eq_dec (p_pkid q) id) as [E | E]; [left; exact E|right].
    unfold busy in *. sproj. rewrite (bit_vset _ _ _ (p_pkid q) _ Hl).
    destruct (N.eqb_spec id (p_pkid q)); [congruence|exact Hb].
Qed.

Lemma handle_incoming_pubrec_inv s id : Inv s -> post (handle_incoming_pubrec s id) Inv.
Proof.
  intros I. unfold handle_incoming_pubrec.
  destruct (vget (outgoing_pub s) id) as [[p0|]|] eqn:Eg; [|exact I|exact I].
  unfold pub_store, rel_set. sproj.
  destruct (vset_of_vget _ _ _ None Eg) as [l Hl]. rewrite Hl. cbn [bind]. sproj.
  assert (Hlt : (idx id < length (outgoing_rel s))%nat).
  { apply vget_some_lt in Eg. rewrite (i_lenr s I), <- (i_lenp s I). exact Eg. }
  destruct (vset_some (outgoing_rel s) id true Hlt) as [r Hr]. rewrite Hr. cbn [bind post]. sproj.
  apply inv_push.
  destruct (i_slot s I id p0 Eg) as [_ [H1 _]].
  pose proof (count_some_vset _ _ _ _ _ Hl Eg) as Hc1. cbn [is_some b2n] in Hc1.
  pose proof (count_true_vset _ _ _ _ Hr) as Hc2. rewrite (i_excl s I id p0 Eg) in Hc2. cbn [b2n] in Hc2.
  pose proof (i_infl s I) as Hinf.
  constructor; sproj; try apply I.
  - rewrite (vset_length _ _ _ _ Hl). apply I.
  - rewrite (vset_length _ _ _ _ Hr). apply I.
  - intros j q Hj. rewrite (vget_vset _ _ _ j _ Hl) in Hj. destruct (id =? j); [discriminate|].
    apply (i_slot s I j q Hj).
  - rewrite (bit_vset _ _ _ 0 _ Hr). destruct (N.eqb_spec id 0); [lia|apply I].
  - intros j q Hj. rewrite (vget_vset _ _ _ j _ Hl) in Hj. rewrite (bit_vset _ _ _ j _ Hr).
    destruct (id =? j); [discriminate|]. apply (i_excl s I j q Hj).
  - lia.
  - intros q Hq. destruct (i_coll s I q Hq) as [Hb Hq0]. split; [|exact Hq0].
    unfold busy in *. sproj. rewrite (vget_vset _ _ _ (p_pkid q) _ Hl), (bit_vset _ _ _ (p_pkid q) _ Hr).
    destruct (id =? p_pkid q); [reflexivity|exact Hb].
Qed.

Lemma handle_incoming_packet_inv s pk : Inv s -> post (handle_incoming_packet s pk) Inv.
Proof.
  intros I. unfold handle_incoming_packet.
  pose proof (inv_push s (EvIn pk) I) as I1.
  destruct pk; cbn [post]; try exact I1.
  - (* publish *) unfold handle_incoming_publish, outgoing_puback, outgoing_pubrec.
    destruct (p_qos p); sproj; destruct (manual_acks s); cbn [post];
      repeat (first [apply inv_push | apply inv_set_incoming]); exact I.
  - apply handle_incoming_puback_inv, I1.
  - apply handle_incoming_pubrec_inv, I1.
  - unfold handle_incoming_pubrel. destruct (negb _); cbn [post]; [exact I1|].
    apply inv_push, inv_set_incoming. exact I1.
  - apply handle_incoming_pubcomp_inv, I1.
  - apply inv_set_await. exact I1.
Qed.

Lemma outgoing_pubrel_inv s id :
  Inv s -> 1 <= id -> id <= max_inflight s -> busy s id = false -> post (outgoing_pubrel s id) Inv.
Proof.
  intros I H1 H2 Hb. unfold outgoing_pubrel.
  destruct (N.eqb_spec id 0); [lia|]. cbn [bind]. unfold rel_set, inflight_inc.
  assert (Hlt : (idx id < length (outgoing_rel s))%nat) by (rewrite (i_lenr s I); apply idx_lt_len; exact H2).
  destruct (vset_some (outgoing_rel s) id true Hlt) as [r Hr]. rewrite Hr. cbn [bind]. sproj.
  unfold busy in Hb. apply orb_false_iff in Hb. destruct Hb as [Hbp Hbr].
  pose proof (count_true_vset _ _ _ _ Hr) as Hc. rewrite Hbr in Hc. cbn [b2n] in Hc.
  pose proof (i_infl s I) as Hinf.
  assert (Hex : forall j q, vget (outgoing_pub s) j = Some (Some q) -> bit r j = false).
  { intros j q Hj. rewrite (bit_vset _ _ _ j _ Hr). destruct (N.eqb_spec id j); [|apply (i_excl s I j q Hj)].
    subst. rewrite Hj in Hbp. discriminate. }
  assert (H0 : bit r 0 = false).
  { rewrite (bit_vset _ _ _ 0 _ Hr). destruct (N.eqb_spec id 0); [lia|apply I]. }
  assert (Hlr : length r = S (idx (max_inflight s))) by (rewrite (vset_length _ _ _ _ Hr); apply I).
  assert (Hbd : count_some (outgoing_pub s) + count_true r <= max_inflight s).
  { apply bound_raw; try apply I; auto. intros j q Hj. split; [apply (i_slot s I j q Hj)|eauto]. }
  pose proof (i_max2 s I). unfold U16_MAX in *.
  destruct (N.eqb_spec (inflight s) 65535); [lia|]. cbn [bind post]. apply inv_push.
  constructor; sproj; try apply I; auto; try lia.
  intros q Hq. destruct (i_coll s I q Hq) as [Hb Hq0]. split; [|exact Hq0].
  unfold busy in *. sproj. rewrite (bit_vset _ _ _ (p_pkid q) _ Hr).
  destruct (id =? p_pkid q); [apply orb_true_r|exact Hb].
Qed.

Lemma outgoing_ping_inv s : Inv s -> post (outgoing_ping s) Inv.
Proof.
  intros I. unfold outgoing_ping.
  destruct (is_some (collision s)); sproj.
  - destruct (2 <=? collision_ping_count s + 1); cbn [bind post]; [apply inv_set_cpc, I|].
    sproj. destruct (await_pingresp s); cbn [post]; [apply inv_set_cpc, I|].
    apply inv_push, inv_set_await, inv_set_cpc, I.
  - cbn [bind]. destruct (await_pingresp s); cbn [post]; [exact I|]. apply inv_push, inv_set_await, I.
Qed.

Lemma handle_outgoing_packet_inv s r :
  Inv s -> op_ok s (Out r) = true -> post (handle_outgoing_packet s r) Inv.
Proof.
  intros I Hok. unfold handle_outgoing_packet. destruct r; cbn [op_ok api_request] in Hok; try discriminate.
  - apply outgoing_publish_inv; [exact I|]. intros Hq. destruct (p_qos p); [congruence| |];
      destruct (collision s); cbn in Hok; congruence.
  - cbn [post outgoing_puback]. apply inv_push, I.
  - cbn [post outgoing_pubrec]. apply inv_push, I.
  - apply andb_true_iff in Hok. destruct Hok as [Hok Hb]. apply andb_true_iff in Hok. destruct Hok as [H1 H2].
    apply outgoing_pubrel_inv; [exact I|lia|lia|]. destruct (busy s id); [discriminate|reflexivity].
  - apply outgoing_ping_inv, I.
  - unfold outgoing_subscribe. destruct (n =? 0); [exact I|].
    destruct (next_pkid_spec s I) as [v [Hn [Hv Hid]]]. rewrite Hn. cbn [bind post].
    apply inv_push, inv_set_last_pkid; assumption.
  - unfold outgoing_unsubscribe.
    destruct (next_pkid_spec s I) as [v [Hn [Hv Hid]]]. rewrite Hn. cbn [bind post].
    apply inv_push, inv_set_last_pkid; assumption.
  - cbn [post outgoing_disconnect]. apply inv_push, I.
Qed.

Lemma clean_inv s : Inv s ->
  match clean s with Ok (s', _) => Inv s' /\ inflight s' = 0 /\ collision s' = None | _ => False end.
Proof.
  intros I. unfold clean.
  assert (Hlt : Nat.ltb (length (outgoing_pub s)) (S (idx (last_puback s))) = false).
  { apply Nat.ltb_ge. rewrite (i_lenp s I). pose proof (i_lpa s I). unfold idx. lia. }
  rewrite Hlt. clear Hlt. cbv zeta. sproj. split; [|split; reflexivity].
  constructor; sproj; try apply I.
  - rewrite repeat_length. apply I.
  - rewrite repeat_length. apply I.
  - intros i p. rewrite vget_repeat. destruct (Nat.ltb _ _); discriminate.
  - apply bit_repeat_false.
  - intros i p H. apply bit_repeat_false.
  - rewrite count_some_repeat_none, count_true_repeat_false. reflexivity.
  - intros p H. discriminate.
Qed.

(** ---- every op that honours the contract preserves the invariant and does not panic *)
Theorem step_inv s o : Inv s -> op_ok s o = true ->
  match step s o with Ok (s', _) => Inv s' | Err (s', _) => Inv s' | Panic _ => False end.
Proof.
  intros I Hok. destruct o as [r | pk |]; cbn [step].
  - pose proof (handle_outgoing_packet_inv s r I Hok) as H.
    destruct (handle_outgoing_packet s r) as [[s' x] | [s' e] | t]; cbn [bind]; exact H.
  - pose proof (handle_incoming_packet_inv s pk I) as H.
    destruct (handle_incoming_packet s pk) as [[s' x] | [s' e] | t]; cbn [bind]; exact H.
  - pose proof (clean_inv s I) as H.
    destruct (clean s) as [[s' x] | [s' e] | t]; cbn [bind]; tauto.
Qed.

Theorem run_inv s h : Inv s -> contract s h = true -> exists s', run s h = Some s' /\ Inv s'.
Proof.
  revert s. induction h as [| o h IH]; intros s I Hc; [exists s; split; [reflexivity|exact I]|].
  cbn [contract] in Hc. apply andb_true_iff in Hc. destruct Hc as [Hok Hc].
  pose proof (step_inv s o I Hok) as H. unfold run. cbn [run_with]. unfold next in *.
  destruct (step s o) as [[s' x] | [s' e] | t]; [apply IH; assumption|apply IH; assumption|contradiction].
Qed.

Theorem run_inv_init max manual h : 1 <= max -> max <= 65535 -> contract (init max manual) h = true ->
  exists s, run (init max manual) h = Some s /\ Inv s.
Proof. intros H1 H2. apply run_inv. apply inv_init; assumption. Qed.
