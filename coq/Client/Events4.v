(** C10 at the state-machine level: every packet from the broker is surfaced once, first; the
    acknowledgement flows; unsolicited acks are errors that leave the bookkeeping alone; every
    write is announced by exactly one matching Outgoing notification and vice versa. *)
From Coq Require Import Arith ZifyBool ZifyN ZifyNat.
From Rumqtt Require Import Client.VecLemmas Client.Run4 Client.Inv4 Client.Eff4 Client.Flow4 Client.Wire4.

(** the Outgoing notification that announces a written packet *)
Definition announce (pk : packet) : option outgoing :=
  match pk with
  | PPublish p => Some (OPublish (p_pkid p))
  | PPubAck i => Some (OPubAck i) | PPubRec i => Some (OPubRec i)
  | PPubRel i => Some (OPubRel i) | PPubComp i => Some (OPubComp i)
  | PSubscribe i _ => Some (OSubscribe i) | PUnsubscribe i _ => Some (OUnsubscribe i)
  | PPingReq => Some OPingReq | PPingResp => Some OPingResp | PDisconnect => Some ODisconnect
  | PConnect | PConnAck _ _ | PSubAck _ | PUnsubAck _ => None
  end.

Definition ann_list (rep : option packet) : list event :=
  match rep with
  | Some pk => match announce pk with Some o => [EvOut o] | None => [] end
  | None => []
  end.

(** the notifications one op may queue, given what it handed to the network.  [AwaitAck] announces
    a non-write (the publish was parked) and is the only Outgoing notification without a write. *)
Definition writes_match (o : op) (rep : option packet) (evs : list event) : Prop :=
  match o with
  | Inc pk => evs = EvIn pk :: ann_list rep
  | Out (RPublish p) => evs = ann_list rep \/ (rep = None /\ exists k, evs = [EvOut (OAwaitAck k)])
  | _ => evs = ann_list rep
  end.

Ltac ev_same Hn := cbn [out2] in Hn; inversion Hn; subst; sproj; eexists; split; [reflexivity|]; cbn [writes_match ann_list announce]; auto.

Lemma place_publish_events s1 p1 s' rep :
  Inv s1 -> collision s1 = None -> 1 <= p_pkid p1 -> p_qos p1 <> Q0 ->
  out2 (place_publish s1 p1) = Some (s', rep) ->
  exists evs, events s' = events s1 ++ evs /\
    (evs = ann_list rep \/ (rep = None /\ exists k, evs = [EvOut (OAwaitAck k)])).
Proof.
  intros I1 Hc1 H1 Hq1 Hpl.
  destruct (place_publish_eff s1 p1 I1 Hc1 H1 Hq1) as [[_ He] | [[Hle [Hb He]] | [Hle [Hb [l [Hl He]]]]]];
    rewrite He in Hpl; cbn [out2] in Hpl; inversion Hpl; subst s' rep; clear Hpl; sproj.
  - exists []. rewrite app_nil_r. auto.
  - eexists. split; [reflexivity|]. right. eauto.
  - eexists. split; [reflexivity|]. left. reflexivity.
Qed.

Lemma ack_tail_events s1 id s2 rep :
  Inv (set_collision s1 None) -> 1 <= id ->
  vget (outgoing_pub s1) id = Some None -> bit (outgoing_rel s1) id = false ->
  (forall q, collision s1 = Some q -> p_qos q <> Q0) ->
  out2 (ack_tail s1 id) = Some (s2, rep) -> events s2 = events s1 ++ ann_list rep.
Proof.
  intros I H1 Hfree Hrel Hq Hres.
  destruct (ack_tail_eff s1 id I H1 Hfree Hrel Hq) as [[q [l [Hc [Hid [Hl He]]]]] | [Hne He]];
    rewrite He in Hres; cbn [out2] in Hres; inversion Hres; subst s2 rep; clear Hres; sproj.
  - cbn [ann_list announce]. rewrite Hid. reflexivity.
  - cbn [ann_list]. rewrite app_nil_r. reflexivity.
Qed.

Theorem step_events s o s' rep :
  Inv s -> op_ok s o = true -> outcome s o = Some (s', rep) ->
  exists evs, events s' = events s ++ evs /\ writes_match o rep evs.
Proof.
  intros I Hok Hn. destruct o as [rq | pk |]; cbn [outcome] in Hn; [| |discriminate].
  - destruct rq; cbn [op_ok api_request] in Hok; try discriminate; cbn [handle_outgoing_packet] in Hn.
    + cbn [writes_match]. unfold outgoing_publish in Hn. destruct (p_qos p) eqn:Eq.
      { cbn [out2] in Hn. inversion Hn. subst. sproj. eexists. split; [reflexivity|]. left. reflexivity. }
      all: assert (Hc0 : collision s = None) by (destruct (collision s); cbn in Hok; congruence).
      all: destruct (N.eqb_spec (p_pkid p) 0) as [E0 | E0].
      all: try (destruct (next_pkid_spec s I) as [v [Hnp [Hv Hid]]]; rewrite Hnp in Hn; cbn [bind] in Hn;
                apply (place_publish_events (set_last_pkid s v) (with_pkid p (last_pkid s + 1))) in Hn;
                [exact Hn|apply inv_set_last_pkid; assumption|exact Hc0|cbn [p_pkid with_pkid]; lia|cbn [p_qos with_pkid]; congruence]).
      all: apply (place_publish_events s p) in Hn; [exact Hn|exact I|exact Hc0|lia|congruence].
    + ev_same Hn.
    + ev_same Hn.
    + apply andb_true_iff in Hok. destruct Hok as [Hok Hb]. apply andb_true_iff in Hok. destruct Hok as [H1 H2].
      pose proof (outgoing_pubrel_inv s id I ltac:(lia) ltac:(lia) ltac:(destruct (busy s id); [discriminate|reflexivity])) as Hpost.
      unfold outgoing_pubrel in *. destruct (N.eqb_spec id 0); [lia|]. cbn [bind] in *. unfold rel_set, inflight_inc in *.
      destruct (vset (outgoing_rel s) id true) as [rl|] eqn:Hrl; cbn [bind] in *; [|contradiction]. sproj.
      destruct (inflight s =? U16_MAX); cbn [bind] in *; [contradiction|]. ev_same Hn.
    + unfold outgoing_ping in Hn. destruct (is_some (collision s)); sproj.
      * destruct (2 <=? collision_ping_count s + 1); cbn [bind] in Hn.
        { cbn [out2] in Hn. inversion Hn. subst. sproj. exists []. rewrite app_nil_r. split; reflexivity. }
        sproj. destruct (await_pingresp s).
        { cbn [out2] in Hn. inversion Hn. subst. sproj. exists []. rewrite app_nil_r. split; reflexivity. }
        ev_same Hn.
      * cbn [bind] in Hn. destruct (await_pingresp s).
        { cbn [out2] in Hn. inversion Hn. subst. sproj. exists []. rewrite app_nil_r. split; reflexivity. }
        ev_same Hn.
    + unfold outgoing_subscribe in Hn. destruct (n =? 0).
      { cbn [out2] in Hn. inversion Hn. subst. sproj. exists []. rewrite app_nil_r. split; reflexivity. }
      destruct (next_pkid_spec s I) as [v [Hnp [Hv Hid]]]. rewrite Hnp in Hn. cbn [bind] in Hn. ev_same Hn.
    + unfold outgoing_unsubscribe in Hn.
      destruct (next_pkid_spec s I) as [v [Hnp [Hv Hid]]]. rewrite Hnp in Hn. cbn [bind] in Hn. ev_same Hn.
    + ev_same Hn.
  - unfold handle_incoming_packet in Hn. cbn [writes_match].
    pose proof (inv_push s (EvIn pk) I) as I1.
    assert (Hev : events (push_event s (EvIn pk)) = events s ++ [EvIn pk]) by reflexivity.
    set (s0 := push_event s (EvIn pk)) in *. clearbody s0.
    assert (Hfin : forall t, events s' = events s0 ++ t -> t = ann_list rep ->
              exists evs, events s' = events s ++ evs /\ evs = EvIn pk :: ann_list rep).
    { intros t Ht Ht'. exists (EvIn pk :: t). rewrite Ht, Hev, <- app_assoc. subst t. split; reflexivity. }
    destruct pk; try (cbn [out2] in Hn; inversion Hn; subst; apply (Hfin []); [sproj; rewrite app_nil_r; reflexivity|reflexivity]).
    + unfold handle_incoming_publish, outgoing_puback, outgoing_pubrec in Hn.
      destruct (p_qos p); sproj; destruct (manual_acks s0); cbn [out2] in Hn; inversion Hn; subst;
        first [apply (Hfin []); [sproj; rewrite app_nil_r; reflexivity|reflexivity]
              |eapply Hfin; [sproj; reflexivity|reflexivity]].
    + destruct (handle_incoming_puback_eff s0 id I1) as [[_ [s2 [He [Heq [Hevs _]]]]] | [p0 [l [Eg [Hl Hrest]]]]].
      { rewrite He in Hn. cbn [out2] in Hn. inversion Hn. subst. apply (Hfin []); [rewrite app_nil_r; exact Hevs|reflexivity]. }
      cbv zeta in Hrest. destruct Hrest as [He [H1 [Hpos [I2 [Hfree Hrel]]]]]. rewrite He in Hn.
      eapply Hfin; [|reflexivity].
      erewrite (ack_tail_events _ id s' rep I2 H1); sproj; eauto.
      intros q Hq. apply (i_coll s0 I1 q Hq).
    + destruct (handle_incoming_pubrec_eff s0 id I1) as [[_ He] | [p0 [l [rl [Eg [Hl [Hrl He]]]]]]];
        rewrite He in Hn; cbn [out2] in Hn; inversion Hn; subst s' rep.
      * apply (Hfin []); [rewrite app_nil_r; reflexivity|reflexivity].
      * eapply Hfin; [sproj; reflexivity|reflexivity].
    + unfold handle_incoming_pubrel in Hn. destruct (negb _); cbn [out2] in Hn; inversion Hn; subst.
      * apply (Hfin []); [rewrite app_nil_r; reflexivity|reflexivity].
      * eapply Hfin; [sproj; reflexivity|reflexivity].
    + destruct (handle_incoming_pubcomp_eff s0 id I1) as [[_ He] | [Hb [rl [Hrl Hrest]]]].
      { rewrite He in Hn. cbn [out2] in Hn. inversion Hn. subst. apply (Hfin []); [rewrite app_nil_r; reflexivity|reflexivity]. }
      cbv zeta in Hrest. destruct Hrest as [He [H1 [Hpos [I2 [Hfree Hrel]]]]]. rewrite He in Hn.
      eapply Hfin; [|reflexivity].
      erewrite (ack_tail_events _ id s' rep I2 H1); sproj; eauto.
      intros q Hq. apply (i_coll s0 I1 q Hq).
Qed.

(** ---- the inbound flows *)
Definition incoming_reply_spec (s : state) (pk : packet) (r : R (option packet)) : Prop :=
  match pk with
  | PPublish p =>
      exists s', r = Ok (s', match p_qos p with
                             | Q0 => None
                             | Q1 => if manual_acks s then None else Some (PPubAck (p_pkid p))
                             | Q2 => if manual_acks s then None else Some (PPubRec (p_pkid p))
                             end)
                 /\ (p_qos p = Q2 -> iset_mem (incoming_pub s') (p_pkid p) = true)
  | PPubRel id =>
      if iset_mem (incoming_pub s) id
      then exists s', r = Ok (s', Some (PPubComp id)) /\ iset_mem (incoming_pub s') id = false
      else r = Err (push_event s (EvIn pk), EUnsolicited id)
  | PPubAck id =>
      pub_at s id = None ->
      exists s', r = Err (s', EUnsolicited id) /\ slots_eq s s' /\ inflight s' = inflight s
                 /\ events s' = events s ++ [EvIn pk]
  | PPubRec id => pub_at s id = None -> r = Err (push_event s (EvIn pk), EUnsolicited id)
  | PPubComp id => bit (outgoing_rel s) id = false -> r = Err (push_event s (EvIn pk), EUnsolicited id)
  | PSubAck _ | PUnsubAck _ => r = Ok (push_event s (EvIn pk), None)
  | PPingResp => exists s', r = Ok (s', None)
  | _ => r = Err (push_event s (EvIn pk), EWrongPacket)
  end.

Lemma iset_mem_add l i : iset_mem (iset_add l i) i = true.
Proof.
  unfold iset_add. destruct (iset_mem l i) eqn:E; [exact E|]. unfold iset_mem. cbn [existsb]. rewrite N.eqb_refl. reflexivity.
Qed.

Lemma iset_mem_del l i : iset_mem (iset_del l i) i = false.
Proof.
  unfold iset_mem, iset_del. induction l as [| x l IH]; [reflexivity|]. cbn [filter].
  destruct (N.eqb_spec i x); cbn [negb]; [exact IH|]. cbn [existsb]. rewrite IH.
  destruct (N.eqb_spec i x); [congruence|reflexivity].
Qed.

Theorem incoming_flow s pk : Inv s -> incoming_reply_spec s pk (handle_incoming_packet s pk).
Proof.
  intros I. pose proof (inv_push s (EvIn pk) I) as I1.
  destruct pk; cbn [incoming_reply_spec handle_incoming_packet]; try reflexivity.
  - unfold handle_incoming_publish, outgoing_puback, outgoing_pubrec. sproj.
    destruct (p_qos p); sproj; destruct (manual_acks s); eexists; (split; [reflexivity|]); try discriminate;
      intros _; sproj; apply iset_mem_add.
  - intros Hn. destruct (handle_incoming_puback_eff _ id I1) as [[_ [s2 [He [Heq [Hev Hinf]]]]] | [p0 [l [Eg _]]]].
    + exists s2. rewrite He. repeat split; try apply Heq; auto.
    + unfold pub_at in Hn. sproj. rewrite Eg in Hn. discriminate.
  - intros Hn. destruct (handle_incoming_pubrec_eff _ id I1) as [[_ He] | [p0 [l [rl [Eg _]]]]]; [exact He|].
    unfold pub_at in Hn. sproj. rewrite Eg in Hn. discriminate.
  - unfold handle_incoming_pubrel. sproj. destruct (iset_mem (incoming_pub s) id); cbn [negb]; [|reflexivity].
    eexists. split; [reflexivity|]. sproj. apply iset_mem_del.
  - intros Hb. unfold handle_incoming_pubcomp. sproj. rewrite Hb. reflexivity.
  - eexists. reflexivity.
Qed.
