(** Lemmas about the indexed containers of Client/Types.v. *)
From Coq Require Import Arith ZifyBool ZifyN ZifyNat.
From Rumqtt Require Import Client.Types.

Lemma lenN_app {A} (a b : list A) : lenN (a ++ b) = lenN a + lenN b.
Proof. unfold lenN. rewrite app_length. lia. Qed.

Lemma lenN_cons {A} (x : A) l : lenN (x :: l) = 1 + lenN l.
Proof. unfold lenN. cbn [length]. lia. Qed.

Lemma lenN_nil {A} : lenN (@nil A) = 0.
Proof. reflexivity. Qed.

(** ---- upd_nat / vset / vget *)
Lemma upd_nat_some {A} (l : list A) i x : (i < length l)%nat -> exists l', upd_nat l i x = Some l'.
Proof.
  revert i. induction l as [| y l IH]; intros i Hi; cbn [length] in Hi; [lia|].
  destruct i as [| j]; cbn [upd_nat]; [eauto|].
  destruct (IH j) as [l' Hl']; [lia|]. rewrite Hl'. eauto.
Qed.

Lemma upd_nat_none {A} (l : list A) i x : (length l <= i)%nat -> upd_nat l i x = None.
Proof.
  revert i. induction l as [| y l IH]; intros i Hi; [destruct i; reflexivity|].
  cbn [length] in Hi. destruct i as [| j]; [lia|]. cbn [upd_nat]. rewrite IH by lia. reflexivity.
Qed.

Lemma upd_nat_length {A} (l l' : list A) i x : upd_nat l i x = Some l' -> length l' = length l.
Proof.
  revert i l'. induction l as [| y l IH]; intros i l' H; [destruct i; discriminate|].
  destruct i as [| j]; cbn [upd_nat] in H.
  - inversion H. reflexivity.
  - destruct (upd_nat l j x) as [r|] eqn:E; [|discriminate]. inversion H. cbn [length]. erewrite IH; eauto.
Qed.

Lemma upd_nat_same {A} (l l' : list A) i x : upd_nat l i x = Some l' -> nth_error l' i = Some x.
Proof.
  revert i l'. induction l as [| y l IH]; intros i l' H; [destruct i; discriminate|].
  destruct i as [| j]; cbn [upd_nat] in H.
  - inversion H. reflexivity.
  - destruct (upd_nat l j x) as [r|] eqn:E; [|discriminate]. inversion H. cbn [nth_error]. eauto.
Qed.

Lemma upd_nat_other {A} (l l' : list A) i j x : upd_nat l i x = Some l' -> i <> j -> nth_error l' j = nth_error l j.
Proof.
  revert i j l'. induction l as [| y l IH]; intros i j l' H Hne; [destruct i; discriminate|].
  destruct i as [| i']; cbn [upd_nat] in H.
  - inversion H. destruct j; [congruence|reflexivity].
  - destruct (upd_nat l i' x) as [r|] eqn:E; [|discriminate]. inversion H.
    destruct j as [| j']; [reflexivity|]. cbn [nth_error]. eapply IH; eauto.
Qed.

Lemma vset_some {A} (l : list A) i x : (idx i < length l)%nat -> exists l', vset l i x = Some l'.
Proof. apply upd_nat_some. Qed.

Lemma vset_none {A} (l : list A) i x : (length l <= idx i)%nat -> vset l i x = None.
Proof. apply upd_nat_none. Qed.

Lemma vset_length {A} (l l' : list A) i x : vset l i x = Some l' -> length l' = length l.
Proof. apply upd_nat_length. Qed.

Lemma vget_vset_same {A} (l l' : list A) i x : vset l i x = Some l' -> vget l' i = Some x.
Proof. apply upd_nat_same. Qed.

Lemma vget_vset_other {A} (l l' : list A) i j x : vset l i x = Some l' -> i <> j -> vget l' j = vget l j.
Proof. intros H Hne. eapply upd_nat_other; eauto. unfold idx. lia. Qed.

Lemma vget_vset {A} (l l' : list A) i j x :
  vset l i x = Some l' -> vget l' j = if i =? j then Some x else vget l j.
Proof.
  intros H. destruct (N.eqb_spec i j) as [-> | Hne].
  - eapply vget_vset_same; eauto.
  - eapply vget_vset_other; eauto.
Qed.

Lemma vget_some_lt {A} (l : list A) i x : vget l i = Some x -> (idx i < length l)%nat.
Proof. intros H. apply nth_error_Some. unfold vget in H. congruence. Qed.

Lemma vget_none_ge {A} (l : list A) i : vget l i = None -> (length l <= idx i)%nat.
Proof. intros H. apply nth_error_None. exact H. Qed.

Lemma vget_lt_some {A} (l : list A) i : (idx i < length l)%nat -> exists x, vget l i = Some x.
Proof.
  intros H. unfold vget. destruct (nth_error l (idx i)) eqn:E; [eauto|].
  apply nth_error_None in E. lia.
Qed.

Lemma vset_of_vget {A} (l : list A) i y x : vget l i = Some y -> exists l', vset l i x = Some l'.
Proof. intros H. apply vset_some. eapply vget_some_lt; eauto. Qed.

Lemma bit_vset (l l' : list bool) i j x :
  vset l i x = Some l' -> bit l' j = if i =? j then x else bit l j.
Proof. intros H. unfold bit. rewrite (vget_vset _ _ _ j _ H). destruct (i =? j); reflexivity. Qed.

Lemma vget_repeat {A} (x : A) n i : vget (repeat x n) i = if Nat.ltb (idx i) n then Some x else None.
Proof.
  unfold vget. generalize (idx i). clear i. induction n as [| n IH]; intros i.
  - destruct i; reflexivity.
  - destruct i as [| j]; [reflexivity|]. cbn [repeat nth_error]. rewrite IH.
    destruct (Nat.ltb_spec j n), (Nat.ltb_spec (S j) (S n)); try reflexivity; lia.
Qed.

Lemma bit_repeat_false n i : bit (repeat false n) i = false.
Proof. unfold bit. rewrite vget_repeat. destruct (Nat.ltb (idx i) n); reflexivity. Qed.

(** ---- counting *)
Definition b2n (b : bool) : N := if b then 1 else 0.

Lemma count_some_cons {A} (o : option A) l : count_some (o :: l) = b2n (is_some o) + count_some l.
Proof. unfold count_some. destruct o; cbn [somes is_some b2n]; rewrite ?lenN_cons; lia. Qed.

Lemma count_true_cons (b : bool) l : count_true (b :: l) = b2n b + count_true l.
Proof. unfold count_true. destruct b; cbn [filter b2n]; rewrite ?lenN_cons; lia. Qed.

Lemma count_some_upd {A} (l l' : list (option A)) i x old :
  upd_nat l i x = Some l' -> nth_error l i = Some old ->
  count_some l' + b2n (is_some old) = count_some l + b2n (is_some x).
Proof.
  revert i l'. induction l as [| y l IH]; intros i l' H Hold; [destruct i; discriminate|].
  destruct i as [| j]; cbn [upd_nat] in H; cbn [nth_error] in Hold.
  - inversion H. inversion Hold. subst. rewrite !count_some_cons. lia.
  - destruct (upd_nat l j x) as [r|] eqn:E; [|discriminate]. inversion H. subst.
    rewrite !count_some_cons. specialize (IH j r E Hold). lia.
Qed.

Lemma count_some_vset {A} (l l' : list (option A)) i x old :
  vset l i x = Some l' -> vget l i = Some old ->
  count_some l' + b2n (is_some old) = count_some l + b2n (is_some x).
Proof. apply count_some_upd. Qed.

Lemma count_true_upd (l l' : list bool) i x old :
  upd_nat l i x = Some l' -> nth_error l i = Some old ->
  count_true l' + b2n old = count_true l + b2n x.
Proof.
  revert i l'. induction l as [| y l IH]; intros i l' H Hold; [destruct i; discriminate|].
  destruct i as [| j]; cbn [upd_nat] in H; cbn [nth_error] in Hold.
  - inversion H. inversion Hold. subst. rewrite !count_true_cons. lia.
  - destruct (upd_nat l j x) as [r|] eqn:E; [|discriminate]. inversion H. subst.
    rewrite !count_true_cons. specialize (IH j r E Hold). lia.
Qed.

Lemma count_true_vset (l l' : list bool) i x :
  vset l i x = Some l' -> count_true l' + b2n (bit l i) = count_true l + b2n x.
Proof.
  intros H.
  assert (Hlt : (idx i < length l)%nat).
  { destruct (Nat.lt_ge_cases (idx i) (length l)) as [Hl | Hl]; [exact Hl|].
    rewrite (vset_none l i x Hl) in H. discriminate. }
  destruct (vget_lt_some l i Hlt) as [old Hold].
  unfold bit. rewrite Hold. eapply count_true_upd; eauto.
Qed.

Lemma count_some_repeat_none {A} n : count_some (repeat (@None A) n) = 0.
Proof. induction n as [| n IH]; [reflexivity|]. cbn [repeat]. rewrite count_some_cons, IH. reflexivity. Qed.

Lemma count_true_repeat_false n : count_true (repeat false n) = 0.
Proof. induction n as [| n IH]; [reflexivity|]. cbn [repeat]. rewrite count_true_cons, IH. reflexivity. Qed.

(** pointwise exclusive slot vectors hold at most [length] entries together *)
Lemma count_excl_le {A} (p : list (option A)) (r : list bool) :
  length p = length r ->
  (forall i x, nth_error p i = Some (Some x) -> nth_error r i = Some false) ->
  count_some p + count_true r <= lenN p.
Proof.
  revert r. induction p as [| o p IH]; intros r Hlen Hex.
  - destruct r; [|discriminate]. cbn. lia.
  - destruct r as [| b r]; [discriminate|]. cbn [length] in Hlen.
    rewrite count_some_cons, count_true_cons, lenN_cons.
    assert (IH' : count_some p + count_true r <= lenN p).
    { apply IH; [lia|]. intros i x Hi. exact (Hex (S i) x Hi). }
    assert (b2n (is_some o) + b2n b <= 1).
    { destruct o as [x|]; destruct b; cbn [is_some b2n]; try lia.
      specialize (Hex O x eq_refl). discriminate. }
    lia.
Qed.

(** ---- ones / somes *)
Lemma ones_from_in l s i : In i (ones_from l s) <-> exists k, i = s + N.of_nat k /\ nth_error l k = Some true.
Proof.
  revert s. induction l as [| b l IH]; intros s; cbn [ones_from].
  - split; [intros []|]. intros [k [_ Hk]]. destruct k; discriminate.
  - split.
    + intros H. assert (Hc : (b = true /\ i = s) \/ In i (ones_from l (s + 1))).
      { destruct b; [destruct H as [H | H]; [left; split; congruence|right; exact H]|right; exact H]. }
      destruct Hc as [[Hb Hi] | Hi].
      * exists O. subst. split; [lia|reflexivity].
      * apply IH in Hi. destruct Hi as [k [Hk Hn]]. exists (S k). split; [lia|exact Hn].
    + intros [k [Hk Hn]]. destruct k as [| k].
      * cbn [nth_error] in Hn. inversion Hn. subst b. left. lia.
      * cbn [nth_error] in Hn. assert (In i (ones_from l (s + 1))).
        { apply IH. exists k. split; [lia|exact Hn]. }
        destruct b; [right|]; assumption.
Qed.

Lemma ones_in l i : In i (ones l) <-> bit l i = true.
Proof.
  unfold ones, bit, vget. rewrite ones_from_in. split.
  - intros [k [Hk Hn]]. assert (idx i = k) by (unfold idx; lia). subst k. rewrite Hn. reflexivity.
  - intros H. exists (idx i). split; [unfold idx; lia|].
    destruct (nth_error l (idx i)) as [[|]|]; congruence.
Qed.

Lemma somes_in {A} (l : list (option A)) x : In x (somes l) <-> exists k, nth_error l k = Some (Some x).
Proof.
  induction l as [| o l IH]; cbn [somes].
  - split; [intros []|]. intros [k Hk]. destruct k; discriminate.
  - destruct o as [y|]; cbn [In]; rewrite IH; split.
    + intros [-> | [k Hk]]; [exists O; reflexivity|exists (S k); exact Hk].
    + intros [[| k] Hk]; cbn [nth_error] in Hk; [left; congruence|right; eauto].
    + intros [k Hk]. exists (S k). exact Hk.
    + intros [[| k] Hk]; cbn [nth_error] in Hk; [discriminate|eauto].
Qed.

Lemma somes_app {A} (a b : list (option A)) : somes (a ++ b) = somes a ++ somes b.
Proof.
  induction a as [| o a IH]; [reflexivity|]. destruct o; cbn [app somes]; rewrite IH; reflexivity.
Qed.

Lemma somes_repeat_none {A} n : somes (repeat (@None A) n) = [].
Proof. induction n; [reflexivity|assumption]. Qed.
