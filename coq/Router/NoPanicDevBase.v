(** Dev profile, second invariant: for every live connection the data requests held anywhere
    (tracker, waiters of every filter log, notifications, and requests held in local variables
    of the running event) carry pairwise different subscription filters, all of them in the
    connection's subscription set; likewise for sessions saved in the graveyard.  This makes
    [debug_assert!(check_tracker_duplicates(..).is_none())] (P_DBG_DUP) unreachable.
    This file: counting functions and their algebra. *)
From Rumqtt Require Import Router.Model Router.InvLemmasBase.
From Coq Require Import Arith ZifyBool ZifyN ZifyNat.

Definition fmatch (f : str) (r : drequest) : bool := str_eqb (dr_filter r) f.
Definition cnt (f : str) (l : list drequest) : nat := length (filter (fmatch f) l).
Definition wmatch (f : str) (id : N) (x : N * drequest) : bool := (fst x =? id) && fmatch f (snd x).
Definition cntw (f : str) (id : N) (w : list (N * drequest)) : nat := length (filter (wmatch f id) w).
Fixpoint cnti (f : str) (id : N) (items : list (option data)) : nat :=
  match items with
  | [] => 0
  | Some d :: r => cntw f id (d_waiters d) + cnti f id r
  | None :: r => cnti f id r
  end.

Lemma cnt_app f a b : cnt f (a ++ b) = (cnt f a + cnt f b)%nat.
Proof. unfold cnt. now rewrite filter_app, app_length. Qed.
Lemma cntw_app f id a b : cntw f id (a ++ b) = (cntw f id a + cntw f id b)%nat.
Proof. unfold cntw. now rewrite filter_app, app_length. Qed.
Lemma cnti_app f id a b : cnti f id (a ++ b) = (cnti f id a + cnti f id b)%nat.
Proof. induction a as [|[d|] a IH]; cbn [app cnti]; lia. Qed.
Lemma cnt_nil f : cnt f [] = 0%nat. Proof. reflexivity. Qed.
Lemma cntw_nil f id : cntw f id [] = 0%nat. Proof. reflexivity. Qed.
Lemma cnt_cons f r l : cnt f (r :: l) = ((if fmatch f r then 1 else 0) + cnt f l)%nat.
Proof. unfold cnt. cbn [filter]. destruct (fmatch f r); reflexivity. Qed.
Lemma cntw_cons f id x l : cntw f id (x :: l) = ((if wmatch f id x then 1 else 0) + cntw f id l)%nat.
Proof. unfold cntw. cbn [filter]. destruct (wmatch f id x); reflexivity. Qed.

Lemma cntw_pairs f id id' l : cntw f id (map (pair id') l) = if id' =? id then cnt f l else 0%nat.
Proof.
  induction l as [|r l IH]; [destruct (id' =? id); reflexivity|].
  cbn [map]. rewrite cntw_cons, IH, cnt_cons. unfold wmatch. cbn [fst snd].
  destruct (id' =? id); cbn [andb]; reflexivity.
Qed.

Lemma cntw_single f id id' r : cntw f id [(id', r)] = if (id' =? id) && fmatch f r then 1%nat else 0%nat.
Proof. rewrite cntw_cons, cntw_nil. unfold wmatch. cbn [fst snd]. destruct ((id' =? id) && fmatch f r); reflexivity. Qed.

(** filtering away one filter *)
Lemma filter_filter_len {X} (P Q : X -> bool) l :
  length (filter P (filter Q l)) = length (filter (fun x => P x && Q x) l).
Proof.
  induction l as [|x l IH]; [reflexivity|]. cbn [filter].
  destruct (Q x); cbn [filter]; destruct (P x); cbn [andb length]; auto.
Qed.

Lemma filter_none_len {X} (P : X -> bool) l : (forall x, P x = false) -> length (filter P l) = 0%nat.
Proof. intros H. induction l as [|x l IH]; [reflexivity|]. cbn [filter]. now rewrite H. Qed.

Lemma str_eqb_sym a b : str_eqb a b = str_eqb b a.
Proof.
  destruct (str_eqb a b) eqn:E.
  - apply str_eqb_eq in E. subst. now rewrite str_eqb_refl.
  - destruct (str_eqb b a) eqn:E2; [|reflexivity]. apply str_eqb_eq in E2. subst. now rewrite str_eqb_refl in E.
Qed.

Lemma cnt_untrack f g l :
  cnt f (filter (fun r => negb (str_eqb (dr_filter r) g)) l) = if str_eqb f g then 0%nat else cnt f l.
Proof.
  unfold cnt. rewrite filter_filter_len. destruct (str_eqb f g) eqn:E.
  - apply filter_none_len. intros r. unfold fmatch. apply str_eqb_eq in E. subst.
    destruct (str_eqb (dr_filter r) g); reflexivity.
  - f_equal. apply filter_ext. intros r. unfold fmatch.
    destruct (str_eqb (dr_filter r) f) eqn:E1; [|reflexivity]. apply str_eqb_eq in E1. rewrite E1, E. reflexivity.
Qed.

Lemma cntw_unnotif f id g id' l :
  cntw f id (filter (fun x : N * drequest => negb ((fst x =? id') && str_eqb (dr_filter (snd x)) g)) l) =
  if (id =? id') && str_eqb f g then 0%nat else cntw f id l.
Proof.
  unfold cntw. rewrite filter_filter_len. destruct ((id =? id') && str_eqb f g) eqn:E.
  - apply filter_none_len. intros x. unfold wmatch, fmatch. apply andb_true_iff in E. destruct E as [E1 E2].
    apply N.eqb_eq in E1. apply str_eqb_eq in E2. subst.
    destruct (fst x =? id'), (str_eqb (dr_filter (snd x)) g); reflexivity.
  - f_equal. apply filter_ext. intros x. unfold wmatch, fmatch.
    destruct (N.eqb_spec (fst x) id) as [E1 | E1]; cbn [andb]; [|reflexivity].
    destruct (str_eqb (dr_filter (snd x)) f) eqn:E2; [|reflexivity]. apply str_eqb_eq in E2.
    rewrite E1, E2. rewrite E. reflexivity.
Qed.

(** swap_remove_back removes exactly the returned element *)
Lemma swap_remove_back_count {X} (P : X -> bool) (l : list X) : forall i x l',
  swap_remove_back l i = Some (x, l') ->
  length (filter P l) = ((if P x then 1 else 0) + length (filter P l'))%nat.
Proof.
  induction l as [|a l IH]; intros i x l' H; cbn [swap_remove_back] in H; [discriminate|].
  destruct (i =? 0).
  - destruct (rev l) as [|lst mid] eqn:Er; inversion H; subst; clear H.
    + assert (l = []) by (rewrite <- (rev_involutive l), Er; reflexivity). subst. cbn [filter]. destruct (P x); reflexivity.
    + assert (El : l = rev mid ++ [lst]) by (rewrite <- (rev_involutive l), Er; reflexivity).
      rewrite El. cbn [filter]. rewrite filter_app. cbn [filter].
      destruct (P x), (P lst); cbn [length]; rewrite ?app_length; cbn [length]; lia.
  - destruct (swap_remove_back l (i - 1)) as [[y r']|] eqn:E; inversion H; subst; clear H.
    specialize (IH _ _ _ E). cbn [filter]. destruct (P a); cbn [length]; lia.
Qed.

Lemma cnti_setN f id : forall items idx d d',
  nthN items idx = Some (Some d) ->
  (cnti f id (setN items idx (Some d')) + cntw f id (d_waiters d) = cnti f id items + cntw f id (d_waiters d'))%nat.
Proof.
  induction items as [|o items IH]; intros idx d d' H; [discriminate|].
  cbn [nthN setN] in *. destruct (idx =? 0).
  - inversion H; subst. cbn [cnti]. lia.
  - specialize (IH _ _ d' H). destruct o; cbn [cnti]; lia.
Qed.

Lemma cnti_all_none f id items :
  (forall d, In (Some d) items -> cntw f id (d_waiters d) = 0%nat) -> cnti f id items = 0%nat.
Proof.
  induction items as [|[d|] items IH]; intros H; cbn [cnti]; [reflexivity| |].
  - rewrite (H d) by (now left). rewrite IH; [reflexivity|]. intros d' Hd'. apply H. now right.
  - apply IH. intros d' Hd'. apply H. now right.
Qed.

Lemma cntw_zero f id w : (forall x, In x w -> fst x <> id) -> cntw f id w = 0%nat.
Proof.
  induction w as [|x w IH]; intros H; [reflexivity|]. rewrite cntw_cons, IH by (intros y Hy; apply H; now right).
  unfold wmatch. destruct (N.eqb_spec (fst x) id) as [E | _]; [exfalso; apply (H x); [now left|exact E]|reflexivity].
Qed.

(** has_dup_idx is false when every filter occurs at most once *)
Lemma has_dup_idx_false l : forall seen,
  (forall f, (cnt f l <= 1)%nat) -> (forall f, set_mem str_eqb f seen = true -> cnt f l = 0%nat) ->
  has_dup_idx seen l = false.
Proof.
  induction l as [|r l IH]; intros seen H1 H2; [reflexivity|].
  cbn [has_dup_idx]. apply orb_false_iff. split.
  - destruct (set_mem str_eqb (dr_filter r) seen) eqn:E; [|reflexivity].
    apply H2 in E. rewrite cnt_cons in E. unfold fmatch in E. rewrite str_eqb_refl in E. discriminate.
  - apply IH.
    + intros f. specialize (H1 f). rewrite cnt_cons in H1. lia.
    + intros f Hf. cbn [set_mem] in Hf. apply orb_true_iff in Hf. destruct Hf as [Hf | Hf].
      * apply str_eqb_eq in Hf. subst f. specialize (H1 (dr_filter r)). rewrite cnt_cons in H1.
        unfold fmatch in H1 at 1. rewrite str_eqb_refl in H1. lia.
      * specialize (H2 _ Hf). rewrite cnt_cons in H2. lia.
Qed.

(* ------------------------------------------------------------------ wpd *)
Definition wpd {A} (x : R A) (Q : A -> Prop) : Prop :=
  match x with Ok a => Q a | Err _ => True | Panic t => t <> P_DBG_DUP end.

Lemma wpd_bind {A B} (x : R A) (f : A -> R B) Q : wpd x (fun a => wpd (f a) Q) -> wpd (bind x f) Q.
Proof. destruct x; cbn [wpd bind]; auto. Qed.
Lemma wpd_mono {A} (x : R A) (Q Q' : A -> Prop) : wpd x Q -> (forall a, Q a -> Q' a) -> wpd x Q'.
Proof. destruct x; cbn [wpd]; auto. Qed.
Lemma wpd_and_wp {A} cfg (x : R A) (P Q : A -> Prop) : wp cfg x P -> wpd x Q -> wpd x (fun a => P a /\ Q a).
Proof. destruct x; cbn [wp wpd]; auto. Qed.
Lemma wpd_true {A} cfg (x : R A) (P : A -> Prop) : wp cfg x P -> (forall t, x = Panic t -> t <> P_DBG_DUP) -> wpd x P.
Proof. destruct x; cbn [wp wpd]; auto. Qed.
