(** wp-specifications of the DataLog helpers (logs.rs / waiters.rs part of the model). *)
From Rumqtt Require Import Router.Inv Router.InvLemmasPrim Router.InvLemmasSched Router.NoPanicLog Topic.Proofs.
From Coq Require Import Arith ZifyBool ZifyN ZifyNat.

(* ------------------------------------------------------------------ dl_ok building blocks *)
Lemma dl_ok_set_pfilters sh dl pf :
  dl_ok sh dl -> Forall (fun tv : str * list N => Forall (fun i => i < dlen dl) (snd tv)) pf ->
  dl_ok sh (set_dl_pfilters dl pf).
Proof. intros [] H. constructor; auto. Qed.

Lemma dl_ok_set_retained sh dl m : dl_ok sh dl -> dl_ok sh (set_dl_retained dl m).
Proof. intros []. constructor; auto. Qed.

Lemma dl_ok_put_native sh dl idx d' :
  dl_ok sh dl -> data_ok sh (dlen dl) d' ->
  dl_ok sh (set_dl_native dl (slab_put (dl_native dl) idx d')) /\
  dlen (set_dl_native dl (slab_put (dl_native dl) idx d')) = dlen dl.
Proof.
  intros [] Hd.
  assert (Hl : dlen (set_dl_native dl (slab_put (dl_native dl) idx d')) = dlen dl).
  { unfold dlen. cbn [set_dl_native dl_native slab_put sl_items]. apply lenN_setN. }
  split; [|exact Hl]. constructor; rewrite ?Hl; auto.
  cbn [set_dl_native dl_native slab_put sl_items]. apply Forall_setN; auto.
Qed.

Lemma native_get_ok sh dl idx :
  dl_ok sh dl -> idx < dlen dl ->
  exists d, native_get dl idx = Ok d /\ slab_get (dl_native dl) idx = Some d /\ data_ok sh (dlen dl) d.
Proof.
  intros [] Hi. destruct (nthN_lt _ _ Hi) as [o Ho].
  pose proof (Forall_nthN _ _ _ _ dk_items Ho) as Hok.
  destruct o as [d|]; [|contradiction]. exists d. unfold native_get, slab_get. rewrite Ho. auto.
Qed.

Lemma data_new_ok cfg f :
  cfg_ok cfg -> exists d, data_new cfg f = Ok d /\ forall sh n, data_ok sh n d.
Proof.
  intros [H1 H2]. destruct (@lw_new pubdata pubdata_size _ _ H1 H2) as (l & Hl & Hwf).
  unfold data_new. rewrite Hl. cbn [bind]. eexists. split; [reflexivity|].
  intros sh n. split; cbn [d_log d_waiters]; [eauto|constructor].
Qed.

Lemma topic_matches_spec cfg t f : wp cfg (topic_matches t f) (fun _ => True).
Proof.
  unfold topic_matches. pose proof (matches_total t f) as H.
  destruct (matches t f); cbn in *; auto. discriminate.
Qed.

Lemma matching_idxs_spec cfg t n fi :
  Forall (fun fi : str * N => snd fi < n) fi ->
  wp cfg (matching_idxs t fi) (fun l => Forall (fun i => i < n) l).
Proof.
  induction fi as [|[f i] fi IH]; intros H; cbn [matching_idxs]; [constructor|].
  inversion H as [|? ? Hi H']; subst. cbn [snd] in Hi.
  apply wp_bind. wp_use topic_matches_spec. intros b _.
  apply wp_bind. wp_use IH; [exact H'|]. intros rest Hrest. cbn [wp].
  destruct b; auto.
Qed.

Lemma set_mem_In x l : set_mem N.eqb x l = true -> In x l.
Proof.
  induction l as [|y l IH]; cbn [set_mem]; [discriminate|].
  intros H. apply orb_true_iff in H. destruct H as [H | H]; [left; apply N.eqb_eq in H; auto|right; auto].
Qed.

Lemma perm_ofN_Forall (P : N -> Prop) v base : perm_ofN v base = true -> Forall P base -> Forall P v.
Proof.
  unfold perm_ofN. intros H Hb. apply andb_true_iff in H. destruct H as [_ H].
  rewrite forallb_forall in H. apply Forall_forall. intros x Hx. apply H in Hx. apply set_mem_In in Hx.
  rewrite Forall_forall in Hb. auto.
Qed.

Lemma dl_matches_spec cfg st t :
  RInvC cfg st ->
  wp cfg (dl_matches st t)
     (fun r => RInvC cfg (fst r) /\ fr st (fst r) /\ Forall (fun i => i < nlen (fst r)) (snd r)).
Proof.
  intros HI. pose proof (ri_dl _ _ HI) as Hdl. unfold dl_matches.
  destruct (al_get str_eqb t (dl_pfilters (r_datalog st))) as [v|] eqn:E.
  - cbn [wp fst snd]. split; [exact HI|]. split; [apply fr_refl|].
    exact (al_get_Forall_snd _ (fun v => Forall (fun i => i < dlen (r_datalog st)) v) _ _ _ (dk_pf _ _ Hdl) E).
  - apply wp_bind. wp_use matching_idxs_spec; [apply (dk_findex _ _ Hdl)|]. intros base Hbase.
    apply wp_bind.
    assert (Hsel : wp cfg
      (match base with
       | [] | [_] => Ok (base, r_oracle st)
       | _ :: _ :: _ =>
           match r_oracle st with
           | OMatches v :: orc => if perm_ofN v base then Ok (v, orc) else Err tt
           | _ => Err tt
           end
       end) (fun r => Forall (fun i => i < dlen (r_datalog st)) (fst r))).
    { destruct base as [|b1 [|b2 base]]; cbn [wp fst]; auto.
      destruct (r_oracle st) as [|[v| |] orc]; cbn [wp]; auto.
      destruct (perm_ofN v (b1 :: b2 :: base)) eqn:Ep; cbn [wp fst]; auto.
      eapply perm_ofN_Forall; eauto. }
    eapply wp_mono; [exact Hsel|]. cbn beta. intros [v orc] Hv. cbn [fst] in Hv. cbn [wp fst snd].
    assert (HI' : RInvC cfg (set_r_datalog st
              match v with
              | [] => r_datalog st
              | _ :: _ => set_dl_pfilters (r_datalog st) (al_set str_eqb t v (dl_pfilters (r_datalog st)))
              end)).
    { apply RInv_set_datalog; [exact HI| |].
      - destruct v; [exact Hdl|]. apply dl_ok_set_pfilters; [exact Hdl|].
        apply (Forall_al_set str_eqb (fun v => Forall (fun i => i < dlen (r_datalog st)) v)); [apply (dk_pf _ _ Hdl)|exact Hv].
      - destruct v; unfold nlen, dlen; cbn; lia. }
    split; [now apply RInv_set_oracle|].
    assert (Hn : nlen (set_r_oracle (set_r_datalog st
              match v with
              | [] => r_datalog st
              | _ :: _ => set_dl_pfilters (r_datalog st) (al_set str_eqb t v (dl_pfilters (r_datalog st)))
              end) orc) = nlen st).
    { unfold nlen, dlen. destruct v; reflexivity. }
    split; [|rewrite Hn; exact Hv].
    unfold fr, ext. rewrite Hn. unfold lives. cbn. repeat split; lia.
Qed.

Lemma pfilters_add_spec cfg idx f n pf :
  idx < n -> Forall (fun tv : str * list N => Forall (fun i => i < n) (snd tv)) pf ->
  wp cfg (pfilters_add idx f pf) (fun pf' => Forall (fun tv : str * list N => Forall (fun i => i < n) (snd tv)) pf').
Proof.
  intros Hi. induction pf as [|[t v] pf IH]; intros H; cbn [pfilters_add]; [constructor|].
  inversion H as [|? ? Hv H']; subst. cbn [snd] in Hv.
  apply wp_bind. wp_use topic_matches_spec. intros b _.
  apply wp_bind. wp_use IH; [exact H'|]. intros r' Hr'. cbn [wp].
  constructor; [|exact Hr']. cbn [snd]. destruct b; [|exact Hv].
  apply Forall_app. split; [exact Hv|]. constructor; [exact Hi|constructor].
Qed.

Lemma next_offset_spec' cfg (l : log pubdata) all :
  WF pubdata_size l all -> wp cfg (next_offset l) (fun _ => True).
Proof.
  intros H. destruct (lw_next_offset pubdata_size l all H) as [[c Hc] | Hp]; [rewrite Hc|rewrite Hp]; cbn [wp]; auto.
  apply okp_add.
Qed.

Lemma next_native_offset_spec cfg st f :
  RInvC cfg st ->
  wp cfg (next_native_offset st f)
     (fun r => RInvC cfg (fst (fst r)) /\ fr st (fst (fst r)) /\ snd (fst r) < nlen (fst (fst r))).
Proof.
  intros HI. pose proof (ri_dl _ _ HI) as Hdl. unfold next_native_offset.
  destruct (al_get str_eqb f (dl_findex (r_datalog st))) as [idx|] eqn:E.
  - pose proof (al_get_Forall_snd _ (fun i => i < dlen (r_datalog st)) _ _ _ (dk_findex _ _ Hdl) E) as Hi.
    destruct (native_get_ok _ _ _ Hdl Hi) as (d & Hd & _ & [[all Hwf] _]). rewrite Hd. cbn [bind].
    apply wp_bind. wp_use next_offset_spec'; [exact Hwf|]. intros c _. cbn [wp fst snd].
    split; [exact HI|]. split; [apply fr_refl|exact Hi].
  - destruct (data_new_ok cfg f (ri_cfg_ok _ _ HI)) as (d & Hd & Hdok).
    rewrite (ri_cfg _ _ HI), Hd. cbn [bind].
    unfold slab_insert. rewrite (dk_free _ _ Hdl).
    set (n := lenN (sl_items (dl_native (r_datalog st)))).
    apply wp_bind. wp_use (pfilters_add_spec cfg n f (n + 1)); [lia| |].
    { generalize (dk_pf _ _ Hdl). apply Forall_impl. intros a. apply Forall_impl. unfold dlen. fold n. lia. }
    intros pf Hpf. apply wp_bind.
    destruct (Hdok (lives st) (n + 1)) as [[all Hwf] _].
    wp_use next_offset_spec'; [exact Hwf|]. intros c _. cbn [wp fst snd].
    set (dl' := {| dl_native := {| sl_items := sl_items (dl_native (r_datalog st)) ++ [Some d]; sl_free := [] |};
                   dl_findex := al_set str_eqb f n (dl_findex (r_datalog st));
                   dl_retained := dl_retained (r_datalog st); dl_pfilters := pf |}).
    assert (Hlen : dlen dl' = n + 1).
    { unfold dlen, dl'. cbn [dl_native sl_items]. rewrite lenN_app'. reflexivity. }
    assert (Hok' : dl_ok (lives st) dl').
    { constructor; rewrite ?Hlen; cbn [dl' dl_native sl_free sl_items dl_findex dl_pfilters]; auto.
      - apply Forall_app. split.
        + eapply dl_ok_items_mono; [|apply (dk_items _ _ Hdl)]. unfold dlen. fold n. lia.
        + constructor; [|constructor]. apply Hdok.
      - apply (Forall_al_set str_eqb (fun i => i < n + 1)); [|lia].
        generalize (dk_findex _ _ Hdl). apply Forall_impl. intros a. unfold dlen. fold n. lia. }
    split; [apply RInv_set_datalog; auto; unfold nlen; rewrite Hlen; unfold dlen; fold n; lia|].
    split; [|unfold nlen; cbn [r_datalog set_r_datalog]; rewrite Hlen; lia].
    unfold fr, ext, lives, nlen. cbn [r_conns r_datalog set_r_datalog r_ready r_notif]. rewrite Hlen.
    unfold dlen. fold n. repeat split; lia.
Qed.

Lemma append_spec' cfg (l : log pubdata) all x :
  WF pubdata_size l all ->
  wp cfg (append pubdata_size l x) (fun r => exists all', WF pubdata_size (fst r) all').
Proof.
  intros H. destruct (lw_append pubdata_size l all x H) as [(l' & c & Hc & Hwf) | Hp]; [rewrite Hc|rewrite Hp]; cbn [wp fst]; eauto.
  apply okp_add.
Qed.

Lemma data_append_spec cfg st idx item :
  RInvC cfg st -> idx < nlen st ->
  wp cfg (data_append st idx item)
     (fun st' => RInvC cfg st' /\ ext st st' /\ nlen st' = nlen st /\ r_ready st' = r_ready st).
Proof.
  intros HI Hi. pose proof (ri_dl _ _ HI) as Hdl. unfold data_append.
  destruct (native_get_ok _ _ _ Hdl Hi) as (d & Hd & _ & [[all Hwf] Hw]). rewrite Hd. cbn [bind].
  apply wp_bind. wp_use append_spec'; [exact Hwf|]. intros [l' off] Hl'. cbn [fst] in Hl'. cbn [wp].
  set (d' := {| d_filter := d_filter d; d_log := l'; d_waiters := [] |}).
  destruct (dl_ok_put_native (lives st) (r_datalog st) idx d' Hdl) as [Hok' Hlen].
  { split; cbn [d' d_log d_waiters]; [exact Hl'|constructor]. }
  assert (HI1 : RInvC cfg (set_r_datalog st (set_dl_native (r_datalog st) (slab_put (dl_native (r_datalog st)) idx d')))).
  { apply RInv_set_datalog; auto. unfold nlen. lia. }
  split.
  - apply RInv_set_notif; [exact HI1|]. unfold lives, nlen. cbn [r_conns r_datalog set_r_datalog r_notif]. rewrite Hlen.
    apply Forall_app. split; [apply (ri_notif _ _ HI)|exact Hw].
  - unfold ext, lives, nlen. cbn [r_conns r_datalog set_r_datalog set_r_notif r_ready]. rewrite Hlen. repeat split; lia.
Qed.

Lemma append_all_spec cfg item idxs : forall st,
  RInvC cfg st -> Forall (fun i => i < nlen st) idxs ->
  wp cfg (append_all st idxs item)
     (fun st' => RInvC cfg st' /\ ext st st' /\ nlen st' = nlen st /\ r_ready st' = r_ready st).
Proof.
  induction idxs as [|i idxs IH]; intros st HI H; cbn [append_all].
  - cbn [wp]. split; [exact HI|]. split; [apply ext_refl|auto].
  - inversion H as [|? ? Hi H']; subst. apply wp_bind. wp_use data_append_spec; eauto.
    intros st1 (HI1 & E1 & N1 & R1). wp_use IH; eauto.
    + rewrite N1. exact H'.
    + intros st2 (HI2 & E2 & N2 & R2). split; [exact HI2|]. split; [eapply ext_trans; eauto|]. split; congruence.
Qed.

Lemma park_spec cfg st id rq :
  RInvC cfg st -> occ (lives st) id -> req_ok (nlen st) rq ->
  wp cfg (park st id rq) (fun st' => RInvC cfg st' /\ fr st st').
Proof.
  intros HI Ho Hrq. pose proof (ri_dl _ _ HI) as Hdl. unfold park.
  destruct (native_get_ok _ _ _ Hdl (proj2 Hrq)) as (d & Hd & _ & [Hwf Hw]). rewrite Hd. cbn [bind wp].
  destruct (dl_ok_put_native (lives st) (r_datalog st) (dr_idx rq) (set_d_waiters d (d_waiters d ++ [(id, rq)])) Hdl) as [Hok' Hlen].
  { split; cbn [set_d_waiters d_log d_waiters]; [exact Hwf|]. apply Forall_app. split; [exact Hw|].
    constructor; [|constructor]. split; assumption. }
  split; [apply RInv_set_datalog; auto; unfold nlen; lia|].
  unfold fr, ext, lives, nlen. cbn [r_conns r_datalog set_r_datalog r_ready r_notif]. rewrite Hlen. repeat split; lia.
Qed.

Lemma retain_update_spec cfg st topic p props :
  RInvC cfg st -> RInvC cfg (retain_update st topic p props) /\ fr st (retain_update st topic p props).
Proof.
  intros HI. unfold retain_update. destruct (p_retain p); [|split; [exact HI|apply fr_refl]].
  destruct (p_payload p); (split; [apply RInv_set_datalog; [exact HI|apply dl_ok_set_retained; apply (ri_dl _ _ HI)|unfold nlen, dlen; cbn; lia]|]);
    unfold fr, ext, lives, nlen, dlen; cbn; repeat split; lia.
Qed.

(* ------------------------------------------------------------------ waiters *)
Lemma swap_remove_back_spec {X} (l : list X) : forall i x l',
  swap_remove_back l i = Some (x, l') ->
  In x l /\ (forall y, In y l' -> In y l) /\ S (length l') = length l.
Proof.
  induction l as [|a l IH]; intros i x l' H; cbn [swap_remove_back] in H; [discriminate|].
  destruct (i =? 0).
  - destruct (rev l) as [|lst mid] eqn:Er; inversion H; subst; clear H.
    + split; [now left|]. split; [intros y []|].
      assert (l = []) by (rewrite <- (rev_involutive l), Er; reflexivity). subst. reflexivity.
    + assert (El : l = rev mid ++ [lst]) by (rewrite <- (rev_involutive l), Er; reflexivity).
      split; [now left|]. split.
      * intros y [<- | Hy]; right; rewrite El; apply in_or_app; [right; now left|now left].
      * rewrite El. cbn [length]. rewrite app_length. cbn [length]. lia.
  - destruct (swap_remove_back l (i - 1)) as [[y r']|] eqn:E; inversion H; subst; clear H.
    destruct (IH _ _ _ E) as (H1 & H2 & H3).
    split; [now right|]. split; [|cbn [length]; lia].
    intros z [<- | Hz]; [now left|right; auto].
Qed.

Lemma swap_remove_back_some {X} (l : list X) : forall i, i < lenN l -> exists r, swap_remove_back l i = Some r.
Proof.
  induction l as [|a l IH]; intros i H; [unfold lenN in H; cbn in H; lia|].
  cbn [swap_remove_back]. destruct (N.eqb_spec i 0) as [-> | Hne].
  - destruct (rev l); eauto.
  - rewrite lenN_cons' in H. destruct (IH (i - 1)) as [[y r'] E]; [lia|]. rewrite E. eauto.
Qed.

Lemma position_id_spec w id : forall off i,
  position_id w id off = Some i -> off <= i /\ i - off < lenN w.
Proof.
  induction w as [|[c rq] w IH]; intros off i H; cbn [position_id] in H; [discriminate|].
  rewrite lenN_cons'. destruct (c =? id).
  - inversion H; subst. lia.
  - apply IH in H. lia.
Qed.

Lemma position_id_none w id : forall off,
  position_id w id off = None -> Forall (fun x : N * drequest => fst x <> id) w.
Proof.
  induction w as [|[c rq] w IH]; intros off H; cbn [position_id] in H; [constructor|].
  destruct (N.eqb_spec c id); [discriminate|]. constructor; [exact n|]. eapply IH; eauto.
Qed.

Lemma waiters_remove_spec id : forall fuel w w' q,
  (length w < fuel)%nat -> waiters_remove fuel w id = (w', q) ->
  (forall y, In y w' -> In y w /\ fst y <> id) /\ (forall r, In r q -> exists c, In (c, r) w).
Proof.
  induction fuel as [|fuel IH]; intros w w' q Hlen H; [lia|].
  cbn [waiters_remove] in H. destruct (position_id w id 0) as [i|] eqn:Ep.
  - destruct (position_id_spec _ _ _ _ Ep) as [_ Hi]. rewrite N.sub_0_r in Hi.
    destruct (swap_remove_back_some w i Hi) as [[[c rq] w1] Es]. rewrite Es in H.
    destruct (waiters_remove fuel w1 id) as [w2 rqs] eqn:Er. inversion H; subst; clear H.
    destruct (swap_remove_back_spec _ _ _ _ Es) as (Hin & Hsub & Hl).
    assert (Hlt : (length w1 < fuel)%nat) by lia.
    destruct (IH _ _ _ Hlt Er) as [H1 H2]. split.
    + intros y Hy. destruct (H1 _ Hy) as [Hy1 Hy2]. auto.
    + intros r [<- | Hr]; [eauto|]. destruct (H2 _ Hr) as [c' Hc']. eauto.
  - inversion H; subst; clear H. split; [|intros r []].
    intros y Hy. split; [exact Hy|]. pose proof (position_id_none _ _ _ Ep) as Hf.
    rewrite Forall_forall in Hf. auto.
Qed.

Lemma occ_setN_false sh id k : occ sh k -> k <> id -> occ (setN sh id false) k.
Proof. intros H Hne. unfold occ. rewrite nthN_setN_neq by congruence. exact H. Qed.

(** DataLog::clean: afterwards no waiter of [id] is left, so the logs are fine for the shape
    without [id]; the removed requests were fine *)
Lemma clean_items_spec sh n id : forall items items' q,
  Forall (odata_ok sh n) items -> clean_items items id = (items', q) ->
  Forall (odata_ok (setN sh id false) n) items' /\ length items' = length items /\ Forall (req_ok n) q.
Proof.
  induction items as [|[d|] items IH]; intros items' q H Hc; cbn [clean_items] in Hc.
  - inversion Hc; subst. auto.
  - inversion H as [|? ? Hd H']; subst. cbn [odata_ok] in Hd. destruct Hd as [Hwf Hw].
    destruct (waiters_remove (S (length (d_waiters d))) (d_waiters d) id) as [w' q1] eqn:Ew.
    destruct (clean_items items id) as [r' q2] eqn:Er. inversion Hc; subst; clear Hc.
    destruct (IH _ _ H' eq_refl) as (H1 & H2 & H3).
    assert (Hlt : (length (d_waiters d) < S (length (d_waiters d)))%nat) by lia.
    destruct (waiters_remove_spec id _ _ _ _ Hlt Ew) as [Hk Hq].
    rewrite Forall_forall in Hw.
    split; [|split; [cbn [length]; lia|]].
    + constructor; [|exact H1]. split; cbn [set_d_waiters d_log d_waiters]; [exact Hwf|].
      apply Forall_forall. intros y Hy. destruct (Hk _ Hy) as [Hy1 Hy2]. destruct (Hw _ Hy1) as [Ho Hr].
      split; [|exact Hr]. now apply occ_setN_false.
    + apply Forall_app. split; [|exact H3]. apply Forall_forall. intros r Hr.
      destruct (Hq _ Hr) as [c Hc]. apply (Hw _ Hc).
  - inversion H as [|? ? Hf H']; subst. cbn [odata_ok] in Hf. destruct Hf.
Qed.

Lemma dl_clean_spec sh dl id dl' q :
  dl_ok sh dl -> dl_clean dl id = (dl', q) ->
  dl_ok (setN sh id false) dl' /\ dlen dl' = dlen dl /\ Forall (req_ok (dlen dl)) q.
Proof.
  intros [] H. unfold dl_clean in H. destruct (clean_items (sl_items (dl_native dl)) id) as [items q'] eqn:E.
  inversion H; subst; clear H. destruct (clean_items_spec _ _ _ _ _ _ dk_items E) as (H1 & H2 & H3).
  assert (Hl : dlen (set_dl_native dl {| sl_items := items; sl_free := sl_free (dl_native dl) |}) = dlen dl).
  { unfold dlen, lenN. cbn [set_dl_native dl_native sl_items]. now rewrite H2. }
  split; [|split; [exact Hl|exact H3]]. constructor; rewrite ?Hl; auto.
Qed.

Lemma remove_waiter_items_spec sh n id f : forall items,
  Forall (odata_ok sh n) items ->
  Forall (odata_ok sh n) (remove_waiter_items items id f) /\ length (remove_waiter_items items id f) = length items.
Proof.
  induction items as [|[d|] items IH]; intros H; cbn [remove_waiter_items]; [auto| |].
  - inversion H as [|? ? Hd H']; subst. cbn [odata_ok] in Hd. destruct Hd as [Hwf Hw].
    destruct (position_req (d_waiters d) id f 0) as [i|].
    + destruct (swap_remove_back (d_waiters d) i) as [[x w']|] eqn:Es; [|auto].
      split; [|reflexivity]. constructor; [|exact H'].
      split; cbn [set_d_waiters d_log d_waiters]; [exact Hwf|].
      destruct (swap_remove_back_spec _ _ _ _ Es) as (_ & Hsub & _).
      rewrite Forall_forall in *. auto.
    + destruct (IH H') as [H1 H2]. split; [|cbn [length]; lia]. constructor; [split; auto|exact H1].
  - inversion H as [|? ? Hf H']; subst. cbn [odata_ok] in Hf. destruct Hf.
Qed.

Lemma remove_waiters_for_id_spec cfg st id f :
  RInvC cfg st ->
  wp cfg (remove_waiters_for_id st id f) (fun st' => RInvC cfg st' /\ fr st st').
Proof.
  intros HI. pose proof (ri_dl _ _ HI) as Hdl. unfold remove_waiters_for_id. cbn [wp].
  destruct (remove_waiter_items_spec (lives st) (nlen st) id f _ (dk_items _ _ Hdl)) as [H1 H2].
  set (dl' := set_dl_native (r_datalog st) {| sl_items := remove_waiter_items (sl_items (dl_native (r_datalog st))) id f; sl_free := sl_free (dl_native (r_datalog st)) |}).
  assert (Hl : dlen dl' = nlen st).
  { unfold dlen, nlen, lenN. cbn [dl' set_dl_native dl_native sl_items]. now rewrite H2. }
  split.
  - apply RInv_set_datalog; [exact HI| |lia]. destruct Hdl. constructor; rewrite ?Hl; auto.
  - unfold fr, ext, lives. cbn [r_conns set_r_datalog r_ready r_notif]. unfold nlen at 2. cbn [r_datalog set_r_datalog].
    fold dl'. rewrite Hl. repeat split; lia.
Qed.

(* ------------------------------------------------------------------ retained *)
Lemma retained_matching_spec cfg f m : wp cfg (retained_matching f m) (fun _ => True).
Proof.
  induction m as [|[t d] m IH]; cbn [retained_matching]; [exact I|].
  apply wp_bind. wp_use topic_matches_spec. intros b _. apply wp_bind. wp_use IH. intros r _. exact I.
Qed.

(** read_retained only consumes the oracle *)
Definition oracle_only (st st' : rstate) : Prop := st' = st \/ exists orc, st' = set_r_oracle st orc.

Lemma read_retained_spec cfg st f :
  wp cfg (read_retained st f) (fun r => oracle_only st (fst r)).
Proof.
  unfold read_retained. apply wp_bind. wp_use retained_matching_spec. intros base _.
  destruct base as [|b1 [|b2 base]]; cbn [wp fst]; try (left; reflexivity).
  destruct (r_oracle st) as [|[| v |] orc]; cbn [wp]; auto.
  destruct (perm_ofS v (b1 :: b2 :: base)); cbn [wp fst]; auto. right. eauto.
Qed.
