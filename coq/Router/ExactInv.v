(** C01 exactness — the cursor invariant [CInv].

    Every cursor the router keeps — in a data request (held by a tracker, parked in a waiter
    list, queued in [notifications], saved with a session in the graveyard), in an inflight
    entry of an outgoing buffer, in a shared-subscription group — is a cursor the commit log it
    refers to has [Issued] (Log.Spec), and its offset does not exceed the number of entries
    ever appended to that log.  The invariant also carries what makes the statement
    meaningful: every filter log is well-formed ([WF], for some ghost history), the slab of
    logs never frees a key, and a request of a shared subscription "name/filter" refers to the
    log that [filter_indexes] gives for [filter] (so the cursor of the group is a cursor of that
    same log).

    This file: definitions, monotonicity in the data log ([dl_le]: logs are only ever appended
    to / created), and preservation by the primitive state updates. *)
From Rumqtt Require Import Log.Spec Log.Proofs Router.ExactLog.
From Rumqtt Require Import Topic.Proofs Router.WindowFrame Router.DataLogInv Router.DataLogStep.
From Rumqtt Require Import Router.Model.
From Coq Require Import ZifyBool ZifyN ZifyNat.

Notation WFp := (WF pubdata_size).
Notation llog_le := (log_le pubdata_size).

(* ------------------------------------------------------------------ definitions *)
Definition nget (dl : datalog) (i : N) : option data := slab_get (dl_native dl) i.

(** [c] is a cursor of the log number [i] *)
Definition CurOk (dl : datalog) (i : N) (c : cursor) : Prop :=
  exists d, nget dl i = Some d /\ Issued (d_log d) c /\ snd c <= end_of (d_log d).

(** a request of the shared subscription "name/path" reads the log of [path] *)
Definition GrpIdx (dl : datalog) (rq : drequest) : Prop :=
  forall g, dr_group rq = Some g ->
    exists nm p, split_once_slash g = Some (nm, p) /\ al_get str_eqb p (dl_findex dl) = Some (dr_idx rq).

Definition RqOk (dl : datalog) (rq : drequest) : Prop :=
  CurOk dl (dr_idx rq) (dr_cursor rq) /\ GrpIdx dl rq.

Definition InflOk (dl : datalog) (e : N * N * option cursor) : Prop :=
  match e with (_, fi, Some c) => CurOk dl fi c | _ => True end.

(** the group "name/path" holds a cursor of the log of [path] *)
Definition GrpOk (dl : datalog) (ng : str * group) : Prop :=
  exists nm p i, split_once_slash (fst ng) = Some (nm, p) /\
                 al_get str_eqb p (dl_findex dl) = Some i /\ CurOk dl i (g_cursor (snd ng)).

Definition SessOk (dl : datalog) (cs : str * option session) : Prop :=
  match snd cs with Some ss => Forall (RqOk dl) (tr_reqs (ss_tracker ss)) | None => True end.

Definition WtOk (dl : datalog) (w : N * drequest) : Prop := RqOk dl (snd w).

Record LogsInv (dl : datalog) : Prop := {
  li_nofree : sl_free (dl_native dl) = [];
  li_wf : forall i d, nget dl i = Some d -> exists all, WFp (d_log d) all
}.

Definition B62 : N := 4611686018427387904.     (* 2^62 *)

(** the cursor part, relative to a data log [dl] (normally [r_datalog st]) *)
Record CInvD (dl : datalog) (st : rstate) : Prop := {
  ci_trk : forall k t, slab_get (r_trackers st) k = Some t -> Forall (RqOk dl) (tr_reqs t);
  ci_wait : forall i d, nget (r_datalog st) i = Some d -> Forall (WtOk dl) (d_waiters d);
  ci_notif : Forall (WtOk dl) (r_notif st);
  ci_grave : Forall (SessOk dl) (r_graveyard st);
  ci_infl : forall k o, slab_get (r_obufs st) k = Some o -> Forall (InflOk dl) (o_inflight o);
  ci_groups : Forall (GrpOk dl) (r_groups st);
  (* the per-sweep read limit of QoS 0 subscriptions ([max_outgoing_packet_count]) is a sane
     number; carried here because the configuration never changes *)
  ci_cfg : cf_max_outgoing (r_cfg st) < B62
}.

Definition CInv (st : rstate) : Prop := LogsInv (r_datalog st) /\ CInvD (r_datalog st) st.

(** the resource bound the C13 read theorems need: fewer than 2^62 entries were ever appended
    to any one filter log *)
Definition Bounded (st : rstate) : Prop :=
  forall i d, nget (r_datalog st) i = Some d -> end_of (d_log d) < B62.

(* ------------------------------------------------------------------ the order on data logs *)
Definition dl_le (dl dl' : datalog) : Prop :=
  (forall i d, nget dl i = Some d ->
     exists d', nget dl' i = Some d' /\ d_filter d' = d_filter d /\ llog_le (d_log d) (d_log d')) /\
  (forall p i, al_get str_eqb p (dl_findex dl) = Some i -> al_get str_eqb p (dl_findex dl') = Some i).

Lemma dl_le_refl dl : dl_le dl dl.
Proof. split; [|auto]. intros i d H. exists d. split; [exact H|]. split; [reflexivity|apply log_le_refl]. Qed.

Lemma dl_le_trans a b c : dl_le a b -> dl_le b c -> dl_le a c.
Proof.
  intros [H1 F1] [H2 F2]. split; [|auto]. intros i d Hd.
  destruct (H1 _ _ Hd) as (d1 & Hd1 & Hf1 & L1). destruct (H2 _ _ Hd1) as (d2 & Hd2 & Hf2 & L2).
  exists d2. split; [exact Hd2|]. split; [congruence|]. eapply log_le_trans; eassumption.
Qed.

(** same native slab (up to waiters) and same filter index *)
Lemma dl_le_same_logs dl dl' : same_logs dl dl' -> dl_le dl dl'.
Proof.
  intros (_ & Hf & _ & Hs). split; [|now rewrite Hf]. intros i d Hd. specialize (Hs i). unfold nget in *.
  rewrite Hd in Hs. unfold same_data in Hs. destruct (slab_get (dl_native dl') i) as [d'|]; [|tauto].
  destruct Hs as [Hfl Hl]. exists d'. split; [reflexivity|]. split; [exact Hfl|]. rewrite Hl. apply log_le_refl.
Qed.

Lemma logsinv_same_logs dl dl' : LogsInv dl -> same_logs dl dl' -> LogsInv dl'.
Proof.
  intros [H1 H2] (Hfr & _ & _ & Hs). constructor; [congruence|]. intros i d' Hd'. specialize (Hs i). unfold nget in *.
  rewrite Hd' in Hs. unfold same_data in Hs. destruct (slab_get (dl_native dl) i) as [d|] eqn:Ed; [|tauto].
  destruct Hs as [_ Hl]. rewrite Hl. eapply H2; eassumption.
Qed.

Lemma curok_mono dl dl' i c : LogsInv dl -> dl_le dl dl' -> CurOk dl i c -> CurOk dl' i c.
Proof.
  intros LI [Hle _] (d & Hd & Hi & Hb). destruct (Hle _ _ Hd) as (d' & Hd' & _ & L).
  destruct (li_wf _ LI _ _ Hd) as [all W]. destruct (L all W) as (xs & W' & HI & _).
  exists d'. split; [exact Hd'|]. split; [now apply HI|].
  pose proof (log_le_end pubdata_size _ _ all L W). lia.
Qed.

Lemma grpidx_mono dl dl' rq : dl_le dl dl' -> GrpIdx dl rq -> GrpIdx dl' rq.
Proof.
  intros [_ Hf] H g Hg. destruct (H g Hg) as (nm & p & H1 & H2). exists nm, p. split; [exact H1|]. now apply Hf.
Qed.

Lemma rqok_mono dl dl' rq : LogsInv dl -> dl_le dl dl' -> RqOk dl rq -> RqOk dl' rq.
Proof. intros LI L [H1 H2]. split; [eapply curok_mono; eassumption|eapply grpidx_mono; eassumption]. Qed.

Lemma rqsok_mono dl dl' l : LogsInv dl -> dl_le dl dl' -> Forall (RqOk dl) l -> Forall (RqOk dl') l.
Proof. intros LI L. apply Forall_impl. intros rq. now apply rqok_mono. Qed.

Lemma wtsok_mono dl dl' l : LogsInv dl -> dl_le dl dl' -> Forall (WtOk dl) l -> Forall (WtOk dl') l.
Proof. intros LI L. apply Forall_impl. intros w. unfold WtOk. now apply rqok_mono. Qed.

Lemma inflok_mono dl dl' e : LogsInv dl -> dl_le dl dl' -> InflOk dl e -> InflOk dl' e.
Proof. intros LI L. destruct e as [[pk fi] [c|]]; cbn [InflOk]; [|auto]. now apply curok_mono. Qed.

Lemma grpok_mono dl dl' ng : LogsInv dl -> dl_le dl dl' -> GrpOk dl ng -> GrpOk dl' ng.
Proof.
  intros LI L (nm & p & i & H1 & H2 & H3). exists nm, p, i. split; [exact H1|].
  split; [now apply (proj2 L)|eapply curok_mono; eassumption].
Qed.

Lemma sessok_mono dl dl' cs : LogsInv dl -> dl_le dl dl' -> SessOk dl cs -> SessOk dl' cs.
Proof. intros LI L. unfold SessOk. destruct (snd cs); [|auto]. now apply rqsok_mono. Qed.

Lemma cinvd_mono dl dl' st : LogsInv dl -> dl_le dl dl' -> CInvD dl st -> CInvD dl' st.
Proof.
  intros LI L [H1 H2 H3 H4 H5 H6 H7]. constructor.
  - intros k t Ht. eapply rqsok_mono; eauto.
  - intros i d Hd. eapply wtsok_mono; eauto.
  - eapply wtsok_mono; eauto.
  - revert H4. apply Forall_impl. intros cs. now apply sessok_mono.
  - intros k o Ho. specialize (H5 _ _ Ho). revert H5. apply Forall_impl. intros e. now apply inflok_mono.
  - revert H6. apply Forall_impl. intros ng. now apply grpok_mono.
  - exact H7.
Qed.

(* ------------------------------------------------------------------ primitive updates *)
(** the components the invariant reads *)
Definition cview (st : rstate) :=
  (r_trackers st, r_notif st, r_graveyard st, r_obufs st, r_groups st, r_datalog st, r_cfg st).

Lemma cinvd_view dl st st' : cview st' = cview st -> CInvD dl st -> CInvD dl st'.
Proof.
  unfold cview. intros E [H1 H2 H3 H4 H5 H6 H7]. inversion E as [[E1 E2 E3 E4 E5 E6 E7]].
  constructor; rewrite ?E1, ?E2, ?E3, ?E4, ?E5, ?E6, ?E7; assumption.
Qed.

Lemma cinv_view st st' : cview st' = cview st -> CInv st -> CInv st'.
Proof.
  intros E [LI CI]. assert (Ed : r_datalog st' = r_datalog st) by (unfold cview in E; congruence).
  split; rewrite Ed; [exact LI|]. eapply cinvd_view; eassumption.
Qed.

Lemma cinvd_put_tracker dl st id t' :
  CInvD dl st -> Forall (RqOk dl) (tr_reqs t') -> CInvD dl (put_tracker st id t').
Proof.
  intros [H1 H2 H3 H4 H5 H6 H7] Ht. constructor; rsimpl; try assumption.
  intros k t Hk. apply slab_get_put_inv in Hk. destruct Hk as [[-> ->] | [_ Hk]]; [exact Ht|eauto].
Qed.

Lemma cinvd_put_obuf dl st id o' :
  CInvD dl st -> Forall (InflOk dl) (o_inflight o') -> CInvD dl (put_obuf st id o').
Proof.
  intros [H1 H2 H3 H4 H5 H6 H7] Ho. constructor; rsimpl; try assumption.
  intros k o Hk. apply slab_get_put_inv in Hk. destruct Hk as [[-> ->] | [_ Hk]]; [exact Ho|eauto].
Qed.

Lemma cinvd_set_notif dl st v : CInvD dl st -> Forall (WtOk dl) v -> CInvD dl (set_r_notif st v).
Proof. intros [H1 H2 H3 H4 H5 H6 H7] Hv. constructor; rsimpl; assumption. Qed.

Lemma cinvd_set_groups dl st v : CInvD dl st -> Forall (GrpOk dl) v -> CInvD dl (set_r_groups st v).
Proof. intros [H1 H2 H3 H4 H5 H6 H7] Hv. constructor; rsimpl; assumption. Qed.

(** replacing the data log by one whose waiter lists are fine *)
Lemma cinvd_set_datalog dl st dl2 :
  CInvD dl st -> (forall i d, nget dl2 i = Some d -> Forall (WtOk dl) (d_waiters d)) ->
  CInvD dl (set_r_datalog st dl2).
Proof. intros [H1 H2 H3 H4 H5 H6 H7] Hv. constructor; rsimpl; assumption. Qed.

(* ------------------------------------------------------------------ association lists *)
Lemma Forall_al_set {V} (P : str * V -> Prop) k v m :
  Forall P m -> (forall k', str_eqb k k' = true -> P (k', v)) -> Forall P (al_set str_eqb k v m).
Proof.
  intros HF Hv. induction m as [|[k' v'] m IH]; cbn [al_set].
  - constructor; [|constructor]. apply Hv. destruct (str_eqb_spec k k); congruence.
  - inversion HF; subst. destruct (str_eqb k k') eqn:E; constructor; auto.
Qed.

Lemma Forall_al_remove {V} (P : str * V -> Prop) k m : Forall P m -> Forall P (al_remove str_eqb k m).
Proof.
  intros HF. induction m as [|[k' v'] m IH]; cbn [al_remove]; [constructor|].
  inversion HF; subst. destruct (str_eqb k k'); [assumption|constructor; auto].
Qed.

Lemma str_eqb_true a b : str_eqb a b = true -> a = b.
Proof. destruct (str_eqb_spec a b); [auto|discriminate]. Qed.

Lemma al_get_Forall {V} (P : str * V -> Prop) k m v : Forall P m -> al_get str_eqb k m = Some v -> P (k, v).
Proof. intros HF H. apply al_get_In in H. rewrite Forall_forall in HF. now apply HF. Qed.

(** GrpOk depends on the key and the cursor only *)
Lemma grpok_same dl k g g' : g_cursor g' = g_cursor g -> GrpOk dl (k, g) -> GrpOk dl (k, g').
Proof. intros E (nm & p & i & H1 & H2 & H3). exists nm, p, i. cbn [fst snd] in *. rewrite E. auto. Qed.
