(** C14, part 4: two small invariants the isolation theorem needs beyond [RInv]:
    [CmapInv]: connection_map has no repeated client id and every entry points to a live
    connection with that client id (the converse of RInv's clause), so a Connect of another
    client id can only take over another key;
    [IoLink]: the Incoming and the Outgoing of one connection name the same link. *)
From Coq Require Import ZifyBool ZifyN ZifyNat Permutation.
From Rumqtt Require Import Router.Inv Router.InvLemmasPrim Router.NoPanic.
From Rumqtt Require Import Router.WindowFrame Router.Window Router.WindowStep.
From Rumqtt Require Import Router.IsolationFrame Router.IsolationServe Router.IsolationWake.
From Rumqtt Require Import Router.Model Router.RunDefs.

(* ------------------------------------------------------------------ association lists with distinct keys *)
Lemma al_keys_remove {V} k (m : list (str * V)) x : In x (map fst (al_remove str_eqb k m)) -> In x (map fst m).
Proof.
  induction m as [| [k1 v1] r IH]; cbn [al_remove map fst]; [auto |].
  destruct (str_eqb k k1); cbn [map fst In]; [auto |]. intros [-> | H]; auto.
Qed.
Lemma al_remove_nodup {V} k (m : list (str * V)) : NoDup (map fst m) -> NoDup (map fst (al_remove str_eqb k m)).
Proof.
  induction m as [| [k1 v1] r IH]; cbn [al_remove map fst]; [auto |].
  intros Hnd. inversion Hnd as [| ? ? Hni Hnd']; subst.
  destruct (str_eqb k k1); cbn [map fst]; [exact Hnd' |].
  constructor; [| auto]. intros Hin. apply Hni. eapply al_keys_remove; eauto.
Qed.
Lemma al_get_notin {V} k (m : list (str * V)) : ~ In k (map fst m) -> al_get str_eqb k m = None.
Proof.
  induction m as [| [k1 v1] r IH]; cbn [al_get map fst In]; [auto |]. intros H.
  destruct (str_eqb k k1) eqn:E; [apply str_eqb_eq in E; subst; tauto | apply IH; tauto].
Qed.
Lemma al_get_remove_same {V} k (m : list (str * V)) : NoDup (map fst m) -> al_get str_eqb k (al_remove str_eqb k m) = None.
Proof.
  induction m as [| [k1 v1] r IH]; cbn [al_remove map fst]; [reflexivity |].
  intros Hnd. inversion Hnd as [| ? ? Hni Hnd']; subst.
  destruct (str_eqb k k1) eqn:E.
  - apply str_eqb_eq in E. subst. now apply al_get_notin.
  - cbn [al_get]. rewrite E. auto.
Qed.
Lemma al_get_in_keys {V} k (m : list (str * V)) v : al_get str_eqb k m = Some v -> In k (map fst m).
Proof.
  induction m as [| [k1 v1] r IH]; cbn [al_get map fst In]; [discriminate |].
  destruct (str_eqb k k1) eqn:E; [apply str_eqb_eq in E; auto | auto].
Qed.
Lemma al_set_nodup {V} k (v : V) (m : list (str * V)) : NoDup (map fst m) -> NoDup (map fst (al_set str_eqb k v m)).
Proof.
  induction m as [| [k1 v1] r IH]; cbn [al_set map fst]; intros Hnd.
  - constructor; [intros [] | constructor].
  - inversion Hnd as [| ? ? Hni Hnd']; subst. destruct (str_eqb k k1) eqn:E; cbn [map fst]; [exact Hnd |].
    constructor; [| auto]. intros Hin. apply Hni. clear - Hin E.
    induction r as [| [k2 v2] r IH]; cbn [al_set map fst In] in *.
    + destruct Hin as [-> | []]. rewrite str_eqb_refl in E. discriminate.
    + destruct (str_eqb k k2); cbn [map fst In] in *; [exact Hin |]. destruct Hin; auto.
Qed.

(* ------------------------------------------------------------------ the invariants *)
Definition IoLink (st : rstate) : Prop :=
  forall k i o, slab_get (r_ibufs st) k = Some i -> slab_get (r_obufs st) k = Some o -> i_link i = o_link o.
Definition CmapInv (st : rstate) : Prop :=
  NoDup (map fst (r_cmap st)) /\
  forall c k, al_get str_eqb c (r_cmap st) = Some k -> client_at st k = Some c.
(** (a consequence of RInv) the Outgoing of a key carries the client id of its Connection *)
Definition OCl (st : rstate) : Prop :=
  forall k o, slab_get (r_obufs st) k = Some o -> client_at st k = Some (o_client o).

Lemma okey_some st k o : slab_get (r_obufs st) k = Some o -> okey_at st k = Some (o_client o, o_link o).
Proof. unfold okey_at. now intros ->. Qed.
Lemma okey_inv st k c l : okey_at st k = Some (c, l) ->
  exists o, slab_get (r_obufs st) k = Some o /\ o_client o = c /\ o_link o = l.
Proof.
  unfold okey_at. destruct (slab_get (r_obufs st) k) as [o |]; cbn [option_map]; intros H; inversion H. eauto.
Qed.

Lemma gfr_IoLink st st' : gfr st st' -> IoLink st -> IoLink st'.
Proof.
  intros [_ _ _ Gi Go] I k i o' Hi Ho. rewrite Gi in Hi.
  pose proof (okey_some _ _ _ Ho) as K. rewrite Go in K. apply okey_inv in K as (o & G & _ & E).
  rewrite <- E. eauto.
Qed.
Lemma gfr_CmapInv st st' : gfr st st' -> CmapInv st -> CmapInv st'.
Proof. intros [Gc Gk _ _ _] [N C]. split; [now rewrite Gc |]. intros c k H. rewrite Gc in H. rewrite Gk. auto. Qed.
Lemma gfr_OCl st st' : gfr st st' -> OCl st -> OCl st'.
Proof.
  intros [_ Gk _ _ Go] O k o' Ho. pose proof (okey_some _ _ _ Ho) as K. rewrite Go in K.
  apply okey_inv in K as (o & G & E & _). rewrite Gk, <- E. eauto.
Qed.

Lemma RInv_OCl cfg st : RInvC cfg st -> OCl st.
Proof.
  intros HI k o G. destruct (RInv_obuf_live _ _ _ _ HI G) as [c Hc]. unfold client_at. rewrite Hc. cbn [option_map].
  f_equal. symmetry. eapply ri_cl_o; eauto.
Qed.

(* ------------------------------------------------------------------ handle_disconnection *)
Lemma handle_disconnection_inv st id reason st' :
  handle_disconnection st id reason = Ok st' -> OCl st -> CmapInv st -> IoLink st ->
  CmapInv st' /\ IoLink st' /\ OCl st'.
Proof.
  intros H O [N C] I. destruct (slab_get (r_obufs st) id) as [o0 |] eqn:G.
  2:{ rewrite (handle_disconnection_noop _ _ _ G) in H. inv_ok. repeat split; auto. }
  destruct (handle_disconnection_frame _ _ _ _ _ H G) as (F1 & F2 & F3 & F4 & F5 & _).
  apply handle_disconnection_iso in H as (_ & _ & [-> | (o0' & G' & EC)]); [repeat split; auto |].
  rewrite G in G'. inversion G'; subst o0'. clear G'.
  assert (CA : forall k, client_at st' k = if k =? id then None else client_at st k).
  { intros k. unfold client_at. rewrite F3. now destruct (k =? id). }
  split; [split |]; [| | split].
  - rewrite EC. now apply al_remove_nodup.
  - intros c k Hk. rewrite EC in Hk. destruct (str_eqb c (o_client o0)) eqn:E.
    + apply str_eqb_eq in E. subst c. rewrite al_get_remove_same in Hk by exact N. discriminate.
    + apply str_eqb_neq in E. rewrite al_get_remove_neq in Hk by exact E. specialize (C _ _ Hk).
      rewrite CA. destruct (N.eqb_spec k id) as [-> | Hne]; [| exact C].
      rewrite (O _ _ G) in C. congruence.
  - intros k i o Hi Ho. rewrite F5 in Hi. rewrite F1 in Ho. destruct (k =? id); [discriminate | eauto].
  - intros k o Ho. rewrite F1 in Ho. rewrite CA. destruct (k =? id); [discriminate | eauto].
Qed.

(* ------------------------------------------------------------------ handle_new_connection *)
Lemma newconn_shape_inv st1 st2 client id link conn2 o2 :
  slab_insert (r_conns st1) conn2 = (r_conns st2, id) -> c_client conn2 = client ->
  slab_insert (r_ibufs st1) {| i_client := client; i_link := link |} = (r_ibufs st2, id) ->
  slab_insert (r_obufs st1) o2 = (r_obufs st2, id) -> o_link o2 = link ->
  r_cmap st2 = al_set str_eqb client id (r_cmap st1) ->
  slab_wf (r_conns st1) -> CmapInv st1 -> IoLink st1 -> CmapInv st2 /\ IoLink st2.
Proof.
  intros Ec Hc Ei Eo Hl Em Hwf [N C] I.
  destruct (insert_spec _ _ _ _ Hwf Ec) as (V0 & V1 & V2 & _).
  split; [split |].
  - rewrite Em. now apply al_set_nodup.
  - intros c k Hk. rewrite Em in Hk. destruct (str_eqb c client) eqn:E.
    + apply str_eqb_eq in E. subst c. rewrite al_get_set_eq in Hk. inversion Hk; subst k.
      unfold client_at. rewrite V1. cbn [option_map]. now rewrite Hc.
    + apply str_eqb_neq in E. rewrite al_get_set_neq in Hk by exact E. specialize (C _ _ Hk).
      unfold client_at in *. destruct (N.eq_dec k id) as [-> | Hne]; [rewrite V0 in C; discriminate |].
      now rewrite V2.
  - intros k i o Hi Ho. destruct (slab_insert_inv _ _ _ _ _ _ Ei Hi) as [[-> ->] | [Hne Hi']];
      destruct (slab_insert_inv _ _ _ _ _ _ Eo Ho) as [[E ->] | [Hne' Ho']]; try congruence.
    + cbn [i_link]. congruence.
    + eauto.
Qed.

Lemma handle_new_connection_inv2 st conn link st' :
  handle_new_connection st conn link = Ok st' -> slab_wf (r_conns st) ->
  OCl st -> CmapInv st -> IoLink st -> CmapInv st' /\ IoLink st'.
Proof.
  unfold handle_new_connection. intros H Hwf O C I.
  destruct (negb (validate_clientid (c_client conn))); [inv_ok; auto |].
  apply bind_ok in H as (st1 & H1 & H).
  assert (A1 : CmapInv st1 /\ IoLink st1 /\ slab_wf (r_conns st1)).
  { destruct (al_get str_eqb (c_client conn) (r_cmap st)) as [cid |].
    - pose proof (handle_disconnection_wf _ _ _ _ H1 Hwf) as W1.
      apply handle_disconnection_inv in H1 as (A & B & _); auto.
    - inv_ok. auto. }
  destruct A1 as (C1 & I1 & Hwf1). clear H1 O C I Hwf.
  destruct (cf_max_connections (r_cfg st1) <=? slab_len (r_conns st1)); [inv_ok; auto |].
  unfold dbg_no_dups in H. break_all H; inv_ok.
  all: match goal with E : negb _ = false |- _ => apply negb_false_iff in E end.
  all: repeat match goal with E : _ && _ = true |- _ => apply andb_prop in E as [? ?] end.
  all: repeat match goal with E : (_ =? _) = true |- _ => apply N.eqb_eq in E end; subst.
  all: match goal with E : reschedule ?s ?k _ = Ok _ |- _ =>
         apply reschedule_fq in E as [E _];
         cut (CmapInv s /\ IoLink s); [intros [? ?]; split; [eapply gfr_CmapInv; eauto | eapply gfr_IoLink; eauto] |] end.
  all: eapply newconn_shape_inv; rs; try eassumption; try reflexivity.
Qed.

(* ------------------------------------------------------------------ one step *)
Lemma RInv_NF cfg st : RInvC cfg st -> NF st.
Proof. intros HI. exact (dk_free _ _ (ri_dl _ _ HI)). Qed.

Lemma step_isoinv st o st' out :
  OCl st -> slab_wf (r_conns st) -> NF st -> CmapInv st -> IoLink st ->
  step st o = Ok (st', out) -> CmapInv st' /\ IoLink st'.
Proof.
  intros O Hwf Hnf C I H.
  assert (GF : forall s, gfr st s -> CmapInv s /\ IoLink s)
    by (intros s G; split; [eapply gfr_CmapInv; eauto | eapply gfr_IoLink; eauto]).
  destruct o as [c | k pk | id | | k | id | id | id f | c |]; cbn [step] in H.
  - cbv zeta in H. apply bind_ok in H as (st2 & H2 & H). inv_ok.
    match type of H2 with handle_new_connection ?s _ _ = _ => set (st1 := s) in * end.
    assert (G1 : gfr st st1) by (apply (fq_core 0); reflexivity).
    eapply handle_new_connection_inv2; [exact H2 | exact Hwf | eapply gfr_OCl; eauto | eapply gfr_CmapInv; eauto | eapply gfr_IoLink; eauto].
  - destruct (nthN (r_links st) k); inv_ok; [| auto]. apply GF. apply (fq_core 0). reflexivity.
  - apply bind_ok in H as (st1 & H1 & H). inv_ok.
    apply handle_device_payload_mid in H1 as [-> | (st3 & fl & [G3 _] & H1)]; [auto | | exact Hnf].
    destruct (f_disconnect fl); [| subst; now apply GF].
    apply handle_disconnection_inv in H1 as (A & B & _); [auto | eapply gfr_OCl; eauto | eapply gfr_CmapInv; eauto | eapply gfr_IoLink; eauto].
  - apply bind_ok in H as ([st1 b] & H1 & H). inv_ok. apply consume_fq in H1.
    destruct (r_ready st); [subst; auto | apply GF; apply H1].
  - destruct (nthN (r_links st) k); inv_ok; [| auto]. apply GF. apply (fq_core 0). reflexivity.
  - destruct (slab_get (r_trackers st) id); [| inv_ok; auto].
    apply bind_ok in H as (st1 & H1 & H). inv_ok. apply reschedule_fq in H1. apply GF, H1.
  - apply bind_ok in H as (st1 & H1 & H). inv_ok.
    apply handle_disconnection_inv in H1 as (A & B & _); auto.
  - apply bind_ok in H as (st1 & H1 & H). inv_ok. apply retrieve_shadow_core in H1. apply GF. now apply (fq_core 0).
  - apply bind_ok in H as (st1 & H1 & H). inv_ok. apply handle_last_will_iso in H1 as [G1 _]. now apply GF.
  - inv_ok. auto.
Qed.

Lemma step_with_isoinv st orc o st' out :
  RInv st -> CmapInv st -> IoLink st -> step_with st orc o = Ok (st', out) -> CmapInv st' /\ IoLink st'.
Proof.
  intros [HI _] C I H. unfold step_with in H. apply bind_ok in H as ([st1 out1] & H1 & H).
  destruct (r_oracle st1); [| discriminate]. inv_ok.
  eapply step_isoinv; [| | | | | exact H1].
  - exact (RInv_OCl _ _ HI).
  - exact (ri_wf _ _ HI).
  - exact (RInv_NF _ _ HI).
  - exact C.
  - exact I.
Qed.

Lemma init_isoinv cfg st0 : init cfg = Ok st0 -> CmapInv st0 /\ IoLink st0.
Proof.
  unfold init. intros H. apply bind_ok in H as (dl & _ & H). inv_ok. split; [split |].
  - constructor.
  - intros c k Hk. discriminate.
  - intros k i o Hi. discriminate.
Qed.

Theorem isoinv_run : forall ops st st',
  RInv st -> CmapInv st -> IoLink st -> ops_wf ops -> run st ops = Ok st' ->
  RInv st' /\ CmapInv st' /\ IoLink st'.
Proof.
  induction ops as [| [orc o] ops IH]; intros st st' HI C I Hwf Hr; cbn [run] in Hr.
  - inversion Hr; subst. auto.
  - inversion Hwf as [| ? ? Hw1 Hw']; subst. cbn [snd] in Hw1.
    destruct (step_with st orc o) as [[st1 out] | e | t] eqn:Es; try discriminate.
    destruct (rinv_step _ _ _ _ _ HI Hw1 Es) as [HI1 _].
    destruct (step_with_isoinv _ _ _ _ _ HI C I Es) as [C1 I1]. eauto.
Qed.

Theorem isoinv_reachable cfg st0 ops st :
  cfg_ok cfg -> init cfg = Ok st0 -> ops_wf ops -> run st0 ops = Ok st ->
  RInv st /\ CmapInv st /\ IoLink st /\ LinkInv st.
Proof.
  intros Hcfg Hi Hwf Hr. destruct (init_isoinv _ _ Hi) as [C0 I0].
  destruct (isoinv_run _ _ _ (rinv_init _ _ Hcfg Hi) C0 I0 Hwf Hr) as (A & B & C).
  split; [exact A | split; [exact B | split; [exact C |]]].
  apply (reachable_LinkInv cfg). exists st0, ops. auto.
Qed.
