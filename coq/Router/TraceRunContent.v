(** C01 at the level of whole runs — WHAT was forwarded: every [KFwd off p] of log [i] carries the
    entry appended to log [i] at offset [off] (payload, retain, dup unchanged; topic unchanged or
    emptied when a broker topic alias stands for it; the granted QoS), for ONE ghost history of
    the log that is consistent with its retained content ([WF], C13).

    [DCd dl tr]: every forward event's log exists, and every log [i] has a history [all] with
    [WF] such that every forward event of [i] in [tr] is the forward of [nth all off]. *)
From Rumqtt Require Import Log.Spec Log.Proofs Log.ListFacts Log.WfFacts Router.ExactLog.
From Rumqtt Require Import Topic.Proofs Router.WindowFrame Router.Window Router.WindowStep Router.DataLogInv Router.DataLogStep
                           Router.ExactInv Router.ExactStep1 Router.ExactStep2 Router.ExactStep3 Router.ExactLogs
                           Router.ExactSweep Router.ExactThm.
From Rumqtt Require Import Router.TraceRun Router.TraceRunHeld Router.TraceRunInv Router.TraceRunSweep.
From Rumqtt Require Import Router.Model Router.RunDefs.
From Coq Require Import List ZifyBool ZifyN ZifyNat.
Import ListNotations.

Definition fwd_ok (all : list pubdata) (off : N) (p : publish) : Prop :=
  exists e q, nth_error all (N.to_nat off) = Some e /\ prel q (fst e) p.

Definition DCd (dl : datalog) (tr : list dev) : Prop :=
  (forall id k f i off p, In (id, (k, f, i), KFwd off p) tr -> nget dl i <> None) /\
  (forall i d, nget dl i = Some d ->
     exists all, WFp (d_log d) all /\
       forall id k f off p, In (id, (k, f, i), KFwd off p) tr -> fwd_ok all off p).

Lemma fwd_ok_app all xs off p : fwd_ok all off p -> fwd_ok (all ++ xs) off p.
Proof.
  intros (e & q & Hn & Hp). exists e, q. split; [|exact Hp]. rewrite nth_error_app1; [exact Hn|].
  apply nth_error_Some. congruence.
Qed.

(** logs only grow *)
Lemma dcd_frame dl dl' tr : LogsInv dl -> LogsInv dl' -> dl_le dl dl' -> DCd dl tr -> DCd dl' tr.
Proof.
  intros LI LI' [Hle _] [C1 C2]. split.
  - intros id k f i off p Hin. specialize (C1 _ _ _ _ _ _ Hin). destruct (nget dl i) as [d|] eqn:E; [|congruence].
    destruct (Hle _ _ E) as (d' & Hd' & _). congruence.
  - intros i d' Hd'. destruct (nget dl i) as [d|] eqn:E.
    + destruct (C2 _ _ E) as (all & W & Hev). destruct (Hle _ _ E) as (d2 & Hd2 & _ & L).
      rewrite Hd' in Hd2. inversion Hd2; subst d2. destruct (L all W) as (xs & W' & _).
      exists (all ++ xs). split; [exact W'|]. intros id k f off p Hin. apply fwd_ok_app. eapply Hev; eassumption.
    + destruct (li_wf _ LI' _ _ Hd') as [all W]. exists all. split; [exact W|].
      intros id k f off p Hin. specialize (C1 _ _ _ _ _ _ Hin). congruence.
Qed.

(** events that are not forwards do not matter *)
Definition is_fwd (e : dev) : bool := match snd e with KFwd _ _ => true | _ => false end.
Lemma dcd_nofwd dl tr evs : forallb (fun e => negb (is_fwd e)) evs = true -> DCd dl tr -> DCd dl (tr ++ evs).
Proof.
  intros Hn [C1 C2]. rewrite forallb_forall in Hn.
  assert (X : forall id k f i off p, In (id, (k, f, i), KFwd off p) (tr ++ evs) -> In (id, (k, f, i), KFwd off p) tr).
  { intros id k f i off p Hin. apply in_app_or in Hin as [Hin | Hin]; [exact Hin|]. specialize (Hn _ Hin). cbn in Hn. discriminate. }
  split.
  - intros id k f i off p Hin. eapply C1. apply X. exact Hin.
  - intros i d Hd. destruct (C2 _ _ Hd) as (all & W & Hev). exists all. split; [exact W|].
    intros id k f off p Hin. eapply Hev. apply X. exact Hin.
Qed.

(* ------------------------------------------------------------------ the entries behind the forwards of a sweep *)
Lemma fwds_from_nth qos : forall es p ns,
  fwds_from qos p es ns ->
  forall off q, In (off, q) (log_fwds ns) ->
    exists j e, nth_error es j = Some e /\ off = p + N.of_nat j /\ prel qos (fst e) q.
Proof.
  induction es as [|e es IH]; intros p [|n ns] H off q Hin; cbn [fwds_from] in H; try contradiction.
  destruct H as [(c & q0 & pr & -> & Hc & Hp) H]. cbn [log_fwds] in Hin. destruct Hin as [E | Hin].
  - inversion E; subst. exists O, e. split; [reflexivity|]. split; [lia|exact Hp].
  - destruct (IH _ _ H _ _ Hin) as (j & e' & Hn & Ho & Hp'). exists (S j), e'. split; [exact Hn|]. split; [lia|exact Hp'].
Qed.

Lemma nth_error_firstn_some {X} (l : list X) : forall n j x, nth_error (firstn n l) j = Some x -> nth_error l j = Some x.
Proof.
  induction l as [|a l IH]; intros n j x H; [destruct n; destruct j; discriminate|].
  destruct n; [destruct j; discriminate|]. destruct j; [exact H|]. cbn [firstn nth_error] in *. eapply IH; exact H.
Qed.
Lemma nth_error_skipn' {X} (l : list X) : forall p j, nth_error (skipn p l) j = nth_error l (p + j).
Proof.
  induction l as [|a l IH]; intros p j; [destruct p; destruct j; reflexivity|].
  destruct p; [reflexivity|]. cbn [skipn plus nth_error]. apply IH.
Qed.

Lemma fdd_dcd st id rq st1 rq' cs tr :
  CInv st -> Bounded st -> RqOk (r_datalog st) rq -> DCd (r_datalog st) tr ->
  forward_device_data st id rq = Ok (st1, rq', cs) ->
  DCd (r_datalog st1) (tr ++ fdd_ghost st id rq st1 cs).
Proof.
  intros HI HB Hrq HD H. rewrite (fdd_dl _ _ _ _ _ _ H).
  destruct (dr_group rq) as [g|] eqn:Eg0.
  { assert (E : fdd_ghost st id rq st1 cs = []) by (unfold fdd_ghost; now rewrite Eg0). now rewrite E, app_nil_r. }
  destruct Hrq as [(d & Hd & Hiss & Hend) _]. destruct HD as [C1 C2].
  destruct (C2 _ _ Hd) as (all & W & Hev). pose proof (wf_end_of pubdata_size _ _ W) as Hall.
  assert (Hsnd : snd (dr_cursor rq) <= lenN all) by lia.
  assert (Hun : unshared st rq) by (unfold unshared; now rewrite Eg0).
  destruct (sweep_exact _ _ _ _ _ _ _ _ HI HB Hd W Hiss Hsnd Hun H) as (o & Ho & S). cbv zeta in S.
  destruct S as (_ & _ & _ & [(Hcs & _ & -> & ->) | (Hcs1 & _ & rs & ns & tail & S)]).
  { subst cs. unfold fdd_ghost. rewrite Eg0, Ho, app_nil_r. split; assumption. }
  cbv zeta in S. destruct S as (Hout & Hrs & _ & _ & Hfw & Htail & _).
  set (p := pos_of (d_log d) (dr_cursor rq)) in *.
  (* the forward events of this sweep *)
  assert (Hnew : forall id0 k f i off q, In (id0, (k, f, i), KFwd off q) (fdd_ghost st id rq st1 cs) ->
            i = dr_idx rq /\ In (off, q) (log_fwds ns)).
  { intros id0 k f i off q Hin. unfold fdd_ghost in Hin. rewrite Eg0, Ho in Hin.
    assert (X : In (id0, (k, f, i), KFwd off q)
       ((match nget (r_datalog st) (dr_idx rq) with
         | Some d0 => if stale (d_log d0) (dr_cursor rq)
                      then [(id, (o_link o, dr_filter rq, dr_idx rq), KJump (snd (dr_cursor rq)) (base_of (d_log d0)))] else []
         | None => [] end) ++
        map (fun x : N * publish => (id, (o_link o, dr_filter rq, dr_idx rq), KFwd (fst x) (snd x)))
            (log_fwds (skipn (length (out_of st (o_link o))) (out_of st1 (o_link o)))))).
    { destruct cs; try exact Hin. contradiction. }
    clear Hin. rewrite Hd, (Hout (o_link o)), N.eqb_refl, skipn_length_app, !log_fwds_app, (log_fwds_retained _ Hrs) in X.
    assert (Et : log_fwds tail = []) by (destruct Htail as [[-> _] | [-> _]]; reflexivity).
    rewrite Et, app_nil_r in X. cbn [app] in X. apply in_app_or in X as [X | X].
    - destruct (stale (d_log d) (dr_cursor rq)); [destruct X as [E | []]; discriminate|destruct X].
    - apply in_map_iff in X as ([off' q'] & E & Hin). cbn [fst snd] in E. inversion E; subst. auto. }
  split.
  - intros id0 k f i off q Hin. apply in_app_or in Hin as [Hin | Hin]; [eapply C1; eassumption|].
    destruct (Hnew _ _ _ _ _ _ Hin) as [-> _]. congruence.
  - intros i d0 Hd0. destruct (N.eq_dec i (dr_idx rq)) as [-> | Hne].
    + rewrite Hd in Hd0. inversion Hd0; subst d0. exists all. split; [exact W|].
      intros id0 k f off q Hin. apply in_app_or in Hin as [Hin | Hin]; [eapply Hev; eassumption|].
      destruct (Hnew _ _ _ _ _ _ Hin) as [_ Hlf].
      destruct (fwds_from_nth _ _ _ _ Hfw _ _ Hlf) as (j & e & Hn & Ho' & Hp).
      exists e, (dr_qos rq). split; [|exact Hp].
      apply nth_error_firstn_some in Hn. rewrite nth_error_skipn' in Hn.
      replace (N.to_nat off) with (N.to_nat p + j)%nat by lia. exact Hn.
    + destruct (C2 _ _ Hd0) as (all0 & W0 & Hev0). exists all0. split; [exact W0|].
      intros id0 k f off q Hin. apply in_app_or in Hin as [Hin | Hin]; [eapply Hev0; eassumption|].
      destruct (Hnew _ _ _ _ _ _ Hin) as [E _]. contradiction.
Qed.

(* ------------------------------------------------------------------ consume *)
Lemma dcd_same_logs dl dl' tr : LogsInv dl -> same_logs dl dl' -> DCd dl tr -> DCd dl' tr.
Proof.
  intros LI S. apply dcd_frame; [exact LI|eapply logsinv_same_logs; eassumption|now apply dl_le_same_logs].
Qed.

Lemma consume_loop_dcd id : forall fuel st requests skipped st' evs tr,
  CInv st -> Bounded st ->
  Forall (RqOk (r_datalog st)) requests -> Forall (RqOk (r_datalog st)) skipped ->
  DCd (r_datalog st) tr ->
  consume_loop_d fuel st id requests skipped = Ok (st', evs) ->
  DCd (r_datalog st') (tr ++ evs).
Proof.
  induction fuel as [|fuel IH]; cbn [consume_loop_d]; intros st requests skipped st' evs tr HI HB Hr Hs HD H.
  - apply bind_ok in H as (s & H1 & H). inv_ok. rewrite app_nil_r, (trackv_dl _ _ _ _ H1). exact HD.
  - destruct requests as [|rq rest].
    + apply bind_ok in H as (st1 & H1 & H). apply bind_ok in H as (s & H2 & H). inv_ok.
      rewrite app_nil_r, (trackv_dl _ _ _ _ H2).
      destruct skipped; [rewrite (pause_dl _ _ _ _ H1)|inv_ok]; exact HD.
    + inversion Hr as [|? ? Hrq Hrest]; subst.
      apply bind_ok in H as ([[st1 rq'] status] & H1 & H).
      destruct (fdd_cinv _ _ _ _ _ _ HI HB Hrq H1) as (HI1 & Hrq' & D1).
      assert (HB1 : Bounded st1) by (eapply bounded_eq; eassumption).
      pose proof (fdd_dcd _ _ _ _ _ _ _ HI HB Hrq HD H1) as HD1.
      rewrite <- D1 in Hrest, Hs.
      destruct status.
      * apply bind_ok in H as (st2 & H2 & H). apply bind_ok in H as (s & H3 & H). inv_ok.
        rewrite (trackv_dl _ _ _ _ H3), (pause_dl _ _ _ _ H2). exact HD1.
      * apply bind_ok in H as (st2 & H2 & H). apply bind_ok in H as (s & H3 & H). inv_ok.
        rewrite (trackv_dl _ _ _ _ H3), (pause_dl _ _ _ _ H2). exact HD1.
      * apply bind_ok in H as (st2 & H2 & H). apply bind_ok in H as ([s evs2] & H3 & H). inv_ok.
        pose proof (park_same _ _ _ _ H2) as S2. pose proof (park_cinv _ _ _ _ HI1 Hrq' H2) as HI2.
        assert (Hmono : forall l, Forall (RqOk (r_datalog st1)) l -> Forall (RqOk (r_datalog st2)) l).
        { intros l. apply rqsok_mono; [exact (proj1 HI1)|now apply dl_le_same_logs]. }
        rewrite app_assoc. eapply IH; [exact HI2|exact (bounded_same _ _ S2 HB1)| | | |exact H3].
        -- now apply Hmono. -- now apply Hmono.
        -- eapply dcd_same_logs; [exact (proj1 HI1)|exact S2|exact HD1].
      * apply bind_ok in H as ([s evs2] & H3 & H). inv_ok.
        rewrite app_assoc. eapply IH; [exact HI1|exact HB1| |exact Hs|exact HD1|exact H3].
        apply Forall_app. split; [exact Hrest|]. constructor; [exact Hrq'|constructor].
      * apply bind_ok in H as ([s evs2] & H3 & H). inv_ok.
        rewrite app_assoc. eapply IH; [exact HI1|exact HB1|exact Hrest| |exact HD1|exact H3].
        apply Forall_app. split; [exact Hs|]. constructor; [exact Hrq'|constructor].
Qed.

Lemma consume_dcd st st' b evs tr :
  CInv st -> Bounded st -> DCd (r_datalog st) tr ->
  consume_d st = Ok (st', b, evs) -> DCd (r_datalog st') (tr ++ evs).
Proof.
  intros HI HB HD H. unfold consume_d in H.
  destruct (r_ready st) as [|id rq]; [inv_ok; now rewrite app_nil_r|]. cbv zeta in H.
  cbn [r_trackers set_r_ready] in H.
  destruct (slab_get (r_trackers st) id) as [t|] eqn:Et; [|inv_ok; now rewrite app_nil_r].
  match type of H with context [slab_get (r_obufs ?s) id] => set (st2 := s) in * end.
  assert (HI2 : CInv st2).
  { unfold st2. apply (cinv_view (put_tracker (set_r_ready st rq) id (set_tr_reqs t []))); [reflexivity|].
    apply (cinv_put_tracker (set_r_ready st rq)).
    - eapply cinv_view; [|exact HI]. reflexivity.
    - constructor. }
  destruct (slab_get (r_obufs st2) id) as [o|]; [|inv_ok; now rewrite app_nil_r].
  apply bind_ok in H as (st3 & H3 & H). apply bind_ok in H as (u & _ & H).
  apply bind_ok in H as ([st4 evs4] & H4 & H). inv_ok.
  pose proof (ack_device_data_cview _ _ _ _ H3) as CV3. pose proof (cview_dl _ _ CV3) as ED3.
  assert (HI3 : CInv st3) by (eapply cinv_view; eassumption).
  eapply consume_loop_dcd; [exact HI3| | |constructor| |exact H4].
  - eapply bounded_eq; [|exact HB]. rewrite ED3. reflexivity.
  - rewrite ED3. change (r_datalog st2) with (r_datalog st). eapply cinv_trk; eassumption.
  - rewrite ED3. exact HD.
Qed.

(* ------------------------------------------------------------------ SUBSCRIBE emits no forward *)
Lemma pf_ghost_nofwd st id cu fidx path grp :
  forallb (fun e => negb (is_fwd e)) (pf_ghost st id cu fidx path grp) = true.
Proof.
  unfold pf_ghost. destruct grp; [reflexivity|]. destruct (slab_get (r_conns st) id); [|reflexivity].
  destruct (slab_get (r_obufs st) id); [|reflexivity]. destruct (set_mem str_eqb path (c_subs c)); reflexivity.
Qed.

Lemma subscribe_filters_nofwd id subid : forall fs st fl codes st' fl' codes' evs,
  subscribe_filters_d st id fs subid fl codes = Ok (st', fl', codes', evs) ->
  forallb (fun e => negb (is_fwd e)) evs = true.
Proof.
  induction fs as [|[path qos] r IH]; intros st fl codes st' fl' codes' evs H; cbn [subscribe_filters_d] in H; [now inv_ok|].
  destruct (negb (validate_subscription path)); [now inv_ok|].
  destruct (match extract_group path with Some (g, p) => (Some g, p) | None => (None, path) end) as [grp filter].
  destruct (match subid with Some 0 => true | _ => false end); [now inv_ok|].
  apply bind_ok in H as ([[st1 idx] cu] & H1 & H). apply bind_ok in H as (st2 & H2 & H).
  apply bind_ok in H as ([[[st3 fl3] codes3] evs3] & H3 & H).
  assert (E : evs = pf_ghost st1 id cu idx path grp ++ evs3) by (now inv_ok). rewrite E.
  rewrite forallb_app, pf_ghost_nofwd. cbn [andb]. eapply IH; exact H3.
Qed.

Lemma handle_packet_nofwd st id client pk fl st' fl' brk evs :
  handle_packet_d st id client pk fl = Ok (st', fl', brk, evs) -> forallb (fun e => negb (is_fwd e)) evs = true.
Proof.
  destruct pk; unfold handle_packet_d; intros H;
    try (apply bind_ok in H as ([[s1 f1] b1] & _ & H); now inv_ok).
  apply bind_ok in H as ([[[st1 fl1] codes] evs1] & H1 & H). apply bind_ok in H as (st2 & H2 & H). inv_ok.
  eapply subscribe_filters_nofwd; exact H1.
Qed.

Lemma handle_packets_nofwd id client : forall pks st fl st' fl' evs,
  handle_packets_d st id client pks fl = Ok (st', fl', evs) -> forallb (fun e => negb (is_fwd e)) evs = true.
Proof.
  induction pks as [|pk r IH]; intros st fl st' fl' evs H; cbn [handle_packets_d] in H; [now inv_ok|].
  apply bind_ok in H as ([[[st1 fl1] brk] evs1] & H1 & H). pose proof (handle_packet_nofwd _ _ _ _ _ _ _ _ _ H1) as N1.
  destruct brk; [now inv_ok|]. apply bind_ok in H as ([[st2 fl2] evs2] & H2 & H). inv_ok.
  rewrite forallb_app, N1. cbn [andb]. eapply IH; exact H2.
Qed.

Lemma ends_nofwd (l : list dev) : forallb (fun ev : dev => is_end (snd ev)) l = true -> forallb (fun e => negb (is_fwd e)) l = true.
Proof.
  intros H. rewrite forallb_forall in *. intros x Hx. specialize (H x Hx). unfold is_fwd. destruct (snd x); try discriminate. reflexivity.
Qed.

Lemma disc_ghost_nofwd st id st' : forallb (fun e => negb (is_fwd e)) (disc_ghost st id st') = true.
Proof.
  apply ends_nofwd. unfold disc_ghost. destruct (slab_get (r_obufs st) id); [|reflexivity]. destruct (slab_get (r_trackers st) id); [|reflexivity].
  destruct (slab_get (r_conns st) id) as [c|]; [|reflexivity]. destruct (c_clean c); [reflexivity|].
  destruct (al_get str_eqb (tr_id t) (r_graveyard st')) as [[ss|]|]; try reflexivity.
  apply forallb_forall. intros x Hx. apply in_map_iff in Hx as (rq & <- & _). reflexivity.
Qed.

Lemma take_ghost_nofwd st client : forallb (fun e => negb (is_fwd e)) (take_ghost st client) = true.
Proof.
  unfold take_ghost. destruct (validate_clientid client); [|reflexivity]. destruct (al_get str_eqb client (r_cmap st)); [|reflexivity].
  destruct (handle_disconnection st n None); try reflexivity. apply disc_ghost_nofwd.
Qed.

Lemma handle_device_payload_nofwd st id st' evs :
  handle_device_payload_d st id = Ok (st', evs) -> forallb (fun e => negb (is_fwd e)) evs = true.
Proof.
  unfold handle_device_payload_d. intros H. destruct (slab_get (r_ibufs st) id) as [inc|]; [|now inv_ok].
  apply bind_ok in H as (b & _ & H). apply bind_ok in H as ([[st1 fl] evs1] & H1 & H).
  apply bind_ok in H as (st2 & _ & H). apply bind_ok in H as (st3 & _ & H). apply bind_ok in H as (st4 & _ & H). inv_ok.
  rewrite forallb_app, (handle_packets_nofwd _ _ _ _ _ _ _ _ H1). cbn [andb].
  destruct (f_disconnect fl); [apply disc_ghost_nofwd|reflexivity].
Qed.

Lemma conn_ghost_nofwd st client link : forallb (fun e => negb (is_fwd e)) (conn_ghost st client link) = true.
Proof.
  unfold conn_ghost. destruct (al_get str_eqb client (r_cmap st)); [|reflexivity].
  destruct (slab_get (r_obufs st) n); [|reflexivity]. destruct (slab_get (r_trackers st) n); [|reflexivity].
  destruct (o_link o =? link); [|reflexivity]. apply forallb_forall. intros x Hx. apply in_map_iff in Hx as (rq & <- & _). reflexivity.
Qed.

(* ------------------------------------------------------------------ steps and runs *)
Lemma step_with_dcd st orc o st' out evs tr :
  CInv st -> Bounded st -> DCd (r_datalog st) tr ->
  step_with_d st orc o = Ok (st', out, evs) -> DCd (r_datalog st') (tr ++ evs).
Proof.
  intros HI HB HD H. pose proof (step_with_d_step _ _ _ _ _ _ H) as H'.
  destruct (step_with_cinv _ _ _ _ _ HI HB H') as [HI' L].
  unfold step_with_d in H. apply bind_ok in H as ([[st1 out1] evs1] & H1 & H).
  destruct (r_oracle st1); [|discriminate]. inv_ok.
  assert (Hgen : forallb (fun e => negb (is_fwd e)) evs = true -> DCd (r_datalog st') (tr ++ evs)).
  { intros Hn. apply dcd_nofwd; [exact Hn|]. eapply dcd_frame; [exact (proj1 HI)|exact (proj1 HI')|exact L|exact HD]. }
  destruct o; unfold step_d in H1;
    try (apply bind_ok in H1 as ([s2 o2] & _ & H1); inv_ok; now apply Hgen).
  - apply bind_ok in H1 as ([s2 o2] & _ & H1). inv_ok. apply Hgen. rewrite forallb_app, take_ghost_nofwd. apply conn_ghost_nofwd.
  - apply bind_ok in H1 as ([s1 e1] & H2 & H1). inv_ok. apply Hgen. eapply handle_device_payload_nofwd; exact H2.
  - apply bind_ok in H1 as ([[s1 b1] e1] & H2 & H1). inv_ok.
    eapply (consume_dcd (set_r_oracle st orc)); [| | |exact H2].
    + eapply cinv_view; [|exact HI]. reflexivity.
    + exact HB.
    + exact HD.
  - apply bind_ok in H1 as ([s2 o2] & _ & H1). inv_ok. apply Hgen. apply disc_ghost_nofwd.
Qed.

Lemma run_bounded_head' st orc o ops st' tr :
  CInv st -> run_d st ((orc, o) :: ops) = Ok (st', tr) -> Bounded st' -> Bounded st.
Proof.
  intros HC H HB. pose proof (run_d_run _ _ _ _ H) as Hrun.
  destruct (run_cinv _ _ _ HC Hrun HB) as (_ & _ & X). exact X.
Qed.

Lemma run_dcd : forall ops st st' tr0 tr,
  CInv st -> DCd (r_datalog st) tr0 -> run_d st ops = Ok (st', tr) -> Bounded st' ->
  DCd (r_datalog st') (tr0 ++ tr).
Proof.
  induction ops as [|[orc o] ops IH]; intros st st' tr0 tr HI HD H HB.
  - cbn [run_d] in H. inv_ok. now rewrite app_nil_r.
  - pose proof (run_bounded_head' _ _ _ _ _ _ HI H HB) as HB0. cbn [run_d] in H.
    apply bind_ok in H as ([[st1 out] evs] & H1 & H). apply bind_ok in H as ([st2 evs2] & H2 & H). inv_ok.
    pose proof (step_with_d_step _ _ _ _ _ _ H1) as H1'.
    destruct (step_with_cinv _ _ _ _ _ HI HB0 H1') as [HI1 _].
    rewrite app_assoc. eapply IH; [exact HI1| |exact H2|exact HB].
    exact (step_with_dcd st orc o st1 out evs tr0 HI HB0 HD H1).
Qed.

(** (e) what was forwarded: for every log of the final state there is ONE history [all]
    consistent with the log ([WF]) such that every forward event of that log made anywhere in
    the run carries the entry at its offset *)
Theorem run_content cfg st0 ops st tr :
  cf_max_outgoing cfg < B62 -> init cfg = Ok st0 -> run_d st0 ops = Ok (st, tr) -> Bounded st ->
  forall i d, nget (r_datalog st) i = Some d ->
  exists all, WFp (d_log d) all /\
    forall id k f off p, In (id, (k, f, i), KFwd off p) tr ->
      exists e q, nth_error all (N.to_nat off) = Some e /\ prel q (fst e) p.
Proof.
  intros Hmo Hi Hr HB. pose proof (init_cinv _ _ Hmo Hi) as HI0.
  assert (HD0 : DCd (r_datalog st0) []).
  { split; [intros id k f i off p []|]. intros i d Hd. destruct (li_wf _ (proj1 HI0) _ _ Hd) as [all W].
    exists all. split; [exact W|]. intros id k f off p []. }
  destruct (run_dcd ops st0 st [] tr HI0 HD0 Hr HB) as [_ C2]. exact C2.
Qed.
