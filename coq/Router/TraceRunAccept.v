(** C01 — every accepted message reaches the log of EVERY matching filter, exactly once.

    [DataLog::matches] answers from a cache ([publish_filters]: topic -> list of filter-log
    numbers), filled on a miss from [filter_indexes] (in HashMap iteration order: the oracle) and
    extended when a new filter log is created.  [PFInv]: every cached list is duplicate-free and
    COMPLETE — it contains the log number of every filter in [filter_indexes] that matches the
    topic (soundness, "only matching ones", is part of [DLInv], DataLogInv.v).  It holds in every
    reachable state, for all ops and all admissible oracles ([reachable_pf]); hence
    [accept_reaches_all]: a publish that [append_to_commitlog] accepts is appended, once, to the
    log of every filter that matches its topic, and to no other log. *)
From Rumqtt Require Import Log.Spec Log.Proofs Log.ListFacts Router.ExactLog.
From Rumqtt Require Import Topic.Proofs Router.WindowFrame Router.DataLogInv Router.DataLogStep
                           Router.ExactInv Router.ExactStep1 Router.ExactLogs.
From Rumqtt Require Import Router.Model Router.RunDefs.
From Coq Require Import List ZifyBool ZifyN ZifyNat.
Import ListNotations.

Definition PFInv (dl : datalog) : Prop :=
  forall t v, In (t, v) (dl_pfilters dl) ->
    NoDup v /\ forall f i, In (f, i) (dl_findex dl) -> matches t f = Ok true -> In i v.

Definition AInv (dl : datalog) : Prop := DLInv dl /\ PFInv dl.

Lemma pf_view dl dl' : dl_findex dl' = dl_findex dl -> dl_pfilters dl' = dl_pfilters dl -> PFInv dl -> PFInv dl'.
Proof. unfold PFInv. intros -> ->. auto. Qed.

Lemma pf_same dl dl' : same_logs dl dl' -> PFInv dl -> PFInv dl'.
Proof. intros (_ & Hf & Hp & _). now apply pf_view. Qed.

Lemma ainv_SL st st' : AInv (r_datalog st) -> SL st st' -> AInv (r_datalog st').
Proof. intros [HD HP] S. split; [eapply dlinv_SL; eassumption|eapply pf_same; eassumption]. Qed.

Lemma ainv_eq st st' : r_datalog st' = r_datalog st -> AInv (r_datalog st) -> AInv (r_datalog st').
Proof. intros ->. auto. Qed.

(* ------------------------------------------------------------------ list facts *)
Lemma set_mem_In' x l : set_mem N.eqb x l = true <-> In x l.
Proof.
  induction l as [|y l IH]; cbn [set_mem In]; [split; [discriminate|tauto]|].
  rewrite orb_true_iff, IH, N.eqb_eq. split; intros [H | H]; auto.
Qed.

Lemma nodupN_NoDup l : nodupN l = true -> NoDup l.
Proof.
  induction l as [|x l IH]; cbn [nodupN]; [constructor|]. intros H. apply andb_true_iff in H as [H1 H2].
  constructor; [|now apply IH]. intros Hin. apply set_mem_In' in Hin. rewrite Hin in H1. discriminate.
Qed.

Lemma perm_ofN_props v base :
  perm_ofN v base = true -> NoDup v /\ incl v base /\ incl base v.
Proof.
  unfold perm_ofN. intros H. apply andb_true_iff in H as [H H3]. apply andb_true_iff in H as [H1 H2].
  apply nodupN_NoDup in H2. rewrite forallb_forall in H3.
  assert (Hi : incl v base) by (intros x Hx; apply set_mem_In'; now apply H3).
  split; [exact H2|]. split; [exact Hi|]. apply NoDup_length_incl; [exact H2| |exact Hi].
  unfold lenN in H1. lia.
Qed.

Lemma NoDup_snoc {X} (l : list X) x : NoDup l -> ~ In x l -> NoDup (l ++ [x]).
Proof.
  intros Hn Hx. induction Hn as [|y l Hy Hn IH]; cbn [app]; [constructor; [intros []|constructor]|].
  constructor.
  - intros Hin. apply in_app_or in Hin as [Hin | [<- | []]]; [contradiction|]. apply Hx. now left.
  - apply IH. intros Hin. apply Hx. now right.
Qed.

Lemma matching_idxs_complete t : forall fi v, matching_idxs t fi = Ok v ->
  forall f i, In (f, i) fi -> matches t f = Ok true -> In i v.
Proof.
  induction fi as [|[f0 j] r IH]; cbn [matching_idxs]; intros v H f i Hin Hm; [destruct Hin|].
  apply bind_ok in H as (b & Hb & H). apply bind_ok in H as (rest & Hr & H). inv_ok. unfold topic_matches in Hb.
  destruct Hin as [E | Hin].
  - inversion E; subst. rewrite Hm in Hb. inversion Hb; subst. now left.
  - specialize (IH _ Hr _ _ Hin Hm). destruct b; [now right|exact IH].
Qed.

Lemma matching_idxs_short_nodup (base : list N) : (length base <= 1)%nat -> NoDup base.
Proof.
  destruct base as [|a [|b r]]; cbn [length]; intros H; [constructor|constructor; [intros []|constructor]|lia].
Qed.

(* ------------------------------------------------------------------ DataLog::matches *)
Lemma dl_matches_pf st t st' v :
  AInv (r_datalog st) -> dl_matches st t = Ok (st', v) ->
  AInv (r_datalog st') /\ dl_findex (r_datalog st') = dl_findex (r_datalog st) /\
  dl_native (r_datalog st') = dl_native (r_datalog st) /\
  NoDup v /\
  (forall f i, In (f, i) (dl_findex (r_datalog st)) -> matches t f = Ok true -> In i v) /\
  (forall i, In i v -> exists d, nget (r_datalog st) i = Some d /\ matches t (d_filter d) = Ok true).
Proof.
  intros [HD HP] H. destruct (dl_matches_inv _ _ _ _ HD H) as (HD' & Hsound & Hnat).
  assert (Hs : forall i, In i v -> exists d, nget (r_datalog st) i = Some d /\ matches t (d_filter d) = Ok true).
  { intros i Hi. destruct (Hsound _ Hi) as (d & Hd & Hm). exists d. unfold nget. rewrite <- Hnat. auto. }
  unfold dl_matches in H.
  destruct (al_get str_eqb t (dl_pfilters (r_datalog st))) as [v0|] eqn:Ec.
  - inv_ok. apply al_get_In in Ec. destruct (HP _ _ Ec) as [Hn Hc].
    split; [split; assumption|]. repeat (split; [first [reflexivity|assumption]|]). exact Hs.
  - apply bind_ok in H as (base & Hb & H). apply bind_ok in H as ([v1 orc] & Hv & H). inv_ok.
    assert (Hbase : forall f i, In (f, i) (dl_findex (r_datalog st)) -> matches t f = Ok true -> In i base)
      by (eapply matching_idxs_complete; exact Hb).
    assert (Hv1 : NoDup v /\ incl base v).
    { destruct base as [|b0 [|b1 br]].
      - inv_ok. split; [constructor|apply incl_refl].
      - inv_ok. split; [constructor; [intros []|constructor]|apply incl_refl].
      - destruct (r_oracle st) as [|[ov| |] orc']; try discriminate.
        destruct (perm_ofN ov (b0 :: b1 :: br)) eqn:Ep; [|discriminate]. inv_ok.
        destruct (perm_ofN_props _ _ Ep) as (A & _ & C). auto. }
    destruct Hv1 as [Hn Hinc].
    assert (Hc : forall f i, In (f, i) (dl_findex (r_datalog st)) -> matches t f = Ok true -> In i v)
      by (intros f i Hin Hm; apply Hinc; eapply Hbase; eassumption).
    assert (Ef : dl_findex (r_datalog (set_r_oracle (set_r_datalog st
                   match v with [] => r_datalog st | _ :: _ => set_dl_pfilters (r_datalog st) (al_set str_eqb t v (dl_pfilters (r_datalog st))) end) orc))
                 = dl_findex (r_datalog st)) by (destruct v; reflexivity).
    split; [|split; [exact Ef|split; [exact Hnat|split; [exact Hn|split; [exact Hc|exact Hs]]]]].
    split; [exact HD'|]. cbn [r_datalog set_r_oracle set_r_datalog]. destruct v as [|x r]; [exact HP|].
    intros t' v' Hin. cbn [set_dl_pfilters dl_pfilters dl_findex] in *. apply al_set_In in Hin as [[-> ->] | Hin].
    + split; [exact Hn|exact Hc].
    + apply (HP _ _ Hin).
Qed.

(* ------------------------------------------------------------------ a new filter log *)
Lemma pfilters_add_exact idx f : forall pf pf', pfilters_add idx f pf = Ok pf' ->
  forall t v', In (t, v') pf' ->
    exists v0 b, In (t, v0) pf /\ matches t f = Ok b /\ v' = if b then v0 ++ [idx] else v0.
Proof.
  induction pf as [|[t0 v0] r IH]; cbn [pfilters_add]; intros pf' H t v' Hin.
  - inv_ok. destruct Hin.
  - apply bind_ok in H as (b & Hb & H). apply bind_ok in H as (r' & Hr & H). inv_ok. unfold topic_matches in Hb.
    destruct Hin as [E | Hin].
    + inversion E; subst. exists v0, b. split; [now left|]. split; [exact Hb|reflexivity].
    + destruct (IH _ Hr _ _ Hin) as (v1 & b1 & H1 & H2 & H3). exists v1, b1. split; [now right|auto].
Qed.

Lemma next_native_offset_pf st f st' idx cu :
  AInv (r_datalog st) -> next_native_offset st f = Ok (st', idx, cu) -> AInv (r_datalog st').
Proof.
  intros [HD HP] H. destruct (next_native_offset_inv _ _ _ _ _ HD H) as [HD' _]. split; [exact HD'|].
  unfold next_native_offset in H.
  destruct (al_get str_eqb f (dl_findex (r_datalog st))) as [i|] eqn:Ef.
  - apply bind_ok in H as (d & _ & H). apply bind_ok in H as (c & _ & H). inv_ok. exact HP.
  - apply bind_ok in H as (d & Hd & H). destruct (slab_insert (dl_native (r_datalog st)) d) as [native' k] eqn:Ei.
    destruct (slab_insert_nofree _ _ _ _ (dli_nofree _ HD) Ei) as (Hk & _ & _).
    apply bind_ok in H as (pf & Hpf & H). apply bind_ok in H as (c & _ & H). inv_ok.
    set (idx := lenN (sl_items (dl_native (r_datalog st)))) in *.
    cbn [r_datalog set_r_datalog]. intros t v' Hin. cbn [dl_pfilters dl_findex] in *.
    destruct (pfilters_add_exact _ _ _ _ Hpf _ _ Hin) as (v0 & b & Hin0 & Hm & ->).
    destruct (HP _ _ Hin0) as [Hn Hc].
    assert (Hfresh : ~ In idx v0).
    { intros Hi. destruct (dli_pfilters _ HD _ _ Hin0 _ Hi) as (d0 & Hd0 & _).
      unfold slab_get in Hd0. unfold idx in Hd0. rewrite nthN_ge in Hd0 by lia. discriminate. }
    split.
    + destruct b; [now apply NoDup_snoc|exact Hn].
    + intros f' i' Hfi Hm'. apply al_set_In in Hfi as [[-> ->] | Hfi].
      * rewrite Hm in Hm'. inversion Hm'; subst b. apply in_or_app. right. now left.
      * specialize (Hc _ _ Hfi Hm'). destruct b; [apply in_or_app; now left|exact Hc].
Qed.

(* ------------------------------------------------------------------ appends *)
(** log [i] got exactly [item] appended / was not appended to *)
Definition appended (dl dl' : datalog) (i : N) (item : pubdata) : Prop :=
  exists d d', nget dl i = Some d /\ nget dl' i = Some d' /\ d_filter d' = d_filter d /\
               forall all, WFp (d_log d) all -> WFp (d_log d') (all ++ [item]).
Definition unappended (dl dl' : datalog) (i : N) : Prop :=
  forall d, nget dl i = Some d -> exists d', nget dl' i = Some d' /\ d_filter d' = d_filter d /\ d_log d' = d_log d.

Lemma data_append_spec st idx item st' :
  data_append st idx item = Ok st' ->
  appended (r_datalog st) (r_datalog st') idx item /\
  (forall j, j <> idx -> nget (r_datalog st') j = nget (r_datalog st) j) /\
  dl_findex (r_datalog st') = dl_findex (r_datalog st) /\ dl_pfilters (r_datalog st') = dl_pfilters (r_datalog st).
Proof.
  unfold data_append. intros H. apply bind_ok in H as (d & Hd & H). apply native_get_Some in Hd.
  apply bind_ok in H as ([l' off] & Ha & H). inv_ok. cbn [r_datalog set_r_notif set_r_datalog].
  split; [|split; [|split; reflexivity]].
  - exists d, {| d_filter := d_filter d; d_log := l'; d_waiters := [] |}. split; [exact Hd|].
    split; [unfold nget; cbn [set_dl_native dl_native]; eapply slab_get_put_eq; exact Hd|]. split; [reflexivity|].
    intros all W. cbn [d_log]. destruct (append_ok_spec pubdata_size _ _ _ _ _ W Ha) as (_ & W' & _). exact W'.
  - intros j Hj. unfold nget. cbn [set_dl_native dl_native]. apply slab_get_put_neq. congruence.
Qed.

Lemma append_all_spec item : forall idxs st st',
  NoDup idxs -> append_all st idxs item = Ok st' ->
  (forall i, In i idxs -> (exists d, nget (r_datalog st) i = Some d) -> appended (r_datalog st) (r_datalog st') i item) /\
  (forall j, ~ In j idxs -> nget (r_datalog st') j = nget (r_datalog st) j) /\
  dl_findex (r_datalog st') = dl_findex (r_datalog st) /\ dl_pfilters (r_datalog st') = dl_pfilters (r_datalog st).
Proof.
  induction idxs as [|i0 r IH]; intros st st' Hn H; cbn [append_all] in H.
  - inv_ok. split; [intros i []|]. auto.
  - inversion Hn as [|? ? Hni Hnr]; subst. apply bind_ok in H as (st1 & H1 & H).
    destruct (data_append_spec _ _ _ _ H1) as (A1 & B1 & F1 & P1). destruct (IH _ _ Hnr H) as (A2 & B2 & F2 & P2).
    split; [|split; [|split; congruence]].
    + intros i [<- | Hi] Hex.
      * destruct A1 as (d & d1 & Hd & Hd1 & Hf1 & HW). exists d, d1. split; [exact Hd|]. split; [|split; [exact Hf1|exact HW]].
        rewrite (B2 _ Hni). exact Hd1.
      * assert (Hne : i <> i0) by (intros ->; contradiction).
        destruct Hex as [d Hd]. assert (Hd1 : nget (r_datalog st1) i = Some d) by (rewrite (B1 _ Hne); exact Hd).
        destruct (A2 _ Hi (ex_intro _ d Hd1)) as (d1 & d2 & Hd1' & Hd2 & Hf2 & HW).
        exists d, d2. rewrite Hd1 in Hd1'. inversion Hd1'; subst d1. auto.
    + intros j Hj. rewrite (B2 j), (B1 j); [reflexivity| |]; intros E; apply Hj; [subst; now left|now right].
Qed.

(** the topic a publish is filed under and the item that is stored (retain flag cleared, alias
    property removed); a topic alias is resolved through the connection's alias table *)
Theorem accept_reaches_all st id p props st' :
  AInv (r_datalog st) -> append_to_commitlog st id p props = Ok (st', AppOk) ->
  AInv (r_datalog st') /\
  exists topic item,
    p_payload (fst item) = p_payload p /\ p_topic (fst item) = topic /\ p_retain (fst item) = false /\
    (match props with Some pr => pp_alias pr | None => None end = None -> topic = p_topic p) /\
    dl_findex (r_datalog st') = dl_findex (r_datalog st) /\
    (forall f i, In (f, i) (dl_findex (r_datalog st)) -> matches topic f = Ok true ->
       appended (r_datalog st) (r_datalog st') i item) /\
    (forall i d, nget (r_datalog st) i = Some d -> matches topic (d_filter d) <> Ok true ->
       unappended (r_datalog st) (r_datalog st') i).
Proof.
  intros HA H. unfold append_to_commitlog in H. apply bind_ok in H as (conn & Hc & H).
  match type of H with (if ?b then _ else _) = _ => destruct b end; [inv_ok|].
  apply bind_ok in H as (sp & Hsp & H). destruct sp as [[st1 p1]|reason]; [|inv_ok].
  set (al := match props with Some pr => pp_alias pr | None => None end) in *.
  assert (E1 : r_datalog st1 = r_datalog st /\ p_payload p1 = p_payload p /\ (al = None -> p_topic p1 = p_topic p)).
  { clear H. destruct al as [a|].
    - split; [|split; [|discriminate]]; break_all Hsp; inv_ok; reflexivity.
    - destruct (p_topic p) eqn:Et0; inv_ok; auto. }
  destruct E1 as (D1 & Ep & Et).
  destruct (negb (utf8_valid (p_topic p1))); [inv_ok|].
  apply bind_ok in H as ([st3 idxs] & H3 & H). apply bind_ok in H as (st4 & H4 & H). inv_ok.
  match type of H3 with dl_matches ?s2 _ = _ => set (st2 := s2) in * end.
  assert (S2 : same_logs (r_datalog st) (r_datalog st2)) by (unfold st2; rewrite <- D1; apply retain_update_same).
  assert (HA2 : AInv (r_datalog st2)) by (eapply ainv_SL; [exact HA|exact S2]).
  destruct (dl_matches_pf _ _ _ _ HA2 H3) as (HA3 & F3 & N3 & Hn & Hcomp & Hsound).
  destruct (append_all_spec _ _ _ _ Hn H4) as (A4 & B4 & F4 & P4).
  assert (N2 : dl_native (r_datalog st2) = dl_native (r_datalog st)).
  { unfold st2, retain_update. rewrite <- D1. destruct (p_retain p1); [destruct (p_payload p1)|]; reflexivity. }
  assert (Fi2 : dl_findex (r_datalog st2) = dl_findex (r_datalog st)) by (destruct S2 as (_ & X & _); exact X).
  assert (Ng : forall i, nget (r_datalog st3) i = nget (r_datalog st) i) by (intros i; unfold nget; now rewrite N3, N2).
  split.
  { (* the invariant afterwards *)
    destruct HA3 as [HD3 HP3]. split.
    - assert (X : append_to_commitlog st id p props = Ok (st', AppOk) -> DLInv (r_datalog st')) by (apply append_to_commitlog_inv; exact (proj1 HA)).
      clear X. eapply append_all_inv; [exact HD3| |exact H4].
      intros i Hi d Hd. destruct (Hsound _ Hi) as (d' & Hd' & Hm). unfold nget in Hd'. rewrite <- N3 in Hd'. rewrite Hd in Hd'.
      inversion Hd'; subst d'. split; cbn [fst set_p_retain p_topic p_retain]; [exact Hm|reflexivity].
    - eapply pf_view; [exact F4|exact P4|exact HP3]. }
  exists (p_topic p1), (set_p_retain p1 false,
           match props with Some pr => Some {| pp_alias := None; pp_subids := pp_subids pr; pp_tag := pp_tag pr |} | None => None end).
  cbn [fst set_p_retain p_payload p_topic p_retain].
  split; [exact Ep|]. split; [reflexivity|]. split; [reflexivity|]. split; [exact Et|].
  split; [rewrite F4, F3; exact Fi2|]. split.
  - intros f i Hfi Hm. rewrite <- Fi2 in Hfi. specialize (Hcomp _ _ Hfi Hm).
    destruct (dli_findex _ (proj1 HA2) _ _ Hfi) as (d & Hd & _).
    assert (Hd3 : nget (r_datalog st3) i = Some d) by (unfold nget; rewrite N3; exact Hd).
    destruct (A4 _ Hcomp (ex_intro _ d Hd3)) as (d1 & d2 & G1 & G2 & G3 & G4).
    exists d1, d2. rewrite Ng in G1. auto.
  - intros i d Hd Hnm d0 Hd0. rewrite Hd in Hd0. inversion Hd0; subst d0.
    assert (Hni : ~ In i idxs).
    { intros Hi. destruct (Hsound _ Hi) as (d' & Hd' & Hm). unfold nget in Hd'. rewrite N2 in Hd'. unfold nget in Hd. rewrite Hd in Hd'.
      inversion Hd'; subst d'. contradiction. }
    exists d. rewrite (B4 _ Hni), Ng. auto.
Qed.

Lemma append_to_commitlog_pf st id p props st' res :
  AInv (r_datalog st) -> append_to_commitlog st id p props = Ok (st', res) -> AInv (r_datalog st').
Proof.
  intros HA H. destruct res; [exact (proj1 (accept_reaches_all _ _ _ _ _ HA H))|].
  (* refused: the logs are untouched *)
  split; [eapply append_to_commitlog_inv; [exact (proj1 HA)|exact H]|].
  unfold append_to_commitlog in H. apply bind_ok in H as (conn & Hc & H).
  match type of H with (if ?b then _ else _) = _ => destruct b end; [inv_ok; exact (proj2 HA)|].
  apply bind_ok in H as (sp & Hsp & H). destruct sp as [[st1 p1]|reason0]; [|inv_ok; exact (proj2 HA)].
  assert (D1 : r_datalog st1 = r_datalog st).
  { clear H. destruct (match props with Some pr => pp_alias pr | None => None end) as [a|].
    - break_all Hsp; inv_ok; reflexivity.
    - destruct (p_topic p) eqn:Et0; inv_ok; reflexivity. }
  destruct (negb (utf8_valid (p_topic p1))); [inv_ok; rewrite D1; exact (proj2 HA)|].
  apply bind_ok in H as ([st3 idxs] & H3 & H). apply bind_ok in H as (st4 & H4 & H). inv_ok.
Qed.

(* ------------------------------------------------------------------ every function, every step *)
Lemma subscribe_filters_pf id subid : forall fs st fl codes st' fl' codes',
  AInv (r_datalog st) -> subscribe_filters st id fs subid fl codes = Ok (st', fl', codes') -> AInv (r_datalog st').
Proof.
  induction fs as [|[path qos] r IH]; intros st fl codes st' fl' codes' HA H; cbn [subscribe_filters] in H; [now inv_ok|].
  destruct (negb (validate_subscription path)); [now inv_ok|].
  destruct (match extract_group path with Some (g, p) => (Some g, p) | None => (None, path) end) as [grp filter].
  destruct (match subid with Some 0 => true | _ => false end); [now inv_ok|].
  apply bind_ok in H as ([[st1 idx] cu] & H1 & H). apply bind_ok in H as (st2 & H2 & H).
  eapply IH; [|exact H]. rewrite (prepare_filter_dl _ _ _ _ _ _ _ _ _ H2). eapply next_native_offset_pf; eassumption.
Qed.

Lemma handle_packet_pf st id client pk fl st' fl' brk :
  AInv (r_datalog st) -> handle_packet st id client pk fl = Ok (st', fl', brk) -> AInv (r_datalog st').
Proof.
  intros HA H. destruct pk; cbn [handle_packet] in H.
  - destruct (p_qos p =? 1).
    + apply bind_ok in H as (st1 & H1 & H). apply bind_ok in H as ([st2 res] & H2 & H).
      assert (HA2 : AInv (r_datalog st2)).
      { eapply append_to_commitlog_pf; [|exact H2]. eapply ainv_eq; [eapply commit_ack_dl; exact H1|exact HA]. }
      destruct res; inv_ok; exact HA2.
    + destruct (p_qos p =? 2).
      * apply bind_ok in H as (l & _ & H). inv_ok. exact HA.
      * apply bind_ok in H as ([st2 res] & H2 & H). pose proof (append_to_commitlog_pf _ _ _ _ _ _ HA H2) as HA2.
        destruct res; inv_ok; exact HA2.
  - apply bind_ok in H as ([[st1 fl1] codes] & H1 & H). apply bind_ok in H as (st2 & H2 & H). inv_ok.
    eapply ainv_eq; [eapply commit_ack_dl; exact H2|]. eapply subscribe_filters_pf; eassumption.
  - apply bind_ok in H as (c & _ & H). apply bind_ok in H as ([st1 reasons] & H1 & H). apply bind_ok in H as (st2 & H2 & H). inv_ok.
    eapply ainv_eq; [eapply commit_ack_dl; exact H2|]. eapply ainv_SL; [exact HA|eapply unsubscribe_filters_SL; exact H1].
  - apply bind_ok in H as (o & _ & H). destruct (register_ack o pkid) as [o' ok]. destruct ok.
    + apply bind_ok in H as (st2 & H2 & H). inv_ok. eapply ainv_eq; [eapply reschedule_dl; exact H2|exact HA].
    + inv_ok. exact HA.
  - apply bind_ok in H as (o & _ & H). destruct (register_ack o pkid) as [o' ok]. destruct ok.
    + apply bind_ok in H as (l & _ & H). apply bind_ok in H as (st2 & H2 & H). apply bind_ok in H as (st3 & H3 & H). inv_ok.
      eapply ainv_eq; [rewrite (reschedule_dl _ _ _ _ H3); eapply commit_ack_dl; exact H2|exact HA].
    + inv_ok. exact HA.
  - apply bind_ok in H as (l & _ & H). destruct (a_recorded l) as [|[p0 pr0] rec]; [inv_ok; exact HA|].
    apply bind_ok in H as ([st2 res] & H2 & H).
    assert (HA2 : AInv (r_datalog st2)) by (eapply append_to_commitlog_pf; [|exact H2]; exact HA).
    destruct res.
    + apply bind_ok in H as (st3 & H3 & H). inv_ok. eapply ainv_eq; [eapply reschedule_dl; exact H3|exact HA2].
    + inv_ok. exact HA2.
  - apply bind_ok in H as (o & _ & H). destruct (register_pubcomp o pkid) as [o' ok]. destruct ok; inv_ok; exact HA.
  - apply bind_ok in H as (st1 & H1 & H). inv_ok. eapply ainv_eq; [eapply commit_ack_dl; exact H1|exact HA].
  - inv_ok. exact HA.
  - inv_ok. exact HA.
Qed.

Lemma handle_packets_pf id client : forall pks st fl st' fl',
  AInv (r_datalog st) -> handle_packets st id client pks fl = Ok (st', fl') -> AInv (r_datalog st').
Proof.
  induction pks as [|pk r IH]; intros st fl st' fl' HA H; cbn [handle_packets] in H; [now inv_ok|].
  apply bind_ok in H as ([[st1 fl1] brk] & H1 & H). pose proof (handle_packet_pf _ _ _ _ _ _ _ _ HA H1) as HA1.
  destruct brk; [now inv_ok|]. eapply IH; eassumption.
Qed.

Lemma handle_device_payload_pf st id st' :
  AInv (r_datalog st) -> handle_device_payload st id = Ok st' -> AInv (r_datalog st').
Proof.
  unfold handle_device_payload. intros HA H.
  destruct (slab_get (r_ibufs st) id) as [inc|]; [|now inv_ok].
  apply bind_ok in H as (b & _ & H). apply bind_ok in H as ([st1 fl] & H1 & H).
  apply bind_ok in H as (st2 & H2 & H). apply bind_ok in H as (st3 & H3 & H).
  assert (HA1 : AInv (r_datalog st1)) by (eapply handle_packets_pf; [|exact H1]; exact HA).
  assert (HA2 : AInv (r_datalog st2)) by (destruct (f_force_ack fl); [eapply ainv_eq; [eapply reschedule_dl; exact H2|exact HA1]|now inv_ok]).
  assert (HA3 : AInv (r_datalog st3)) by (destruct (f_new_data fl); [eapply ainv_eq; [eapply drain_notifications_dl; exact H3|exact HA2]|now inv_ok]).
  destruct (f_disconnect fl); [|now inv_ok]. eapply ainv_SL; [exact HA3|eapply handle_disconnection_SL; exact H].
Qed.

Lemma handle_last_will_pf st client st' : AInv (r_datalog st) -> handle_last_will st client = Ok st' -> AInv (r_datalog st').
Proof.
  unfold handle_last_will. intros HA H.
  destruct (al_get str_eqb client (r_wills st)) as [w|]; [|now inv_ok].
  destruct (negb (utf8_valid _)); [now inv_ok|].
  match type of H with (if ?b then _ else _) = _ => destruct b end; [now inv_ok|].
  apply bind_ok in H as ([st3 idxs] & H3 & H). apply bind_ok in H as (st4 & H4 & H).
  match type of H3 with dl_matches ?s2 ?t = _ => set (st2 := s2) in *; set (topic := t) in * end.
  assert (HA2 : AInv (r_datalog st2)).
  { eapply ainv_SL; [exact HA|]. unfold st2. match goal with |- SL st (retain_update ?s1 ?a ?b ?c) => exact (retain_update_same s1 a b c) end. }
  destruct (dl_matches_pf _ _ _ _ HA2 H3) as (HA3 & F3 & N3 & Hn & _ & Hsound).
  destruct (append_all_spec _ _ _ _ Hn H4) as (_ & _ & F4 & P4).
  eapply ainv_eq; [eapply drain_notifications_dl; exact H|]. split.
  - eapply append_all_inv; [exact (proj1 HA3)| |exact H4].
    intros i Hi d Hd. destruct (Hsound _ Hi) as (d' & Hd' & Hm). unfold nget in Hd'. rewrite <- N3 in Hd'. rewrite Hd in Hd'.
    inversion Hd'; subst d'. split; cbn [fst set_p_retain p_topic p_retain]; [exact Hm|reflexivity].
  - eapply pf_view; [exact F4|exact P4|exact (proj2 HA3)].
Qed.

Theorem step_with_pf st orc o st' out :
  AInv (r_datalog st) -> step_with st orc o = Ok (st', out) -> AInv (r_datalog st').
Proof.
  intros HA H. unfold step_with in H. apply bind_ok in H as ([st1 out1] & H1 & H).
  destruct (r_oracle st1); [|discriminate]. inv_ok.
  assert (HA0 : AInv (r_datalog (set_r_oracle st orc))) by exact HA.
  destruct o; cbn [step] in H1.
  - apply bind_ok in H1 as (st2 & H2 & H1). inv_ok. eapply ainv_SL; [|eapply handle_new_connection_SL; exact H2]. exact HA0.
  - destruct (nthN _ link); inv_ok; exact HA0.
  - apply bind_ok in H1 as (st2 & H2 & H1). inv_ok. eapply handle_device_payload_pf; eassumption.
  - apply bind_ok in H1 as ([st2 b] & H2 & H1). inv_ok. eapply ainv_SL; [exact HA0|eapply consume_SL; exact H2].
  - destruct (nthN _ link); inv_ok; exact HA0.
  - destruct (slab_get _ id); [|inv_ok; exact HA0]. apply bind_ok in H1 as (st2 & H2 & H1). inv_ok.
    eapply ainv_eq; [eapply reschedule_dl; exact H2|exact HA0].
  - apply bind_ok in H1 as (st2 & H2 & H1). inv_ok. eapply ainv_SL; [exact HA0|eapply handle_disconnection_SL; exact H2].
  - apply bind_ok in H1 as (st2 & H2 & H1). inv_ok. eapply ainv_eq; [eapply retrieve_shadow_dl; exact H2|exact HA0].
  - apply bind_ok in H1 as (st2 & H2 & H1). inv_ok. eapply handle_last_will_pf; eassumption.
  - inv_ok. exact HA0.
Qed.

Lemma init_pf cfg st : init cfg = Ok st -> AInv (r_datalog st).
Proof.
  intros H. split; [eapply DataLogStep.init_inv; exact H|].
  unfold init in H. apply bind_ok in H as (dl & Hdl & H). inv_ok. cbn [r_datalog].
  assert (E : dl_pfilters dl = []).
  { unfold init_datalog in Hdl.
    set (go := fix go (fs : list str) (dl : datalog) {struct fs} : R datalog :=
      match fs with
      | [] => Ok dl
      | f :: r =>
          do d <- data_new cfg f;
          let '(native', idx) := slab_insert (dl_native dl) d in
          go r {| dl_native := native'; dl_findex := al_set str_eqb f idx (dl_findex dl);
                  dl_retained := []; dl_pfilters := [] |}
      end) in Hdl.
    assert (Hgo : forall fs dl0 dl1, dl_pfilters dl0 = [] -> go fs dl0 = Ok dl1 -> dl_pfilters dl1 = []).
    { induction fs as [|f r IH]; intros dl0 dl1 E0 H; cbn in H; [now inv_ok|].
      apply bind_ok in H as (d & _ & H). destruct (slab_insert (dl_native dl0) d) as [native' k]. eapply IH; [|exact H]. reflexivity. }
    eapply Hgo; [|exact Hdl]. reflexivity. }
  intros t v Hin. rewrite E in Hin. destruct Hin.
Qed.

(** the cache is complete and duplicate-free in every reachable state *)
Theorem reachable_pf cfg st0 ops st : init cfg = Ok st0 -> RunDefs.run st0 ops = Ok st -> AInv (r_datalog st).
Proof.
  intros Hi Hr. eapply (RunDefs.run_inv (fun s => AInv (r_datalog s))); [|eapply init_pf; exact Hi|exact Hr].
  intros s orc o s' out I H. eapply step_with_pf; eassumption.
Qed.

(** ... hence, in every reachable state, an accepted publish reaches every matching filter log *)
Theorem accept_reaches_all_reachable cfg st0 ops st id p props st' :
  init cfg = Ok st0 -> RunDefs.run st0 ops = Ok st ->
  append_to_commitlog st id p props = Ok (st', AppOk) ->
  exists topic item,
    p_payload (fst item) = p_payload p /\ p_topic (fst item) = topic /\ p_retain (fst item) = false /\
    (match props with Some pr => pp_alias pr | None => None end = None -> topic = p_topic p) /\
    dl_findex (r_datalog st') = dl_findex (r_datalog st) /\
    (forall f i, In (f, i) (dl_findex (r_datalog st)) -> matches topic f = Ok true ->
       appended (r_datalog st) (r_datalog st') i item) /\
    (forall i d, nget (r_datalog st) i = Some d -> matches topic (d_filter d) <> Ok true ->
       unappended (r_datalog st) (r_datalog st') i).
Proof.
  intros Hi Hr H. exact (proj2 (accept_reaches_all _ _ _ _ _ (reachable_pf _ _ _ _ Hi Hr) H)).
Qed.
