(** Generic slab / list lemmas, tactics for the Outcome monad, and the frame lemmas of the
    router model with respect to the three components the window (C09) and ack (C06)
    properties talk about: [r_obufs], [r_acks], [r_links].  [keep st' = keep st] says that a
    model function leaves all three untouched. *)
From Coq Require Import ZifyBool ZifyN ZifyNat.
From Rumqtt Require Import Router.Model.

Arguments N.add : simpl never.
Arguments N.sub : simpl never.
Arguments N.mul : simpl never.
Arguments N.div : simpl never.
Arguments N.modulo : simpl never.
Arguments N.eqb : simpl never.
Arguments N.ltb : simpl never.
Arguments N.leb : simpl never.

(* ------------------------------------------------------------------ monad tactics *)
Lemma bind_ok {E A B} (x : Outcome E A) (f : A -> Outcome E B) b :
  bind x f = Ok b -> exists a, x = Ok a /\ f a = Ok b.
Proof. destruct x; cbn; intros H; try discriminate. eauto. Qed.

(** destruct every [match]/[if]/[let '(..)] scrutinee of hypothesis [H] (after unfolding
    [bind]), closing the branches where [H] becomes [Panic _ = Ok _] *)
Ltac break_in H :=
  unfold bind in H;
  repeat (cbv beta iota in H;
          first [ discriminate H
                | match type of H with
                  | context [match ?x with _ => _ end] => destruct x eqn:?
                  end ]);
  cbv beta iota in H.

Ltac inv_ok :=
  repeat match goal with
         | H : Ok _ = Ok _ |- _ => inversion H; subst; clear H
         | H : (_, _) = (_, _) |- _ => inversion H; subst; clear H
         end.

(** same, also breaking the equations the destructs generate *)
Ltac break_hyps :=
  repeat (cbv beta iota in *;
          match goal with
          | H : _ = Ok _ |- _ => discriminate H
          | H : ?l = _ |- _ =>
              match l with context [match ?x with _ => _ end] => destruct x eqn:? end
          end);
  cbv beta iota in *.
Ltac break_all H := unfold bind in H; break_hyps.

Ltac rsimpl :=
  cbn [r_cfg r_graveyard r_conns r_cmap r_submap r_ibufs r_obufs r_datalog r_acks r_trackers
       r_ready r_notif r_groups r_wills r_links r_oracle
       set_r_cfg set_r_graveyard set_r_conns set_r_cmap set_r_submap set_r_ibufs set_r_obufs
       set_r_datalog set_r_acks set_r_trackers set_r_ready set_r_notif set_r_groups set_r_wills
       set_r_links set_r_oracle
       put_tracker put_conn put_obuf put_acks link_put fst snd] in *.

(* ------------------------------------------------------------------ nthN / setN / slabs *)
Lemma nthN_setN_same {X} (l : list X) : forall i v,
  nthN (setN l i v) i = match nthN l i with Some _ => Some v | None => None end.
Proof.
  induction l as [| x r IH]; intros i v; cbn [nthN setN]; [reflexivity |].
  destruct (i =? 0) eqn:E; cbn [nthN]; rewrite E; [reflexivity | apply IH].
Qed.

Lemma nthN_setN_other {X} (l : list X) : forall i j v, i <> j -> nthN (setN l i v) j = nthN l j.
Proof.
  induction l as [| x r IH]; intros i j v Hne; cbn [nthN setN]; [reflexivity |].
  destruct (i =? 0) eqn:E; cbn [nthN].
  - destruct (j =? 0) eqn:E2; [lia | reflexivity].
  - destruct (j =? 0) eqn:E2; [reflexivity |]. apply IH. lia.
Qed.

Lemma setN_same {X} (l : list X) : forall i v, nthN l i = Some v -> setN l i v = l.
Proof.
  induction l as [| x r IH]; intros i v H; cbn [nthN setN] in *; [reflexivity |].
  destruct (i =? 0); [now inversion H | f_equal; now apply IH].
Qed.

Lemma length_setN {X} (l : list X) : forall i v, length (setN l i v) = length l.
Proof.
  induction l as [| x r IH]; intros i v; cbn [setN length]; [reflexivity |].
  destruct (i =? 0); cbn [length]; [reflexivity | now rewrite IH].
Qed.

Lemma nthN_app_l {X} (l r : list X) : forall i x, nthN l i = Some x -> nthN (l ++ r) i = Some x.
Proof.
  induction l as [| y l IH]; intros i x H; cbn [nthN app] in *; [discriminate |].
  destruct (i =? 0); [exact H | now apply IH].
Qed.

Lemma nthN_lt {X} (l : list X) : forall i, i < lenN l -> exists x, nthN l i = Some x.
Proof.
  unfold lenN. induction l as [| y l IH]; intros i H; cbn [nthN length] in *; [lia |].
  destruct (i =? 0) eqn:E; [eauto | apply IH; lia].
Qed.

Lemma nthN_some_lt {X} (l : list X) : forall i x, nthN l i = Some x -> i < lenN l.
Proof.
  unfold lenN. induction l as [| y l IH]; intros i x H; cbn [nthN length] in *; [discriminate |].
  destruct (i =? 0) eqn:E; [lia |]. apply IH in H. lia.
Qed.

Lemma nthN_app {X} (l r : list X) : forall i,
  nthN (l ++ r) i = if i <? lenN l then nthN l i else nthN r (i - lenN l).
Proof.
  unfold lenN. induction l as [| y l IH]; intros i; cbn [nthN app length].
  - replace (i - N.of_nat 0) with i by lia. destruct (i <? N.of_nat 0) eqn:E; [lia | reflexivity].
  - destruct (i =? 0) eqn:E.
    + destruct (i <? N.of_nat (S (length l))) eqn:E2; [reflexivity | lia].
    + rewrite IH. replace (i - 1 - N.of_nat (length l)) with (i - N.of_nat (S (length l))) by lia.
      destruct (i - 1 <? N.of_nat (length l)) eqn:E2, (i <? N.of_nat (S (length l))) eqn:E3;
        try reflexivity; lia.
Qed.

Section SlabFacts.
Context {A : Type}.
Implicit Types s : slab A.

Lemma slab_get_put_same s k a :
  slab_get (slab_put s k a) k = match nthN (sl_items s) k with Some _ => Some a | None => None end.
Proof. unfold slab_get, slab_put. cbn [sl_items]. rewrite nthN_setN_same. now destruct (nthN (sl_items s) k). Qed.

Lemma slab_get_put_other s k k' a : k <> k' -> slab_get (slab_put s k a) k' = slab_get s k'.
Proof. intros H. unfold slab_get, slab_put. cbn [sl_items]. now rewrite nthN_setN_other. Qed.

Lemma slab_get_put_occ s k a x : slab_get s k = Some x -> slab_get (slab_put s k a) k = Some a.
Proof.
  intros H. rewrite slab_get_put_same. unfold slab_get in H. now destruct (nthN (sl_items s) k).
Qed.

(** what a [slab_put] can make visible: the new value at [k], or what was there *)
Lemma slab_get_put_inv s k k' a x :
  slab_get (slab_put s k a) k' = Some x -> (k' = k /\ x = a) \/ (k' <> k /\ slab_get s k' = Some x).
Proof.
  destruct (N.eq_dec k k') as [-> | Hne].
  - rewrite slab_get_put_same. destruct (nthN (sl_items s) k'); intros H; inversion H. now left.
  - rewrite slab_get_put_other by exact Hne. right. split; [congruence | assumption].
Qed.

Lemma slab_put_same s k a : slab_get s k = Some a -> slab_put s k a = s.
Proof.
  unfold slab_get, slab_put. intros H. destruct s as [items fr]. cbn [sl_items sl_free] in *.
  f_equal. apply setN_same. destruct (nthN items k) as [[x |] |]; try discriminate. now inversion H.
Qed.

Lemma slab_remove_get s k s' a k' :
  slab_remove s k = Some (s', a) ->
  slab_get s k = Some a /\ slab_get s' k' = if k' =? k then None else slab_get s k'.
Proof.
  unfold slab_remove. destruct (slab_get s k) as [x |] eqn:G; intros H; inversion H; subst; clear H.
  split; [reflexivity |]. unfold slab_get in *. cbn [sl_items].
  destruct (k' =? k) eqn:E.
  - assert (k' = k) by lia. subst. rewrite nthN_setN_same. now destruct (nthN (sl_items s) k).
  - rewrite nthN_setN_other by lia. reflexivity.
Qed.

Lemma slab_insert_get s a s' k k' :
  slab_insert s a = (s', k) ->
  slab_get s' k' = if k' =? k then (match slab_get s' k with Some _ => Some a | None => None end)
                   else slab_get s k'.
Proof.
  unfold slab_insert. destruct (sl_free s) as [| f fr]; intros H; inversion H; subst; clear H;
    unfold slab_get; cbn [sl_items].
  - destruct (k' =? lenN (sl_items s)) eqn:E.
    + assert (k' = lenN (sl_items s)) by lia. subst. rewrite nthN_app.
      replace (lenN (sl_items s) <? lenN (sl_items s)) with false by lia.
      replace (lenN (sl_items s) - lenN (sl_items s)) with 0 by lia. reflexivity.
    + rewrite nthN_app. destruct (k' <? lenN (sl_items s)) eqn:E2; [reflexivity |].
      cbn [nthN]. destruct (k' - lenN (sl_items s) =? 0) eqn:E3; [lia |].
      destruct (nthN (sl_items s) k') as [x |] eqn:G; [| reflexivity].
      apply nthN_some_lt in G. lia.
  - destruct (k' =? k) eqn:E.
    + assert (k' = k) by lia. subst. rewrite nthN_setN_same. now destruct (nthN (sl_items s) k).
    + rewrite nthN_setN_other by lia. reflexivity.
Qed.

(** what a [slab_insert] can make visible *)
Lemma slab_insert_inv s a s' k k' x :
  slab_insert s a = (s', k) -> slab_get s' k' = Some x -> (k' = k /\ x = a) \/ (k' <> k /\ slab_get s k' = Some x).
Proof.
  intros H G. rewrite (slab_insert_get _ _ _ _ k' H) in G. destruct (k' =? k) eqn:E.
  - left. split; [lia |]. destruct (slab_get s' k); now inversion G.
  - right. split; [lia | exact G].
Qed.
End SlabFacts.

(* ------------------------------------------------------------------ keep *)
Definition keep (st : rstate) := (r_obufs st, r_acks st, r_links st).

Ltac keep_finish := unfold keep in *; rsimpl; congruence.

Lemma reschedule_keep st id why st' : reschedule st id why = Ok st' -> keep st' = keep st.
Proof. unfold reschedule, get_tracker, try_ready. intros H. break_in H; inv_ok; reflexivity. Qed.
Lemma track_keep st id rq st' : track st id rq = Ok st' -> keep st' = keep st.
Proof. unfold track, get_tracker. intros H. break_in H; inv_ok; reflexivity. Qed.
Lemma trackv_keep st id rqs st' : trackv st id rqs = Ok st' -> keep st' = keep st.
Proof. unfold trackv, get_tracker. intros H. break_in H; inv_ok; reflexivity. Qed.
Lemma untrack_keep st id f st' : untrack st id f = Ok st' -> keep st' = keep st.
Proof. unfold untrack, get_tracker. intros H. break_in H; inv_ok; reflexivity. Qed.
Lemma pause_keep st id why st' : pause st id why = Ok st' -> keep st' = keep st.
Proof. unfold pause, get_tracker. intros H. break_in H; inv_ok; reflexivity. Qed.
Lemma dl_matches_keep st t st' v : dl_matches st t = Ok (st', v) -> keep st' = keep st.
Proof. unfold dl_matches. intros H. break_in H; inv_ok; reflexivity. Qed.
Lemma next_native_offset_keep st f st' i c : next_native_offset st f = Ok (st', i, c) -> keep st' = keep st.
Proof. unfold next_native_offset. intros H. break_in H; inv_ok; reflexivity. Qed.
Lemma data_append_keep st i x st' : data_append st i x = Ok st' -> keep st' = keep st.
Proof. unfold data_append. intros H. break_in H; inv_ok; reflexivity. Qed.
Lemma append_all_keep idxs : forall st x st', append_all st idxs x = Ok st' -> keep st' = keep st.
Proof.
  induction idxs as [| i r IH]; intros st x st' H; cbn [append_all] in H.
  - now inv_ok.
  - apply bind_ok in H as (st1 & H1 & H2). apply data_append_keep in H1. apply IH in H2. congruence.
Qed.
Lemma park_keep st id rq st' : park st id rq = Ok st' -> keep st' = keep st.
Proof. unfold park. intros H. break_in H; inv_ok; reflexivity. Qed.
Lemma remove_waiters_for_id_keep st id f st' : remove_waiters_for_id st id f = Ok st' -> keep st' = keep st.
Proof. unfold remove_waiters_for_id. intros H. inv_ok. reflexivity. Qed.
Lemma read_retained_keep st f st' l : read_retained st f = Ok (st', l) -> keep st' = keep st.
Proof. unfold read_retained. intros H. break_in H; inv_ok; reflexivity. Qed.
Lemma update_next_client_keep st g st' g' : update_next_client st g = Ok (st', g') -> keep st' = keep st.
Proof. unfold update_next_client. intros H. break_in H; inv_ok; reflexivity. Qed.
Lemma wake_all_keep ns : forall st st', wake_all st ns = Ok st' -> keep st' = keep st.
Proof.
  induction ns as [| [id rq] r IH]; intros st st' H; cbn [wake_all] in H.
  - now inv_ok.
  - apply bind_ok in H as (st1 & H1 & H). apply bind_ok in H as (st2 & H2 & H).
    apply track_keep in H1. apply reschedule_keep in H2. apply IH in H. congruence.
Qed.
Lemma drain_notifications_keep st st' : drain_notifications st = Ok st' -> keep st' = keep st.
Proof. unfold drain_notifications. intros H. apply wake_all_keep in H. exact H. Qed.
Lemma retain_update_keep st t p pr : keep (retain_update st t p pr) = keep st.
Proof. unfold retain_update. destruct (p_retain p); [destruct (p_payload p) |]; reflexivity. Qed.

Ltac keep1 E :=
  first [ apply reschedule_keep in E | apply track_keep in E | apply trackv_keep in E
        | apply untrack_keep in E | apply pause_keep in E | apply dl_matches_keep in E
        | apply next_native_offset_keep in E | apply data_append_keep in E
        | apply append_all_keep in E | apply park_keep in E | apply remove_waiters_for_id_keep in E
        | apply read_retained_keep in E | apply update_next_client_keep in E
        | apply wake_all_keep in E | apply drain_notifications_keep in E ].
Ltac keeps := repeat match goal with E : _ = Ok _ |- _ => keep1 E end.

Lemma append_to_commitlog_keep st id p props st' res :
  append_to_commitlog st id p props = Ok (st', res) -> keep st' = keep st.
Proof.
  unfold append_to_commitlog, get_conn. intros H. break_all H; inv_ok; keeps;
    try reflexivity; rewrite ?retain_update_keep in *; keep_finish.
Qed.

Lemma prepare_filter_keep st id cu fidx path qos grp subid st' :
  prepare_filter st id cu fidx path qos grp subid = Ok st' -> keep st' = keep st.
Proof.
  unfold prepare_filter, get_conn, dbg_no_dups. intros H. break_all H; inv_ok; keeps; keep_finish.
Qed.

Lemma subscribe_filters_keep fs : forall st id subid fl codes st' fl' codes',
  subscribe_filters st id fs subid fl codes = Ok (st', fl', codes') -> keep st' = keep st.
Proof.
  induction fs as [| [path qos] r IH]; intros st id subid fl codes st' fl' codes' H;
    cbn [subscribe_filters] in H.
  - now inv_ok.
  - destruct (negb (validate_subscription path)); [now inv_ok |].
    destruct (match extract_group path with Some (g, p) => (Some g, p) | None => (None, path) end) as [grp filter].
    destruct (match subid with Some 0 => true | _ => false end); [now inv_ok |].
    apply bind_ok in H as ([[st1 idx] cu] & H1 & H). apply bind_ok in H as (st2 & H2 & H).
    apply IH in H. apply next_native_offset_keep in H1. apply prepare_filter_keep in H2. congruence.
Qed.

Lemma unsubscribe_filters_keep fs : forall st id client reasons st' reasons',
  unsubscribe_filters st id client fs reasons = Ok (st', reasons') -> keep st' = keep st.
Proof.
  induction fs as [| f r IH]; intros st id client reasons st' reasons' H;
    cbn [unsubscribe_filters] in H.
  - now inv_ok.
  - cbv zeta in H.
    destruct (negb _) in H; [now apply IH in H |].
    match type of H with context [get_conn ?s id] => remember s as st1 eqn:Est1 end.
    assert (K1 : keep st1 = keep st) by (subst st1; destruct (al_get str_eqb f (r_submap st)); reflexivity).
    clear Est1.
    apply bind_ok in H as (conn & H1 & H).
    destruct (negb _) in H; [apply IH in H; congruence |].
    apply bind_ok in H as (st4 & H4 & H). apply bind_ok in H as (st5 & H5 & H).
    apply IH in H. keeps. keep_finish.
Qed.

Lemma handle_last_will_keep st c st' : handle_last_will st c = Ok st' -> keep st' = keep st.
Proof.
  unfold handle_last_will. intros H. break_all H; inv_ok; keeps; try reflexivity;
  rewrite ?retain_update_keep in *; keep_finish.
Qed.

Ltac keep2 E :=
  first [ keep1 E | apply append_to_commitlog_keep in E | apply prepare_filter_keep in E
        | apply subscribe_filters_keep in E | apply unsubscribe_filters_keep in E
        | apply handle_last_will_keep in E ].
Ltac keeps2 := repeat match goal with E : _ = Ok _ |- _ => keep2 E end.

Lemma keep_obufs st st' : keep st' = keep st -> r_obufs st' = r_obufs st.
Proof. unfold keep. congruence. Qed.
Lemma keep_acks st st' : keep st' = keep st -> r_acks st' = r_acks st.
Proof. unfold keep. congruence. Qed.
Lemma keep_links st st' : keep st' = keep st -> r_links st' = r_links st.
Proof. unfold keep. congruence. Qed.

(* ------------------------------------------------------------------ link buffers *)
Definition out_of (st : rstate) (k : N) : list notification :=
  match nthN (r_links st) k with Some b => lk_out b | None => [] end.
Definition in_of (st : rstate) (k : N) : list packet :=
  match nthN (r_links st) k with Some b => lk_in b | None => [] end.

Lemma lenN_setN {X} (l : list X) i v : lenN (setN l i v) = lenN l.
Proof. unfold lenN. now rewrite length_setN. Qed.

Lemma keep_out_of st st' k : keep st' = keep st -> out_of st' k = out_of st k.
Proof. intros H. unfold out_of. now rewrite (keep_links _ _ H). Qed.

Lemma push_out_spec st k ns st' len :
  push_out st k ns = Ok (st', len) ->
  exists b, nthN (r_links st) k = Some b /\
            st' = set_r_links st (setN (r_links st) k (set_lk_out b (lk_out b ++ ns))) /\
            len = lenN (lk_out b ++ ns).
Proof.
  unfold push_out, link_get. intros H. break_all H; inv_ok. eexists. repeat split.
Qed.

Lemma push_out_out st k ns st' len k' :
  push_out st k ns = Ok (st', len) ->
  out_of st' k' = if k' =? k then out_of st k ++ ns else out_of st k'.
Proof.
  intros H. apply push_out_spec in H as (b & Hb & -> & _). unfold out_of. rsimpl.
  destruct (k' =? k) eqn:E.
  - assert (k' = k) by lia. subst. rewrite nthN_setN_same, Hb. reflexivity.
  - rewrite nthN_setN_other by lia. reflexivity.
Qed.

Lemma push_out_in st k ns st' len k' :
  push_out st k ns = Ok (st', len) -> in_of st' k' = in_of st k'.
Proof.
  intros H. apply push_out_spec in H as (b & Hb & -> & _). unfold in_of. rsimpl.
  destruct (N.eq_dec k k') as [<- | Hne].
  - rewrite nthN_setN_same, Hb. reflexivity.
  - rewrite nthN_setN_other by exact Hne. reflexivity.
Qed.

Lemma push_out_len st k ns st' len :
  push_out st k ns = Ok (st', len) -> len = lenN (out_of st k ++ ns).
Proof. intros H. apply push_out_spec in H as (b & Hb & _ & ->). unfold out_of. now rewrite Hb. Qed.

(** [push_out] touches [r_links] only *)
Lemma push_out_fields st k ns st' len :
  push_out st k ns = Ok (st', len) -> st' = set_r_links st (r_links st').
Proof. intros H. apply push_out_spec in H as (b & Hb & -> & _). reflexivity. Qed.

Lemma push_out_nlinks st k ns st' len :
  push_out st k ns = Ok (st', len) -> lenN (r_links st') = lenN (r_links st).
Proof. intros H. apply push_out_spec in H as (b & Hb & -> & _). rsimpl. apply lenN_setN. Qed.

(* ------------------------------------------------------------------ commit_ack *)
Lemma commit_ack_spec st id a st' :
  commit_ack st id a = Ok st' ->
  exists l, slab_get (r_acks st) id = Some l /\
            st' = put_acks st id (set_a_committed l (a_committed l ++ [a])).
Proof. unfold commit_ack, get_acks. intros H. break_all H; inv_ok. eauto. Qed.

(* ------------------------------------------------------------------ handle_disconnection / handle_new_connection *)
Lemma handle_disconnection_noop st id reason :
  slab_get (r_obufs st) id = None -> handle_disconnection st id reason = Ok st.
Proof. unfold handle_disconnection. now intros ->. Qed.

Lemma handle_disconnection_frame st id reason st' o0 :
  handle_disconnection st id reason = Ok st' ->
  slab_get (r_obufs st) id = Some o0 ->
  (forall id', slab_get (r_obufs st') id' = if id' =? id then None else slab_get (r_obufs st) id') /\
  (forall id', slab_get (r_acks st') id' = if id' =? id then None else slab_get (r_acks st) id') /\
  (forall id', slab_get (r_conns st') id' = if id' =? id then None else slab_get (r_conns st) id') /\
  (forall id', slab_get (r_trackers st') id' = if id' =? id then None else slab_get (r_trackers st) id') /\
  (forall id', slab_get (r_ibufs st') id' = if id' =? id then None else slab_get (r_ibufs st) id') /\
  (forall k, out_of st' k = out_of st k ++
      match reason with Some rc => if k =? o_link o0 then [NDisconnect rc] else [] | None => [] end) /\
  (forall k, in_of st' k = in_of st k) /\
  lenN (r_links st') = lenN (r_links st).
Proof.
  unfold handle_disconnection. intros H G. rewrite G in H.
  apply bind_ok in H as (st0 & H0 & H).
  assert (F0 : st0 = set_r_links st (r_links st0) /\
               (forall k, out_of st0 k = out_of st k ++
                  match reason with Some rc => if k =? o_link o0 then [NDisconnect rc] else [] | None => [] end) /\
               (forall k, in_of st0 k = in_of st k) /\
               lenN (r_links st0) = lenN (r_links st)).
  { destruct reason as [rc |].
    - apply bind_ok in H0 as ([s l] & H0 & H1). inv_ok. repeat split.
      + eapply push_out_fields; eauto.
      + intros k. rewrite (push_out_out _ _ _ _ _ k H0). destruct (k =? o_link o0) eqn:E; [assert (k = o_link o0) by lia; now subst | now rewrite app_nil_r].
      + intros k. eapply push_out_in; eauto.
      + eapply push_out_nlinks; eauto.
    - inv_ok. repeat split; try reflexivity. { now destruct st0. } intros k. now rewrite app_nil_r. }
  destruct F0 as (F0 & Fo & Fi & Fl).
  break_all H; inv_ok; rsimpl;
  repeat match goal with E : slab_remove _ _ = Some _ |- _ =>
    let E' := fresh "R" in pose proof (fun k => proj2 (slab_remove_get _ _ _ _ k E)) as E'; clear E end;
  rewrite F0 in *; rsimpl;
  repeat split; assumption.
Qed.

Lemma handle_disconnection_links_none st id st' :
  handle_disconnection st id None = Ok st' -> r_links st' = r_links st.
Proof.
  unfold handle_disconnection. intros H. break_all H; inv_ok; reflexivity.
Qed.

Lemma handle_new_connection_frame st conn link st' :
  handle_new_connection st conn link = Ok st' ->
  exists st1,
    (st1 = st \/ exists cid, handle_disconnection st cid None = Ok st1) /\
    (st' = st1 \/
     exists id pubrels sp,
       slab_insert (r_obufs st1) {| o_client := c_client conn; o_link := link; o_inflight := [];
                                    o_pubrels := pubrels; o_last := 0 |} = (r_obufs st', id) /\
       slab_insert (r_acks st1) (commit_pubrels {| a_committed := [AConnAck id sp]; a_recorded := [] |} pubrels)
         = (r_acks st', id) /\
       r_links st' = r_links st1).
Proof.
  unfold handle_new_connection. intros H.
  destruct (negb (validate_clientid (c_client conn))); [inv_ok; exists st'; auto |].
  apply bind_ok in H as (st1 & H1 & H). exists st1. split.
  { destruct (al_get str_eqb (c_client conn) (r_cmap st)); [right; eauto | left; now inv_ok]. }
  clear H1. unfold dbg_no_dups in H. break_all H; inv_ok; auto; right; keeps; rsimpl.
  all: match goal with E : negb _ = false |- _ => apply negb_false_iff in E end.
  all: repeat match goal with E : _ && _ = true |- _ => apply andb_prop in E as [? ?] end.
  all: repeat match goal with E : (_ =? _) = true |- _ => apply N.eqb_eq in E end; subst.
  all: unfold keep in *; rsimpl.
  all: match goal with E : (_, _, _) = (_, _, _) |- _ => inversion E; subst; clear E end.
  all: do 3 eexists; (split; [| split]); [ eassumption | eassumption | reflexivity ].
Qed.

