(** Dev profile, second pass, part 1: the helpers that neither create nor destroy data requests
    only move them ([dfr]); none of them reaches P_DBG_DUP. *)
From Rumqtt Require Import Router.NoPanicLog.
From Rumqtt Require Import Router.Model Router.InvLemmasBase Router.Inv Router.InvLemmasPrim Router.InvLemmasSched
  Router.InvLemmasDl Router.InvLemmasRoute Router.NoPanicDevBase Router.NoPanicDevInv Topic.Proofs.
From Rumqtt Require Import Router.Model.
From Coq Require Import Arith ZifyBool ZifyN ZifyNat.

Ltac notdup := cbn [wpd]; let X := fresh "X" in intro X; vm_compute in X; discriminate X.

(** from a first-pass specification: the function cannot reach P_DBG_DUP if the dev flag of the
    panic is impossible for another reason; used for the pure helpers below *)
Lemma wpd_of_nopanic {A} (x : R A) (Q : A -> Prop) :
  is_panic x = false -> (forall a, x = Ok a -> Q a) -> wpd x Q.
Proof. destruct x; cbn; auto; discriminate. Qed.

Lemma topic_matches_dev t f : wpd (topic_matches t f) (fun _ => True).
Proof. apply wpd_of_nopanic; [apply matches_total|auto]. Qed.

Lemma matching_idxs_dev t fi : wpd (matching_idxs t fi) (fun _ => True).
Proof.
  induction fi as [|[f i] fi IH]; cbn [matching_idxs]; [exact I|].
  apply wpd_bind. eapply wpd_mono; [apply topic_matches_dev|]. intros b _.
  apply wpd_bind. eapply wpd_mono; [apply IH|]. intros r _. exact I.
Qed.

Lemma pfilters_add_dev idx f pf : wpd (pfilters_add idx f pf) (fun _ => True).
Proof.
  induction pf as [|[t v] pf IH]; cbn [pfilters_add]; [exact I|].
  apply wpd_bind. eapply wpd_mono; [apply topic_matches_dev|]. intros b _.
  apply wpd_bind. eapply wpd_mono; [apply IH|]. intros r _. exact I.
Qed.

Lemma retained_matching_dev f m : wpd (retained_matching f m) (fun _ => True).
Proof.
  induction m as [|[t d] m IH]; cbn [retained_matching]; [exact I|].
  apply wpd_bind. eapply wpd_mono; [apply topic_matches_dev|]. intros b _.
  apply wpd_bind. eapply wpd_mono; [apply IH|]. intros r _. exact I.
Qed.

(* ------------------------------------------------------------------ links, scheduler, acks *)
Lemma push_out_dev st k ns e : wpd (push_out st k ns) (fun r => dfr st (fst r) e e).
Proof.
  unfold push_out, link_get. destruct (nthN (r_links st) k); cbn [bind wpd fst]; [dfr_triv|notdup].
Qed.

Lemma try_ready_dev dbg t why : wpd (try_ready dbg t why) (fun r => tr_reqs (fst r) = tr_reqs t).
Proof.
  unfold try_ready. destruct (tr_status t) as [|p]; [reflexivity|].
  destruct why; destruct p; destruct dbg; cbn; try reflexivity; notdup.
Qed.

Lemma reschedule_dev st id why e : wpd (reschedule st id why) (fun st' => dfr st st' e e).
Proof.
  unfold reschedule, get_tracker. destruct (slab_get (r_trackers st) id) as [t|] eqn:Ht; [|notdup]. cbn [bind].
  apply wpd_bind. eapply wpd_mono; [apply try_ready_dev|]. intros [t' woke] Hr. cbn [fst] in Hr.
  pose proof (dfr_put_tracker_same st id t t' e Ht Hr) as D.
  destruct woke; cbn [wpd]; [|exact D]. eapply dfr_trans; [exact D|dfr_triv].
Qed.

Lemma trackv_dev st id rqs e : wpd (trackv st id rqs) (fun st' => dfr st st' (map (pair id) rqs ++ e) e).
Proof.
  unfold trackv, get_tracker. destruct (slab_get (r_trackers st) id) as [t|] eqn:Ht; [|notdup]. cbn [bind wpd].
  eapply dfr_put_tracker; eauto.
Qed.

Lemma track_dev st id rq e : wpd (track st id rq) (fun st' => dfr st st' ((id, rq) :: e) e).
Proof. apply (trackv_dev st id [rq] e). Qed.

Lemma pause_dev st id why e : wpd (pause st id why) (fun st' => dfr st st' e e).
Proof.
  unfold pause. destruct (split_last_n (r_ready st)) as [[init last]|]; [|notdup].
  destruct (last =? id); [|notdup]. unfold get_tracker. cbn [r_trackers set_r_ready].
  destruct (slab_get (r_trackers st) id) as [t|] eqn:Ht; [|notdup]. cbn [bind wpd].
  eapply dfr_trans; [|apply (dfr_put_tracker_same (set_r_ready st init) id t); [exact Ht|reflexivity]]. dfr_triv.
Qed.

Lemma commit_ack_dev st id a e : wpd (commit_ack st id a) (fun st' => dfr st st' e e).
Proof.
  unfold commit_ack, get_acks. destruct (slab_get (r_acks st) id); [|notdup]. cbn [bind wpd]. dfr_triv.
Qed.

Lemma wake_all_dev ns : forall st e, wpd (wake_all st ns) (fun st' => dfr st st' (ns ++ e) e).
Proof.
  induction ns as [|[id rq] ns IH]; intros st e; cbn [wake_all]; [apply dfr_refl|].
  apply wpd_bind. eapply wpd_mono; [apply (track_dev st id rq (ns ++ e))|]. intros st1 D1.
  apply wpd_bind. eapply wpd_mono; [apply (reschedule_dev st1 id SFreshData (ns ++ e))|]. intros st2 D2.
  eapply wpd_mono; [apply (IH st2 e)|]. intros st3 D3. cbn [app].
  eapply dfr_trans; [exact D1|]. eapply dfr_trans; [exact D2|exact D3].
Qed.

Lemma dfr_notif_to_local st e : dfr st (set_r_notif st []) e (r_notif st ++ e).
Proof.
  split; [|split; reflexivity]. intros id f. unfold CNT. cbn [r_notif set_r_notif].
  change (treqs (set_r_notif st []) id) with (treqs st id).
  change (items_of (set_r_notif st [])) with (items_of st). rewrite cntw_app, cntw_nil. lia.
Qed.

Lemma drain_notifications_dev st e : wpd (drain_notifications st) (fun st' => dfr st st' e e).
Proof.
  unfold drain_notifications. eapply wpd_mono; [apply (wake_all_dev (r_notif st) (set_r_notif st []) e)|].
  intros st' D. eapply dfr_trans; [apply dfr_notif_to_local|exact D].
Qed.

(* ------------------------------------------------------------------ datalog *)
Lemma dl_matches_dev st t e : wpd (dl_matches st t) (fun r => dfr st (fst r) e e).
Proof.
  unfold dl_matches. destruct (al_get str_eqb t (dl_pfilters (r_datalog st))); [apply dfr_refl|].
  apply wpd_bind. eapply wpd_mono; [apply matching_idxs_dev|]. intros base _.
  apply wpd_bind.
  assert (Hfin : forall v orc, dfr st (set_r_oracle (set_r_datalog st
                    match v with
                    | [] => r_datalog st
                    | _ :: _ => set_dl_pfilters (r_datalog st) (al_set str_eqb t v (dl_pfilters (r_datalog st)))
                    end) orc) e e).
  { intros v orc.
    match goal with |- dfr st (set_r_oracle (set_r_datalog st ?d) orc) e e => set (dl' := d) end.
    eapply dfr_trans; [apply (dfr_datalog_items st dl' e)|dfr_triv]. unfold dl'. destruct v; reflexivity. }
  destruct base as [|b1 [|b2 base]].
  - cbn [wpd fst]. apply (Hfin [] (r_oracle st)).
  - cbn [wpd fst]. apply (Hfin [b1] (r_oracle st)).
  - destruct (r_oracle st) as [|[v| |] orc]; cbn [wpd]; auto.
    destruct (perm_ofN v (b1 :: b2 :: base)); cbn [wpd fst]; auto; try apply (Hfin v orc).
Qed.

Lemma next_offset_dev (l : log pubdata) all :
  WF pubdata_size l all -> wpd (next_offset l) (fun _ => True).
Proof.
  intros H. destruct (lw_next_offset pubdata_size l all H) as [[c Hc] | Hp]; [rewrite Hc; exact I|rewrite Hp; notdup].
Qed.

Lemma next_native_offset_dev cfg st f e :
  RInvC cfg st -> wpd (next_native_offset st f) (fun r => dfr st (fst (fst r)) e e).
Proof.
  intros HI. pose proof (ri_dl _ _ HI) as Hdl. unfold next_native_offset.
  destruct (al_get str_eqb f (dl_findex (r_datalog st))) as [idx|] eqn:E.
  - pose proof (al_get_Forall_snd _ (fun i => i < dlen (r_datalog st)) _ _ _ (dk_findex _ _ Hdl) E) as Hi.
    destruct (native_get_ok _ _ _ Hdl Hi) as (d & Hd & _ & [[all Hwf] _]). rewrite Hd. cbn [bind].
    apply wpd_bind. eapply wpd_mono; [apply (next_offset_dev _ _ Hwf)|]. intros c _. apply dfr_refl.
  - destruct (data_new_ok cfg f (ri_cfg_ok _ _ HI)) as (d & Hd & Hdok).
    rewrite (ri_cfg _ _ HI), Hd. cbn [bind]. unfold slab_insert. rewrite (dk_free _ _ Hdl).
    apply wpd_bind. eapply wpd_mono; [apply pfilters_add_dev|]. intros pf _. apply wpd_bind.
    destruct (Hdok (lives st) 0) as [[all Hwf] Hw].
    eapply wpd_mono; [apply (next_offset_dev _ _ Hwf)|]. intros c _. cbn [wpd fst].
    eapply (dfr_datalog_new st _ d e); [reflexivity|].
    unfold data_new in Hd. destruct (new (cf_seg_size cfg) (cf_seg_count cfg)); cbn [bind] in Hd; inversion Hd. reflexivity.
Qed.

Lemma append_dev (l : log pubdata) all x :
  WF pubdata_size l all -> wpd (append pubdata_size l x) (fun _ => True).
Proof.
  intros H. destruct (lw_append pubdata_size l all x H) as [(l' & c & Hc & _) | Hp]; [rewrite Hc; exact I|rewrite Hp; notdup].
Qed.

Lemma native_nth sh dl idx d :
  dl_ok sh dl -> slab_get (dl_native dl) idx = Some d -> nthN (sl_items (dl_native dl)) idx = Some (Some d).
Proof.
  intros _ H. unfold slab_get in H. destruct (nthN (sl_items (dl_native dl)) idx) as [[d'|]|]; congruence.
Qed.

Lemma data_append_dev cfg st idx item e :
  RInvC cfg st -> idx < nlen st -> wpd (data_append st idx item) (fun st' => dfr st st' e e).
Proof.
  intros HI Hi. pose proof (ri_dl _ _ HI) as Hdl. unfold data_append.
  destruct (native_get_ok _ _ _ Hdl Hi) as (d & Hd & Hg & [[all Hwf] Hw]). rewrite Hd. cbn [bind].
  apply wpd_bind. eapply wpd_mono; [apply (append_dev _ _ _ Hwf)|]. intros [l' off] _. cbn [wpd].
  apply (dfr_data_append st idx d); [eapply native_nth; eauto|reflexivity].
Qed.

Lemma append_all_dev cfg item idxs : forall st e,
  RInvC cfg st -> Forall (fun i => i < nlen st) idxs ->
  wpd (append_all st idxs item) (fun st' => dfr st st' e e).
Proof.
  induction idxs as [|i idxs IH]; intros st e HI H; cbn [append_all]; [apply dfr_refl|].
  inversion H as [|? ? Hi H']; subst. apply wpd_bind.
  eapply wpd_mono; [eapply wpd_and_wp; [apply (data_append_spec cfg st i item HI Hi)|apply (data_append_dev cfg st i item e HI Hi)]|].
  intros st1 [(HI1 & E1 & N1 & R1) D1].
  eapply wpd_mono; [apply (IH st1 e HI1); rewrite N1; exact H'|]. intros st2 D2. eapply dfr_trans; eauto.
Qed.

Lemma park_dev cfg st id rq e :
  RInvC cfg st -> req_ok (nlen st) rq -> wpd (park st id rq) (fun st' => dfr st st' ((id, rq) :: e) e).
Proof.
  intros HI Hrq. pose proof (ri_dl _ _ HI) as Hdl. unfold park.
  destruct (native_get_ok _ _ _ Hdl (proj2 Hrq)) as (d & Hd & Hg & _). rewrite Hd. cbn [bind wpd].
  apply (dfr_park st (dr_idx rq) d); [eapply native_nth; eauto|reflexivity].
Qed.

Lemma retain_update_dev st topic p props e : dfr st (retain_update st topic p props) e e.
Proof.
  unfold retain_update. destruct (p_retain p); [|apply dfr_refl].
  destruct (p_payload p); apply dfr_datalog_items; reflexivity.
Qed.

Lemma oracle_only_dfr st st' e : oracle_only st st' -> dfr st st' e e.
Proof. intros [-> | [orc ->]]; [apply dfr_refl|dfr_triv]. Qed.

Lemma read_retained_dev st f : wpd (read_retained st f) (fun r => oracle_only st (fst r)).
Proof.
  unfold read_retained. apply wpd_bind. eapply wpd_mono; [apply retained_matching_dev|]. intros base _.
  destruct base as [|b1 [|b2 base]]; cbn [wpd fst]; try (left; reflexivity).
  destruct (r_oracle st) as [|[| v |] orc]; cbn [wpd]; auto.
  destruct (perm_ofS v (b1 :: b2 :: base)); cbn [wpd fst]; auto. right. eauto.
Qed.

(* ------------------------------------------------------------------ append_to_commitlog *)
Lemma append_tail_dev cfg st1 p1 (props : option pprops) e :
  RInvC cfg st1 ->
  wpd (let topic := p_topic p1 in
       if negb (utf8_valid topic) then Ok (st1, AppErr None)
       else
         let st2 := retain_update st1 topic p1 props in
         let p2 := set_p_retain p1 false in
         do (st3, idxs) <- dl_matches st2 topic;
         do st4 <- append_all st3 idxs (p2, props);
         Ok (st4, AppOk))
      (fun r => dfr st1 (fst r) e e).
Proof.
  intros HI. cbv zeta. destruct (negb (utf8_valid (p_topic p1))); [apply dfr_refl|].
  destruct (retain_update_spec cfg st1 (p_topic p1) p1 props HI) as [HI2 F2].
  pose proof (retain_update_dev st1 (p_topic p1) p1 props e) as D2.
  apply wpd_bind.
  eapply wpd_mono; [eapply wpd_and_wp; [apply (dl_matches_spec cfg _ (p_topic p1) HI2)|apply (dl_matches_dev _ (p_topic p1) e)]|].
  intros [st3 idxs] [(HI3 & F3 & Hidx) D3]. cbn [fst snd] in *.
  apply wpd_bind. eapply wpd_mono; [apply (append_all_dev cfg _ idxs st3 e HI3 Hidx)|]. intros st4 D4. cbn [wpd fst].
  eapply dfr_trans; [exact D2|]. eapply dfr_trans; eauto.
Qed.

Lemma append_to_commitlog_dev cfg st id p props e :
  RInvC cfg st -> occ (lives st) id ->
  wpd (append_to_commitlog st id p props) (fun r => dfr st (fst r) e e).
Proof.
  intros HI Ho. destruct (live_gets _ _ _ HI Ho) as (c & i & o & a & t & Hc & Hi & Hob & Ha & Ht).
  unfold append_to_commitlog. rewrite (get_conn_ok _ _ _ Hc). cbn [bind].
  match goal with |- wpd (if ?b then _ else _) _ => destruct b end; [apply dfr_refl|].
  apply wpd_bind.
  set (alias := match props with Some pr => pp_alias pr | None => None end).
  set (props' := match props with Some pr => Some {| pp_alias := None; pp_subids := pp_subids pr; pp_tag := pp_tag pr |} | None => None end).
  assert (Htail : forall st1 p1, RInvC cfg st1 -> dfr st st1 e e ->
     wpd (match (inl (st1, p1) : (rstate * publish) + option N) with
          | inr reason => Ok (st, AppErr reason)
          | inl (st1, p1) =>
            let topic := p_topic p1 in
            if negb (utf8_valid topic) then Ok (st1, AppErr None)
            else
              let st2 := retain_update st1 topic p1 props' in
              let p2 := set_p_retain p1 false in
              do (st3, idxs) <- dl_matches st2 topic;
              do st4 <- append_all st3 idxs (p2, props');
              Ok (st4, AppOk)
          end) (fun r => dfr st (fst r) e e)).
  { intros st1 p1 HI1 D1. cbv beta iota. eapply wpd_mono; [apply (append_tail_dev cfg st1 p1 props' e HI1)|].
    intros r Dr. eapply dfr_trans; eauto. }
  destruct alias as [al|].
  - destruct ((al =? 0) || (TOPIC_ALIAS_MAX <? al)); [apply dfr_refl|].
    destruct (p_topic p) as [|t0 tr] eqn:Et.
    + destruct (al_get N.eqb al (c_aliases c)); [|apply dfr_refl].
      cbn [wpd]. apply Htail; [exact HI|apply dfr_refl].
    + destruct (utf8_valid (t0 :: tr)); [|apply dfr_refl].
      cbn [wpd]. apply Htail.
      * eapply RInv_put_conn; eauto.
      * eapply dfr_put_conn; eauto.
  - destruct (p_topic p); [apply dfr_refl|]. cbn [wpd]. apply Htail; [exact HI|apply dfr_refl].
Qed.
