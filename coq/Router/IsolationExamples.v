(** C14: witnesses by computation.
    1. [c14_stale_refuted_thm]: the last sentence of the property ("signals belonging to a
       connection that has ended never act on a connection established later") is false of the
       routing core: events carry bare slab keys and keys are recycled at once.
    2. [c14_frame_example]: the hypotheses of the frame theorem are met by a non-trivial reachable
       state, and the projection of the well-behaved connection is literally unchanged by an
       unsolicited PUBACK of another connection and by that connection's removal. *)
From Coq Require Import ZifyBool ZifyN ZifyNat Permutation.
From Rumqtt Require Import Router.Inv Router.NoPanic Router.NoPanicServe.
From Rumqtt Require Import Router.WindowFrame Router.Window Router.WindowStep.
From Rumqtt Require Import Router.IsolationFrame Router.IsolationServe Router.IsolationWake Router.IsolationInv Router.Isolation.
From Rumqtt Require Import Router.Model Router.RunDefs.

(* ------------------------------------------------------------------ 1. stale events *)
Definition CL_A : str := [97].     (* "a" *)
Definition CL_B : str := [98].     (* "b" *)
Definition st_cA : connect_req :=
  {| cr_client := CL_A; cr_clean := true; cr_dynamic := false; cr_alias_max := 0; cr_will := None |}.
Definition st_cB : connect_req :=
  {| cr_client := CL_B; cr_clean := true; cr_dynamic := false; cr_alias_max := 0; cr_will := None |}.

(** connection A (client "a") is registered under key 0 and subscribes nothing;
    the router removes A ([Disconnect 0], e.g. A's link saw a network error);
    connection B (client "b") is registered and receives the recycled key 0;
    a second [Disconnect 0] arrives -- sent by A's link task, which raced the first one
    (server::broker::remote sends Event::Disconnect on every exit path) -- and removes B. *)
Definition stale_before : list (list oracle * rop) := [([], OpConnect st_cA)].
Definition stale_recycle : list (list oracle * rop) := [([], OpDisconnect 0); ([], OpConnect st_cB)].
Definition stale_late : list (list oracle * rop) := [([], OpDisconnect 0)].

Theorem c14_stale_refuted_thm :
  exists (cfg : config) (k : N) (h1 h2 h3 : list (list oracle * rop)) (st0 stA stB st' : rstate),
    init cfg = Ok st0 /\ ops_wf (h1 ++ h2 ++ h3) /\
    (* A owns key k *)
    run st0 h1 = Ok stA /\ client_at stA k = Some CL_A /\
    (* A has ended, B -- another client id -- was established later and owns the same key *)
    run stA h2 = Ok stB /\ client_at stB k = Some CL_B /\
    al_get str_eqb CL_B (r_cmap stB) = Some k /\ al_get str_eqb CL_A (r_cmap stB) = None /\
    (* the late signal of A's link, a bare key, acts on B *)
    h3 = [([], OpDisconnect k)] /\
    run stB h3 = Ok st' /\ client_at st' k = None /\
    al_get str_eqb CL_B (r_cmap st') = None /\ slab_len (r_conns st') = 0.
Proof.
  exists ex_cfg, 0, stale_before, stale_recycle, stale_late.
  do 4 eexists. split; [vm_compute; reflexivity |].
  split; [unfold ops_wf; repeat constructor |].
  split; [vm_compute; reflexivity |]. split; [vm_compute; reflexivity |].
  split; [vm_compute; reflexivity |]. split; [vm_compute; reflexivity |].
  split; [vm_compute; reflexivity |]. split; [vm_compute; reflexivity |].
  split; [reflexivity |].
  split; [vm_compute; reflexivity |]. split; [vm_compute; reflexivity |].
  split; vm_compute; reflexivity.
Qed.

(** the same with a late [Ready]: B, freshly connected and being served, is scheduled a
    second time by the stale Ready of A's link only if it is Paused(Busy); the harmful stale
    signals are Disconnect (above) and Shadow; shown here: a stale [Ready 0] for a key that is
    vacant is ignored, and for the recycled key it is accepted as B's *)
Example c14_stale_ready_example :
  exists st0 stB st',
    init ex_cfg = Ok st0 /\ run st0 (stale_before ++ stale_recycle) = Ok stB /\
    step_with stB [] (OpReady 0) = Ok (st', OutUnit) /\ client_at st' 0 = Some CL_B.
Proof.
  do 3 eexists. split; [vm_compute; reflexivity |]. split; [vm_compute; reflexivity |].
  split; vm_compute; reflexivity.
Qed.

(* ------------------------------------------------------------------ 2. the frame theorem is not vacuous *)
(** "a" (key 0) subscribes to "t" with QoS 1; "b" (key 1) publishes to "t"; the publish is
    forwarded to "a": its inflight window holds packet id 1, its request is parked on the log
    of "t"; nothing is drained from a's link *)
Definition iso_ops : list (list oracle * rop) :=
  [([], OpConnect ex_cA); ([], OpConnect ex_cB);
   ([], OpPush 0 (PSubscribe 1 [([116], 1)] None)); ([], OpData 0);
   ([], OpConsume); ([], OpConsume); ([], OpConsume);
   ([], OpPush 1 (PPublish ex_pub None)); ([], OpData 1);
   ([], OpConsume); ([], OpConsume); ([], OpConsume)].
(** "b" sends a PUBACK nobody asked for; the router closes "b" *)
Definition iso_bad : list (list oracle * rop) := [([], OpPush 1 (PPubAck 7)); ([], OpData 1)].

Example c14_frame_example :
  exists st0 st st1 st',
    init ex_cfg = Ok st0 /\ run st0 iso_ops = Ok st /\
    RInv st /\ CmapInv st /\ IoLink st /\ LinkInv st /\
    client_at st 0 = Some [97] /\ client_at st 1 = Some [98] /\
    (exists o, pj_obuf (proj st 0) = Some o /\ o_inflight o = [(1, 0, Some (0, 0))]) /\
    lenN (waiting st 0 0) = 1 /\ lenN (pj_out (proj st 0)) = 3 /\
    ~ addressed st 0 (OpPush 1 (PPubAck 7)) /\
    step_with st [] (OpPush 1 (PPubAck 7)) = Ok (st1, OutUnit) /\
    ~ addressed st1 0 (OpData 1) /\
    step_with st1 [] (OpData 1) = Ok (st', OutUnit) /\
    client_at st' 1 = None /\ client_at st' 0 = Some [97] /\
    proj st' 0 = proj st 0 /\ waiting st' 0 0 = waiting st 0 0 /\ rdy 0 st' = rdy 0 st.
Proof.
  do 4 eexists. split; [vm_compute; reflexivity |]. split; [vm_compute; reflexivity |].
  assert (W : ops_wf iso_ops) by (unfold ops_wf, iso_ops; repeat (constructor; cbn; try lia; try exact I)).
  assert (C : cfg_ok ex_cfg) by (split; cbn; lia).
  match goal with |- RInv ?s /\ _ =>
    destruct (isoinv_reachable ex_cfg _ iso_ops s C eq_refl W) as (A1 & A2 & A3 & A4); [vm_compute; reflexivity |] end.
  split; [exact A1 |]. split; [exact A2 |]. split; [exact A3 |]. split; [exact A4 |].
  split; [vm_compute; reflexivity |]. split; [vm_compute; reflexivity |].
  split; [eexists; split; vm_compute; reflexivity |].
  split; [vm_compute; reflexivity |]. split; [vm_compute; reflexivity |].
  split. { cbn [addressed]. vm_compute. intros [(i & E & F) | (o & E & F)]; inversion E; subst; discriminate. }
  split; [vm_compute; reflexivity |].
  split. { cbn [addressed]. discriminate. }
  split; [vm_compute; reflexivity |].
  split; [vm_compute; reflexivity |]. split; [vm_compute; reflexivity |].
  split; [vm_compute; reflexivity |]. split; vm_compute; reflexivity.
Qed.

(* ------------------------------------------------------------------ 3. why "up to the order inside one waiter queue" *)
Definition SH_G_T : str := [36; 115; 104; 97; 114; 101; 47; 103; 47; 116].    (* "$share/g/t" *)
(** "b" (key 0) and "a" (key 1) connect; "b" subscribes to "t" and is parked on its log; "a"
    subscribes to "t" and to "$share/g/t" -- two requests on the same log -- and both are parked
    behind b's; then "b" is disconnected: [Waiters::remove] swap_remove_back's b's entry, which
    moves a's LAST request into the hole: a's two parked requests change places *)
Definition reorder_ops : list (list oracle * rop) :=
  [([], OpConnect ex_cB); ([], OpConnect ex_cA);
   ([], OpPush 0 (PSubscribe 1 [([116], 1)] None)); ([], OpData 0);
   ([], OpConsume); ([], OpConsume); ([], OpConsume); ([], OpConsume);
   ([], OpPush 1 (PSubscribe 1 [([116], 1); (SH_G_T, 1)] None)); ([], OpData 1);
   ([], OpConsume); ([], OpConsume); ([], OpConsume); ([], OpConsume)].

Example c14_waiters_reordered_example :
  exists st0 st st',
    init ex_cfg = Ok st0 /\ run st0 reorder_ops = Ok st /\
    client_at st 1 = Some [97] /\ ~ addressed st 1 (OpDisconnect 0) /\
    map dr_filter (waiting st 1 0) = [[116]; SH_G_T] /\
    step_with st [] (OpDisconnect 0) = Ok (st', OutUnit) /\
    proj st' 1 = proj st 1 /\
    waiting st' 1 0 = rev (waiting st 1 0) /\ waiting st' 1 0 <> waiting st 1 0.
Proof.
  do 3 eexists. split; [vm_compute; reflexivity |]. split; [vm_compute; reflexivity |].
  split; [vm_compute; reflexivity |]. split; [cbn [addressed]; discriminate |].
  split; [vm_compute; reflexivity |]. split; [vm_compute; reflexivity |].
  split; [vm_compute; reflexivity |]. split; [vm_compute; reflexivity |].
  vm_compute. discriminate.
Qed.

(* ------------------------------------------------------------------ 4. the allowed effect happens *)
Definition ex_pub2 : publish :=
  {| p_dup := false; p_qos := 0; p_retain := false; p_topic := [116]; p_pkid := 0; p_payload := [3] |}.
(** in the state of example 2, "b" publishes to "t" once more: the parked request of "a" moves
    to the back of a's tracker, the tracker goes from Paused(Caughtup) to Ready, "a" is appended
    to the ready queue -- and nothing else of "a" changes *)
Example c14_frame_wake_example :
  exists st0 st st',
    init ex_cfg = Ok st0 /\ run st0 iso_ops = Ok st /\
    run st [([], OpPush 1 (PPublish ex_pub2 None)); ([], OpData 1)] = Ok st' /\
    tstat st 0 = Some (Paused Caughtup) /\ waiting st 0 0 <> [] /\
    proj st' 0 = proj_wake (waiting st 0 0) true (proj st 0) /\
    waiting st' 0 0 = [] /\ rdy 0 st' = rdy 0 st ++ [0].
Proof.
  do 3 eexists. split; [vm_compute; reflexivity |]. split; [vm_compute; reflexivity |].
  split; [vm_compute; reflexivity |]. split; [vm_compute; reflexivity |].
  split; [vm_compute; discriminate |]. split; [vm_compute; reflexivity |].
  split; vm_compute; reflexivity.
Qed.
