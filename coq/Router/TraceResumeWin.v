(** C08 at the level of whole runs — the window of unacknowledged forwards, seen from the trace.

    [wnd_offs (o_inflight o) i] (the offsets of the window entries of log i that carry a log
    cursor) is, for a connection that never holds a SHARED request reading log i, a SUFFIX of the
    offsets forwarded with QoS > 0 to that connection from log i ([qo L i tr]): a sweep appends to
    both, an acknowledgement only pops the head of the window, nothing else touches them ([WI]).
    With it, the meaning of the end marker [KEnd cl r w] ([EIw], [EIr]): [w] is that suffix at
    the moment of the removal, and the resume point [r] is the head of [w] if there is one, and
    else the place where the key's trace continues. *)
From Rumqtt Require Import Router.NoPanicLog.
From Rumqtt Require Import Router.Model Router.InvLemmasBase Router.Inv Router.InvLemmasPrim Router.InvLemmasSched
  Router.InvLemmasDl Router.InvLemmasRoute Router.InvLemmasConn Router.InvLemmasPkt Router.InvLemmasConsume
  Router.NoPanic Router.NoPanicDevBase Router.NoPanicDevInv Router.NoPanicDev1 Router.NoPanicDev2 Router.NoPanicDev3 Router.NoPanicDev4.
From Rumqtt Require Import Router.ExactLoc1 Router.ExactLoc2 Router.ExactLoc3.
From Rumqtt Require Import Log.Proofs Router.ExactLog Topic.Proofs.
From Rumqtt Require Import Router.WindowFrame Router.Window Router.WindowStep Router.DataLogInv Router.DataLogStep
                           Router.ExactInv Router.ExactStep1 Router.ExactStep2 Router.ExactStep3 Router.ExactLogs
                           Router.ExactSweep Router.ExactThm.
From Rumqtt Require Router.Session Router.SessionInv Router.SessionIds.
From Rumqtt Require Import Router.TraceRun Router.TraceRunHeld Router.TraceRunInv Router.TraceRunPkt Router.TraceRunSweep
                           Router.TraceRunBound Router.TraceRunStep Router.TraceRunThm Router.TraceRunContent Router.TraceResume.
From Rumqtt Require Import Router.Model Router.RunDefs.
From Coq Require Import List ZifyBool ZifyN ZifyNat Sorted.
Import ListNotations.

(* ------------------------------------------------------------------ lists *)
(** the offsets forwarded with QoS > 0 (the QoS of a forward is the QoS of the subscription) to
    link [L] from log [i], in trace order *)
Definition qo (L i : N) (tr : list dev) : list N :=
  flat_map (fun ev : dev =>
    match ev with
    | (_, (k, _, j), KFwd off p) => if (k =? L) && (j =? i) && negb (p_qos p =? 0) then [off] else []
    | _ => []
    end) tr.

(** the same, of the trace of one key *)
Definition qfo (l : list kev) : list N :=
  flat_map (fun a => match a with KFwd off p => if negb (p_qos p =? 0) then [off] else [] | _ => [] end) l.

Lemma qo_app L i a b : qo L i (a ++ b) = qo L i a ++ qo L i b.
Proof. apply flat_map_app. Qed.

Lemma qo_nofwd L i l : forallb (fun e => negb (is_fwd e)) l = true -> qo L i l = [].
Proof.
  induction l as [|[[id [[k f] j]] a] l IH]; [reflexivity|]. cbn [forallb]. intros H. apply andb_true_iff in H as [H1 H2].
  unfold qo. cbn [flat_map]. fold (qo L i l). rewrite (IH H2). destruct a; try reflexivity. discriminate.
Qed.

Lemma qo_other_link L i l : (forall id k f j a, In (id, (k, f, j), a) l -> k <> L) -> qo L i l = [].
Proof.
  induction l as [|[[id [[k f] j]] a] l IH]; [reflexivity|]. intros H.
  unfold qo. cbn [flat_map]. fold (qo L i l). rewrite IH by (intros; eapply H; right; eassumption).
  destruct a; try reflexivity. assert (k <> L) by (eapply H; left; reflexivity).
  replace (k =? L) with false by lia. reflexivity.
Qed.

Lemma qo_other_idx L i l : (forall id k f j a, In (id, (k, f, j), a) l -> j <> i) -> qo L i l = [].
Proof.
  induction l as [|[[id [[k f] j]] a] l IH]; [reflexivity|]. intros H.
  unfold qo. cbn [flat_map]. fold (qo L i l). rewrite IH by (intros; eapply H; right; eassumption).
  destruct a; try reflexivity. assert (j <> i) by (eapply H; left; reflexivity).
  replace (j =? i) with false by lia. rewrite andb_false_r. reflexivity.
Qed.

(** if all events of (link L, log i) carry the filter f, [qo] is [qfo] of the key's trace *)
Lemma qo_ktrace L f i tr :
  (forall id f' a, In (id, (L, f', i), a) tr -> f' = f) -> qo L i tr = qfo (ktrace (L, f, i) tr).
Proof.
  induction tr as [|[[id [[k f'] j]] a] tr IH]; [reflexivity|]. intros H.
  unfold qo. cbn [flat_map]. fold (qo L i tr). rewrite IH by (intros; eapply H; right; eassumption).
  destruct (dkey_dec (L, f, i) (k, f', j)) as [E | Hne].
  - inversion E; subst k f' j. destruct (is_end a) eqn:Ee.
    + rewrite ktrace_cons_end by exact Ee. destruct a; try discriminate. reflexivity.
    + rewrite ktrace_cons_same by exact Ee. unfold qfo at 2. cbn [flat_map]. fold (qfo (ktrace (L, f, i) tr)).
      destruct a; try reflexivity. rewrite !N.eqb_refl. reflexivity.
  - rewrite ktrace_cons_other by exact Hne. destruct a; try reflexivity.
    destruct (N.eqb_spec k L) as [-> | ?]; [|reflexivity]. destruct (N.eqb_spec j i) as [-> | ?]; [|reflexivity].
    exfalso. apply Hne. f_equal. f_equal. symmetry. eapply H. left. reflexivity.
Qed.

Lemma qfo_In l x : In x (qfo l) -> In x (fwd_offs l).
Proof.
  unfold qfo, fwd_offs. rewrite !in_flat_map. intros (a & Ha & Hx). exists a. split; [exact Ha|].
  destruct a; try contradiction. destruct (negb (p_qos p =? 0)); [exact Hx|contradiction].
Qed.

Lemma qfo_app a b : qfo (a ++ b) = qfo a ++ qfo b.
Proof. apply flat_map_app. Qed.

Lemma qfo_increasing l : increasing (fwd_offs l) -> increasing (qfo l).
Proof.
  unfold increasing. induction l as [|a l IH]; [constructor|]. unfold fwd_offs, qfo. cbn [flat_map].
  fold (fwd_offs l). fold (qfo l). destruct a; cbn [app]; try exact IH.
  intros H. inversion H as [|? ? Hs Hf]; subst. destruct (negb (p_qos p =? 0)); cbn [app]; [|now apply IH].
  constructor; [now apply IH|]. rewrite Forall_forall in *. intros x Hx. apply Hf. now apply qfo_In.
Qed.

Lemma wnd_offs_app a b i : wnd_offs (a ++ b) i = wnd_offs a i ++ wnd_offs b i.
Proof. apply flat_map_app. Qed.

Lemma first_cursor_hd infl i :
  match Session.first_cursor infl i with Some cu => hd_error (wnd_offs infl i) = Some (snd cu) | None => wnd_offs infl i = [] end.
Proof.
  induction infl as [|[[pk f] c] r IH]; [reflexivity|]. cbn [Session.first_cursor]. unfold wnd_offs. cbn [flat_map]. fold (wnd_offs r i).
  destruct (f =? i); [destruct c as [cu|]|]; cbn [app]; try exact IH; [reflexivity|destruct c; exact IH].
Qed.

(* ------------------------------------------------------------------ one sweep: what it appends to the window *)
(** [fwd_kind] (Window.v) with the filter log exposed *)
Definition fwd_kind_i (i : N) (o o' : outgoing) (notifs : list notification) : Prop :=
  (o' = o /\ Forall is_fwd0 notifs) \/
  (exists fw, Forall (fun x : option cursor * publish * option pprops => p_qos (snd (fst x)) <> 0) fw /\
              number_forwards o i fw = (o', notifs)).

Lemma fdd_push_spec_i st1 id o conn sg rq2 publishes caughtup st' rq' cs :
  fdd_push st1 id o conn sg rq2 publishes caughtup = Ok (st', rq', cs) ->
  slab_get (r_obufs st1) id = Some o ->
  exists o' notifs tail, fwd_delta st1 st' id o o' notifs tail /\ fwd_kind_i (dr_idx rq2) o o' notifs.
Proof.
  unfold fdd_push. intros H G. cbv zeta in H.
  destruct (2 <? dr_qos rq2); [discriminate |].
  destruct (alias_forwards (c_baliases conn) (dr_qos rq2) (al_get str_eqb (dr_filter rq2) (c_subids conn)) publishes)
    as [bal forwards] eqn:EA.
  apply alias_forwards_spec in EA as [EA1 EA2].
  match type of H with (match ?x with _ => _ end) = _ => destruct x as [o1 notifs] eqn:E1 end.
  assert (K : fwd_kind_i (dr_idx rq2) o o1 notifs /\ o_link o1 = o_link o).
  { destruct (dr_qos rq2 =? 0) eqn:Q.
    - inv_ok. split; [| reflexivity]. left. split; [reflexivity |].
      apply Forall_forall. intros n Hn. apply in_map_iff in Hn as ([[c p] pr] & <- & Hin).
      rewrite Forall_forall in EA2. specialize (EA2 _ Hin). cbn [fst snd] in EA2.
      exists c, p, pr. split; [reflexivity | lia].
    - split.
      + right. exists forwards. split; [| exact E1].
        eapply Forall_impl; [| exact EA2]. cbv beta. intros x Hx. rewrite Hx. lia.
      + apply number_forwards_spec in E1. tauto. }
  destruct K as [K L]. rewrite L in H.
  apply bind_ok in H as ([st4 len] & H4 & H). apply bind_ok in H as (st5 & H5 & H).
  assert (K5 : keep st5 = keep st4).
  { clear - H5. break_all H5; inv_ok; keeps; try reflexivity. keep_finish. }
  pose proof (WindowFrame.push_out_fields _ _ _ _ _ H4) as F4.
  pose proof (fun k => WindowFrame.push_out_out _ _ _ _ _ k H4) as O4.
  pose proof (fun k => WindowFrame.push_out_in _ _ _ _ _ k H4) as I4.
  pose proof (WindowFrame.push_out_nlinks _ _ _ _ _ H4) as N4.
  assert (D5 : fwd_delta st1 st5 id o o1 notifs []).
  { unfold fwd_delta. rewrite (keep_acks _ _ K5), (keep_links _ _ K5), (keep_obufs _ _ K5).
    rewrite F4. rsimpl. repeat split.
    - exact N4.
    - intros k. unfold in_of at 1. rewrite (keep_links _ _ K5). apply I4.
    - intros k. rewrite (keep_out_of _ _ k K5), O4, app_nil_r. unfold WindowFrame.out_of at 1 3. rsimpl.
      destruct (k =? o_link o) eqn:E; [assert (k = o_link o) by lia; now subst | now rewrite app_nil_r].
    - now left. }
  destruct (MAX_CHANNEL_CAPACITY - 1 <=? len).
  - apply bind_ok in H as ([st6 len6] & H6 & H). inv_ok. exists o1, notifs, [NUnschedule]. split; [| exact K].
    destruct D5 as (D1 & D2 & D3 & D4 & D5 & _).
    pose proof (WindowFrame.push_out_fields _ _ _ _ _ H6) as F6. unfold fwd_delta.
    assert (A6 : r_acks st' = r_acks st5) by (rewrite F6; reflexivity).
    assert (B6 : r_obufs st' = r_obufs st5) by (rewrite F6; reflexivity).
    rewrite A6, B6.
    repeat split; try assumption.
    + rewrite (WindowFrame.push_out_nlinks _ _ _ _ _ H6). exact D2.
    + intros k. rewrite <- D3. apply (WindowFrame.push_out_in _ _ _ _ _ k H6).
    + intros k. rewrite (WindowFrame.push_out_out _ _ _ _ _ k H6), !D5. destruct (k =? o_link o) eqn:E.
      * replace (o_link o =? o_link o) with true by lia. rewrite !app_nil_r, <- app_assoc.
        assert (k = o_link o) by lia. now subst.
      * reflexivity.
    + now right.
  - inv_ok. exists o1, notifs, []. split; assumption.
Qed.

Theorem forward_device_data_spec_i st id rq st' rq' cs :
  forward_device_data st id rq = Ok (st', rq', cs) ->
  exists o, slab_get (r_obufs st) id = Some o /\
    exists o' notifs tail, fwd_delta st st' id o o' notifs tail /\ fwd_kind_i (dr_idx rq) o o' notifs.
Proof.
  rewrite fdd_alt_eq. unfold fdd_alt, get_obuf. intros H.
  destruct (slab_get (r_obufs st) id) as [o |] eqn:G; [| discriminate]. cbn [bind] in H.
  exists o. split; [reflexivity |].
  destruct (slab_get (r_conns st) id) as [conn |]; [| discriminate]. cbn [bind] in H.
  cbv zeta in H.
  set (sg := match dr_group rq with
             | Some name => match al_get str_eqb name (r_groups st) with
                            | Some g => Some (name, g) | None => None end
             | None => None end) in *.
  set (rq0 := match sg with Some (_, g) => set_dr_cursor rq (g_cursor g) | None => rq end) in *.
  assert (I0 : dr_idx rq0 = dr_idx rq) by (unfold rq0; destruct sg as [[nm g]|]; reflexivity).
  apply bind_ok in H as (slots0 & HS & H).
  assert (NOP : exists o' notifs tail, fwd_delta st st id o o' notifs tail /\ fwd_kind_i (dr_idx rq) o o' notifs).
  { exists o, [], []. split; [now apply fwd_delta_nop | left; split; [reflexivity | constructor]]. }
  destruct (negb (dr_qos rq0 =? 0) && (slots0 =? 0)) eqn:EF; [inv_ok; exact NOP |].
  apply bind_ok in H as ([[[st1 rq1] retained] slots2] & HR & H).
  apply fdd_retained_spec in HR as (K1 & LR & Q1 & I1).
  apply bind_ok in H as (d & _ & H). apply bind_ok in H as ([pos from_log] & HV & H).
  assert (NOP1 : exists o' notifs tail, fwd_delta st st1 id o o' notifs tail /\ fwd_kind_i (dr_idx rq) o o' notifs).
  { exists o, [], []. split; [now apply fwd_delta_nop | left; split; [reflexivity | constructor]]. }
  destruct (match pos with Next s e => (s, e, false) | Done s e => (s, e, true) end) as [[start next] caughtup].
  match type of H with (if ?b then _ else _) = _ => destruct b end; [inv_ok; exact NOP1 |].
  match type of H with match ?l with [] => _ | _ => _ end = _ => remember l as publishes eqn:EP end.
  assert (G1 : slab_get (r_obufs st1) id = Some o) by (now rewrite (keep_obufs _ _ K1)).
  assert (HP : fdd_push st1 id o conn sg
                 {| dr_filter := dr_filter rq1; dr_idx := dr_idx rq1; dr_qos := dr_qos rq1;
                    dr_cursor := next; dr_read := dr_read rq1 + lenN publishes;
                    dr_fwd_retained := dr_fwd_retained rq1; dr_group := dr_group rq1 |}
                 publishes caughtup = Ok (st', rq', cs) \/ (st' = st1)).
  { destruct publishes; [right; now inv_ok | left; exact H]. }
  destruct HP as [HP | ->]; [| exact NOP1].
  apply fdd_push_spec_i in HP; [| exact G1].
  destruct HP as (o' & notifs & tail & D & KK). cbn [dr_idx] in KK. rewrite I1, I0 in KK.
  exists o', notifs, tail. split; [| exact KK]. eapply fwd_delta_pre; eauto.
Qed.

(** the QoS>0 log forwards among notifications *)
Definition qol (l : list (N * publish)) : list N :=
  flat_map (fun x : N * publish => if negb (p_qos (snd x) =? 0) then [fst x] else []) l.

Lemma numbered_wnd i : forall new fw ns, numbered i new fw ns ->
  Forall (fun x : option cursor * publish * option pprops => p_qos (snd (fst x)) <> 0) fw ->
  forall j, wnd_offs new j = if j =? i then qol (log_fwds ns) else [].
Proof.
  induction 1 as [|pk c p pr new fw ns Hn IH]; intros HF j; [destruct (j =? i); reflexivity|].
  inversion HF as [|? ? Hq HF']; subst. cbn [fst snd] in Hq. specialize (IH HF' j).
  unfold wnd_offs. cbn [flat_map]. fold (wnd_offs new j). rewrite IH. rewrite (N.eqb_sym i j).
  destruct (j =? i); [|destruct c; reflexivity].
  destruct c as [[sg off]|]; cbn [log_fwds]; [|reflexivity].
  unfold qol. cbn [flat_map fst snd]. unfold set_p_pkid. cbn [p_qos]. replace (p_qos p =? 0) with false by lia. reflexivity.
Qed.

Lemma fwd0_qol ns : Forall is_fwd0 ns -> qol (log_fwds ns) = [].
Proof.
  induction 1 as [|n ns (c & p & pr & -> & Hq) _ IH]; [reflexivity|]. cbn [log_fwds]. destruct c as [[sg off]|]; [|exact IH].
  unfold qol. cbn [flat_map fst snd]. rewrite Hq. exact IH.
Qed.

Lemma qol_tail ns tail : tail = [] \/ tail = [NUnschedule] -> log_fwds (ns ++ tail) = log_fwds ns.
Proof. intros [-> | ->]; rewrite log_fwds_app; cbn [log_fwds]; now rewrite app_nil_r. Qed.

(** the window of the swept connection grows by exactly the QoS>0 log forwards of the sweep, under
    the log of the swept request; every other connection is untouched *)
Lemma fdd_window st id rq st' rq' cs :
  forward_device_data st id rq = Ok (st', rq', cs) ->
  exists o o', slab_get (r_obufs st) id = Some o /\ slab_get (r_obufs st') id = Some o' /\ o_link o' = o_link o /\
    (forall c, c <> id -> slab_get (r_obufs st') c = slab_get (r_obufs st) c) /\
    forall j, wnd_offs (o_inflight o') j =
              wnd_offs (o_inflight o) j ++
              (if j =? dr_idx rq
               then qol (log_fwds (skipn (length (WindowFrame.out_of st (o_link o))) (WindowFrame.out_of st' (o_link o)))) else []).
Proof.
  intros H. destruct (forward_device_data_spec_i _ _ _ _ _ _ H) as (o & G & o' & notifs & tail & D & K).
  destruct D as (_ & _ & _ & D4 & D5 & D6). exists o, o'. split; [exact G|].
  split; [rewrite D4; eapply slab_get_put_occ; exact G|].
  assert (Esk : log_fwds (skipn (length (WindowFrame.out_of st (o_link o))) (WindowFrame.out_of st' (o_link o))) = log_fwds notifs).
  { rewrite D5, N.eqb_refl, skipn_length_app. now apply qol_tail. }
  rewrite Esk. destruct K as [[-> F0] | (fw & Q & E)].
  - split; [reflexivity|]. split; [intros c Hc; rewrite D4; apply slab_get_put_other; congruence|].
    intros j. rewrite (fwd0_qol _ F0). destruct (j =? dr_idx rq); now rewrite app_nil_r.
  - apply number_forwards_spec in E as (_ & L & _ & new & E1 & E2). split; [exact L|].
    split; [intros c Hc; rewrite D4; apply slab_get_put_other; congruence|].
    intros j. rewrite E1, wnd_offs_app. f_equal. eapply numbered_wnd; eassumption.
Qed.

(* ------------------------------------------------------------------ the events of one sweep *)
Lemma fdd_ghost_key st id rq st' cs id0 k f j a :
  In (id0, (k, f, j), a) (fdd_ghost st id rq st' cs) ->
  dr_group rq = None /\ exists o, slab_get (r_obufs st) id = Some o /\ k = o_link o /\ f = dr_filter rq /\ j = dr_idx rq.
Proof.
  unfold fdd_ghost. destruct (dr_group rq); [intros []|]. destruct (slab_get (r_obufs st) id) as [o|]; [|intros []].
  intros Hin. split; [reflexivity|]. exists o. split; [reflexivity|].
  assert (X : In (id0, (k, f, j), a)
     ((match nget (r_datalog st) (dr_idx rq) with
       | Some d => if stale (d_log d) (dr_cursor rq)
                   then [(id, (o_link o, dr_filter rq, dr_idx rq), KJump (snd (dr_cursor rq)) (base_of (d_log d)))] else []
       | None => [] end) ++
      map (fun x : N * publish => (id, (o_link o, dr_filter rq, dr_idx rq), KFwd (fst x) (snd x)))
          (log_fwds (skipn (length (WindowFrame.out_of st (o_link o))) (WindowFrame.out_of st' (o_link o)))))).
  { destruct cs; try exact Hin; destruct Hin. }
  apply in_app_or in X as [X | X].
  - destruct (nget (r_datalog st) (dr_idx rq)) as [d|]; [|destruct X]. destruct (stale (d_log d) (dr_cursor rq)); [|destruct X].
    destruct X as [E | []]. inversion E; subst. auto.
  - apply in_map_iff in X as (x & E & _). inversion E; subst. auto.
Qed.

Lemma qo_map_fwd L i id f (l : list (N * publish)) :
  qo L i (map (fun x : N * publish => (id, (L, f, i), KFwd (fst x) (snd x))) l) = qol l.
Proof.
  induction l as [|x l IH]; [reflexivity|]. cbn [map]. unfold qo, qol. cbn [flat_map].
  fold (qol l). fold (qo L i (map (fun x : N * publish => (id, (L, f, i), KFwd (fst x) (snd x))) l)).
  rewrite IH, !N.eqb_refl. reflexivity.
Qed.

(** a refused sweep changes nothing *)
Lemma fdd_full_same st id rq st' rq' :
  forward_device_data st id rq = Ok (st', rq', SInflightFull) -> st' = st.
Proof.
  rewrite fdd_alt_eq. unfold fdd_alt, get_obuf. intros H.
  destruct (slab_get (r_obufs st) id) as [o|]; [|discriminate]. cbn [bind] in H.
  destruct (slab_get (r_conns st) id) as [conn|]; [|discriminate]. cbn [bind] in H. cbv zeta in H.
  apply bind_ok in H as (slots0 & _ & H).
  match type of H with (if ?b then _ else _) = _ => destruct b end; [now inv_ok|].
  apply bind_ok in H as ([[[st1 rq1] retained] slots2] & HR & H).
  apply bind_ok in H as (d & _ & H). apply bind_ok in H as ([pos from_log] & _ & H).
  destruct (match pos with Next s e => (s, e, false) | Done s e => (s, e, true) end) as [[start next] caughtup].
  match type of H with (if ?b then _ else _) = _ => destruct b end.
  { destruct (caughtup && _); inv_ok; discriminate. }
  match type of H with (match ?l with [] => _ | _ => _ end) = _ => destruct l end; [inv_ok; discriminate|].
  exfalso. unfold fdd_push in H. destruct (2 <? _); [discriminate|].
  destruct (alias_forwards _ _ _ _) as [bal forwards].
  match type of H with (let '(_, _) := ?x in _) = _ => destruct x as [o1 notifs] end.
  apply bind_ok in H as ([st4 len] & _ & H). apply bind_ok in H as (st5 & _ & H).
  destruct (_ <=? _); [apply bind_ok in H as ([st6 n6] & _ & H)|]; inv_ok; try discriminate. destruct caughtup; discriminate.
Qed.

(* ------------------------------------------------------------------ the window invariant *)
Section Win.
Variables L i : N.

Definition WI (st : rstate) (tr : list dev) : Prop :=
  forall c o, slab_get (r_obufs st) c = Some o -> o_link o = L ->
  exists l1, qo L i tr = l1 ++ wnd_offs (o_inflight o) i.

Lemma wi_frame st st' tr evs : wsufn st st' -> qo L i evs = [] -> WI st tr -> WI st' (tr ++ evs).
Proof.
  intros HS He HW c o' Ho Hl. rewrite qo_app, He, app_nil_r.
  destruct (HS _ _ Ho) as [E | (o & Ho0 & [E1 (l & E2)])].
  - rewrite E. exists (qo L i tr). now rewrite app_nil_r.
  - destruct (HW _ _ Ho0 ltac:(congruence)) as (l1 & E). exists (l1 ++ wnd_offs l i).
    rewrite E, E2, wnd_offs_app, app_assoc. reflexivity.
Qed.

(** the swept connection holds no shared request on log i, unless it is not the connection of link L *)
Definition SweepOk (st : rstate) (id : N) (rq : drequest) : Prop :=
  (dr_idx rq = i -> dr_group rq = None) \/ (forall o, slab_get (r_obufs st) id = Some o -> o_link o <> L).

Lemma fdd_wi st id rq st' rq' cs tr :
  LinkInv st -> WI st tr -> SweepOk st id rq ->
  forward_device_data st id rq = Ok (st', rq', cs) -> WI st' (tr ++ fdd_ghost st id rq st' cs).
Proof.
  intros HL HW HS H. destruct (fdd_window _ _ _ _ _ _ H) as (o & o' & Ho & Ho' & El & Hoth & Hw).
  intros c o2 Ho2 Hl2. rewrite qo_app. destruct (N.eq_dec c id) as [-> | Hne].
  - rewrite Ho' in Ho2. inversion Ho2; subst o2. destruct (HW _ _ Ho ltac:(congruence)) as (l1 & E).
    exists l1. rewrite E, Hw, <- app_assoc. f_equal. f_equal.
    destruct (N.eqb_spec i (dr_idx rq)) as [Ei | Hni].
    + destruct HS as [HS | HS]; [|exfalso; apply (HS _ Ho); congruence]. specialize (HS (eq_sym Ei)).
      destruct cs.
      all: try solve [apply fdd_full_same in H; subst st'; unfold fdd_ghost; rewrite HS, Ho; cbv beta iota;
        rewrite <- (app_nil_r (WindowFrame.out_of st (o_link o))) at 2; rewrite skipn_length_app; reflexivity].
      all: unfold fdd_ghost; rewrite HS, Ho; cbv beta iota zeta; rewrite qo_app, <- Ei, <- El, Hl2, qo_map_fwd;
        (replace (qo L i _) with (@nil N); [reflexivity|]);
        destruct (nget (r_datalog st) i) as [d|]; [|reflexivity]; destruct (stale (d_log d) (dr_cursor rq)); reflexivity.
    + apply qo_other_idx. intros id0 k f j a Hin. apply fdd_ghost_key in Hin as (_ & o0 & _ & _ & _ & ->). congruence.
  - rewrite (Hoth _ Hne) in Ho2. destruct (HW _ _ Ho2 Hl2) as (l1 & E). exists l1. rewrite E.
    rewrite (qo_other_link L i (fdd_ghost st id rq st' cs)); [now rewrite app_nil_r|].
    intros id0 k f j a Hin. apply fdd_ghost_key in Hin as (_ & o0 & Ho0 & -> & _). rewrite Ho in Ho0. inversion Ho0; subst o0.
    intros E2. apply Hne. eapply (proj2 HL); [exact Ho2|exact Ho|congruence].
Qed.

Lemma sweepok_step st st1 id rq rq' :
  obs_at id st st1 -> dr_idx rq' = dr_idx rq -> dr_group rq' = dr_group rq -> SweepOk st id rq -> SweepOk st1 id rq'.
Proof.
  intros [_ A] Ei Eg [H | H]; [left; now rewrite Ei, Eg|right].
  intros o1 Ho1. destruct (A _ Ho1) as (o & Ho & S). apply ostep_link in S as [S _]. rewrite S. now apply H.
Qed.

Lemma consume_loop_wi id : forall fuel st requests skipped st' evs tr,
  LinkInv st -> WI st tr -> Forall (SweepOk st id) requests ->
  consume_loop_d fuel st id requests skipped = Ok (st', evs) -> WI st' (tr ++ evs).
Proof.
  induction fuel as [|fuel IH]; cbn [consume_loop_d]; intros st requests skipped st' evs tr HL HW HS H.
  - apply bind_ok in H as (s & H1 & H). inv_ok. apply (wi_frame st); [|reflexivity|exact HW].
    apply wsuf_wsufn, wsuf_eq, keep_obufs. eapply trackv_keep; exact H1.
  - destruct requests as [|rq rest].
    + apply bind_ok in H as (st1 & H1 & H). apply bind_ok in H as (s & H2 & H). inv_ok.
      apply (wi_frame st); [|reflexivity|exact HW]. apply wsuf_wsufn, wsuf_eq.
      rewrite (keep_obufs _ _ (trackv_keep _ _ _ _ H2)). destruct skipped; [|now inv_ok]. apply keep_obufs. eapply pause_keep; exact H1.
    + inversion HS as [|? ? Hrq Hrest]; subst.
      apply bind_ok in H as ([[st1 rq'] status] & H1 & H).
      pose proof (fdd_wi _ _ _ _ _ _ _ HL HW Hrq H1) as HW1.
      destruct (fdd_cons_delta _ _ _ _ _ _ H1) as (A1 & _ & EL1 & _ & _).
      assert (HL1 : LinkInv st1) by (apply (obs_sub_LinkInv st st1); [eapply obs_at_sub; exact A1|lia|exact HL]).
      destruct (fdd_shape _ _ _ _ _ _ H1) as (Eg & _ & Ei).
      assert (Hrq' : SweepOk st1 id rq') by (eapply sweepok_step; eassumption).
      assert (Hrest1 : Forall (SweepOk st1 id) rest).
      { revert Hrest. apply Forall_impl. intros r Hr. eapply sweepok_step; [exact A1|reflexivity|reflexivity|exact Hr]. }
      assert (Hkeep : forall s2, keep s2 = keep st1 -> Forall (SweepOk s2 id) (rest ++ [rq'])  /\ Forall (SweepOk s2 id) rest /\ LinkInv s2 /\ WI s2 (tr ++ fdd_ghost st id rq st1 status)).
      { intros s2 K. assert (X : forall r, SweepOk st1 id r -> SweepOk s2 id r).
        { intros r [Hr | Hr]; [now left|right]. intros o Ho. rewrite (keep_obufs _ _ K) in Ho. now apply Hr. }
        split; [apply Forall_app; split; [|constructor; [|constructor]]|split; [|split]].
        - revert Hrest1. apply Forall_impl. exact X. - now apply X. - revert Hrest1. apply Forall_impl. exact X.
        - eapply keep_LinkInv; eassumption.
        - rewrite <- (app_nil_r (tr ++ _)). apply (wi_frame st1); [apply wsuf_wsufn, wsuf_eq; now apply keep_obufs|reflexivity|exact HW1]. }
      assert (Hfin : forall r st2 s l, pause st1 id r = Ok st2 -> trackv st2 id l = Ok s -> WI s (tr ++ fdd_ghost st id rq st1 status)).
      { intros r st2 s l H2 H3. rewrite <- (app_nil_r (tr ++ _)). apply (wi_frame st1); [|reflexivity|exact HW1].
        apply wsuf_wsufn, wsuf_eq. rewrite (keep_obufs _ _ (trackv_keep _ _ _ _ H3)). apply keep_obufs. eapply pause_keep; exact H2. }
      destruct status.
      * apply bind_ok in H as (st2 & H2 & H). apply bind_ok in H as (s & H3 & H). inv_ok. eapply Hfin; eassumption.
      * apply bind_ok in H as (st2 & H2 & H). apply bind_ok in H as (s & H3 & H). inv_ok. eapply Hfin; eassumption.
      * apply bind_ok in H as (st2 & H2 & H). apply bind_ok in H as ([s evs2] & H3 & H). inv_ok.
        destruct (Hkeep st2 (park_keep _ _ _ _ H2)) as (_ & F2 & L2 & W2).
        rewrite app_assoc. eapply IH; [exact L2|exact W2|exact F2|exact H3].
      * apply bind_ok in H as ([s evs2] & H3 & H). inv_ok.
        destruct (Hkeep st1 eq_refl) as (F2 & _ & L2 & W2).
        rewrite app_assoc. eapply IH; [exact L2|exact W2|exact F2|exact H3].
      * apply bind_ok in H as ([s evs2] & H3 & H). inv_ok.
        destruct (Hkeep st1 eq_refl) as (_ & F2 & L2 & W2).
        rewrite app_assoc. eapply IH; [exact L2|exact W2|exact F2|exact H3].
Qed.

(** no connection of link L tracks a shared request reading log i *)
Definition NoShare (st : rstate) : Prop :=
  forall c o t rq, slab_get (r_obufs st) c = Some o -> o_link o = L -> slab_get (r_trackers st) c = Some t ->
                   In rq (tr_reqs t) -> dr_idx rq = i -> dr_group rq = None.

Lemma consume_wi st st' b evs tr :
  LinkInv st -> WI st tr -> NoShare st -> consume_d st = Ok (st', b, evs) -> WI st' (tr ++ evs).
Proof.
  intros HL HW HN H. unfold consume_d in H.
  assert (Hq : forall s, r_obufs s = r_obufs st -> WI s (tr ++ [])).
  { intros s E. apply (wi_frame st); [apply wsuf_wsufn, wsuf_eq; exact E|reflexivity|exact HW]. }
  destruct (r_ready st) as [|id rq]; [inv_ok; now apply Hq|]. cbv zeta in H.
  destruct (slab_get (r_trackers (set_r_ready st rq)) id) as [t|] eqn:Ht; [|inv_ok; now apply Hq].
  match type of H with context [slab_get (r_obufs ?s) id] => set (st2 := s) in * end.
  destruct (slab_get (r_obufs st2) id) as [o|] eqn:Ho; [|inv_ok; now apply Hq].
  apply bind_ok in H as (st3 & H3 & H). apply bind_ok in H as (u & _ & H). apply bind_ok in H as ([st4 evs4] & H4 & H). inv_ok.
  apply ack_device_data_spec in H3 as (l & _ & A2 & A3 & _).
  assert (E3 : r_obufs st3 = r_obufs st) by (rewrite A2; reflexivity).
  assert (HL3 : LinkInv st3).
  { apply (obs_sub_LinkInv st st3); [apply obs_sub_eq; exact E3| |exact HL]. rewrite A3. unfold st2. rsimpl. lia. }
  eapply consume_loop_wi; [exact HL3| |  |exact H4].
  - rewrite <- (app_nil_r tr). apply (wi_frame st); [apply wsuf_wsufn, wsuf_eq; exact E3|reflexivity|exact HW].
  - apply Forall_forall. intros r Hr. destruct (N.eq_dec (o_link o) L) as [El | Hne].
    + left. intros Ei. eapply (HN id o t r); try eassumption.
    + right. intros o0 Ho0. rewrite E3 in Ho0. change (r_obufs st2) with (r_obufs st) in Ho. rewrite Ho in Ho0. now inversion Ho0; subst.
Qed.
End Win.
