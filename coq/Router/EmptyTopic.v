(** [MQTT-4.7.3-1]: a PUBLISH whose topic name is empty and which carries no topic alias is
    refused — nothing is appended to any log, the retained store is untouched, the sender is
    closed.  (Before the repair of routing.rs the publish went into the logs of every filter that
    matches the empty name, e.g. [#].) *)
From Coq Require Import ZArith ZifyBool ZifyN ZifyNat.
From Rumqtt Require Import Router.Model Router.RunDefs Router.WindowFrame Router.Window Router.WindowStep Router.WindowThm Router.WindowDisc Router.WindowExamples.
From Rumqtt Require Router.RetainedBase Router.Will.

Definition alias_of (props : option pprops) : option N :=
  match props with Some pr => pp_alias pr | None => None end.

(** the reason code: a subscription identifier on an inbound PUBLISH is tested first *)
Definition empty_topic_reason (props : option pprops) : N :=
  match props with
  | Some pr => match pp_subids pr with [] => RC_PROTOCOL | _ :: _ => RC_MALFORMED end
  | None => RC_PROTOCOL
  end.

Lemma append_empty_topic st id p props st' res :
  append_to_commitlog st id p props = Ok (st', res) ->
  p_topic p = [] -> alias_of props = None ->
  st' = st /\ res = AppErr (Some (empty_topic_reason props)).
Proof.
  unfold append_to_commitlog, alias_of, empty_topic_reason. intros H Ht Ha.
  apply bind_ok in H as (conn & _ & H). rewrite Ha, Ht in H.
  destruct props as [pr |]; cbn [bind] in H.
  - destruct (pp_subids pr); cbn [negb bind pp_subids] in H; inv_ok; auto.
  - cbn [bind] in H. inv_ok. auto.
Qed.

(** QoS 0 / QoS 1 PUBLISH: the data log (every commit log, the retained store, the filter
    index) is exactly what it was; the batch stops here with the disconnect flag and the reason *)
Theorem empty_topic_rejected st id client p props fl st1 fl1 brk :
  handle_packet st id client (PPublish p props) fl = Ok (st1, fl1, brk) ->
  p_topic p = [] -> alias_of props = None -> p_qos p <> 2 ->
  brk = true /\ f_disconnect fl1 = true /\ f_reason fl1 = Some (empty_topic_reason props) /\
  r_datalog st1 = r_datalog st /\ r_obufs st1 = r_obufs st /\ r_links st1 = r_links st.
Proof.
  intros H Ht Ha Hq. unfold handle_packet in H.
  destruct (p_qos p =? 1).
  - apply bind_ok in H as (st0 & H0 & H). apply bind_ok in H as ([st2 res] & H2 & H).
    destruct (append_empty_topic _ _ _ _ _ _ H2 Ht Ha) as [-> ->]. inv_ok.
    apply commit_ack_spec in H0 as (l & _ & ->). repeat split.
  - replace (p_qos p =? 2) with false in H by lia.
    apply bind_ok in H as ([st2 res] & H2 & H).
    destruct (append_empty_topic _ _ _ _ _ _ H2 Ht Ha) as [-> ->]. inv_ok. repeat split.
Qed.

(** QoS 2: the publish was recorded at PUBLISH time; it is refused when its PUBREL releases it *)
Theorem empty_topic_rejected_qos2 st id client pkid rs fl st1 fl1 brk l p props rec :
  handle_packet st id client (PPubRel pkid rs) fl = Ok (st1, fl1, brk) ->
  slab_get (r_acks st) id = Some l -> a_recorded l = (p, props) :: rec ->
  p_topic p = [] -> alias_of props = None ->
  brk = true /\ f_disconnect fl1 = true /\
  r_datalog st1 = r_datalog st /\ r_obufs st1 = r_obufs st /\ r_links st1 = r_links st.
Proof.
  intros H Hl Hr Ht Ha. unfold handle_packet, get_acks in H. rewrite Hl in H. cbn [bind] in H. rewrite Hr in H.
  apply bind_ok in H as ([st2 res] & H2 & H).
  destruct (append_empty_topic _ _ _ _ _ _ H2 Ht Ha) as [-> ->]. inv_ok. repeat split.
Qed.

(** one DeviceData event: when the batch of [id] reaches such a PUBLISH (QoS 0 / 1), the rest of
    the batch is dropped, [id] is closed with the reason code, and every commit log and the
    retained store are the same after the event as they were when the packet was reached; the
    other connections' slab entries are untouched by the close *)
Theorem empty_topic_closes st id inc b s fls p props st' :
  slab_get (r_ibufs st) id = Some inc -> nthN (r_links st) (i_link inc) = Some b ->
  processed id (i_client inc) (link_put st (i_link inc) (set_lk_in b [])) flags0 (lk_in b) s fls (PPublish p props) ->
  p_topic p = [] -> alias_of props = None -> p_qos p <> 2 ->
  handle_device_payload st id = Ok st' ->
  exists s1 fl1 st3,
    handle_packet s id (i_client inc) (PPublish p props) fls = Ok (s1, fl1, true) /\
    r_datalog s1 = r_datalog s /\ r_datalog st3 = r_datalog s /\
    handle_disconnection st3 id (Some (empty_topic_reason props)) = Ok st' /\
    RetainedBase.dl_logs (r_datalog st') = RetainedBase.dl_logs (r_datalog s) /\
    dl_retained (r_datalog st') = dl_retained (r_datalog s) /\
    slab_get (r_obufs st') id = None /\
    forall id', id' <> id ->
      slab_get (r_conns st') id' = slab_get (r_conns st3) id' /\
      slab_get (r_obufs st') id' = slab_get (r_obufs st3) id' /\
      slab_get (r_trackers st') id' = slab_get (r_trackers st3) id' /\
      slab_get (r_acks st') id' = slab_get (r_acks st3) id' /\
      slab_get (r_ibufs st') id' = slab_get (r_ibufs st3) id'.
Proof.
  intros G Hb P Ht Ha Hq H.
  destruct (processed_eq _ _ _ _ _ _ _ _ P) as (rest & EQ).
  pose proof H as H0. unfold handle_device_payload, link_get in H0. rewrite G, Hb in H0. cbn [bind] in H0.
  rewrite EQ in H0. cbn [handle_packets] in H0.
  apply bind_ok in H0 as ([s1' fl1'] & H1 & _). apply bind_ok in H1 as ([[s1 fl1] brk] & H1 & _).
  destruct (empty_topic_rejected _ _ _ _ _ _ _ _ _ H1 Ht Ha Hq) as (-> & D & Hr & Hd & _).
  destruct (batch_break_closes _ _ _ _ _ _ _ _ _ _ G Hb P H1 D H) as (st3 & _ & _ & Hd3 & HD & Hn & Hoth).
  rewrite Hr in HD. exists s1, fl1, st3.
  split; [exact H1 |]. split; [exact Hd |]. split; [congruence |]. split; [exact HD |].
  destruct (Will.handle_disconnection_keeps _ _ _ _ HD) as (_ & Kr & Kl).
  split; [rewrite Kl; congruence |]. split; [rewrite Kr; congruence |]. split; [exact Hn | exact Hoth].
Qed.

(* ------------------------------------------------------------------ witness *)
(** "s" subscribes to [#] (QoS 1); "p" sends a retained QoS 1 PUBLISH with an empty topic name
    and no alias: "p" gets DISCONNECT 0x82 and is closed, the log of [#] stays empty, nothing is
    retained, nothing reaches "s" *)
Definition empty_pub : packet :=
  PPublish {| p_dup := false; p_qos := 1; p_retain := true; p_topic := []; p_pkid := 7; p_payload := [1] |} None.
Definition exe_ops : list (list oracle * rop) :=
  plain [ ex_conn 115; ex_conn 112;
          OpPush 0 (PSubscribe 1 [([35], 1)] None); OpData 0; OpConsume; OpConsume;
          OpPush 1 empty_pub ].
Definition exe_st : rstate := force (from_init exe_ops).
Definition exe_st1 : rstate := force (run exe_st (plain [OpData 1; OpConsume; OpConsume])).

Example empty_topic_witness :
  from_init exe_ops = Ok exe_st /\ reachable ex_cfg exe_st /\
  in_of exe_st 1 = [empty_pub] /\
  run exe_st (plain [OpData 1; OpConsume; OpConsume]) = Ok exe_st1 /\
  out_of exe_st1 1 = out_of exe_st 1 ++ [NDisconnect RC_PROTOCOL] /\
  out_of exe_st1 0 = out_of exe_st 0 /\
  slab_get (r_obufs exe_st1) 1 = None /\ slab_get (r_obufs exe_st1) 0 <> None /\
  RetainedBase.dl_logs (r_datalog exe_st1) = RetainedBase.dl_logs (r_datalog exe_st) /\
  dl_retained (r_datalog exe_st1) = [].
Proof.
  assert (E : from_init exe_ops = Ok exe_st) by (vm_compute; reflexivity).
  split; [exact E |]. split; [now apply from_init_reachable in E |].
  repeat (split; [vm_compute; reflexivity |]).
  split; [vm_compute; discriminate |].
  split; vm_compute; reflexivity.
Qed.
