(** C14, part 3: the functions that append to filter logs and wake parked requests.
    [iso w st st']: the connection, incoming, outgoing and ack-log entries of [w] are
    unchanged; its tracker keeps its client id; some of its parked requests ([mv], tagged with
    the log they were parked on) have been moved, unchanged, behind the requests it already
    holds (tracker, then [notifications]); its status changed at most from
    [Paused Caughtup] to [Ready], in which case [w] was appended to the ready queue once. *)
From Coq Require Import ZifyBool ZifyN ZifyNat Permutation.
From Rumqtt Require Import Router.Model Router.InvLemmasBase Router.DataLogInv Router.WindowFrame Router.Window
  Router.IsolationFrame.

Definition treqs (st : rstate) (w : N) : list drequest :=
  match slab_get (r_trackers st) w with Some t => tr_reqs t | None => [] end.
Definition tstat (st : rstate) (w : N) : option status := option_map tr_status (slab_get (r_trackers st) w).
Definition tident (st : rstate) (w : N) : option str := option_map tr_id (slab_get (r_trackers st) w).
Definition pend (st : rstate) (w : N) : list drequest := treqs st w ++ wsel w (r_notif st).

Definition sched_rel (w : N) (st st' : rstate) : Prop :=
  (tstat st' w = tstat st w /\ rdy w st' = rdy w st) \/
  (tstat st w = Some (Paused Caughtup) /\ tstat st' w = Some Ready /\ rdy w st' = rdy w st ++ [w]).

Record iso (w : N) (st st' : rstate) : Prop := {
  i_conn : slab_get (r_conns st') w = slab_get (r_conns st) w;
  i_ibuf : slab_get (r_ibufs st') w = slab_get (r_ibufs st) w;
  i_obuf : slab_get (r_obufs st') w = slab_get (r_obufs st) w;
  i_acks : slab_get (r_acks st') w = slab_get (r_acks st) w;
  i_tid : tident st' w = tident st w;
  i_sched : sched_rel w st st';
  i_move : exists mv : list (N * drequest),
      pend st' w = pend st w ++ map snd mv /\
      forall idx, Permutation (waiting st w idx) (waiting st' w idx ++ wsel idx mv);
  i_sub : forall f, sub_mem st' w f = sub_mem st w f
}.

Definition fi (id : N) (st st' : rstate) : Prop := gfr st st' /\ forall w, w <> id -> iso w st st'.

Lemma sched_rel_refl w st : sched_rel w st st.
Proof. left. auto. Qed.
Lemma sched_rel_trans w a b c : sched_rel w a b -> sched_rel w b c -> sched_rel w a c.
Proof.
  intros [[A1 A2] | (A1 & A2 & A3)] [[B1 B2] | (B1 & B2 & B3)].
  - left. split; congruence.
  - right. split; [congruence | split; congruence].
  - right. split; [congruence | split; congruence].
  - congruence.
Qed.

Lemma isoq_iso w st st' : isoq w st st' -> iso w st st'.
Proof.
  intros []. constructor; auto.
  - unfold tident. now rewrite q_trk.
  - left. unfold tstat. now rewrite q_trk.
  - exists []. unfold pend, treqs. rewrite q_trk, q_notif. cbn [map]. rewrite app_nil_r. split; [reflexivity |].
    intros idx. rewrite wsel_nil, app_nil_r. symmetry. apply q_wait.
Qed.
Lemma iso_refl w st : iso w st st.
Proof. apply isoq_iso, isoq_refl. Qed.
Lemma iso_trans w a b c : iso w a b -> iso w b c -> iso w a c.
Proof.
  intros [A1 A2 A3 A4 A5 A6 (m1 & A7 & A8) A9] [B1 B2 B3 B4 B5 B6 (m2 & B7 & B8) B9].
  constructor; try congruence.
  - eapply sched_rel_trans; eauto.
  - exists (m1 ++ m2). split.
    + rewrite B7, A7, map_app, app_assoc. reflexivity.
    + intros idx. rewrite (A8 idx), (B8 idx), wsel_app.
      rewrite <- !app_assoc. apply Permutation_app_head. apply Permutation_app_comm.
Qed.
Lemma fq_fi id st st' : fq id st st' -> fi id st st'.
Proof. intros [G H]. split; [exact G | intros w Hw; apply isoq_iso; auto]. Qed.
Lemma fi_refl id st : fi id st st.
Proof. apply fq_fi, fq_refl. Qed.
Lemma fi_trans id a b c : fi id a b -> fi id b c -> fi id a c.
Proof.
  intros [G1 H1] [G2 H2]. split; [eapply gfr_trans; eauto |]. intros w Hw. eapply iso_trans; eauto.
Qed.
Lemma fi_nf id st st' : fi id st st' -> NF st -> NF st'.
Proof. intros [[_ _ H] _]. exact H. Qed.

(* ------------------------------------------------------------------ appends *)
Lemma wsel_tag idx j (l : list drequest) :
  wsel j (map (fun rq => (idx, rq)) l) = if idx =? j then l else [].
Proof.
  unfold wsel. induction l as [| x l IH]; cbn [map filter fst]; [now destruct (idx =? j) |].
  destruct (idx =? j); cbn [map snd]; now rewrite IH.
Qed.

Lemma waiters_at_put' st st' idx d d' j :
  slab_get (dl_native (r_datalog st)) idx = Some d ->
  r_datalog st' = set_dl_native (r_datalog st) (slab_put (dl_native (r_datalog st)) idx d') ->
  waiters_at st' j = if j =? idx then d_waiters d' else waiters_at st j.
Proof.
  intros G E. rewrite <- (waiters_at_put st idx d d' j G). unfold waiters_at. rewrite E. reflexivity.
Qed.

Lemma data_append_iso st idx item st' :
  data_append st idx item = Ok st' -> gfr st st' /\ forall w, iso w st st'.
Proof.
  unfold data_append, native_get. intros H.
  destruct (slab_get (dl_native (r_datalog st)) idx) as [d |] eqn:G; [| discriminate]. cbn [bind] in H.
  apply bind_ok in H as ([l' off] & _ & H). inv_ok. split.
  - constructor; unfold client_at, NF; rs; auto.
  - intros w. constructor; rs; try reflexivity.
    + left. split; reflexivity.
    + exists (map (fun rq => (idx, rq)) (wsel w (d_waiters d))). split.
      * unfold pend, treqs. rs. rewrite wsel_app, app_assoc. f_equal.
        rewrite map_map. cbn [snd]. now rewrite map_id.
      * intros j. rewrite wsel_tag. unfold waiting.
        match goal with |- context [waiters_at (set_r_notif ?a ?b) j] =>
          rewrite (waiters_at_put' st (set_r_notif a b) idx d _ j G eq_refl) end. cbn [d_waiters].
        destruct (N.eqb_spec j idx) as [-> | Hne].
        -- rewrite N.eqb_refl. unfold waiters_at. rewrite G. reflexivity.
        -- replace (idx =? j) with false by lia. now rewrite app_nil_r.
Qed.

Lemma append_all_iso idxs : forall st item st',
  append_all st idxs item = Ok st' -> gfr st st' /\ forall w, iso w st st'.
Proof.
  induction idxs as [| i r IH]; intros st item st' H; cbn [append_all] in H.
  - inv_ok. split; [apply gfr_refl | intros; apply iso_refl].
  - apply bind_ok in H as (st1 & H1 & H2). apply data_append_iso in H1 as [G1 I1]. apply IH in H2 as [G2 I2].
    split; [eapply gfr_trans; eauto | intros w; eapply iso_trans; eauto].
Qed.

Lemma fi_all id st st' : gfr st st' -> (forall w, iso w st st') -> fi id st st'.
Proof. intros G H. split; auto. Qed.

Lemma append_to_commitlog_fi st id p props st' res :
  append_to_commitlog st id p props = Ok (st', res) -> fi id st st'.
Proof.
  unfold append_to_commitlog, get_conn. intros H.
  destruct (slab_get (r_conns st) id) as [conn |] eqn:G; [| discriminate]. cbn [bind] in H. cbv zeta in H.
  match type of H with (if ?b then _ else _) = _ => destruct b end; [inv_ok; apply fi_refl |].
  apply bind_ok in H as (st_p & HA & H).
  destruct st_p as [[st1 p1] | reason]; [| inv_ok; apply fi_refl].
  assert (A1 : fq id st st1).
  { destruct (match props with Some pr => pp_alias pr | None => None end) as [a |]; [| destruct (p_topic p); inv_ok; apply fq_refl].
    destruct ((a =? 0) || (TOPIC_ALIAS_MAX <? a)); [discriminate |].
    destruct (p_topic p) as [| t0 tr].
    - destruct (al_get N.eqb a (c_aliases conn)); inv_ok. apply fq_refl.
    - destruct (utf8_valid (t0 :: tr)); inv_ok. eapply fq_put_conn; [exact G | reflexivity]. }
  destruct (negb (utf8_valid (p_topic p1))); [inv_ok; now apply fq_fi |].
  apply bind_ok in H as ([st3 idxs] & H3 & H). apply bind_ok in H as (st4 & H4 & H). inv_ok.
  apply (dl_matches_fq id) in H3. apply append_all_iso in H4 as [G4 I4].
  eapply fi_trans; [apply fq_fi; exact A1 |].
  eapply fi_trans; [apply fq_fi; apply retain_update_fq |].
  eapply fi_trans; [apply fq_fi; exact H3 |]. now apply fi_all.
Qed.

(* ------------------------------------------------------------------ wake-up *)
(** [wk w st st' added]: the effect on connection [w] of waking requests, [added] being those
    of [w]; nothing but trackers and the ready queue changes *)
Record wk (w : N) (st st' : rstate) (added : list drequest) : Prop := {
  w_core : (r_cmap st', r_conns st', r_ibufs st', r_obufs st', r_acks st', r_notif st', r_datalog st', r_submap st') =
           (r_cmap st, r_conns st, r_ibufs st, r_obufs st, r_acks st, r_notif st, r_datalog st, r_submap st);
  w_tid : tident st' w = tident st w;
  w_sched : sched_rel w st st';
  w_reqs : treqs st' w = treqs st w ++ added
}.

Lemma wk_refl w st : wk w st st [].
Proof. constructor; auto using sched_rel_refl. now rewrite app_nil_r. Qed.
Lemma wk_trans w a b c x y : wk w a b x -> wk w b c y -> wk w a c (x ++ y).
Proof.
  intros [A1 A2 A3 A4] [B1 B2 B3 B4]. constructor; try congruence.
  - eapply sched_rel_trans; eauto.
  - rewrite B4, A4, app_assoc. reflexivity.
Qed.

Lemma wk_put_other w st id t : id <> w -> wk w st (put_tracker st id t) [].
Proof.
  intros Hne. constructor; unfold sched_rel; unfold tident, tstat, treqs, rdy; rs;
    rewrite ?slab_get_put_other by exact Hne; auto. now rewrite app_nil_r.
Qed.

Lemma wake_one w st id rq st1 st2 :
  track st id rq = Ok st1 -> reschedule st1 id SFreshData = Ok st2 ->
  wk w st st2 (if id =? w then [rq] else []).
Proof.
  intros H1 H2. destruct (N.eqb_spec id w) as [-> | Hne].
  - unfold track, get_tracker in H1. destruct (slab_get (r_trackers st) w) as [t |] eqn:G; [| discriminate].
    cbn [bind] in H1. inv_ok.
    unfold reschedule, get_tracker in H2. rs. rewrite (slab_get_put_occ _ _ _ _ G) in H2. cbn [bind] in H2.
    apply bind_ok in H2 as ([t' woke] & HT & H2). inv_ok.
    assert (ET : tr_id t' = tr_id t /\ tr_reqs t' = tr_reqs t ++ [rq] /\
                 ((woke = false /\ tr_status t' = tr_status t) \/
                  (woke = true /\ tr_status t = Paused Caughtup /\ tr_status t' = Ready))).
    { unfold try_ready in HT. cbn [tr_status set_tr_reqs] in HT.
      destruct (tr_status t) as [| [ | | ]] eqn:ES; inv_ok; cbn [tr_id tr_reqs tr_status set_tr_status set_tr_reqs];
        (split; [reflexivity | split; [reflexivity |]]); auto. }
    destruct ET as (E1 & E2 & E3).
    assert (GT : slab_get (slab_put (slab_put (r_trackers st) w (set_tr_reqs t (tr_reqs t ++ [rq]))) w t') w = Some t').
    { eapply slab_get_put_occ. eapply slab_get_put_occ. exact G. }
    assert (S0 : tstat st w = Some (tr_status t)) by (unfold tstat; now rewrite G).
    assert (T0 : treqs st w = tr_reqs t) by (unfold treqs; now rewrite G).
    assert (I0 : tident st w = Some (tr_id t)) by (unfold tident; now rewrite G).
    destruct E3 as [(-> & E3) | (-> & E3 & E4)].
    + assert (S1 : tstat (put_tracker (put_tracker st w (set_tr_reqs t (tr_reqs t ++ [rq]))) w t') w = Some (tr_status t'))
        by (unfold tstat; rs; now rewrite GT).
      constructor.
      * reflexivity.
      * unfold tident. rs. rewrite GT, G. cbn [option_map]. now rewrite E1.
      * left. rewrite S1, S0, E3. split; reflexivity.
      * unfold treqs at 1. rs. rewrite GT, T0. exact E2.
    + assert (S1 : tstat (set_r_ready (put_tracker (put_tracker st w (set_tr_reqs t (tr_reqs t ++ [rq]))) w t') (r_ready st ++ [w])) w = Some (tr_status t'))
        by (unfold tstat; rs; now rewrite GT).
      constructor.
      * reflexivity.
      * unfold tident. rs. rewrite GT, G. cbn [option_map]. now rewrite E1.
      * right. rewrite S1, S0, E3, E4. split; [reflexivity | split; [reflexivity |]].
        unfold rdy. rs. rewrite filter_app. cbn [filter]. now rewrite N.eqb_refl.
      * unfold treqs at 1. rs. rewrite GT, T0. exact E2.
  - unfold track, get_tracker in H1. break_all H1; inv_ok.
    unfold reschedule, get_tracker in H2. break_all H2; inv_ok.
    + constructor.
      * reflexivity.
      * unfold tident. rs. now rewrite !slab_get_put_other by exact Hne.
      * left. unfold tstat, rdy. rs. rewrite !slab_get_put_other by exact Hne. split; [reflexivity |].
        rewrite filter_app. cbn [filter]. replace (w =? id) with false by lia. apply app_nil_r.
      * unfold treqs. rs. rewrite !slab_get_put_other by exact Hne. now rewrite app_nil_r.
    + constructor.
      * reflexivity.
      * unfold tident. rs. now rewrite !slab_get_put_other by exact Hne.
      * left. unfold tstat, rdy. rs. rewrite !slab_get_put_other by exact Hne. split; reflexivity.
      * unfold treqs. rs. rewrite !slab_get_put_other by exact Hne. now rewrite app_nil_r.
Qed.

Lemma wake_all_wk w ns : forall st st', wake_all st ns = Ok st' -> wk w st st' (wsel w ns).
Proof.
  induction ns as [| [id rq] r IH]; intros st st' H; cbn [wake_all] in H.
  - inv_ok. apply wk_refl.
  - apply bind_ok in H as (st1 & H1 & H). apply bind_ok in H as (st2 & H2 & H).
    pose proof (wake_one w _ _ _ _ _ H1 H2) as A. apply IH in H.
    replace (wsel w ((id, rq) :: r)) with ((if id =? w then [rq] else []) ++ wsel w r).
    + eapply wk_trans; eauto.
    + destruct (N.eqb_spec id w) as [-> | Hne]; [now rewrite wsel_cons_same | now rewrite wsel_cons_other].
Qed.

Lemma wk_gfr w st st' added : wk w st st' added -> gfr st st'.
Proof. intros [E _ _ _]. inversion E. now apply gfr_same. Qed.

Lemma drain_notifications_iso st st' :
  drain_notifications st = Ok st' -> gfr st st' /\ (forall w, iso w st st') /\ r_notif st' = [].
Proof.
  unfold drain_notifications. intros H.
  assert (G : gfr st st').
  { apply (wake_all_wk 0) in H. apply wk_gfr in H. eapply gfr_trans; [| exact H]. now apply gfr_same. }
  split; [exact G |]. split.
  - intros w. apply (wake_all_wk w) in H. destruct H as [E T S Q]. rs. inversion E as [[E1 E2 E3 E4 E5 E6 E7 E8]].
    constructor; try congruence.
    + exact T.
    + exact S.
    + exists []. cbn [map]. rewrite app_nil_r. split.
      * unfold pend. rewrite Q, E6. now rewrite wsel_nil, app_nil_r.
      * intros idx. rewrite wsel_nil, app_nil_r. unfold waiting, waiters_at. rewrite E7. reflexivity.
    + intros f. unfold sub_mem. now rewrite E8.
  - apply (wake_all_wk 0) in H. destruct H as [E _ _ _]. rs. now inversion E.
Qed.


(* ------------------------------------------------------------------ the packet handlers *)
Lemma register_ack_key o pkid o' ok : register_ack o pkid = (o', ok) -> o_client o' = o_client o /\ o_link o' = o_link o.
Proof. unfold register_ack. destruct (o_inflight o) as [| [[h x] y] r]; [| destruct (pkid =? h)]; intros H; inversion H; subst; auto. Qed.
Lemma register_pubcomp_key o pkid o' ok : register_pubcomp o pkid = (o', ok) -> o_client o' = o_client o /\ o_link o' = o_link o.
Proof. unfold register_pubcomp. destruct (o_pubrels o) as [| h r]; [| destruct (pkid =? h)]; intros H; inversion H; subst; auto. Qed.
Lemma get_obuf_some st id o : get_obuf st id = Ok o -> slab_get (r_obufs st) id = Some o.
Proof. unfold get_obuf. destruct (slab_get (r_obufs st) id); intros H; inversion H; reflexivity. Qed.
Lemma handle_packet_fi st id client pk fl st' fl' brk :
  handle_packet st id client pk fl = Ok (st', fl', brk) -> NF st -> fi id st st'.
Proof.
  intros H Hnf. destruct pk; unfold handle_packet in H.
  - cbv zeta in H. destruct (p_qos p =? 1).
    + apply bind_ok in H as (st1 & H1 & H). apply commit_ack_fq in H1.
      apply bind_ok in H as ([st2 res] & H2 & H). apply append_to_commitlog_fi in H2.
      eapply fi_trans; [apply fq_fi; exact H1 |]. destruct res; inv_ok; exact H2.
    + destruct (p_qos p =? 2).
      * apply bind_ok in H as (l & _ & H). inv_ok. apply fq_fi, fq_put_acks.
      * apply bind_ok in H as ([st2 res] & H2 & H). apply append_to_commitlog_fi in H2. destruct res; inv_ok; exact H2.
  - apply bind_ok in H as ([[st1 fl1] codes] & H1 & H). apply bind_ok in H as (st2 & H2 & H). inv_ok.
    apply subscribe_filters_fq in H1; [| exact Hnf]. apply commit_ack_fq in H2.
    apply fq_fi. eapply fq_trans; eauto.
  - apply bind_ok in H as (c0 & _ & H). apply bind_ok in H as ([st1 reasons] & H1 & H).
    apply bind_ok in H as (st2 & H2 & H). inv_ok.
    apply unsubscribe_filters_fq in H1. apply commit_ack_fq in H2. apply fq_fi. eapply fq_trans; eauto.
  - apply bind_ok in H as (o & Go & H). apply get_obuf_some in Go.
    destruct (register_ack o pkid) as [o' ok] eqn:ER. apply register_ack_key in ER as [K1 K2]. destruct ok.
    + apply bind_ok in H as (st2 & H2 & H). inv_ok. apply reschedule_fq in H2.
      apply fq_fi. eapply fq_trans; [apply (fq_put_obuf id st o o' Go K1 K2) | exact H2].
    + inv_ok. apply fq_fi. apply (fq_put_obuf id st o o' Go K1 K2).
  - apply bind_ok in H as (o & Go & H). apply get_obuf_some in Go.
    destruct (register_ack o pkid) as [o' ok] eqn:ER. apply register_ack_key in ER as [K1 K2]. destruct ok.
    + apply bind_ok in H as (l & _ & H). apply bind_ok in H as (st2 & H2 & H). apply bind_ok in H as (st3 & H3 & H).
      inv_ok. apply commit_ack_fq in H2. apply reschedule_fq in H3. apply fq_fi.
      eapply fq_trans; [apply (fq_put_obuf id st o (set_o_pubrels o' (o_pubrels o' ++ [pkid])) Go K1 K2) |].
      eapply fq_trans; eauto.
    + inv_ok. apply fq_fi. apply (fq_put_obuf id st o o' Go K1 K2).
  - apply bind_ok in H as (l & _ & H). destruct (a_recorded l) as [| [p props] rec].
    + inv_ok. apply fq_fi, fq_put_acks.
    + apply bind_ok in H as ([st2 res] & H2 & H). apply append_to_commitlog_fi in H2.
      eapply fi_trans; [apply fq_fi, fq_put_acks |]. eapply fi_trans; [exact H2 |].
      destruct res; [| inv_ok; apply fi_refl].
      apply bind_ok in H as (st3 & H3 & H). inv_ok. apply fq_fi. eapply reschedule_fq; eauto.
  - apply bind_ok in H as (o & Go & H). apply get_obuf_some in Go.
    destruct (register_pubcomp o pkid) as [o' ok] eqn:ER. apply register_pubcomp_key in ER as [K1 K2].
    destruct ok; inv_ok; apply fq_fi; apply (fq_put_obuf id st o o' Go K1 K2).
  - apply bind_ok in H as (st1 & H1 & H). inv_ok. apply fq_fi. eapply commit_ack_fq; eauto.
  - inv_ok. apply fq_fi, fq_core. reflexivity.
  - inv_ok. apply fi_refl.
Qed.

Lemma handle_packets_fi pks : forall st id client fl st' fl',
  handle_packets st id client pks fl = Ok (st', fl') -> NF st -> fi id st st'.
Proof.
  induction pks as [| pk r IH]; intros st id client fl st' fl' H Hnf; cbn [handle_packets] in H.
  - inv_ok. apply fi_refl.
  - apply bind_ok in H as ([[st1 fl1] brk] & H1 & H). apply handle_packet_fi in H1; [| exact Hnf].
    destruct brk; [now inv_ok |]. eapply fi_trans; [exact H1 |]. eapply IH; [exact H |]. eapply fi_nf; eauto.
Qed.

(** decomposition of a [DeviceData] event: everything up to the optional disconnection *)
Lemma handle_device_payload_mid st id st' :
  handle_device_payload st id = Ok st' -> NF st ->
  st' = st \/
  exists st3 fl,
    fi id st st3 /\
    (if f_disconnect fl then handle_disconnection st3 id (f_reason fl) = Ok st' else st' = st3).
Proof.
  unfold handle_device_payload, link_get. intros H Hnf.
  destruct (slab_get (r_ibufs st) id) as [inc |]; [| inv_ok; now left].
  destruct (nthN (r_links st) (i_link inc)) as [b |] eqn:Hb; [| discriminate]. cbn [bind] in H.
  apply bind_ok in H as ([st1 fl] & H1 & H). apply bind_ok in H as (st2 & H2 & H).
  apply bind_ok in H as (st3 & H3 & H).
  right. exists st3, fl. split.
  - apply handle_packets_fi in H1; [| exact Hnf].
    eapply (fi_trans id st (link_put st (i_link inc) (set_lk_in b []))); [apply fq_fi, fq_core; reflexivity |].
    eapply fi_trans; [exact H1 |].
    eapply fi_trans.
    + destruct (f_force_ack fl); [apply fq_fi; eapply reschedule_fq; eauto | inv_ok; apply fi_refl].
    + destruct (f_new_data fl); [| inv_ok; apply fi_refl].
      apply drain_notifications_iso in H3 as (G3 & I3 & _). now apply fi_all.
  - destruct (f_disconnect fl); [exact H | now inv_ok].
Qed.

Lemma handle_device_payload_iso st id st' :
  handle_device_payload st id = Ok st' -> NF st -> forall w, w <> id -> iso w st st'.
Proof.
  intros H Hnf w Hw. apply handle_device_payload_mid in H as [-> | (st3 & fl & [G I] & H)]; [apply iso_refl | | exact Hnf].
  destruct (f_disconnect fl); [| subst; auto].
  apply handle_disconnection_iso in H as (Q & _). eapply iso_trans; [apply I; exact Hw | apply isoq_iso, Q; exact Hw].
Qed.

Lemma handle_last_will_iso st client st' :
  handle_last_will st client = Ok st' -> gfr st st' /\ forall w, iso w st st'.
Proof.
  unfold handle_last_will. intros H.
  destruct (al_get str_eqb client (r_wills st)) as [wl |]; [| inv_ok; split; [apply gfr_refl | intros; apply iso_refl]].
  cbv zeta in H.
  match type of H with context [retain_update ?s _ _ _] => set (st1 := s) in * end.
  assert (A1 : fi 0 st st1) by (apply fq_fi, fq_core; reflexivity).
  assert (ALL : forall a b, fi 0 a b -> fi 1 a b -> gfr a b /\ forall w, iso w a b).
  { intros a b [G0 I0] [_ I1]. split; [exact G0 |]. intros w. destruct (N.eq_dec w 0) as [-> | Hne]; [apply I1; lia | now apply I0]. }
  assert (A1' : fi 1 st st1) by (apply fq_fi, fq_core; reflexivity).
  destruct (negb (utf8_valid _)) in H; [inv_ok; now apply ALL |].
  match type of H with (if ?b then _ else _) = _ => destruct b end; [inv_ok; now apply ALL |].
  apply bind_ok in H as ([st3 idxs] & H3 & H). apply bind_ok in H as (st4 & H4 & H).
  apply append_all_iso in H4 as [G4 I4]. apply drain_notifications_iso in H as (G5 & I5 & _).
  pose proof (dl_matches_fq 0 _ _ _ _ H3) as D0. pose proof (dl_matches_fq 1 _ _ _ _ H3) as D1.
  apply ALL.
  - eapply fi_trans; [exact A1 |]. eapply fi_trans; [apply fq_fi, retain_update_fq |].
    eapply fi_trans; [apply fq_fi; exact D0 |]. eapply fi_trans; [apply (fi_all 0 _ _ G4 I4) | apply (fi_all 0 _ _ G5 I5)].
  - eapply fi_trans; [exact A1' |]. eapply fi_trans; [apply fq_fi, retain_update_fq |].
    eapply fi_trans; [apply fq_fi; exact D1 |]. eapply fi_trans; [apply (fi_all 1 _ _ G4 I4) | apply (fi_all 1 _ _ G5 I5)].
Qed.

(* ------------------------------------------------------------------ batches that append nothing *)
(** every packet except PUBLISH and PUBREL (the two that reach [append_to_commitlog]) *)
Definition quiet_packet (pk : packet) : Prop :=
  match pk with PPublish _ _ | PPubRel _ _ => False | _ => True end.

Lemma handle_packet_quiet st id client pk fl st' fl' brk :
  quiet_packet pk -> handle_packet st id client pk fl = Ok (st', fl', brk) -> NF st ->
  fq id st st' /\ f_new_data fl' = f_new_data fl.
Proof.
  intros Hq H Hnf. destruct pk; unfold handle_packet in H; try contradiction.
  - apply bind_ok in H as ([[st1 fl1] codes] & H1 & H). apply bind_ok in H as (st2 & H2 & H). inv_ok.
    split.
    + apply subscribe_filters_fq in H1; [| exact Hnf]. apply commit_ack_fq in H2. eapply fq_trans; eauto.
    + cbn [fl_ack f_new_data]. clear H2 Hnf. revert st fl st1 fl1 codes H1. generalize (@nil N).
      induction filters as [| [path qos] r IH]; intros codes0 st fl st1 fl1 codes H; cbn [subscribe_filters] in H.
      * now inv_ok.
      * destruct (negb (validate_subscription path)); [inv_ok; reflexivity |].
        destruct (match extract_group path with Some (g, p) => (Some g, p) | None => (None, path) end) as [grp filter].
        destruct (match subid with Some 0 => true | _ => false end); [inv_ok; reflexivity |].
        apply bind_ok in H as ([[sa idx] cu] & Ha & H). apply bind_ok in H as (sb & Hb & H). eapply IH; eauto.
  - apply bind_ok in H as (c0 & _ & H). apply bind_ok in H as ([st1 reasons] & H1 & H).
    apply bind_ok in H as (st2 & H2 & H). inv_ok. split; [| reflexivity].
    apply unsubscribe_filters_fq in H1. apply commit_ack_fq in H2. eapply fq_trans; eauto.
  - apply bind_ok in H as (o & Go & H). apply get_obuf_some in Go.
    destruct (register_ack o pkid) as [o' ok] eqn:ER. apply register_ack_key in ER as [K1 K2]. destruct ok.
    + apply bind_ok in H as (st2 & H2 & H). inv_ok. apply reschedule_fq in H2. split; [| reflexivity].
      eapply fq_trans; [apply (fq_put_obuf id st o o' Go K1 K2) | exact H2].
    + inv_ok. split; [| reflexivity]. apply (fq_put_obuf id st o o' Go K1 K2).
  - apply bind_ok in H as (o & Go & H). apply get_obuf_some in Go.
    destruct (register_ack o pkid) as [o' ok] eqn:ER. apply register_ack_key in ER as [K1 K2]. destruct ok.
    + apply bind_ok in H as (l & _ & H). apply bind_ok in H as (st2 & H2 & H). apply bind_ok in H as (st3 & H3 & H).
      inv_ok. apply commit_ack_fq in H2. apply reschedule_fq in H3. split; [| reflexivity].
      eapply fq_trans; [apply (fq_put_obuf id st o (set_o_pubrels o' (o_pubrels o' ++ [pkid])) Go K1 K2) |].
      eapply fq_trans; eauto.
    + inv_ok. split; [| reflexivity]. apply (fq_put_obuf id st o o' Go K1 K2).
  - apply bind_ok in H as (o & Go & H). apply get_obuf_some in Go.
    destruct (register_pubcomp o pkid) as [o' ok] eqn:ER. apply register_pubcomp_key in ER as [K1 K2].
    destruct ok; inv_ok; (split; [| reflexivity]); apply (fq_put_obuf id st o o' Go K1 K2).
  - apply bind_ok in H as (st1 & H1 & H). inv_ok. split; [| reflexivity]. eapply commit_ack_fq; eauto.
  - inv_ok. split; [| reflexivity]. apply fq_core. reflexivity.
  - inv_ok. split; [apply fq_refl | reflexivity].
Qed.

Lemma handle_packets_quiet pks : forall st id client fl st' fl',
  Forall quiet_packet pks -> handle_packets st id client pks fl = Ok (st', fl') -> NF st ->
  fq id st st' /\ f_new_data fl' = f_new_data fl.
Proof.
  induction pks as [| pk r IH]; intros st id client fl st' fl' Hq H Hnf; cbn [handle_packets] in H.
  - inv_ok. split; [apply fq_refl | reflexivity].
  - inversion Hq as [| ? ? Hq1 Hq']; subst.
    apply bind_ok in H as ([[st1 fl1] brk] & H1 & H). apply handle_packet_quiet in H1 as [A1 A2]; [| exact Hq1 | exact Hnf].
    destruct brk; [inv_ok; now split |].
    eapply IH in H as [B1 B2]; [| exact Hq' | eapply fq_nf; eauto].
    split; [eapply fq_trans; eauto | congruence].
Qed.

(** a [DeviceData] event of connection [id] whose batch holds no PUBLISH / PUBREL -- acks of any
    kind (solicited or not), SUBSCRIBE, UNSUBSCRIBE, PINGREQ, DISCONNECT -- whether or not it ends
    in the disconnection of [id] *)
Lemma handle_device_payload_quiet st id st' :
  handle_device_payload st id = Ok st' -> NF st ->
  (forall inc, slab_get (r_ibufs st) id = Some inc -> Forall quiet_packet (in_of st (i_link inc))) ->
  forall w, w <> id -> isoq w st st'.
Proof.
  unfold handle_device_payload, link_get. intros H Hnf Hq w Hw.
  destruct (slab_get (r_ibufs st) id) as [inc |]; [| inv_ok; apply isoq_refl]. specialize (Hq inc eq_refl).
  unfold in_of in Hq.
  destruct (nthN (r_links st) (i_link inc)) as [b |] eqn:Hb; [| discriminate]. cbn [bind] in H.
  apply bind_ok in H as ([st1 fl] & H1 & H). apply bind_ok in H as (st2 & H2 & H).
  apply bind_ok in H as (st3 & H3 & H).
  apply handle_packets_quiet in H1 as [A1 A2]; [| exact Hq | exact Hnf]. cbn [flags0 f_new_data] in A2.
  rewrite A2 in H3. inv_ok.
  assert (A3 : fq id st st3).
  { eapply (fq_trans id st (link_put st (i_link inc) (set_lk_in b []))); [apply fq_core; reflexivity |].
    eapply fq_trans; [exact A1 |].
    destruct (f_force_ack fl); [eapply reschedule_fq; eauto | inv_ok; apply fq_refl]. }
  destruct A3 as [_ A3]. specialize (A3 w Hw).
  destruct (f_disconnect fl); [| now inv_ok].
  apply handle_disconnection_iso in H as (Q & _). eapply isoq_trans; [exact A3 | apply Q; exact Hw].
Qed.
