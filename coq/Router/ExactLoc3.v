(** C01, request location, part 3 (mirrors NoPanicDev.v for [DevE]): new connection, wills,
    shadow, every step; the invariant in every reachable state. *)
From Rumqtt Require Import Router.NoPanicLog.
From Rumqtt Require Import Router.Model Router.InvLemmasBase Router.Inv Router.InvLemmasPrim Router.InvLemmasSched
  Router.InvLemmasDl Router.InvLemmasRoute Router.InvLemmasConn Router.InvLemmasPkt Router.InvLemmasConsume
  Router.NoPanic Router.NoPanicDevBase Router.NoPanicDevInv Router.NoPanicDev1 Router.NoPanicDev2 Router.NoPanicDev3 Router.NoPanicDev4.
From Rumqtt Require Import Router.ExactLoc1 Router.ExactLoc2.
From Rumqtt Require Import Router.Model Router.RunDefs.
From Coq Require Import Arith ZifyBool ZifyN ZifyNat.

Lemma okE_zero f : okE 0 f [].
Proof. reflexivity. Qed.

Lemma newconn_core_loc cfg st1 conn link :
  RInvC cfg st1 -> r_notif st1 = [] -> DevEI st1 -> c_subs conn = [] ->
  wpd
    (let client := c_client conn in
      let saved := al_get str_eqb client (r_graveyard st1) in
      let grave := al_remove str_eqb client (r_graveyard st1) in
      let clean := c_clean conn in
      let previous_session := match saved with Some (Some _) => true | _ => false end in
      let '(trk, conn1, pubrels) :=
        if negb clean then
          match saved with
          | Some (Some ss) => (ss_tracker ss, set_c_subs conn (ss_subs ss), ss_pubrels ss)
          | _ => ({| tr_id := client; tr_reqs := []; tr_status := Paused Busy |}, conn, [])
          end
        else ({| tr_id := client; tr_reqs := []; tr_status := Paused Busy |}, conn, []) in
      let groups1 := rejoin_groups (r_groups st1) (cf_strategy (r_cfg st1)) client (tr_reqs trk) in
      let wills := match c_will conn1 with
                   | Some w => al_set str_eqb client w (r_wills st1)
                   | None => al_remove str_eqb client (r_wills st1)
                   end in
      let conn2 := set_c_will conn1 None in
      let '(conns, id) := slab_insert (r_conns st1) conn2 in
      let '(ibufs, id_i) := slab_insert (r_ibufs st1) {| i_client := client; i_link := link |} in
      let '(obufs, id_o) := slab_insert (r_obufs st1)
            {| o_client := client; o_link := link; o_inflight := []; o_pubrels := pubrels; o_last := 0 |} in
      let ack0 := {| a_committed := [AConnAck id (negb clean && previous_session)]; a_recorded := [] |} in
      let '(acks, id_a) := slab_insert (r_acks st1) (commit_pubrels ack0 pubrels) in
      let '(trackers, id_t) := slab_insert (r_trackers st1) trk in
      if negb ((id_i =? id) && (id_o =? id) && (id_a =? id) && (id_t =? id)) then Panic P_SLAB_ALIGN
      else
        let st2 := {| r_cfg := r_cfg st1; r_graveyard := grave; r_conns := conns;
                      r_cmap := al_set str_eqb client id (r_cmap st1);
                      r_submap := submap_add_all (r_submap st1) (c_subs conn2) id;
                      r_ibufs := ibufs; r_obufs := obufs; r_datalog := r_datalog st1; r_acks := acks;
                      r_trackers := trackers; r_ready := r_ready st1; r_notif := r_notif st1;
                      r_groups := groups1; r_wills := wills; r_links := r_links st1;
                      r_oracle := r_oracle st1 |} in
        do _ <- dbg_no_dups st2 id;
        reschedule st2 id SInit)
    DevEI.
Proof.
  intros HI Hn HD Hnosub. cbv zeta.
  set (client := c_client conn).
  set (tcp := if negb (c_clean conn)
              then match al_get str_eqb client (r_graveyard st1) with
                   | Some (Some ss) => (ss_tracker ss, set_c_subs conn (ss_subs ss), ss_pubrels ss)
                   | _ => ({| tr_id := client; tr_reqs := []; tr_status := Paused Busy |}, conn, [])
                   end
              else ({| tr_id := client; tr_reqs := []; tr_status := Paused Busy |}, conn, [])).
  assert (Htcp : forall f, okE (cnt f (tr_reqs (fst (fst tcp)))) f (c_subs (snd (fst tcp)))).
  { unfold tcp. destruct (negb (c_clean conn)); [|intros f; cbn [fst snd tr_reqs]; rewrite Hnosub; apply okE_zero].
    destruct (al_get str_eqb client (r_graveyard st1)) as [[ss|]|] eqn:Eg;
      try (intros f; cbn [fst snd tr_reqs]; rewrite Hnosub; apply okE_zero).
    apply al_get_In_str in Eg. pose proof (de_grave _ _ HD) as Hg. rewrite Forall_forall in Hg.
    apply Hg in Eg. unfold sess_E in Eg. cbn [snd] in Eg. cbn [fst snd set_c_subs c_subs]. exact Eg. }
  destruct tcp as [[trk conn1] pubrels]. cbn [fst snd] in Htcp.
  set (conn2 := set_c_will conn1 None).
  destruct (slab_insert (r_conns st1) conn2) as [conns id] eqn:Ec.
  destruct (slab_insert (r_ibufs st1) {| i_client := client; i_link := link |}) as [ibufs id_i] eqn:Ei.
  destruct (slab_insert (r_obufs st1) {| o_client := client; o_link := link; o_inflight := []; o_pubrels := pubrels; o_last := 0 |}) as [obufs id_o] eqn:Eo.
  match goal with |- context [slab_insert (r_acks st1) ?a] => set (ack1 := a) end.
  destruct (slab_insert (r_acks st1) ack1) as [acks id_a] eqn:Ea.
  destruct (slab_insert (r_trackers st1) trk) as [trackers id_t] eqn:Et.
  destruct (aligned_insert _ _ _ _ _ _ _ _ (ri_al_t _ _ HI) Ec Et) as [<- Hal_t].
  match goal with |- wpd (if ?b then _ else _) _ => destruct b end; [notdup|].
  pose proof (ri_wf _ _ HI) as Hwf.
  destruct (insert_spec _ _ _ _ Hwf Ec) as (Hcnone & Hcnew & Hcoth & _).
  destruct (insert_spec _ _ _ _ (aligned_wf _ _ (ri_al_t _ _ HI) Hwf) Et) as (_ & Htnew & Htoth & _).
  match goal with |- wpd (do _ <- dbg_no_dups ?s id; _) _ => set (st2 := s) end.
  assert (HD2 : DevEI st2).
  { destruct HD as [L G]. constructor; [|apply Forall_al_remove; exact G].
    intros k subs Hsub f. unfold subs_of, st2 in Hsub. cbn [r_conns] in Hsub.
    assert (Ecnt : CNT st2 [] k f = (cnt f (treqs st2 k) + cnti f k (items_of st1))%nat).
    { unfold CNT. change (items_of st2) with (items_of st1). change (r_notif st2) with (r_notif st1).
      rewrite Hn, !cntw_nil. lia. }
    rewrite Ecnt. destruct (N.eq_dec k id) as [-> | Hne].
    - rewrite Hcnew in Hsub. cbn [option_map conn2 set_c_will c_subs] in Hsub. inversion Hsub; subst subs.
      assert (T : treqs st2 id = tr_reqs trk) by (unfold treqs, st2; cbn [r_trackers]; now rewrite Htnew).
      assert (Z : cnti f id (items_of st1) = 0%nat).
      { apply cnti_all_none. intros d Hd. apply cntw_zero. intros x Hx Hfx.
        pose proof (dk_items _ _ (ri_dl _ _ HI)) as Hit. rewrite Forall_forall in Hit. specialize (Hit _ Hd).
        cbn [odata_ok] in Hit. destruct Hit as [_ Hw]. rewrite Forall_forall in Hw. destruct (Hw _ Hx) as [Hocc _].
        rewrite Hfx in Hocc. apply occ_get in Hocc. destruct Hocc as [c0 Hc0]. congruence. }
      rewrite T, Z, Nat.add_0_r. apply Htcp.
    - rewrite Hcoth in Hsub by exact Hne.
      assert (T : treqs st2 k = treqs st1 k) by (unfold treqs, st2; cbn [r_trackers]; now rewrite Htoth).
      rewrite T. pose proof (L k subs Hsub f) as Hok. unfold CNT in Hok. rewrite Hn, !cntw_nil, !Nat.add_0_r in Hok. exact Hok. }
  assert (Hs2 : subs_of st2 id = Some (c_subs conn2)).
  { unfold subs_of, st2. cbn [r_conns]. now rewrite Hcnew. }
  apply wpd_bind. eapply wpd_mono; [apply (dbg_no_dups_dev st2 [] id _ (DevE_DevX _ _ HD2) Hs2)|]. intros _ _.
  eapply wpd_mono; [apply (reschedule_dev st2 id SInit [])|]. intros st' D. eapply dfr_DevE; eauto.
Qed.

Lemma handle_new_connection_loc cfg st conn link :
  RInvC cfg st -> r_notif st = [] -> DevEI st -> c_subs conn = [] -> wpd (handle_new_connection st conn link) DevEI.
Proof.
  intros HI Hn HD Hnosub. unfold handle_new_connection. cbv zeta.
  destruct (negb (validate_clientid (c_client conn))); [exact HD|].
  apply wpd_bind.
  assert (H1 : wpd (match al_get str_eqb (c_client conn) (r_cmap st) with
                    | Some cid => handle_disconnection st cid None
                    | None => Ok st
                    end)
     (fun st1 => (RInvC cfg st1 /\ r_notif st1 = []) /\ DevEI st1)).
  { destruct (al_get str_eqb (c_client conn) (r_cmap st)) as [cid|]; [|cbn [wpd]; auto].
    eapply wpd_mono; [eapply wpd_and_wp; [apply (handle_disconnection_spec cfg st cid None HI Hn)|apply (handle_disconnection_loc cfg st cid None HI Hn HD)]|].
    intros st1 [(A & B & _) D]. auto. }
  eapply wpd_mono; [exact H1|]. cbn beta. intros st1 [[A B] D].
  destruct (cf_max_connections (r_cfg st1) <=? slab_len (r_conns st1)); [exact D|].
  apply (newconn_core_loc cfg st1 conn link A B D Hnosub).
Qed.

Lemma handle_last_will_loc cfg st client :
  RInvC cfg st -> DevEI st -> wpd (handle_last_will st client) DevEI.
Proof.
  intros HI HD. unfold handle_last_will.
  destruct (al_get str_eqb client (r_wills st)) as [w|]; [|exact HD].
  cbv zeta.
  set (st1 := set_r_wills st (al_remove str_eqb client (r_wills st))).
  assert (HI1 : RInvC cfg st1) by (apply RInv_set_wills; exact HI).
  assert (HD1 : DevEI st1) by (eapply dfr_DevE; [exact HD|dfr_triv]).
  match goal with |- wpd (if ?b then _ else _) _ => destruct b end; [exact HD1|].
  match goal with |- wpd (if ?b then _ else _) _ => destruct b end; [exact HD1|].
  match goal with |- context [retain_update st1 ?t ?p ?pr] =>
    destruct (retain_update_spec cfg st1 t p pr HI1) as [HI2 F2];
    pose proof (retain_update_dev st1 t p pr []) as D2 end.
  apply wpd_bind.
  eapply wpd_mono; [eapply wpd_and_wp; [apply (dl_matches_spec cfg _ _ HI2)|apply (dl_matches_dev _ _ [])]|].
  intros [st3 idxs] [(HI3 & F3 & Hidx) D3]. cbn [fst snd] in *.
  apply wpd_bind. eapply wpd_mono; [apply (append_all_dev cfg _ idxs st3 [] HI3 Hidx)|]. intros st4 D4.
  eapply wpd_mono; [apply (drain_notifications_dev st4 [])|]. intros st5 D5.
  eapply dfr_DevE; [exact HD1|]. eapply dfr_trans; [exact D2|]. eapply dfr_trans; [exact D3|]. eapply dfr_trans; [exact D4|exact D5].
Qed.

Lemma retrieve_shadow_loc cfg st id f :
  RInvC cfg st -> DevEI st -> wpd (retrieve_shadow st id f) DevEI.
Proof.
  intros HI HD. unfold retrieve_shadow.
  destruct (slab_get (r_obufs st) id) as [o|]; [|exact HD].
  destruct (al_get str_eqb f (dl_findex (r_datalog st))) as [idx|]; [|exact HD].
  destruct (slab_get (dl_native (r_datalog st)) idx) as [d|] eqn:Hd; [|exact HD].
  assert (Hdok : data_ok (lives st) (nlen st) d).
  { unfold slab_get in Hd. destruct (nthN (sl_items (dl_native (r_datalog st))) idx) as [[d'|]|] eqn:E; try discriminate.
    inversion Hd; subst. exact (Forall_nthN _ _ _ _ (dk_items _ _ (ri_dl _ _ HI)) E). }
  destruct Hdok as [[all [Hwfs _]] _].
  destruct (lw_active pubdata_size _ _ Hwfs) as [a Ha]. rewrite Ha. cbn [bind].
  destruct (last_opt (s_data a)) as [[p pr]|]; [|exact HD].
  apply wpd_bind. eapply wpd_mono; [apply (push_out_dev st (o_link o) _ [])|]. intros [st1 len] D1. cbn [fst] in D1.
  assert (HD1 : DevEI st1) by (eapply dfr_DevE; eauto).
  match goal with |- wpd (if ?c then _ else _) _ => destruct c end; [|exact HD1].
  apply wpd_bind. eapply wpd_mono; [apply (push_out_dev st1 (o_link o) _ [])|]. intros [st2 len2] D2. cbn [fst] in D2.
  cbn [wpd]. eapply dfr_DevE; eauto.
Qed.

Lemma step_loc cfg st o :
  RInvC cfg st -> r_notif st = [] -> DevEI st -> op_wf o -> wpd (step st o) (fun r => DevEI (fst r)).
Proof.
  intros HI Hn HD Hwf. destruct o as [c | k pk | id | | k | id | id | id f | c |]; cbn [step].
  - cbv zeta. apply wpd_bind.
    eapply wpd_mono; [apply (handle_new_connection_loc cfg)|].
    + apply RInv_links_app; [exact HI|constructor].
    + exact Hn.
    + eapply dfr_DevE; [exact HD|dfr_triv].
    + reflexivity.
    + intros st2 H2. exact H2.
  - destruct (nthN (r_links st) k) as [b|]; cbn [wpd fst]; [|exact HD]. eapply dfr_DevE; [exact HD|dfr_triv].
  - apply wpd_bind. eapply wpd_mono; [apply (handle_device_payload_loc cfg st id HI Hn HD)|]. intros st1 H1. exact H1.
  - apply wpd_bind. eapply wpd_mono; [apply (consume_dev cfg st [] HI)|]. intros [st1 b] D. cbn [fst] in D.
    cbn [wpd fst]. eapply dfr_DevE; eauto.
  - destruct (nthN (r_links st) k) as [b|]; cbn [wpd fst]; [|exact HD]. eapply dfr_DevE; [exact HD|dfr_triv].
  - destruct (slab_get (r_trackers st) id) as [t|]; [|exact HD].
    apply wpd_bind. eapply wpd_mono; [apply (reschedule_dev st id SReady [])|]. intros st1 D. cbn [wpd fst].
    eapply dfr_DevE; eauto.
  - apply wpd_bind. eapply wpd_mono; [apply (handle_disconnection_loc cfg st id None HI Hn HD)|]. intros st1 H1. exact H1.
  - apply wpd_bind. eapply wpd_mono; [apply (retrieve_shadow_loc cfg st id f HI HD)|]. intros st1 H1. exact H1.
  - apply wpd_bind. eapply wpd_mono; [apply (handle_last_will_loc cfg st c HI HD)|]. intros st1 H1. exact H1.
  - exact HD.
Qed.

Lemma step_with_loc cfg st orc o :
  RInvC cfg st -> r_notif st = [] -> DevEI st -> op_wf o -> wpd (step_with st orc o) (fun r => DevEI (fst r)).
Proof.
  intros HI Hn HD Hwf. unfold step_with. apply wpd_bind.
  eapply wpd_mono; [apply (step_loc cfg (set_r_oracle st orc) o)|].
  - apply RInv_set_oracle; exact HI.
  - exact Hn.
  - eapply dfr_DevE; [exact HD|dfr_triv].
  - exact Hwf.
  - intros [st1 out] H1. cbn [fst] in H1. destruct (r_oracle st1); cbn [wpd fst]; auto.
Qed.


(* ------------------------------------------------------------------ top level *)
Definition RInvE (st : rstate) : Prop := RInv st /\ DevEI st.

Theorem rinve_init cfg st0 : cfg_ok cfg -> init cfg = Ok st0 -> RInvE st0.
Proof.
  intros Hcfg Hi. split; [eapply rinv_init; eauto|].
  unfold init in Hi. destruct (init_datalog cfg) as [dl| |]; cbn [bind] in Hi; try discriminate.
  inversion Hi; subst. constructor; [|constructor].
  intros id subs Hs. unfold subs_of, slab_get, slab_empty in Hs. cbn in Hs. discriminate.
Qed.

Theorem rinve_step st orc o st' out :
  RInvE st -> op_wf o -> step_with st orc o = Ok (st', out) -> RInvE st'.
Proof.
  intros [HR HD] Hwf Hs. split; [eapply rinv_step; eauto|].
  destruct HR as [HI Hn]. pose proof (step_with_loc _ st orc o HI Hn HD Hwf) as H. rewrite Hs in H. exact H.
Qed.

Theorem rinve_run : forall ops st st',
  RInvE st -> ops_wf ops -> run st ops = Ok st' -> RInvE st'.
Proof.
  induction ops as [|[orc o] ops IH]; intros st st' HI Hwf Hr; cbn [run] in Hr.
  - inversion Hr; subst. exact HI.
  - inversion Hwf as [|? ? Hw1 Hw']; subst. cbn [snd] in Hw1.
    destruct (step_with st orc o) as [[st1 out]|e|t] eqn:Es; try discriminate.
    eapply IH; [eapply rinve_step; eauto|exact Hw'|exact Hr].
Qed.

(** request location: in every state reachable by well-typed ops (SUBSCRIBE QoS <= 2), for
    every live connection [id] and EVERY filter [f]: the number of data requests of [id] with
    subscription filter [f] held in its tracker, in all waiter lists and in [notifications]
    is 1 if [f] is one of the connection's subscriptions and 0 otherwise *)
Theorem request_location cfg st0 ops st :
  cfg_ok cfg -> init cfg = Ok st0 -> ops_wf ops -> run st0 ops = Ok st ->
  forall id c f, slab_get (r_conns st) id = Some c ->
    CNT st [] id f = if set_mem str_eqb f (c_subs c) then 1%nat else 0%nat.
Proof.
  intros Hcfg Hi Hwf Hr id c f Hc.
  destruct (rinve_run _ _ _ (rinve_init _ _ Hcfg Hi) Hwf Hr) as [_ [HL _]].
  apply (HL id (c_subs c)). unfold subs_of. now rewrite Hc.
Qed.

(** ... and the same for every session saved in the graveyard *)
Theorem request_location_saved cfg st0 ops st :
  cfg_ok cfg -> init cfg = Ok st0 -> ops_wf ops -> run st0 ops = Ok st ->
  forall client ss f, In (client, Some ss) (r_graveyard st) ->
    cnt f (tr_reqs (ss_tracker ss)) = if set_mem str_eqb f (ss_subs ss) then 1%nat else 0%nat.
Proof.
  intros Hcfg Hi Hwf Hr client ss f Hin.
  destruct (rinve_run _ _ _ (rinve_init _ _ Hcfg Hi) Hwf Hr) as [_ [_ HG]].
  rewrite Forall_forall in HG. exact (HG _ Hin f).
Qed.
