(** C15: every request anywhere in a reachable state asks for the retained replay only if it is
    not shared ([ReqInv]); so [replay_exact] applies to every request [consume] hands to
    [forward_device_data]. *)
From Rumqtt Require Export Router.RetainedReplay.
From Rumqtt Require Import Router.Session.
From Coq Require Import ZifyBool ZifyN ZifyNat.

Definition ReqOk (rq : drequest) : Prop := dr_fwd_retained rq = true -> dr_group rq = None.
Definition trk_ok (o : option tracker) : Prop := match o with Some t => Forall ReqOk (tr_reqs t) | None => True end.
Definition wait_ok (w : N * drequest) : Prop := ReqOk (snd w).
Definition data_ok (o : option data) : Prop := match o with Some d => Forall wait_ok (d_waiters d) | None => True end.
Definition sess_ok (e : str * option session) : Prop :=
  match snd e with Some ss => Forall ReqOk (tr_reqs (ss_tracker ss)) | None => True end.

Definition ReqInv (st : rstate) : Prop :=
  Forall trk_ok (sl_items (r_trackers st)) /\
  Forall data_ok (sl_items (dl_native (r_datalog st))) /\
  Forall wait_ok (r_notif st) /\
  Forall sess_ok (r_graveyard st).

(** keeps the four places requests live in *)
Definition Kq (st st' : rstate) : Prop :=
  r_trackers st' = r_trackers st /\ dl_native (r_datalog st') = dl_native (r_datalog st) /\
  r_notif st' = r_notif st /\ r_graveyard st' = r_graveyard st.
Lemma Kq_inv st st' : Kq st st' -> ReqInv st -> ReqInv st'.
Proof. unfold Kq, ReqInv. intros (-> & -> & -> & ->). auto. Qed.

Class FrameQ {A} (x : R A) (P : A -> Prop) : Prop := frameQ_pf : forall a, x = Ok a -> P a.
Ltac frames_q :=
  repeat match goal with
  | E : ?x = Ok ?a |- _ =>
      let F := fresh "F" in
      pose proof (frameQ_pf (x := x) a E) as F; cbn beta iota delta [fst snd] in F;
      change (used (x = Ok a)) in E
  end.
Ltac kq := split_hyps; unfold Kq in *; split_goal; rsimpl_all;
  repeat match goal with H : _ /\ _ |- _ => destruct H end; repeat split; congruence.

(* ------------------------------------------------------------------ list facts *)
Lemma swap_remove_back_Forall {X} (P : X -> Prop) (l : list X) : forall i x l',
  swap_remove_back l i = Some (x, l') -> Forall P l -> P x /\ Forall P l'.
Proof.
  induction l as [| y r IH]; intros i x l' H Hl; cbn [swap_remove_back] in H; [discriminate|].
  inversion Hl as [| ? ? Hy Hr]; subst. destruct (i =? 0).
  - destruct (rev r) as [| last mid] eqn:Er; injection H as <- <-; split; auto.
    assert (Hrr : Forall P (rev r)) by (apply Forall_rev; exact Hr). rewrite Er in Hrr.
    inversion Hrr; subst. constructor; [assumption|]. now apply Forall_rev.
  - destruct (swap_remove_back r (i - 1)) as [[z r']|] eqn:E; [|discriminate]. injection H as <- <-.
    destruct (IH _ _ _ E Hr) as [Hz Hr']. auto.
Qed.

Lemma waiters_remove_Forall fuel : forall w id w' q,
  waiters_remove fuel w id = (w', q) -> Forall wait_ok w -> Forall wait_ok w' /\ Forall ReqOk q.
Proof.
  induction fuel as [| fuel IH]; intros w id w' q H Hw; cbn [waiters_remove] in H.
  - injection H as <- <-. auto.
  - destruct (position_id w id 0); [|injection H as <- <-; auto].
    destruct (swap_remove_back w n) as [[[c rq] w1]|] eqn:Es; [|injection H as <- <-; auto].
    destruct (waiters_remove fuel w1 id) as [w2 rqs] eqn:Er. injection H as <- <-.
    destruct (swap_remove_back_Forall _ _ _ _ _ Es Hw) as [Hx Hw1].
    destruct (IH _ _ _ _ Er Hw1) as [H2 Hq]. split; [exact H2 | constructor; [exact Hx | exact Hq]].
Qed.

Lemma clean_items_Forall items id : forall items' q,
  clean_items items id = (items', q) -> Forall data_ok items -> Forall data_ok items' /\ Forall ReqOk q.
Proof.
  induction items as [| [d|] r IH]; intros items' q H Hi; cbn [clean_items] in H.
  - injection H as <- <-. auto.
  - destruct (waiters_remove _ (d_waiters d) id) as [w' q1] eqn:Ew.
    destruct (clean_items r id) as [r' q2] eqn:Er. injection H as <- <-.
    inversion Hi as [| ? ? Hd Hr]; subst.
    destruct (waiters_remove_Forall _ _ _ _ _ Ew Hd) as [Hw' Hq1]. destruct (IH _ _ eq_refl Hr) as [Hr' Hq2].
    split; [constructor; [exact Hw' | exact Hr'] | apply Forall_app; auto].
  - destruct (clean_items r id) as [r' q2] eqn:Er. injection H as <- <-.
    inversion Hi; subst. destruct (IH _ _ eq_refl H2) as [Hr' Hq2]. split; [constructor; auto | exact Hq2].
Qed.

Lemma remove_waiter_items_Forall items id f :
  Forall data_ok items -> Forall data_ok (remove_waiter_items items id f).
Proof.
  induction items as [| [d|] r IH]; intros Hi; cbn [remove_waiter_items]; [constructor | |].
  - inversion Hi as [| ? ? Hd Hr]; subst. destruct (position_req (d_waiters d) id f 0).
    + destruct (swap_remove_back (d_waiters d) n) as [[x w']|] eqn:Es; [|constructor; auto].
      constructor; [|exact Hr]. cbn [data_ok set_d_waiters d_waiters].
      exact (proj2 (swap_remove_back_Forall _ _ _ _ _ Es Hd)).
    + constructor; auto.
  - inversion Hi; subst. constructor; auto.
Qed.

Lemma slab_get_Forall {A} (P : option A -> Prop) (s : slab A) k a :
  Forall P (sl_items s) -> slab_get s k = Some a -> P (Some a).
Proof.
  unfold slab_get. intros Hf H. destruct (nthN (sl_items s) k) as [[x|]|] eqn:E; try discriminate.
  injection H as <-. exact (Forall_nthN _ _ _ _ Hf E).
Qed.
Lemma slab_put_Forall {A} (P : option A -> Prop) (s : slab A) k a :
  Forall P (sl_items s) -> P (Some a) -> Forall P (sl_items (slab_put s k a)).
Proof. intros. unfold slab_put. cbn [sl_items]. now apply Forall_setN. Qed.
Lemma slab_insert_Forall {A} (P : option A -> Prop) (s : slab A) a s' k :
  slab_insert s a = (s', k) -> Forall P (sl_items s) -> P (Some a) -> Forall P (sl_items s').
Proof.
  unfold slab_insert. destruct (sl_free s); intros [= <- <-] Hf Ha; cbn [sl_items].
  - apply Forall_app. auto.
  - now apply Forall_setN.
Qed.
Lemma slab_remove_Forall {A} (P : option A -> Prop) (s : slab A) k s' a :
  slab_remove s k = Some (s', a) -> Forall P (sl_items s) -> P None -> Forall P (sl_items s') /\ P (Some a).
Proof.
  unfold slab_remove. destruct (slab_get s k) eqn:E; [|discriminate]. intros [= <- <-] Hf Hn. cbn [sl_items].
  split; [now apply Forall_setN | eapply slab_get_Forall; eauto].
Qed.

(* ------------------------------------------------------------------ the functions *)
Global Instance fq_push_out st k ns : FrameQ (push_out st k ns) (fun r => Kq st (fst r)).
Proof. intros a H. unfold push_out, link_get in H. okinv. kq. Qed.

Lemma put_tracker_inv st id t : ReqInv st -> Forall ReqOk (tr_reqs t) -> ReqInv (put_tracker st id t).
Proof. unfold ReqInv. rsimpl. intros (H1 & H2 & H3 & H4) Ht. repeat split; auto. now apply slab_put_Forall. Qed.
Lemma get_tracker_ok st id t : ReqInv st -> get_tracker st id = Ok t -> Forall ReqOk (tr_reqs t).
Proof.
  unfold get_tracker. intros (H1 & _) H. destruct (slab_get (r_trackers st) id) eqn:E; [|discriminate].
  injection H as <-. exact (slab_get_Forall trk_ok _ _ _ H1 E).
Qed.
Lemma ReqInv_ready st v : ReqInv st -> ReqInv (set_r_ready st v).
Proof. unfold ReqInv. rsimpl. auto. Qed.

Global Instance fq_reschedule st id why : FrameQ (reschedule st id why) (fun st' => ReqInv st -> ReqInv st').
Proof.
  intros a H Hi. unfold reschedule in H. okinv.
  match goal with E : get_tracker _ _ = Ok _ |- _ => pose proof (get_tracker_ok _ _ _ Hi E) as Ht end.
  match goal with E : try_ready _ _ _ = Ok _ |- _ => apply try_ready_reqs in E as [E _] end.
  match goal with |- context [if ?b then _ else _] => destruct b end;
    [apply ReqInv_ready|]; apply put_tracker_inv; auto; congruence.
Qed.
Global Instance fq_track st id rq : FrameQ (track st id rq) (fun st' => ReqInv st -> ReqOk rq -> ReqInv st').
Proof.
  intros a H Hi Hq. unfold track in H. okinv.
  match goal with E : get_tracker _ _ = Ok _ |- _ => pose proof (get_tracker_ok _ _ _ Hi E) as Ht end.
  apply put_tracker_inv; auto. cbn [tr_reqs set_tr_reqs]. apply Forall_app. auto.
Qed.
Global Instance fq_trackv st id rqs : FrameQ (trackv st id rqs) (fun st' => ReqInv st -> Forall ReqOk rqs -> ReqInv st').
Proof.
  intros a H Hi Hq. unfold trackv in H. okinv.
  match goal with E : get_tracker _ _ = Ok _ |- _ => pose proof (get_tracker_ok _ _ _ Hi E) as Ht end.
  apply put_tracker_inv; auto. cbn [tr_reqs set_tr_reqs]. apply Forall_app. auto.
Qed.
Global Instance fq_untrack st id f : FrameQ (untrack st id f) (fun st' => ReqInv st -> ReqInv st').
Proof.
  intros a H Hi. unfold untrack in H. okinv.
  match goal with E : get_tracker _ _ = Ok _ |- _ => pose proof (get_tracker_ok _ _ _ Hi E) as Ht end.
  apply put_tracker_inv; auto. cbn [tr_reqs set_tr_reqs]. rewrite Forall_forall in *. intros x Hx.
  apply filter_In in Hx. apply Ht. tauto.
Qed.
Global Instance fq_pause st id why : FrameQ (pause st id why) (fun st' => ReqInv st -> ReqInv st').
Proof.
  intros a H Hi. unfold pause in H. okinv.
  match goal with E : get_tracker _ _ = Ok _ |- _ =>
    pose proof (get_tracker_ok _ _ _ (ReqInv_ready _ _ Hi) E) as Ht end.
  apply put_tracker_inv; [apply ReqInv_ready; exact Hi | exact Ht].
Qed.
Global Instance fq_commit_ack st id a : FrameQ (commit_ack st id a) (fun st' => Kq st st').
Proof. intros x H. unfold commit_ack, get_acks in H. okinv. kq. Qed.

Lemma ReqInv_notif st v : ReqInv st -> Forall wait_ok v -> ReqInv (set_r_notif st v).
Proof. unfold ReqInv. rsimpl. tauto. Qed.

Global Instance fq_wake_all ns : forall st,
  FrameQ (wake_all st ns) (fun st' => ReqInv st -> Forall wait_ok ns -> ReqInv st').
Proof.
  induction ns as [| [id rq] r IH]; intros st a H Hi Hn; cbn [wake_all] in H.
  - okinv. exact Hi.
  - okinv. frames_q. inversion Hn; subst. auto.
Qed.
Global Instance fq_drain_notifications st : FrameQ (drain_notifications st) (fun st' => ReqInv st -> ReqInv st').
Proof.
  intros a H Hi. unfold drain_notifications in H. frames_q. apply F.
  - apply ReqInv_notif; [exact Hi | constructor].
  - apply Hi.
Qed.
Global Instance fq_dl_matches st t : FrameQ (dl_matches st t) (fun r => Kq st (fst r)).
Proof. intros a H. unfold dl_matches in H. okinv. all: kq. Qed.
Global Instance fq_read_retained st f : FrameQ (read_retained st f) (fun r => Kq st (fst r)).
Proof. intros a H. unfold read_retained in H. okinv. all: kq. Qed.
Global Instance fq_update_next_client st g : FrameQ (update_next_client st g) (fun r => Kq st (fst r)).
Proof. intros a H. unfold update_next_client in H. okinv. all: kq. Qed.

Lemma native_get_ok st idx d : ReqInv st -> native_get (r_datalog st) idx = Ok d -> Forall wait_ok (d_waiters d).
Proof.
  unfold native_get. intros (_ & H2 & _) H. destruct (slab_get (dl_native (r_datalog st)) idx) eqn:E; [|discriminate].
  injection H as <-. exact (slab_get_Forall data_ok _ _ _ H2 E).
Qed.
Lemma put_native_inv st idx d :
  ReqInv st -> Forall wait_ok (d_waiters d) ->
  ReqInv (set_r_datalog st (set_dl_native (r_datalog st) (slab_put (dl_native (r_datalog st)) idx d))).
Proof. unfold ReqInv. rsimpl. intros (H1 & H2 & H3 & H4) Hd. repeat split; auto. now apply slab_put_Forall. Qed.

Global Instance fq_park st id rq : FrameQ (park st id rq) (fun st' => ReqInv st -> ReqOk rq -> ReqInv st').
Proof.
  intros a H Hi Hq. unfold park in H. okinv.
  match goal with E : native_get _ _ = Ok _ |- _ => pose proof (native_get_ok _ _ _ Hi E) as Hd end.
  apply put_native_inv; auto. cbn [d_waiters set_d_waiters]. apply Forall_app. split; [exact Hd | constructor; [exact Hq | constructor]].
Qed.
Global Instance fq_remove_waiters_for_id st id f :
  FrameQ (remove_waiters_for_id st id f) (fun st' => ReqInv st -> ReqInv st').
Proof.
  intros a H (H1 & H2 & H3 & H4). unfold remove_waiters_for_id in H. okinv. unfold ReqInv. rsimpl. cbn [sl_items].
  repeat split; auto. now apply remove_waiter_items_Forall.
Qed.
Global Instance fq_data_append st idx item : FrameQ (data_append st idx item) (fun st' => ReqInv st -> ReqInv st').
Proof.
  intros a H Hi. unfold data_append in H. okinv.
  match goal with E : native_get _ _ = Ok _ |- _ => pose proof (native_get_ok _ _ _ Hi E) as Hd end.
  apply ReqInv_notif.
  - apply put_native_inv; [exact Hi | constructor].
  - rsimpl. apply Forall_app. split; [apply Hi | exact Hd].
Qed.
Global Instance fq_append_all idxs item : forall st, FrameQ (append_all st idxs item) (fun st' => ReqInv st -> ReqInv st').
Proof.
  induction idxs as [| i r IH]; intros st a H Hi; cbn [append_all] in H.
  - okinv. exact Hi.
  - okinv. frames_q. auto.
Qed.
Global Instance fq_next_native_offset st f :
  FrameQ (next_native_offset st f) (fun r => ReqInv st -> ReqInv (fst (fst r))).
Proof.
  intros a H Hi. unfold next_native_offset in H. okinv; [exact Hi|].
  destruct Hi as (H1 & H2 & H3 & H4). unfold ReqInv. rsimpl. repeat split; auto.
  eapply slab_insert_Forall; eauto.
  match goal with E : data_new _ _ = Ok _ |- _ => unfold data_new in E; okinv end. cbn [data_ok d_waiters]. constructor.
Qed.

Lemma ReqInv_other st st' :
  r_trackers st' = r_trackers st -> dl_native (r_datalog st') = dl_native (r_datalog st) ->
  r_notif st' = r_notif st -> r_graveyard st' = r_graveyard st -> ReqInv st -> ReqInv st'.
Proof. intros. apply (Kq_inv st st'); [unfold Kq; auto | assumption]. Qed.

Global Instance fq_append_to_commitlog st id p props :
  FrameQ (append_to_commitlog st id p props) (fun r => ReqInv st -> ReqInv (fst r)).
Proof.
  intros a H Hi. unfold append_to_commitlog, retain_update, get_conn in H. okinv; frames_q; rsimpl; auto.
  all: split_hyps.
  all: repeat match goal with F : Kq _ _ |- _ => apply Kq_inv in F; [| solve [eapply ReqInv_other; [..| exact Hi]; reflexivity] ] end.
  all: auto.
Qed.

Ltac use_kq Hi :=
  repeat match goal with F : Kq _ _ |- _ =>
    apply Kq_inv in F; [| first [ exact Hi | assumption | solve [eapply ReqInv_other; [..| first [exact Hi | eassumption]]; reflexivity] ] ] end.

Global Instance fq_prepare_filter st id cu fidx path qos grp subid :
  FrameQ (prepare_filter st id cu fidx path qos grp subid) (fun st' => ReqInv st -> ReqInv st').
Proof.
  intros a H Hi. unfold prepare_filter, get_conn in H. okinv; rsimpl.
  all: try solve [eapply ReqInv_other; [..| exact Hi]; reflexivity].
  all: frames_q.
  all: match goal with F : ReqInv ?s -> _ -> ReqInv ?s1 |- _ =>
         assert (Hs1 : ReqInv s1);
         [ apply F; [eapply ReqInv_other; [..| exact Hi]; reflexivity
                    | repeat constructor; intros Hf; cbn in *; destruct grp; [discriminate | reflexivity]] | ] end.
  all: auto.
Qed.

Global Instance fq_subscribe_filters fs : forall st id subid fl codes,
  FrameQ (subscribe_filters st id fs subid fl codes) (fun r => ReqInv st -> ReqInv (fst (fst r))).
Proof.
  induction fs as [| [path qos] r IH]; intros st id subid fl codes a H Hi; cbn [subscribe_filters] in H.
  - okinv. exact Hi.
  - okinv. all: frames_q. all: rsimpl; auto.
Qed.

Ltac solve_inv Hi :=
  first
  [ exact Hi
  | assumption
  | match goal with
    | |- ReqInv (set_r_submap ?s _) => change (ReqInv s); solve_inv Hi
    | |- ReqInv (set_r_groups ?s _) => change (ReqInv s); solve_inv Hi
    | |- ReqInv (set_r_oracle ?s _) => change (ReqInv s); solve_inv Hi
    | |- ReqInv (set_r_ready ?s _) => change (ReqInv s); solve_inv Hi
    | |- ReqInv (set_r_links ?s _) => change (ReqInv s); solve_inv Hi
    | |- ReqInv (set_r_wills ?s _) => change (ReqInv s); solve_inv Hi
    | |- ReqInv (put_conn ?s _ _) => change (ReqInv s); solve_inv Hi
    | |- ReqInv (put_obuf ?s _ _) => change (ReqInv s); solve_inv Hi
    | |- ReqInv (put_acks ?s _ _) => change (ReqInv s); solve_inv Hi
    | |- ReqInv (link_put ?s _ _) => change (ReqInv s); solve_inv Hi
    | |- ReqInv (match ?c with _ => _ end) => destruct c; solve_inv Hi
    | F : ReqInv ?s -> ReqInv ?s1 |- ReqInv ?s1 => apply F; solve_inv Hi
    | F : Kq ?s ?s1 |- ReqInv ?s1 => apply (Kq_inv _ _ F); solve_inv Hi
    end ].

Global Instance fq_unsubscribe_filters fs : forall st id client reasons,
  FrameQ (unsubscribe_filters st id client fs reasons) (fun r => ReqInv st -> ReqInv (fst r)).
Proof.
  induction fs as [| f r IH]; intros st id client reasons a H Hi; cbn [unsubscribe_filters] in H.
  - okinv. exact Hi.
  - unfold get_conn in H. okinv. all: frames_q. all: rsimpl.
    all: match goal with F : ReqInv ?s -> ReqInv (fst ?x) |- ReqInv (fst ?x) => apply F; clear F end.
    all: try solve [solve_inv Hi].
    apply ReqInv_notif; [solve_inv Hi|].
    match goal with |- Forall _ (filter _ (r_notif ?s)) => assert (Hn : ReqInv s) by solve_inv Hi end.
    destruct Hn as (_ & _ & Hn & _). rewrite Forall_forall in *. intros x Hx. apply filter_In in Hx. apply Hn. tauto.
Qed.

(** the request handed back keeps the property; the state keeps all request containers *)
Global Instance fq_forward_device_data st id rq :
  FrameQ (forward_device_data st id rq) (fun r => Kq st (fst (fst r)) /\ (ReqOk rq -> ReqOk (snd (fst r)))).
Proof.
  intros a H. split.
  - unfold forward_device_data, get_obuf in H. okinv. all: frames_q. all: kq.
  - destruct a as [[st' rq'] status]. cbn [fst snd]. intros Hq.
    destruct (get_obuf st id) as [o | |] eqn:Ho; [|unfold forward_device_data in H; rewrite Ho in H; discriminate..].
    pose proof (forward_cases _ _ _ _ _ _ _ H Ho) as Hc. cbn zeta in Hc.
    destruct Hc as [(_ & _ & ->) | (sel & d & pos & from_log & _ & _ & _ & Hfl & _)].
    + destruct (req_group st rq) as [[? ?]|]; [|exact Hq]. unfold ReqOk in *. cbn. exact Hq.
    + unfold ReqOk. congruence.
Qed.
Global Instance fq_ack_device_data st id o : FrameQ (ack_device_data st id o) (fun st' => Kq st st').
Proof. intros a H. unfold ack_device_data, get_acks in H. okinv. all: frames_q. all: kq. Qed.

Global Instance fq_consume_loop fuel : forall st id requests skipped,
  FrameQ (consume_loop fuel st id requests skipped)
         (fun st' => ReqInv st -> Forall ReqOk requests -> Forall ReqOk skipped -> ReqInv st').
Proof.
  induction fuel as [| fuel IH]; intros st id requests skipped a H Hi Hr Hs; cbn [consume_loop] in H.
  - frames_q. apply F; [exact Hi | apply Forall_app; auto].
  - okinv. all: frames_q.
    all: repeat match goal with F : _ /\ _ |- _ => destruct F end.
    all: try (inversion Hr; subst).
    all: repeat match goal with F : Kq _ _ |- _ => apply Kq_inv in F; [|exact Hi] end.
    all: try match goal with F : ReqOk ?r -> ReqOk ?r' |- _ => assert (Hr' : ReqOk r') by auto; clear F end.
    all: repeat match goal with H : Forall _ (_ :: _) |- _ => inversion H; subst; clear H end.
    all: repeat match goal with
         | F : ReqInv ?s -> ReqInv ?s1 |- ReqInv ?s1 => apply F
         | F : ReqInv ?s -> _ -> ReqInv ?s1 |- ReqInv ?s1 => apply F
         | F : ReqInv ?s -> _ -> _ -> ReqInv ?s1 |- ReqInv ?s1 => apply F
         | |- Forall _ (_ ++ _) => apply Forall_app; split
         | |- Forall _ (_ :: _) => constructor
         | |- Forall _ [] => constructor
         end; auto.
Qed.

Global Instance fq_consume st : FrameQ (consume st) (fun r => ReqInv st -> ReqInv (fst r)).
Proof.
  intros a H Hi. unfold consume in H. okinv. all: frames_q. all: rsimpl.
  all: try solve [solve_inv Hi].
  all: match goal with E : slab_get (r_trackers _) _ = Some ?t |- _ =>
         assert (Ht : Forall ReqOk (tr_reqs t)) by
           (destruct Hi as (H1 & _); exact (slab_get_Forall trk_ok _ _ _ H1 E)) end.
  all: try (apply ReqInv_ready; apply put_tracker_inv; [apply ReqInv_ready; exact Hi | constructor]).
  match goal with F : ReqInv ?s -> _ -> _ -> ReqInv ?s1 |- ReqInv ?s1 => apply F; [|exact Ht | constructor] end.
  match goal with F : Kq ?s ?s1 |- ReqInv ?s1 => apply (Kq_inv _ _ F) end.
  apply ReqInv_ready; apply put_tracker_inv; [apply ReqInv_ready; exact Hi | constructor].
Qed.
Global Instance fq_retrieve_shadow st id f : FrameQ (retrieve_shadow st id f) (fun st' => Kq st st').
Proof. intros a H. unfold retrieve_shadow in H. okinv. all: frames_q. all: kq. Qed.
Global Instance fq_handle_last_will st client : FrameQ (handle_last_will st client) (fun st' => ReqInv st -> ReqInv st').
Proof.
  intros a H Hi. unfold handle_last_will, retain_update in H. okinv. all: frames_q. all: rsimpl.
  all: try solve [solve_inv Hi].
  all: repeat match goal with F : ReqInv ?s -> ReqInv ?s1 |- ReqInv ?s1 => apply F end.
  all: match goal with F : Kq ?s ?s1 |- ReqInv ?s1 => apply (Kq_inv _ _ F) end.
  all: eapply ReqInv_other; [..| exact Hi]; reflexivity.
Qed.

Global Instance fq_handle_packet st id client pk fl :
  FrameQ (handle_packet st id client pk fl) (fun r => ReqInv st -> ReqInv (fst (fst r))).
Proof.
  intros a H Hi. unfold handle_packet, get_obuf, get_acks, get_conn in H. destruct pk; okinv. all: frames_q. all: rsimpl.
  all: solve_inv Hi.
Qed.
Global Instance fq_handle_packets pks : forall st id client fl,
  FrameQ (handle_packets st id client pks fl) (fun r => ReqInv st -> ReqInv (fst r)).
Proof.
  induction pks as [| pk r IH]; intros st id client fl a H Hi; cbn [handle_packets] in H.
  - okinv. exact Hi.
  - okinv. all: frames_q. all: rsimpl; auto.
Qed.

Lemma rewind_ok retr rq : ReqOk rq -> ReqOk (rewind retr rq).
Proof. unfold rewind, ReqOk. destruct (al_get N.eqb (dr_idx rq) retr); cbn; auto. Qed.

Global Instance fq_handle_disconnection st id reason :
  FrameQ (handle_disconnection st id reason) (fun st' => ReqInv st -> ReqInv st').
Proof.
  intros a H Hi. unfold handle_disconnection in H.
  destruct (slab_get (r_obufs st) id) as [o0|]; [|okinv; auto].
  match type of H with bind ?x _ = _ => destruct x as [st0 | |] eqn:E0 end; cbn [bind] in H; try discriminate.
  assert (Hi0 : ReqInv st0).
  { clear H. destruct reason; okinv; [frames_q; solve_inv Hi | exact Hi]. }
  clear E0 Hi. destruct Hi0 as (I1 & I2 & I3 & I4).
  destruct (slab_remove (r_conns st0) id) as [[conns conn]|]; [|discriminate].
  destruct (slab_remove (r_ibufs st0) id) as [[ibufs ?]|]; [|discriminate].
  destruct (slab_remove (r_obufs st0) id) as [[obufs outg]|]; [|discriminate].
  destruct (slab_remove (r_trackers st0) id) as [[trackers trk]|] eqn:R4; [|discriminate].
  destruct (slab_remove (r_acks st0) id) as [[acks ?]|]; [|discriminate].
  destruct (slab_remove_Forall trk_ok _ _ _ _ R4 I1 I) as [Ht1 Ht2]. cbn [trk_ok] in Ht2.
  destruct (dl_clean (r_datalog st0) id) as [dl q] eqn:Ed.
  unfold dl_clean in Ed. destruct (clean_items (sl_items (dl_native (r_datalog st0))) id) as [items q0] eqn:Ec.
  injection Ed as <- <-. destruct (clean_items_Forall _ _ _ _ Ec I2) as [Hc1 Hc2].
  destruct (c_clean conn); cbn [negb] in H.
  - okinv. unfold ReqInv. rsimpl. cbn [sl_items]. repeat split; auto.
    apply Forall_al_set; [now apply Forall_al_remove | intros; exact I].
  - destruct (rewind_requests _ _ _) as [[rqs' gs] | |] eqn:Er; cbn [bind] in H; try discriminate.
    apply rewind_requests_spec in Er. subst rqs'. okinv. unfold ReqInv. rsimpl. cbn [sl_items]. repeat split; auto.
    apply Forall_al_set; [now apply Forall_al_remove|]. intros t'. cbn [sess_ok snd ss_tracker tr_reqs].
    rewrite Forall_map. assert (Hall : Forall ReqOk (tr_reqs trk ++ q0)) by (apply Forall_app; auto).
    rewrite Forall_forall in *. intros x Hx. apply rewind_ok. auto.
Qed.

Global Instance fq_handle_new_connection st conn link :
  FrameQ (handle_new_connection st conn link) (fun st' => ReqInv st -> ReqInv st').
Proof.
  intros a H Hi. unfold handle_new_connection in H.
  destruct (validate_clientid (c_client conn)); cbn [negb] in H; [|okinv; exact Hi].
  match type of H with bind ?x _ = _ => destruct x as [st1 | |] eqn:E1 end; cbn [bind] in H; try discriminate.
  assert (Hi1 : ReqInv st1).
  { clear H. destruct (al_get str_eqb (c_client conn) (r_cmap st)); [|okinv; exact Hi]. frames_q. auto. }
  clear E1 Hi. destruct Hi1 as (I1 & I2 & I3 & I4).
  destruct (cf_max_connections (r_cfg st1) <=? slab_len (r_conns st1)); [okinv; unfold ReqInv; auto|].
  set (client := c_client conn) in *.
  set (saved := al_get str_eqb client (r_graveyard st1)) in *.
  set (fresh_t := {| tr_id := client; tr_reqs := []; tr_status := Paused Busy |}) in *.
  set (triple := if negb (c_clean conn)
                 then match saved with
                      | Some (Some ss) => (ss_tracker ss, set_c_subs conn (ss_subs ss), ss_pubrels ss)
                      | _ => (fresh_t, conn, [])
                      end
                 else (fresh_t, conn, [])) in H.
  assert (Htr : exists trk conn1 pubrels, triple = (trk, conn1, pubrels) /\ Forall ReqOk (tr_reqs trk)).
  { unfold triple. destruct (c_clean conn); cbn [negb]; [do 3 eexists; split; [reflexivity | constructor]|].
    destruct saved as [[ss|]|] eqn:Es; do 3 eexists; (split; [reflexivity|]); try constructor.
    unfold saved in Es. apply al_get_in in Es; [|apply str_eqb_spec].
    rewrite Forall_forall in I4. exact (I4 _ Es). }
  destruct Htr as (trk & conn1 & pubrels & -> & Ht1). cbn beta iota in H.
  destruct (slab_insert (r_conns st1) (set_c_will conn1 None)) as [conns id].
  destruct (slab_insert (r_ibufs st1) _) as [ibufs id_i].
  destruct (slab_insert (r_obufs st1) _) as [obufs id_o].
  destruct (slab_insert (r_acks st1) _) as [acks id_a].
  destruct (slab_insert (r_trackers st1) trk) as [trackers id_t] eqn:Ei5.
  destruct (negb _); [discriminate|].
  okinv. frames_q.
  match goal with F : ReqInv ?s -> ReqInv ?s1 |- ReqInv ?s1 => apply F end.
  unfold ReqInv. rsimpl. repeat split; auto.
  - eapply slab_insert_Forall; eauto.
  - now apply Forall_al_remove.
Qed.

Global Instance fq_handle_device_payload st id :
  FrameQ (handle_device_payload st id) (fun st' => ReqInv st -> ReqInv st').
Proof.
  intros a H Hi. unfold handle_device_payload, link_get in H. okinv. all: frames_q. all: rsimpl.
  all: solve_inv Hi.
Qed.

Global Instance fq_step st o : FrameQ (step st o) (fun r => ReqInv st -> ReqInv (fst r)).
Proof.
  intros a H Hi. unfold step in H. destruct o; okinv. all: frames_q. all: rsimpl.
  all: try solve [solve_inv Hi].
  all: repeat match goal with F : _ /\ _ |- _ => destruct F end.
  all: solve_inv Hi.
Qed.

Global Instance fq_step_with st orc o : FrameQ (step_with st orc o) (fun r => ReqInv st -> ReqInv (fst r)).
Proof. intros a H Hi. unfold step_with in H. okinv. frames_q. rsimpl. solve_inv Hi. Qed.

Lemma init_ReqInv cfg st : init cfg = Ok st -> ReqInv st.
Proof.
  unfold init, init_datalog. intros H. okinv. unfold ReqInv. rsimpl. cbn [sl_items slab_empty].
  repeat split; try constructor.
  match goal with E : _ = Ok ?dl |- _ => rename E into Hg end.
  set (dl0 := {| dl_native := slab_empty; dl_findex := []; dl_retained := []; dl_pfilters := [] |}) in Hg.
  assert (H0 : Forall data_ok (sl_items (dl_native dl0))) by constructor.
  clearbody dl0. revert dl0 H0 Hg.
  remember (cf_init_filters cfg) as fs eqn:Hfs. clear Hfs.
  induction fs as [| f r IH]; intros dl0 H0 Hg.
  - okinv. exact H0.
  - okinv. eapply IH; [| eassumption]. rsimpl.
    eapply slab_insert_Forall; eauto.
    match goal with E : data_new _ _ = Ok _ |- _ => unfold data_new in E; okinv end. constructor.
Qed.

Lemma reachable_ReqInv cfg st : reachable cfg st -> ReqInv st.
Proof.
  apply (reachable_inv ReqInv).
  - apply init_ReqInv.
  - intros s orc o s' out Hs H. frames_q. auto.
Qed.

(** the requests [consume] hands to [forward_device_data] come from a tracker *)
Lemma reachable_tracker_requests cfg st id t rq :
  reachable cfg st -> slab_get (r_trackers st) id = Some t -> In rq (tr_reqs t) -> ReqOk rq.
Proof.
  intros Hr Ht Hin. destruct (reachable_ReqInv _ _ Hr) as (H1 & _).
  pose proof (slab_get_Forall trk_ok _ _ _ H1 Ht) as Hf. cbn [trk_ok] in Hf. rewrite Forall_forall in Hf. auto.
Qed.

(** [c15_replay_flagged] for every request of every reachable tracker, shared or not: it is
    either not flagged (then nothing is replayed) or not shared (then [replay_exact]) *)
Theorem reachable_request_replay cfg st id t rq st' rq' status o :
  reachable cfg st -> slab_get (r_trackers st) id = Some t -> In rq (tr_reqs t) ->
  forward_device_data st id rq = Ok (st', rq', status) -> get_obuf st id = Ok o ->
  (dr_fwd_retained rq = false /\ dr_fwd_retained rq' = false /\
   exists ns_live tail,
     out_of st' (o_link o) = out_of st (o_link o) ++ ns_live ++ tail /\
     (tail = [] \/ tail = [NUnschedule]) /\ Forall is_live_fwd ns_live) \/
  (dr_fwd_retained rq = true /\ dr_group rq = None /\
   let slots := if dr_qos rq =? 0 then cf_max_outgoing (r_cfg st) else MAX_INFLIGHT - lenN (o_inflight o) in
   ((status = SInflightFull /\ st' = st /\ rq' = rq) \/
    (dr_fwd_retained rq' = false /\
     exists st1 rs ns_ret ns_live tail,
       read_retained st (dr_filter rq) = Ok (st1, rs) /\
       Permutation.Permutation rs (map snd (matching_retained (dr_filter rq) (dl_retained (r_datalog st)))) /\
       out_of st' (o_link o) = out_of st (o_link o) ++ ns_ret ++ ns_live ++ tail /\
       (tail = [] \/ tail = [NUnschedule]) /\
       Forall2 (fun d n => exists p' pr', n = NForward None p' pr' /\ same_msg (dr_qos rq) (fst d) p' /\ p_retain p' = true)
               (firstnN slots rs) ns_ret /\
       Forall is_live_fwd ns_live))).
Proof.
  intros Hr Ht Hin H Ho. pose proof (reachable_tracker_requests _ _ _ _ _ Hr Ht Hin) as Hq.
  destruct (dr_fwd_retained rq) eqn:Ef.
  - right. split; [reflexivity|]. split; [exact (Hq Ef)|].
    pose proof (reachable_replay_exact _ _ _ _ _ _ _ _ Hr H Ho (Hq Ef)) as Hx. cbn zeta in *.
    destruct Hx as [Hx | (Hfl & sel & ns_ret & ns_live & tail & Hsel & Hout & _ & Htl & Hf1 & Hf2)]; [left; exact Hx | right].
    split; [exact Hfl|]. rewrite Ef in Hsel. destruct Hsel as (st1 & rs & Hrr & -> & Hp).
    exists st1, rs, ns_ret, ns_live, tail. auto 10.
  - left. split; [reflexivity|].
    eapply no_replay_without_flag; eauto. eapply reachable_LU; eauto.
Qed.
