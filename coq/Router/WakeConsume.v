(** RInv 3, part 3: the wake-up discipline through [forward_device_data], [consume_loop],
    [consume], [handle_new_connection]. *)
From Coq Require Import List ZifyBool ZifyN ZifyNat.
From Rumqtt Require Import Router.InvLemmasBase Router.WindowFrame Router.Window Router.Wake Router.WakeFrame.
From Rumqtt Require Import Router.Model Router.RunDefs.
Import ListNotations.

(* ------------------------------------------------------------------ the frame of a sweep *)
(** what [forward_device_data] for connection [id] does to the components the discipline
    reads: only [id]'s Outgoing changes (same link, the inflight buffer only grows) and the
    link buffers grow *)
Record swk (id : N) (st st' : rstate) : Prop := {
  sw_trk : r_trackers st' = r_trackers st;
  sw_acks : r_acks st' = r_acks st;
  sw_ready : r_ready st' = r_ready st;
  sw_out : forall k, In NUnschedule (out_of st k) -> In NUnschedule (out_of st' k);
  sw_other : forall w, w <> id -> slab_get (r_obufs st') w = slab_get (r_obufs st) w;
  sw_obuf : forall o', slab_get (r_obufs st') id = Some o' ->
            exists o, slab_get (r_obufs st) id = Some o /\ o_link o' = o_link o /\
                      (o_inflight o <> [] -> o_inflight o' <> [])
}.

Lemma swk_refl id st : swk id st st.
Proof. constructor; auto. intros o' G. exists o'. auto. Qed.
Lemma swk_trans id a b c : swk id a b -> swk id b c -> swk id a c.
Proof.
  intros [A1 A2 A3 A4 A5 A6] [B1 B2 B3 B4 B5 B6]. constructor; try congruence; auto.
  - intros w Hw. rewrite B5, A5 by exact Hw. reflexivity.
  - intros o3 G3. destruct (B6 _ G3) as (o2 & G2 & L2 & I2). destruct (A6 _ G2) as (o1 & G1 & L1 & I1).
    exists o1. split; [exact G1 | split; [congruence | auto]].
Qed.
Lemma swk_wle id st st' : wle st st' -> r_ready st' = r_ready st -> swk id st st'.
Proof.
  intros [E1 E2 E3 _ O] ER. constructor; auto.
  - intros w _. now rewrite E3.
  - intros o' G. rewrite E3 in G. exists o'. auto.
Qed.
Lemma swk_view id st st' : wview st' = wview st -> swk id st st'.
Proof. intros E. apply swk_wle; [now apply wle_view | unfold wview in E; congruence]. Qed.

Lemma swk_put_obuf id st o o' :
  slab_get (r_obufs st) id = Some o -> o_link o' = o_link o -> (o_inflight o <> [] -> o_inflight o' <> []) ->
  swk id st (put_obuf st id o').
Proof.
  intros G EL EI. constructor; rsimpl; auto.
  - intros w Hw. now rewrite slab_get_put_other by congruence.
  - intros o2 G2. rewrite (slab_get_put_occ _ _ _ _ G) in G2. inversion G2; subst o2. eauto.
Qed.

Lemma swk_push_out id st k ns st' len : push_out st k ns = Ok (st', len) -> swk id st st'.
Proof.
  intros H. apply swk_wle; [eapply push_out_wle; eauto |]. apply push_out_fields in H. rewrite H. reflexivity.
Qed.

Lemma WakeG_swk f id st st' owed : swk id st st' -> WakeG f st owed -> WakeG f st' owed.
Proof.
  intros [E1 E2 E3 O F5 F6] HW w t G1. rewrite E1 in G1. specialize (HW w t G1). revert HW.
  unfold wake_ok. rewrite E2, E3. destruct (f w); auto; destruct (tr_status t) as [| [ | | ]]; auto.
  - intros H o' G'. destruct (N.eq_dec w id) as [-> | Hne].
    + destruct (F6 _ G') as (o & G & _ & I). apply I. eauto.
    + rewrite F5 in G' by exact Hne. eauto.
  - intros H o' G'. destruct (N.eq_dec w id) as [-> | Hne].
    + destruct (F6 _ G') as (o & G & L & _). rewrite L. destruct (H o G); auto.
    + rewrite F5 in G' by exact Hne. destruct (H o' G'); auto.
  - intros H o' G'. destruct (N.eq_dec w id) as [-> | Hne].
    + destruct (F6 _ G') as (o & G & _ & I). apply I. eauto.
    + rewrite F5 in G' by exact Hne. eauto.
  - intros H o' G'. destruct (N.eq_dec w id) as [-> | Hne].
    + destruct (F6 _ G') as (o & G & L & _). rewrite L. destruct (H o G); auto.
    + rewrite F5 in G' by exact Hne. destruct (H o' G'); auto.
Qed.

Lemma fdd_retained_wv st rq slots1 st1 rq1 retained slots2 :
  fdd_retained st rq slots1 = Ok (st1, rq1, retained, slots2) -> wview st1 = wview st.
Proof.
  unfold fdd_retained. intros H. destruct (dr_fwd_retained rq).
  - apply bind_ok in H as ([st' rs] & H1 & H). cbv zeta in H. inv_ok. eapply read_retained_wv; eauto.
  - now inv_ok.
Qed.

Lemma fdd_push_swk st1 id o conn sg rq2 publishes caughtup st' rq' cs :
  fdd_push st1 id o conn sg rq2 publishes caughtup = Ok (st', rq', cs) ->
  slab_get (r_obufs st1) id = Some o ->
  swk id st1 st' /\ cs <> SInflightFull /\
  (cs = BufferFull -> forall o', slab_get (r_obufs st') id = Some o' -> In NUnschedule (out_of st' (o_link o'))).
Proof.
  unfold fdd_push. intros H Go. cbv zeta in H.
  destruct (2 <? dr_qos rq2); [discriminate |].
  destruct (alias_forwards (c_baliases conn) (dr_qos rq2) (al_get str_eqb (dr_filter rq2) (c_subids conn)) publishes)
    as [bal forwards] eqn:EA.
  match type of H with (match ?x with _ => _ end) = _ => destruct x as [o1 notifs] eqn:E1 end.
  apply bind_ok in H as ([st4 len] & H4 & H).
  apply bind_ok in H as (st5 & H5 & H).
  set (st2 := put_conn st1 id (set_c_baliases conn bal)) in *.
  set (st3 := put_obuf st2 id o1) in *.
  assert (K1 : o_link o1 = o_link o /\ (o_inflight o <> [] -> o_inflight o1 <> [])).
  { destruct (dr_qos rq2 =? 0); [inversion E1; subst; auto |].
    apply number_forwards_spec in E1 as (_ & L & _ & new & EN & _). split; [exact L |].
    rewrite EN. intros Hn E. apply app_eq_nil in E as [E _]. contradiction. }
  destruct K1 as [K1 K2].
  assert (A : swk id st1 st4).
  { eapply swk_trans; [apply (swk_view id st1 st2); reflexivity |].
    eapply swk_trans; [apply (swk_put_obuf id st2 o o1); auto | eapply swk_push_out; eauto]. }
  assert (B : wview st5 = wview st4).
  { destruct sg as [[name g0] |]; [| now inv_ok].
    destruct (al_get str_eqb name (r_groups st4)) as [g |]; [| now inv_ok].
    apply bind_ok in H5 as ([s g'] & H5 & H6). inv_ok.
    apply update_next_client_wv in H5. rewrite <- H5. reflexivity. }
  assert (G5 : slab_get (r_obufs st5) id = Some o1).
  { unfold wview in B. inversion B as [[E1' E2' E3 E4' E5']]. rewrite E3.
    apply push_out_fields in H4. rewrite H4. unfold st3. rsimpl. eapply slab_get_put_occ; eauto. }
  destruct (MAX_CHANNEL_CAPACITY - 1 <=? len).
  - apply bind_ok in H as ([st6 l6] & H6 & H). inv_ok.
    split; [| split; [discriminate |]].
    + eapply swk_trans; [exact A |]. eapply swk_trans; [apply swk_view; exact B | eapply swk_push_out; eauto].
    + intros _ o' G'. pose proof (push_out_out _ _ _ _ _ (o_link o1) H6) as O. rewrite N.eqb_refl in O.
      apply push_out_fields in H6. rewrite H6 in G'. rsimpl. rewrite G5 in G'. inversion G'; subst o'.
      rewrite O. apply in_or_app. right. now left.
  - inv_ok. split; [| split; [destruct caughtup; discriminate | destruct caughtup; discriminate]].
    eapply swk_trans; [exact A |]. apply swk_view. exact B.
Qed.

Theorem fdd_swk st id rq st' rq' cs :
  forward_device_data st id rq = Ok (st', rq', cs) ->
  swk id st st' /\
  (cs = SInflightFull -> forall o', slab_get (r_obufs st') id = Some o' -> o_inflight o' <> []) /\
  (cs = BufferFull -> forall o', slab_get (r_obufs st') id = Some o' -> In NUnschedule (out_of st' (o_link o'))).
Proof.
  rewrite fdd_alt_eq. unfold fdd_alt, get_obuf. intros H.
  destruct (slab_get (r_obufs st) id) as [o |] eqn:G; [| discriminate]. cbn [bind] in H.
  destruct (slab_get (r_conns st) id) as [conn |] eqn:Gc; [| discriminate]. cbn [bind] in H.
  cbv zeta in H.
  set (sg := match dr_group rq with
             | Some name => match al_get str_eqb name (r_groups st) with
                            | Some g => Some (name, g) | None => None end
             | None => None end) in *.
  set (rq0 := match sg with Some (_, g) => set_dr_cursor rq (g_cursor g) | None => rq end) in *.
  apply bind_ok in H as (slots0 & HS & H).
  destruct (negb (dr_qos rq0 =? 0) && (slots0 =? 0)) eqn:EF.
  { inv_ok. split; [apply swk_refl |]. split; [| discriminate]. intros _ o' G'. rewrite G in G'. inversion G'; subst o'.
    apply andb_prop in EF as [E1 E2]. rewrite E1 in HS. apply free_slots_spec in HS.
    intros E. rewrite E, lenN_nil, MAX_INFLIGHT_100 in HS. lia. }
  apply bind_ok in H as ([[[st1 rq1] retained] slots2] & HR & H).
  apply fdd_retained_wv in HR.
  apply bind_ok in H as (d & _ & H). apply bind_ok in H as ([pos from_log] & HV & H).
  destruct (match pos with Next s e => (s, e, false) | Done s e => (s, e, true) end) as [[start next] caughtup].
  assert (S1 : swk id st st1) by (now apply swk_view).
  match type of H with (if ?b then _ else _) = _ => destruct b end.
  { inv_ok. split; [exact S1 |]. split; intros E; exfalso; revert E;
      match goal with |- context [if ?b then _ else _] => destruct b end; discriminate. }
  match type of H with match ?l with [] => _ | _ => _ end = _ => remember l as publishes eqn:EP end.
  destruct publishes; [inv_ok; split; [exact S1 | split; discriminate] |].
  assert (G1 : slab_get (r_obufs st1) id = Some o).
  { unfold wview in HR. inversion HR as [[E1' E2' E3 E4' E5']]. now rewrite E3. }
  destruct (fdd_push_swk _ _ _ _ _ _ _ _ _ _ _ H G1) as (S2 & N2 & B2).
  split; [eapply swk_trans; eauto |]. split; [intros E; contradiction | exact B2].
Qed.

(* ------------------------------------------------------------------ pause *)
Lemma pause_explicit st id why st' :
  pause st id why = Ok st' ->
  exists init t, r_ready st = init ++ [id] /\ slab_get (r_trackers st) id = Some t /\
                 st' = put_tracker (set_r_ready st init) id (set_tr_status t (Paused why)).
Proof.
  unfold pause. intros H. destruct (split_last_n (r_ready st)) as [[init last] |] eqn:ES; [| discriminate].
  apply split_last_n_spec in ES. destruct (N.eqb_spec last id) as [-> | Hne]; [| discriminate].
  unfold get_tracker in H. rsimpl. destruct (slab_get (r_trackers st) id) as [t |] eqn:G; [| discriminate].
  cbn [bind] in H. inv_ok. exists init, t. auto.
Qed.

(** pausing [id] with a justified reason *)
Lemma pause_wake f st owed id why st' :
  WakeG f st owed -> pause st id why = Ok st' ->
  (forall t, slab_get (r_trackers st) id = Some t ->
     wake_ok (f id) st owed id (set_tr_status t (Paused why))) ->
  WakeG f st' owed.
Proof.
  intros HW H J. apply pause_explicit in H as (init & t & ER & G & ->).
  eapply (WakeG_upd _ _ id); [exact HW | | intros; apply mode_le_refl |].
  - constructor; rsimpl.
    + intros w Hw. now rewrite slab_get_put_other by lia.
    + reflexivity.
    + reflexivity.
    + intros w Hw Hin. rewrite ER in Hin. apply in_app_or in Hin as [X | [X | []]]; [exact X | congruence].
    + auto.
  - intros t2 G1. rsimpl. rewrite (slab_get_put_occ _ _ _ _ G) in G1. inversion G1; subst t2.
    specialize (J t G). revert J. unfold wake_ok. cbn [tr_status set_tr_status tr_reqs]. rsimpl.
    destruct (f id); auto; destruct why; auto.
Qed.

Lemma trackv_explicit st id rqs st' :
  trackv st id rqs = Ok st' ->
  exists t, slab_get (r_trackers st) id = Some t /\ st' = put_tracker st id (set_tr_reqs t (tr_reqs t ++ rqs)).
Proof.
  unfold trackv, get_tracker. intros H. destruct (slab_get (r_trackers st) id) as [t |] eqn:G; [| discriminate].
  cbn [bind] in H. inv_ok. eauto.
Qed.

(** giving requests back to a tracker that is not [Paused Caughtup] (or giving none back) *)
Lemma trackv_wake f st owed id rqs st' :
  WakeG f st owed -> trackv st id rqs = Ok st' ->
  (forall t, slab_get (r_trackers st) id = Some t -> tr_status t = Paused Caughtup -> rqs = []) ->
  WakeG f st' owed.
Proof.
  intros HW H J. apply trackv_explicit in H as (t & G & ->).
  eapply put_tracker_wake; [exact HW | exact G | reflexivity |].
  cbn [tr_reqs set_tr_reqs]. intros ES ->. now rewrite (J t G ES).
Qed.

(* ------------------------------------------------------------------ consume_loop *)
Definition tstatus (st : rstate) (id : N) : option status := option_map tr_status (slab_get (r_trackers st) id).
Definition nothing_held (st : rstate) (id : N) : Prop :=
  (forall t, slab_get (r_trackers st) id = Some t -> tr_reqs t = []) /\
  (forall a, slab_get (r_acks st) id = Some a -> a_committed a = []).

Lemma nothing_held_eq st st' id :
  r_trackers st' = r_trackers st -> r_acks st' = r_acks st -> nothing_held st id -> nothing_held st' id.
Proof. unfold nothing_held. intros -> ->. auto. Qed.

Lemma consume_loop_wake f owed id : forall fuel st requests skipped st',
  WakeG f st owed -> nothing_held st id ->
  (tstatus st id = Some (Paused Caughtup) -> requests = [] /\ skipped = []) ->
  consume_loop fuel st id requests skipped = Ok st' ->
  WakeG f st' owed.
Proof.
  induction fuel as [| fuel IH]; intros st requests skipped st' HW NH HC H; cbn [consume_loop] in H.
  - eapply trackv_wake; [exact HW | exact H |]. intros t G ES.
    destruct HC as [-> ->]; [unfold tstatus; now rewrite G, <- ES | reflexivity].
  - destruct requests as [| rq rest].
    + apply bind_ok in H as (st1 & H1 & H). destruct skipped as [| s sk].
      * eapply trackv_wake; [| exact H | reflexivity].
        eapply pause_wake; [exact HW | exact H1 |]. intros t G.
        unfold wake_ok. cbn [tr_status set_tr_status tr_reqs]. destruct NH as [N1 N2].
        destruct (f id); auto; (split; [now apply N1 | right; exact N2]).
      * inv_ok. eapply trackv_wake; [exact HW | exact H |]. intros t G ES.
        destruct HC as [_ C]; [unfold tstatus; now rewrite G, <- ES | discriminate].
    + apply bind_ok in H as ([[st1 rq'] status] & H1 & H).
      destruct (fdd_swk _ _ _ _ _ _ H1) as (S1 & FI & FB).
      pose proof (WakeG_swk f _ _ _ _ S1 HW) as W1.
      pose proof S1 as [E1 E2 E3 _ _ _].
      assert (NH1 : nothing_held st1 id) by (eapply nothing_held_eq; eauto).
      assert (HC1 : tstatus st1 id = tstatus st id) by (unfold tstatus; now rewrite E1).
      assert (NC : tstatus st1 id <> Some (Paused Caughtup)).
      { rewrite HC1. intros C. destruct (HC C). discriminate. }
      destruct status.
      * (* BufferFull *)
        apply bind_ok in H as (st2 & H2 & H).
        eapply trackv_wake; [| exact H |].
        -- eapply pause_wake; [exact W1 | exact H2 |]. intros t G.
           unfold wake_ok. cbn [tr_status set_tr_status]. destruct (f id); auto; intros o' G'; left; now apply FB.
        -- intros t G ES. apply pause_explicit in H2 as (init & t0 & _ & G0 & ->). rsimpl.
           rewrite (slab_get_put_occ _ _ _ _ G0) in G. inversion G; subst t. discriminate.
      * (* InflightFull *)
        apply bind_ok in H as (st2 & H2 & H).
        eapply trackv_wake; [| exact H |].
        -- eapply pause_wake; [exact W1 | exact H2 |]. intros t G.
           unfold wake_ok. cbn [tr_status set_tr_status]. destruct (f id); auto; intros o' G'; now apply FI.
        -- intros t G ES. apply pause_explicit in H2 as (init & t0 & _ & G0 & ->). rsimpl.
           rewrite (slab_get_put_occ _ _ _ _ G0) in G. inversion G; subst t. discriminate.
      * (* FilterCaughtup: park *)
        apply bind_ok in H as (st2 & H2 & H). apply park_wv in H2. unfold wview in H2. inversion H2 as [[P1 P2 P3 P4 P5]].
        eapply IH; [| | | exact H].
        -- eapply WakeG_wle; [apply wle_view; exact H2 | exact W1].
        -- eapply nothing_held_eq; eauto.
        -- unfold tstatus. rewrite P1. intros C. contradiction.
      * (* PartialRead *)
        eapply IH; [exact W1 | exact NH1 | | exact H]. intros C. contradiction.
      * (* SkipRequest *)
        eapply IH; [exact W1 | exact NH1 | | exact H]. intros C. contradiction.
Qed.

(* ------------------------------------------------------------------ consume *)
Lemma ack_device_data_explicit st id o st' :
  ack_device_data st id o = Ok st' ->
  exists l, slab_get (r_acks st) id = Some l /\
    (st' = st /\ a_committed l = [] \/
     exists st1 len, st1 = put_acks st id (set_a_committed l []) /\
                     push_out st1 (o_link o) (map NAck (a_committed l)) = Ok (st', len)).
Proof.
  unfold ack_device_data, get_acks. intros H. destruct (slab_get (r_acks st) id) as [l |] eqn:G; [| discriminate].
  cbn [bind] in H. exists l. split; [reflexivity |].
  destruct (a_committed l) eqn:EC; [left; now inv_ok |]. right.
  apply bind_ok in H as ([st2 n] & H2 & H). inv_ok. eauto.
Qed.

Theorem consume_wake st owed st' b : WakeS st owed -> consume st = Ok (st', b) -> WakeS st' owed.
Proof.
  unfold consume. intros HW H.
  destruct (r_ready st) as [| id rest] eqn:ER; [now inv_ok |].
  rsimpl. destruct (slab_get (r_trackers st) id) as [t |] eqn:G.
  2:{ inv_ok. (* a stale id: dropped *)
      intros w t G1. rsimpl. specialize (HW w t G1). eapply wake_ok_transfer; [| | | | exact HW]; rsimpl; auto.
      rewrite ER. intros [-> | X]; [congruence | exact X]. }
  cbv zeta in H.
  set (st2 := set_r_ready (put_tracker (set_r_ready st rest) id (set_tr_reqs t [])) (rest ++ [id])) in *.
  change (slab_get (r_obufs st) id) with (slab_get (r_obufs st2) id) in H.
  assert (W2 : WakeS st2 owed).
  { eapply (WakeG_upd _ _ id); [exact HW | | intros; apply mode_le_refl |].
    - unfold st2. constructor; rsimpl.
      + intros w Hw. now rewrite slab_get_put_other by lia.
      + reflexivity.
      + reflexivity.
      + intros w Hw Hin. rewrite ER in Hin. destruct Hin as [-> | X]; [congruence |]. apply in_or_app. now left.
      + auto.
    - intros t2 G1. unfold st2 in G1. rsimpl. rewrite (slab_get_put_occ _ _ _ _ G) in G1. inversion G1; subst t2.
      specialize (HW id t G). revert HW. unfold wake_ok, strict, st2. cbn [tr_status set_tr_reqs tr_reqs]. rsimpl.
      destruct (tr_status t) as [| [ | | ]]; auto.
      + intros _. apply in_or_app. right. now left.
      + intros [_ X]. auto. }
  destruct (slab_get (r_obufs st2) id) as [o |] eqn:Go; [| now inv_ok].
  apply bind_ok in H as (st3 & H3 & H). apply bind_ok in H as (u & _ & H). apply bind_ok in H as (st4 & H4 & H). inv_ok.
  assert (G2 : slab_get (r_trackers st2) id = Some (set_tr_reqs t []))
    by (unfold st2; rsimpl; eapply slab_get_put_occ; eauto).
  (* after the flush of the committed acks *)
  assert (A3 : WakeS st3 owed /\ r_trackers st3 = r_trackers st2 /\
               (forall a, slab_get (r_acks st3) id = Some a -> a_committed a = [])).
  { apply ack_device_data_explicit in H3 as (l & Gl & [[-> EC] | (st1 & len & -> & HP)]).
    - split; [exact W2 | split; [reflexivity |]]. intros a Ga. rewrite Gl in Ga. inversion Ga; now subst.
    - pose proof (push_out_wle _ _ _ _ _ HP) as L. pose proof L as [E1 E2 E3 _ _].
      split; [| split; [now rewrite E1 |]].
      + eapply WakeG_wle; [exact L |].
        eapply WakeG_upd; [exact W2 | apply wfr_put_acks | intros; apply mode_le_refl |].
        intros t2 G1. rsimpl. specialize (W2 id t2 G1). revert W2. unfold wake_ok, strict. rsimpl.
        rewrite (slab_get_put_occ _ _ _ _ Gl).
        destruct (tr_status t2) as [| [ | | ]]; auto. intros [X _]. split; [exact X | right].
        intros a Ga. inversion Ga. reflexivity.
      + rewrite E2. rsimpl. rewrite (slab_get_put_occ _ _ _ _ Gl). intros a Ga. inversion Ga. reflexivity. }
  destruct A3 as (W3 & T3 & C3).
  eapply consume_loop_wake; [exact W3 | | | exact H4].
  - split; [| exact C3]. intros t3 G3. rewrite T3, G2 in G3. inversion G3. reflexivity.
  - unfold tstatus. rewrite T3, G2. cbn [option_map tr_status set_tr_reqs]. intros C. inversion C as [ES].
    specialize (HW id t G). unfold wake_ok, strict in HW. rewrite ES in HW. destruct HW as [X _]. auto.
Qed.

(* ------------------------------------------------------------------ handle_new_connection *)
Definition gbusy (o : option session) : Prop :=
  match o with Some ss => tr_status (ss_tracker ss) = Paused Busy | None => True end.
(** every tracker saved in the graveyard is [Paused Busy] (a clause of [RInv]) *)
Definition GraveBusy (st : rstate) : Prop := Forall (fun kv => gbusy (snd kv)) (r_graveyard st).

Lemma handle_disconnection_grave st id reason st' :
  GraveBusy st -> handle_disconnection st id reason = Ok st' -> GraveBusy st'.
Proof.
  unfold handle_disconnection, GraveBusy. intros GB H.
  destruct (slab_get (r_obufs st) id) as [o0 |]; [| now inv_ok].
  apply bind_ok in H as (st0 & H0 & H).
  assert (E0 : r_graveyard st0 = r_graveyard st).
  { destruct reason; [| now inv_ok]. apply bind_ok in H0 as ([s l] & H0 & H1). inv_ok.
    apply push_out_fields in H0. rewrite H0. reflexivity. }
  rewrite <- E0 in GB.
  break_all H; inv_ok; rsimpl;
    (apply Forall_al_set; [apply Forall_al_remove; exact GB | cbn [gbusy ss_tracker tr_status]; auto]).
Qed.

Lemma newconn_wake st1 st2 owed id trk a o st' :
  WakeS st1 owed ->
  slab_insert (r_trackers st1) trk = (r_trackers st2, id) ->
  slab_insert (r_acks st1) a = (r_acks st2, id) ->
  slab_insert (r_obufs st1) o = (r_obufs st2, id) ->
  r_ready st2 = r_ready st1 -> r_links st2 = r_links st1 -> tr_status trk = Paused Busy ->
  reschedule st2 id SInit = Ok st' -> WakeS st' owed.
Proof.
  intros HW It Ia Io ER EL EB H.
  assert (F : wfr id st1 st2).
  { constructor; intros.
    - rewrite (slab_insert_get _ _ _ _ w It). destruct (N.eqb_spec w id); [contradiction | reflexivity].
    - rewrite (slab_insert_get _ _ _ _ w Ia). destruct (N.eqb_spec w id); [contradiction | reflexivity].
    - rewrite (slab_insert_get _ _ _ _ w Io). destruct (N.eqb_spec w id); [contradiction | reflexivity].
    - now rewrite ER.
    - unfold out_of in *. now rewrite EL. }
  pose proof (reschedule_wfr _ _ _ _ H) as F2.
  apply reschedule_explicit in H as (t & t' & woke & G & HT & E).
  assert (t = trk).
  { rewrite (slab_insert_get _ _ _ _ id It), N.eqb_refl in G. destruct (slab_get (r_trackers st2) id); now inversion G. }
  subst t. destruct (try_ready_wakes _ _ _ _ _ Busy HT EB eq_refl) as [-> ES].
  apply (proj2 (WakeS_only id st' owed)).
  eapply WakeG_upd; [apply (proj1 (WakeS_only id st1 owed)); exact HW | eapply wfr_trans; eauto | intros; apply mode_le_refl |].
  rewrite only_same. intros t2 G1. subst st'. rsimpl. rewrite (slab_get_put_occ _ _ _ _ G) in G1. inversion G1; subst t2.
  unfold wake_ok. rewrite ES. rsimpl. apply in_or_app. right. now left.
Qed.

Theorem handle_new_connection_wake st owed conn link st' :
  WakeS st owed -> GraveBusy st -> handle_new_connection st conn link = Ok st' -> WakeS st' owed.
Proof.
  unfold handle_new_connection. intros HW GB H.
  destruct (negb (validate_clientid (c_client conn))); [now inv_ok |].
  apply bind_ok in H as (st1 & H1 & H).
  assert (A1 : WakeS st1 owed /\ GraveBusy st1).
  { destruct (al_get str_eqb (c_client conn) (r_cmap st)) as [cid |]; [| now inv_ok].
    split; [| eapply handle_disconnection_grave; eauto].
    eapply handle_disconnection_wake; [apply (proj1 (WakeS_only cid st owed)); exact HW | exact H1 | now left]. }
  destruct A1 as [W1 GB1]. clear H1 HW GB.
  destruct (cf_max_connections (r_cfg st1) <=? slab_len (r_conns st1)); [now inv_ok |].
  (* the tracker the new connection starts with is Paused Busy *)
  assert (TB : forall ss, al_get str_eqb (c_client conn) (r_graveyard st1) = Some (Some ss) ->
                          tr_status (ss_tracker ss) = Paused Busy).
  { intros ss E. exact (al_get_Forall_snd _ gbusy _ _ _ GB1 E). }
  unfold dbg_no_dups in H. break_all H; inv_ok.
  all: match goal with E : negb _ = false |- _ => apply negb_false_iff in E end.
  all: repeat match goal with E : _ && _ = true |- _ => apply andb_prop in E as [? ?] end.
  all: repeat match goal with E : (_ =? _) = true |- _ => apply N.eqb_eq in E end; subst.
  all: match goal with E : reschedule _ _ SInit = Ok _ |- _ =>
         eapply (newconn_wake st1); [exact W1 | | | | | | | exact E] end; rsimpl; try eassumption; try reflexivity.
  all: eauto.
Qed.
