(** C08 at the level of whole runs — the theorems.

    Setting: [run_hyps cfg st0 ops st tr] (TraceRunThm.v): a run from [init] with well-formed
    operations that ends in [st] (logs below 2^62 entries) with delivery trace [tr].  An epoch is a
    link number.  [KEnd cl r w] under key (L1, f, i): the connection of [cl] on link L1
    (clean_session = false) was removed — Disconnect event, DISCONNECT packet, router-initiated
    close or take-over —, its request for (f, i) was saved with the cursor offset [r] (the RESUME
    POINT), [w] = the offsets in its window of log i.  [KRes cl c0] under (L2, f, i): a Connect of
    [cl] restored that request on the new link L2 with cursor offset [c0].

    (a) [run_resume]: every [KRes cl c0] under (L2, f, i) is preceded by a [KEnd cl c0 w] under
        some (L1, f, i), L1 < L2, with no end/resume marker of [cl] for (f, i) in between; c0 is
        the head of [w] (the oldest window entry of log i) if [w] is not empty and else the place
        where the trace of (L1, f, i) continues; the trace of (L2, f, i) starts with that marker,
        and its next event starts at c0.
    (b), (c) [run_window]: under [NoShare] all along the run (the connection of link L1 never
        tracks a shared request reading log i when an operation starts), the QoS>0 forwards of
        (L1, f, i) before the end marker are [l1 ++ w]: everything in [w] is >= r, everything in
        [l1] (acknowledged in order) is < r.  [run_nowindow]: if [w] is empty, EVERY forward of
        (L1, f, i) is < r.  [res_fwd_ge]: what is forwarded under (L2, f, i) is >= c0 (a first
        jump after the marker goes FORWARD, to the log's base: TraceRunBound.v).
    (d) [run_away_complete]: quiescent end, connection of L2 alive: every offset from c0 to the end
        of log i is accounted for after the marker.
    (e) [run_clean_connect_no_res]: the epoch of a Connect with clean_session = true has no resume
        marker; [run_clean_disconnect_no_end]: the connection it creates never produces an end
        marker ([TraceResumeClean.v]: c_clean of a connection record and o_link of its Outgoing never
        change while the connection lives). *)
From Rumqtt Require Import Router.NoPanicLog.
From Rumqtt Require Import Router.Model Router.InvLemmasBase Router.Inv Router.InvLemmasPrim Router.InvLemmasSched
  Router.InvLemmasDl Router.InvLemmasRoute Router.InvLemmasConn Router.InvLemmasPkt Router.InvLemmasConsume
  Router.NoPanic Router.NoPanicDevBase Router.NoPanicDevInv Router.NoPanicDev1 Router.NoPanicDev2 Router.NoPanicDev3 Router.NoPanicDev4.
From Rumqtt Require Import Router.ExactLoc1 Router.ExactLoc2 Router.ExactLoc3.
From Rumqtt Require Import Log.Proofs Router.ExactLog Topic.Proofs.
From Rumqtt Require Import Router.WindowFrame Router.Window Router.WindowStep Router.DataLogInv Router.DataLogStep
                           Router.ExactInv Router.ExactStep1 Router.ExactStep2 Router.ExactStep3 Router.ExactLogs
                           Router.ExactSweep Router.ExactThm.
From Rumqtt Require Import Router.Wake Router.WakePark Router.WakeThm Router.WakeCor.
From Rumqtt Require Router.Session Router.SessionInv Router.SessionIds Router.TraceResumeClean.
From Rumqtt Require Import Router.TraceRun Router.TraceRunHeld Router.TraceRunInv Router.TraceRunPkt Router.TraceRunSweep
                           Router.TraceRunStep Router.TraceRunThm Router.TraceRunContent Router.TraceRunShape Router.TraceRunFinal
                           Router.TraceResume Router.TraceResumeWin Router.TraceResumeEnd.
From Rumqtt Require Import Router.Model Router.RunDefs.
From Coq Require Import List ZifyBool ZifyN ZifyNat Sorted.
Import ListNotations.

(* ------------------------------------------------------------------ chains after a resume marker *)
Lemma ktrace_res_head K tr1 id cl c0 tr2 :
  kchain (ktrace K (tr1 ++ (id, K, KRes cl c0) :: tr2)) ->
  ktrace K tr1 = [] /\ kchain_from (KRes cl c0) (ktrace K tr2).
Proof.
  rewrite ktrace_app, ktrace_cons_same by reflexivity. intros H.
  destruct (ktrace K tr1) as [|a l] eqn:E; [split; [reflexivity|exact H]|exfalso].
  cbn [app kchain] in H. assert (X : In (KRes cl c0) (l ++ KRes cl c0 :: ktrace K tr2)) by (apply in_or_app; right; now left).
  destruct (kchain_from_nores _ _ H _ X) as [Y _]. discriminate.
Qed.

(** what is forwarded after a resume marker lies at or after its offset *)
Lemma res_fwd_ge cl c0 l2 :
  kchain_from (KRes cl c0) l2 -> forall y, In y (fwd_offs l2) -> c0 <= y.
Proof.
  destruct l2 as [|b l]; [intros _ y []|]. cbn [kchain_from]. intros [H1 H2] y Hy.
  assert (Hb : is_res b = false) by (destruct b; cbn [ok_next] in H1; try contradiction; reflexivity).
  assert (Hy' : nxt b <= y \/ exists p, b = KFwd y p).
  { apply fwd_offs_In in Hy as (p & [E | Hp]); [right; eauto|left]. eapply kchain_from_fwd_ge; eassumption. }
  destruct b as [off p|from to|e|cl' c'|cl' r' w']; cbn [ok_next nxt is_res] in *; try contradiction.
  - destruct Hy' as [Hy' | (q & E)]; [lia|]. inversion E; lia.
  - destruct Hy' as [Hy' | (q & E)]; [lia|discriminate].
  - destruct Hy' as [Hy' | (q & E)]; [lia|discriminate].
Qed.

(** every forwarded offset of a chain lies before the place where its last event continues *)
Lemma kchain_fwd_lt_last l a : kchain l -> last_opt l = Some a -> forall x, In x (fwd_offs l) -> x < nxt a.
Proof.
  intros Hc Hl x Hx. apply fwd_offs_In in Hx as (p & Hp). apply in_split in Hp as (la & lb & ->).
  pose proof (kchain_suffix _ _ _ Hc) as Hs.
  rewrite last_opt_app_ne in Hl by discriminate. rewrite last_opt_cons_lastd in Hl. inversion Hl; subst a.
  unfold lastd. destruct (last_opt lb) as [b|] eqn:Eb; [|cbn [nxt]; lia].
  assert (Hin : In b lb).
  { clear -Eb. induction lb as [|y lb IH]; [discriminate|]. destruct lb as [|z lb]; [inversion Eb; now left|right; apply IH; exact Eb]. }
  pose proof (kchain_from_mono _ _ Hs eq_refl _ Hin) as H. cbn [nxt] in H. lia.
Qed.

Lemma increasing_app_lt a b : increasing (a ++ b) -> forall x y, In x a -> In y b -> x < y.
Proof.
  unfold increasing. induction a as [|z a IH]; intros H x y Hx Hy; [destruct Hx|]. cbn [app] in H.
  inversion H as [|? ? Hs Hf]; subst. destruct Hx as [<- | Hx]; [|eapply IH; eassumption].
  rewrite Forall_forall in Hf. apply Hf. apply in_or_app. now right.
Qed.

Lemma increasing_app_r a b : increasing (a ++ b) -> increasing b.
Proof. unfold increasing. induction a as [|z a IH]; intros H; [exact H|]. inversion H; subst. auto. Qed.

Lemma increasing_head_le x l : increasing (x :: l) -> forall y, In y (x :: l) -> x <= y.
Proof. intros H y [<- | Hy]; [lia|]. inversion H as [|? ? _ Hf]; subst. rewrite Forall_forall in Hf. specialize (Hf _ Hy). lia. Qed.

(* ------------------------------------------------------------------ prefixes of runs *)
Lemma run_d_app_inv : forall ops1 ops2 st st2 tr,
  run_d st (ops1 ++ ops2) = Ok (st2, tr) ->
  exists s1 tr1 tr2, run_d st ops1 = Ok (s1, tr1) /\ run_d s1 ops2 = Ok (st2, tr2) /\ tr = tr1 ++ tr2.
Proof.
  induction ops1 as [|[orc o] r IH]; intros ops2 st st2 tr H; cbn [app run_d] in *.
  - exists st, [], tr. auto.
  - apply bind_ok in H as ([[s1 out] evs] & H1 & H). apply bind_ok in H as ([s2 evs2] & H2 & H). inv_ok.
    destruct (IH _ _ _ _ H2) as (s & t1 & t2 & E1 & E2 & ->). exists s, (evs ++ t1), t2.
    rewrite H1. cbn [bind]. rewrite E1. cbn [bind]. split; [reflexivity|]. split; [exact E2|now rewrite app_assoc].
Qed.

Lemma run_hyps_prefix cfg st0 ops1 ops2 st tr :
  run_hyps cfg st0 (ops1 ++ ops2) st tr ->
  exists s1 tr1 tr2, run_hyps cfg st0 ops1 s1 tr1 /\ run_d s1 ops2 = Ok (st, tr2) /\ tr = tr1 ++ tr2.
Proof.
  intros (Hcfg & Hmo & Hi & Hwf & Hr & HB). destruct (run_d_app_inv _ _ _ _ _ Hr) as (s1 & tr1 & tr2 & E1 & E2 & ->).
  exists s1, tr1, tr2. split; [|auto]. apply Forall_app in Hwf as [Hwf1 _].
  split; [exact Hcfg|]. split; [exact Hmo|]. split; [exact Hi|]. split; [exact Hwf1|]. split; [exact E1|].
  pose proof (init_cinv _ _ Hmo Hi) as [LI0 _].
  destruct (run_LL _ _ _ (run_d_run _ _ _ _ E1) LI0) as [LI1 _].
  destruct (run_LL _ _ _ (run_d_run _ _ _ _ E2) LI1) as [_ L2]. eapply bounded_le; eassumption.
Qed.

(* ------------------------------------------------------------------ one filter per log *)
Lemma run_idx_filter cfg st0 ops st tr :
  run_hyps cfg st0 ops st tr ->
  forall id k f i a id' k' f' a', In (id, (k, f, i), a) tr -> In (id', (k', f', i), a') tr -> f = f'.
Proof.
  intros (_ & _ & Hi & _ & Hr & _) id k f i a id' k' f' a' H1 H2.
  destruct (run_key_shape _ _ _ _ _ Hi Hr _ _ _ _ _ H1) as [_ E1].
  destruct (run_key_shape _ _ _ _ _ Hi Hr _ _ _ _ _ H2) as [_ E2].
  pose proof (run_dlinv cfg st0 ops st Hi (run_d_run _ _ _ _ Hr)) as HDL.
  destruct (dli_findex _ HDL _ _ (al_get_In _ _ _ E1)) as (d1 & Hd1 & <-).
  destruct (dli_findex _ HDL _ _ (al_get_In _ _ _ E2)) as (d2 & Hd2 & <-). congruence.
Qed.

(* ------------------------------------------------------------------ (a) *)
Theorem run_resume cfg st0 ops st tr :
  run_hyps cfg st0 ops st tr ->
  forall tr1 id2 L2 f i cl c0 tr2, tr = tr1 ++ (id2, (L2, f, i), KRes cl c0) :: tr2 ->
  exists id1 L1 w ta tb a l2,
    tr1 = ta ++ (id1, (L1, f, i), KEnd cl c0 w) :: tb /\ quiet cl f i tb /\ L1 < L2 /\
    last_opt (ktrace (L1, f, i) ta) = Some a /\ c0 = match w with x :: _ => x | [] => nxt a end /\
    ktrace (L2, f, i) tr = KRes cl c0 :: l2 /\
    match l2 with
    | KFwd off _ :: _ => off = c0
    | KJump from to :: _ => from = c0 /\ c0 <= to
    | KSub e :: _ => c0 <= e
    | _ :: _ => False
    | [] => True
    end.
Proof.
  intros H tr1 id2 L2 f i cl c0 tr2 E.
  destruct (run_resume_point _ _ _ _ _ H _ _ _ _ _ _ _ _ E) as (id1 & L1 & w & ta & tb & E1 & Hq & Hlt).
  destruct (ei_from_init 0 0 False _ _ _ _ _ H (fun g : False => match g with end)) as [_ HE].
  assert (E' : tr = ta ++ (id1, (L1, f, i), KEnd cl c0 w) :: (tb ++ (id2, (L2, f, i), KRes cl c0) :: tr2))
    by (rewrite E, E1, <- app_assoc; reflexivity).
  destruct (HE _ _ _ E' eq_refl) as [_ (a & Ha & Hc0)].
  pose proof (run_chain _ _ _ _ _ H (L2, f, i)) as Hch. rewrite E in Hch.
  destruct (ktrace_res_head _ _ _ _ _ _ Hch) as [Hnil Hfrom].
  exists id1, L1, w, ta, tb, a, (ktrace (L2, f, i) tr2).
  split; [exact E1|]. split; [exact Hq|]. split; [exact Hlt|]. split; [exact Ha|]. split; [exact Hc0|].
  split; [rewrite E, ktrace_app, Hnil, ktrace_cons_same by reflexivity; reflexivity|].
  destruct (ktrace (L2, f, i) tr2) as [|b l]; [exact I|]. cbn [kchain_from] in Hfrom. destruct Hfrom as [Hb _].
  destruct b; cbn [ok_next nxt] in Hb; try contradiction; try exact Hb. destruct Hb as [-> Hb]. auto.
Qed.

(* ------------------------------------------------------------------ (b), (c): the window at the end of an epoch *)
Theorem run_window cfg st0 ops st tr L1 i :
  run_hyps cfg st0 ops st tr -> always_b (noshare_b L1 i) st0 ops = true ->
  forall ta id1 f cl r w tb, tr = ta ++ (id1, (L1, f, i), KEnd cl r w) :: tb ->
  exists l1,
    qfo (ktrace (L1, f, i) ta) = l1 ++ w /\
    (forall x, In x w -> r <= x) /\
    (forall x, In x l1 -> x < r).
Proof.
  intros H HA ta id1 f cl r w tb E.
  destruct (ei_from_init L1 i True _ _ _ _ _ H (fun _ => HA)) as [_ HE].
  destruct (HE _ _ _ E eq_refl) as [Hw (a & Ha & Hr)]. destruct (Hw I eq_refl eq_refl) as (l1 & Hl1).
  assert (Hf : forall id f' a0, In (id, (L1, f', i), a0) ta -> f' = f).
  { intros id f' a0 Hin. eapply (run_idx_filter _ _ _ _ _ H); [|rewrite E; apply in_or_app; right; left; reflexivity].
    rewrite E. apply in_or_app. left. exact Hin. }
  rewrite (qo_ktrace _ _ _ _ Hf) in Hl1. exists l1. split; [exact Hl1|].
  pose proof (run_chain _ _ _ _ _ H (L1, f, i)) as Hch. rewrite E, ktrace_app in Hch. apply kchain_app_inv in Hch as [Hch _].
  pose proof (qfo_increasing _ (kchain_increasing _ Hch)) as Hinc. rewrite Hl1 in Hinc.
  destruct w as [|x0 w'].
  - split; [intros x []|]. intros x Hx. subst r. eapply kchain_fwd_lt_last; [exact Hch|exact Ha|].
    apply qfo_In. rewrite Hl1. apply in_or_app. now left.
  - subst r. split.
    + apply increasing_head_le. eapply increasing_app_r; exact Hinc.
    + intros x Hx. eapply increasing_app_lt; [exact Hinc|exact Hx|now left].
Qed.

(** an empty window (in particular: a QoS 0 subscription): every forward of the old key lies before
    the resume point *)
Theorem run_nowindow cfg st0 ops st tr :
  run_hyps cfg st0 ops st tr ->
  forall ta id1 L1 f i cl r tb, tr = ta ++ (id1, (L1, f, i), KEnd cl r []) :: tb ->
  forall x, In x (fwd_offs (ktrace (L1, f, i) ta)) -> x < r.
Proof.
  intros H ta id1 L1 f i cl r tb E x Hx.
  destruct (ei_from_init 0 0 False _ _ _ _ _ H (fun g : False => match g with end)) as [_ HE].
  destruct (HE _ _ _ E eq_refl) as [_ (a & Ha & ->)].
  pose proof (run_chain _ _ _ _ _ H (L1, f, i)) as Hch. rewrite E, ktrace_app in Hch. apply kchain_app_inv in Hch as [Hch _].
  eapply kchain_fwd_lt_last; eassumption.
Qed.

(** (c), across the two epochs: an offset acknowledged in the old epoch is not forwarded in the new one *)
Theorem run_acked_not_again cfg st0 ops st tr L1 i :
  run_hyps cfg st0 ops st tr -> always_b (noshare_b L1 i) st0 ops = true ->
  forall ta id1 f cl c0 w tb id2 L2 tr2,
    tr = ta ++ (id1, (L1, f, i), KEnd cl c0 w) :: tb ++ (id2, (L2, f, i), KRes cl c0) :: tr2 ->
  exists l1 l2,
    qfo (ktrace (L1, f, i) ta) = l1 ++ w /\ ktrace (L2, f, i) tr = KRes cl c0 :: l2 /\
    forall x, In x l1 -> x < c0 /\ ~ In x (fwd_offs l2).
Proof.
  intros H HA ta id1 f cl c0 w tb id2 L2 tr2 E.
  destruct (run_window _ _ _ _ _ _ _ H HA _ _ _ _ _ _ _ E) as (l1 & Hl1 & _ & Hlt).
  assert (E2 : tr = (ta ++ (id1, (L1, f, i), KEnd cl c0 w) :: tb) ++ (id2, (L2, f, i), KRes cl c0) :: tr2)
    by (rewrite E, <- app_assoc; reflexivity).
  pose proof (run_chain _ _ _ _ _ H (L2, f, i)) as Hch. rewrite E2 in Hch.
  destruct (ktrace_res_head _ _ _ _ _ _ Hch) as [Hnil Hfrom].
  exists l1, (ktrace (L2, f, i) tr2). split; [exact Hl1|].
  split; [rewrite E2, ktrace_app, Hnil, ktrace_cons_same by reflexivity; reflexivity|].
  intros x Hx. specialize (Hlt _ Hx). split; [exact Hlt|]. intros Hin.
  pose proof (res_fwd_ge _ _ _ Hfrom _ Hin). lia.
Qed.

(* ------------------------------------------------------------------ (d) *)
Theorem run_away_complete cfg st0 ops st tr :
  run_hyps cfg st0 ops st tr -> 1 <= cf_max_outgoing cfg ->
  quiescent st (owed_run st0 [] ops) ->
  forall id c o, slab_get (r_conns st) id = Some c -> slab_get (r_obufs st) id = Some o ->
  forall f, set_mem str_eqb f (c_subs c) = true ->
  exists i d rq,
    nget (r_datalog st) i = Some d /\ In (id, rq) (d_waiters d) /\ dr_filter rq = f /\ dr_idx rq = i /\
    (dr_group rq = None ->
     forall cl c0 l2, ktrace (o_link o, f, i) tr = KRes cl c0 :: l2 ->
     forall x, c0 <= x < end_of (d_log d) -> covered x l2).
Proof.
  intros H Hmo Hq id c o Hc Ho f Hf.
  destruct (run_complete_gen _ _ _ _ _ H Hmo Hq _ _ _ Hc Ho _ Hf) as (i & d & rq & Hd & Hw & Efl & Ei & Hrest).
  exists i, d, rq. repeat (split; [assumption|]). intros Hg cl c0 l2 E x Hx.
  destruct (Hrest Hg) as (_ & _ & Hcov). apply (Hcov [] (KRes cl c0) l2 E x Hx).
Qed.

(* ------------------------------------------------------------------ (e) clean sessions *)
(** removing a connection with clean_session = true emits no end marker *)
Lemma disc_ghost_clean st id st' c :
  slab_get (r_conns st) id = Some c -> c_clean c = true -> disc_ghost st id st' = [].
Proof.
  intros Hc Hcl. unfold disc_ghost. destruct (slab_get (r_obufs st) id); [|reflexivity].
  destruct (slab_get (r_trackers st) id); [|reflexivity]. rewrite Hc, Hcl. reflexivity.
Qed.

Lemma step_links_le st o st' out : step st o = Ok (st', out) -> lenN (r_links st) <= lenN (r_links st').
Proof.
  unfold step. intros H. destruct o.
  - apply bind_ok in H as (st2 & H2 & H). inv_ok. apply handle_new_connection_inv in H2 as (E & _). rewrite E. rsimpl. rewrite lenN_snoc. lia.
  - destruct (nthN (r_links st) link); inv_ok; [rsimpl; rewrite lenN_setN|]; lia.
  - apply bind_ok in H as (st1 & H1 & H). inv_ok. apply handle_device_payload_obs in H1 as (_ & _ & C). lia.
  - apply bind_ok in H as ([st1 b] & H1 & H). inv_ok. apply consume_obs in H1 as [_ C]. lia.
  - destruct (nthN (r_links st) link); inv_ok; [rsimpl; rewrite lenN_setN|]; lia.
  - destruct (slab_get (r_trackers st) id); [| inv_ok; lia].
    apply bind_ok in H as (st1 & H1 & H). inv_ok. apply reschedule_keep in H1. rewrite (keep_links _ _ H1). lia.
  - apply bind_ok in H as (st1 & H1 & H). inv_ok. apply handle_disconnection_obs in H1 as (_ & _ & C & _). lia.
  - apply bind_ok in H as (st1 & H1 & H). inv_ok. apply retrieve_shadow_obs in H1 as (_ & _ & _ & C). lia.
  - apply bind_ok in H as (st1 & H1 & H). inv_ok. apply handle_last_will_keep in H1. rewrite (keep_links _ _ H1). lia.
  - inv_ok. lia.
Qed.

Lemma step_with_links_le st orc o st' out : step_with st orc o = Ok (st', out) -> lenN (r_links st) <= lenN (r_links st').
Proof.
  unfold step_with. intros H. apply bind_ok in H as ([s1 o1] & H1 & H). destruct (r_oracle s1); [|discriminate]. inv_ok.
  apply step_links_le in H1. exact H1.
Qed.

(** a resume marker carries the link the Connect of its step created *)
Lemma step_res_link st orc o st' out evs :
  step_with_d st orc o = Ok (st', out, evs) ->
  forall id k f i cl c0, In (id, (k, f, i), KRes cl c0) evs -> k = lenN (r_links st) /\ exists c, o = OpConnect c.
Proof.
  intros H id k f i cl c0 Hin. unfold step_with_d in H.
  apply bind_ok in H as ([[s1 out1] evs1] & H1 & H). destruct (r_oracle s1); [|discriminate]. inv_ok.
  assert (Hnr : no_res evs -> False).
  { unfold no_res. rewrite forallb_forall. intros X. specialize (X _ Hin). discriminate. }
  destruct o as [c | k0 pk | id0 | | k0 | id0 | id0 | id0 f0 | c |]; unfold step_d in H1.
  - apply bind_ok in H1 as ([s2 o2] & _ & H1). inv_ok. split; [|eauto].
    apply in_app_or in Hin as [Hin | Hin].
    + exfalso. unfold take_ghost in Hin. destruct (validate_clientid (cr_client c)); [|destruct Hin].
      match type of Hin with In _ (match ?x with _ => _ end) => destruct x as [cid|]; [|destruct Hin] end.
      match type of Hin with In _ (match ?x with _ => _ end) => destruct x as [s| |]; try destruct Hin end.
      pose proof (disc_ghost_nores (set_r_links (set_r_oracle st orc) (r_links (set_r_oracle st orc) ++ [{| lk_in := []; lk_out := [] |}])) cid s) as X.
      unfold no_res in X. rewrite forallb_forall in X. specialize (X _ Hin). discriminate.
    + unfold conn_ghost in Hin.
      repeat match type of Hin with In _ (match ?x with _ => _ end) => destruct x end; try destruct Hin.
      all: apply in_map_iff in Hin as (rq & E & _); inversion E; reflexivity.
  - apply bind_ok in H1 as ([s2 o2] & _ & H1). inv_ok. destruct Hin.
  - apply bind_ok in H1 as ([s2 e2] & H2 & H1). inv_ok. exfalso. apply Hnr. unfold handle_device_payload_d in H2.
    destruct (slab_get _ id0); [|inv_ok; reflexivity]. apply bind_ok in H2 as (b & _ & H2).
    apply bind_ok in H2 as ([[st1' fl] ev1] & Hp & H2).
    apply bind_ok in H2 as (st2' & _ & H2). apply bind_ok in H2 as (st3' & _ & H2). apply bind_ok in H2 as (st4' & _ & H2). inv_ok.
    apply no_res_app; [apply no_mark_no_res; eapply handle_packets_nomark; exact Hp|].
    destruct (f_disconnect fl); [apply disc_ghost_nores|reflexivity].
  - apply bind_ok in H1 as ([[s2 b] e2] & H2 & H1). inv_ok. exfalso. apply Hnr. apply no_mark_no_res. eapply consume_nomark; exact H2.
  - apply bind_ok in H1 as ([s2 o2] & _ & H1). inv_ok. destruct Hin.
  - apply bind_ok in H1 as ([s2 o2] & _ & H1). inv_ok. destruct Hin.
  - apply bind_ok in H1 as ([s2 o2] & _ & H1). inv_ok. exfalso. apply Hnr. apply disc_ghost_nores.
  - apply bind_ok in H1 as ([s2 o2] & _ & H1). inv_ok. destruct Hin.
  - apply bind_ok in H1 as ([s2 o2] & _ & H1). inv_ok. destruct Hin.
  - apply bind_ok in H1 as ([s2 o2] & _ & H1). inv_ok. destruct Hin.
Qed.

(** the resume markers of a run carry links created during the run *)
Lemma run_res_links : forall ops st st' tr,
  run_d st ops = Ok (st', tr) ->
  forall id k f i cl c0, In (id, (k, f, i), KRes cl c0) tr -> lenN (r_links st) <= k.
Proof.
  induction ops as [|[orc o] ops IH]; intros st st' tr H id k f i cl c0 Hin; cbn [run_d] in H; [inv_ok; destruct Hin|].
  apply bind_ok in H as ([[st1 out] evs] & H1 & H). apply bind_ok in H as ([st2 evs2] & H2 & H). inv_ok.
  apply in_app_or in Hin as [Hin | Hin].
  - destruct (step_res_link _ _ _ _ _ _ H1 _ _ _ _ _ _ Hin) as [-> _]. lia.
  - specialize (IH _ _ _ H2 _ _ _ _ _ _ Hin). pose proof (step_with_links_le _ _ _ _ _ (step_with_d_step _ _ _ _ _ _ H1)). lia.
Qed.

(** a Connect with clean_session = true emits no resume marker *)
Lemma connect_clean_nores st tr orc c st' out evs :
  RunInv st tr -> step_with_d st orc (OpConnect c) = Ok (st', out, evs) -> cr_clean c = true -> no_res evs.
Proof.
  intros [[[HI Hn] HD] HC HL HDI HBI] H Hcl. unfold step_with_d in H.
  apply bind_ok in H as ([[s1 out1] evs1] & H1 & H). destruct (r_oracle s1); [|discriminate]. inv_ok.
  unfold step_d in H1. apply bind_ok in H1 as ([s2 o2] & H2 & H1). inv_ok. cbn [step] in H2. cbv zeta in H2.
  apply bind_ok in H2 as (st3 & H3 & H2). inv_ok.
  match type of H3 with handle_new_connection ?s ?cn ?lk = _ => set (sx := s) in *; set (conn := cn) in *; set (link := lk) in * end.
  assert (Hcc : c_clean conn = true) by exact Hcl.
  assert (Ecl : cr_client c = c_client conn) by reflexivity.
  apply no_res_app.
  { unfold take_ghost. destruct (validate_clientid (cr_client c)); [|reflexivity].
    match goal with |- no_res (match ?x with _ => _ end) => destruct x as [cid|]; [|reflexivity] end.
    match goal with |- no_res (match ?x with _ => _ end) => destruct x as [s| |]; try reflexivity end. apply disc_ghost_nores. }
  assert (HRx : RInvC (r_cfg st) sx) by (apply RInv_links_app; [apply RInv_set_oracle; exact HI|constructor]).
  assert (Hlinks : forall id o, slab_get (r_obufs sx) id = Some o -> o_link o < link) by (intros id o Ho; apply (proj1 HL _ _ Ho)).
  rewrite Ecl. unfold handle_new_connection in H3.
  destruct (validate_clientid (c_client conn)) eqn:Hv; cbn [negb] in H3.
  2:{ inv_ok. rewrite conn_ghost_none by exact Hlinks. reflexivity. }
  apply bind_ok in H3 as (st1 & H1 & H3).
  assert (X1 : RInvC (r_cfg st) st1 /\ (forall id o, slab_get (r_obufs st1) id = Some o -> o_link o < link)).
  { destruct (al_get str_eqb (c_client conn) (r_cmap sx)) as [cid|]; [|inv_ok; auto].
    destruct (wp_ok_inv _ _ _ _ (handle_disconnection_spec (r_cfg st) sx cid None HRx Hn) H1) as (A & _ & _ & _).
    destruct (handle_disconnection_obs _ _ _ _ H1) as (Ob & _ & _ & _). split; [exact A|].
    intros id o Ho. destruct (obs_at_sub _ _ _ Ob _ _ Ho) as (o0 & Ho0 & Hs). apply ostep_link in Hs as [Hs _].
    rewrite Hs. eapply Hlinks; exact Ho0. }
  destruct X1 as [HR1 Hlinks1].
  destruct (cf_max_connections (r_cfg st1) <=? slab_len (r_conns st1)) eqn:Hcap.
  { inv_ok. rewrite conn_ghost_none by exact Hlinks1. reflexivity. }
  destruct (hnc_shape (r_cfg st) st1 conn link st' HR1 Hv Hcap H3) as (_ & id & reqs & Ec & Hreqs).
  change (lenN (r_links st)) with link. rewrite Ec. destruct Hreqs as [-> | (Hf & _)]; [reflexivity|congruence].
Qed.

Theorem run_clean_connect_no_res cfg st0 ops1 orc c ops2 st tr :
  run_hyps cfg st0 (ops1 ++ (orc, OpConnect c) :: ops2) st tr -> cr_clean c = true ->
  forall s1 tr1, run_d st0 ops1 = Ok (s1, tr1) ->
  forall id f i cl c0, ~ In (id, (lenN (r_links s1), f, i), KRes cl c0) tr.
Proof.
  intros H Hcl s1 tr1 E1 id f i cl c0 Hin.
  destruct (run_hyps_prefix _ _ _ _ _ _ H) as (s1' & tr1' & tr2 & Hp & E2 & ->).
  assert (X : s1' = s1 /\ tr1' = tr1) by (destruct Hp as (_ & _ & _ & _ & Hr & _); rewrite E1 in Hr; inversion Hr; auto).
  destruct X as [-> ->]. pose proof (run_hyps_inv _ _ _ _ _ Hp) as HR.
  cbn [run_d] in E2. apply bind_ok in E2 as ([[s2 out] evs] & H1 & E2). apply bind_ok in E2 as ([s3 evs3] & H3 & E2). inv_ok.
  apply in_app_or in Hin as [Hin | Hin].
  - pose proof (di_link _ _ _ (rn_di _ _ HR) _ _ _ _ _ Hin). lia.
  - apply in_app_or in Hin as [Hin | Hin].
    + pose proof (connect_clean_nores _ _ _ _ _ _ _ HR H1 Hcl) as X. unfold no_res in X. rewrite forallb_forall in X.
      specialize (X _ Hin). discriminate.
    + pose proof (run_res_links _ _ _ _ H3 _ _ _ _ _ _ Hin) as Hle.
      assert (Hlk : lenN (r_links s2) = lenN (r_links s1) + 1); [|lia].
      apply step_with_d_step in H1. unfold step_with in H1. apply bind_ok in H1 as ([sa oa] & Ha & H1).
      destruct (r_oracle sa); [|discriminate]. inv_ok. cbn [step] in Ha. apply bind_ok in Ha as (sb & Hb & Ha). inv_ok.
      apply handle_new_connection_inv in Hb as (E & _). rewrite E. rsimpl. now rewrite lenN_snoc.
Qed.

(** ... and so every key of that epoch starts with a subscribe marker *)
Corollary run_clean_connect_keys_sub cfg st0 ops1 orc c ops2 st tr :
  run_hyps cfg st0 (ops1 ++ (orc, OpConnect c) :: ops2) st tr -> cr_clean c = true ->
  forall s1 tr1, run_d st0 ops1 = Ok (s1, tr1) ->
  forall f i a l, ktrace (lenN (r_links s1), f, i) tr = a :: l -> exists e, a = KSub e.
Proof.
  intros H Hcl s1 tr1 E1 f i a l E.
  destruct (run_key_head _ _ _ _ _ H _ _ _ E) as [(cl & c0 & ->) | He]; [exfalso|exact He].
  assert (Hin : In (KRes cl c0) (ktrace (lenN (r_links s1), f, i) tr)) by (rewrite E; now left).
  apply ktrace_In in Hin as (_ & id & Hin). eapply run_clean_connect_no_res; eassumption.
Qed.

(** what the resumed key forwards lies at or after the resume point *)
Theorem run_res_fwd_ge cfg st0 ops st tr :
  run_hyps cfg st0 ops st tr ->
  forall K cl c0 l2, ktrace K tr = KRes cl c0 :: l2 ->
  forall y, In y (fwd_offs l2) -> c0 <= y.
Proof.
  intros H K cl c0 l2 E. pose proof (run_chain _ _ _ _ _ H K) as Hch. rewrite E in Hch. cbn [kchain] in Hch.
  exact (res_fwd_ge cl c0 l2 Hch).
Qed.

(* ------------------------------------------------------------------ curried, for Props/C08.v *)
Section Curried.
Variables (cfg : config) (st0 : rstate) (ops : list (list oracle * rop)) (st : rstate) (tr : list dev).
Hypotheses (Hcfg : cfg_ok cfg) (Hmo : cf_max_outgoing cfg < B62) (Hi : init cfg = Ok st0) (Hwf : ops_wf ops)
           (Hr : run_d st0 ops = Ok (st, tr)) (HB : Bounded st).

Let H : run_hyps cfg st0 ops st tr := conj Hcfg (conj Hmo (conj Hi (conj Hwf (conj Hr HB)))).

Theorem c08_run_resume_point_thm :
  forall tr1 id2 L2 f i cl c0 tr2, tr = tr1 ++ (id2, (L2, f, i), KRes cl c0) :: tr2 ->
  exists id1 L1 w ta tb a l2,
    tr1 = ta ++ (id1, (L1, f, i), KEnd cl c0 w) :: tb /\ quiet cl f i tb /\ L1 < L2 /\
    last_opt (ktrace (L1, f, i) ta) = Some a /\ c0 = match w with x :: _ => x | [] => nxt a end /\
    ktrace (L2, f, i) tr = KRes cl c0 :: l2 /\
    match l2 with
    | KFwd off _ :: _ => off = c0
    | KJump from to :: _ => from = c0 /\ c0 <= to
    | KSub e :: _ => c0 <= e
    | _ :: _ => False
    | [] => True
    end.
Proof. exact (run_resume _ _ _ _ _ H). Qed.

Theorem c08_run_unacked_again_thm : forall L1 i,
  always_b (noshare_b L1 i) st0 ops = true ->
  forall ta id1 f cl r w tb, tr = ta ++ (id1, (L1, f, i), KEnd cl r w) :: tb ->
  exists l1,
    qfo (ktrace (L1, f, i) ta) = l1 ++ w /\
    (forall x, In x w -> r <= x) /\
    (forall x, In x l1 -> x < r).
Proof. intros L1 i. exact (run_window _ _ _ _ _ L1 i H). Qed.

Theorem c08_run_acked_not_again_thm : forall L1 i,
  always_b (noshare_b L1 i) st0 ops = true ->
  forall ta id1 f cl c0 w tb id2 L2 tr2,
    tr = ta ++ (id1, (L1, f, i), KEnd cl c0 w) :: tb ++ (id2, (L2, f, i), KRes cl c0) :: tr2 ->
  exists l1 l2,
    qfo (ktrace (L1, f, i) ta) = l1 ++ w /\ ktrace (L2, f, i) tr = KRes cl c0 :: l2 /\
    forall x, In x l1 -> x < c0 /\ ~ In x (fwd_offs l2).
Proof. intros L1 i. exact (run_acked_not_again _ _ _ _ _ L1 i H). Qed.

Theorem c08_run_no_window_thm :
  forall ta id1 L1 f i cl r tb, tr = ta ++ (id1, (L1, f, i), KEnd cl r []) :: tb ->
  forall x, In x (fwd_offs (ktrace (L1, f, i) ta)) -> x < r.
Proof. exact (run_nowindow _ _ _ _ _ H). Qed.

Theorem c08_run_resumed_from_thm :
  forall K cl c0 l2, ktrace K tr = KRes cl c0 :: l2 ->
  forall y, In y (fwd_offs l2) -> c0 <= y.
Proof. exact (run_res_fwd_ge _ _ _ _ _ H). Qed.

Theorem c08_run_away_complete_thm :
  1 <= cf_max_outgoing cfg -> quiescent st (owed_run st0 [] ops) ->
  forall id c o, slab_get (r_conns st) id = Some c -> slab_get (r_obufs st) id = Some o ->
  forall f, set_mem str_eqb f (c_subs c) = true ->
  exists i d rq,
    nget (r_datalog st) i = Some d /\ In (id, rq) (d_waiters d) /\ dr_filter rq = f /\ dr_idx rq = i /\
    (dr_group rq = None ->
     forall cl c0 l2, ktrace (o_link o, f, i) tr = KRes cl c0 :: l2 ->
     forall x, c0 <= x < end_of (d_log d) -> covered x l2).
Proof. exact (run_away_complete _ _ _ _ _ H). Qed.
End Curried.

Theorem c08_run_clean_starts_empty_thm cfg st0 ops1 orc c ops2 st tr :
  cfg_ok cfg -> cf_max_outgoing cfg < B62 -> init cfg = Ok st0 -> ops_wf (ops1 ++ (orc, OpConnect c) :: ops2) ->
  run_d st0 (ops1 ++ (orc, OpConnect c) :: ops2) = Ok (st, tr) -> Bounded st ->
  cr_clean c = true ->
  forall s1 tr1, run_d st0 ops1 = Ok (s1, tr1) ->
  (forall id f i cl c0, ~ In (id, (lenN (r_links s1), f, i), KRes cl c0) tr) /\
  (forall f i a l, ktrace (lenN (r_links s1), f, i) tr = a :: l -> exists e, a = KSub e).
Proof.
  intros Hcfg Hmo Hi Hwf Hr HB Hcl s1 tr1 E1.
  pose proof (conj Hcfg (conj Hmo (conj Hi (conj Hwf (conj Hr HB)))) : run_hyps cfg st0 _ st tr) as H.
  split; [exact (run_clean_connect_no_res _ _ _ _ _ _ _ _ H Hcl _ _ E1)|exact (run_clean_connect_keys_sub _ _ _ _ _ _ _ _ H Hcl _ _ E1)].
Qed.

(* ------------------------------------------------------------------ (e), the old end, at run level *)
Module C := TraceResumeClean.

Lemma clv_obuf st j l b : C.clv st j = (Some l, Some b) ->
  exists o c, slab_get (r_obufs st) j = Some o /\ o_link o = l /\ slab_get (r_conns st) j = Some c /\ c_clean c = b.
Proof.
  unfold C.clv. intros E. injection E as E1 E2.
  destruct (slab_get (r_obufs st) j) as [o|]; [|discriminate]. destruct (slab_get (r_conns st) j) as [c|]; [|discriminate].
  cbn [option_map] in *. inversion E1; inversion E2. exists o, c. auto.
Qed.

(** an end marker under link k: the removed connection had link k and clean_session = false *)
Lemma disc_ghost_clv st id st' id0 k f i cl r w :
  In (id0, (k, f, i), KEnd cl r w) (disc_ghost st id st') -> C.clv st id = (Some k, Some false).
Proof.
  unfold disc_ghost, C.clv. destruct (slab_get (r_obufs st) id) as [o|]; [|intros []].
  destruct (slab_get (r_trackers st) id) as [t|]; [|intros []]. destruct (slab_get (r_conns st) id) as [c|]; [|intros []].
  destruct (c_clean c) eqn:Ec; [intros []|]. destruct (al_get str_eqb (tr_id t) (r_graveyard st')) as [[ss|]|]; try (intros []).
  intros Hin. apply in_map_iff in Hin as (rq & E & _). inversion E; subst. cbn [option_map]. now rewrite Ec.
Qed.

Lemma step_end_clv st orc o st' out evs :
  step_with_d st orc o = Ok (st', out, evs) ->
  forall id k f i cl r w, In (id, (k, f, i), KEnd cl r w) evs -> exists j, C.clv st j = (Some k, Some false).
Proof.
  intros H id k f i cl r w Hin. unfold step_with_d in H.
  apply bind_ok in H as ([[s1 out1] evs1] & H1 & H). destruct (r_oracle s1); [|discriminate]. inv_ok.
  assert (Hnm : no_mark evs -> False).
  { unfold no_mark. rewrite forallb_forall. intros X. specialize (X _ Hin). discriminate. }
  destruct o as [c | k0 pk | id0 | | k0 | id0 | id0 | id0 f0 | c |]; unfold step_d in H1.
  - apply bind_ok in H1 as ([s2 o2] & _ & H1). inv_ok. apply in_app_or in Hin as [Hin | Hin].
    + unfold take_ghost in Hin. destruct (validate_clientid (cr_client c)); [|destruct Hin].
      match type of Hin with In _ (match ?x with _ => _ end) => destruct x as [cid|]; [|destruct Hin] end.
      match type of Hin with In _ (match ?x with _ => _ end) => destruct x as [s| |]; try destruct Hin end.
      exists cid. exact (disc_ghost_clv _ _ _ _ _ _ _ _ _ _ Hin).
    + exfalso. match type of Hin with In _ (conn_ghost ?a ?b ?c) => pose proof (conn_ghost_noend a b c) as X end.
      rewrite forallb_forall in X. specialize (X _ Hin). discriminate.
  - apply bind_ok in H1 as ([s2 o2] & _ & H1). inv_ok. destruct Hin.
  - apply bind_ok in H1 as ([s2 e2] & H2 & H1). inv_ok. unfold handle_device_payload_d in H2.
    destruct (slab_get _ id0); [|inv_ok; destruct Hin]. apply bind_ok in H2 as (b & _ & H2).
    apply bind_ok in H2 as ([[st1' fl] ev1] & Hp & H2).
    apply bind_ok in H2 as (st2' & H2a & H2). apply bind_ok in H2 as (st3' & H3a & H2). apply bind_ok in H2 as (st4' & _ & H2). inv_ok.
    apply in_app_or in Hin as [Hin | Hin].
    { exfalso. pose proof (handle_packets_nomark _ _ _ _ _ _ _ _ Hp) as X. unfold no_mark in X. rewrite forallb_forall in X.
      specialize (X _ Hin). discriminate. }
    destruct (f_disconnect fl); [|destruct Hin]. apply disc_ghost_clv in Hin.
    pose proof (handle_packets_d_ok _ _ _ _ _ _ _ _ Hp) as Hp'.
    pose proof ((C.fc_handle_packets _ _ _ _ _) _ Hp') as K1. cbn [fst] in K1.
    assert (K2 : C.Kcl st1' st2') by (destruct (f_force_ack fl); [exact ((C.fc_reschedule _ _ _) _ H2a)|inv_ok; apply C.Kcl_refl]).
    assert (K3 : C.Kcl st2' st3') by (destruct (f_new_data fl); [exact ((C.fc_drain_notifications _) _ H3a)|inv_ok; apply C.Kcl_refl]).
    exists id0. rewrite (K3 id0), (K2 id0), (K1 id0) in Hin. exact Hin.
  - apply bind_ok in H1 as ([[s2 b] e2] & H2 & H1). inv_ok. exfalso. apply Hnm. eapply consume_nomark; exact H2.
  - apply bind_ok in H1 as ([s2 o2] & _ & H1). inv_ok. destruct Hin.
  - apply bind_ok in H1 as ([s2 o2] & _ & H1). inv_ok. destruct Hin.
  - apply bind_ok in H1 as ([s2 o2] & _ & H1). inv_ok. exists id0. exact (disc_ghost_clv _ _ _ _ _ _ _ _ _ _ Hin).
  - apply bind_ok in H1 as ([s2 o2] & _ & H1). inv_ok. destruct Hin.
  - apply bind_ok in H1 as ([s2 o2] & _ & H1). inv_ok. destruct Hin.
  - apply bind_ok in H1 as ([s2 o2] & _ & H1). inv_ok. destruct Hin.
Qed.

(** every connection of link L has clean_session = true *)
Definition CleanL (L : N) (st : rstate) : Prop := forall j b, C.clv st j = (Some L, Some b) -> b = true.

Lemma run_no_end L : forall ops s st tr,
  run_d s ops = Ok (st, tr) -> L < lenN (r_links s) -> CleanL L s ->
  forall id f i cl r w, ~ In (id, (L, f, i), KEnd cl r w) tr.
Proof.
  induction ops as [|[orc o] ops IH]; intros s st tr H HL HC id f i cl r w Hin; cbn [run_d] in H; [inv_ok; destruct Hin|].
  apply bind_ok in H as ([[s1 out] evs] & H1 & H). apply bind_ok in H as ([s2 evs2] & H2 & H). inv_ok.
  apply in_app_or in Hin as [Hin | Hin].
  - destruct (step_end_clv _ _ _ _ _ _ H1 _ _ _ _ _ _ _ Hin) as (j & Hj). specialize (HC _ _ Hj). discriminate.
  - pose proof (step_with_d_step _ _ _ _ _ _ H1) as H1'.
    eapply (IH s1); [exact H2| | |exact Hin].
    + pose proof (step_with_links_le _ _ _ _ _ H1'). lia.
    + pose proof (C.step_with_cl _ _ _ _ _ H1') as X. intros j b Hj.
      destruct o; try (apply (HC j b), X, Hj).
      destruct (X _ _ _ Hj) as [Y | [Y _]]; [exact (HC _ _ Y)|lia].
Qed.

Theorem run_clean_disconnect_no_end cfg st0 ops1 orc c ops2 st tr :
  run_hyps cfg st0 (ops1 ++ (orc, OpConnect c) :: ops2) st tr -> cr_clean c = true ->
  forall s1 tr1, run_d st0 ops1 = Ok (s1, tr1) ->
  forall id f i cl r w, ~ In (id, (lenN (r_links s1), f, i), KEnd cl r w) tr.
Proof.
  intros H Hcl s1 tr1 E1 id f i cl r w Hin.
  destruct (run_hyps_prefix _ _ _ _ _ _ H) as (s1' & tr1' & tr2 & Hp & E2 & ->).
  assert (X : s1' = s1 /\ tr1' = tr1) by (destruct Hp as (_ & _ & _ & _ & Hr & _); rewrite E1 in Hr; inversion Hr; auto).
  destruct X as [-> ->]. pose proof (run_hyps_inv _ _ _ _ _ Hp) as HR.
  cbn [run_d] in E2. apply bind_ok in E2 as ([[s2 out] evs] & H1 & E2). apply bind_ok in E2 as ([s3 evs3] & H3 & E2). inv_ok.
  assert (Hfresh : forall j l b, C.clv s1 j = (Some l, Some b) -> l < lenN (r_links s1)).
  { intros j l b Hj. destruct (clv_obuf _ _ _ _ Hj) as (o & _ & Ho & <- & _). exact (proj1 (rn_link _ _ HR) _ _ Ho). }
  apply in_app_or in Hin as [Hin | Hin].
  - pose proof (di_link _ _ _ (rn_di _ _ HR) _ _ _ _ _ Hin). lia.
  - pose proof (step_with_d_step _ _ _ _ _ _ H1) as H1'.
    apply in_app_or in Hin as [Hin | Hin].
    + destruct (step_end_clv _ _ _ _ _ _ H1 _ _ _ _ _ _ _ Hin) as (j & Hj). specialize (Hfresh _ _ _ Hj). lia.
    + eapply (run_no_end (lenN (r_links s1))); [exact H3| | |exact Hin].
      * assert (Hlk : lenN (r_links s2) = lenN (r_links s1) + 1); [|lia].
        unfold step_with in H1'. apply bind_ok in H1' as ([sa oa] & Ha & H1').
        destruct (r_oracle sa); [|discriminate]. inv_ok. cbn [step] in Ha. apply bind_ok in Ha as (sb & Hb & Ha). inv_ok.
        apply handle_new_connection_inv in Hb as (E & _). rewrite E. rsimpl. now rewrite lenN_snoc.
      * pose proof (C.step_with_cl _ _ _ _ _ H1') as X. cbn beta iota in X. intros j b Hj.
        destruct (X _ _ _ Hj) as [Y | [_ Y]]; [specialize (Hfresh _ _ _ Y); lia|congruence].
Qed.

Theorem c08_run_clean_disconnect_no_end_thm cfg st0 ops1 orc c ops2 st tr :
  cfg_ok cfg -> cf_max_outgoing cfg < B62 -> init cfg = Ok st0 -> ops_wf (ops1 ++ (orc, OpConnect c) :: ops2) ->
  run_d st0 (ops1 ++ (orc, OpConnect c) :: ops2) = Ok (st, tr) -> Bounded st ->
  cr_clean c = true ->
  forall s1 tr1, run_d st0 ops1 = Ok (s1, tr1) ->
  forall id f i cl r w, ~ In (id, (lenN (r_links s1), f, i), KEnd cl r w) tr.
Proof.
  intros Hcfg Hmo Hi Hwf Hr HB Hcl s1 tr1 E1.
  pose proof (conj Hcfg (conj Hmo (conj Hi (conj Hwf (conj Hr HB)))) : run_hyps cfg st0 _ st tr) as H.
  exact (run_clean_disconnect_no_end _ _ _ _ _ _ _ _ H Hcl _ _ E1).
Qed.

(* ------------------------------------------------------------------ session_present and the trace *)
(** the ConnAck committed for the connection a Connect creates: session_present is false if the
    Connect is clean, and true if the Connect restored a request (a resume marker of the new link is
    in the trace).  (Not an equivalence: a saved session without non-shared requests leaves no
    marker.) *)
Theorem run_session_present cfg st0 ops1 orc c ops2 st tr :
  run_hyps cfg st0 (ops1 ++ (orc, OpConnect c) :: ops2) st tr ->
  forall s1 tr1, run_d st0 ops1 = Ok (s1, tr1) ->
  forall s2 out, step_with s1 orc (OpConnect c) = Ok (s2, out) ->
  forall id o l sp rest,
    slab_get (r_obufs s2) id = Some o -> o_link o = lenN (r_links s1) ->
    slab_get (r_acks s2) id = Some l -> a_committed l = AConnAck id sp :: rest ->
    (cr_clean c = true -> sp = false) /\
    ((exists id2 f i cl c0, In (id2, (lenN (r_links s1), f, i), KRes cl c0) tr) -> sp = true).
Proof.
  intros H s1 tr1 E1 s2 out Hstep id o l sp rest Ho Hlk Hl Hcom.
  destruct (run_hyps_prefix _ _ _ _ _ _ H) as (s1' & tr1' & tr2 & Hp & E2 & ->).
  assert (X : s1' = s1 /\ tr1' = tr1) by (destruct Hp as (_ & _ & _ & _ & Hr & _); rewrite E1 in Hr; inversion Hr; auto).
  destruct X as [-> ->]. pose proof (run_hyps_inv _ _ _ _ _ Hp) as HR.
  cbn [run_d] in E2. apply bind_ok in E2 as ([[s2' out'] evs] & H1 & E2). apply bind_ok in E2 as ([s3 evs3] & H3 & E2). inv_ok.
  pose proof (step_with_d_step _ _ _ _ _ _ H1) as H1'. rewrite Hstep in H1'. inversion H1'; subst s2' out'. clear H1'.
  assert (HL2 : LinkInv s2) by (apply (WindowStep.step_with_inv _ _ _ _ _ Hstep); exact (rn_link _ _ HR)).
  (* a resume marker of the new link is emitted by this very step *)
  assert (Hres : (exists id2 f i cl c0, In (id2, (lenN (r_links s1), f, i), KRes cl c0) (tr1 ++ evs ++ evs3)) ->
                 exists id2 f i cl c0, In (id2, (lenN (r_links s1), f, i), KRes cl c0) evs).
  { intros (id2 & f & i & cl & c0 & Hin). exists id2, f, i, cl, c0.
    apply in_app_or in Hin as [Hin | Hin]; [pose proof (di_link _ _ _ (rn_di _ _ HR) _ _ _ _ _ Hin); lia|].
    apply in_app_or in Hin as [Hin | Hin]; [exact Hin|exfalso].
    pose proof (run_res_links _ _ _ _ H3 _ _ _ _ _ _ Hin) as Hle.
    assert (Hlk2 : lenN (r_links s2) = lenN (r_links s1) + 1); [|lia].
    unfold step_with in Hstep. apply bind_ok in Hstep as ([sa oa] & Ha & Hstep).
    destruct (r_oracle sa); [|discriminate]. inv_ok. cbn [step] in Ha. apply bind_ok in Ha as (sb & Hb & Ha). inv_ok.
    apply handle_new_connection_inv in Hb as (E & _). rewrite E. rsimpl. now rewrite lenN_snoc. }
  destruct HR as [[[HI Hn] HD] HC HL HDI HBI]. unfold step_with_d in H1.
  apply bind_ok in H1 as ([[sa outa] evsa] & H1 & Hor). destruct (r_oracle sa); [|discriminate]. inv_ok.
  unfold step_d in H1. apply bind_ok in H1 as ([sb ob] & H2 & H1). inv_ok. cbn [step] in H2. cbv zeta in H2.
  apply bind_ok in H2 as (sc & H3' & H2). inv_ok.
  match type of H3' with handle_new_connection ?s ?cn ?lk = _ => set (sx := s) in *; set (conn := cn) in *; set (link := lk) in * end.
  assert (Elink : link = lenN (r_links s1)) by reflexivity.
  assert (HRx : RInvC (r_cfg s1) sx) by (apply RInv_links_app; [apply RInv_set_oracle; exact HI|constructor]).
  assert (Hlinks : forall j oj, slab_get (r_obufs sx) j = Some oj -> o_link oj < link) by (intros j oj Hj; apply (proj1 HL _ _ Hj)).
  assert (Hold : forall s, (forall j oj, slab_get (r_obufs s) j = Some oj -> o_link oj < link) ->
                           slab_get (r_obufs s) id = Some o -> False).
  { intros s Hs Hj. specialize (Hs _ _ Hj). lia. }
  unfold handle_new_connection in H3'.
  destruct (validate_clientid (c_client conn)) eqn:Hv; cbn [negb] in H3'; [|inv_ok; exfalso; eapply Hold; eassumption].
  apply bind_ok in H3' as (st1 & Hd1 & H3').
  assert (X1 : RInvC (r_cfg s1) st1 /\ (forall j oj, slab_get (r_obufs st1) j = Some oj -> o_link oj < link)).
  { destruct (al_get str_eqb (c_client conn) (r_cmap sx)) as [cid|]; [|inv_ok; auto].
    destruct (wp_ok_inv _ _ _ _ (handle_disconnection_spec (r_cfg s1) sx cid None HRx Hn) Hd1) as (A & _ & _ & _).
    destruct (handle_disconnection_obs _ _ _ _ Hd1) as (Ob & _ & _ & _). split; [exact A|].
    intros j oj Hj. destruct (obs_at_sub _ _ _ Ob _ _ Hj) as (o0 & Ho0 & Hs). apply ostep_link in Hs as [Hs _].
    rewrite Hs. eapply Hlinks; exact Ho0. }
  destruct X1 as [HR1 Hlinks1].
  destruct (cf_max_connections (r_cfg st1) <=? slab_len (r_conns st1)) eqn:Hcap; [inv_ok; exfalso; eapply Hold; eassumption|].
  destruct (hnc_ack (r_cfg s1) st1 conn link s2 HR1 Hv Hcap H3') as (id' & o' & l' & rest' & Ho' & Hlk' & Hl' & Hcom').
  assert (id = id') by (eapply (proj2 HL2); [exact Ho|exact Ho'|congruence]). subst id'.
  assert (El : l' = l) by congruence. subst l'. rewrite Hcom' in Hcom. injection Hcom as Esp Er. symmetry in Esp.
  split.
  - intros Hcl. rewrite Esp, Hcl. reflexivity.
  - intros Hex. destruct (Hres Hex) as (id2 & f & i & cl & c0 & Hin).
    apply in_app_or in Hin as [Hin | Hin].
    { exfalso. unfold take_ghost in Hin. destruct (validate_clientid (cr_client c)); [|destruct Hin].
      match type of Hin with In _ (match ?x with _ => _ end) => destruct x as [cid|]; [|destruct Hin] end.
      match type of Hin with In _ (match ?x with _ => _ end) => destruct x as [s| |]; try destruct Hin end.
      match type of Hin with In _ (disc_ghost ?a ?b ?c) => pose proof (disc_ghost_nores a b c) as X end.
      unfold no_res in X. rewrite forallb_forall in X. specialize (X _ Hin). discriminate. }
    destruct (hnc_shape (r_cfg s1) st1 conn link s2 HR1 Hv Hcap H3') as (_ & idn & reqs & Ec & Hreqs).
    match type of Hin with In _ ?g => change g with (conn_ghost s2 (c_client conn) link) in Hin end.
    rewrite Ec in Hin. destruct Hreqs as [-> | (Hf & ss & Hss & _)]; [destruct Hin|].
    unfold conn in Hf, Hss. cbn [c_clean c_client] in Hf, Hss. rewrite Esp, Hf, Hss. reflexivity.
Qed.

Theorem c08_run_session_present_thm cfg st0 ops1 orc c ops2 st tr :
  cfg_ok cfg -> cf_max_outgoing cfg < B62 -> init cfg = Ok st0 -> ops_wf (ops1 ++ (orc, OpConnect c) :: ops2) ->
  run_d st0 (ops1 ++ (orc, OpConnect c) :: ops2) = Ok (st, tr) -> Bounded st ->
  forall s1 tr1, run_d st0 ops1 = Ok (s1, tr1) ->
  forall s2 out, step_with s1 orc (OpConnect c) = Ok (s2, out) ->
  forall id o l sp rest,
    slab_get (r_obufs s2) id = Some o -> o_link o = lenN (r_links s1) ->
    slab_get (r_acks s2) id = Some l -> a_committed l = AConnAck id sp :: rest ->
    (cr_clean c = true -> sp = false) /\
    ((exists id2 f i cl c0, In (id2, (lenN (r_links s1), f, i), KRes cl c0) tr) -> sp = true).
Proof.
  intros Hcfg Hmo Hi Hwf Hr HB.
  pose proof (conj Hcfg (conj Hmo (conj Hi (conj Hwf (conj Hr HB)))) : run_hyps cfg st0 _ st tr) as H.
  exact (run_session_present _ _ _ _ _ _ _ _ H).
Qed.
