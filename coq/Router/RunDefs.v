(** Shared definition of running a list of ops on the router model: [run] folds [step_with]
    over the list and stops at the first non-[Ok] outcome (which it returns); [reachable cfg st]
    = [st] is the state after some op list from [init cfg].  Plus the generic lifting of a
    step invariant to every reachable state. *)
From Rumqtt Require Import Router.Model.

Fixpoint run (st : rstate) (ops : list (list oracle * rop)) : R rstate :=
  match ops with
  | [] => Ok st
  | (orc, o) :: r =>
      match step_with st orc o with
      | Ok (st1, _) => run st1 r
      | Err e => Err e
      | Panic t => Panic t
      end
  end.

Definition reachable (cfg : config) (st : rstate) : Prop :=
  exists st0 ops, init cfg = Ok st0 /\ run st0 ops = Ok st.

Lemma run_app st ops1 ops2 st1 :
  run st ops1 = Ok st1 -> run st (ops1 ++ ops2) = run st1 ops2.
Proof.
  revert st. induction ops1 as [| [orc o] r IH]; intros st H; cbn [run app] in *.
  - now inversion H.
  - destruct (step_with st orc o) as [[st' out] | e | t]; try discriminate. now apply IH.
Qed.

Lemma run_snoc st ops orc o st1 :
  run st ops = Ok st1 ->
  run st (ops ++ [(orc, o)]) =
    match step_with st1 orc o with Ok (st2, _) => Ok st2 | Err e => Err e | Panic t => Panic t end.
Proof.
  intros H. rewrite (run_app _ _ _ _ H). cbn [run].
  destruct (step_with st1 orc o) as [[st2 out] | e | t]; reflexivity.
Qed.

(** an invariant of [init] preserved by every [Ok] step holds after every run *)
Lemma run_inv (I : rstate -> Prop) :
  (forall st orc o st' out, I st -> step_with st orc o = Ok (st', out) -> I st') ->
  forall ops st st', I st -> run st ops = Ok st' -> I st'.
Proof.
  intros Hstep. induction ops as [| [orc o] r IH]; intros st st' Hi H; cbn [run] in H.
  - now inversion H; subst.
  - destruct (step_with st orc o) as [[st1 out] | e | t] eqn:E; try discriminate.
    eapply IH; [ eapply Hstep; eauto | exact H ].
Qed.

Lemma reachable_inv (I : rstate -> Prop) cfg :
  (forall st0, init cfg = Ok st0 -> I st0) ->
  (forall st orc o st' out, I st -> step_with st orc o = Ok (st', out) -> I st') ->
  forall st, reachable cfg st -> I st.
Proof.
  intros H0 Hs st (st0 & ops & Hi & Hr). eapply run_inv; eauto.
Qed.

Lemma reachable_step cfg st orc o st' out :
  reachable cfg st -> step_with st orc o = Ok (st', out) -> reachable cfg st'.
Proof.
  intros (st0 & ops & Hi & Hr) Hs. exists st0, (ops ++ [(orc, o)]). split; [exact Hi |].
  rewrite (run_snoc _ _ _ _ _ Hr), Hs. reflexivity.
Qed.
