(** C17 at the level of whole runs — [GK]/[GI] through SUBSCRIBE, the packet handlers,
    [handle_device_payload] and [handle_new_connection]. *)
From Rumqtt Require Import Router.Shared Log.Spec Log.Proofs Log.WfFacts Router.ExactLog.
From Rumqtt Require Import Topic.Proofs Router.WindowFrame Router.Window Router.DataLogInv Router.DataLogStep
                           Router.ExactInv Router.ExactStep1 Router.ExactStep2 Router.ExactLogs Router.ExactStep3
                           Router.ExactThm Router.SharedRun Router.SharedRunInv Router.SharedRunStep.
From Rumqtt Require Import Router.Model Router.RunDefs.
From Coq Require Import ZifyBool ZifyN ZifyNat Sorted.

(* ------------------------------------------------------------------ SUBSCRIBE *)
Lemma prepare_filter_groups st id cu fidx path qos grp subid st' :
  prepare_filter st id cu fidx path qos grp subid = Ok st' ->
  r_groups st' =
    match grp with
    | Some name =>
        let g := match al_get str_eqb name (r_groups st) with
                 | Some g => g
                 | None => {| g_clients := []; g_idx := 0; g_cursor := cu; g_strategy := cf_strategy (r_cfg st) |}
                 end in
        al_set str_eqb name (set_g_clients g (g_clients g ++ [match slab_get (r_conns st) id with Some c => c_client c | None => [] end]))
               (r_groups st)
    | None => r_groups st
    end.
Proof.
  unfold prepare_filter, get_conn. intros H. rsimpl.
  destruct (slab_get (r_conns st) id) as [conn|] eqn:Ec; [|discriminate]. cbn [bind] in H.
  match type of H with (if ?b then _ else _) = _ => destruct b end.
  - inv_ok. rsimpl. destruct grp; reflexivity.
  - apply bind_ok in H as (st4 & H4 & H). apply bind_ok in H as (st5 & H5 & H). apply bind_ok in H as (u & _ & H). inv_ok.
    apply track_groups in H4. apply reschedule_groups in H5. rewrite H5, H4. rsimpl. destruct grp; reflexivity.
Qed.

Lemma prepare_filter_gi st id cu fidx path qos grp subid st' gf :
  GK st -> GI st gf ->
  (forall name d, grp = Some name -> glog (r_datalog st) name = Some d -> end_of (d_log d) <= pos_of (d_log d) cu) ->
  prepare_filter st id cu fidx path qos grp subid = Ok st' ->
  GK st' /\ GI st' gf.
Proof.
  intros HK HG Hcu H. pose proof (prepare_filter_dl _ _ _ _ _ _ _ _ _ H) as D.
  pose proof (prepare_filter_groups _ _ _ _ _ _ _ _ _ H) as G. unfold GK, GI in *. rewrite D, G. clear G D H.
  destruct grp as [name|]; [|auto]. cbv zeta. split; [now apply (al_set_nodup str_eqb str_eqb_spec)|].
  revert HG. apply Forall_impl. intros e. apply evok_fresh. intros n g' Hg'.
  destruct (str_eqb_spec n name) as [-> | Hne].
  - rewrite (al_get_set_same str_eqb str_eqb_spec) in Hg'. inversion Hg'; subst g'. clear Hg'.
    cbn [g_cursor set_g_clients]. destruct (al_get str_eqb name (r_groups st)) as [g|]; [left; eauto|].
    right. cbn [g_cursor]. intros d Hd. eapply Hcu; [reflexivity|exact Hd].
  - rewrite (RetainedBase.al_get_set_other str_eqb str_eqb_spec) in Hg' by exact Hne. left. eauto.
Qed.

Lemma subscribe_filters_gi id subid gf : forall fs st fl codes st' fl' codes',
  CInv st -> GK st -> GI st gf ->
  subscribe_filters st id fs subid fl codes = Ok (st', fl', codes') -> GK st' /\ GI st' gf.
Proof.
  induction fs as [|[path qos] r IH]; intros st fl codes st' fl' codes' HI HK HG H; cbn [subscribe_filters] in H.
  - inv_ok. auto.
  - destruct (negb (validate_subscription path)); [inv_ok; auto|].
    destruct (extract_group path) as [[g p]|] eqn:Eg.
    + destruct (match subid with Some 0 => true | _ => false end); [inv_ok; auto|].
      apply bind_ok in H as ([[st1 idx] cu] & H1 & H). apply bind_ok in H as (st2 & H2 & H).
      destruct (next_native_offset_cinv _ _ _ _ _ HI H1) as (HI1 & L1 & Hcu & Hf).
      destruct (extract_group_split _ _ _ Eg) as [nm Hs].
      assert (HI2 : CInv st2).
      { eapply prepare_filter_cinv; [exact HI1|exact Hcu| |exact H2].
        intros g0 E0. inversion E0; subst g0. eauto. }
      destruct (gi_gsub st st1 gf HI HK L1 (gsub_eq _ _ (next_native_offset_groups _ _ _ _ _ H1)) HG) as [HK1 HG1].
      destruct (next_native_offset_end _ _ _ _ _ HI H1) as (d0 & all & Hd0 & W0 & Ecu & _ & Hst0).
      assert (Hfresh : forall name d, Some g = Some name -> glog (r_datalog st1) name = Some d ->
                                      end_of (d_log d) <= pos_of (d_log d) cu).
      { intros name d E Hd. inversion E; subst name. unfold glog in Hd. rewrite Hs, Hf in Hd.
        unfold nget in Hd0. rewrite Hd0 in Hd. inversion Hd; subst d.
        unfold pos_of. rewrite Hst0, Ecu. cbn [snd]. rewrite (wf_end_of pubdata_size _ _ W0). lia. }
      destruct (prepare_filter_gi _ _ _ _ _ _ _ _ _ gf HK1 HG1 Hfresh H2) as [HK2 HG2].
      eapply IH; eassumption.
    + destruct (match subid with Some 0 => true | _ => false end); [inv_ok; auto|].
      apply bind_ok in H as ([[st1 idx] cu] & H1 & H). apply bind_ok in H as (st2 & H2 & H).
      destruct (next_native_offset_cinv _ _ _ _ _ HI H1) as (HI1 & L1 & Hcu & Hf).
      assert (HI2 : CInv st2).
      { eapply prepare_filter_cinv; [exact HI1|exact Hcu| |exact H2]. intros g0 E0. discriminate. }
      destruct (gi_gsub st st1 gf HI HK L1 (gsub_eq _ _ (next_native_offset_groups _ _ _ _ _ H1)) HG) as [HK1 HG1].
      assert (Hfresh : forall name d, @None str = Some name -> glog (r_datalog st1) name = Some d ->
                                      end_of (d_log d) <= pos_of (d_log d) cu) by (intros name d E; discriminate).
      destruct (prepare_filter_gi _ _ _ _ _ _ _ _ _ gf HK1 HG1 Hfresh H2) as [HK2 HG2].
      eapply IH; eassumption.
Qed.

(* ------------------------------------------------------------------ the packet handlers *)
Definition is_subscribe (pk : packet) : bool := match pk with PSubscribe _ _ _ => true | _ => false end.

Lemma handle_packet_groups st id client pk fl st' fl' brk :
  is_subscribe pk = false ->
  handle_packet st id client pk fl = Ok (st', fl', brk) -> gsub (r_groups st) (r_groups st').
Proof.
  intros Hs H. destruct pk; cbn [handle_packet is_subscribe] in *; try discriminate.
  - (* publish *)
    destruct (p_qos p =? 1).
    + apply bind_ok in H as (st1 & H1 & H). apply bind_ok in H as ([st2 res] & H2 & H).
      apply commit_ack_groups in H1. apply append_to_commitlog_groups in H2.
      apply gsub_eq. destruct res; inv_ok; congruence.
    + destruct (p_qos p =? 2).
      * apply bind_ok in H as (l & _ & H). inv_ok. apply gsub_refl.
      * apply bind_ok in H as ([st2 res] & H2 & H). apply append_to_commitlog_groups in H2.
        apply gsub_eq. destruct res; inv_ok; congruence.
  - apply bind_ok in H as (c & _ & H). apply bind_ok in H as ([st1 reasons] & H1 & H).
    apply bind_ok in H as (st2 & H2 & H). inv_ok. apply commit_ack_groups in H2. rewrite H2.
    eapply unsubscribe_filters_groups; eassumption.
  - apply bind_ok in H as (o & Ho & H). destruct (register_ack o pkid) as [o' ok]. destruct ok.
    + apply bind_ok in H as (st2 & H2 & H). inv_ok. apply reschedule_groups in H2. now apply gsub_eq.
    + inv_ok. apply gsub_refl.
  - apply bind_ok in H as (o & Ho & H). destruct (register_ack o pkid) as [o' ok]. destruct ok.
    + apply bind_ok in H as (l & _ & H). apply bind_ok in H as (st2 & H2 & H). apply bind_ok in H as (st3 & H3 & H). inv_ok.
      apply commit_ack_groups in H2. apply reschedule_groups in H3. apply gsub_eq. now rewrite H3, H2.
    + inv_ok. apply gsub_refl.
  - apply bind_ok in H as (l & _ & H). destruct (a_recorded l) as [|[p0 pr0] rec].
    + inv_ok. apply gsub_refl.
    + apply bind_ok in H as ([st2 res] & H2 & H). apply append_to_commitlog_groups in H2. destruct res.
      * apply bind_ok in H as (st3 & H3 & H). inv_ok. apply reschedule_groups in H3. apply gsub_eq. now rewrite H3, H2.
      * inv_ok. now apply gsub_eq.
  - apply bind_ok in H as (o & Ho & H). destruct (register_pubcomp o pkid) as [o' ok].
    destruct ok; inv_ok; apply gsub_refl.
  - apply bind_ok in H as (st1 & H1 & H). inv_ok. apply commit_ack_groups in H1. now apply gsub_eq.
  - inv_ok. apply gsub_refl.
  - inv_ok. apply gsub_refl.
Qed.

Lemma handle_packet_gi st id client pk fl st' fl' brk gf :
  CInv st -> GK st -> GI st gf ->
  handle_packet st id client pk fl = Ok (st', fl', brk) -> GK st' /\ GI st' gf.
Proof.
  intros HI HK HG H. destruct (is_subscribe pk) eqn:Es.
  - destruct pk; try discriminate. cbn [handle_packet] in H.
    apply bind_ok in H as ([[st1 fl1] codes] & H1 & H). apply bind_ok in H as (st2 & H2 & H). inv_ok.
    destruct (subscribe_filters_gi _ _ _ _ _ _ _ _ _ _ HI HK HG H1) as [HK1 HG1].
    unfold GK. rewrite (commit_ack_groups _ _ _ _ H2). split; [exact HK1|].
    eapply gi_same; [eapply commit_ack_dl; eassumption|eapply commit_ack_groups; eassumption|exact HG1].
  - destruct (handle_packet_cinv _ _ _ _ _ _ _ _ HI H) as [_ L].
    eapply gi_gsub; [exact HI|exact HK|exact L| |exact HG]. eapply handle_packet_groups; eassumption.
Qed.

Lemma handle_packets_gi id client gf : forall pks st fl st' fl',
  CInv st -> GK st -> GI st gf ->
  handle_packets st id client pks fl = Ok (st', fl') -> GK st' /\ GI st' gf.
Proof.
  induction pks as [|pk r IH]; intros st fl st' fl' HI HK HG H; cbn [handle_packets] in H.
  - inv_ok. auto.
  - apply bind_ok in H as ([[st1 fl1] brk] & H1 & H).
    destruct (handle_packet_cinv _ _ _ _ _ _ _ _ HI H1) as [HI1 _].
    destruct (handle_packet_gi _ _ _ _ _ _ _ _ _ HI HK HG H1) as [HK1 HG1].
    destruct brk; [inv_ok; auto|]. eapply IH; eassumption.
Qed.

Lemma handle_device_payload_gi st id st' gf :
  CInv st -> GK st -> GI st gf ->
  match data_disc_state st id with Some st3 => hd_rewinds st3 id | None => false end = false ->
  handle_device_payload st id = Ok st' -> GK st' /\ GI st' gf.
Proof.
  unfold handle_device_payload, data_disc_state. intros HI HK HG Hnr H.
  destruct (slab_get (r_ibufs st) id) as [inc|]; [|inv_ok; auto].
  apply bind_ok in H as (b & Hb & H). rewrite Hb in Hnr. apply bind_ok in H as ([st1 fl] & H1 & H). rewrite H1 in Hnr. cbv beta iota in Hnr.
  match type of H1 with handle_packets ?s _ _ _ _ = _ =>
    assert (HI0 : CInv s) by (eapply cinv_view; [|exact HI]; reflexivity);
    assert (HK0 : GK s) by exact HK; assert (HG0 : GI s gf) by exact HG end.
  destruct (handle_packets_cinv _ _ _ _ _ _ _ HI0 H1) as [HI1 _].
  destruct (handle_packets_gi _ _ _ _ _ _ _ _ HI0 HK0 HG0 H1) as [HK1 HG1].
  apply bind_ok in H as (st2 & H2 & H).
  assert (X2 : CInv st2 /\ GK st2 /\ GI st2 gf /\
               match match (if f_new_data fl then drain_notifications st2 else Ok st2) with
                     | Ok st3 => if f_disconnect fl then Some st3 else None
                     | _ => None
                     end with Some st3 => hd_rewinds st3 id | None => false end = false).
  { destruct (f_force_ack fl).
    - rewrite H2 in Hnr. split; [eapply reschedule_cinv; eassumption|].
      unfold GK. rewrite (reschedule_groups _ _ _ _ H2). split; [exact HK1|]. split; [|exact Hnr].
      eapply gi_same; [eapply reschedule_dl; eassumption|eapply reschedule_groups; eassumption|exact HG1].
    - inv_ok. auto. }
  destruct X2 as (HI2 & HK2 & HG2 & Hnr2). clear Hnr.
  apply bind_ok in H as (st3 & H3 & H).
  assert (X3 : CInv st3 /\ GK st3 /\ GI st3 gf /\
               match (if f_disconnect fl then Some st3 else None) with Some st3 => hd_rewinds st3 id | None => false end = false).
  { destruct (f_new_data fl).
    - rewrite H3 in Hnr2. split; [eapply drain_notifications_cinv; eassumption|].
      unfold GK. rewrite (drain_notifications_groups _ _ H3). split; [exact HK2|]. split; [|exact Hnr2].
      eapply gi_same; [eapply drain_notifications_dl; eassumption|eapply drain_notifications_groups; eassumption|exact HG2].
    - inv_ok. auto. }
  destruct X3 as (HI3 & HK3 & HG3 & Hnr).
  destruct (f_disconnect fl); [|inv_ok; auto].
  destruct (handle_disconnection_cinv _ _ _ _ HI3 H) as [_ L4].
  eapply gi_gsub; [exact HI3|exact HK3|exact L4| |exact HG3]. eapply handle_disconnection_groups; eassumption.
Qed.

(* ------------------------------------------------------------------ handle_new_connection *)
Lemma rejoin_groups_one gs strat client rq :
  rejoin_groups gs strat client [rq] =
  match dr_group rq with
  | Some name =>
      let g := match al_get str_eqb name gs with
               | Some g => g
               | None => {| g_clients := []; g_idx := 0; g_cursor := dr_cursor rq; g_strategy := strat |}
               end in
      al_set str_eqb name (set_g_clients g (g_clients g ++ [client])) gs
  | None => gs
  end.
Proof. reflexivity. Qed.

Lemma rejoin_groups_cons gs strat client rq r :
  rejoin_groups gs strat client (rq :: r) = rejoin_groups (rejoin_groups gs strat client [rq]) strat client r.
Proof. reflexivity. Qed.

Lemma rejoin_groups_gi dl strat client gf : forall rqs gs,
  NoDup (map fst gs) -> Forall (EvOk dl gs) gf ->
  (forall name cu c off, In (name, cu) (rejoin_created gs strat client rqs) -> In (name, c, off) gf ->
                         off < read_pos dl name cu) ->
  NoDup (map fst (rejoin_groups gs strat client rqs)) /\ Forall (EvOk dl (rejoin_groups gs strat client rqs)) gf.
Proof.
  induction rqs as [|rq r IH]; intros gs HK HG Hf; [cbn [rejoin_groups]; auto|].
  rewrite rejoin_groups_cons. cbn [rejoin_created] in Hf. apply IH.
  - rewrite rejoin_groups_one. destruct (dr_group rq); [|exact HK]. now apply (al_set_nodup str_eqb str_eqb_spec).
  - rewrite rejoin_groups_one. destruct (dr_group rq) as [name|] eqn:En; [|exact HG]. cbv zeta.
    rewrite Forall_forall in *. intros e He. destruct (HG _ He) as (d & Hd & Hend & Hg).
    exists d. split; [exact Hd|]. split; [exact Hend|]. intros g' Hg'.
    destruct (str_eqb_spec (fst (fst e)) name) as [E | Hne].
    + rewrite E in Hg'. rewrite (al_get_set_same str_eqb str_eqb_spec) in Hg'. inversion Hg'; subst g'. clear Hg'.
      cbn [g_cursor set_g_clients]. destruct (al_get str_eqb name gs) as [g|] eqn:Eg.
      * apply Hg. now rewrite E.
      * cbn [g_cursor]. destruct e as [[n c] off]. cbn [fst snd] in *. subst n.
        specialize (Hf name (dr_cursor rq) c off). unfold read_pos in Hf. rewrite Hd in Hf. apply Hf; [|exact He].
        apply in_or_app. left. now left.
    + rewrite (RetainedBase.al_get_set_other str_eqb str_eqb_spec) in Hg' by exact Hne. now apply Hg.
  - intros name cu c off Hin. apply (Hf name cu c off). apply in_or_app. now right.
Qed.

Lemma handle_new_connection_gi st conn link st' gf :
  CInv st -> GK st -> GI st gf ->
  connect_rewinds st (c_client conn) = false ->
  (forall name pos c off, In (name, pos) (connect_rejoin st (c_client conn) (c_clean conn)) ->
                          In (name, c, off) gf -> off < pos) ->
  handle_new_connection st conn link = Ok st' -> GK st' /\ GI st' gf.
Proof.
  intros HI HK HG Hnr Hfr H. unfold handle_new_connection in H. unfold connect_rewinds in Hnr. unfold connect_rejoin in Hfr.
  destruct (negb (validate_clientid (c_client conn))) eqn:Ev; [inv_ok; auto|].
  apply negb_false_iff in Ev. rewrite Ev in Hnr. cbn [andb] in Hnr.
  apply bind_ok in H as (st1 & H1 & H). unfold connect_pre in Hfr.
  assert (X1 : CInv st1 /\ GK st1 /\ GI st1 gf /\
    (forall name pos c off,
       In (name, pos)
          (if cf_max_connections (r_cfg st1) <=? slab_len (r_conns st1) then []
           else if c_clean conn then []
           else match al_get str_eqb (c_client conn) (r_graveyard st1) with
                | Some (Some ss) =>
                    map (fun nc : str * cursor => (fst nc, read_pos (r_datalog st1) (fst nc) (snd nc)))
                        (rejoin_created (r_groups st1) (cf_strategy (r_cfg st1)) (c_client conn)
                                        (tr_reqs (ss_tracker ss)))
                | _ => []
                end) -> In (name, c, off) gf -> off < pos)).
  { destruct (al_get str_eqb (c_client conn) (r_cmap st)) as [cid|].
    - rewrite H1 in Hfr. destruct (handle_disconnection_cinv _ _ _ _ HI H1) as [HI1 L1]. split; [exact HI1|].
      destruct (gi_gsub st st1 gf HI HK L1 (handle_disconnection_groups _ _ _ _ H1 Hnr) HG) as [HK1 HG1]. auto.
    - inv_ok. auto. }
  destruct X1 as (HI1 & HK1 & HG1 & Hfr1). clear H1 HI HK HG Hnr Hfr. rename Hfr1 into Hfr.
  destruct (cf_max_connections (r_cfg st1) <=? slab_len (r_conns st1)); [inv_ok; auto|].
  match type of H with (match ?X with _ => _ end) = _ => destruct X as [[trk conn1] pubrels] eqn:EX end.
  destruct (slab_insert (r_conns st1) (set_c_will conn1 None)) as [conns id] eqn:Ic.
  destruct (slab_insert (r_ibufs st1) _) as [ibufs id_i] eqn:Ii.
  destruct (slab_insert (r_obufs st1) _) as [obufs id_o] eqn:Io.
  destruct (slab_insert (r_acks st1) _) as [acks id_a] eqn:Ia.
  destruct (slab_insert (r_trackers st1) trk) as [trackers id_t] eqn:It.
  match type of H with (if ?b then _ else _) = _ => destruct b end; [discriminate|].
  apply bind_ok in H as (u & _ & H).
  pose proof (reschedule_groups _ _ _ _ H) as G. pose proof (reschedule_dl _ _ _ _ H) as D.
  unfold GK, GI. rewrite G, D. cbn [r_groups r_datalog]. clear G D H.
  apply rejoin_groups_gi; [exact HK1|exact HG1|].
  intros name cu c off Hin Hev.
  destruct (negb (c_clean conn)) eqn:Ecl.
  - apply negb_true_iff in Ecl. rewrite Ecl in Hfr.
    destruct (al_get str_eqb (c_client conn) (r_graveyard st1)) as [[ss|]|]; inv_ok; cbn [tr_reqs rejoin_created] in Hin;
      try contradiction.
    apply (Hfr name (read_pos (r_datalog st1) name cu) c off); [|exact Hev].
    apply in_map_iff. exists (name, cu). split; [reflexivity|exact Hin].
  - inv_ok. cbn [tr_reqs rejoin_created] in Hin. contradiction.
Qed.
