(** C08 with C13: what a (restored or live) non-shared request forwards from its log is exactly
    the next window of the log's entries, in order, each with its offset, starting at the
    position of the request's cursor — for a resumed session that is the offset of the oldest
    unacknowledged publish ([resume_reachable]), so the unacknowledged ones come again, in
    order, followed by what was accepted while the client was away. *)
From Rumqtt Require Export Router.SessionIds.
From Rumqtt Require Import Router.RetainedReplay Log.Spec Log.Proofs Log.ReadTop.
From Coq Require Import ZifyBool ZifyN ZifyNat.

Lemma forward_log_window st id rq st' rq' status o d all :
  forward_device_data st id rq = Ok (st', rq', status) -> get_obuf st id = Ok o ->
  dr_group rq = None -> dr_fwd_retained rq = false -> status <> SInflightFull ->
  native_get (r_datalog st) (dr_idx rq) = Ok d ->
  let slots := if dr_qos rq =? 0 then cf_max_outgoing (r_cfg st) else MAX_INFLIGHT - lenN (o_inflight o) in
  let p := pos_of (d_log d) (dr_cursor rq) in
  WF pubdata_size (d_log d) all -> Issued (d_log d) (dr_cursor rq) ->
  2 * lenN all < U64 -> snd (dr_cursor rq) + slots < U64 ->
  exists from_log ns tail,
    map fst from_log = firstn (N.to_nat slots) (skipn (N.to_nat p) all) /\
    map (fun e => snd (snd e)) from_log = Nseq p (length from_log) /\
    out_of st' (o_link o) = out_of st (o_link o) ++ ns ++ tail /\
    (tail = [] \/ tail = [NUnschedule]) /\
    Forall2 (fun (e : pubdata * cursor) n =>
               exists p' pr', n = NForward (Some (snd e)) p' pr' /\ same_msg (dr_qos rq) (fst (fst e)) p')
            from_log ns /\
    snd (dr_cursor rq') = p + lenN from_log /\
    p + lenN from_log <= lenN all.
Proof.
  intros H Ho Hg Hfl Hst Hd slots p Hwf Hiss Hb1 Hb2.
  pose proof (forward_cases _ _ _ _ _ _ _ H Ho) as Hc. cbn zeta in Hc.
  rewrite (req_group_none _ _ Hg) in Hc. fold slots in Hc.
  destruct Hc as [(-> & _) | (sel & d' & pos & from_log & Hsel & Hd' & Hr & _ & _ & _ & _ & _ & Hrest)]; [congruence|].
  rewrite Hfl in Hsel. subst sel. rewrite Hd in Hd'. injection Hd' as <-.
  change (lenN (@nil pubdata)) with 0 in Hr. rewrite N.sub_0_r in Hr.
  destruct (readv_exact pubdata_size _ _ _ _ Hwf Hiss Hb1 Hb2) as (pos' & out' & Hr' & Hx).
  rewrite Hr in Hr'. injection Hr' as <- <-. cbn zeta in Hx. fold p in Hx.
  destruct Hx as (_ & Hp & Hmap & Hoff & _ & _ & _ & _ & Hend & _ & Hdone).
  destruct Hrest as (Hcu & _ & _ & _ & ns & Hout & _ & Hf & Hm).
  exists from_log, ns, (match status with BufferFull => [NUnschedule] | _ => [] end).
  split; [exact Hmap|]. split; [exact Hoff|]. split; [exact Hout|].
  split; [destruct status; auto|].
  apply srcs_split in Hf as (ns1 & ns2 & -> & Hf1 & Hf2). inversion Hf1; subst. cbn [app].
  split; [exact Hf2|]. split; [now rewrite Hcu|].
  assert (Hl : (length (map fst from_log) <= length all - N.to_nat p)%nat).
  { rewrite Hmap. rewrite firstn_length, skipn_length. lia. }
  rewrite map_length in Hl. clear - Hl Hp. clearbody p. unfold lenN, cursor in *. lia.
Qed.
