(** Common ground of the C15 / C16 / C08 / C17 proofs about M-ROUTER:
    - [run] over op lists (own copy: this development does not depend on the other provers' files),
    - generic facts about association lists, [nthN]/[setN], slabs,
    - the hypothesis-decomposition tactic [okinv] for [Outcome]-valued code,
    - the [Frame] class: per model function, which of the fields these properties talk about
      ([r_wills], [r_graveyard], [dl_retained], the commit logs) it leaves alone. *)
From Rumqtt Require Export Router.Model Topic.Proofs.
From Rumqtt Require Import Log.ListFacts.
From Coq Require Import ZifyBool ZifyN ZifyNat.

Arguments N.add : simpl never.
Arguments N.sub : simpl never.
Arguments N.mul : simpl never.
Arguments N.div : simpl never.
Arguments N.modulo : simpl never.
Arguments N.eqb : simpl never.
Arguments N.ltb : simpl never.
Arguments N.leb : simpl never.

(* ------------------------------------------------------------------ runs *)
Definition op_in : Type := (list oracle * rop)%type.

(** fold [step_with] over the ops, stop at the first non-[Ok] outcome; outputs are collected *)
Fixpoint run (st : rstate) (ops : list op_in) : R (rstate * list rout) :=
  match ops with
  | [] => Ok (st, [])
  | (orc, o) :: r =>
      do (st1, out) <- step_with st orc o;
      do (st2, outs) <- run st1 r;
      Ok (st2, out :: outs)
  end.

Definition run_from (cfg : config) (ops : list op_in) : R (rstate * list rout) :=
  do st0 <- init cfg; run st0 ops.

Definition reachable (cfg : config) (st : rstate) : Prop :=
  exists ops outs, run_from cfg ops = Ok (st, outs).

Lemma bind_ok {E A B} (x : Outcome E A) (f : A -> Outcome E B) r :
  bind x f = Ok r -> exists a, x = Ok a /\ f a = Ok r.
Proof. destruct x; cbn [bind]; intros H; try discriminate. eauto. Qed.

(** decompose hypotheses [code = Ok r] along binds, matches and ifs *)
Ltac ok1 :=
  match goal with
  | H : Panic _ = Ok _ |- _ => discriminate H
  | H : Err _ = Ok _ |- _ => discriminate H
  | H : Ok _ = Ok _ |- _ => inversion H; subst; clear H
  | H : bind ?x _ = Ok _ |- _ =>
      let E := fresh "E" in
      destruct x eqn:E; cbn [bind] in H; [ | discriminate H | discriminate H ]
  | H : (match ?c with _ => _ end) = Ok _ |- _ =>
      first [ is_var c; destruct c | let E := fresh "E" in destruct c eqn:E ]
  end.
Ltac okinv := repeat ok1.

Lemma run_snoc st ops orc o :
  run st (ops ++ [(orc, o)]) =
  (do (st1, outs) <- run st ops;
   do (st2, out) <- step_with st1 orc o;
   Ok (st2, outs ++ [out])).
Proof.
  revert st. induction ops as [| [orc1 o1] r IH]; intros st; cbn [run app bind].
  - destruct (step_with st orc o) as [[st2 out] | e | t]; cbn [bind app]; reflexivity.
  - destruct (step_with st orc1 o1) as [[st1 out1] | e | t]; cbn [bind]; try reflexivity.
    rewrite IH. destruct (run st1 r) as [[st2 outs] | e | t]; cbn [bind]; try reflexivity.
    destruct (step_with st2 orc o) as [[st3 out] | e | t]; cbn [bind app]; reflexivity.
Qed.

(** an invariant of [init cfg] preserved by every [Ok] step holds in every reachable state *)
Lemma run_inv (I : rstate -> Prop) :
  (forall st orc o st' out, I st -> step_with st orc o = Ok (st', out) -> I st') ->
  forall ops st st' outs, I st -> run st ops = Ok (st', outs) -> I st'.
Proof.
  intros Hstep. induction ops as [| [orc o] r IH]; intros st st' outs Hi H; cbn [run] in H.
  - okinv. exact Hi.
  - okinv. eapply IH; [ eapply Hstep; eauto | eauto ].
Qed.

Lemma reachable_inv (I : rstate -> Prop) cfg :
  (forall st0, init cfg = Ok st0 -> I st0) ->
  (forall st orc o st' out, I st -> step_with st orc o = Ok (st', out) -> I st') ->
  forall st, reachable cfg st -> I st.
Proof.
  intros H0 Hs st (ops & outs & H). unfold run_from in H. okinv.
  eapply run_inv; eauto.
Qed.

(* ------------------------------------------------------------------ strings *)
Lemma str_eqb_refl a : str_eqb a a = true.
Proof. destruct (str_eqb_spec a a); congruence. Qed.
Lemma str_eqb_eq a b : str_eqb a b = true -> a = b.
Proof. destruct (str_eqb_spec a b); congruence. Qed.
Lemma str_eqb_neq a b : a <> b -> str_eqb a b = false.
Proof. destruct (str_eqb_spec a b); congruence. Qed.

Lemma Neqb_spec a b : reflect (a = b) (N.eqb a b).
Proof. apply N.eqb_spec. Qed.

Lemma NoDup_snoc {A} (l : list A) k : NoDup l -> ~ In k l -> NoDup (l ++ [k]).
Proof.
  induction l as [| x r IH]; cbn [app]; intros Hnd Hni.
  - constructor; [tauto | constructor].
  - inversion Hnd as [| ? ? Hx Hr]; subst. constructor.
    + rewrite in_app_iff. cbn [In]. intros [H | [H | []]]; [tauto | subst; apply Hni; now left].
    + apply IH; [exact Hr | intros H; apply Hni; now right].
Qed.

(* ------------------------------------------------------------------ association lists *)
Section AL.
Context {K V : Type} (keq : K -> K -> bool) (keq_spec : forall a b, reflect (a = b) (keq a b)).

Lemma keq_refl a : keq a a = true.
Proof. destruct (keq_spec a a); congruence. Qed.

Lemma al_get_set_same k v (m : list (K * V)) : al_get keq k (al_set keq k v m) = Some v.
Proof.
  induction m as [| [k' v'] r IH]; cbn [al_set al_get].
  - now rewrite keq_refl.
  - destruct (keq k k') eqn:E; cbn [al_get]; rewrite E; [reflexivity | exact IH].
Qed.

Lemma al_get_set_other k k' v (m : list (K * V)) :
  k' <> k -> al_get keq k' (al_set keq k v m) = al_get keq k' m.
Proof.
  intros Hn. induction m as [| [k1 v1] r IH]; cbn [al_set al_get].
  - destruct (keq_spec k' k); congruence.
  - destruct (keq_spec k k1) as [<- | Hk]; cbn [al_get].
    + destruct (keq_spec k' k); congruence.
    + destruct (keq k' k1); [reflexivity | exact IH].
Qed.

Lemma al_get_remove_other k k' (m : list (K * V)) :
  k' <> k -> al_get keq k' (al_remove keq k m) = al_get keq k' m.
Proof.
  intros Hn. induction m as [| [k1 v1] r IH]; cbn [al_remove al_get]; [reflexivity|].
  destruct (keq_spec k k1) as [<- | Hk]; cbn [al_get].
  - destruct (keq_spec k' k); congruence.
  - destruct (keq k' k1); [reflexivity | exact IH].
Qed.

Lemma al_get_none k (m : list (K * V)) : al_get keq k m = None <-> ~ In k (map fst m).
Proof.
  induction m as [| [k1 v1] r IH]; cbn [al_get map fst In]; [tauto|].
  destruct (keq_spec k k1) as [<- | Hk].
  - split; [discriminate | tauto].
  - rewrite IH. split; [intros H [E | E]; [congruence | tauto] | tauto].
Qed.

Lemma al_get_in k v (m : list (K * V)) : al_get keq k m = Some v -> In (k, v) m.
Proof.
  induction m as [| [k1 v1] r IH]; cbn [al_get In]; [discriminate|].
  destruct (keq_spec k k1) as [<- | Hk]; [intros [= ->]; now left | intros H; right; auto].
Qed.

Lemma in_al_get k v (m : list (K * V)) : NoDup (map fst m) -> In (k, v) m -> al_get keq k m = Some v.
Proof.
  induction m as [| [k1 v1] r IH]; cbn [al_get In map fst]; [tauto|].
  intros Hnd [E | Hin].
  - injection E as -> ->. now rewrite keq_refl.
  - inversion Hnd as [| ? ? Hni Hnd']; subst.
    destruct (keq_spec k k1) as [<- | Hk]; [|auto].
    exfalso. apply Hni. change k with (fst (k, v)). now apply in_map.
Qed.

Lemma al_remove_keys_incl k (m : list (K * V)) : incl (map fst (al_remove keq k m)) (map fst m).
Proof.
  induction m as [| [k1 v1] r IH]; cbn [al_remove map fst]; [apply incl_refl|].
  destruct (keq k k1); cbn [map fst]; [apply incl_tl, incl_refl|].
  intros x [-> | Hx]; [now left | right; now apply IH].
Qed.

Lemma al_remove_incl k (m : list (K * V)) : incl (al_remove keq k m) m.
Proof.
  induction m as [| [k1 v1] r IH]; cbn [al_remove]; [apply incl_refl|].
  destruct (keq k k1); [apply incl_tl, incl_refl|].
  intros x [<- | Hx]; [now left | right; now apply IH].
Qed.

Lemma al_remove_nodup k (m : list (K * V)) : NoDup (map fst m) -> NoDup (map fst (al_remove keq k m)).
Proof.
  induction m as [| [k1 v1] r IH]; cbn [al_remove map fst]; [auto|].
  intros Hnd. inversion Hnd as [| ? ? Hni Hnd']; subst.
  destruct (keq k k1); cbn [map fst]; [exact Hnd'|].
  constructor; [|auto]. intros Hin. apply Hni. eapply al_remove_keys_incl; eauto.
Qed.

Lemma al_get_remove_same k (m : list (K * V)) :
  NoDup (map fst m) -> al_get keq k (al_remove keq k m) = None.
Proof.
  induction m as [| [k1 v1] r IH]; cbn [al_remove map fst]; [reflexivity|].
  intros Hnd. inversion Hnd as [| ? ? Hni Hnd']; subst.
  destruct (keq_spec k k1) as [<- | Hk].
  - now apply al_get_none.
  - cbn [al_get]. destruct (keq_spec k k1); [congruence | auto].
Qed.

Lemma al_set_keys k v (m : list (K * V)) :
  map fst (al_set keq k v m) = if al_get keq k m then map fst m else map fst m ++ [k].
Proof.
  induction m as [| [k1 v1] r IH]; cbn [al_set al_get map fst app]; [reflexivity|].
  destruct (keq k k1); cbn [map fst]; [reflexivity|].
  rewrite IH. destruct (al_get keq k r); reflexivity.
Qed.

Lemma al_set_nodup k v (m : list (K * V)) : NoDup (map fst m) -> NoDup (map fst (al_set keq k v m)).
Proof.
  intros Hnd. rewrite al_set_keys. destruct (al_get keq k m) eqn:E; [exact Hnd|].
  apply al_get_none in E. apply NoDup_snoc; auto.
Qed.

Lemma al_set_in k v k' v' (m : list (K * V)) :
  In (k', v') (al_set keq k v m) -> In (k', v') m \/ (k' = k /\ v' = v).
Proof.
  induction m as [| [k1 v1] r IH]; cbn [al_set In].
  - intros [[= <- <-] | []]. now right.
  - destruct (keq_spec k k1) as [<- | Hk]; cbn [In].
    + intros [[= <- <-] | H]; [now right | left; now right].
    + intros [H | H]; [left; now left|]. destruct (IH H) as [H' | H']; [left; now right | now right].
Qed.

Lemma al_get_app k (m m' : list (K * V)) :
  al_get keq k (m ++ m') = match al_get keq k m with Some v => Some v | None => al_get keq k m' end.
Proof.
  induction m as [| [k1 v1] r IH]; cbn [app al_get]; [reflexivity|].
  destruct (keq k k1); [reflexivity | exact IH].
Qed.
End AL.

(* ------------------------------------------------------------------ nthN / setN / slabs *)
Lemma nthN_setN_same {X} (l : list X) : forall i v x, nthN l i = Some x -> nthN (setN l i v) i = Some v.
Proof.
  induction l as [| y r IH]; intros i v x H; cbn [nthN setN] in *; [discriminate|].
  destruct (N.eqb_spec i 0) as [-> | Hn]; cbn [nthN].
  - reflexivity.
  - destruct (N.eqb_spec i 0); [lia|]. eapply IH; eauto.
Qed.

Lemma nthN_setN_other {X} (l : list X) : forall i j v, i <> j -> nthN (setN l i v) j = nthN l j.
Proof.
  induction l as [| y r IH]; intros i j v Hn; cbn [nthN setN]; [reflexivity|].
  destruct (N.eqb_spec i 0) as [-> | Hi]; cbn [nthN].
  - destruct (N.eqb_spec j 0); [lia | reflexivity].
  - destruct (N.eqb_spec j 0); [reflexivity|]. apply IH. lia.
Qed.

Lemma nthN_setN {X} (l : list X) i j v :
  nthN (setN l i v) j = if (i =? j) then (match nthN l i with Some _ => Some v | None => None end) else nthN l j.
Proof.
  destruct (N.eqb_spec i j) as [<- | Hn].
  - destruct (nthN l i) eqn:E; [eapply nthN_setN_same; eauto|].
    revert i E. induction l as [| y r IH]; intros i E; cbn [nthN setN] in *; [reflexivity|].
    destruct (N.eqb_spec i 0); [discriminate|]. cbn [nthN]. destruct (N.eqb_spec i 0); [lia|]. auto.
  - now apply nthN_setN_other.
Qed.

Lemma length_setN {X} (l : list X) : forall i v, length (setN l i v) = length l.
Proof.
  induction l as [| y r IH]; intros i v; cbn [setN length]; [reflexivity|].
  destruct (i =? 0); cbn [length]; [reflexivity | now rewrite IH].
Qed.

Lemma nthN_lt {X} (l : list X) : forall i x, nthN l i = Some x -> i < lenN l.
Proof.
  induction l as [| y r IH]; intros i x H; cbn [nthN] in H; [discriminate|].
  unfold lenN. cbn [length]. destruct (N.eqb_spec i 0); [lia|]. apply IH in H. unfold lenN in H. lia.
Qed.

Lemma nthN_ge {X} (l : list X) : forall i, lenN l <= i -> nthN l i = None.
Proof.
  induction l as [| y r IH]; intros i H; cbn [nthN]; [reflexivity|].
  unfold lenN in *. cbn [length] in H. destruct (N.eqb_spec i 0); [lia|]. apply IH. lia.
Qed.

Lemma nthN_some_lt {X} (l : list X) : forall i, i < lenN l -> exists x, nthN l i = Some x.
Proof.
  intros i H. destruct (nthN l i) eqn:E; [eauto|].
  exfalso. revert i H E. induction l as [| y r IH]; intros i H E; unfold lenN in *; cbn [length nthN] in *; [lia|].
  destruct (N.eqb_spec i 0); [discriminate|]. eapply (IH (i - 1)); [lia | exact E].
Qed.

Lemma nthN_app_l {X} (l l' : list X) : forall i x, nthN l i = Some x -> nthN (l ++ l') i = Some x.
Proof.
  induction l as [| y r IH]; intros i x H; cbn [nthN app] in *; [discriminate|].
  destruct (i =? 0); [exact H | auto].
Qed.

Lemma nthN_app_len {X} (l : list X) x : nthN (l ++ [x]) (lenN l) = Some x.
Proof.
  induction l as [| y r IH]; cbn [nthN app]; [reflexivity|].
  unfold lenN in *. cbn [length]. destruct (N.eqb_spec (N.of_nat (S (length r))) 0); [lia|].
  replace (N.of_nat (S (length r)) - 1) with (N.of_nat (length r)) by lia. exact IH.
Qed.

Lemma nthN_app_other {X} (l : list X) x i : i <> lenN l -> nthN (l ++ [x]) i = nthN l i.
Proof.
  revert i. induction l as [| y r IH]; intros i Hn; cbn [nthN app].
  - unfold lenN in Hn. cbn [length] in Hn. destruct (N.eqb_spec i 0); [lia | reflexivity].
  - destruct (N.eqb_spec i 0); [reflexivity|]. apply IH. unfold lenN in *. cbn [length] in Hn. lia.
Qed.

Lemma map_setN_same {X Y} (f : X -> Y) (l : list X) : forall i v x,
  nthN l i = Some x -> f v = f x -> map f (setN l i v) = map f l.
Proof.
  induction l as [| y r IH]; intros i v x H Hf; cbn [nthN setN map] in *; [reflexivity|].
  destruct (i =? 0); cbn [map].
  - injection H as ->. now rewrite Hf.
  - f_equal. eapply IH; eauto.
Qed.

Lemma Forall_setN {X} (P : X -> Prop) (l : list X) : forall i v,
  Forall P l -> P v -> Forall P (setN l i v).
Proof.
  induction l as [| y r IH]; intros i v Hl Hv; cbn [setN]; [constructor|].
  inversion Hl; subst. destruct (i =? 0); constructor; auto.
Qed.

Lemma Forall_nthN {X} (P : X -> Prop) (l : list X) : forall i x, Forall P l -> nthN l i = Some x -> P x.
Proof.
  induction l as [| y r IH]; intros i x Hl H; cbn [nthN] in H; [discriminate|].
  inversion Hl; subst. destruct (i =? 0); [injection H as <-; auto | eauto].
Qed.

Section SlabFacts.
Context {A : Type}.
Implicit Types s : slab A.

Lemma slab_get_put_same s k a b : slab_get s k = Some a -> slab_get (slab_put s k b) k = Some b.
Proof.
  unfold slab_get, slab_put. cbn [sl_items]. intros H.
  destruct (nthN (sl_items s) k) as [o|] eqn:E; [|discriminate].
  now rewrite (nthN_setN_same _ _ _ _ E).
Qed.

Lemma slab_get_put_other s k j b : k <> j -> slab_get (slab_put s k b) j = slab_get s j.
Proof. intros H. unfold slab_get, slab_put. cbn [sl_items]. now rewrite nthN_setN_other. Qed.

Lemma slab_get_put s k j b :
  slab_get (slab_put s k b) j =
  if k =? j then (match nthN (sl_items s) k with Some _ => Some b | None => None end) else slab_get s j.
Proof.
  unfold slab_get, slab_put. cbn [sl_items]. rewrite nthN_setN.
  destruct (k =? j); [|reflexivity]. destruct (nthN (sl_items s) k); reflexivity.
Qed.

(** free keys are inside the item vector *)
Definition slab_ok s : Prop := Forall (fun k => k < lenN (sl_items s)) (sl_free s).

Lemma slab_ok_put s k a : slab_ok s -> slab_ok (slab_put s k a).
Proof. unfold slab_ok, slab_put, lenN. cbn [sl_items sl_free]. now rewrite length_setN. Qed.

Lemma slab_ok_insert s a s' k : slab_ok s -> slab_insert s a = (s', k) -> slab_ok s'.
Proof.
  unfold slab_ok, slab_insert, lenN. intros H E. destruct (sl_free s) as [| k0 fr] eqn:Ef.
  - injection E as <- <-. cbn [sl_free]. constructor.
  - injection E as <- <-. cbn [sl_items sl_free]. rewrite length_setN. now inversion H.
Qed.

Lemma slab_ok_remove s k s' a : slab_ok s -> slab_remove s k = Some (s', a) -> slab_ok s'.
Proof.
  unfold slab_ok, slab_remove. intros H E. destruct (slab_get s k) as [x|] eqn:Eg; [|discriminate].
  injection E as <- <-. cbn [sl_items sl_free]. unfold lenN in *. rewrite length_setN.
  constructor; [|exact H]. unfold slab_get in Eg.
  destruct (nthN (sl_items s) k) eqn:En; [|discriminate]. apply nthN_lt in En. exact En.
Qed.

Lemma slab_insert_get s a s' k : slab_ok s -> slab_insert s a = (s', k) -> slab_get s' k = Some a.
Proof.
  unfold slab_ok, slab_insert, slab_get. intros H E. destruct (sl_free s) as [| k0 fr] eqn:Ef.
  - injection E as <- <-. cbn [sl_items]. now rewrite nthN_app_len.
  - injection E as <- <-. cbn [sl_items]. inversion H as [| ? ? Hk _]; subst.
    destruct (nthN_some_lt _ _ Hk) as (x & Hx). now rewrite (nthN_setN_same _ _ _ _ Hx).
Qed.

Lemma slab_insert_get_other s a s' k j : slab_insert s a = (s', k) -> j <> k -> slab_get s' j = slab_get s j.
Proof.
  unfold slab_insert, slab_get. intros E Hn. destruct (sl_free s) as [| k0 fr] eqn:Ef.
  - injection E as <- <-. cbn [sl_items]. now rewrite nthN_app_other.
  - injection E as <- <-. cbn [sl_items]. rewrite nthN_setN_other; auto.
Qed.

Lemma slab_remove_get s k s' a : slab_remove s k = Some (s', a) -> slab_get s k = Some a.
Proof. unfold slab_remove. destruct (slab_get s k); [intros [= <- <-]; reflexivity | discriminate]. Qed.
End SlabFacts.

(* ------------------------------------------------------------------ the fields of interest *)
Definition opt_log (o : option data) : option (log pubdata) :=
  match o with Some d => Some (d_log d) | None => None end.
Definition dl_logs (dl : datalog) : list (option (log pubdata)) := map opt_log (sl_items (dl_native dl)).

(** keeps: config, wills, graveyard, retained store, every commit log *)
Definition Kp (st st' : rstate) : Prop :=
  r_cfg st' = r_cfg st /\ r_wills st' = r_wills st /\ r_graveyard st' = r_graveyard st /\
  dl_retained (r_datalog st') = dl_retained (r_datalog st) /\
  dl_logs (r_datalog st') = dl_logs (r_datalog st).
(** the same without the commit logs *)
Definition Kw (st st' : rstate) : Prop :=
  r_cfg st' = r_cfg st /\ r_wills st' = r_wills st /\ r_graveyard st' = r_graveyard st /\
  dl_retained (r_datalog st') = dl_retained (r_datalog st).

Lemma Kp_refl st : Kp st st.
Proof. unfold Kp; tauto. Qed.
Lemma Kp_trans a b c : Kp a b -> Kp b c -> Kp a c.
Proof. unfold Kp; intuition congruence. Qed.
Lemma Kp_Kw a b : Kp a b -> Kw a b.
Proof. unfold Kp, Kw; tauto. Qed.
Lemma Kw_refl st : Kw st st.
Proof. unfold Kw; tauto. Qed.
Lemma Kw_trans a b c : Kw a b -> Kw b c -> Kw a c.
Proof. unfold Kw; intuition congruence. Qed.

(** [Frame x P]: whenever [x] returns [Ok a], [P a].  Instances are looked up by [frames]. *)
Class Frame {A} (x : R A) (P : A -> Prop) : Prop := frame_pf : forall a, x = Ok a -> P a.
Definition used {T} (x : T) : T := x.

Ltac frames :=
  repeat match goal with
  | E : ?x = Ok ?a |- _ =>
      let F := fresh "F" in
      pose proof (frame_pf (x := x) a E) as F; cbn beta iota delta [fst snd] in F;
      change (used (x = Ok a)) in E
  end.
Ltac unused := unfold used in *.
Ltac rsimpl :=
  cbn [r_cfg r_graveyard r_conns r_cmap r_submap r_ibufs r_obufs r_datalog r_acks r_trackers r_ready
       r_notif r_groups r_wills r_links r_oracle
       set_r_cfg set_r_graveyard set_r_conns set_r_cmap set_r_submap set_r_ibufs set_r_obufs set_r_datalog
       set_r_acks set_r_trackers set_r_ready set_r_notif set_r_groups set_r_wills set_r_links set_r_oracle
       dl_native dl_findex dl_retained dl_pfilters set_dl_native set_dl_findex set_dl_retained set_dl_pfilters
       put_tracker put_conn put_obuf put_acks link_put fst snd].
Tactic Notation "rsimpl" "in" hyp(H) :=
  cbn [r_cfg r_graveyard r_conns r_cmap r_submap r_ibufs r_obufs r_datalog r_acks r_trackers r_ready
       r_notif r_groups r_wills r_links r_oracle
       set_r_cfg set_r_graveyard set_r_conns set_r_cmap set_r_submap set_r_ibufs set_r_obufs set_r_datalog
       set_r_acks set_r_trackers set_r_ready set_r_notif set_r_groups set_r_wills set_r_links set_r_oracle
       dl_native dl_findex dl_retained dl_pfilters set_dl_native set_dl_findex set_dl_retained set_dl_pfilters
       put_tracker put_conn put_obuf put_acks link_put fst snd] in H.
Ltac rsimpl_all :=
  cbn [r_cfg r_graveyard r_conns r_cmap r_submap r_ibufs r_obufs r_datalog r_acks r_trackers r_ready
       r_notif r_groups r_wills r_links r_oracle
       set_r_cfg set_r_graveyard set_r_conns set_r_cmap set_r_submap set_r_ibufs set_r_obufs set_r_datalog
       set_r_acks set_r_trackers set_r_ready set_r_notif set_r_groups set_r_wills set_r_links set_r_oracle
       dl_native dl_findex dl_retained dl_pfilters set_dl_native set_dl_findex set_dl_retained set_dl_pfilters
       put_tracker put_conn put_obuf put_acks link_put fst snd] in *.
Ltac split_goal :=
  repeat match goal with
  | |- context [match ?c with _ => _ end] => first [ is_var c; destruct c | let E := fresh "E" in destruct c eqn:E ]
  end.
Ltac split_hyps :=
  repeat match goal with
  | F : context [match ?c with _ => _ end] |- _ =>
     lazymatch type of F with used _ => fail | _ => idtac end;
     first [ is_var c; destruct c | let E := fresh "E" in destruct c eqn:E ]; cbn beta iota in *
  end.
Ltac kp := unfold Kp, Kw in *; split_goal; rsimpl; intuition congruence.
Ltac frame_by f := let a := fresh "a" in let H := fresh "H" in
  intros a H; unfold f in H; okinv; frames; kp.

Global Instance fr_push_out st k ns : Frame (push_out st k ns) (fun r => Kp st (fst r)).
Proof. frame_by push_out. Qed.

(* ------------------------------------------------------------------ logs store unflagged publishes *)
Definition unflagged_seg (s : segment pubdata) : Prop := Forall (fun e : pubdata => p_retain (fst e) = false) (s_data s).
Definition unflagged (l : log pubdata) : Prop := Forall unflagged_seg (segs l).
Definition unflagged_opt (o : option (log pubdata)) : Prop := match o with Some l => unflagged l | None => True end.
(** every entry of every commit log has [retain = false] *)
Definition LU (st : rstate) : Prop := Forall unflagged_opt (dl_logs (r_datalog st)).

Lemma apply_retention_unflagged (l l1 : log pubdata) :
  apply_retention l = Ok l1 -> unflagged l -> unflagged l1.
Proof.
  unfold apply_retention, unflagged. intros H Hu. okinv; cbn [segs]; auto.
  - apply Forall_app. split; [|repeat constructor].
    destruct (segs l); cbn [tl]; [constructor | now inversion Hu].
  - apply Forall_app. split; [exact Hu | repeat constructor].
Qed.

Lemma append_unflagged (l l' : log pubdata) x c :
  append pubdata_size l x = Ok (l', c) -> unflagged l -> p_retain (fst x) = false -> unflagged l'.
Proof.
  unfold append. intros H Hu Hx. okinv.
  match goal with E : apply_retention _ = Ok ?l1 |- _ => apply apply_retention_unflagged in E; [|exact Hu]; rename E into Hu1 end.
  match goal with E : split_back _ = Some _ |- _ => rename E into Es end.
  pose proof (split_back_spec (segs a)) as Hs. rewrite Es in Hs.
  unfold unflagged in *. cbn [segs]. rewrite Hs in Hu1. apply Forall_app in Hu1 as [Hi Ha].
  apply Forall_app. split; [exact Hi|]. constructor; [|constructor].
  inversion Ha as [| ? ? Ha1 _]; subst.
  match goal with E : seg_push _ _ _ = Ok _ |- _ => unfold seg_push in E; okinv end.
  unfold unflagged_seg in *. cbn [s_data]. apply Forall_app. split; [exact Ha1 | now constructor].
Qed.

Lemma new_unflagged ms mm (l : log pubdata) : new ms mm = Ok l -> unflagged l.
Proof. unfold new. intros H. okinv. unfold unflagged. cbn [segs]. repeat constructor. Qed.
