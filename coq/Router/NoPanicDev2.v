(** Dev profile, second pass, part 2: forward_device_data, consume. *)
From Rumqtt Require Import Router.NoPanicLog.
From Rumqtt Require Import Router.Model Router.InvLemmasBase Router.Inv Router.InvLemmasPrim Router.InvLemmasSched
  Router.InvLemmasDl Router.InvLemmasRoute Router.InvLemmasConsume Router.NoPanicDevBase Router.NoPanicDevInv
  Router.NoPanicDev1.
From Rumqtt Require Import Router.Model.
From Coq Require Import Arith ZifyBool ZifyN ZifyNat.

Lemma dfr_frame st st' e1 e2 x y :
  dfr st st' e1 e2 -> (forall id f, cntw f id y = cntw f id x) -> dfr st st' (x ++ e1) (y ++ e2).
Proof.
  intros (H1 & H2 & H3) Hxy. split; [|split; assumption]. intros id f. specialize (H1 id f).
  unfold CNT in *. rewrite !cntw_app, Hxy. lia.
Qed.

Lemma dfr_swap_local st st' e id rq rq' :
  dfr st st' e e -> dr_filter rq' = dr_filter rq -> dfr st st' ((id, rq) :: e) ((id, rq') :: e).
Proof.
  intros D Hf. apply (dfr_frame st st' e e [(id, rq)] [(id, rq')] D).
  intros id0 f. rewrite !cntw_single. unfold fmatch. now rewrite Hf.
Qed.

Lemma update_next_client_dev st g : wpd (update_next_client st g) (fun r => oracle_only st (fst r)).
Proof.
  unfold update_next_client. destruct (g_strategy g).
  - destruct (lenN (g_clients g) =? 0); [notdup|]. cbn [wpd fst]. left; reflexivity.
  - destruct (lenN (g_clients g) =? 0); [notdup|].
    destruct (r_oracle st) as [|[| |i] orc]; cbn [wpd]; auto.
    destruct (i <? lenN (g_clients g)); cbn [wpd fst]; auto. right. eauto.
  - cbn [wpd fst]. left; reflexivity.
Qed.

Lemma readv_dev (l : log pubdata) all c n :
  WF pubdata_size l all -> wpd (readv l c n) (fun _ => True).
Proof.
  intros [H _]. destruct (lw_readv pubdata_size l all c n H) as [(pos & out & Hr & Hl) | Hp]; [rewrite Hr; exact I|rewrite Hp; notdup].
Qed.

Lemma fdd_rest_dev cfg st1 id o conn (sg : option (str * group)) rq1 retained slots2 e :
  RInvC cfg st1 -> slab_get (r_conns st1) id = Some conn -> req_ok (nlen st1) rq1 ->
  wpd
   (do d <- native_get (r_datalog st1) (dr_idx rq1);
    do (pos, from_log) <- readv (d_log d) (dr_cursor rq1) slots2;
    let publishes : list (option cursor * publish * option pprops) :=
      map (fun x : pubdata => (None, fst x, snd x)) retained
      ++ map (fun x : pubdata * cursor => (Some (snd x), fst (fst x), snd (fst x))) from_log in
    let '(start, next, caughtup) := match pos with
                                    | Next s e => (s, e, false)
                                    | Done s e => (s, e, true)
                                    end in
    let skip := match sg with
                | Some (_, g) => negb (ostr_eqb (Some (o_client o)) (current_client g))
                | None => false
                end in
    if skip then Ok (st1, rq1, if caughtup && match publishes with [] => true | _ => false end
                               then FilterCaughtup else SkipRequest)
    else
      let rq2 := {| dr_filter := dr_filter rq1; dr_idx := dr_idx rq1; dr_qos := dr_qos rq1;
                    dr_cursor := next; dr_read := dr_read rq1 + lenN publishes;
                    dr_fwd_retained := dr_fwd_retained rq1; dr_group := dr_group rq1 |} in
      match publishes with
      | [] => Ok (st1, rq2, FilterCaughtup)
      | _ =>
          let subid := al_get str_eqb (dr_filter rq2) (c_subids conn) in
          if 2 <? dr_qos rq2 then Panic P_QOS
          else
            let '(bal, forwards) := alias_forwards (c_baliases conn) (dr_qos rq2) subid publishes in
            let conn1 := set_c_baliases conn bal in
            let st2 := put_conn st1 id conn1 in
            let '(o1, notifs) :=
              if dr_qos rq2 =? 0
              then (o, map (fun x : option cursor * publish * option pprops =>
                              let '(c, p, pr) := x in NForward c p pr) forwards)
              else number_forwards o (dr_idx rq2) forwards in
            let st3 := put_obuf st2 id o1 in
            do (st4, len) <- push_out st3 (o_link o1) notifs;
            do st5 <-
              (match sg with
               | Some (name, _) =>
                   match al_get str_eqb name (r_groups st4) with
                   | Some g =>
                       do (st', g') <- update_next_client st4 g;
                       Ok (set_r_groups st' (al_set str_eqb name (set_g_cursor g' (dr_cursor rq2)) (r_groups st')))
                   | None => Ok st4
                   end
               | None => Ok st4
               end);
            if MAX_CHANNEL_CAPACITY - 1 <=? len then
              do (st6, _) <- push_out st5 (o_link o1) [NUnschedule];
              Ok (st6, rq2, BufferFull)
            else
              Ok (st5, rq2, if caughtup then FilterCaughtup else PartialRead)
      end)
   (fun r => dfr st1 (fst (fst r)) e e /\ dr_filter (snd (fst r)) = dr_filter rq1).
Proof.
  intros HI Hc Hrq.
  destruct (native_get_ok _ _ _ (ri_dl _ _ HI) (proj2 Hrq)) as (d & Hd & _ & [[all Hwf] _]).
  rewrite Hd. cbn [bind]. apply wpd_bind. eapply wpd_mono; [apply (readv_dev _ _ _ _ Hwf)|].
  intros [pos from_log] _. cbv zeta.
  destruct (match pos with Next s e => (s, e, false) | Done s e => (s, e, true) end) as [[start next] caughtup].
  match goal with |- wpd (if ?b then _ else _) _ => destruct b end.
  { cbn [wpd fst snd]. split; [apply dfr_refl|reflexivity]. }
  match goal with |- wpd (match ?l with [] => _ | _ :: _ => _ end) _ => destruct l as [|pb publishes'] eqn:Epub end.
  { cbn [wpd fst snd]. split; [apply dfr_refl|reflexivity]. }
  match goal with |- wpd (if ?b then _ else _) _ => destruct b end; [notdup|].
  match goal with |- context [alias_forwards ?a ?b ?c ?d] => destruct (alias_forwards a b c d) as [bal forwards] end.
  set (st2 := put_conn st1 id (set_c_baliases conn bal)).
  assert (D2 : dfr st1 st2 e e) by (eapply dfr_put_conn; eauto).
  match goal with |- context [put_obuf st2 id (fst ?x)] => idtac | |- _ => idtac end.
  match goal with |- wpd (let '(o1, notifs) := ?x in _) _ => destruct x as [o1 notifs] end.
  set (st3 := put_obuf st2 id o1).
  assert (D3 : dfr st1 st3 e e) by (eapply dfr_trans; [exact D2|dfr_triv]).
  apply wpd_bind. eapply wpd_mono; [apply (push_out_dev st3 (o_link o1) notifs e)|].
  intros [st4 len] D4. cbn [fst] in D4.
  apply wpd_bind.
  assert (H5 : wpd
     (match sg with
      | Some (name, _) =>
          match al_get str_eqb name (r_groups st4) with
          | Some g =>
              do (st', g') <- update_next_client st4 g;
              Ok (set_r_groups st' (al_set str_eqb name (set_g_cursor g' (dr_cursor
                 {| dr_filter := dr_filter rq1; dr_idx := dr_idx rq1; dr_qos := dr_qos rq1;
                    dr_cursor := next; dr_read := dr_read rq1 + lenN (pb :: publishes');
                    dr_fwd_retained := dr_fwd_retained rq1; dr_group := dr_group rq1 |})) (r_groups st')))
          | None => Ok st4
          end
      | None => Ok st4
      end) (fun st5 => dfr st4 st5 e e)).
  { destruct sg as [[name g0]|]; [|apply dfr_refl].
    destruct (al_get str_eqb name (r_groups st4)) as [g|]; [|apply dfr_refl].
    apply wpd_bind. eapply wpd_mono; [apply update_next_client_dev|]. intros [st' g'] Hoo. cbn [fst] in Hoo. cbn [wpd].
    eapply dfr_trans; [apply oracle_only_dfr; exact Hoo|dfr_triv]. }
  eapply wpd_mono; [exact H5|]. cbn beta. intros st5 D5.
  assert (D15 : dfr st1 st5 e e) by (eapply dfr_trans; [exact D3|eapply dfr_trans; eauto]).
  match goal with |- wpd (if ?b then _ else _) _ => destruct b end.
  - apply wpd_bind. eapply wpd_mono; [apply (push_out_dev st5 (o_link o1) [NUnschedule] e)|].
    intros [st6 len6] D6. cbn [fst] in D6. cbn [wpd fst snd]. split; [eapply dfr_trans; eauto|reflexivity].
  - cbn [wpd fst snd]. split; [exact D15|reflexivity].
Qed.

Lemma forward_device_data_dev cfg st id rq e :
  RInvC cfg st -> occ (lives st) id -> req_ok (nlen st) rq ->
  wpd (forward_device_data st id rq)
      (fun r => dfr st (fst (fst r)) e e /\ dr_filter (snd (fst r)) = dr_filter rq).
Proof.
  intros HI Ho Hrq. destruct (live_gets _ _ _ HI Ho) as (c & i & o & a & t & Hc & Hi & Hob & Ha & Ht).
  unfold forward_device_data. rewrite (get_obuf_ok _ _ _ Hob). cbn [bind]. rewrite Hc. cbn [bind].
  set (sg := match dr_group rq with
             | Some name => match al_get str_eqb name (r_groups st) with
                            | Some g => Some (name, g)
                            | None => None
                            end
             | None => None
             end).
  cbv zeta.
  set (rq0 := match sg with Some (_, g) => set_dr_cursor rq (g_cursor g) | None => rq end).
  assert (Hrq0 : req_ok (nlen st) rq0 /\ dr_filter rq0 = dr_filter rq) by (unfold rq0; destruct sg as [[? ?]|]; split; auto).
  destruct Hrq0 as [Hrq0 Hf0].
  apply wpd_bind.
  assert (H0 : wpd (if negb (dr_qos rq0 =? 0) then free_slots o else Ok (cf_max_outgoing (r_cfg st))) (fun _ => True)).
  { destruct (negb (dr_qos rq0 =? 0)); [|exact I]. unfold free_slots. cbv zeta.
    destruct (lenN (o_inflight o) <=? MAX_INFLIGHT); [exact I|notdup]. }
  eapply wpd_mono; [exact H0|]. cbn beta. intros slots0 _.
  match goal with |- wpd (if ?b then _ else _) _ => destruct b end.
  { cbn [wpd fst snd]. split; [apply dfr_refl|exact Hf0]. }
  match goal with |- context [firstnN ?s _] => set (slots1 := s) end.
  apply wpd_bind.
  assert (H1 : wpd
     (if dr_fwd_retained rq0 then
        do (st', rs) <- read_retained st (dr_filter rq0);
        let rs' := firstnN slots1 rs in
        Ok (st', set_dr_fwd_retained rq0 false, rs', slots1 - lenN rs')
      else Ok (st, rq0, [], slots1))
     (fun r => oracle_only st (fst (fst (fst r))) /\ rq_same (snd (fst (fst r))) rq0 /\
               dr_filter (snd (fst (fst r))) = dr_filter rq0)).
  { destruct (dr_fwd_retained rq0).
    - apply wpd_bind. eapply wpd_mono; [apply read_retained_dev|]. intros [st' rs] Hoo. cbn [fst] in Hoo. cbn [wpd fst snd].
      split; [exact Hoo|]. split; [split; reflexivity|reflexivity].
    - cbn [wpd fst snd]. split; [left; reflexivity|]. split; [split; reflexivity|reflexivity]. }
  eapply wpd_mono; [exact H1|]. cbn beta. intros [[[st1 rq1] retained] slots2] (Hoo & [Hsi Hsq] & Hsf). cbn [fst snd] in *.
  destruct (oracle_only_inv _ _ _ HI Hoo) as (HI1 & F1 & Ec1 & Eo1 & El1 & Eg1 & Ed1).
  assert (Hrq1 : req_ok (nlen st1) rq1).
  { destruct Hrq0 as [A B]. split; [lia|]. rewrite Hsi. destruct F1 as [[_ X] _]. lia. }
  eapply wpd_mono; [apply (fdd_rest_dev cfg st1 id o c sg rq1 retained slots2 e HI1); [congruence|exact Hrq1]|].
  intros r [D Hf]. split; [eapply dfr_trans; [apply oracle_only_dfr; exact Hoo|exact D]|congruence].
Qed.

Lemma ack_device_data_dev st id o e : wpd (ack_device_data st id o) (fun st' => dfr st st' e e).
Proof.
  unfold ack_device_data, get_acks. destruct (slab_get (r_acks st) id) as [ak|]; [|notdup]. cbn [bind].
  destruct (a_committed ak) as [|a0 acks]; [apply dfr_refl|].
  apply wpd_bind. eapply wpd_mono; [apply (push_out_dev _ (o_link o) _ e)|]. intros [st2 n] D. cbn [fst] in D. cbn [wpd].
  eapply dfr_trans; [|exact D]. dfr_triv.
Qed.

(** consume_loop: the local requests end up in the tracker or in waiter lists *)
Lemma consume_loop_dev cfg id : forall fuel st requests skipped e,
  RInvC cfg st -> occ (lives st) id ->
  Forall (req_ok (nlen st)) requests -> Forall (req_ok (nlen st)) skipped ->
  wpd (consume_loop fuel st id requests skipped)
      (fun st' => dfr st st' (map (pair id) (requests ++ skipped) ++ e) e).
Proof.
  induction fuel as [|fuel IH]; intros st requests skipped e HI Ho Hrq Hsk; cbn [consume_loop].
  - apply trackv_dev.
  - destruct requests as [|rq rest].
    + cbn [app]. apply wpd_bind.
      assert (H1 : wpd (match skipped with [] => pause st id Caughtup | _ :: _ => Ok st end)
                       (fun st1 => dfr st st1 (map (pair id) skipped ++ e) (map (pair id) skipped ++ e))).
      { destruct skipped; [apply pause_dev|apply dfr_refl]. }
      eapply wpd_mono; [exact H1|]. cbn beta. intros st1 D1.
      eapply wpd_mono; [apply (trackv_dev st1 id skipped e)|]. intros st2 D2. eapply dfr_trans; eauto.
    + inversion Hrq as [|? ? Hrq1 Hrest]; subst.
      apply wpd_bind.
      eapply wpd_mono; [eapply wpd_and_wp;
        [apply (forward_device_data_spec cfg st id rq HI Ho Hrq1)
        |apply (forward_device_data_dev cfg st id rq (map (pair id) (rest ++ skipped) ++ e) HI Ho Hrq1)]|].
      intros [[st1 rq'] status] [(HI1 & F1 & Hrq') [D1 Hf1]]. cbn [fst snd] in *.
      pose proof (fr_ext _ _ F1) as E1.
      assert (Ho1 : occ (lives st1) id) by (eapply ext_occ; eauto).
      assert (Hrest1 : Forall (req_ok (nlen st1)) rest) by (eapply ext_reqs; eauto).
      assert (Hsk1 : Forall (req_ok (nlen st1)) skipped) by (eapply ext_reqs; eauto).
      (* the local list before: rq :: rest ++ skipped; after forward: rq' replaces rq *)
      assert (D1' : dfr st st1 (map (pair id) ((rq :: rest) ++ skipped) ++ e)
                              ((id, rq') :: map (pair id) (rest ++ skipped) ++ e)).
      { cbn [app map]. apply (dfr_swap_local st st1 _ id rq rq' D1 Hf1). }
      assert (Hperm : forall l1 l2 id0 f, cntw f id0 (map (pair id) ((l1 ++ [rq']) ++ l2) ++ e) =
                                          cntw f id0 ((id, rq') :: map (pair id) (l1 ++ l2) ++ e)).
      { intros l1 l2 id0 f. rewrite cntw_cons, !cntw_app, !cntw_pairs.
        unfold wmatch. cbn [fst snd]. destruct (id =? id0); cbn [andb]; [|reflexivity].
        rewrite !cnt_app, cnt_cons, cnt_nil. lia. }
      assert (Hperm2 : forall id0 f, cntw f id0 (map (pair id) (rest ++ skipped ++ [rq']) ++ e) =
                                     cntw f id0 ((id, rq') :: map (pair id) (rest ++ skipped) ++ e)).
      { intros id0 f. rewrite cntw_cons, !cntw_app, !cntw_pairs.
        unfold wmatch. cbn [fst snd]. destruct (id =? id0); cbn [andb]; [|reflexivity].
        rewrite !cnt_app, cnt_cons, cnt_nil. lia. }
      destruct status.
      * apply wpd_bind. eapply wpd_mono; [apply (pause_dev st1 id Busy (map (pair id) ((rest ++ [rq']) ++ skipped) ++ e))|]. intros st2 D2.
        eapply wpd_mono; [apply (trackv_dev st2 id ((rest ++ [rq']) ++ skipped) e)|]. intros st3 D3.
        eapply dfr_trans; [exact D1'|]. eapply dfr_trans; [|exact D3]. eapply dfr_trans; [|exact D2].
        apply dfr_local. intros. apply Hperm.
      * apply wpd_bind. eapply wpd_mono; [apply (pause_dev st1 id InflightFull (map (pair id) ((rest ++ [rq']) ++ skipped) ++ e))|]. intros st2 D2.
        eapply wpd_mono; [apply (trackv_dev st2 id ((rest ++ [rq']) ++ skipped) e)|]. intros st3 D3.
        eapply dfr_trans; [exact D1'|]. eapply dfr_trans; [|exact D3]. eapply dfr_trans; [|exact D2].
        apply dfr_local. intros. apply Hperm.
      * apply wpd_bind.
        eapply wpd_mono; [eapply wpd_and_wp;
          [apply (park_spec cfg st1 id rq' HI1 Ho1 Hrq')
          |apply (park_dev cfg st1 id rq' (map (pair id) (rest ++ skipped) ++ e) HI1 Hrq')]|].
        intros st2 [[HI2 F2] D2]. pose proof (fr_ext _ _ F2) as E2.
        eapply wpd_mono; [apply (IH st2 rest skipped e HI2); [eapply ext_occ; eauto|eapply ext_reqs; eauto|eapply ext_reqs; eauto]|].
        intros st3 D3. eapply dfr_trans; [exact D1'|]. eapply dfr_trans; eauto.
      * eapply wpd_mono; [apply (IH st1 (rest ++ [rq']) skipped e HI1 Ho1); [|exact Hsk1]|].
        { apply Forall_app. split; [exact Hrest1|]. constructor; [exact Hrq'|constructor]. }
        intros st3 D3. eapply dfr_trans; [exact D1'|]. eapply dfr_trans; [|exact D3].
        apply dfr_local. intros. apply Hperm.
      * eapply wpd_mono; [apply (IH st1 rest (skipped ++ [rq']) e HI1 Ho1); [exact Hrest1|]|].
        { apply Forall_app. split; [exact Hsk1|]. constructor; [exact Hrq'|constructor]. }
        intros st3 D3. eapply dfr_trans; [exact D1'|]. eapply dfr_trans; [|exact D3].
        apply dfr_local. intros. apply Hperm2.
Qed.

Lemma consume_dev cfg st e :
  RInvC cfg st -> wpd (consume st) (fun r => dfr st (fst r) e e).
Proof.
  intros HI. unfold consume. destruct (r_ready st) as [|id rq] eqn:Er; [apply dfr_refl|].
  cbv zeta. cbn [r_trackers set_r_ready].
  destruct (slab_get (r_trackers st) id) as [t|] eqn:Ht; [|cbn [wpd fst]; dfr_triv].
  set (st1 := put_tracker (set_r_ready st rq) id (set_tr_reqs t [])).
  assert (HI1 : RInvC cfg st1).
  { eapply RInv_put_tracker; [apply RInv_set_ready; exact HI|exact Ht|reflexivity|constructor]. }
  set (st2 := set_r_ready st1 (r_ready st1 ++ [id])).
  assert (HI2 : RInvC cfg st2) by (apply RInv_set_ready; exact HI1).
  assert (D2 : dfr st st2 e (map (pair id) (tr_reqs t) ++ e)).
  { eapply dfr_trans; [|eapply dfr_trans; [apply (dfr_take_tracker (set_r_ready st rq) id t e Ht)|]]; dfr_triv. }
  destruct (RInv_trk_live _ _ _ _ HI Ht) as [c Hc].
  destruct (RInv_live_all _ _ _ _ HI Hc) as (ib & o & ak & trk & Hi & Hob & Ha & _).
  assert (Hob2 : slab_get (r_obufs st2) id = Some o) by exact Hob.
  rewrite Hob2.
  apply wpd_bind.
  eapply wpd_mono; [eapply wpd_and_wp;
    [apply (ack_device_data_spec cfg st2 id o HI2 Hob2)|apply (ack_device_data_dev st2 id o (map (pair id) (tr_reqs t) ++ e))]|].
  intros st3 [[HI3 F3] D3]. pose proof (fr_ext _ _ F3) as E3.
  assert (Ho2 : occ (lives st2) id) by (eapply get_occ; exact Hc).
  assert (Ho3 : occ (lives st3) id) by (eapply ext_occ; eauto).
  destruct (slab_get (r_conns st3) id); [|cbn [bind]; notdup]. cbn [bind].
  apply wpd_bind.
  eapply wpd_mono; [apply (consume_loop_dev cfg id (N.to_nat MAX_SCHEDULE_ITERATIONS) st3 (tr_reqs t) [] e HI3 Ho3)|].
  - eapply ext_reqs; [exact E3|]. apply (ri_trk _ _ HI _ _ Ht).
  - constructor.
  - intros st4 D4. cbn [wpd fst]. rewrite app_nil_r in D4.
    eapply dfr_trans; [exact D2|]. eapply dfr_trans; eauto.
Qed.
