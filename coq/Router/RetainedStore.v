(** C15, the retained store: semantics of [retain_update], what [append_to_commitlog] and
    [handle_last_will] do to [dl_retained], and the invariant over all runs:
    [dl_retained] maps each topic to the last retained non-empty publish accepted on it that
    was not followed by a retained empty one ([retained_latest]). *)
From Rumqtt Require Export Router.RetainedFrames.
From Coq Require Import ZifyBool ZifyN ZifyNat.

(** the pure map update behind [retain_update]: [d] is the value stored (publish as received, props) *)
Definition retain_map (t : str) (d : pubdata) (m : list (str * pubdata)) : list (str * pubdata) :=
  if p_retain (fst d) then
    match p_payload (fst d) with
    | [] => al_remove str_eqb t m
    | _ => al_set str_eqb t d m
    end
  else m.

Lemma retain_update_map st t p props :
  dl_retained (r_datalog (retain_update st t p props)) = retain_map t (p, props) (dl_retained (r_datalog st)).
Proof.
  unfold retain_update, retain_map. cbn [fst]. destruct (p_retain p); [|reflexivity].
  destruct (p_payload p); reflexivity.
Qed.

(** keys of the store are distinct, every stored publish carries retain = true *)
Definition store_ok (m : list (str * pubdata)) : Prop :=
  NoDup (map fst m) /\ Forall (fun e => p_retain (fst (snd e)) = true) m.

Lemma Forall_al_set {V} (P : str * V -> Prop) t v (m : list (str * V)) :
  Forall P m -> (forall t', P (t', v)) -> Forall P (al_set str_eqb t v m).
Proof.
  intros Hm Hv. induction m as [| [k x] r IH]; cbn [al_set]; [repeat constructor; auto|].
  inversion Hm; subst. destruct (str_eqb t k); constructor; auto.
Qed.
Lemma Forall_al_remove {V} (P : str * V -> Prop) t (m : list (str * V)) :
  Forall P m -> Forall P (al_remove str_eqb t m).
Proof.
  intros Hm. induction m as [| [k x] r IH]; cbn [al_remove]; [constructor|].
  inversion Hm; subst. destruct (str_eqb t k); [auto | constructor; auto].
Qed.

(** [c15_store], the map level *)
Lemma retain_map_spec t d m :
  store_ok m ->
  let m' := retain_map t d m in
  (p_retain (fst d) = false -> m' = m) /\
  (p_retain (fst d) = true -> p_payload (fst d) <> [] -> al_get str_eqb t m' = Some d) /\
  (p_retain (fst d) = true -> p_payload (fst d) = [] -> al_get str_eqb t m' = None) /\
  (forall t', t' <> t -> al_get str_eqb t' m' = al_get str_eqb t' m) /\
  store_ok m'.
Proof.
  intros [Hnd Hfl]. unfold retain_map. cbn zeta.
  destruct (p_retain (fst d)) eqn:Er.
  - destruct (p_payload (fst d)) eqn:Ep.
    + repeat split; try congruence.
      * intros _ _. now apply al_get_remove_same; [apply str_eqb_spec|].
      * intros t' Hn. now apply al_get_remove_other; [apply str_eqb_spec|].
      * now apply al_remove_nodup.
      * now apply Forall_al_remove.
    + repeat split; try congruence.
      * intros _ _. now apply al_get_set_same; [apply str_eqb_spec].
      * intros t' Hn. now apply al_get_set_other; [apply str_eqb_spec|].
      * now apply al_set_nodup; [apply str_eqb_spec|].
      * apply Forall_al_set; auto.
  - repeat split; try congruence; auto.
Qed.

(* ------------------------------------------------------------------ append_to_commitlog *)
Definition clear_alias (props : option pprops) : option pprops :=
  match props with
  | Some pr => Some {| pp_alias := None; pp_subids := pp_subids pr; pp_tag := pp_tag pr |}
  | None => None
  end.
Definition alias_of (props : option pprops) : option N :=
  match props with Some pr => pp_alias pr | None => None end.
(** the publish after topic-alias resolution: an empty topic with a known alias gets the alias's topic *)
Definition resolve (conn : connection) (p : publish) (props : option pprops) : publish :=
  match alias_of props with
  | Some a =>
      match p_topic p with
      | [] => match al_get N.eqb a (c_aliases conn) with Some t => set_p_topic p t | None => p end
      | _ => p
      end
  | None => p
  end.

Lemma resolve_no_alias conn p props : alias_of props = None -> resolve conn p props = p.
Proof. unfold resolve. now intros ->. Qed.
Lemma resolve_retain conn p props : p_retain (resolve conn p props) = p_retain p.
Proof. unfold resolve. destruct (alias_of props); [destruct (p_topic p); [destruct (al_get _ _ _)|]|]; reflexivity. Qed.
Lemma resolve_payload conn p props : p_payload (resolve conn p props) = p_payload p.
Proof. unfold resolve. destruct (alias_of props); [destruct (p_topic p); [destruct (al_get _ _ _)|]|]; reflexivity. Qed.

(** what [append_to_commitlog] does to the retained store *)
Lemma append_to_commitlog_retained st id p props st' res conn :
  append_to_commitlog st id p props = Ok (st', res) -> get_conn st id = Ok conn ->
  match res with
  | AppOk =>
      let p1 := resolve conn p props in
      utf8_valid (p_topic p1) = true /\
      dl_retained (r_datalog st') =
        retain_map (p_topic p1) (p1, clear_alias props) (dl_retained (r_datalog st))
  | AppErr _ => dl_retained (r_datalog st') = dl_retained (r_datalog st)
  end.
Proof.
  intros H Hc. unfold append_to_commitlog in H. rewrite Hc in H. cbn [bind] in H.
  fold (alias_of props) in H. fold (clear_alias props) in H.
  unfold resolve. okinv; frames; try reflexivity.
  all: cbn zeta; try rewrite negb_false_iff in *.
  all: repeat match goal with E : alias_of _ = _ |- _ => rewrite E end.
  all: repeat match goal with E : p_topic _ = _ |- _ => rewrite E in * end.
  all: repeat match goal with E : al_get N.eqb _ _ = _ |- _ => rewrite E end.
  all: try rewrite <- retain_update_map.
  all: split; [assumption|].
  all: unfold Kp, Kw in *; rsimpl_all; try rewrite retain_update_map in *; rsimpl_all.
  all: intuition congruence.
Qed.

(** [c15_store]: a publish accepted by [append_to_commitlog] on the (resolved, UTF-8 valid) topic [t] *)
Lemma c15_store_lemma st id p props st' conn :
  append_to_commitlog st id p props = Ok (st', AppOk) -> get_conn st id = Ok conn ->
  store_ok (dl_retained (r_datalog st)) ->
  let p1 := resolve conn p props in
  let t := p_topic p1 in
  let m := dl_retained (r_datalog st) in
  let m' := dl_retained (r_datalog st') in
  utf8_valid t = true /\
  (p_retain p = false -> m' = m) /\
  (p_retain p = true -> p_payload p <> [] -> al_get str_eqb t m' = Some (p1, clear_alias props)) /\
  (p_retain p = true -> p_payload p = [] -> al_get str_eqb t m' = None) /\
  (forall t', t' <> t -> al_get str_eqb t' m' = al_get str_eqb t' m) /\
  store_ok m'.
Proof.
  intros H Hc Hok. pose proof (append_to_commitlog_retained _ _ _ _ _ _ _ H Hc) as [Hu Hm].
  cbn zeta in *. split; [exact Hu|]. rewrite Hm.
  pose proof (retain_map_spec (p_topic (resolve conn p props)) (resolve conn p props, clear_alias props) _ Hok) as Hs.
  cbn zeta in Hs. cbn [fst] in Hs. rewrite resolve_retain, resolve_payload in Hs. exact Hs.
Qed.

(** a publish that is refused leaves the store alone *)
Lemma c15_store_refused st id p props st' reason :
  append_to_commitlog st id p props = Ok (st', AppErr reason) ->
  dl_retained (r_datalog st') = dl_retained (r_datalog st).
Proof.
  intros H. assert (exists conn, get_conn st id = Ok conn) as (conn & Hc).
  { unfold append_to_commitlog in H. destruct (get_conn st id); cbn [bind] in H; try discriminate. eauto. }
  exact (append_to_commitlog_retained _ _ _ _ _ _ _ H Hc).
Qed.

(* ------------------------------------------------------------------ handle_last_will *)
Definition will_publish (w : will) : publish :=
  {| p_dup := false; p_qos := w_qos w; p_retain := w_retain w; p_topic := w_topic w;
     p_pkid := 0; p_payload := w_message w |}.
Definition will_props (w : will) : option pprops :=
  match w_props w with
  | Some tg => Some {| pp_alias := None; pp_subids := []; pp_tag := tg |}
  | None => None
  end.

(** a will is published iff its topic is valid utf8 and not empty ([MQTT-4.7.3-1]) *)
Definition will_deliverable (w : will) : bool :=
  utf8_valid (w_topic w) && match w_topic w with [] => false | _ :: _ => true end.

Lemma handle_last_will_retained st client st' :
  handle_last_will st client = Ok st' ->
  dl_retained (r_datalog st') =
    match al_get str_eqb client (r_wills st) with
    | Some w => if will_deliverable w
                then retain_map (w_topic w) (will_publish w, will_props w) (dl_retained (r_datalog st))
                else dl_retained (r_datalog st)
    | None => dl_retained (r_datalog st)
    end.
Proof.
  intros H. unfold handle_last_will in H. fold will_publish will_props in H.
  destruct (al_get str_eqb client (r_wills st)) as [w|]; [|okinv; reflexivity].
  fold (will_publish w) in H. fold (will_props w) in H. cbn [p_topic will_publish] in H.
  fold (will_publish w) in H.
  unfold will_deliverable.
  destruct (utf8_valid (w_topic w)); cbn [negb andb] in H |- *; [|okinv; reflexivity].
  destruct (w_topic w) as [|t0 tr] eqn:Et; [okinv; reflexivity|]. rewrite <- Et in *.
  okinv. frames. rewrite <- retain_update_map.
  unfold Kp, Kw in *. rewrite !retain_update_map in *. rsimpl_all. intuition congruence.
Qed.

Lemma c15_store_will st client st' w :
  handle_last_will st client = Ok st' -> al_get str_eqb client (r_wills st) = Some w ->
  utf8_valid (w_topic w) = true -> w_topic w <> [] -> store_ok (dl_retained (r_datalog st)) ->
  let t := w_topic w in
  let m := dl_retained (r_datalog st) in
  let m' := dl_retained (r_datalog st') in
  (w_retain w = false -> m' = m) /\
  (w_retain w = true -> w_message w <> [] -> al_get str_eqb t m' = Some (will_publish w, will_props w)) /\
  (w_retain w = true -> w_message w = [] -> al_get str_eqb t m' = None) /\
  (forall t', t' <> t -> al_get str_eqb t' m' = al_get str_eqb t' m) /\
  store_ok m'.
Proof.
  intros H Hw Hu Hne Hok. apply handle_last_will_retained in H. unfold will_deliverable in H. rewrite Hw, Hu in H.
  destruct (w_topic w) as [|t0 tr] eqn:Et; [congruence|]. rewrite <- Et in *. cbn [andb] in H.
  cbn zeta. rewrite H.
  exact (retain_map_spec (w_topic w) (will_publish w, will_props w) _ Hok).
Qed.

(* ------------------------------------------------------------------ the accepted-publish history (ghost) *)
(** An event = (resolved topic, value that a retained publish would store).  The history of a
    run is computed with the model functions themselves: a publish is *accepted* where
    [append_to_commitlog] returns [AppOk], a will where [handle_last_will] finds a registered
    will with a valid topic. *)
Definition ev : Type := (str * pubdata)%type.

Definition ev_append (st : rstate) (id : N) (p : publish) (props : option pprops) : list ev :=
  match append_to_commitlog st id p props, get_conn st id with
  | Ok (_, AppOk), Ok conn => let p1 := resolve conn p props in [(p_topic p1, (p1, clear_alias props))]
  | _, _ => []
  end.

Definition ev_packet (st : rstate) (id : N) (pk : packet) : list ev :=
  match pk with
  | PPublish p props =>
      if p_qos p =? 1 then
        match commit_ack st id (APubAck (p_pkid p)) with
        | Ok st1 => ev_append st1 id p props
        | _ => []
        end
      else if p_qos p =? 2 then []
      else ev_append st id p props
  | PPubRel pkid _ =>
      match get_acks st id with
      | Ok l =>
          match a_recorded l with
          | (p, props) :: rec =>
              ev_append (put_acks st id {| a_committed := a_committed l ++ [APubComp pkid]; a_recorded := rec |})
                        id p props
          | [] => []
          end
      | _ => []
      end
  | _ => []
  end.

Fixpoint ev_packets (st : rstate) (id : N) (client : str) (pks : list packet) (fl : flags) : list ev :=
  match pks with
  | [] => []
  | pk :: r =>
      match handle_packet st id client pk fl with
      | Ok (st1, fl1, brk) => ev_packet st id pk ++ (if brk then [] else ev_packets st1 id client r fl1)
      | _ => []
      end
  end.

Definition ev_op (st : rstate) (o : rop) : list ev :=
  match o with
  | OpData id =>
      match slab_get (r_ibufs st) id with
      | Some inc =>
          match link_get st (i_link inc) with
          | Ok b => ev_packets (link_put st (i_link inc) (set_lk_in b [])) id (i_client inc) (lk_in b) flags0
          | _ => []
          end
      | None => []
      end
  | OpWill c =>
      match al_get str_eqb c (r_wills st) with
      | Some w => if will_deliverable w then [(w_topic w, (will_publish w, will_props w))] else []
      | None => []
      end
  | _ => []
  end.

Fixpoint history (st : rstate) (ops : list op_in) : list ev :=
  match ops with
  | [] => []
  | (orc, o) :: r =>
      match step_with st orc o with
      | Ok (st1, _) => ev_op (set_r_oracle st orc) o ++ history st1 r
      | _ => []
      end
  end.
Definition history_from (cfg : config) (ops : list op_in) : list ev :=
  match init cfg with Ok st0 => history st0 ops | _ => [] end.

(** apply the retained-store effect of the events in order *)
Definition apply_evs (evs : list ev) (m : list (str * pubdata)) : list (str * pubdata) :=
  fold_left (fun m e => retain_map (fst e) (snd e) m) evs m.

Lemma apply_evs_app a b m : apply_evs (a ++ b) m = apply_evs b (apply_evs a m).
Proof. apply fold_left_app. Qed.

Lemma ev_append_sound st id p props st' res :
  append_to_commitlog st id p props = Ok (st', res) ->
  dl_retained (r_datalog st') = apply_evs (ev_append st id p props) (dl_retained (r_datalog st)).
Proof.
  intros H. assert (exists conn, get_conn st id = Ok conn) as (conn & Hc).
  { unfold append_to_commitlog in H. destruct (get_conn st id); cbn [bind] in H; try discriminate. eauto. }
  pose proof (append_to_commitlog_retained _ _ _ _ _ _ _ H Hc) as Hr.
  unfold ev_append. rewrite H, Hc. destruct res; cbn zeta in *.
  - destruct Hr as [_ ->]. reflexivity.
  - exact Hr.
Qed.

Lemma ev_packet_sound st id client pk fl st1 fl1 brk :
  handle_packet st id client pk fl = Ok (st1, fl1, brk) ->
  dl_retained (r_datalog st1) = apply_evs (ev_packet st id pk) (dl_retained (r_datalog st)).
Proof.
  intros H. unfold handle_packet in H. unfold ev_packet.
  destruct pk; okinv.
  all: repeat match goal with E : append_to_commitlog _ _ _ _ = Ok _ |- _ => apply ev_append_sound in E end.
  all: frames; unfold Kl, Kp, Kw in *; rsimpl_all; cbn [apply_evs fold_left]; try intuition congruence.
Qed.

Lemma ev_packets_sound pks : forall st id client fl st1 fl1,
  handle_packets st id client pks fl = Ok (st1, fl1) ->
  dl_retained (r_datalog st1) = apply_evs (ev_packets st id client pks fl) (dl_retained (r_datalog st)).
Proof.
  induction pks as [| pk r IH]; intros st id client fl st1 fl1 H; cbn [handle_packets ev_packets] in *.
  - okinv. reflexivity.
  - destruct (handle_packet st id client pk fl) as [[[st2 fl2] brk] | |] eqn:E; cbn [bind] in H; try discriminate.
    apply ev_packet_sound in E. rewrite apply_evs_app, <- E.
    destruct brk; [okinv; reflexivity | now apply IH in H].
Qed.

Lemma ev_op_sound st o st' out :
  step st o = Ok (st', out) ->
  dl_retained (r_datalog st') = apply_evs (ev_op st o) (dl_retained (r_datalog st)).
Proof.
  intros H. unfold step in H. unfold ev_op. destruct o.
  all: try solve [okinv; frames; cbn [apply_evs fold_left]; unfold Kp, Kw in *; rsimpl_all; intuition congruence].
  - (* OpData *)
    okinv. unfold handle_device_payload in *.
    destruct (slab_get (r_ibufs st) id) as [inc|]; [|okinv; reflexivity].
    destruct (link_get st (i_link inc)) as [b | |]; okinv.
    all: match goal with E : handle_packets _ _ _ _ _ = Ok _ |- _ => apply ev_packets_sound in E; rsimpl in E; rewrite <- E end.
    all: frames; unfold Kp, Kw in *; rsimpl_all; intuition congruence.
  - (* OpWill *)
    okinv. match goal with E : handle_last_will _ _ = Ok _ |- _ => apply handle_last_will_retained in E; rewrite E end.
    destruct (al_get str_eqb client (r_wills st)) as [w|]; [destruct (will_deliverable w)|]; reflexivity.
Qed.

Lemma history_sound ops : forall st st' outs,
  run st ops = Ok (st', outs) ->
  dl_retained (r_datalog st') = apply_evs (history st ops) (dl_retained (r_datalog st)).
Proof.
  induction ops as [| [orc o] r IH]; intros st st' outs H; cbn [run history] in *.
  - okinv. reflexivity.
  - destruct (step_with st orc o) as [[st1 out] | |] eqn:E; cbn [bind] in H; try discriminate.
    okinv. rewrite apply_evs_app. erewrite IH by eassumption. f_equal.
    unfold step_with in E. okinv.
    match goal with E : step _ _ = Ok _ |- _ => apply ev_op_sound in E; rewrite E end. reflexivity.
Qed.

(* ------------------------------------------------------------------ c15_latest *)
(** the last event on topic [t] that carries the retain flag decides: a non-empty payload is
    what the store holds, an empty one (or no such event) means no entry *)
Definition rel_ev (t : str) (e : ev) : bool := str_eqb (fst e) t && p_retain (fst (snd e)).
Definition ev_val (e : ev) : option pubdata :=
  match p_payload (fst (snd e)) with [] => None | _ => Some (snd e) end.
Definition latest (t : str) (h : list ev) : option pubdata :=
  match last_opt (filter (rel_ev t) h) with Some e => ev_val e | None => None end.

Lemma last_opt_some {X} (y : X) r : exists z, last_opt (y :: r) = Some z.
Proof. revert y. induction r as [| z r IH]; intros y; [now exists y|]. cbn [last_opt]. apply IH. Qed.
Lemma last_opt_cons {X} (x : X) l : last_opt (x :: l) = match last_opt l with Some y => Some y | None => Some x end.
Proof.
  destruct l as [| y r]; [reflexivity|]. destruct (last_opt_some y r) as (z & Hz).
  rewrite Hz. cbn [last_opt] in *. exact Hz.
Qed.

Lemma apply_evs_ok evs : forall m, store_ok m -> store_ok (apply_evs evs m).
Proof.
  induction evs as [| e r IH]; intros m Hm; cbn [apply_evs fold_left]; [exact Hm|].
  apply IH. now apply retain_map_spec.
Qed.

Lemma apply_evs_get t evs : forall m, store_ok m ->
  al_get str_eqb t (apply_evs evs m) =
  match last_opt (filter (rel_ev t) evs) with Some e => ev_val e | None => al_get str_eqb t m end.
Proof.
  induction evs as [| e r IH]; intros m Hm; cbn [apply_evs fold_left filter last_opt]; [reflexivity|].
  pose proof (retain_map_spec (fst e) (snd e) m Hm) as (H1 & H2 & H3 & H4 & H5). cbn zeta in *.
  change (fold_left _ r ?x) with (apply_evs r x). rewrite (IH _ H5).
  unfold rel_ev at 2. destruct (str_eqb_spec (fst e) t) as [Et | Et]; cbn [andb].
  - destruct (p_retain (fst (snd e))) eqn:Er.
    + rewrite last_opt_cons. destruct (last_opt (filter (rel_ev t) r)); [reflexivity|].
      subst t. unfold ev_val. destruct (p_payload (fst (snd e))) eqn:Ep; [now apply H3 | apply H2; congruence].
    + rewrite (H1 eq_refl). reflexivity.
  - rewrite (H4 t) by congruence. reflexivity.
Qed.

Lemma init_retained cfg st : init cfg = Ok st -> dl_retained (r_datalog st) = [].
Proof.
  unfold init. intros H. okinv. rsimpl.
  match goal with E : init_datalog _ = Ok _ |- _ => apply init_datalog_inv in E; tauto end.
Qed.

Lemma store_ok_nil : store_ok [].
Proof. split; constructor. Qed.

(** [c15_latest]: after every run from [init cfg] the retained store maps each topic to the
    last retained non-empty publish accepted on it that was not followed by a retained empty one *)
Lemma retained_latest cfg ops st outs t :
  run_from cfg ops = Ok (st, outs) ->
  al_get str_eqb t (dl_retained (r_datalog st)) = latest t (history_from cfg ops).
Proof.
  unfold run_from, history_from. intros H. destruct (init cfg) as [st0 | |] eqn:E0; cbn [bind] in H; try discriminate.
  rewrite (history_sound _ _ _ _ H), (init_retained _ _ E0).
  rewrite apply_evs_get by apply store_ok_nil. reflexivity.
Qed.

(** the store invariant on every reachable state *)
Lemma reachable_store_ok cfg st : reachable cfg st -> store_ok (dl_retained (r_datalog st)).
Proof.
  intros (ops & outs & H). unfold run_from in H.
  destruct (init cfg) as [st0 | |] eqn:E0; cbn [bind] in H; try discriminate.
  rewrite (history_sound _ _ _ _ H), (init_retained _ _ E0). apply apply_evs_ok, store_ok_nil.
Qed.
