(** C01, request location, part 2 (mirrors NoPanicDev4.v for [DevE]): packets, disconnection,
    DeviceData. *)
From Rumqtt Require Import Router.NoPanicLog.
From Rumqtt Require Import Router.Model Router.InvLemmasBase Router.Inv Router.InvLemmasPrim Router.InvLemmasSched
  Router.InvLemmasDl Router.InvLemmasRoute Router.InvLemmasConn Router.InvLemmasPkt Router.InvLemmasConsume
  Router.NoPanic Router.NoPanicDevBase Router.NoPanicDevInv Router.NoPanicDev1 Router.NoPanicDev2 Router.NoPanicDev3 Router.NoPanicDev4.
From Rumqtt Require Import Router.ExactLoc1.
From Rumqtt Require Import Router.Model.
From Coq Require Import Arith ZifyBool ZifyN ZifyNat.

Lemma do_append_loc cfg id p props st0 (fl0 : flags) :
  RInvC cfg st0 -> DevEI st0 -> occ (lives st0) id ->
  wpd (do (st1, res) <- append_to_commitlog st0 id p props;
       match res with
       | AppOk => Ok (st1, fl_data fl0, false)
       | AppErr reason => Ok (st1, fl_disc fl0 reason, true)
       end)
      (fun r => DevEI (fst (fst r))).
Proof.
  intros HI HD Ho. apply wpd_bind. eapply wpd_mono; [apply (append_to_commitlog_dev cfg st0 id p props [] HI Ho)|].
  intros [st1 res] D. cbn [fst] in D. assert (DevEI st1) by (eapply dfr_DevE; eauto).
  destruct res; cbn [wpd fst]; assumption.
Qed.

Lemma handle_packet_loc cfg st id client pk fl :
  RInvC cfg st -> DevEI st -> occ (lives st) id -> packet_wf pk ->
  wpd (handle_packet st id client pk fl) (fun r => DevEI (fst (fst r))).
Proof.
  intros HI HD Ho Hpk. destruct (live_gets _ _ _ HI Ho) as (c & i & o & a & t & Hc & Hi & Hob & Ha & Ht).
  destruct pk as [p props | pkid fs subid | pkid fs | pkid | pkid | pkid hp | pkid | | |]; cbn [handle_packet].
  - destruct (p_qos p =? 1).
    { apply wpd_bind.
      eapply wpd_mono; [eapply wpd_and_wp; [apply (commit_ack_spec cfg st id _ HI Ho)|apply (commit_ack_dev st id _ [])]|].
      intros st1 [[HI1 F1] D1].
      apply (do_append_loc cfg id p props st1 (fl_ack fl) HI1); [eapply dfr_DevE; eauto|].
      eapply ext_occ; [apply fr_ext; exact F1|exact Ho]. }
    destruct (p_qos p =? 2).
    { rewrite (get_acks_ok _ _ _ Ha). cbn [bind wpd fst]. eapply dfr_DevE; [exact HD|dfr_triv]. }
    apply (do_append_loc cfg); assumption.
  - apply wpd_bind.
    eapply wpd_mono; [eapply wpd_and_wp;
      [apply (subscribe_filters_spec cfg id subid fs st fl [] HI Ho Hpk)
      |apply (subscribe_filters_loc cfg id subid fs st fl [] HI HD Ho Hpk)]|].
    intros [[st1 fl1] codes] [(HI1 & E1 & N1 & _) HD1]. cbn [fst snd] in *.
    apply wpd_bind. eapply wpd_mono; [apply (commit_ack_dev st1 id _ [])|]. intros st2 D2. cbn [wpd fst].
    eapply dfr_DevE; eauto.
  - rewrite (get_conn_ok _ _ _ Hc). cbn [bind]. apply wpd_bind.
    eapply wpd_mono; [apply (unsubscribe_filters_loc cfg id client fs st [] HI HD Ho)|].
    intros [st1 reasons] HD1. cbn [fst] in HD1.
    apply wpd_bind. eapply wpd_mono; [apply (commit_ack_dev st1 id _ [])|]. intros st2 D2. cbn [wpd fst].
    eapply dfr_DevE; eauto.
  - rewrite (get_obuf_ok _ _ _ Hob). cbn [bind]. destruct (register_ack o pkid) as [o' ok].
    assert (HD1 : DevEI (put_obuf st id o')) by (eapply dfr_DevE; [exact HD|dfr_triv]).
    destruct ok; [|exact HD1].
    apply wpd_bind. eapply wpd_mono; [apply (reschedule_dev _ id SIncomingAck [])|]. intros st2 D2. cbn [wpd fst].
    eapply dfr_DevE; eauto.
  - rewrite (get_obuf_ok _ _ _ Hob). cbn [bind]. destruct (register_ack o pkid) as [o' ok].
    destruct ok; [|cbn [wpd fst]; eapply dfr_DevE; [exact HD|dfr_triv]].
    rewrite (get_acks_ok _ _ _ Ha). cbn [bind].
    match goal with |- context [put_obuf st id ?oo] => set (o2 := oo) end.
    assert (HD1 : DevEI (put_obuf st id o2)) by (eapply dfr_DevE; [exact HD|dfr_triv]).
    apply wpd_bind. eapply wpd_mono; [apply (commit_ack_dev _ id _ [])|]. intros st2 D2.
    apply wpd_bind. eapply wpd_mono; [apply (reschedule_dev _ id SIncomingAck [])|]. intros st3 D3. cbn [wpd fst].
    eapply dfr_DevE; [exact HD1|exact (dfr_trans _ _ _ _ _ _ D2 D3)].
  - rewrite (get_acks_ok _ _ _ Ha). cbn [bind].
    destruct (a_recorded a) as [|[p props] rec]; [cbn [wpd fst]; eapply dfr_DevE; [exact HD|dfr_triv]|].
    match goal with |- context [put_acks st id ?aa] => set (a2 := aa) end.
    assert (HI1 : RInvC cfg (put_acks st id a2)) by (eapply RInv_put_acks; eauto).
    assert (HD1 : DevEI (put_acks st id a2)) by (eapply dfr_DevE; [exact HD|dfr_triv]).
    apply wpd_bind. eapply wpd_mono; [apply (append_to_commitlog_dev cfg _ id p props [] HI1 Ho)|].
    intros [st2 res] D2. cbn [fst] in D2.
    assert (HD2 : DevEI st2) by (eapply dfr_DevE; eauto).
    destruct res; [|exact HD2].
    apply wpd_bind. eapply wpd_mono; [apply (reschedule_dev _ id SIncomingAck [])|]. intros st3 D3. cbn [wpd fst].
    eapply dfr_DevE; eauto.
  - rewrite (get_obuf_ok _ _ _ Hob). cbn [bind]. destruct (register_pubcomp o pkid) as [o' ok].
    destruct ok; cbn [wpd fst]; (eapply dfr_DevE; [exact HD|dfr_triv]).
  - apply wpd_bind. eapply wpd_mono; [apply (commit_ack_dev st id _ [])|]. intros st2 D2. cbn [wpd fst].
    eapply dfr_DevE; eauto.
  - cbn [wpd fst]. eapply dfr_DevE; [exact HD|dfr_triv].
  - exact HD.
Qed.

Lemma handle_packets_loc cfg id client : forall pks st fl,
  RInvC cfg st -> DevEI st -> occ (lives st) id -> Forall packet_wf pks ->
  wpd (handle_packets st id client pks fl) (fun r => DevEI (fst r)).
Proof.
  induction pks as [|pk pks IH]; intros st fl HI HD Ho Hp; cbn [handle_packets]; [exact HD|].
  inversion Hp as [|? ? Hp1 Hp']; subst. apply wpd_bind.
  eapply wpd_mono; [eapply wpd_and_wp;
    [apply (handle_packet_spec cfg st id client pk fl HI Ho Hp1)|apply (handle_packet_loc cfg st id client pk fl HI HD Ho Hp1)]|].
  intros [[st1 fl1] brk] [(H1 & H2 & H3) HD1]. cbn [fst snd] in *.
  destruct brk; [exact HD1|]. apply (IH st1 fl1 H1 HD1); [eapply ext_occ; eauto|exact Hp'].
Qed.

Lemma disc_core_loc cfg st0 id o0 :
  RInvC cfg st0 -> r_notif st0 = [] -> DevEI st0 -> slab_get (r_obufs st0) id = Some o0 ->
  wpd
    (match slab_remove (r_conns st0) id, slab_remove (r_ibufs st0) id,
           slab_remove (r_obufs st0) id, slab_remove (r_trackers st0) id with
     | Some (conns, conn), Some (ibufs, _), Some (obufs, outg), Some (trackers, trk) =>
         match slab_remove (r_acks st0) id with
         | None => Panic P_REMOVE
         | Some (acks, _) =>
             let '(dl, inflight_rqs) := dl_clean (r_datalog st0) id in
             let retr := retransmission_map (o_inflight outg) [] in
             let groups := groups_remove_client (r_groups st0) (o_client o0) in
             let submap := submap_remove_id (r_submap st0) (c_subs conn) id in
             do (grave, groups') <-
               (if negb (c_clean conn) then
                  let rqs := tr_reqs trk ++ inflight_rqs in
                  do (rqs', gs) <- rewind_requests rqs retr groups;
                  let trk' := {| tr_id := tr_id trk; tr_reqs := rqs'; tr_status := Paused Busy |} in
                  Ok (al_set str_eqb (tr_id trk)
                             (Some {| ss_tracker := trk'; ss_subs := c_subs conn; ss_pubrels := o_pubrels outg |})
                             (al_remove str_eqb (tr_id trk) (r_graveyard st0)), gs)
                else
                  Ok (al_set str_eqb (tr_id trk) None (al_remove str_eqb (tr_id trk) (r_graveyard st0)), groups));
             Ok {| r_cfg := r_cfg st0; r_graveyard := grave; r_conns := conns;
                   r_cmap := al_remove str_eqb (o_client o0) (r_cmap st0); r_submap := submap;
                   r_ibufs := ibufs; r_obufs := obufs; r_datalog := dl; r_acks := acks;
                   r_trackers := trackers; r_ready := r_ready st0; r_notif := r_notif st0;
                   r_groups := groups'; r_wills := r_wills st0; r_links := r_links st0;
                   r_oracle := r_oracle st0 |}
         end
     | _, _, _, _ => Panic P_REMOVE
     end) DevEI.
Proof.
  intros HI Hn HD Hob.
  destruct (RInv_obuf_live _ _ _ _ HI Hob) as [conn Hc].
  destruct (RInv_live_all _ _ _ _ HI Hc) as (ib & o' & ak & trk & Hi & Ho' & Ha & Ht).
  assert (o' = o0) by congruence. subst o'.
  rewrite (slab_remove_get _ _ _ Hc), (slab_remove_get _ _ _ Hi), (slab_remove_get _ _ _ Hob),
          (slab_remove_get _ _ _ Ht), (slab_remove_get _ _ _ Ha).
  pose proof (remove_spec _ _ _ _ (slab_remove_get _ _ _ Hc)) as (_ & Hcn & Hco & _).
  pose proof (remove_spec _ _ _ _ (slab_remove_get _ _ _ Ht)) as (_ & _ & Hto & _).
  set (conns' := {| sl_items := setN (sl_items (r_conns st0)) id None; sl_free := id :: sl_free (r_conns st0) |}) in *.
  set (trks' := {| sl_items := setN (sl_items (r_trackers st0)) id None; sl_free := id :: sl_free (r_trackers st0) |}) in *.
  destruct (dl_clean (r_datalog st0) id) as [dl inflight_rqs] eqn:Edl.
  unfold dl_clean in Edl. destruct (clean_items (sl_items (dl_native (r_datalog st0))) id) as [items' q'] eqn:Eci.
  inversion Edl; subst dl inflight_rqs; clear Edl.
  destruct (clean_items_cnt id _ _ _ Eci) as [C1 C2].
  destruct HD as [L G].
  assert (Hrest : forall grave groups', Forall sess_E grave ->
     DevEI {| r_cfg := r_cfg st0; r_graveyard := grave; r_conns := conns';
             r_cmap := al_remove str_eqb (o_client o0) (r_cmap st0);
             r_submap := submap_remove_id (r_submap st0) (c_subs conn) id;
             r_ibufs := {| sl_items := setN (sl_items (r_ibufs st0)) id None; sl_free := id :: sl_free (r_ibufs st0) |};
             r_obufs := {| sl_items := setN (sl_items (r_obufs st0)) id None; sl_free := id :: sl_free (r_obufs st0) |};
             r_datalog := set_dl_native (r_datalog st0) {| sl_items := items'; sl_free := sl_free (dl_native (r_datalog st0)) |};
             r_acks := {| sl_items := setN (sl_items (r_acks st0)) id None; sl_free := id :: sl_free (r_acks st0) |};
             r_trackers := trks'; r_ready := r_ready st0; r_notif := r_notif st0;
             r_groups := groups'; r_wills := r_wills st0; r_links := r_links st0;
             r_oracle := r_oracle st0 |}).
  { intros grave groups' Hgrave. constructor; [|exact Hgrave].
    intros k subs Hsub f. unfold subs_of in Hsub. cbn [r_conns] in Hsub.
    destruct (N.eq_dec k id) as [-> | Hne]; [rewrite Hcn in Hsub; discriminate|].
    rewrite Hco in Hsub by exact Hne.
    assert (E : CNT {| r_cfg := r_cfg st0; r_graveyard := grave; r_conns := conns';
             r_cmap := al_remove str_eqb (o_client o0) (r_cmap st0);
             r_submap := submap_remove_id (r_submap st0) (c_subs conn) id;
             r_ibufs := {| sl_items := setN (sl_items (r_ibufs st0)) id None; sl_free := id :: sl_free (r_ibufs st0) |};
             r_obufs := {| sl_items := setN (sl_items (r_obufs st0)) id None; sl_free := id :: sl_free (r_obufs st0) |};
             r_datalog := set_dl_native (r_datalog st0) {| sl_items := items'; sl_free := sl_free (dl_native (r_datalog st0)) |};
             r_acks := {| sl_items := setN (sl_items (r_acks st0)) id None; sl_free := id :: sl_free (r_acks st0) |};
             r_trackers := trks'; r_ready := r_ready st0; r_notif := r_notif st0;
             r_groups := groups'; r_wills := r_wills st0; r_links := r_links st0;
             r_oracle := r_oracle st0 |} [] k f = CNT st0 [] k f).
    { unfold CNT, treqs, items_of. cbn [r_trackers r_datalog set_dl_native dl_native sl_items r_notif].
      rewrite Hto by exact Hne. rewrite C1. destruct (N.eqb_spec k id); [congruence|]. reflexivity. }
    rewrite E. apply L. exact Hsub. }
  assert (Hgv : Forall sess_E (al_remove str_eqb (tr_id trk) (r_graveyard st0))) by (apply Forall_al_remove; exact G).
  cbv zeta. apply wpd_bind.
  destruct (negb (c_clean conn)).
  - match goal with |- context [rewind_requests ?a ?b ?c] => destruct (rewind_requests a b c) as [[rqs' gs]| |] eqn:Erw end;
      cbn [bind wpd]; [|exact I|].
    + apply Hrest. apply Forall_al_set_str; [exact Hgv|]. unfold sess_E. cbn [snd ss_tracker tr_reqs ss_subs].
      intros f. rewrite (rewind_requests_cnt _ _ _ _ _ Erw f), cnt_app, C2.
      assert (Hs : subs_of st0 id = Some (c_subs conn)) by (unfold subs_of; now rewrite Hc).
      pose proof (L id _ Hs f) as Hok. unfold CNT in Hok. rewrite Hn, !cntw_nil in Hok. unfold treqs in Hok. rewrite Ht in Hok.
      unfold items_of in Hok. rewrite !Nat.add_0_r in Hok. exact Hok.
    + exfalso. destruct (rewind_requests_spec (dlen (r_datalog st0)) (retransmission_map (o_inflight o0) [])
                (tr_reqs trk ++ q') (groups_remove_client (r_groups st0) (o_client o0))) as (r1 & g1 & E1 & _).
      * apply Forall_app. split; [apply (ri_trk _ _ HI _ _ Ht)|].
        assert (X : dl_clean (r_datalog st0) id = (set_dl_native (r_datalog st0) {| sl_items := items'; sl_free := sl_free (dl_native (r_datalog st0)) |}, q')).
        { unfold dl_clean. now rewrite Eci. }
        destruct (dl_clean_spec _ _ _ _ _ (ri_dl _ _ HI) X) as (_ & _ & Hq). exact Hq.
      * apply groups_remove_client_ne.
      * congruence.
  - cbn [wpd]. apply Hrest. apply Forall_al_set_str; [exact Hgv|]. exact I.
Qed.

Lemma handle_disconnection_loc cfg st id reason :
  RInvC cfg st -> r_notif st = [] -> DevEI st -> wpd (handle_disconnection st id reason) DevEI.
Proof.
  intros HI Hn HD. unfold handle_disconnection.
  destruct (slab_get (r_obufs st) id) as [o0|] eqn:Hob; [|exact HD].
  destruct reason as [rc|].
  - destruct (push_out_eq st (o_link o0) [NDisconnect rc]) as (b & Hb & Hp).
    { apply (ri_obuf _ _ HI _ _ Hob). }
    rewrite Hp. cbn [bind].
    set (st0 := link_put st (o_link o0) (set_lk_out b (lk_out b ++ [NDisconnect rc]))).
    assert (HI0 : RInvC cfg st0).
    { apply RInv_link_put; [exact HI|]. cbn [set_lk_out lk_in].
      exact (Forall_nthN (fun b => Forall packet_wf (lk_in b)) _ _ _ (ri_pkts _ _ HI) Hb). }
    apply (disc_core_loc cfg st0 id o0 HI0 Hn); [|exact Hob]. eapply dfr_DevE; [exact HD|dfr_triv].
  - cbn [bind]. apply (disc_core_loc cfg st id o0 HI Hn HD Hob).
Qed.

Lemma handle_device_payload_loc cfg st id :
  RInvC cfg st -> r_notif st = [] -> DevEI st -> wpd (handle_device_payload st id) DevEI.
Proof.
  intros HI Hn HD. unfold handle_device_payload.
  destruct (slab_get (r_ibufs st) id) as [inc|] eqn:Hi; [|exact HD].
  destruct (RInv_ibuf_live _ _ _ _ HI Hi) as [c Hc].
  assert (Ho : occ (lives st) id) by (eapply get_occ; eauto).
  pose proof (ri_ilink _ _ HI _ _ Hi) as Hl. destruct (nthN_lt _ _ Hl) as [b Hb].
  unfold link_get. rewrite Hb. cbn [bind].
  set (st0 := link_put st (i_link inc) (set_lk_in b [])).
  assert (HI0 : RInvC cfg st0) by (apply RInv_link_put; [exact HI|constructor]).
  assert (HD0 : DevEI st0) by (eapply dfr_DevE; [exact HD|dfr_triv]).
  assert (Hpk : Forall packet_wf (lk_in b)).
  { exact (Forall_nthN (fun b => Forall packet_wf (lk_in b)) _ _ _ (ri_pkts _ _ HI) Hb). }
  apply wpd_bind.
  eapply wpd_mono; [eapply wpd_and_wp;
    [apply (handle_packets_spec cfg id (i_client inc) (lk_in b) st0 flags0 HI0 Ho Hpk)
    |apply (handle_packets_loc cfg id (i_client inc) (lk_in b) st0 flags0 HI0 HD0 Ho Hpk)]|].
  intros [st1 fl] [(HI1 & E1 & NP1) HD1]. cbn [fst snd] in *.
  assert (NP1' : NP st1 fl). { apply NP1. intros _. exact Hn. }
  assert (Ho1 : occ (lives st1) id) by (eapply ext_occ; eauto).
  apply wpd_bind.
  assert (H2 : wpd (if f_force_ack fl then reschedule st1 id SFreshData else Ok st1)
                  (fun st2 => (RInvC cfg st2 /\ ext st1 st2 /\ r_notif st2 = r_notif st1) /\ DevEI st2)).
  { destruct (f_force_ack fl); [|cbn [wpd]; auto with rinv].
    eapply wpd_mono; [eapply wpd_and_wp; [apply (reschedule_spec cfg st1 id SFreshData HI1 Ho1); discriminate|apply (reschedule_dev st1 id SFreshData [])]|].
    intros st2 [A D]. split; [exact A|eapply dfr_DevE; eauto]. }
  eapply wpd_mono; [exact H2|]. cbn beta. intros st2 [(HI2 & E2 & N2) HD2].
  apply wpd_bind.
  assert (H3 : wpd (if f_new_data fl then drain_notifications st2 else Ok st2)
                  (fun st3 => (RInvC cfg st3 /\ r_notif st3 = []) /\ DevEI st3)).
  { destruct (f_new_data fl) eqn:Ed.
    - eapply wpd_mono; [eapply wpd_and_wp; [apply (drain_notifications_spec cfg st2 HI2)|apply (drain_notifications_dev st2 [])]|].
      intros st3 [(A & _ & B) D]. split; [auto|eapply dfr_DevE; eauto].
    - cbn [wpd]. split; [|exact HD2]. split; [exact HI2|]. rewrite N2. apply NP1'. exact Ed. }
  eapply wpd_mono; [exact H3|]. cbn beta. intros st3 [(HI3 & N3) HD3].
  destruct (f_disconnect fl); [|exact HD3].
  apply (handle_disconnection_loc cfg st3 id (f_reason fl) HI3 N3 HD3).
Qed.

