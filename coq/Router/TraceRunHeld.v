(** C01 at the level of whole runs — where the data requests of a connection are, and that no
    router function invents one.

    [Held st c rq]: request [rq] of connection key [c] is in the tracker of [c], parked in the
    waiter list of some filter log, or queued in [notifications].  [HeldE st e c rq] adds the
    requests [e] that the running function holds in local variables.
    [hsub st st' e e']: every request held in [st'] (locals [e']) was held in [st] (locals [e]),
    unchanged.  Requests move (tracker -> local -> waiters -> notifications -> tracker) and
    vanish (UNSUBSCRIBE, disconnect); new ones are made only by [prepare_filter] (SUBSCRIBE), by
    [forward_device_data] (the continuation of the swept request) and by
    [handle_new_connection] (a saved session restored), which are treated where they occur. *)
From Rumqtt Require Import Log.Spec Log.Proofs Router.ExactLog.
From Rumqtt Require Import Topic.Proofs Router.WindowFrame Router.Window Router.DataLogInv Router.DataLogStep
                           Router.ExactInv Router.ExactStep1 Router.ExactStep2 Router.ExactStep3 Router.ExactLogs
                           Router.ExactSweep.
From Rumqtt Require Import Router.IsolationFrame Router.IsolationWake Router.Wake Router.WakeFrame Router.WakeConsume Router.WakePark.
From Rumqtt Require Import Router.TraceRun.
From Rumqtt Require Import Router.Model Router.RunDefs.
From Coq Require Import List ZifyBool ZifyN ZifyNat.
Import ListNotations.

Definition Waits (dl : datalog) (c : N) (rq : drequest) : Prop :=
  exists i d, nget dl i = Some d /\ In (c, rq) (d_waiters d).
Definition Tracked (st : rstate) (c : N) (rq : drequest) : Prop :=
  exists t, slab_get (r_trackers st) c = Some t /\ In rq (tr_reqs t).
Definition Held (st : rstate) (c : N) (rq : drequest) : Prop :=
  Tracked st c rq \/ Waits (r_datalog st) c rq \/ In (c, rq) (r_notif st).
Definition HeldE (st : rstate) (e : list (N * drequest)) (c : N) (rq : drequest) : Prop :=
  Held st c rq \/ In (c, rq) e.
Definition hsub (st st' : rstate) (e e' : list (N * drequest)) : Prop :=
  forall c rq, HeldE st' e' c rq -> HeldE st e c rq.

Lemma hsub_refl st e : hsub st st e e.
Proof. intros c rq H. exact H. Qed.
Lemma hsub_trans a b c e1 e2 e3 : hsub a b e1 e2 -> hsub b c e2 e3 -> hsub a c e1 e3.
Proof. intros H1 H2 w rq H. apply H1, H2, H. Qed.

(** a frame on the states extends to any locals *)
Lemma hsub_locals st st' e : hsub st st' [] [] -> hsub st st' e e.
Proof.
  intros H c rq [Hh | He]; [|now right]. destruct (H c rq (or_introl Hh)) as [Hh' | []]. now left.
Qed.
Lemma hsub_local st e e' : incl e' e -> hsub st st e e'.
Proof. intros Hi c rq [Hh | He]; [now left|right; now apply Hi]. Qed.

Lemma psub_waits dl dl' c rq : psub dl dl' -> Waits dl' c rq -> Waits dl c rq.
Proof.
  intros P (i & d' & Hd' & Hin). destruct (P _ _ Hd') as [E | (d & Hd & _ & Hi)].
  - rewrite E in Hin. destruct Hin.
  - exists i, d. split; [exact Hd|now apply Hi].
Qed.

(** the three components a request can be in *)
Definition rview (st : rstate) := (r_trackers st, r_notif st, dl_native (r_datalog st)).
Lemma held_view st st' c rq : rview st' = rview st -> Held st' c rq -> Held st c rq.
Proof.
  unfold rview. intros E. inversion E as [[E1 E2 E3]]. unfold Held, Tracked, Waits, nget. now rewrite E1, E2, E3.
Qed.
Lemma hsub_view st st' e : rview st' = rview st -> hsub st st' e e.
Proof. intros E c rq [Hh | He]; [left; eapply held_view; eassumption|now right]. Qed.

(** assembling a frame from its three parts *)
Lemma hsub_parts st st' e e' :
  (forall c t' rq, slab_get (r_trackers st') c = Some t' -> In rq (tr_reqs t') -> HeldE st e c rq) ->
  (forall c rq, Waits (r_datalog st') c rq -> HeldE st e c rq) ->
  (forall c rq, In (c, rq) (r_notif st') -> HeldE st e c rq) ->
  incl e' e -> hsub st st' e e'.
Proof.
  intros HT HW HN HE c rq [[(t' & Ht' & Hin) | [Hw | Hn]] | He]; eauto. right. now apply HE.
Qed.

(* ------------------------------------------------------------------ trackers *)
Lemma hsub_put_tracker st id t t' e e' :
  slab_get (r_trackers st) id = Some t ->
  (forall rq, In rq (tr_reqs t') -> In rq (tr_reqs t) \/ In (id, rq) e) ->
  incl e' e -> hsub st (put_tracker st id t') e e'.
Proof.
  intros Ht Hr He. apply hsub_parts; [| | |exact He].
  - intros c t2 rq G Hin. unfold put_tracker in G. cbn [r_trackers set_r_trackers] in G.
    apply slab_get_put_inv in G as [[-> ->] | [_ G]].
    + destruct (Hr _ Hin) as [H | H]; [left; left; exists t; auto|now right].
    + left. left. exists t2. auto.
  - intros c rq H. left. right. left. exact H.
  - intros c rq H. left. right. right. exact H.
Qed.

Lemma reschedule_hsub st id why st' e : reschedule st id why = Ok st' -> hsub st st' e e.
Proof.
  unfold reschedule, get_tracker. intros H. destruct (slab_get (r_trackers st) id) as [t|] eqn:G; [|discriminate].
  cbn [bind] in H. apply bind_ok in H as ([t' woke] & HT & H). apply try_ready_reqs in HT. inv_ok.
  assert (X : hsub st (put_tracker st id t') e e).
  { eapply hsub_put_tracker; [exact G| |apply incl_refl]. intros rq Hin. left. now rewrite <- HT. }
  destruct woke; [|exact X]. eapply hsub_trans; [exact X|]. apply hsub_view. reflexivity.
Qed.

Lemma trackv_hsub st id rqs st' e : trackv st id rqs = Ok st' -> hsub st st' (map (pair id) rqs ++ e) e.
Proof.
  unfold trackv, get_tracker. intros H. destruct (slab_get (r_trackers st) id) as [t|] eqn:G; [|discriminate].
  cbn [bind] in H. inv_ok. eapply hsub_put_tracker; [exact G| |apply incl_appr, incl_refl].
  cbn [tr_reqs set_tr_reqs]. intros rq Hin. apply in_app_or in Hin as [Hin | Hin]; [now left|right].
  apply in_or_app. left. now apply in_map.
Qed.

Lemma track_hsub st id rq st' e : track st id rq = Ok st' -> hsub st st' ((id, rq) :: e) e.
Proof.
  unfold track, get_tracker. intros H. destruct (slab_get (r_trackers st) id) as [t|] eqn:G; [|discriminate].
  cbn [bind] in H. inv_ok. eapply hsub_put_tracker; [exact G| |apply incl_tl, incl_refl].
  cbn [tr_reqs set_tr_reqs]. intros r Hin. apply in_app_or in Hin as [Hin | [<- | []]]; [now left|right; now left].
Qed.

Lemma untrack_hsub st id f st' e : untrack st id f = Ok st' -> hsub st st' e e.
Proof.
  unfold untrack, get_tracker. intros H. destruct (slab_get (r_trackers st) id) as [t|] eqn:G; [|discriminate].
  cbn [bind] in H. inv_ok. eapply hsub_put_tracker; [exact G| |apply incl_refl].
  cbn [tr_reqs set_tr_reqs]. intros r Hin. apply filter_In in Hin as [Hin _]. now left.
Qed.

Lemma pause_hsub st id why st' e : pause st id why = Ok st' -> hsub st st' e e.
Proof.
  unfold pause, get_tracker. intros H. destruct (split_last_n (r_ready st)) as [[init last]|]; [|discriminate].
  destruct (last =? id); [|discriminate]. cbn [r_trackers set_r_ready] in H.
  destruct (slab_get (r_trackers st) id) as [t|] eqn:G; [|discriminate]. cbn [bind] in H. inv_ok.
  eapply hsub_trans; [apply (hsub_view st (set_r_ready st init)); reflexivity|].
  eapply (hsub_put_tracker (set_r_ready st init)); [exact G| |apply incl_refl]. intros rq Hin. now left.
Qed.

(** [consume] takes the requests out of the tracker *)
Lemma take_tracker_hsub st id t e :
  slab_get (r_trackers st) id = Some t ->
  hsub st (put_tracker st id (set_tr_reqs t [])) e (map (pair id) (tr_reqs t) ++ e).
Proof.
  intros G c rq [[(t' & Ht' & Hin) | [Hw | Hn]] | He].
  - unfold put_tracker in Ht'. cbn [r_trackers set_r_trackers] in Ht'.
    apply slab_get_put_inv in Ht' as [[-> ->] | [_ G']]; [destruct Hin|]. left. left. exists t'. auto.
  - left. right. left. exact Hw.
  - left. right. right. exact Hn.
  - apply in_app_or in He as [He | He]; [|now right]. apply in_map_iff in He as (r & E & Hr). inversion E; subst.
    left. left. exists t. auto.
Qed.

(* ------------------------------------------------------------------ waiters *)
Lemma park_hsub st id rq st' e : park st id rq = Ok st' -> hsub st st' ((id, rq) :: e) e.
Proof.
  unfold park. intros H. apply bind_ok in H as (d & Hd & H). apply native_get_Some in Hd. inv_ok.
  apply hsub_parts; [| | |apply incl_tl, incl_refl].
  - intros c t rq0 G Hin. left. left. exists t. auto.
  - intros c rq0 (i & d' & Hd' & Hin). unfold nget in Hd'. cbn [r_datalog set_r_datalog set_dl_native dl_native] in Hd'.
    apply slab_get_put_inv in Hd' as [[-> ->] | [_ Hd']].
    + cbn [d_waiters set_d_waiters] in Hin. apply in_app_or in Hin as [Hin | [E | []]].
      * left. right. left. exists (dr_idx rq), d. auto.
      * inversion E; subst. right. now left.
    + left. right. left. exists i, d'. auto.
  - intros c rq0 Hin. left. right. right. exact Hin.
Qed.

Lemma remove_waiters_hsub st id f st' e : remove_waiters_for_id st id f = Ok st' -> hsub st st' e e.
Proof.
  intros H. pose proof (remove_waiters_PS _ _ _ _ H) as P. unfold remove_waiters_for_id in H. inv_ok.
  apply hsub_parts; [| | |apply incl_refl].
  - intros c t rq G Hin. left. left. exists t. auto.
  - intros c rq Hw. left. right. left. eapply psub_waits; eassumption.
  - intros c rq Hin. left. right. right. exact Hin.
Qed.

(* ------------------------------------------------------------------ logs *)
Lemma data_append_hsub st idx item st' e : data_append st idx item = Ok st' -> hsub st st' e e.
Proof.
  intros H. pose proof (data_append_PS _ _ _ _ H) as P. unfold data_append in H.
  apply bind_ok in H as (d & Hd & H). apply native_get_Some in Hd.
  apply bind_ok in H as ([l' off] & _ & H). inv_ok.
  apply hsub_parts; [| | |apply incl_refl].
  - intros c t rq G Hin. left. left. exists t. auto.
  - intros c rq Hw. left. right. left. eapply psub_waits; eassumption.
  - intros c rq Hin. cbn [r_notif set_r_notif] in Hin. apply in_app_or in Hin as [Hin | Hin].
    + left. right. right. exact Hin.
    + left. right. left. exists idx, d. auto.
Qed.

Lemma append_all_hsub item e : forall idxs st st', append_all st idxs item = Ok st' -> hsub st st' e e.
Proof.
  induction idxs as [|i r IH]; intros st st' H; cbn [append_all] in H; [inv_ok; apply hsub_refl|].
  apply bind_ok in H as (st1 & H1 & H). eapply hsub_trans; [eapply data_append_hsub; eassumption|eapply IH; eassumption].
Qed.

Lemma dl_matches_hsub st t st' v e : dl_matches st t = Ok (st', v) -> hsub st st' e e.
Proof.
  intros H. apply hsub_view. unfold dl_matches in H. break_all H; inv_ok; try reflexivity.
Qed.

Lemma retain_update_hsub st t p pr e : hsub st (retain_update st t p pr) e e.
Proof. apply hsub_view. unfold retain_update. destruct (p_retain p); [destruct (p_payload p)|]; reflexivity. Qed.

Lemma next_native_offset_hsub st f st' idx cu e : next_native_offset st f = Ok (st', idx, cu) -> hsub st st' e e.
Proof.
  intros H. pose proof (next_native_offset_PS _ _ _ _ _ H) as P. pose proof (next_native_offset_wv _ _ _ _ _ H) as V.
  assert (N : r_notif st' = r_notif st) by (unfold next_native_offset in H; break_all H; inv_ok; reflexivity).
  unfold wview in V. inversion V as [[E1 E2 E3 E4 E5]].
  apply hsub_parts; [| | |apply incl_refl].
  - intros c t rq G Hin. rewrite E1 in G. left. left. exists t. auto.
  - intros c rq Hw. left. right. left. eapply psub_waits; eassumption.
  - intros c rq Hin. rewrite N in Hin. left. right. right. exact Hin.
Qed.

Lemma commit_ack_hsub st id a st' e : commit_ack st id a = Ok st' -> hsub st st' e e.
Proof. intros H. apply commit_ack_spec in H as (l & _ & ->). apply hsub_view. reflexivity. Qed.

Lemma push_out_hsub st k ns st' n e : push_out st k ns = Ok (st', n) -> hsub st st' e e.
Proof. intros H. apply push_out_fields in H. rewrite H. apply hsub_view. reflexivity. Qed.

Lemma append_to_commitlog_hsub st id p props st' res e :
  append_to_commitlog st id p props = Ok (st', res) -> hsub st st' e e.
Proof.
  unfold append_to_commitlog. intros H.
  apply bind_ok in H as (conn & Hc & H).
  match type of H with (if ?b then _ else _) = _ => destruct b end; [inv_ok; apply hsub_refl|].
  apply bind_ok in H as (sp & Hsp & H). destruct sp as [[st1 p1]|reason]; [|inv_ok; apply hsub_refl].
  assert (D1 : hsub st st1 e e).
  { clear H. apply hsub_view. break_all Hsp; inv_ok; reflexivity. }
  destruct (negb (utf8_valid (p_topic p1))); [inv_ok; exact D1|].
  apply bind_ok in H as ([st3 idxs] & H3 & H). apply bind_ok in H as (st4 & H4 & H). inv_ok.
  eapply hsub_trans; [exact D1|]. eapply hsub_trans; [apply retain_update_hsub|].
  eapply hsub_trans; [eapply dl_matches_hsub; eassumption|eapply append_all_hsub; eassumption].
Qed.

(* ------------------------------------------------------------------ wake-up *)
Lemma wake_all_hsub : forall ns st st' e, wake_all st ns = Ok st' -> hsub st st' (ns ++ e) e.
Proof.
  induction ns as [|[id rq] r IH]; intros st st' e H; cbn [wake_all] in H; [inv_ok; apply hsub_refl|].
  apply bind_ok in H as (st1 & H1 & H). apply bind_ok in H as (st2 & H2 & H).
  cbn [app]. eapply hsub_trans; [eapply track_hsub; exact H1|].
  eapply hsub_trans; [eapply reschedule_hsub; exact H2|]. eapply IH; exact H.
Qed.

Lemma drain_notifications_hsub st st' e : drain_notifications st = Ok st' -> hsub st st' e e.
Proof.
  unfold drain_notifications. intros H. apply (wake_all_hsub _ _ _ e) in H.
  eapply hsub_trans; [|exact H]. intros c rq [[Ht | [Hw | Hn]] | He].
  - left. left. exact Ht.
  - left. right. left. exact Hw.
  - destruct Hn.
  - apply in_app_or in He as [He | He]; [left; right; right; exact He|now right].
Qed.

(* ------------------------------------------------------------------ the sweep leaves requests alone *)
Lemma fdd_push_notif st1 id o conn sg rq2 publishes caughtup st' rq' cs :
  fdd_push st1 id o conn sg rq2 publishes caughtup = Ok (st', rq', cs) -> r_notif st' = r_notif st1.
Proof.
  unfold fdd_push, update_next_client, push_out, link_get. intros H. break_all H; inv_ok; reflexivity.
Qed.

Lemma fdd_notif st id rq st' rq' cs :
  forward_device_data st id rq = Ok (st', rq', cs) -> r_notif st' = r_notif st.
Proof.
  rewrite fdd_alt_eq. unfold fdd_alt, get_obuf. intros H.
  destruct (slab_get (r_obufs st) id) as [o|]; [|discriminate]. cbn [bind] in H.
  destruct (slab_get (r_conns st) id) as [conn|]; [|discriminate]. cbn [bind] in H. cbv zeta in H.
  apply bind_ok in H as (slots0 & _ & H).
  match type of H with (if ?b then _ else _) = _ => destruct b end; [now inv_ok|].
  apply bind_ok in H as ([[[st1 rq1] retained] slots2] & HR & H).
  assert (N1 : r_notif st1 = r_notif st).
  { unfold fdd_retained, read_retained in HR. break_all HR; inv_ok; reflexivity. }
  apply bind_ok in H as (d & _ & H). apply bind_ok in H as ([pos from_log] & _ & H).
  destruct (match pos with Next s e => (s, e, false) | Done s e => (s, e, true) end) as [[start next] caughtup].
  match type of H with (if ?b then _ else _) = _ => destruct b end; [inv_ok; exact N1|].
  match type of H with (match ?l with [] => _ | _ => _ end) = _ => destruct l end; [inv_ok; exact N1|].
  apply fdd_push_notif in H. congruence.
Qed.

Lemma fdd_rview st id rq st' rq' cs :
  forward_device_data st id rq = Ok (st', rq', cs) -> rview st' = rview st.
Proof.
  intros H. unfold rview. rewrite (fdd_notif _ _ _ _ _ _ H), (fdd_dl _ _ _ _ _ _ H).
  destruct (WakeConsume.fdd_swk _ _ _ _ _ _ H) as [[E _ _ _ _ _] _]. now rewrite E.
Qed.

Lemma ack_device_data_rview st id o st' : ack_device_data st id o = Ok st' -> rview st' = rview st.
Proof.
  unfold ack_device_data, get_acks. intros H. apply bind_ok in H as (l & _ & H).
  destruct (a_committed l); [now inv_ok|]. apply bind_ok in H as ([st2 n] & H2 & H). inv_ok.
  apply push_out_fields in H2. rewrite H2. reflexivity.
Qed.

Lemma retrieve_shadow_rview st id f st' : retrieve_shadow st id f = Ok st' -> rview st' = rview st.
Proof.
  unfold retrieve_shadow, push_out, link_get. intros H. break_all H; inv_ok; reflexivity.
Qed.

(* ------------------------------------------------------------------ UNSUBSCRIBE *)
Lemma unsubscribe_filters_hsub id client e : forall fs st reasons st' reasons',
  unsubscribe_filters st id client fs reasons = Ok (st', reasons') -> hsub st st' e e.
Proof.
  induction fs as [|f fs IH]; intros st reasons st' reasons' H; cbn [unsubscribe_filters] in H; [inv_ok; apply hsub_refl|].
  destruct (negb _) eqn:E1 in H; [eapply IH; eassumption|].
  match type of H with context [get_conn ?s id] => set (st1 := s) in * end.
  assert (V1 : rview st1 = rview st).
  { unfold st1. destruct (al_get str_eqb f (r_submap st)); reflexivity. }
  apply bind_ok in H as (conn & Hc & H).
  destruct (negb (set_mem str_eqb f (c_subs conn))).
  { eapply hsub_trans; [apply hsub_view; exact V1|]. eapply IH; eassumption. }
  apply bind_ok in H as (st4 & H4 & H). apply bind_ok in H as (st5 & H5 & H).
  eapply hsub_trans; [apply hsub_view; exact V1|].
  eapply hsub_trans; [|eapply IH; exact H].
  match type of H4 with untrack ?s _ _ = _ => eapply (hsub_trans st1 s); [apply hsub_view; reflexivity|] end.
  eapply hsub_trans; [eapply untrack_hsub; exact H4|].
  eapply hsub_trans; [eapply remove_waiters_hsub; exact H5|].
  apply hsub_parts; [| | |apply incl_refl].
  - intros c t rq G Hin. left. left. exists t. auto.
  - intros c rq Hw. left. right. left. exact Hw.
  - intros c rq Hin. cbn [r_notif set_r_notif] in Hin. apply filter_In in Hin as [Hin _]. left. right. right. exact Hin.
Qed.

(* ------------------------------------------------------------------ disconnect *)
Lemma handle_disconnection_notif st id reason st' :
  handle_disconnection st id reason = Ok st' -> r_notif st' = r_notif st.
Proof.
  unfold handle_disconnection, push_out, link_get. intros H. break_all H; inv_ok; reflexivity.
Qed.

Lemma handle_disconnection_hsub st id reason st' e :
  handle_disconnection st id reason = Ok st' -> hsub st st' e e.
Proof.
  intros H. pose proof (handle_disconnection_PS _ _ _ _ H) as P. pose proof (handle_disconnection_notif _ _ _ _ H) as N.
  destruct (slab_get (r_obufs st) id) as [o0|] eqn:G.
  2:{ rewrite (handle_disconnection_noop _ _ reason G) in H. inv_ok. apply hsub_refl. }
  destruct (handle_disconnection_frame _ _ _ _ _ H G) as (_ & _ & _ & FT & _).
  apply hsub_parts; [| | |apply incl_refl].
  - intros c t rq Gt Hin. rewrite FT in Gt. destruct (c =? id); [discriminate|]. left. left. exists t. auto.
  - intros c rq Hw. left. right. left. eapply psub_waits; eassumption.
  - intros c rq Hin. rewrite N in Hin. left. right. right. exact Hin.
Qed.


(* ------------------------------------------------------------------ one packet that is not a SUBSCRIBE *)
Definition not_subscribe (pk : packet) : Prop := match pk with PSubscribe _ _ _ => False | _ => True end.

Lemma hsub_view_l a b c e e' : rview b = rview a -> hsub b c e e' -> hsub a c e e'.
Proof. intros V H. eapply hsub_trans; [apply hsub_view; exact V|exact H]. Qed.
Lemma hsub_view_r a b c e e' : hsub a b e e' -> rview c = rview b -> hsub a c e e'.
Proof. intros H V. eapply hsub_trans; [exact H|apply hsub_view; exact V]. Qed.

Lemma handle_packet_hsub st id client pk fl st' fl' brk e :
  not_subscribe pk -> handle_packet st id client pk fl = Ok (st', fl', brk) -> hsub st st' e e.
Proof.
  intros Hns H. destruct pk; cbn [handle_packet not_subscribe] in *; try contradiction.
  - destruct (p_qos p =? 1).
    + apply bind_ok in H as (st1 & H1 & H). apply bind_ok in H as ([st2 res] & H2 & H).
      eapply hsub_trans; [eapply commit_ack_hsub; eassumption|].
      destruct res; inv_ok; eapply append_to_commitlog_hsub; eassumption.
    + destruct (p_qos p =? 2).
      * apply bind_ok in H as (l & _ & H). inv_ok. apply hsub_view. reflexivity.
      * apply bind_ok in H as ([st2 res] & H2 & H). destruct res; inv_ok; eapply append_to_commitlog_hsub; eassumption.
  - apply bind_ok in H as (c & _ & H). apply bind_ok in H as ([st1 reasons] & H1 & H).
    apply bind_ok in H as (st2 & H2 & H). inv_ok.
    eapply hsub_trans; [eapply unsubscribe_filters_hsub; eassumption|eapply commit_ack_hsub; eassumption].
  - apply bind_ok in H as (o & Ho & H). destruct (register_ack o pkid) as [o' ok]. destruct ok.
    + apply bind_ok in H as (st2 & H2 & H). inv_ok.
      eapply hsub_view_l; [|eapply reschedule_hsub; exact H2]. reflexivity.
    + inv_ok. apply hsub_view. reflexivity.
  - apply bind_ok in H as (o & Ho & H). destruct (register_ack o pkid) as [o' ok]. destruct ok.
    + apply bind_ok in H as (l & _ & H). apply bind_ok in H as (st2 & H2 & H). apply bind_ok in H as (st3 & H3 & H). inv_ok.
      eapply hsub_view_l; [|eapply hsub_trans; [eapply commit_ack_hsub; exact H2|eapply reschedule_hsub; exact H3]]. reflexivity.
    + inv_ok. apply hsub_view. reflexivity.
  - apply bind_ok in H as (l & _ & H). destruct (a_recorded l) as [|[p0 pr0] rec].
    + inv_ok. apply hsub_view. reflexivity.
    + apply bind_ok in H as ([st2 res] & H2 & H).
      eapply hsub_view_l; [|eapply hsub_trans; [eapply append_to_commitlog_hsub; exact H2|]]; [reflexivity|].
      destruct res.
      * apply bind_ok in H as (st3 & H3 & H). inv_ok. eapply reschedule_hsub; eassumption.
      * inv_ok. apply hsub_refl.
  - apply bind_ok in H as (o & Ho & H). destruct (register_pubcomp o pkid) as [o' ok]. destruct ok; inv_ok; apply hsub_view; reflexivity.
  - apply bind_ok in H as (st1 & H1 & H). inv_ok. eapply commit_ack_hsub; eassumption.
  - inv_ok. apply hsub_view. reflexivity.
  - inv_ok. apply hsub_refl.
Qed.

(* ------------------------------------------------------------------ will *)
Lemma handle_last_will_hsub st client st' e : handle_last_will st client = Ok st' -> hsub st st' e e.
Proof.
  unfold handle_last_will. intros H.
  destruct (al_get str_eqb client (r_wills st)) as [w|]; [|inv_ok; apply hsub_refl].
  destruct (negb (utf8_valid _)); [inv_ok; apply hsub_view; reflexivity|].
  match type of H with (if ?b then _ else _) = _ => destruct b end; [inv_ok; apply hsub_view; reflexivity|].
  apply bind_ok in H as ([st3 idxs] & H3 & H). apply bind_ok in H as (st4 & H4 & H).
  match type of H3 with dl_matches (retain_update ?s1 ?t ?p ?pr) _ = _ =>
    eapply (hsub_trans st s1); [apply hsub_view; reflexivity|];
    eapply (hsub_trans s1 (retain_update s1 t p pr)); [apply retain_update_hsub|] end.
  eapply hsub_trans; [eapply dl_matches_hsub; exact H3|].
  eapply hsub_trans; [eapply append_all_hsub; exact H4|eapply drain_notifications_hsub; exact H].
Qed.
