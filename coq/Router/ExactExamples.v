(** C01 exactness — the hypotheses of [sweep_exact] / [two_sweeps] are satisfiable by reachable
    states, and what the "backlog within retention" proviso means, on two literal histories
    (everything concrete is computed by [vm_compute]).

    Both: client "s" (id 0) subscribes to "a" at QoS 0, client "p" (id 1) publishes m1 to "a";
    the request of "s" is swept once (forwards m1, the continuation cursor is (0,1)); "p"
    publishes m2 (1100 bytes, fills the 1 KiB segment) and m3; the request is swept again.
    - two segments retained: the second sweep continues at offset 1 and forwards m2, m3;
    - one segment retained: appending m3 evicted the segment holding m1 and m2, the cursor
      (0,1) is stale, the second sweep restarts at the new base 2 and forwards m3 only — m2
      (offset 1) was evicted before it could be forwarded: the backlog exceeded retention. *)
From Rumqtt Require Import Log.Spec Log.Proofs Log.ListFacts Router.ExactLog.
From Rumqtt Require Import Router.WindowFrame Router.DataLogStep Router.ExactInv Router.ExactStep3 Router.ExactSweep Router.ExactThm.
From Rumqtt Require Import Router.Model Router.RunDefs.
From Coq Require Import ZifyBool ZifyN ZifyNat.

Definition ex_cfg (segs : N) : config :=
  {| cf_max_connections := 10; cf_max_outgoing := 200; cf_seg_size := 1024; cf_seg_count := segs;
     cf_init_filters := []; cf_strategy := RoundRobin; cf_debug_assertions := true |}.
Definition ex_conn (c : str) : rop :=
  OpConnect {| cr_client := c; cr_clean := true; cr_dynamic := false; cr_alias_max := 0; cr_will := None |}.
Definition ex_publish (pl : str) : publish :=
  {| p_dup := false; p_qos := 0; p_retain := false; p_topic := [97]; p_pkid := 0; p_payload := pl |}.
Definition ex_big : str := List.repeat 2 (N.to_nat 1100).
Definition ex_ops1 : list (list oracle * rop) :=
  map (pair []) [ex_conn [115]; ex_conn [112]; OpPush 0 (PSubscribe 1 [([97], 0)] None); OpData 0;
                 OpPush 1 (PPublish (ex_publish [1]) None); OpData 1].
Definition ex_ops2 : list (list oracle * rop) :=
  map (pair []) [OpPush 1 (PPublish (ex_publish ex_big) None); OpPush 1 (PPublish (ex_publish [3]) None); OpData 1].

(** payload lengths and cursors of the forwards in a link buffer *)
Definition ex_obs (ns : list notification) : list (option cursor * N) :=
  map (fun n => match n with NForward c p _ => (c, lenN (p_payload p)) | _ => (None, 0) end) ns.

Definition bounded_b (st : rstate) : bool :=
  forallb (fun o => match o with Some d => end_of (d_log d) <? B62 | None => true end)
          (sl_items (dl_native (r_datalog st))).
Lemma bounded_b_ok st : bounded_b st = true -> Bounded st.
Proof.
  unfold bounded_b, Bounded, nget, slab_get. intros H i d Hd. rewrite forallb_forall in H.
  destruct (nthN (sl_items (dl_native (r_datalog st))) i) as [[d0|]|] eqn:E; try discriminate.
  inversion Hd; subst. apply Window.nthN_In in E. specialize (H _ E). cbn beta iota in H. lia.
Qed.

(** the ghost history of a log built by [new] and one [append] *)
Lemma wf_one ms mm (l0 l1 : log pubdata) x r :
  new ms mm = Ok l0 -> append pubdata_size l0 x = Ok (l1, r) -> WFp l1 [x].
Proof.
  intros H0 H1. pose proof (new_ok_wf pubdata_size _ _ _ H0) as W0.
  destruct (append_ok_spec pubdata_size _ _ _ _ _ W0 H1) as (_ & W1 & _). exact W1.
Qed.

(** the hypotheses of [two_sweeps], on the history above *)
Definition ex_hyps (segs : N) (st1 : rstate) (rq : drequest) (st1' : rstate) (rq1 : drequest) (cs1 : consume_status)
           (d1 : data) (all : list pubdata) (st2 st2' : rstate) (rq2 : drequest) (cs2 : consume_status) : Prop :=
  reachable (ex_cfg segs) st1 /\ CInv st1 /\ has_request st1 rq /\
  nget (r_datalog st1) (dr_idx rq) = Some d1 /\ WFp (d_log d1) all /\
  Issued (d_log d1) (dr_cursor rq) /\ snd (dr_cursor rq) <= lenN all /\ dr_group rq = None /\
  forward_device_data st1 0 rq = Ok (st1', rq1, cs1) /\ cs1 <> SInflightFull /\
  run st1' ex_ops2 = Ok st2 /\ Bounded st2 /\
  forward_device_data st2 0 rq1 = Ok (st2', rq2, cs2) /\ cs2 <> SInflightFull.

Lemma ex_hyps_intro segs st0 st1 rq st1' rq1 cs1 d1 x l0 r st2 st2' rq2 cs2 t :
  init (ex_cfg segs) = Ok st0 -> run st0 ex_ops1 = Ok st1 -> bounded_b st1 = true ->
  slab_get (r_trackers st1) 0 = Some t -> tr_reqs t = [rq] ->
  nget (r_datalog st1) (dr_idx rq) = Some d1 ->
  new 1024 segs = Ok l0 -> append pubdata_size l0 x = Ok (d_log d1, r) ->
  dr_group rq = None ->
  forward_device_data st1 0 rq = Ok (st1', rq1, cs1) -> cs1 <> SInflightFull ->
  run st1' ex_ops2 = Ok st2 -> bounded_b st2 = true ->
  forward_device_data st2 0 rq1 = Ok (st2', rq2, cs2) -> cs2 <> SInflightFull ->
  ex_hyps segs st1 rq st1' rq1 cs1 d1 [x] st2 st2' rq2 cs2.
Proof.
  intros Hi Hr Hb1 Ht Htr Hd1 Hn Ha Hg F1 C1 R2 Hb2 F2 C2.
  assert (Hreach : reachable (ex_cfg segs) st1) by (exists st0, ex_ops1; auto).
  assert (HI : CInv st1).
  { eapply reachable_cinv; [|exact Hreach|now apply bounded_b_ok]. cbn. unfold B62. lia. }
  assert (Hhas : has_request st1 rq).
  { left. exists 0, t. split; [exact Ht|]. rewrite Htr. now left. }
  destruct (cinv_has_request _ _ HI Hhas) as [(d & Hd & Hiss & Hend) _].
  unfold nget in Hd, Hd1. rewrite Hd1 in Hd. inversion Hd; subst d.
  pose proof (wf_one _ _ _ _ _ _ Hn Ha) as W.
  rewrite (wf_end_of pubdata_size _ _ W) in Hend.
  unfold ex_hyps, nget.
  split; [exact Hreach|]. split; [exact HI|]. split; [exact Hhas|]. split; [exact Hd1|]. split; [exact W|].
  split; [exact Hiss|]. split; [exact Hend|]. split; [exact Hg|]. split; [exact F1|]. split; [exact C1|].
  split; [exact R2|]. split; [now apply bounded_b_ok|]. split; [exact F2|exact C2].
Qed.

(* ------------------------------------------------------------------ the two histories, computed *)
Definition ex_dummy : rstate :=
  {| r_cfg := ex_cfg 1; r_graveyard := []; r_conns := slab_empty; r_cmap := []; r_submap := [];
     r_ibufs := slab_empty; r_obufs := slab_empty;
     r_datalog := {| dl_native := slab_empty; dl_findex := []; dl_retained := []; dl_pfilters := [] |};
     r_acks := slab_empty; r_trackers := slab_empty; r_ready := []; r_notif := []; r_groups := []; r_wills := [];
     r_links := []; r_oracle := [] |}.
Definition ex_rq0 : drequest :=
  {| dr_filter := []; dr_idx := 0; dr_qos := 0; dr_cursor := (0, 0); dr_read := 0; dr_fwd_retained := false; dr_group := None |}.
Definition getok {A} (x : R A) (d : A) : A := match x with Ok a => a | _ => d end.

Definition ex_run1 (segs : N) : R rstate := do s <- init (ex_cfg segs); run s ex_ops1.
Definition ex_first_rq (st : rstate) : drequest :=
  match slab_get (r_trackers st) 0 with Some t => hd ex_rq0 (tr_reqs t) | None => ex_rq0 end.

Definition A_st0 : rstate := Eval vm_compute in getok (init (ex_cfg 2)) ex_dummy.
Definition A_st1 : rstate := Eval vm_compute in getok (ex_run1 2) ex_dummy.
Definition A_rq : drequest := Eval vm_compute in ex_first_rq A_st1.
Definition A_sw1 := Eval vm_compute in getok (forward_device_data A_st1 0 A_rq) (ex_dummy, ex_rq0, SkipRequest).
Definition A_st2 : rstate := Eval vm_compute in getok (run (fst (fst A_sw1)) ex_ops2) ex_dummy.
Definition A_sw2 := Eval vm_compute in getok (forward_device_data A_st2 0 (snd (fst A_sw1))) (ex_dummy, ex_rq0, SkipRequest).

Definition B_st0 : rstate := Eval vm_compute in getok (init (ex_cfg 1)) ex_dummy.
Definition B_st1 : rstate := Eval vm_compute in getok (ex_run1 1) ex_dummy.
Definition B_rq : drequest := Eval vm_compute in ex_first_rq B_st1.
Definition B_sw1 := Eval vm_compute in getok (forward_device_data B_st1 0 B_rq) (ex_dummy, ex_rq0, SkipRequest).
Definition B_st2 : rstate := Eval vm_compute in getok (run (fst (fst B_sw1)) ex_ops2) ex_dummy.
Definition B_sw2 := Eval vm_compute in getok (forward_device_data B_st2 0 (snd (fst B_sw1))) (ex_dummy, ex_rq0, SkipRequest).

Definition ex_d (st : rstate) : data :=
  match nget (r_datalog st) 0 with Some d => d | None => {| d_filter := []; d_log := {| head := 0; tail := 0; max_seg := 0; max_mem := 0; segs := [] |}; d_waiters := [] |} end.
Definition ex_x1 : pubdata := (ex_publish [1], None).

(** within retention (2 segments): consecutive, gap-free — m1, then m2 and m3 *)
Example ex_two_sweeps_within_retention :
  exists st1 rq st1' rq1 cs1 d1 st2 st2' rq2 cs2 d2,
    ex_hyps 2 st1 rq st1' rq1 cs1 d1 [ex_x1] st2 st2' rq2 cs2 /\
    nget (r_datalog st2) 0 = Some d2 /\
    dr_cursor rq = (0, 0) /\ dr_cursor rq1 = (0, 1) /\ stale (d_log d2) (dr_cursor rq1) = false /\
    ex_obs (out_of st1' 0) = [(Some (0, 0), 1)] /\
    ex_obs (out_of st2' 0) = [(Some (0, 0), 1); (Some (0, 1), 1100); (Some (1, 2), 1)] /\
    dr_cursor rq2 = (1, 3) /\ cs2 = FilterCaughtup.
Proof.
  exists A_st1, A_rq, (fst (fst A_sw1)), (snd (fst A_sw1)), (snd A_sw1), (ex_d A_st1),
         A_st2, (fst (fst A_sw2)), (snd (fst A_sw2)), (snd A_sw2), (ex_d A_st2).
  split.
  - eapply (ex_hyps_intro 2 A_st0); try (vm_compute; reflexivity); try (vm_compute; discriminate).
  - repeat split; vm_compute; reflexivity.
Qed.

(** beyond retention (1 segment): the second sweep restarts at the new base 2 and forwards m3
    only; offset 1 (m2) lies between the continuation (1) and the base (2): evicted backlog *)
Example ex_two_sweeps_stale :
  exists st1 rq st1' rq1 cs1 d1 st2 st2' rq2 cs2 d2,
    ex_hyps 1 st1 rq st1' rq1 cs1 d1 [ex_x1] st2 st2' rq2 cs2 /\
    nget (r_datalog st2) 0 = Some d2 /\
    dr_cursor rq = (0, 0) /\ dr_cursor rq1 = (0, 1) /\ stale (d_log d2) (dr_cursor rq1) = true /\
    base_of (d_log d2) = 2 /\ end_of (d_log d2) = 3 /\
    ex_obs (out_of st1' 0) = [(Some (0, 0), 1)] /\
    ex_obs (out_of st2' 0) = [(Some (0, 0), 1); (Some (1, 2), 1)] /\
    dr_cursor rq2 = (1, 3) /\ cs2 = FilterCaughtup.
Proof.
  exists B_st1, B_rq, (fst (fst B_sw1)), (snd (fst B_sw1)), (snd B_sw1), (ex_d B_st1),
         B_st2, (fst (fst B_sw2)), (snd (fst B_sw2)), (snd B_sw2), (ex_d B_st2).
  split.
  - eapply (ex_hyps_intro 1 B_st0); try (vm_compute; reflexivity); try (vm_compute; discriminate).
  - repeat split; vm_compute; reflexivity.
Qed.
