(** C17 at the level of whole runs — how every model function except the shared read itself
    changes [r_groups]: not at all, or members / turn only ([gsub]: group keys stay distinct,
    every surviving group keeps its cursor), or by registering a group whose cursor is the end
    of its log (SUBSCRIBE), or — the two excluded shapes — by rewinding a group to an inflight
    cursor ([hd_rewinds]) / re-creating one from a resumed request's cursor ([rejoin_created]). *)
From Rumqtt Require Import Router.Shared Log.Spec Log.Proofs Log.WfFacts Router.ExactLog.
From Rumqtt Require Import Topic.Proofs Router.WindowFrame Router.Window Router.DataLogInv Router.DataLogStep
                           Router.ExactInv Router.ExactStep1 Router.ExactStep2 Router.ExactLogs Router.ExactStep3
                           Router.ExactThm Router.SharedRun Router.SharedRunInv.
From Rumqtt Require Import Router.Model Router.RunDefs.
From Coq Require Import ZifyBool ZifyN ZifyNat Sorted.

(* ------------------------------------------------------------------ functions that leave r_groups alone *)
Lemma push_out_groups st k ns st' n : push_out st k ns = Ok (st', n) -> r_groups st' = r_groups st.
Proof. intros H. apply push_out_cview in H. now apply cview_groups. Qed.
Lemma reschedule_groups st id why st' : reschedule st id why = Ok st' -> r_groups st' = r_groups st.
Proof. unfold reschedule, get_tracker, try_ready. intros H. break_in H; inv_ok; reflexivity. Qed.
Lemma track_groups st id rq st' : track st id rq = Ok st' -> r_groups st' = r_groups st.
Proof. unfold track, get_tracker. intros H. break_in H; inv_ok; reflexivity. Qed.
Lemma trackv_groups st id rqs st' : trackv st id rqs = Ok st' -> r_groups st' = r_groups st.
Proof. unfold trackv, get_tracker. intros H. break_in H; inv_ok; reflexivity. Qed.
Lemma untrack_groups st id f st' : untrack st id f = Ok st' -> r_groups st' = r_groups st.
Proof. unfold untrack, get_tracker. intros H. break_in H; inv_ok; reflexivity. Qed.
Lemma pause_groups st id why st' : pause st id why = Ok st' -> r_groups st' = r_groups st.
Proof. unfold pause, get_tracker. intros H. break_in H; inv_ok; reflexivity. Qed.
Lemma park_groups st id rq st' : park st id rq = Ok st' -> r_groups st' = r_groups st.
Proof. unfold park. intros H. break_in H; inv_ok; reflexivity. Qed.
Lemma commit_ack_groups st id a st' : commit_ack st id a = Ok st' -> r_groups st' = r_groups st.
Proof. intros H. apply commit_ack_spec in H as (l & _ & ->). reflexivity. Qed.
Lemma dl_matches_groups st t st' v : dl_matches st t = Ok (st', v) -> r_groups st' = r_groups st.
Proof. unfold dl_matches. intros H. break_in H; inv_ok; reflexivity. Qed.
Lemma next_native_offset_groups st f st' i c : next_native_offset st f = Ok (st', i, c) -> r_groups st' = r_groups st.
Proof. unfold next_native_offset. intros H. break_in H; inv_ok; reflexivity. Qed.
Lemma data_append_groups st i x st' : data_append st i x = Ok st' -> r_groups st' = r_groups st.
Proof. unfold data_append. intros H. break_in H; inv_ok; reflexivity. Qed.
Lemma append_all_groups idxs : forall st x st', append_all st idxs x = Ok st' -> r_groups st' = r_groups st.
Proof.
  induction idxs as [| i r IH]; intros st x st' H; cbn [append_all] in H.
  - now inv_ok.
  - apply bind_ok in H as (st1 & H1 & H2). apply data_append_groups in H1. apply IH in H2. congruence.
Qed.
Lemma remove_waiters_groups st id f st' : remove_waiters_for_id st id f = Ok st' -> r_groups st' = r_groups st.
Proof. unfold remove_waiters_for_id. intros H. inv_ok. reflexivity. Qed.
Lemma wake_all_groups ns : forall st st', wake_all st ns = Ok st' -> r_groups st' = r_groups st.
Proof.
  induction ns as [| [id rq] r IH]; intros st st' H; cbn [wake_all] in H.
  - now inv_ok.
  - apply bind_ok in H as (st1 & H1 & H). apply bind_ok in H as (st2 & H2 & H).
    apply track_groups in H1. apply reschedule_groups in H2. apply IH in H. congruence.
Qed.
Lemma drain_notifications_groups st st' : drain_notifications st = Ok st' -> r_groups st' = r_groups st.
Proof. unfold drain_notifications. intros H. apply wake_all_groups in H. exact H. Qed.
Lemma retain_update_groups st t p pr : r_groups (retain_update st t p pr) = r_groups st.
Proof. unfold retain_update. destruct (p_retain p); [destruct (p_payload p) |]; reflexivity. Qed.

Lemma append_to_commitlog_groups st id p props st' res :
  append_to_commitlog st id p props = Ok (st', res) -> r_groups st' = r_groups st.
Proof.
  unfold append_to_commitlog. intros H.
  apply bind_ok in H as (conn & Hc & H).
  match type of H with (if ?b then _ else _) = _ => destruct b end; [now inv_ok|].
  apply bind_ok in H as (sp & Hsp & H). destruct sp as [[st1 p1]|reason]; [|now inv_ok].
  assert (G1 : r_groups st1 = r_groups st) by (clear H; break_all Hsp; inv_ok; reflexivity).
  destruct (negb (utf8_valid (p_topic p1))); [now inv_ok|].
  apply bind_ok in H as ([st3 idxs] & H3 & H). apply bind_ok in H as (st4 & H4 & H). inv_ok.
  apply dl_matches_groups in H3. apply append_all_groups in H4. rewrite retain_update_groups in H3. congruence.
Qed.

Lemma handle_last_will_groups st c st' : handle_last_will st c = Ok st' -> r_groups st' = r_groups st.
Proof.
  unfold handle_last_will. intros H.
  destruct (al_get str_eqb c (r_wills st)) as [w|]; [|now inv_ok].
  destruct (negb (utf8_valid _)); [now inv_ok|].
  match type of H with (if ?b then _ else _) = _ => destruct b end; [now inv_ok|].
  apply bind_ok in H as ([st3 idxs] & H3 & H). apply bind_ok in H as (st4 & H4 & H).
  apply dl_matches_groups in H3. apply append_all_groups in H4. apply drain_notifications_groups in H.
  rewrite retain_update_groups in H3. rewrite H, H4, H3. reflexivity.
Qed.

(* ------------------------------------------------------------------ gsub *)
(** keys stay distinct, surviving groups keep their cursors *)
Definition GK (st : rstate) : Prop := NoDup (map fst (r_groups st)).
Definition gsub (gs gs' : list (str * group)) : Prop :=
  NoDup (map fst gs) -> NoDup (map fst gs') /\ gcur_sub gs gs'.

Lemma gsub_refl gs : gsub gs gs.
Proof. intros H. split; [exact H|apply gcur_sub_refl]. Qed.
Lemma gsub_eq gs gs' : gs' = gs -> gsub gs gs'.
Proof. intros ->. apply gsub_refl. Qed.
Lemma gsub_trans a b c : gsub a b -> gsub b c -> gsub a c.
Proof.
  intros H1 H2 Ha. destruct (H1 Ha) as [Hb S1]. destruct (H2 Hb) as [Hc S2].
  split; [exact Hc|eapply gcur_sub_trans; eassumption].
Qed.

Lemma gi_gsub st st' gf :
  CInv st -> GK st -> dl_le (r_datalog st) (r_datalog st') -> gsub (r_groups st) (r_groups st') ->
  GI st gf -> GK st' /\ GI st' gf.
Proof.
  intros HI HK L S HG. destruct (S HK) as [HK' S']. split; [exact HK'|]. eapply gi_step; eassumption.
Qed.

Lemma gsub_al_remove k gs : gsub gs (al_remove str_eqb k gs).
Proof.
  intros Hn. split; [now apply (al_remove_nodup str_eqb)|].
  intros name g' Hg. destruct (str_eqb_spec name k) as [-> | Hne].
  - rewrite (al_get_remove_same str_eqb str_eqb_spec) in Hg by exact Hn. discriminate.
  - rewrite (al_get_remove_other str_eqb str_eqb_spec) in Hg by exact Hne. eauto.
Qed.

Lemma gsub_al_set k g g' gs :
  al_get str_eqb k gs = Some g -> g_cursor g' = g_cursor g -> gsub gs (al_set str_eqb k g' gs).
Proof.
  intros Hk Hc Hn. split; [now apply (al_set_nodup str_eqb str_eqb_spec)|].
  intros name x Hx. destruct (str_eqb_spec name k) as [-> | Hne].
  - rewrite (al_get_set_same str_eqb str_eqb_spec) in Hx. inversion Hx; subst x. eauto.
  - rewrite (RetainedBase.al_get_set_other str_eqb str_eqb_spec) in Hx by exact Hne. eauto.
Qed.

(* ------------------------------------------------------------------ groups_remove_client *)
Lemma grc_keys c : forall gs, incl (map fst (groups_remove_client gs c)) (map fst gs).
Proof.
  induction gs as [|[n g] r IH]; cbn [groups_remove_client map fst]; [apply incl_refl|].
  destruct (g_clients (group_remove_client g c)); cbn [map fst].
  - now apply incl_tl.
  - intros x [<- | Hx]; [now left|right; now apply IH].
Qed.

Lemma gsub_grc c gs : gsub gs (groups_remove_client gs c).
Proof.
  intros Hn. split.
  - induction gs as [|[n g] r IH]; cbn [groups_remove_client map fst] in *; [constructor|].
    inversion Hn as [|? ? Hni Hn']; subst.
    destruct (g_clients (group_remove_client g c)); cbn [map fst]; [now apply IH|].
    constructor; [|now apply IH]. intros Hin. apply Hni. eapply grc_keys; eassumption.
  - induction gs as [|[n g] r IH]; cbn [groups_remove_client map fst] in *; intros name g' Hg; [discriminate|].
    inversion Hn as [|? ? Hni Hn']; subst.
    destruct (g_clients (group_remove_client g c)) eqn:E.
    + destruct (IH Hn' _ _ Hg) as (g0 & Hg0 & Hc). exists g0. split; [|exact Hc]. cbn [al_get].
      destruct (str_eqb_spec name n) as [-> | _]; [|exact Hg0].
      exfalso. apply Hni. apply (al_get_in str_eqb str_eqb_spec) in Hg0.
      change n with (fst (n, g0)). now apply in_map.
    + cbn [al_get] in *. destruct (str_eqb name n).
      * inversion Hg; subst g'. exists g. split; reflexivity.
      * now apply IH.
Qed.

(* ------------------------------------------------------------------ handle_disconnection without a rewind *)
Lemma existsb_false {A} (f : A -> bool) l : existsb f l = false -> forall x, In x l -> f x = false.
Proof.
  induction l as [|a l IH]; cbn [existsb]; intros H x Hx; [destruct Hx|].
  apply orb_false_iff in H as [H1 H2]. destruct Hx as [<- | Hx]; auto.
Qed.

Lemma retransmission_map_none fidx : forall infl acc,
  al_get N.eqb fidx acc = None -> has_log_entry infl fidx = false ->
  al_get N.eqb fidx (retransmission_map infl acc) = None.
Proof.
  induction infl as [|[[pk fi] c] r IH]; intros acc Ha Hh; cbn [retransmission_map]; [exact Ha|].
  unfold has_log_entry in Hh. cbn [existsb] in Hh. apply orb_false_iff in Hh as [Hh1 Hh2].
  destruct (al_get N.eqb fi acc); [now apply IH|]. destruct c as [cu|]; [|now apply IH].
  apply IH; [|exact Hh2]. rewrite (al_get_app N.eqb), Ha. cbn [al_get].
  rewrite N.eqb_sym, Hh1. reflexivity.
Qed.

Lemma rewind_requests_same retr : forall rqs gs rqs' gs',
  (forall rq, In rq rqs -> dr_group rq <> None -> al_get N.eqb (dr_idx rq) retr = None) ->
  rewind_requests rqs retr gs = Ok (rqs', gs') -> gs' = gs.
Proof.
  induction rqs as [|rq r IH]; intros gs rqs' gs' Hn H; cbn [rewind_requests] in H; [now inv_ok|].
  destruct (al_get N.eqb (dr_idx rq) retr) as [cu|] eqn:E.
  - apply bind_ok in H as (gs1 & H1 & H). apply bind_ok in H as ([r' gs2] & H2 & H). inv_ok.
    assert (gs1 = gs).
    { destruct (dr_group rq) as [name|] eqn:En; [|now inv_ok].
      exfalso. assert (Hx : al_get N.eqb (dr_idx rq) retr = None) by (apply Hn; [now left|congruence]). congruence. }
    subst gs1. eapply IH; [|exact H2]. intros rq0 Hin. apply Hn. now right.
  - apply bind_ok in H as ([r' gs2] & H2 & H). inv_ok. eapply IH; [|exact H2]. intros rq0 Hin. apply Hn. now right.
Qed.

Lemma handle_disconnection_groups st id reason st' :
  handle_disconnection st id reason = Ok st' -> hd_rewinds st id = false ->
  gsub (r_groups st) (r_groups st').
Proof.
  intros H Hnr. unfold handle_disconnection in H.
  destruct (slab_get (r_obufs st) id) as [o0|] eqn:Eo0; [|inv_ok; apply gsub_refl].
  apply bind_ok in H as (st0 & H0 & H).
  assert (V0 : r_conns st0 = r_conns st /\ r_obufs st0 = r_obufs st /\ r_trackers st0 = r_trackers st /\
               r_datalog st0 = r_datalog st /\ r_groups st0 = r_groups st).
  { destruct reason; [|inv_ok; auto 10]. apply bind_ok in H0 as ([s len0] & H0 & H1). inv_ok.
    apply push_out_fields in H0. rewrite H0. auto 10. }
  destruct V0 as (Vc & Vo & Vt & Vd & Vg). clear H0.
  destruct (slab_remove (r_conns st0) id) as [[conns conn]|] eqn:Rc; [|discriminate].
  destruct (slab_remove (r_ibufs st0) id) as [[ibufs ib]|]; [|discriminate].
  destruct (slab_remove (r_obufs st0) id) as [[obufs outg]|] eqn:Ro; [|discriminate].
  destruct (slab_remove (r_trackers st0) id) as [[trackers trk]|] eqn:Rt; [|discriminate].
  destruct (slab_remove (r_acks st0) id) as [[acks al]|]; [|discriminate].
  destruct (dl_clean (r_datalog st0) id) as [dl inflight_rqs] eqn:Ecl.
  destruct (slab_remove_get _ _ _ _ id Rc) as [Hc _]. destruct (slab_remove_get _ _ _ _ id Rt) as [Ht _].
  destruct (slab_remove_get _ _ _ _ id Ro) as [Ho _].
  unfold hd_rewinds in Hnr. rewrite <- Vc, <- Vo, <- Vt, <- Vd, Hc, Ho, Ht, Ecl in Hnr. cbn [snd] in Hnr.
  apply bind_ok in H as ([grave groups'] & HG & H). inv_ok. cbn [r_groups]. rewrite <- Vg.
  assert (groups' = groups_remove_client (r_groups st0) (o_client o0)).
  { destruct (negb (c_clean conn)); cbn [andb] in Hnr.
    - apply bind_ok in HG as ([rqs' gs] & HR & HG). inv_ok.
      eapply rewind_requests_same; [|exact HR]. intros rq Hin Hgrp.
      apply retransmission_map_none; [reflexivity|].
      pose proof (existsb_false _ _ Hnr _ Hin) as Hq. cbv beta in Hq. clear Hnr. rename Hq into Hnr. destruct (dr_group rq); [exact Hnr|congruence].
    - now inv_ok. }
  subst groups'. apply gsub_grc.
Qed.

(* ------------------------------------------------------------------ UNSUBSCRIBE *)
Lemma unsubscribe_filters_groups id client : forall fs st reasons st' reasons',
  unsubscribe_filters st id client fs reasons = Ok (st', reasons') -> gsub (r_groups st) (r_groups st').
Proof.
  induction fs as [|f r IH]; intros st reasons st' reasons' H; cbn [unsubscribe_filters] in H.
  - inv_ok. apply gsub_refl.
  - match type of H with (if negb ?b then _ else _) = _ => destruct b end; cbn [negb] in H; [|eapply IH; eassumption].
    match type of H with context [get_conn ?s id] => set (st1 := s) in * end.
    assert (G1 : r_groups st1 = r_groups st).
    { unfold st1. destruct (al_get str_eqb f (r_submap st)); reflexivity. }
    apply bind_ok in H as (conn & Hc & H).
    destruct (negb (set_mem str_eqb f (c_subs conn))); [rewrite <- G1; eapply IH; eassumption|].
    apply bind_ok in H as (st4 & H4 & H). apply bind_ok in H as (st5 & H5 & H).
    eapply gsub_trans; [|eapply IH; exact H].
    apply untrack_groups in H4. apply remove_waiters_groups in H5. rsimpl. rewrite H5, H4. rsimpl.
    rewrite G1. destruct (extract_group f) as [[gname p]|]; [|apply gsub_refl].
    destruct (al_get str_eqb gname (r_groups st)) as [g|] eqn:Eg; [|apply gsub_refl].
    destruct (g_clients (group_remove_client g client)); [apply gsub_al_remove|].
    eapply gsub_al_set; [exact Eg|reflexivity].
Qed.
