(** C09 (a): the outbound window invariant [WinInv] of an [Outgoing], its preservation by
    [number_forwards] (with at most [free_slots] forwards) and [register_ack], the bound on what
    [forward_device_data] passes to [number_forwards], and the lifting through every function
    of the model up to [step_with] and to every reachable state. *)
From Coq Require Import ZArith ZifyBool ZifyN ZifyNat.
From Rumqtt Require Import Router.Model Router.RunDefs Router.WindowFrame.

Ltac Zify.zify_post_hook ::= Z.div_mod_to_equations.

Lemma lenN_app {X} (a b : list X) : lenN (a ++ b) = lenN a + lenN b.
Proof. unfold lenN. rewrite app_length. lia. Qed.
Lemma lenN_cons {X} (x : X) l : lenN (x :: l) = lenN l + 1.
Proof. unfold lenN. cbn [length]. lia. Qed.
Lemma lenN_nil {X} : lenN (@nil X) = 0.
Proof. reflexivity. Qed.
Lemma lenN_map {X Y} (f : X -> Y) l : lenN (map f l) = lenN l.
Proof. unfold lenN. now rewrite map_length. Qed.

Section ReadLen.
Context {T : Type}.

Lemma lenN_firstN (l : list T) : forall n, lenN (firstN n l) <= n.
Proof.
  induction l as [| x r IH]; intros n; cbn [firstN]; [rewrite lenN_nil; lia |].
  destruct (n =? 0) eqn:E; [rewrite lenN_nil; lia |]. rewrite lenN_cons. specialize (IH (n - 1)). lia.
Qed.

Lemma lenN_tag_from sg (l : list T) : forall off, lenN (tag_from sg off l) = lenN l.
Proof.
  induction l as [| x r IH]; intros off; cbn [tag_from]; [reflexivity |].
  rewrite !lenN_cons. now rewrite IH.
Qed.

Lemma seg_readv_len (s : segment T) c len sp o :
  seg_readv s c len = Ok (sp, o) ->
  lenN o <= len /\ match sp with SDone no => lenN o <= no - snd c | SNext _ => True end.
Proof.
  unfold seg_readv, seg_next_offset, add64, sub64, seg_len. intros H. break_all H; inv_ok;
    rewrite ?lenN_nil, ?lenN_tag_from; try (split; [lia | try exact I; lia]).
  all: match goal with |- context [firstN ?n ?l] => pose proof (lenN_firstN l n) end.
  all: split; [lia | try exact I; lia].
Qed.

Lemma readv_walk_len (more : list (segment T)) : forall tl start cur len curr pos o,
  readv_walk tl start cur len curr more = Ok (pos, o) -> lenN o <= len.
Proof.
  induction more as [| nxt more' IH]; intros tl start cur len curr pos o H; cbn [readv_walk] in H.
  - unfold readv_active, seg_next_offset, add64, sub64 in H. break_all H; inv_ok;
      rewrite ?lenN_nil; try lia;
      repeat match goal with E : seg_readv _ _ _ = Ok _ |- _ => apply seg_readv_len in E as [? ?] end; lia.
  - destruct (fst cur <? tl).
    + apply bind_ok in H as ([sp o1] & H1 & H). apply seg_readv_len in H1 as [L1 L2].
      destruct sp as [offset | next_off]; [inv_ok; exact L1 |].
      apply bind_ok in H as (len' & H2 & H). apply bind_ok in H as (c0 & H3 & H).
      assert (lenN o1 + len' <= len).
      { unfold sub64 in H2. break_all H2; inv_ok; lia. }
      destruct (len' =? 0); [inv_ok; lia |].
      apply bind_ok in H as ([pos2 o2] & H4 & H). inv_ok. apply IH in H4. rewrite lenN_app. lia.
    + unfold readv_active, seg_next_offset, add64 in H. break_all H; inv_ok; rewrite ?lenN_nil; try lia;
      repeat match goal with E : seg_readv _ _ _ = Ok _ |- _ => apply seg_readv_len in E as [? ?] end; lia.
Qed.

(** [readv] never returns more than the [len] entries asked for (no well-formedness needed) *)
Lemma readv_len (l : log T) c len pos o : readv l c len = Ok (pos, o) -> lenN o <= len.
Proof.
  unfold readv. intros H.
  destruct (tail l <? fst c); [inv_ok; rewrite lenN_nil; lia |].
  apply bind_ok in H as ([cur start] & _ & H). apply bind_ok in H as (idx & _ & H).
  destruct (nth_rest (segs l) idx) as [[curr more] |]; [| discriminate].
  destruct (snd cur <? s_abs curr); eapply readv_walk_len; eauto.
Qed.
End ReadLen.

(* ------------------------------------------------------------------ WinInv *)
Lemma lenN_snoc {X} (l : list X) x : lenN (l ++ [x]) = lenN l + 1.
Proof. unfold lenN. rewrite app_length. cbn [length]. lia. Qed.

Lemma MAX_INFLIGHT_100 : MAX_INFLIGHT = 100. Proof. reflexivity. Qed.
Lemma MAX_PKID_100 : MAX_PKID = 100. Proof. reflexivity. Qed.

Definition pkid_of (e : N * N * option cursor) : N := fst (fst e).
Definition pkids (o : outgoing) : list N := map pkid_of (o_inflight o).

(** the [i]-th (0-based) of the [n] consecutive packet ids issued last, when the counter
    stands at [last] (the id issued next is [last + 1]; ids run 1..MAX_PKID cyclically) *)
Definition id_at (last n i : N) : N := (last + MAX_PKID - n + i) mod MAX_PKID + 1.

Record WinInv (o : outgoing) : Prop := {
  win_last : o_last o < MAX_PKID;
  win_len : lenN (o_inflight o) <= MAX_INFLIGHT;
  win_ids : forall i e, nthN (o_inflight o) i = Some e ->
                        pkid_of e = id_at (o_last o) (lenN (o_inflight o)) i }.

Lemma id_at_range last n i : 1 <= id_at last n i <= MAX_PKID.
Proof. unfold id_at. rewrite MAX_PKID_100. lia. Qed.

Lemma id_at_inj last n i j :
  n <= MAX_PKID -> i < n -> j < n -> id_at last n i = id_at last n j -> i = j.
Proof. unfold id_at. rewrite MAX_PKID_100. lia. Qed.

Lemma id_at_push last n i :
  last < MAX_PKID -> n + 1 <= MAX_PKID ->
  id_at (if last + 1 =? MAX_PKID then 0 else last + 1) (n + 1) i = id_at last n i.
Proof. unfold id_at. rewrite MAX_PKID_100. intros. destruct (last + 1 =? 100) eqn:E; lia. Qed.

Lemma id_at_new last n :
  last < MAX_PKID -> n + 1 <= MAX_PKID ->
  id_at (if last + 1 =? MAX_PKID then 0 else last + 1) (n + 1) n = last + 1.
Proof. unfold id_at. rewrite MAX_PKID_100. intros. destruct (last + 1 =? 100) eqn:E; lia. Qed.

Lemma id_at_pop last n i : n + 1 <= MAX_PKID -> id_at last n i = id_at last (n + 1) (i + 1).
Proof. unfold id_at. rewrite MAX_PKID_100. intros. f_equal. f_equal. lia. Qed.

(** the last id of a non-empty run is the one the counter was derived from *)
Lemma id_at_last last n : 0 < n -> n <= MAX_PKID -> last < MAX_PKID ->
  id_at last n (n - 1) = if last =? 0 then MAX_PKID else last.
Proof. unfold id_at. rewrite MAX_PKID_100. intros. destruct (last =? 0) eqn:E; lia. Qed.

Lemma WinInv_fresh c l pr : WinInv {| o_client := c; o_link := l; o_inflight := []; o_pubrels := pr; o_last := 0 |}.
Proof.
  split; cbn [o_last o_inflight].
  - rewrite MAX_PKID_100. lia.
  - rewrite lenN_nil, MAX_INFLIGHT_100. lia.
  - intros i e H. discriminate.
Qed.

Definition push1 (o : outgoing) (fidx : N) (c : option cursor) : outgoing :=
  {| o_client := o_client o; o_link := o_link o;
     o_inflight := o_inflight o ++ [(o_last o + 1, fidx, c)];
     o_pubrels := o_pubrels o;
     o_last := if o_last o + 1 =? MAX_PKID then 0 else o_last o + 1 |}.

Lemma WinInv_push1 o fidx c :
  WinInv o -> lenN (o_inflight o) + 1 <= MAX_INFLIGHT -> WinInv (push1 o fidx c).
Proof.
  intros [Hl Hn Hi] Hfree. unfold push1. split; cbn [o_last o_inflight].
  - rewrite MAX_PKID_100 in *. destruct (o_last o + 1 =? 100) eqn:E; lia.
  - rewrite lenN_snoc. lia.
  - intros i e H. rewrite lenN_snoc.
    rewrite nthN_app in H. destruct (i <? lenN (o_inflight o)) eqn:E.
    + rewrite id_at_push by (unfold MAX_PKID in *; lia). now apply Hi.
    + cbn [nthN] in H. destruct (i - lenN (o_inflight o) =? 0) eqn:E2; [| discriminate].
      inversion H; subst; clear H. cbn [pkid_of fst].
      replace i with (lenN (o_inflight o)) by lia. rewrite id_at_new by (unfold MAX_PKID in *; lia). reflexivity.
Qed.

Lemma WinInv_pop o h r :
  WinInv o -> o_inflight o = h :: r -> WinInv (set_o_inflight o r).
Proof.
  intros [Hl Hn Hi] E. unfold set_o_inflight. split; cbn [o_last o_inflight].
  - exact Hl.
  - rewrite E, lenN_cons in Hn. lia.
  - intros i e H. rewrite E in *. rewrite lenN_cons in *.
    rewrite id_at_pop by (unfold MAX_PKID in *; lia). apply Hi. cbn [nthN].
    destruct (i + 1 =? 0) eqn:E2; [lia |]. now replace (i + 1 - 1) with i by lia.
Qed.

Lemma WinInv_pubrels o v : WinInv o -> WinInv (set_o_pubrels o v).
Proof. intros [Hl Hn Hi]. split; assumption. Qed.

(* ---- consequences: range, distinctness *)
Lemma In_nthN {X} (l : list X) x : In x l -> exists i, nthN l i = Some x.
Proof.
  induction l as [| y r IH]; intros H; [contradiction |]. destruct H as [-> | H].
  - exists 0. reflexivity.
  - destruct (IH H) as (i & Hi). exists (i + 1). cbn [nthN].
    destruct (i + 1 =? 0) eqn:E; [lia |]. now replace (i + 1 - 1) with i by lia.
Qed.
Lemma nthN_In {X} (l : list X) : forall i x, nthN l i = Some x -> In x l.
Proof.
  induction l as [| y r IH]; intros i x H; cbn [nthN] in H; [discriminate |].
  destruct (i =? 0); [inversion H; now left | right; eauto].
Qed.

Lemma NoDup_map_nthN {X Y} (f : X -> Y) (l : list X) :
  (forall i j x y, nthN l i = Some x -> nthN l j = Some y -> i <> j -> f x <> f y) -> NoDup (map f l).
Proof.
  induction l as [| a r IH]; intros H; cbn [map]; constructor.
  - intros Hin. apply in_map_iff in Hin as (y & Hy & Hin). apply In_nthN in Hin as (j & Hj).
    apply (H 0 (j + 1) a y); [reflexivity | | lia | now symmetry].
    cbn [nthN]. destruct (j + 1 =? 0) eqn:E; [lia |]. now replace (j + 1 - 1) with j by lia.
  - apply IH. intros i j x y Hi Hj Hne. apply (H (i + 1) (j + 1)); try lia.
    + cbn [nthN]. destruct (i + 1 =? 0) eqn:E; [lia |]. now replace (i + 1 - 1) with i by lia.
    + cbn [nthN]. destruct (j + 1 =? 0) eqn:E; [lia |]. now replace (j + 1 - 1) with j by lia.
Qed.

Lemma WinInv_range o p : WinInv o -> In p (pkids o) -> 1 <= p <= MAX_PKID.
Proof.
  intros [Hl Hn Hi] H. unfold pkids in H. apply in_map_iff in H as (e & <- & H).
  apply In_nthN in H as (i & H). rewrite (Hi _ _ H). apply id_at_range.
Qed.

Lemma WinInv_nodup o : WinInv o -> NoDup (pkids o).
Proof.
  intros [Hl Hn Hi]. unfold pkids. apply NoDup_map_nthN. intros i j x y Hx Hy Hne E.
  rewrite (Hi _ _ Hx), (Hi _ _ Hy) in E. apply Hne.
  apply nthN_some_lt in Hx, Hy. eapply id_at_inj; eauto.
Qed.

(* ------------------------------------------------------------------ number_forwards / register_ack *)
(** [numbered fidx new fw ns]: the inflight entries [new] recorded for the forwards [fw] and the
    notifications [ns] put on the wire for them: entry and notification carry the same id *)
Inductive numbered (fidx : N) :
  list (N * N * option cursor) -> list (option cursor * publish * option pprops) -> list notification -> Prop :=
| numbered_nil : numbered fidx [] [] []
| numbered_cons pk c p pr new fw ns :
    numbered fidx new fw ns ->
    numbered fidx ((pk, fidx, c) :: new) ((c, p, pr) :: fw) (NForward c (set_p_pkid p pk) pr :: ns).

Lemma numbered_len fidx new fw ns : numbered fidx new fw ns -> lenN new = lenN fw /\ lenN ns = lenN fw.
Proof. induction 1 as [| pk c p pr new fw ns H [IH1 IH2]]; [split; reflexivity |]. rewrite !lenN_cons. lia. Qed.

Lemma push1_inflight o fidx c : o_inflight (push1 o fidx c) = o_inflight o ++ [(o_last o + 1, fidx, c)].
Proof. reflexivity. Qed.

Lemma number_forwards_spec fw : forall o fidx o' ns,
  number_forwards o fidx fw = (o', ns) ->
  o_client o' = o_client o /\ o_link o' = o_link o /\ o_pubrels o' = o_pubrels o /\
  exists new, o_inflight o' = o_inflight o ++ new /\ numbered fidx new fw ns.
Proof.
  induction fw as [| [[c p] pr] r IH]; intros o fidx o' ns H; cbn [number_forwards] in H.
  - inv_ok. repeat split. exists []. split; [now rewrite app_nil_r | constructor].
  - cbv zeta in H. change {| o_client := o_client o; o_link := o_link o;
        o_inflight := o_inflight o ++ [(o_last o + 1, fidx, c)]; o_pubrels := o_pubrels o;
        o_last := if o_last o + 1 =? MAX_PKID then 0 else o_last o + 1 |} with (push1 o fidx c) in H.
    destruct (number_forwards (push1 o fidx c) fidx r) as [o2 ns2] eqn:E. inv_ok.
    apply IH in E as (E1 & E2 & E3 & new & E4 & E5). repeat split; try assumption.
    exists ((o_last o + 1, fidx, c) :: new). split.
    + rewrite E4, push1_inflight, <- app_assoc. reflexivity.
    + now constructor.
Qed.

Lemma number_forwards_WinInv fw : forall o fidx,
  WinInv o -> lenN (o_inflight o) + lenN fw <= MAX_INFLIGHT -> WinInv (fst (number_forwards o fidx fw)).
Proof.
  induction fw as [| [[c p] pr] r IH]; intros o fidx W Hfree; cbn [number_forwards]; [exact W |].
  cbv zeta. change {| o_client := o_client o; o_link := o_link o;
        o_inflight := o_inflight o ++ [(o_last o + 1, fidx, c)]; o_pubrels := o_pubrels o;
        o_last := if o_last o + 1 =? MAX_PKID then 0 else o_last o + 1 |} with (push1 o fidx c).
  rewrite lenN_cons in Hfree.
  specialize (IH (push1 o fidx c) fidx). destruct (number_forwards (push1 o fidx c) fidx r) as [o2 ns2].
  cbn [fst] in *. apply IH.
  - apply WinInv_push1; [exact W | lia].
  - rewrite push1_inflight, lenN_snoc. lia.
Qed.

Lemma free_slots_spec o n : free_slots o = Ok n -> lenN (o_inflight o) + n = MAX_INFLIGHT.
Proof. unfold free_slots. intros H. break_all H; inv_ok. lia. Qed.

(** evolution of one Outgoing: pops of the head, pubrel bookkeeping, pushes within the free slots *)
Inductive ostep : outgoing -> outgoing -> Prop :=
| os_refl o : ostep o o
| os_pop o h r : o_inflight o = h :: r -> ostep o (set_o_inflight o r)
| os_pubrels o v : ostep o (set_o_pubrels o v)
| os_push o fidx fw : lenN (o_inflight o) + lenN fw <= MAX_INFLIGHT -> ostep o (fst (number_forwards o fidx fw))
| os_trans a b c : ostep a b -> ostep b c -> ostep a c.

Lemma ostep_WinInv o o' : ostep o o' -> WinInv o -> WinInv o'.
Proof.
  induction 1; intros W; auto.
  - eapply WinInv_pop; eauto.
  - now apply WinInv_pubrels.
  - now apply number_forwards_WinInv.
Qed.

Lemma ostep_link o o' : ostep o o' -> o_link o' = o_link o /\ o_client o' = o_client o.
Proof.
  induction 1; auto.
  - destruct (number_forwards o fidx fw) as [o2 ns] eqn:E. apply number_forwards_spec in E. cbn [fst]. tauto.
  - destruct IHostep1, IHostep2. split; congruence.
Qed.

Lemma register_ack_ostep o pkid o' ok : register_ack o pkid = (o', ok) -> ostep o o'.
Proof.
  unfold register_ack. intros H. destruct (o_inflight o) as [| [[h x] y] r] eqn:E; [inv_ok; constructor |].
  destruct (pkid =? h); inv_ok; [eapply os_pop; eauto | constructor].
Qed.

(** the head is popped iff it carries this pkid; otherwise the window is unchanged *)
Lemma register_ack_spec o pkid o' ok :
  register_ack o pkid = (o', ok) ->
  match o_inflight o with
  | [] => o' = o /\ ok = false
  | h :: r => if pkid =? pkid_of h then o' = set_o_inflight o r /\ ok = true else o' = o /\ ok = false
  end.
Proof.
  unfold register_ack. intros H. destruct (o_inflight o) as [| [[h x] y] r]; [inv_ok; auto |].
  cbn [pkid_of fst]. destruct (pkid =? h); inv_ok; auto.
Qed.

Lemma register_ack_mismatch o pkid :
  match o_inflight o with [] => True | h :: _ => pkid <> pkid_of h end ->
  register_ack o pkid = (o, false).
Proof.
  unfold register_ack. destruct (o_inflight o) as [| [[h x] y] r]; [reflexivity |].
  cbn [pkid_of fst]. intros Hne. destruct (N.eqb_spec pkid h); [contradiction | reflexivity].
Qed.

Lemma register_ack_match o pkid h r :
  o_inflight o = h :: r -> pkid = pkid_of h -> register_ack o pkid = (set_o_inflight o r, true).
Proof.
  unfold register_ack. intros -> ->. destruct h as [[h x] y]. cbn [pkid_of fst]. now rewrite N.eqb_refl.
Qed.

Lemma register_pubcomp_ostep o pkid o' ok : register_pubcomp o pkid = (o', ok) -> ostep o o'.
Proof.
  unfold register_pubcomp. intros H. destruct (o_pubrels o) as [| h r]; [inv_ok; constructor |].
  destruct (pkid =? h); inv_ok; constructor.
Qed.

Lemma register_pubcomp_mismatch o pkid :
  match o_pubrels o with [] => True | h :: _ => pkid <> h end ->
  register_pubcomp o pkid = (o, false).
Proof.
  unfold register_pubcomp. destruct (o_pubrels o) as [| h r]; [reflexivity |].
  intros Hne. destruct (N.eqb_spec pkid h); [contradiction | reflexivity].
Qed.

(* ------------------------------------------------------------------ state level *)
Definition ObInv (st : rstate) : Prop :=
  forall id o, slab_get (r_obufs st) id = Some o -> WinInv o.

(** only key [id] of [r_obufs] changes, by an [ostep] or by being vacated *)
Definition obs_at (id : N) (st st' : rstate) : Prop :=
  (forall id', id' <> id -> slab_get (r_obufs st') id' = slab_get (r_obufs st) id') /\
  (forall o', slab_get (r_obufs st') id = Some o' ->
              exists o, slab_get (r_obufs st) id = Some o /\ ostep o o').

Lemma obs_at_refl id st : obs_at id st st.
Proof. split; [reflexivity |]. intros o' H. exists o'. split; [exact H | constructor]. Qed.

Lemma obs_at_eq id st st' : r_obufs st' = r_obufs st -> obs_at id st st'.
Proof. intros E. unfold obs_at. rewrite E. apply obs_at_refl. Qed.

Lemma obs_at_keep id st st' : keep st' = keep st -> obs_at id st st'.
Proof. intros E. apply obs_at_eq. now apply keep_obufs. Qed.

Lemma obs_at_trans id st1 st2 st3 : obs_at id st1 st2 -> obs_at id st2 st3 -> obs_at id st1 st3.
Proof.
  intros [A1 A2] [B1 B2]. split.
  - intros id' Hne. rewrite B1, A1 by exact Hne. reflexivity.
  - intros o3 H3. apply B2 in H3 as (o2 & H2 & S2). apply A2 in H2 as (o1 & H1 & S1).
    exists o1. split; [exact H1 | eapply os_trans; eauto].
Qed.

Lemma obs_at_put st id o o' :
  slab_get (r_obufs st) id = Some o -> ostep o o' -> obs_at id st (put_obuf st id o').
Proof.
  intros G S. split; rsimpl.
  - intros id' Hne. apply slab_get_put_other. congruence.
  - intros o2 H. rewrite (slab_get_put_occ _ _ _ _ G) in H. inversion H; subst. eauto.
Qed.

Lemma obs_at_ObInv id st st' : obs_at id st st' -> ObInv st -> ObInv st'.
Proof.
  intros [A B] I id' o' H. destruct (N.eq_dec id' id) as [-> | Hne].
  - apply B in H as (o & G & S). eapply ostep_WinInv; eauto.
  - rewrite A in H by exact Hne. eauto.
Qed.

(* ------------------------------------------------------------------ forward_device_data, in three phases *)
Notation fwd := (option cursor * publish * option pprops)%type (only parsing).

(** phase 2: the retained messages, truncated to the slots *)
Definition fdd_retained (st : rstate) (rq : drequest) (slots1 : N)
  : R (rstate * drequest * list pubdata * N) :=
  if dr_fwd_retained rq then
    do (st', rs) <- read_retained st (dr_filter rq);
    let rs' := firstnN slots1 rs in
    Ok (st', set_dr_fwd_retained rq false, rs', slots1 - lenN rs')
  else Ok (st, rq, [], slots1).

(** phase 3: alias / number / push the non-empty list of publishes *)
Definition fdd_push (st1 : rstate) (id : N) (o : outgoing) (conn : connection)
           (sg : option (str * group)) (rq2 : drequest) (publishes : list fwd) (caughtup : bool)
  : R (rstate * drequest * consume_status) :=
  let subid := al_get str_eqb (dr_filter rq2) (c_subids conn) in
  if 2 <? dr_qos rq2 then Panic P_QOS
  else
    let '(bal, forwards) := alias_forwards (c_baliases conn) (dr_qos rq2) subid publishes in
    let conn1 := set_c_baliases conn bal in
    let st2 := put_conn st1 id conn1 in
    let '(o1, notifs) :=
      if dr_qos rq2 =? 0
      then (o, map (fun x : fwd => let '(c, p, pr) := x in NForward c p pr) forwards)
      else number_forwards o (dr_idx rq2) forwards in
    let st3 := put_obuf st2 id o1 in
    do (st4, len) <- push_out st3 (o_link o1) notifs;
    do st5 <-
      (match sg with
       | Some (name, _) =>
           match al_get str_eqb name (r_groups st4) with
           | Some g =>
               do (st', g') <- update_next_client st4 g;
               Ok (set_r_groups st' (al_set str_eqb name (set_g_cursor g' (dr_cursor rq2)) (r_groups st')))
           | None => Ok st4
           end
       | None => Ok st4
       end);
    if MAX_CHANNEL_CAPACITY - 1 <=? len then
      do (st6, _) <- push_out st5 (o_link o1) [NUnschedule];
      Ok (st6, rq2, BufferFull)
    else
      Ok (st5, rq2, if caughtup then FilterCaughtup else PartialRead).

Definition fdd_alt (st : rstate) (id : N) (rq : drequest) : R (rstate * drequest * consume_status) :=
  do o <- get_obuf st id;
  do conn <- (match slab_get (r_conns st) id with Some c => Ok c | None => Panic P_OBUF_INDEX end);
  let sg := match dr_group rq with
            | Some name => match al_get str_eqb name (r_groups st) with
                           | Some g => Some (name, g)
                           | None => None
                           end
            | None => None
            end in
  let rq := match sg with Some (_, g) => set_dr_cursor rq (g_cursor g) | None => rq end in
  do slots0 <-
    (if negb (dr_qos rq =? 0) then free_slots o else Ok (cf_max_outgoing (r_cfg st)));
  if negb (dr_qos rq =? 0) && (slots0 =? 0) then Ok (st, rq, SInflightFull)
  else
    let slots1 := match sg with
                  | Some (_, g) => match g_strategy g with RoundRobin => 1 | _ => slots0 end
                  | None => slots0
                  end in
    do (st1, rq1, retained, slots2) <- fdd_retained st rq slots1;
    do d <- native_get (r_datalog st1) (dr_idx rq1);
    do (pos, from_log) <- readv (d_log d) (dr_cursor rq1) slots2;
    let publishes : list fwd :=
      map (fun x : pubdata => (None, fst x, snd x)) retained
      ++ map (fun x : pubdata * cursor => (Some (snd x), fst (fst x), snd (fst x))) from_log in
    let '(start, next, caughtup) := match pos with
                                    | Next s e => (s, e, false)
                                    | Done s e => (s, e, true)
                                    end in
    let skip := match sg with
                | Some (_, g) => negb (ostr_eqb (Some (o_client o)) (current_client g))
                | None => false
                end in
    if skip then Ok (st1, rq1, if caughtup && match publishes with [] => true | _ => false end
                               then FilterCaughtup else SkipRequest)
    else
      let rq2 := {| dr_filter := dr_filter rq1; dr_idx := dr_idx rq1; dr_qos := dr_qos rq1;
                    dr_cursor := next; dr_read := dr_read rq1 + lenN publishes;
                    dr_fwd_retained := dr_fwd_retained rq1; dr_group := dr_group rq1 |} in
      match publishes with
      | [] => Ok (st1, rq2, FilterCaughtup)
      | _ => fdd_push st1 id o conn sg rq2 publishes caughtup
      end.

Lemma fdd_alt_eq st id rq : forward_device_data st id rq = fdd_alt st id rq.
Proof. reflexivity. Qed.

Lemma lenN_firstnN {X} (l : list X) : forall n, lenN (firstnN n l) <= n.
Proof.
  induction l as [| x r IH]; intros n; cbn [firstnN]; [rewrite lenN_nil; lia |].
  destruct (n =? 0) eqn:E; [rewrite lenN_nil; lia |]. rewrite lenN_cons. specialize (IH (n - 1)). lia.
Qed.

Lemma fdd_retained_spec st rq slots1 st1 rq1 retained slots2 :
  fdd_retained st rq slots1 = Ok (st1, rq1, retained, slots2) ->
  keep st1 = keep st /\ lenN retained + slots2 <= slots1 /\
  dr_qos rq1 = dr_qos rq /\ dr_idx rq1 = dr_idx rq.
Proof.
  unfold fdd_retained. intros H. destruct (dr_fwd_retained rq).
  - apply bind_ok in H as ([st' rs] & H1 & H). cbv zeta in H. inv_ok.
    apply read_retained_keep in H1. pose proof (lenN_firstnN rs slots1).
    repeat split; [exact H1 | lia].
  - inv_ok. rewrite lenN_nil. repeat split. lia.
Qed.

Lemma alias_forwards_spec l : forall bal qos subid bal' fw,
  alias_forwards bal qos subid l = (bal', fw) ->
  lenN fw = lenN l /\ Forall (fun x : fwd => p_qos (snd (fst x)) = qos) fw.
Proof.
  induction l as [| [[c p] pr] r IH]; intros bal qos subid bal' fw H; cbn [alias_forwards] in H.
  - inv_ok. split; [reflexivity | constructor].
  - cbv zeta in H.
    match type of H with (match ?x with _ => _ end) = _ => destruct x as [[bal1 p2] pr1] eqn:E3 end.
    destruct (alias_forwards bal1 qos subid r) as [bal2 r'] eqn:E.
    apply IH in E as [E1 E2].
    inv_ok. rewrite !lenN_cons. split; [lia |]. constructor; [| exact E2]. cbn [fst snd].
    clear - E3. break_hyps; inv_ok; reflexivity.
Qed.

Definition is_fwd0 (n : notification) : Prop := exists c p pr, n = NForward c p pr /\ p_qos p = 0.

(** what one [forward_device_data] does to the three components *)
Definition fwd_delta (st st' : rstate) (id : N) (o o' : outgoing) (notifs tail : list notification) : Prop :=
  r_acks st' = r_acks st /\ lenN (r_links st') = lenN (r_links st) /\
  (forall k, in_of st' k = in_of st k) /\
  r_obufs st' = slab_put (r_obufs st) id o' /\
  (forall k, out_of st' k = out_of st k ++ (if k =? o_link o then notifs ++ tail else [])) /\
  (tail = [] \/ tail = [NUnschedule]).

Definition fwd_kind (o o' : outgoing) (notifs : list notification) : Prop :=
  (o' = o /\ Forall is_fwd0 notifs) \/
  (exists fidx fw, lenN (o_inflight o) + lenN fw <= MAX_INFLIGHT /\
                   Forall (fun x : fwd => p_qos (snd (fst x)) <> 0) fw /\
                   number_forwards o fidx fw = (o', notifs)).

Lemma fwd_delta_nop st st' id o :
  keep st' = keep st -> slab_get (r_obufs st) id = Some o -> fwd_delta st st' id o o [] [].
Proof.
  intros K G. unfold fwd_delta. rewrite (keep_acks _ _ K), (keep_links _ _ K), (keep_obufs _ _ K).
  repeat split.
  - intros k. unfold in_of. now rewrite (keep_links _ _ K).
  - symmetry. now apply slab_put_same.
  - intros k. rewrite (keep_out_of _ _ k K). destruct (k =? o_link o); now rewrite app_nil_r.
  - now left.
Qed.

Lemma fdd_push_spec st1 id o conn sg rq2 publishes caughtup st' rq' cs :
  fdd_push st1 id o conn sg rq2 publishes caughtup = Ok (st', rq', cs) ->
  slab_get (r_obufs st1) id = Some o ->
  (dr_qos rq2 <> 0 -> lenN (o_inflight o) + lenN publishes <= MAX_INFLIGHT) ->
  exists o' notifs tail, fwd_delta st1 st' id o o' notifs tail /\ fwd_kind o o' notifs.
Proof.
  unfold fdd_push. intros H G B. cbv zeta in H.
  destruct (2 <? dr_qos rq2); [discriminate |].
  destruct (alias_forwards (c_baliases conn) (dr_qos rq2) (al_get str_eqb (dr_filter rq2) (c_subids conn)) publishes)
    as [bal forwards] eqn:EA.
  apply alias_forwards_spec in EA as [EA1 EA2].
  match type of H with (match ?x with _ => _ end) = _ => destruct x as [o1 notifs] eqn:E1 end.
  assert (K : fwd_kind o o1 notifs /\ o_link o1 = o_link o).
  { destruct (dr_qos rq2 =? 0) eqn:Q.
    - inv_ok. split; [| reflexivity]. left. split; [reflexivity |].
      apply Forall_forall. intros n Hn. apply in_map_iff in Hn as ([[c p] pr] & <- & Hin).
      rewrite Forall_forall in EA2. specialize (EA2 _ Hin). cbn [fst snd] in EA2.
      exists c, p, pr. split; [reflexivity | lia].
    - split.
      + right. exists (dr_idx rq2), forwards. split; [rewrite EA1; apply B; lia |]. split; [| exact E1].
        eapply Forall_impl; [| exact EA2]. cbv beta. intros x Hx. rewrite Hx. lia.
      + apply number_forwards_spec in E1. tauto. }
  destruct K as [K L]. rewrite L in H.
  apply bind_ok in H as ([st4 len] & H4 & H). apply bind_ok in H as (st5 & H5 & H).
  assert (K5 : keep st5 = keep st4).
  { clear - H5. break_all H5; inv_ok; keeps; try reflexivity. keep_finish. }
  pose proof (push_out_fields _ _ _ _ _ H4) as F4.
  pose proof (fun k => push_out_out _ _ _ _ _ k H4) as O4.
  pose proof (fun k => push_out_in _ _ _ _ _ k H4) as I4.
  pose proof (push_out_nlinks _ _ _ _ _ H4) as N4.
  assert (D5 : fwd_delta st1 st5 id o o1 notifs []).
  { unfold fwd_delta. rewrite (keep_acks _ _ K5), (keep_links _ _ K5), (keep_obufs _ _ K5).
    rewrite F4. rsimpl. repeat split.
    - exact N4.
    - intros k. unfold in_of at 1. rewrite (keep_links _ _ K5). apply I4.
    - intros k. rewrite (keep_out_of _ _ k K5), O4, app_nil_r. unfold out_of at 1 3. rsimpl.
      destruct (k =? o_link o) eqn:E; [assert (k = o_link o) by lia; now subst | now rewrite app_nil_r].
    - now left. }
  destruct (MAX_CHANNEL_CAPACITY - 1 <=? len).
  - apply bind_ok in H as ([st6 len6] & H6 & H). inv_ok. exists o1, notifs, [NUnschedule]. split; [| exact K].
    destruct D5 as (D1 & D2 & D3 & D4 & D5 & _).
    pose proof (push_out_fields _ _ _ _ _ H6) as F6. unfold fwd_delta.
    assert (A6 : r_acks st' = r_acks st5) by (rewrite F6; reflexivity).
    assert (B6 : r_obufs st' = r_obufs st5) by (rewrite F6; reflexivity).
    rewrite A6, B6.
    repeat split; try assumption.
    + rewrite (push_out_nlinks _ _ _ _ _ H6). exact D2.
    + intros k. rewrite <- D3. apply (push_out_in _ _ _ _ _ k H6).
    + intros k. rewrite (push_out_out _ _ _ _ _ k H6), !D5. destruct (k =? o_link o) eqn:E.
      * replace (o_link o =? o_link o) with true by lia. rewrite !app_nil_r, <- app_assoc.
        assert (k = o_link o) by lia. now subst.
      * reflexivity.
    + now right.
  - inv_ok. exists o1, notifs, []. split; assumption.
Qed.

Lemma fwd_delta_pre st st1 st' id o o' notifs tail :
  keep st1 = keep st -> fwd_delta st1 st' id o o' notifs tail -> fwd_delta st st' id o o' notifs tail.
Proof.
  intros K (D1 & D2 & D3 & D4 & D5 & D6). unfold fwd_delta.
  rewrite <- (keep_acks _ _ K), <- (keep_links _ _ K), <- (keep_obufs _ _ K).
  repeat split; try assumption.
  - intros k. rewrite D3. unfold in_of. now rewrite (keep_links _ _ K).
  - intros k. rewrite D5. now rewrite (keep_out_of _ _ k K).
Qed.

Theorem forward_device_data_spec st id rq st' rq' cs :
  forward_device_data st id rq = Ok (st', rq', cs) ->
  exists o, slab_get (r_obufs st) id = Some o /\
    exists o' notifs tail, fwd_delta st st' id o o' notifs tail /\ fwd_kind o o' notifs.
Proof.
  rewrite fdd_alt_eq. unfold fdd_alt, get_obuf. intros H.
  destruct (slab_get (r_obufs st) id) as [o |] eqn:G; [| discriminate]. cbn [bind] in H.
  exists o. split; [reflexivity |].
  destruct (slab_get (r_conns st) id) as [conn |]; [| discriminate]. cbn [bind] in H.
  cbv zeta in H.
  set (sg := match dr_group rq with
             | Some name => match al_get str_eqb name (r_groups st) with
                            | Some g => Some (name, g) | None => None end
             | None => None end) in *.
  set (rq0 := match sg with Some (_, g) => set_dr_cursor rq (g_cursor g) | None => rq end) in *.
  apply bind_ok in H as (slots0 & HS & H).
  assert (NOP : exists o' notifs tail, fwd_delta st st id o o' notifs tail /\ fwd_kind o o' notifs).
  { exists o, [], []. split; [now apply fwd_delta_nop | left; split; [reflexivity | constructor]]. }
  destruct (negb (dr_qos rq0 =? 0) && (slots0 =? 0)) eqn:EF; [inv_ok; exact NOP |].
  apply bind_ok in H as ([[[st1 rq1] retained] slots2] & HR & H).
  apply fdd_retained_spec in HR as (K1 & LR & Q1 & I1).
  apply bind_ok in H as (d & _ & H). apply bind_ok in H as ([pos from_log] & HV & H).
  apply readv_len in HV.
  assert (NOP1 : exists o' notifs tail, fwd_delta st st1 id o o' notifs tail /\ fwd_kind o o' notifs).
  { exists o, [], []. split; [now apply fwd_delta_nop | left; split; [reflexivity | constructor]]. }
  destruct (match pos with Next s e => (s, e, false) | Done s e => (s, e, true) end) as [[start next] caughtup].
  match type of H with (if ?b then _ else _) = _ => destruct b end; [inv_ok; exact NOP1 |].
  match type of H with match ?l with [] => _ | _ => _ end = _ => remember l as publishes eqn:EP end.
  assert (LP : lenN publishes = lenN retained + lenN from_log).
  { subst publishes. now rewrite lenN_app, !lenN_map. }
  assert (G1 : slab_get (r_obufs st1) id = Some o) by (now rewrite (keep_obufs _ _ K1)).
  assert (HP : fdd_push st1 id o conn sg
                 {| dr_filter := dr_filter rq1; dr_idx := dr_idx rq1; dr_qos := dr_qos rq1;
                    dr_cursor := next; dr_read := dr_read rq1 + lenN publishes;
                    dr_fwd_retained := dr_fwd_retained rq1; dr_group := dr_group rq1 |}
                 publishes caughtup = Ok (st', rq', cs) \/ (st' = st1)).
  { destruct publishes; [right; now inv_ok | left; exact H]. }
  destruct HP as [HP | ->]; [| exact NOP1].
  apply fdd_push_spec in HP; [| exact G1 |].
  - destruct HP as (o' & notifs & tail & D & KK). exists o', notifs, tail. split; [| exact KK].
    eapply fwd_delta_pre; eauto.
  - cbn [dr_qos]. rewrite Q1. intros Hq.
    replace (negb (dr_qos rq0 =? 0)) with true in * by lia.
    apply free_slots_spec in HS. cbn [andb] in EF.
    assert (lenN publishes <= slots0); [| lia].
    rewrite LP. destruct sg as [[nm g] |]; [destruct (g_strategy g) |]; lia.
Qed.
