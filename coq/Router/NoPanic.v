(** RInv holds initially, is preserved by every op, and excludes every panic of the routing
    core except the commit log's u64 overflow tag (and, in the dev profile, the
    check_tracker_duplicates debug_assert tag, which needs a stronger invariant). *)
From Rumqtt Require Import Router.NoPanicLog.
From Rumqtt Require Import Router.Model Router.Inv Router.InvLemmasPrim Router.InvLemmasSched Router.InvLemmasDl
  Router.InvLemmasRoute Router.InvLemmasConn Router.InvLemmasPkt Router.InvLemmasConsume.
From Rumqtt Require Import Router.Model Router.RunDefs.
From Coq Require Import Arith ZifyBool ZifyN ZifyNat.

(* ------------------------------------------------------------------ last will / shadow *)
Lemma handle_last_will_spec cfg st client :
  RInvC cfg st -> r_notif st = [] ->
  wp cfg (handle_last_will st client) (fun st' => RInvC cfg st' /\ r_notif st' = []).
Proof.
  intros HI Hn. unfold handle_last_will.
  destruct (al_get str_eqb client (r_wills st)) as [w|]; [|cbn [wp]; auto].
  cbv zeta.
  set (st1 := set_r_wills st (al_remove str_eqb client (r_wills st))).
  assert (HI1 : RInvC cfg st1) by (apply RInv_set_wills; exact HI).
  match goal with |- wp _ (if ?b then _ else _) _ => destruct b end; [cbn [wp]; auto|].
  match goal with |- wp _ (if ?b then _ else _) _ => destruct b end; [cbn [wp]; auto|].
  match goal with |- context [retain_update st1 ?t ?p ?pr] =>
    destruct (retain_update_spec cfg st1 t p pr HI1) as [HI2 F2] end.
  apply wp_bind. wp_use dl_matches_spec; [exact HI2|]. intros [st3 idxs] (HI3 & F3 & Hidx). cbn [fst snd] in *.
  apply wp_bind. wp_use append_all_spec; [exact HI3|exact Hidx|]. intros st4 (HI4 & _).
  wp_use drain_notifications_spec; [exact HI4|]. intros st5 (HI5 & _ & N5). auto.
Qed.

Lemma retrieve_shadow_spec cfg st id f :
  RInvC cfg st -> r_notif st = [] ->
  wp cfg (retrieve_shadow st id f) (fun st' => RInvC cfg st' /\ r_notif st' = []).
Proof.
  intros HI Hn. unfold retrieve_shadow.
  destruct (slab_get (r_obufs st) id) as [o|] eqn:Hob; [|cbn [wp]; auto].
  destruct (al_get str_eqb f (dl_findex (r_datalog st))) as [idx|]; [|cbn [wp]; auto].
  destruct (slab_get (dl_native (r_datalog st)) idx) as [d|] eqn:Hd; [|cbn [wp]; auto].
  assert (Hdok : data_ok (lives st) (nlen st) d).
  { unfold slab_get in Hd. destruct (nthN (sl_items (dl_native (r_datalog st))) idx) as [[d'|]|] eqn:E; try discriminate.
    inversion Hd; subst. exact (Forall_nthN _ _ _ _ (dk_items _ _ (ri_dl _ _ HI)) E). }
  destruct Hdok as [[all [Hwfs _]] _].
  destruct (lw_active pubdata_size _ _ Hwfs) as [a Ha]. rewrite Ha. cbn [bind].
  destruct (last_opt (s_data a)) as [[p pr]|]; [|cbn [wp]; auto].
  pose proof (ri_obuf _ _ HI _ _ Hob) as [Hlk _].
  destruct (push_out_eq st (o_link o) [NShadow (p_topic p) (p_payload p)] Hlk) as (b & Hb & Hp). rewrite Hp. cbn [bind].
  match goal with |- context [link_put st ?k ?bb] => set (st1 := link_put st k bb) end.
  assert (HI1 : RInvC cfg st1).
  { apply RInv_link_put; [exact HI|]. cbn [set_lk_out lk_in].
    exact (Forall_nthN (fun b => Forall packet_wf (lk_in b)) _ _ _ (ri_pkts _ _ HI) Hb). }
  match goal with |- wp _ (if ?c then _ else _) _ => destruct c end; [|cbn [wp]; auto].
  assert (Hlk1 : o_link o < lenN (r_links st1)).
  { unfold st1, link_put. cbn [r_links set_r_links]. rewrite lenN_setN. exact Hlk. }
  destruct (push_out_eq st1 (o_link o) [NUnschedule] Hlk1) as (b1 & Hb1 & Hp1). rewrite Hp1. cbn [bind wp].
  split; [|exact Hn].
  apply RInv_link_put; [exact HI1|]. cbn [set_lk_out lk_in].
  exact (Forall_nthN (fun b => Forall packet_wf (lk_in b)) _ _ _ (ri_pkts _ _ HI1) Hb1).
Qed.

(* ------------------------------------------------------------------ init *)
Lemma init_datalog_go cfg : cfg_ok cfg -> forall fs dl,
  dl_ok [] dl ->
  exists dl',
    (fix go (fs : list str) (dl : datalog) {struct fs} : R datalog :=
       match fs with
       | [] => Ok dl
       | f :: r =>
           do d <- data_new cfg f;
           let '(native', idx) := slab_insert (dl_native dl) d in
           go r {| dl_native := native'; dl_findex := al_set str_eqb f idx (dl_findex dl);
                   dl_retained := []; dl_pfilters := [] |}
       end) fs dl = Ok dl' /\ dl_ok [] dl'.
Proof.
  intros Hcfg. induction fs as [|f fs IH]; intros dl Hdl; [eauto|].
  destruct (data_new_ok cfg f Hcfg) as (d & Hd & Hdok). rewrite Hd. cbn [bind].
  unfold slab_insert. rewrite (dk_free _ _ Hdl).
  set (n := lenN (sl_items (dl_native dl))).
  apply IH.
  assert (Hlen : forall x y z, dlen {| dl_native := {| sl_items := sl_items (dl_native dl) ++ [Some d]; sl_free := [] |};
                                     dl_findex := x; dl_retained := y; dl_pfilters := z |} = n + 1).
  { intros. unfold dlen. cbn [dl_native sl_items]. rewrite lenN_app'. reflexivity. }
  constructor; rewrite ?Hlen; cbn [dl_native sl_free sl_items dl_findex dl_pfilters]; auto.
  - apply Forall_app. split.
    + eapply dl_ok_items_mono; [|apply (dk_items _ _ Hdl)]. unfold dlen. fold n. lia.
    + constructor; [|constructor]. apply Hdok.
  - apply (Forall_al_set str_eqb (fun i => i < n + 1)); [|lia].
    generalize (dk_findex _ _ Hdl). apply Forall_impl. intros a. unfold dlen. fold n. lia.
Qed.

Lemma init_spec cfg :
  cfg_ok cfg -> exists st0, init cfg = Ok st0 /\ RInvC cfg st0 /\ r_notif st0 = [] /\ r_cfg st0 = cfg.
Proof.
  intros Hcfg. unfold init, init_datalog.
  destruct (init_datalog_go cfg Hcfg (cf_init_filters cfg)
              {| dl_native := slab_empty; dl_findex := []; dl_retained := []; dl_pfilters := [] |}) as (dl & Hgo & Hdl).
  { constructor; cbn; constructor. }
  cbv zeta. rewrite Hgo. cbn [bind]. eexists. split; [reflexivity|]. split; [|split; reflexivity].
  assert (Hal : forall A B, aligned (@slab_empty A) (@slab_empty B)) by (intros; split; reflexivity).
  assert (Hnone : forall A k, slab_get (@slab_empty A) k = None).
  { intros. unfold slab_get, slab_empty. cbn. reflexivity. }
  constructor; rsimp; auto; try (intros; rewrite Hnone in *; discriminate).
  - split; cbn; [constructor|intros k []].
  - unfold slab_len, slab_empty. cbn. lia.
Qed.

(* ------------------------------------------------------------------ step *)
Lemma RInv_links_app cfg st b :
  RInvC cfg st -> Forall packet_wf (lk_in b) -> RInvC cfg (set_r_links st (r_links st ++ [b])).
Proof.
  intros [] Hb. constructor; rsimp; rewrite ?lenN_app'; auto.
  - intros k i Hi. specialize (ri_ilink _ _ Hi). lia.
  - intros k o Ho. specialize (ri_obuf _ _ Ho). lia.
  - apply Forall_app. split; [assumption|]. constructor; [exact Hb|constructor].
Qed.

Lemma step_spec cfg st o :
  RInvC cfg st -> r_notif st = [] -> op_wf o ->
  wp cfg (step st o) (fun r => RInvC cfg (fst r) /\ r_notif (fst r) = []).
Proof.
  intros HI Hn Hwf. destruct o as [c | k pk | id | | k | id | id | id f | c |]; cbn [step].
  - cbv zeta. apply wp_bind.
    wp_use handle_new_connection_spec.
    + apply RInv_links_app; [exact HI|constructor].
    + exact Hn.
    + cbn [r_links set_r_links]. rewrite lenN_app'. unfold lenN. cbn. lia.
    + intros st2 [H1 H2]. cbn [wp fst]. auto.
  - destruct (nthN (r_links st) k) as [b|] eqn:Hb; cbn [wp fst]; [|auto].
    split; [|exact Hn]. apply RInv_link_put; [exact HI|]. cbn [set_lk_in lk_in].
    apply Forall_app. split; [|constructor; [exact Hwf|constructor]].
    exact (Forall_nthN (fun b => Forall packet_wf (lk_in b)) _ _ _ (ri_pkts _ _ HI) Hb).
  - apply wp_bind. wp_use handle_device_payload_spec; [exact HI|exact Hn|]. intros st1 H1. cbn [wp fst]. exact H1.
  - apply wp_bind. wp_use consume_spec; [exact HI|exact Hn|]. intros [st1 b] H1. cbn [wp fst] in *. exact H1.
  - destruct (nthN (r_links st) k) as [b|] eqn:Hb; cbn [wp fst]; [|auto].
    split; [|exact Hn]. apply RInv_link_put; [exact HI|]. cbn [set_lk_out lk_in].
    exact (Forall_nthN (fun b => Forall packet_wf (lk_in b)) _ _ _ (ri_pkts _ _ HI) Hb).
  - destruct (slab_get (r_trackers st) id) as [t|] eqn:Ht; [|cbn [wp fst]; auto].
    destruct (RInv_trk_live _ _ _ _ HI Ht) as [c Hc].
    apply wp_bind. wp_use reschedule_spec; [exact HI|eapply get_occ; exact Hc|discriminate|].
    intros st1 (H1 & _ & N1). cbn [wp fst]. split; [exact H1|congruence].
  - apply wp_bind. wp_use handle_disconnection_spec; [exact HI|exact Hn|]. intros st1 (H1 & H2 & _). cbn [wp fst]. auto.
  - apply wp_bind. wp_use retrieve_shadow_spec; [exact HI|exact Hn|]. intros st1 H1. cbn [wp fst]. exact H1.
  - apply wp_bind. wp_use handle_last_will_spec; [exact HI|exact Hn|]. intros st1 H1. cbn [wp fst]. exact H1.
  - cbn [wp fst]. auto.
Qed.

Lemma step_with_spec cfg st orc o :
  RInvC cfg st -> r_notif st = [] -> op_wf o ->
  wp cfg (step_with st orc o) (fun r => RInvC cfg (fst r) /\ r_notif (fst r) = []).
Proof.
  intros HI Hn Hwf. unfold step_with. apply wp_bind.
  wp_use step_spec; [apply RInv_set_oracle; exact HI|exact Hn|exact Hwf|].
  intros [st1 out] H1. cbn [fst] in H1. destruct (r_oracle st1); cbn [wp fst]; auto.
Qed.

(* ------------------------------------------------------------------ top-level statements *)
Theorem rinv_init cfg st0 : cfg_ok cfg -> init cfg = Ok st0 -> RInv st0.
Proof.
  intros Hcfg Hi. destruct (init_spec cfg Hcfg) as (st0' & Hi' & H1 & H2 & H3).
  rewrite Hi in Hi'. inversion Hi'; subst st0'. split; [rewrite H3; exact H1|exact H2].
Qed.

Theorem init_total cfg : cfg_ok cfg -> exists st0, init cfg = Ok st0.
Proof. intros Hcfg. destruct (init_spec cfg Hcfg) as (st0 & Hi & _). eauto. Qed.

Theorem rinv_step st orc o st' out :
  RInv st -> op_wf o -> step_with st orc o = Ok (st', out) -> RInv st' /\ r_cfg st' = r_cfg st.
Proof.
  intros [HI Hn] Hwf Hs. pose proof (step_with_spec _ st orc o HI Hn Hwf) as H. rewrite Hs in H.
  cbn [wp fst] in H. destruct H as [H1 H2]. pose proof (ri_cfg _ _ H1) as Hc.
  split; [|exact Hc]. split; [rewrite Hc; exact H1|exact H2].
Qed.

(** which panics RInv leaves possible *)
Theorem rinv_panic st orc o t :
  RInv st -> op_wf o -> step_with st orc o = Panic t ->
  t = P_ADD \/ (cf_debug_assertions (r_cfg st) = true /\ t = P_DBG_DUP).
Proof.
  intros [HI Hn] Hwf Hs. pose proof (step_with_spec _ st orc o HI Hn Hwf) as H. rewrite Hs in H. exact H.
Qed.

Theorem no_panic_release st orc o t :
  RInv st -> op_wf o -> cf_debug_assertions (r_cfg st) = false ->
  step_with st orc o = Panic t -> t = P_ADD.
Proof.
  intros HI Hwf Hrel Hs. destruct (rinv_panic _ _ _ _ HI Hwf Hs) as [H | [H _]]; [exact H|congruence].
Qed.

Definition ops_wf (ops : list (list oracle * rop)) : Prop := Forall (fun x => op_wf (snd x)) ops.

Theorem rinv_run : forall ops st st',
  RInv st -> ops_wf ops -> run st ops = Ok st' -> RInv st' /\ r_cfg st' = r_cfg st.
Proof.
  induction ops as [|[orc o] ops IH]; intros st st' HI Hwf Hr; cbn [run] in Hr.
  - inversion Hr; subst. auto.
  - inversion Hwf as [|? ? Hw1 Hw']; subst. cbn [snd] in Hw1.
    destruct (step_with st orc o) as [[st1 out]|e|t] eqn:Es; try discriminate.
    destruct (rinv_step _ _ _ _ _ HI Hw1 Es) as [HI1 Hc1].
    destruct (IH _ _ HI1 Hw' Hr) as [HI' Hc']. split; [exact HI'|congruence].
Qed.

Theorem rinv_reachable cfg st0 ops st :
  cfg_ok cfg -> init cfg = Ok st0 -> ops_wf ops -> run st0 ops = Ok st -> RInv st.
Proof.
  intros Hcfg Hi Hwf Hr. eapply rinv_run; [eapply rinv_init; eauto|exact Hwf|exact Hr].
Qed.

Theorem no_panic_release_run : forall ops st t,
  RInv st -> cf_debug_assertions (r_cfg st) = false -> ops_wf ops -> run st ops = Panic t -> t = P_ADD.
Proof.
  induction ops as [|[orc o] ops IH]; intros st t HI Hrel Hwf Hr; cbn [run] in Hr; [discriminate|].
  inversion Hwf as [|? ? Hw1 Hw']; subst. cbn [snd] in Hw1.
  destruct (step_with st orc o) as [[st1 out]|e|t1] eqn:Es; try discriminate.
  - destruct (rinv_step _ _ _ _ _ HI Hw1 Es) as [HI1 Hc1]. eapply IH; eauto. congruence.
  - inversion Hr; subst. eapply no_panic_release; eauto.
Qed.

Theorem no_panic_release_from_init cfg st0 ops t :
  cfg_ok cfg -> cf_debug_assertions cfg = false -> init cfg = Ok st0 -> ops_wf ops ->
  run st0 ops = Panic t -> t = P_ADD.
Proof.
  intros Hcfg Hrel Hi Hwf Hr. destruct (init_spec cfg Hcfg) as (st0' & Hi' & H1 & H2 & H3).
  rewrite Hi in Hi'. inversion Hi'; subst st0'.
  eapply no_panic_release_run; [eapply rinv_init; eauto|congruence|exact Hwf|exact Hr].
Qed.
