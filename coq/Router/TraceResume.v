(** C08 at the level of whole runs — across connection epochs.

    The delivery trace (TraceRun.v) marks the end of an epoch and the start of the next one:
    [KEnd cl r w] under the OLD key (L1, f, i) when the connection of client [cl] with
    clean_session = false is removed (r = the offset of the saved, rewound cursor: the RESUME
    POINT; w = the offsets of the window entries of log i at that moment), and [KRes cl c0]
    under the NEW key (L2, f, i) when a later Connect of [cl] restores the session (c0 = the
    offset of the cursor the request starts with).
    This file: the pairing invariant — every [KRes cl c0] is preceded in the trace by a
    [KEnd cl c0 _] for the same (f, i), with no other end/resume marker of that client and (f, i)
    in between: the request resumes EXACTLY at the point saved by the client's most recent
    disconnection ([run_resume_point]). *)
From Rumqtt Require Import Router.NoPanicLog.
From Rumqtt Require Import Router.Model Router.InvLemmasBase Router.Inv Router.InvLemmasPrim Router.InvLemmasSched
  Router.InvLemmasDl Router.InvLemmasRoute Router.InvLemmasConn Router.InvLemmasPkt Router.InvLemmasConsume
  Router.NoPanic Router.NoPanicDevBase Router.NoPanicDevInv Router.NoPanicDev1 Router.NoPanicDev2 Router.NoPanicDev3 Router.NoPanicDev4.
From Rumqtt Require Import Router.ExactLoc1 Router.ExactLoc2 Router.ExactLoc3.
From Rumqtt Require Import Log.Proofs Router.ExactLog Topic.Proofs.
From Rumqtt Require Import Router.WindowFrame Router.Window Router.WindowStep Router.DataLogInv Router.DataLogStep
                           Router.ExactInv Router.ExactStep1 Router.ExactStep2 Router.ExactStep3 Router.ExactLogs
                           Router.ExactSweep Router.ExactThm.
From Rumqtt Require Router.Session Router.SessionInv Router.SessionIds Router.IsolationInv.
From Rumqtt Require Import Router.TraceRun Router.TraceRunHeld Router.TraceRunInv Router.TraceRunPkt Router.TraceRunSweep
                           Router.TraceRunStep Router.TraceRunThm.
From Rumqtt Require Import Router.Model Router.RunDefs.
From Coq Require Import List ZifyBool ZifyN ZifyNat.
Import ListNotations.

(* ------------------------------------------------------------------ markers *)
(** an end or resume marker of client [cl] for (filter f, log i) *)
Definition ev_mark (cl f : str) (i : N) (ev : dev) : bool :=
  match ev with
  | (_, (_, f', i'), KEnd cl' _ _) => str_eqb cl cl' && str_eqb f f' && (i =? i')
  | (_, (_, f', i'), KRes cl' _) => str_eqb cl cl' && str_eqb f f' && (i =? i')
  | _ => false
  end.
Definition quiet (cl f : str) (i : N) (l : list dev) : Prop := forallb (fun ev => negb (ev_mark cl f i ev)) l = true.
Definition is_mark (ev : dev) : bool := is_end (snd ev) || is_res (snd ev).
Definition no_mark (l : list dev) : Prop := forallb (fun ev => negb (is_mark ev)) l = true.
Definition no_res (l : list dev) : Prop := forallb (fun ev : dev => negb (is_res (snd ev))) l = true.

Lemma quiet_app cl f i a b : quiet cl f i a -> quiet cl f i b -> quiet cl f i (a ++ b).
Proof. unfold quiet. intros Ha Hb. now rewrite forallb_app, Ha, Hb. Qed.
Lemma quiet_nil cl f i : quiet cl f i [].
Proof. reflexivity. Qed.
Lemma no_mark_quiet cl f i l : no_mark l -> quiet cl f i l.
Proof.
  unfold no_mark, quiet. rewrite !forallb_forall. intros H ev Hin. specialize (H ev Hin).
  destruct ev as [[id [[k f'] i']] a]. unfold is_mark in H. cbn [snd] in H. destruct a; cbn in *; try reflexivity; discriminate.
Qed.
Lemma no_mark_no_res l : no_mark l -> no_res l.
Proof.
  unfold no_mark, no_res. rewrite !forallb_forall. intros H ev Hin. specialize (H ev Hin). unfold is_mark in H.
  destruct (is_res (snd ev)); [rewrite orb_true_r in H; discriminate|reflexivity].
Qed.
Lemma no_mark_app a b : no_mark a -> no_mark b -> no_mark (a ++ b).
Proof. unfold no_mark. intros Ha Hb. now rewrite forallb_app, Ha, Hb. Qed.
Lemma no_res_app a b : no_res a -> no_res b -> no_res (a ++ b).
Proof. unfold no_res. intros Ha Hb. now rewrite forallb_app, Ha, Hb. Qed.

(** an element found in [l ++ evs] that cannot be in [evs] is in [l], at the same place *)
Lemma split_in_left {X} (P : X -> bool) : forall (l evs t1 : list X) x t2,
  l ++ evs = t1 ++ x :: t2 -> P x = true -> forallb (fun y => negb (P y)) evs = true ->
  exists t2', l = t1 ++ x :: t2' /\ t2 = t2' ++ evs.
Proof.
  induction l as [|y l IH]; intros evs t1 x t2 E Hx Hn.
  - cbn [app] in E. exfalso. rewrite forallb_forall in Hn. assert (Hin : In x evs) by (rewrite E; apply in_or_app; right; now left).
    specialize (Hn _ Hin). rewrite Hx in Hn. discriminate.
  - destruct t1 as [|z t1]; cbn [app] in E; inversion E; subst.
    + exists l. split; reflexivity.
    + destruct (IH _ _ _ _ H1 Hx Hn) as (t2' & -> & ->). exists t2'. split; reflexivity.
Qed.

(* ------------------------------------------------------------------ sweeps and SUBSCRIBEs emit no marker *)
Lemma fdd_ghost_nomark st id rq st' cs : no_mark (fdd_ghost st id rq st' cs).
Proof.
  unfold no_mark, fdd_ghost. destruct (dr_group rq); [reflexivity|]. destruct (slab_get (r_obufs st) id) as [o|]; [|reflexivity].
  assert (X : forallb (fun ev => negb (is_mark ev))
     ((match nget (r_datalog st) (dr_idx rq) with
       | Some d => if stale (d_log d) (dr_cursor rq)
                   then [(id, (o_link o, dr_filter rq, dr_idx rq), KJump (snd (dr_cursor rq)) (base_of (d_log d)))] else []
       | None => [] end) ++
      map (fun x : N * publish => (id, (o_link o, dr_filter rq, dr_idx rq), KFwd (fst x) (snd x)))
          (log_fwds (skipn (length (out_of st (o_link o))) (out_of st' (o_link o))))) = true).
  { rewrite forallb_app. apply andb_true_iff. split.
    - destruct (nget (r_datalog st) (dr_idx rq)) as [d|]; [|reflexivity]. destruct (stale (d_log d) (dr_cursor rq)); reflexivity.
    - apply forallb_forall. intros x Hx. apply in_map_iff in Hx as (y & <- & _). reflexivity. }
  destruct cs; try exact X. reflexivity.
Qed.

Lemma consume_loop_nomark id : forall fuel st requests skipped st' evs,
  consume_loop_d fuel st id requests skipped = Ok (st', evs) -> no_mark evs.
Proof.
  induction fuel as [|fuel IH]; cbn [consume_loop_d]; intros st requests skipped st' evs H.
  - apply bind_ok in H as (s & _ & H). inv_ok. reflexivity.
  - destruct requests as [|rq rest].
    + apply bind_ok in H as (st1 & _ & H). apply bind_ok in H as (s & _ & H). inv_ok. reflexivity.
    + apply bind_ok in H as ([[st1 rq'] status] & H1 & H). pose proof (fdd_ghost_nomark st id rq st1 status) as N1.
      destruct status.
      * apply bind_ok in H as (st2 & _ & H). apply bind_ok in H as (s & _ & H). inv_ok. exact N1.
      * apply bind_ok in H as (st2 & _ & H). apply bind_ok in H as (s & _ & H). inv_ok. exact N1.
      * apply bind_ok in H as (st2 & _ & H). apply bind_ok in H as ([s evs2] & H3 & H). inv_ok. apply no_mark_app; [exact N1|eapply IH; exact H3].
      * apply bind_ok in H as ([s evs2] & H3 & H). inv_ok. apply no_mark_app; [exact N1|eapply IH; exact H3].
      * apply bind_ok in H as ([s evs2] & H3 & H). inv_ok. apply no_mark_app; [exact N1|eapply IH; exact H3].
Qed.

Lemma consume_nomark st st' b evs : consume_d st = Ok (st', b, evs) -> no_mark evs.
Proof.
  unfold consume_d. intros H. destruct (r_ready st) as [|id rq]; [inv_ok; reflexivity|]. cbv zeta in H.
  destruct (slab_get (r_trackers (set_r_ready st rq)) id) as [t|]; [|inv_ok; reflexivity].
  match type of H with context [slab_get (r_obufs ?s) id] => destruct (slab_get (r_obufs s) id) as [o|] end; [|inv_ok; reflexivity].
  apply bind_ok in H as (st3 & _ & H). apply bind_ok in H as (u & _ & H). apply bind_ok in H as ([st4 evs4] & H4 & H). inv_ok.
  eapply consume_loop_nomark; exact H4.
Qed.

Lemma pf_ghost_nomark st id cu fidx path grp : no_mark (pf_ghost st id cu fidx path grp).
Proof.
  unfold no_mark, pf_ghost. destruct grp; [reflexivity|]. destruct (slab_get (r_conns st) id); [|reflexivity].
  destruct (slab_get (r_obufs st) id); [|reflexivity]. destruct (set_mem str_eqb path (c_subs c)); reflexivity.
Qed.

Lemma subscribe_filters_nomark id subid : forall fs st fl codes st' fl' codes' evs,
  subscribe_filters_d st id fs subid fl codes = Ok (st', fl', codes', evs) -> no_mark evs.
Proof.
  induction fs as [|[path qos] r IH]; intros st fl codes st' fl' codes' evs H; cbn [subscribe_filters_d] in H; [inv_ok; reflexivity|].
  destruct (negb (validate_subscription path)); [inv_ok; reflexivity|].
  destruct (match extract_group path with Some (g, p) => (Some g, p) | None => (None, path) end) as [grp filter].
  destruct (match subid with Some 0 => true | _ => false end); [inv_ok; reflexivity|].
  apply bind_ok in H as ([[st1 idx] cu] & H1 & H). apply bind_ok in H as (st2 & H2 & H).
  apply bind_ok in H as ([[[st3 fl3] codes3] evs3] & H3 & H).
  assert (E : evs = pf_ghost st1 id cu idx path grp ++ evs3) by (now inv_ok). rewrite E.
  apply no_mark_app; [apply pf_ghost_nomark|eapply IH; exact H3].
Qed.

Lemma handle_packet_nomark st id client pk fl st' fl' brk evs :
  handle_packet_d st id client pk fl = Ok (st', fl', brk, evs) -> no_mark evs.
Proof.
  destruct pk; unfold handle_packet_d; intros H;
    try (apply bind_ok in H as ([[s1 f1] b1] & _ & H); inv_ok; reflexivity).
  apply bind_ok in H as ([[[st1 fl1] codes] evs1] & H1 & H). apply bind_ok in H as (st2 & H2 & H). inv_ok.
  eapply subscribe_filters_nomark; exact H1.
Qed.

Lemma handle_packets_nomark id client : forall pks st fl st' fl' evs,
  handle_packets_d st id client pks fl = Ok (st', fl', evs) -> no_mark evs.
Proof.
  induction pks as [|pk r IH]; intros st fl st' fl' evs H; cbn [handle_packets_d] in H; [inv_ok; reflexivity|].
  apply bind_ok in H as ([[[st1 fl1] brk] evs1] & H1 & H). pose proof (handle_packet_nomark _ _ _ _ _ _ _ _ _ H1) as N1.
  destruct brk; [inv_ok; exact N1|]. apply bind_ok in H as ([[st2 fl2] evs2] & H2 & H). inv_ok.
  apply no_mark_app; [exact N1|eapply IH; exact H2].
Qed.

(* ------------------------------------------------------------------ the invariant *)
(** every saved session's non-shared request has its end marker, the latest one of that client
    for that (filter, log), with the offset of the saved cursor *)
Definition GI (st : rstate) (tr : list dev) : Prop :=
  forall cl ss, al_get str_eqb cl (r_graveyard st) = Some (Some ss) ->
  forall rq, In rq (tr_reqs (ss_tracker ss)) -> dr_group rq = None ->
  exists id1 L1 w ta tb,
    tr = ta ++ (id1, (L1, dr_filter rq, dr_idx rq), KEnd cl (snd (dr_cursor rq)) w) :: tb /\
    quiet cl (dr_filter rq) (dr_idx rq) tb.

(** every resume marker is preceded by the matching end marker *)
Definition PI (tr : list dev) : Prop :=
  forall tr1 id2 L2 f i cl c0 tr2, tr = tr1 ++ (id2, (L2, f, i), KRes cl c0) :: tr2 ->
  exists id1 L1 w ta tb,
    tr1 = ta ++ (id1, (L1, f, i), KEnd cl c0 w) :: tb /\ quiet cl f i tb /\ L1 < L2.

Lemma pi_app tr evs : no_res evs -> PI tr -> PI (tr ++ evs).
Proof.
  intros Hn HP tr1 id2 L2 f i cl c0 tr2 E.
  destruct (split_in_left (fun ev : dev => is_res (snd ev)) _ _ _ _ _ E eq_refl Hn) as (t2' & E' & _).
  eapply HP; exact E'.
Qed.

Lemma gi_frame st st' tr evs :
  r_graveyard st' = r_graveyard st -> no_mark evs -> GI st tr -> GI st' (tr ++ evs).
Proof.
  intros EG Hn HG cl ss Hs rq Hrq Hg. rewrite EG in Hs.
  destruct (HG cl ss Hs rq Hrq Hg) as (id1 & L1 & w & ta & tb & -> & Hq).
  exists id1, L1, w, ta, (tb ++ evs). split; [now rewrite <- app_assoc|]. apply quiet_app; [exact Hq|now apply no_mark_quiet].
Qed.

(* ------------------------------------------------------------------ a connection is removed *)
Lemma in_split_unique f (l : list drequest) rq :
  In rq l -> (cnt f l <= 1)%nat -> dr_filter rq = f ->
  exists la lb, l = la ++ rq :: lb /\ (forall r, In r lb -> dr_filter r <> f).
Proof.
  intros Hin Hc Hf. destruct (in_split _ _ Hin) as (la & lb & ->). exists la, lb. split; [reflexivity|].
  intros r Hr Er. rewrite cnt_app, cnt_cons in Hc. unfold fmatch in Hc. rewrite Hf, str_eqb_refl in Hc.
  pose proof (cnt_in _ _ Hr) as X. rewrite Er in X. lia.
Qed.

Lemma str_eqb_false a b : a <> b -> str_eqb a b = false.
Proof. intros H. destruct (str_eqb a b) eqn:E; [|reflexivity]. apply str_eqb_eq in E. contradiction. Qed.

Definition mkend (id k : N) (cl : str) (infl : list (N * N * option cursor)) (rq : drequest) : dev :=
  (id, (k, dr_filter rq, dr_idx rq), KEnd cl (snd (dr_cursor rq)) (wnd_offs infl (dr_idx rq))).

Lemma disc_ghost_live st id st' o t c :
  slab_get (r_obufs st) id = Some o -> slab_get (r_trackers st) id = Some t -> slab_get (r_conns st) id = Some c ->
  disc_ghost st id st' =
    if c_clean c then []
    else match al_get str_eqb (tr_id t) (r_graveyard st') with
         | Some (Some ss) => map (mkend id (o_link o) (tr_id t) (o_inflight o)) (filter unshared_b (tr_reqs (ss_tracker ss)))
         | _ => []
         end.
Proof. intros Ho Ht Hc. unfold disc_ghost. rewrite Ho, Ht, Hc. reflexivity. Qed.

Lemma disc_ghost_nores st id st' : no_res (disc_ghost st id st').
Proof.
  pose proof (disc_ghost_ends st id st') as H. unfold no_res. rewrite forallb_forall in *. intros ev Hin. specialize (H ev Hin).
  destruct (snd ev); try discriminate; reflexivity.
Qed.

(** a live connection has all five entries: [handle_disconnection] would panic otherwise *)
Lemma hdisc_live st id reason st' o :
  handle_disconnection st id reason = Ok st' -> slab_get (r_obufs st) id = Some o ->
  exists t c, slab_get (r_trackers st) id = Some t /\ slab_get (r_conns st) id = Some c.
Proof.
  intros H Ho. unfold handle_disconnection in H. rewrite Ho in H. apply bind_ok in H as (st0 & H0 & H).
  assert (E0 : r_trackers st0 = r_trackers st /\ r_conns st0 = r_conns st).
  { destruct reason; [|inv_ok; auto]. apply bind_ok in H0 as ([s l] & H0 & H1). inv_ok. apply push_out_fields in H0. rewrite H0. auto. }
  destruct E0 as [E1 E2]. rewrite E1, E2 in H. unfold slab_remove in H.
  destruct (slab_get (r_conns st) id) as [c|]; [|discriminate].
  destruct (slab_get (r_ibufs st0) id); [|discriminate]. destruct (slab_get (r_obufs st0) id); [|discriminate].
  destruct (slab_get (r_trackers st) id) as [t|]; [|discriminate]. eauto.
Qed.

Lemma disc_ri st id reason st' tr :
  DevEI st' -> GI st tr -> PI tr -> handle_disconnection st id reason = Ok st' ->
  GI st' (tr ++ disc_ghost st id st') /\ PI (tr ++ disc_ghost st id st').
Proof.
  intros HD HG HP H. split; [|apply pi_app; [apply disc_ghost_nores|exact HP]].
  destruct (slab_get (r_obufs st) id) as [o|] eqn:Ho.
  2:{ rewrite (handle_disconnection_noop _ _ reason Ho) in H. inv_ok. unfold disc_ghost. rewrite Ho, app_nil_r. exact HG. }
  destruct (hdisc_live _ _ _ _ _ H Ho) as (t & c & Ht & Hc).
  destruct (Session.hdisc_saves _ _ _ _ _ _ _ H Hc Ho Ht) as [Es Eo].
  rewrite (disc_ghost_live _ _ _ _ _ _ Ho Ht Hc). intros cl ss Hs rq Hrq Hg.
  destruct (str_eqb_spec cl (tr_id t)) as [-> | Hne].
  - unfold Session.saved_session in Es. rewrite Es in Hs. destruct (c_clean c); [discriminate|]. inversion Hs as [Ess].
    rewrite Es, Ess.
    assert (Hin : In rq (filter unshared_b (tr_reqs (ss_tracker ss)))) by (apply filter_In; split; [exact Hrq|unfold unshared_b; now rewrite Hg]).
    assert (Huq : (cnt (dr_filter rq) (filter unshared_b (tr_reqs (ss_tracker ss))) <= 1)%nat).
    { pose proof (cnt_filter_le (dr_filter rq) unshared_b (tr_reqs (ss_tracker ss))) as X.
      assert (Hgr : In (tr_id t, Some ss) (r_graveyard st')) by (apply al_get_In; rewrite Es; now rewrite Ess).
      pose proof (de_grave _ _ HD) as G. rewrite Forall_forall in G. specialize (G _ Hgr (dr_filter rq)). unfold okE in G. cbn [snd] in G.
      destruct (set_mem str_eqb (dr_filter rq) (ss_subs ss)); lia. }
    destruct (in_split_unique _ _ _ Hin Huq eq_refl) as (la & lb & El & Hlb).
    rewrite El, map_app. cbn [map]. unfold mkend at 2.
    exists id, (o_link o), (wnd_offs (o_inflight o) (dr_idx rq)), (tr ++ map (mkend id (o_link o) (tr_id t) (o_inflight o)) la),
           (map (mkend id (o_link o) (tr_id t) (o_inflight o)) lb).
    split; [now rewrite <- app_assoc|]. unfold quiet. apply forallb_forall. intros ev Hev. apply in_map_iff in Hev as (r & <- & Hr).
    unfold mkend, ev_mark. rewrite (str_eqb_false (dr_filter rq) (dr_filter r)) by (intros E; apply (Hlb _ Hr); now symmetry).
    now rewrite andb_false_r.
  - rewrite (Eo cl Hne) in Hs. destruct (HG cl ss Hs rq Hrq Hg) as (id1 & L1 & w & ta & tb & -> & Hq).
    exists id1, L1, w, ta. eexists. split; [rewrite <- app_assoc; reflexivity|]. apply quiet_app; [exact Hq|].
    unfold quiet. apply forallb_forall. intros ev Hev.
    destruct (c_clean c); [destruct Hev|]. destruct (al_get str_eqb (tr_id t) (r_graveyard st')) as [[ss0|]|]; try destruct Hev.
    apply in_map_iff in Hev as (r & <- & _). unfold mkend, ev_mark. now rewrite (str_eqb_false _ _ Hne).
Qed.

(* ------------------------------------------------------------------ a new connection *)
Lemma app_split_cases {X} : forall (l r t1 : list X) x t2,
  l ++ r = t1 ++ x :: t2 ->
  (exists t2', l = t1 ++ x :: t2' /\ t2 = t2' ++ r) \/ (exists r1, t1 = l ++ r1 /\ r = r1 ++ x :: t2).
Proof.
  induction l as [|y l IH]; intros r t1 x t2 E.
  - right. exists t1. auto.
  - destruct t1 as [|z t1]; cbn [app] in E; inversion E; subst.
    + left. exists l. auto.
    + destruct (IH _ _ _ _ H1) as [(t2' & -> & ->) | (r1 & -> & ->)]; [left; exists t2'; auto|right; exists r1; auto].
Qed.

Lemma map_split {A B} (g : A -> B) : forall l r1 y r2, map g l = r1 ++ y :: r2 ->
  exists la a lb, l = la ++ a :: lb /\ r1 = map g la /\ y = g a /\ r2 = map g lb.
Proof.
  induction l as [|a l IH]; intros r1 y r2 E; [destruct r1; discriminate|].
  destruct r1 as [|z r1]; cbn [map app] in E; inversion E; subst.
  - exists [], a, l. auto.
  - destruct (IH _ _ _ H1) as (la & a0 & lb & -> & -> & -> & ->). exists (a :: la), a0, lb. auto.
Qed.

Lemma split_unique_left f (la lb : list drequest) rq :
  (cnt f (la ++ rq :: lb) <= 1)%nat -> dr_filter rq = f -> forall r, In r la -> dr_filter r <> f.
Proof.
  intros Hc Hf r Hr Er. rewrite cnt_app, cnt_cons in Hc. unfold fmatch in Hc. rewrite Hf, str_eqb_refl in Hc.
  pose proof (cnt_in _ _ Hr) as X. rewrite Er in X. lia.
Qed.

(** what an accepted Connect does to the graveyard, and the markers it emits *)
Lemma hnc_shape cfg st1 conn link st' :
  RInvC cfg st1 ->
  validate_clientid (c_client conn) = true ->
  (cf_max_connections (r_cfg st1) <=? slab_len (r_conns st1)) = false ->
  (let client := c_client conn in
   let saved := al_get str_eqb client (r_graveyard st1) in
   let grave := al_remove str_eqb client (r_graveyard st1) in
   let clean := c_clean conn in
   let previous_session := match saved with Some (Some _) => true | _ => false end in
   let '(trk, conn1, pubrels) :=
     if negb clean then
       match saved with
       | Some (Some ss) => (ss_tracker ss, set_c_subs conn (ss_subs ss), ss_pubrels ss)
       | _ => ({| tr_id := client; tr_reqs := []; tr_status := Paused Busy |}, conn, [])
       end
     else ({| tr_id := client; tr_reqs := []; tr_status := Paused Busy |}, conn, []) in
   let groups1 := rejoin_groups (r_groups st1) (cf_strategy (r_cfg st1)) client (tr_reqs trk) in
   let wills := match c_will conn1 with
                | Some w => al_set str_eqb client w (r_wills st1)
                | None => al_remove str_eqb client (r_wills st1)
                end in
   let conn2 := set_c_will conn1 None in
   let '(conns, id) := slab_insert (r_conns st1) conn2 in
   let '(ibufs, id_i) := slab_insert (r_ibufs st1) {| i_client := client; i_link := link |} in
   let '(obufs, id_o) := slab_insert (r_obufs st1)
         {| o_client := client; o_link := link; o_inflight := []; o_pubrels := pubrels; o_last := 0 |} in
   let ack0 := {| a_committed := [AConnAck id (negb clean && previous_session)]; a_recorded := [] |} in
   let '(acks, id_a) := slab_insert (r_acks st1) (commit_pubrels ack0 pubrels) in
   let '(trackers, id_t) := slab_insert (r_trackers st1) trk in
   if negb ((id_i =? id) && (id_o =? id) && (id_a =? id) && (id_t =? id)) then Panic P_SLAB_ALIGN
   else
     let st2 := {| r_cfg := r_cfg st1; r_graveyard := grave; r_conns := conns;
                   r_cmap := al_set str_eqb client id (r_cmap st1);
                   r_submap := submap_add_all (r_submap st1) (c_subs conn2) id;
                   r_ibufs := ibufs; r_obufs := obufs; r_datalog := r_datalog st1; r_acks := acks;
                   r_trackers := trackers; r_ready := r_ready st1; r_notif := r_notif st1;
                   r_groups := groups1; r_wills := wills; r_links := r_links st1;
                   r_oracle := r_oracle st1 |} in
     do _ <- dbg_no_dups st2 id;
     reschedule st2 id SInit) = Ok st' ->
  r_graveyard st' = al_remove str_eqb (c_client conn) (r_graveyard st1) /\
  exists id reqs,
    conn_ghost st' (c_client conn) link = map (mkres id link (c_client conn)) (filter unshared_b reqs) /\
    (reqs = [] \/ (c_clean conn = false /\ exists ss, al_get str_eqb (c_client conn) (r_graveyard st1) = Some (Some ss) /\
                                                     reqs = tr_reqs (ss_tracker ss))).
Proof.
  intros HR1 Hv Hcap H. cbv zeta in H.
  match type of H with (match ?X with _ => _ end) = _ => destruct X as [[trk conn1] pubrels] eqn:EX end.
  destruct (slab_insert (r_conns st1) (set_c_will conn1 None)) as [conns id] eqn:Ic.
  destruct (slab_insert (r_ibufs st1) _) as [ibufs id_i] eqn:Ii.
  destruct (slab_insert (r_obufs st1) _) as [obufs id_o] eqn:Io.
  destruct (slab_insert (r_acks st1) _) as [acks id_a] eqn:Ia.
  destruct (slab_insert (r_trackers st1) trk) as [trackers id_t] eqn:It.
  match type of H with (if ?b then _ else _) = _ => destruct b eqn:Eal end; [discriminate|].
  apply negb_false_iff in Eal. repeat (apply andb_true_iff in Eal as [Eal ?]).
  repeat match goal with E : (_ =? _) = true |- _ => apply N.eqb_eq in E end. subst id_i id_o id_a id_t.
  apply bind_ok in H as (u & _ & H).
  match type of H with reschedule ?s id SInit = _ => set (st2 := s) in * end.
  destruct (insert_spec _ _ _ _ (aligned_wf _ _ (ri_al_o _ _ HR1) (ri_wf _ _ HR1)) Io) as (_ & Ho2 & _).
  destruct (insert_spec _ _ _ _ (aligned_wf _ _ (ri_al_t _ _ HR1) (ri_wf _ _ HR1)) It) as (_ & Ht2 & _).
  assert (F : r_cmap st' = r_cmap st2 /\ r_obufs st' = r_obufs st2 /\ r_graveyard st' = r_graveyard st2 /\
              exists t', slab_get (r_trackers st') id = Some t' /\ tr_reqs t' = tr_reqs trk).
  { unfold reschedule, get_tracker in H. change (r_trackers st2) with trackers in H. rewrite Ht2 in H. cbn [bind] in H.
    apply bind_ok in H as ([t' woke] & HT & H). apply try_ready_reqs in HT. cbn [fst snd] in *.
    assert (G : slab_get (slab_put trackers id t') id = Some t') by (eapply slab_get_put_occ; exact Ht2).
    destruct woke; inv_ok; rsimpl; (repeat split; try reflexivity); exists t'; auto. }
  destruct F as (Fc & Fo & Fg & t' & Ft' & Fr).
  split; [rewrite Fg; reflexivity|]. exists id, (tr_reqs trk). split.
  - unfold conn_ghost. rewrite Fc. cbn [st2 r_cmap]. rewrite DataLogInv.al_get_set_eq, Fo. cbn [st2 r_obufs].
    rewrite Ho2, Ft'. cbn [o_link]. rewrite N.eqb_refl, Fr. reflexivity.
  - destruct (c_clean conn); cbn [negb] in EX; [inv_ok; now left|].
    destruct (al_get str_eqb (c_client conn) (r_graveyard st1)) as [[ss|]|] eqn:Es; inv_ok; try (now left).
    right. split; [reflexivity|]. exists ss. auto.
Qed.

Lemma hnc_ack cfg st1 conn link st' :
  RInvC cfg st1 ->
  validate_clientid (c_client conn) = true ->
  (cf_max_connections (r_cfg st1) <=? slab_len (r_conns st1)) = false ->
  (let client := c_client conn in
   let saved := al_get str_eqb client (r_graveyard st1) in
   let grave := al_remove str_eqb client (r_graveyard st1) in
   let clean := c_clean conn in
   let previous_session := match saved with Some (Some _) => true | _ => false end in
   let '(trk, conn1, pubrels) :=
     if negb clean then
       match saved with
       | Some (Some ss) => (ss_tracker ss, set_c_subs conn (ss_subs ss), ss_pubrels ss)
       | _ => ({| tr_id := client; tr_reqs := []; tr_status := Paused Busy |}, conn, [])
       end
     else ({| tr_id := client; tr_reqs := []; tr_status := Paused Busy |}, conn, []) in
   let groups1 := rejoin_groups (r_groups st1) (cf_strategy (r_cfg st1)) client (tr_reqs trk) in
   let wills := match c_will conn1 with
                | Some w => al_set str_eqb client w (r_wills st1)
                | None => al_remove str_eqb client (r_wills st1)
                end in
   let conn2 := set_c_will conn1 None in
   let '(conns, id) := slab_insert (r_conns st1) conn2 in
   let '(ibufs, id_i) := slab_insert (r_ibufs st1) {| i_client := client; i_link := link |} in
   let '(obufs, id_o) := slab_insert (r_obufs st1)
         {| o_client := client; o_link := link; o_inflight := []; o_pubrels := pubrels; o_last := 0 |} in
   let ack0 := {| a_committed := [AConnAck id (negb clean && previous_session)]; a_recorded := [] |} in
   let '(acks, id_a) := slab_insert (r_acks st1) (commit_pubrels ack0 pubrels) in
   let '(trackers, id_t) := slab_insert (r_trackers st1) trk in
   if negb ((id_i =? id) && (id_o =? id) && (id_a =? id) && (id_t =? id)) then Panic P_SLAB_ALIGN
   else
     let st2 := {| r_cfg := r_cfg st1; r_graveyard := grave; r_conns := conns;
                   r_cmap := al_set str_eqb client id (r_cmap st1);
                   r_submap := submap_add_all (r_submap st1) (c_subs conn2) id;
                   r_ibufs := ibufs; r_obufs := obufs; r_datalog := r_datalog st1; r_acks := acks;
                   r_trackers := trackers; r_ready := r_ready st1; r_notif := r_notif st1;
                   r_groups := groups1; r_wills := wills; r_links := r_links st1;
                   r_oracle := r_oracle st1 |} in
     do _ <- dbg_no_dups st2 id;
     reschedule st2 id SInit) = Ok st' ->
  exists id o l rest,
    slab_get (r_obufs st') id = Some o /\ o_link o = link /\ slab_get (r_acks st') id = Some l /\
    a_committed l = AConnAck id (negb (c_clean conn) &&
                                 match al_get str_eqb (c_client conn) (r_graveyard st1) with Some (Some _) => true | _ => false end) :: rest.
Proof.
  intros HR1 Hv Hcap H. cbv zeta in H.
  match type of H with (match ?X with _ => _ end) = _ => destruct X as [[trk conn1] pubrels] eqn:EX end.
  destruct (slab_insert (r_conns st1) (set_c_will conn1 None)) as [conns id] eqn:Ic.
  destruct (slab_insert (r_ibufs st1) _) as [ibufs id_i] eqn:Ii.
  destruct (slab_insert (r_obufs st1) _) as [obufs id_o] eqn:Io.
  destruct (slab_insert (r_acks st1) _) as [acks id_a] eqn:Ia.
  destruct (slab_insert (r_trackers st1) trk) as [trackers id_t] eqn:It.
  match type of H with (if ?b then _ else _) = _ => destruct b eqn:Eal end; [discriminate|].
  apply negb_false_iff in Eal. repeat (apply andb_true_iff in Eal as [Eal ?]).
  repeat match goal with E : (_ =? _) = true |- _ => apply N.eqb_eq in E end. subst id_i id_o id_a id_t.
  apply bind_ok in H as (u & _ & H).
  destruct (insert_spec _ _ _ _ (aligned_wf _ _ (ri_al_o _ _ HR1) (ri_wf _ _ HR1)) Io) as (_ & Ho2 & _).
  destruct (insert_spec _ _ _ _ (aligned_wf _ _ (ri_al_a _ _ HR1) (ri_wf _ _ HR1)) Ia) as (_ & Ha2 & _).
  pose proof (reschedule_keep _ _ _ _ H) as K.
  eexists id, _, _, _. rewrite (keep_obufs _ _ K), (keep_acks _ _ K). cbn [r_obufs r_acks].
  split; [exact Ho2|]. split; [reflexivity|]. split; [exact Ha2|].
  rewrite Session.commit_pubrels_spec. cbn [a_committed app]. reflexivity.
Qed.

Lemma conn_ri cfg st conn link st' tr :
  RInvC cfg st -> r_notif st = [] -> DevEI st -> SessionInv.SessInv st ->
  (forall id k f i a, In (id, (k, f, i), a) tr -> k < link) ->
  (forall id o, slab_get (r_obufs st) id = Some o -> o_link o < link) ->
  GI st tr -> PI tr ->
  handle_new_connection st conn link = Ok st' ->
  GI st' (tr ++ take_ghost st (c_client conn) ++ conn_ghost st' (c_client conn) link) /\
  PI (tr ++ take_ghost st (c_client conn) ++ conn_ghost st' (c_client conn) link).
Proof.
  intros HR Hn HD HS Hfresh0 Hlinks HG0 HP0 H. rewrite app_assoc. unfold take_ghost.
  unfold handle_new_connection in H.
  destruct (validate_clientid (c_client conn)) eqn:Hv; cbn [negb] in H.
  2:{ inv_ok. rewrite conn_ghost_none by exact Hlinks. rewrite !app_nil_r. auto. }
  apply bind_ok in H as (st1 & H1 & H).
  set (tg := match al_get str_eqb (c_client conn) (r_cmap st) with
             | Some cid => match handle_disconnection st cid None with Ok s => disc_ghost st cid s | _ => [] end
             | None => [] end).
  assert (X1 : RInvC cfg st1 /\ DevEI st1 /\ SessionInv.SessInv st1 /\ GI st1 (tr ++ tg) /\ PI (tr ++ tg) /\
               (forall id o, slab_get (r_obufs st1) id = Some o -> o_link o < link) /\
               (forall id k f i a, In (id, (k, f, i), a) (tr ++ tg) -> k < link)).
  { unfold tg. destruct (al_get str_eqb (c_client conn) (r_cmap st)) as [cid|].
    2:{ inv_ok. rewrite app_nil_r. auto 10. }
    rewrite H1.
    destruct (wp_ok_inv _ _ _ _ (handle_disconnection_spec cfg st cid None HR Hn) H1) as (A & _ & _ & _).
    pose proof (wpd_ok_inv _ _ _ (handle_disconnection_loc cfg st cid None HR Hn HD) H1) as HD1.
    pose proof ((SessionInv.fs_handle_disconnection st cid None) _ H1 HS) as HS1.
    destruct (handle_disconnection_obs _ _ _ _ H1) as (Ob & _ & _ & _).
    destruct (disc_ri _ _ _ _ _ HD1 HG0 HP0 H1) as [G1 P1].
    split; [exact A|]. split; [exact HD1|]. split; [exact HS1|]. split; [exact G1|]. split; [exact P1|]. split.
    - intros id o Ho. destruct (obs_at_sub _ _ _ Ob _ _ Ho) as (o0 & Ho0 & Hs). apply ostep_link in Hs as [Hs _].
      rewrite Hs. eapply Hlinks; exact Ho0.
    - intros id k f i a Hin. apply in_app_or in Hin as [Hin | Hin]; [eapply Hfresh0; exact Hin|].
      destruct (disc_ghost_link _ _ _ _ _ _ _ _ Hin) as (o & Ho & ->). eapply Hlinks; exact Ho. }
  destruct X1 as (HR1 & HD1 & HS1 & HG1 & HP1 & Hlinks1 & Hfresh). clear H1 HG0 HP0 HR Hn HD HS Hfresh0 Hlinks.
  remember (tr ++ tg) as trx eqn:Etrx.
  enough (X : GI st' (trx ++ conn_ghost st' (c_client conn) link) /\ PI (trx ++ conn_ghost st' (c_client conn) link))
    by (rewrite Etrx in X; exact X).
  clear Etrx.
  destruct (cf_max_connections (r_cfg st1) <=? slab_len (r_conns st1)) eqn:Hcap.
  { inv_ok. rewrite conn_ghost_none by exact Hlinks1. rewrite app_nil_r. auto. }
  destruct (hnc_shape cfg st1 conn link st' HR1 Hv Hcap H) as (Eg & id & reqs & Ec & Hreqs).
  set (client := c_client conn) in *. rewrite Ec.
  set (ureqs := filter unshared_b reqs).
  split.
  - (* the graveyard: the client's entry is gone, the others are untouched *)
    intros cl ss Hs rq Hrq Hg. rewrite Eg in Hs.
    destruct (str_eqb_spec cl client) as [-> | Hne].
    { rewrite (IsolationInv.al_get_remove_same client _ (proj2 (proj2 (proj2 (proj2 (proj2 HS1)))))) in Hs. discriminate. }
    rewrite al_get_remove_neq in Hs by exact Hne.
    destruct (HG1 cl ss Hs rq Hrq Hg) as (id1 & L1 & w & ta & tb & -> & Hq).
    exists id1, L1, w, ta. eexists. split; [rewrite <- app_assoc; reflexivity|]. apply quiet_app; [exact Hq|].
    unfold quiet. apply forallb_forall. intros ev Hev. apply in_map_iff in Hev as (r & <- & _).
    unfold mkres, ev_mark. now rewrite (str_eqb_false _ _ Hne).
  - (* pairing: the new resume markers *)
    intros tr1 id2 L2 f i cl c0 tr2 E. apply app_split_cases in E as [(t2' & E1 & _) | (r1 & -> & E2)].
    + eapply HP1; exact E1.
    + apply map_split in E2 as (la & rq & lb & El & -> & Ex & _). unfold mkres in Ex. inversion Ex; subst id2 L2 f i cl c0.
      assert (Hin : In rq ureqs) by (rewrite El; apply in_or_app; right; now left).
      apply filter_In in Hin as [Hrq Hu].
      assert (Hg : dr_group rq = None) by (unfold unshared_b in Hu; destruct (dr_group rq); [discriminate|reflexivity]).
      destruct Hreqs as [-> | (Hcl & ss & Hss & ->)]; [destruct Hrq|].
      destruct (HG1 client ss Hss rq Hrq Hg) as (id1 & L1 & w & ta & tb & -> & Hq).
      exists id1, L1, w, ta, (tb ++ map (mkres id link client) la). split; [now rewrite <- app_assoc|]. split.
      * apply quiet_app; [exact Hq|]. unfold quiet. apply forallb_forall. intros ev Hev. apply in_map_iff in Hev as (r & <- & Hr).
        assert (Huq : (cnt (dr_filter rq) ureqs <= 1)%nat).
        { pose proof (cnt_filter_le (dr_filter rq) unshared_b (tr_reqs (ss_tracker ss))) as X.
          pose proof (de_grave _ _ HD1) as G. rewrite Forall_forall in G. specialize (G _ (al_get_In _ _ _ Hss) (dr_filter rq)).
          unfold okE in G. cbn [snd] in G. unfold ureqs. destruct (set_mem str_eqb (dr_filter rq) (ss_subs ss)); lia. }
        rewrite El in Huq. unfold mkres, ev_mark.
        rewrite (str_eqb_false (dr_filter rq) (dr_filter r)) by (intros E; apply (split_unique_left _ _ _ _ Huq eq_refl _ Hr); now symmetry).
        now rewrite andb_false_r.
      * eapply Hfresh. apply in_or_app. right. now left.
Qed.

(* ------------------------------------------------------------------ steps and runs *)
Lemma kid_grave st st' : SessionIds.Kid st st' -> r_graveyard st' = r_graveyard st.
Proof. intros (_ & H & _). exact H. Qed.

Lemma gi_same st st' tr : r_graveyard st' = r_graveyard st -> GI st tr -> GI st' tr.
Proof. intros E H. rewrite <- (app_nil_r tr). eapply gi_frame; [exact E|reflexivity|exact H]. Qed.

Lemma ri_step st tr orc o st1 out evs :
  RunInv st tr -> SessionInv.SessInv st -> GI st tr -> PI tr ->
  DevEI st1 ->
  step_with_d st orc o = Ok (st1, out, evs) -> GI st1 (tr ++ evs) /\ PI (tr ++ evs).
Proof.
  intros [[[HI Hn] HD] HC HL HDI HBI] HS HG HP HD1 H. unfold step_with_d in H.
  apply bind_ok in H as ([[s1 out1] evs1] & H1 & H). destruct (r_oracle s1); [|discriminate]. inv_ok.
  set (s0 := set_r_oracle st orc) in *.
  assert (HG0 : GI s0 tr) by (apply (gi_same st s0); [reflexivity|exact HG]).
  assert (Hquiet : forall s, r_graveyard s = r_graveyard s0 -> GI s (tr ++ []) /\ PI (tr ++ [])).
  { intros s E. rewrite app_nil_r. split; [now apply (gi_same s0 s)|exact HP]. }
  destruct o as [c | k pk | id | | k | id | id | id f | c |]; unfold step_d in H1.
  - (* Connect *)
    apply bind_ok in H1 as ([st2 out2] & H2 & H1). inv_ok. cbn [step] in H2. cbv zeta in H2.
    apply bind_ok in H2 as (st3 & H3 & H2). inv_ok.
    match type of H3 with handle_new_connection ?s ?cn ?lk = _ =>
      apply (conn_ri (r_cfg st) s cn lk st1 tr); [| | | | | | | |exact H3] end.
    + apply RInv_links_app; [apply RInv_set_oracle; exact HI|constructor].
    + exact Hn.
    + eapply dfr_DevE; [exact HD|dfr_triv].
    + exact HS.
    + intros id0 k f i a Hin. apply (di_link _ _ _ HDI _ _ _ _ _ Hin).
    + intros id0 o Ho. apply (proj1 HL _ _ Ho).
    + apply (gi_same st); [reflexivity|exact HG].
    + exact HP.
  - apply bind_ok in H1 as ([st2 out2] & H2 & H1). inv_ok. cbn [step] in H2.
    destruct (nthN (r_links s0) k); inv_ok; apply Hquiet; reflexivity.
  - (* DeviceData *)
    apply bind_ok in H1 as ([st2 evs2] & H2 & H1). inv_ok. unfold handle_device_payload_d in H2.
    destruct (slab_get (r_ibufs s0) id) as [inc|]; [|inv_ok; apply Hquiet; reflexivity].
    apply bind_ok in H2 as (b & _ & H2).
    apply bind_ok in H2 as ([[st1' fl] evs1] & Hp & H2).
    apply bind_ok in H2 as (st2' & H2a & H2). apply bind_ok in H2 as (st3' & H3a & H2). apply bind_ok in H2 as (st4' & H4a & H2). inv_ok.
    pose proof (handle_packets_nomark _ _ _ _ _ _ _ _ Hp) as Nm.
    assert (Hp' : handle_packets (link_put s0 (i_link inc) (set_lk_in b [])) id (i_client inc) (lk_in b) flags0 = Ok (st1', fl))
      by (rewrite <- handle_packets_erase, Hp; reflexivity).
    pose proof (kid_grave _ _ ((SessionIds.fi_handle_packets (lk_in b) _ id (i_client inc) flags0) _ Hp')) as G1. cbn [fst] in G1.
    assert (G2 : r_graveyard st2' = r_graveyard st1').
    { destruct (f_force_ack fl); [|now inv_ok]. apply kid_grave. exact ((SessionIds.fi_reschedule st1' id SFreshData) _ H2a). }
    assert (G3 : r_graveyard st3' = r_graveyard st2').
    { destruct (f_new_data fl); [|now inv_ok]. apply kid_grave. exact ((SessionIds.fi_drain_notifications st2') _ H3a). }
    assert (HG3 : GI st3' (tr ++ evs1)).
    { eapply gi_frame; [|exact Nm|exact HG0]. rewrite G3, G2, G1. reflexivity. }
    assert (HP3 : PI (tr ++ evs1)) by (apply pi_app; [now apply no_mark_no_res|exact HP]).
    destruct (f_disconnect fl); [|inv_ok; rewrite app_nil_r; auto].
    rewrite app_assoc. eapply disc_ri; eassumption.
  - (* Consume *)
    apply bind_ok in H1 as ([[st2 b] evs2] & H2 & H1). inv_ok. pose proof (consume_nomark _ _ _ _ H2) as Nm.
    assert (H2' : consume s0 = Ok (st1, b)) by (rewrite <- consume_erase, H2; reflexivity).
    pose proof (kid_grave _ _ ((SessionIds.fi_consume s0) _ H2')) as G1. cbn [fst] in G1.
    split; [eapply gi_frame; [exact G1|exact Nm|exact HG0]|apply pi_app; [now apply no_mark_no_res|exact HP]].
  - apply bind_ok in H1 as ([st2 out2] & H2 & H1). inv_ok. cbn [step] in H2.
    destruct (nthN (r_links s0) k); inv_ok; apply Hquiet; reflexivity.
  - apply bind_ok in H1 as ([st2 out2] & H2 & H1). inv_ok. cbn [step] in H2.
    destruct (slab_get (r_trackers s0) id); [|inv_ok; apply Hquiet; reflexivity].
    apply bind_ok in H2 as (st2' & H3 & H2). inv_ok. apply Hquiet. apply kid_grave. exact ((SessionIds.fi_reschedule s0 id SReady) _ H3).
  - (* Disconnect *)
    apply bind_ok in H1 as ([st2 out2] & H2 & H1). inv_ok. cbn [step] in H2.
    apply bind_ok in H2 as (st2' & H3 & H2). inv_ok. eapply disc_ri; eassumption.
  - apply bind_ok in H1 as ([st2 out2] & H2 & H1). inv_ok. cbn [step] in H2.
    apply bind_ok in H2 as (st2' & H3 & H2). inv_ok. apply Hquiet. apply kid_grave. exact ((SessionIds.fi_retrieve_shadow s0 id f) _ H3).
  - apply bind_ok in H1 as ([st2 out2] & H2 & H1). inv_ok. cbn [step] in H2.
    apply bind_ok in H2 as (st2' & H3 & H2). inv_ok. apply Hquiet. apply kid_grave. exact ((SessionIds.fi_handle_last_will s0 c) _ H3).
  - apply bind_ok in H1 as ([st2 out2] & H2 & H1). inv_ok. cbn [step] in H2. inv_ok. apply Hquiet. reflexivity.
Qed.

(** everything carried along a run, with the resume invariants *)
Record ResInv (st : rstate) (tr : list dev) : Prop := {
  rs_run : RunInv st tr;
  rs_sess : SessionInv.SessInv st;
  rs_gi : GI st tr;
  rs_pi : PI tr
}.

Lemma resinv_step st tr orc o st1 out evs :
  ResInv st tr -> Bounded st -> op_wf o -> step_with_d st orc o = Ok (st1, out, evs) -> ResInv st1 (tr ++ evs).
Proof.
  intros [HR HS HG HP] HB Hw H. pose proof (runinv_step _ _ _ _ _ _ _ HR HB Hw H) as HR1.
  destruct (ri_step _ _ _ _ _ _ _ HR HS HG HP (proj2 (rn_rinv _ _ HR1)) H) as [G1 P1].
  constructor; [exact HR1| |exact G1|exact P1].
  exact ((SessionInv.fs_step_with st orc o) _ (step_with_d_step _ _ _ _ _ _ H) HS).
Qed.

Lemma run_resinv : forall ops st st' tr0 tr,
  ResInv st tr0 -> ops_wf ops -> run_d st ops = Ok (st', tr) -> Bounded st' -> ResInv st' (tr0 ++ tr).
Proof.
  induction ops as [|[orc o] ops IH]; intros st st' tr0 tr HR Hwf H HB.
  - cbn [run_d] in H. inv_ok. now rewrite app_nil_r.
  - inversion Hwf as [|? ? Hw1 Hw']; subst. cbn [snd] in Hw1.
    pose proof (run_bounded_head _ _ _ _ _ _ (rn_cinv _ _ (rs_run _ _ HR)) H HB) as HB0. cbn [run_d] in H.
    apply bind_ok in H as ([[st1 out] evs] & H1 & H). apply bind_ok in H as ([st2 evs2] & H2 & H). inv_ok.
    rewrite app_assoc. eapply IH; [|exact Hw'|exact H2|exact HB]. eapply resinv_step; eassumption.
Qed.

Theorem resinv_from_init cfg st0 ops st tr :
  run_hyps cfg st0 ops st tr -> ResInv st tr.
Proof.
  intros (Hcfg & Hmo & Hi & Hwf & Hr & HB). apply (run_resinv ops st0 st [] tr); try assumption.
  assert (HR0 : RunInv st0 []).
  { constructor; [eapply rinve_init; eassumption|eapply init_cinv; eassumption|apply (WindowStep.init_inv _ _ Hi)|eapply di_init; eassumption
                 |eapply TraceRunBound.bi_init; eassumption]. }
  constructor; [exact HR0|eapply SessionInv.init_SessInv; exact Hi| |].
  - intros cl ss Hs. unfold init in Hi. apply bind_ok in Hi as (dl & _ & Hi). inv_ok. discriminate.
  - intros tr1 id2 L2 f i cl c0 tr2 E. destruct tr1; discriminate.
Qed.

(** (a) the resume point: a request restored on a new connection continues EXACTLY at the offset
    saved by the most recent removal of a connection of the same client that held a request for
    the same (filter, log): the trace before the resume marker ends with the matching end marker,
    and no other end/resume marker of that client for that (filter, log) lies in between *)
Theorem run_resume_point cfg st0 ops st tr :
  run_hyps cfg st0 ops st tr ->
  forall tr1 id2 L2 f i cl c0 tr2, tr = tr1 ++ (id2, (L2, f, i), KRes cl c0) :: tr2 ->
  exists id1 L1 w ta tb,
    tr1 = ta ++ (id1, (L1, f, i), KEnd cl c0 w) :: tb /\ quiet cl f i tb /\ L1 < L2.
Proof. intros H. exact (rs_pi _ _ (resinv_from_init _ _ _ _ _ H)). Qed.
