(** C01 exactness — the statements pinned in Props/C01.v: the cursor invariant spelled out
    ([CursorInv]), for every reachable state; two consecutive sweeps of one request. *)
From Rumqtt Require Import Log.Spec Log.Proofs Log.ListFacts Log.WfFacts Router.ExactLog.
From Rumqtt Require Import Topic.Proofs Router.WindowFrame Router.Window Router.DataLogInv Router.DataLogStep
                           Router.ExactInv Router.ExactStep1 Router.ExactStep2 Router.ExactLogs Router.ExactStep3
                           Router.ExactSweep.
From Rumqtt Require Import Router.Model Router.RunDefs.
From Coq Require Import Arith ZifyBool ZifyN ZifyNat.

(* ------------------------------------------------------------------ the invariant, spelled out *)
(** [rq] is one of the data requests the router holds: in a tracker, parked in the waiter list
    of a filter log, queued in [notifications], or saved with a session in the graveyard *)
Definition has_request (st : rstate) (rq : drequest) : Prop :=
  (exists k t, slab_get (r_trackers st) k = Some t /\ In rq (tr_reqs t)) \/
  (exists i d id, slab_get (dl_native (r_datalog st)) i = Some d /\ In (id, rq) (d_waiters d)) \/
  (exists id, In (id, rq) (r_notif st)) \/
  (exists c ss, In (c, Some ss) (r_graveyard st) /\ In rq (tr_reqs (ss_tracker ss))).

(** [c] is a cursor the filter log number [i] has issued, at or before its end *)
Definition issued_at (st : rstate) (i : N) (c : cursor) : Prop :=
  exists d, slab_get (dl_native (r_datalog st)) i = Some d /\ Issued (d_log d) c /\ snd c <= end_of (d_log d).

Record CursorInv (st : rstate) : Prop := {
  cu_logs : forall i d, slab_get (dl_native (r_datalog st)) i = Some d -> exists all, WF pubdata_size (d_log d) all;
  cu_req : forall rq, has_request st rq -> issued_at st (dr_idx rq) (dr_cursor rq);
  cu_infl : forall k o pk fi c, slab_get (r_obufs st) k = Some o -> In (pk, fi, Some c) (o_inflight o) ->
            issued_at st fi c;
  cu_group : forall rq g grp, has_request st rq -> dr_group rq = Some g ->
             al_get str_eqb g (r_groups st) = Some grp -> issued_at st (dr_idx rq) (g_cursor grp);
  cu_group_idx : forall rq rq' g, has_request st rq -> has_request st rq' ->
             dr_group rq = Some g -> dr_group rq' = Some g -> dr_idx rq = dr_idx rq'
}.

Lemma cinv_has_request st rq : CInv st -> has_request st rq -> RqOk (r_datalog st) rq.
Proof.
  intros [_ CI] [(k & t & Ht & Hin) | [(i & d & id & Hd & Hin) | [(id & Hin) | (c & ss & Hg & Hin)]]].
  - pose proof (ci_trk _ _ CI _ _ Ht) as HF. rewrite Forall_forall in HF. now apply HF.
  - pose proof (ci_wait _ _ CI _ _ Hd) as HF. rewrite Forall_forall in HF. exact (HF _ Hin).
  - pose proof (ci_notif _ _ CI) as HF. rewrite Forall_forall in HF. exact (HF _ Hin).
  - pose proof (ci_grave _ _ CI) as HF. rewrite Forall_forall in HF. specialize (HF _ Hg). unfold SessOk in HF. cbn [snd] in HF.
    rewrite Forall_forall in HF. now apply HF.
Qed.

Theorem cinv_cursorinv st : CInv st -> CursorInv st.
Proof.
  intros HI. pose proof HI as [LI CI]. constructor.
  - apply (li_wf _ LI).
  - intros rq Hr. exact (proj1 (cinv_has_request _ _ HI Hr)).
  - intros k o pk fi c Ho Hin. pose proof (ci_infl _ _ CI _ _ Ho) as HF. rewrite Forall_forall in HF. exact (HF _ Hin).
  - intros rq g grp Hr Hg Hgrp. pose proof (cinv_has_request _ _ HI Hr) as Hrq.
    eapply group_cursor_ok; [exact Hrq|exact Hg|]. exact (al_get_Forall _ _ _ _ (ci_groups _ _ CI) Hgrp).
  - intros rq rq' g Hr Hr' Hg Hg'.
    destruct (cinv_has_request _ _ HI Hr) as [_ G]. destruct (cinv_has_request _ _ HI Hr') as [_ G'].
    destruct (G _ Hg) as (nm & p & Hs & Hf). destruct (G' _ Hg') as (nm' & p' & Hs' & Hf'). congruence.
Qed.

(** every state reachable from [init] by ANY ops and oracles, as long as no filter log has
    reached 2^62 entries (and the configured per-sweep limit is below 2^62) *)
Theorem reachable_cursorinv cfg st :
  cf_max_outgoing cfg < B62 -> reachable cfg st -> Bounded st -> CursorInv st.
Proof. intros Hc Hr HB. apply cinv_cursorinv. eapply reachable_cinv; eassumption. Qed.

(* ------------------------------------------------------------------ two sweeps of one request *)
(** what a sweep put on the link of [o]: [rs] retained replays then the forwards of [es] *)
Definition sweep_out (st st' : rstate) (o : outgoing) (qos p : N) (nret : N) (es : list pubdata) : Prop :=
  exists rs ns tail,
    (forall k, out_of st' k = if k =? o_link o then out_of st k ++ (rs ++ ns) ++ tail else out_of st k) /\
    Forall is_retained_fwd rs /\ lenN rs = nret /\ fwds_from qos p es ns /\ (tail = [] \/ tail = [NUnschedule]).

Theorem two_sweeps st1 id1 rq st1' rq1 cs1 d1 all ops st2 id2 st2' rq2 cs2 :
  CInv st1 ->
  nget (r_datalog st1) (dr_idx rq) = Some d1 -> WFp (d_log d1) all ->
  Issued (d_log d1) (dr_cursor rq) -> snd (dr_cursor rq) <= lenN all ->
  dr_group rq = None ->
  forward_device_data st1 id1 rq = Ok (st1', rq1, cs1) -> cs1 <> SInflightFull ->
  run st1' ops = Ok st2 -> Bounded st2 ->
  forward_device_data st2 id2 rq1 = Ok (st2', rq2, cs2) -> cs2 <> SInflightFull ->
  exists d2 xs o1 o2 nret,
    nget (r_datalog st2) (dr_idx rq) = Some d2 /\ WFp (d_log d2) (all ++ xs) /\
    slab_get (r_obufs st1) id1 = Some o1 /\ slab_get (r_obufs st2) id2 = Some o2 /\
    let p1 := pos_of (d_log d1) (dr_cursor rq) in
    let es1 := firstn (N.to_nat (sweep_slots st1 o1 rq - nret)) (skipn (N.to_nat p1) all) in
    let p2 := pos_of (d_log d2) (dr_cursor rq1) in
    let es2 := firstn (N.to_nat (sweep_slots st2 o2 rq1)) (skipn (N.to_nat p2) (all ++ xs)) in
    sweep_out st1 st1' o1 (dr_qos rq) p1 nret es1 /\
    sweep_out st2 st2' o2 (dr_qos rq) p2 0 es2 /\
    (* gap-free and non-overlapping while the cursor is within retention ... *)
    (stale (d_log d2) (dr_cursor rq1) = false -> p2 = p1 + lenN es1) /\
    (* ... else the second sweep restarts at the oldest retained entry, which lies at or after
       the continuation: entries p1+|es1| .. p2-1 were evicted before they could be forwarded *)
    (stale (d_log d2) (dr_cursor rq1) = true -> p2 = base_of (d_log d2) /\ p1 + lenN es1 <= p2).
Proof.
  intros HI1 Hd1 W1 Hiss1 Hsnd1 Hgrp F1 Hcs1 Hrun HB2 F2 Hcs2.
  pose proof (fdd_dl _ _ _ _ _ _ F1) as D1'.
  assert (LI1' : LogsInv (r_datalog st1')) by (rewrite D1'; exact (proj1 HI1)).
  destruct (run_LL _ _ _ Hrun LI1') as [LI2 L12].
  assert (HB1' : Bounded st1') by (eapply bounded_le; eassumption).
  assert (HB1 : Bounded st1) by (eapply bounded_eq; [|exact HB1']; now rewrite D1').
  pose proof (wf_end_of pubdata_size _ _ W1) as Hall1.
  assert (Hrq : RqOk (r_datalog st1) rq).
  { split; [exists d1; split; [exact Hd1|]; split; [exact Hiss1|lia]|]. intros g Hg. congruence. }
  destruct (fdd_cinv _ _ _ _ _ _ HI1 HB1 Hrq F1) as (HI1' & _ & _).
  destruct (run_cinv _ _ _ HI1' Hrun HB2) as (HI2 & _ & _).
  assert (Hun1 : unshared st1 rq) by (unfold unshared; now rewrite Hgrp).
  destruct (sweep_exact _ _ _ _ _ _ _ _ HI1 HB1 Hd1 W1 Hiss1 Hsnd1 Hun1 F1) as (o1 & Ho1 & S1).
  cbv zeta in S1. destruct S1 as (_ & Hp1a & Hp1b & [[E _] | (_ & _ & rs & ns & tail & S1)]); [contradiction|].
  cbv zeta in S1. destruct S1 as (Hout1 & Hrs & Hrsl & _ & Hfw1 & Htail1 & Erq1 & Hiss1' & Hst1' & Hsnd1' & _).
  (* the log at the second sweep *)
  destruct L12 as [Hle _]. rewrite D1' in Hle. destruct (Hle _ _ Hd1) as (d2 & Hd2 & _ & LL).
  destruct (LL all W1) as (xs & W2 & HIss & Hbase & Hstale).
  assert (Hidx1 : dr_idx rq1 = dr_idx rq /\ dr_group rq1 = None /\ dr_qos rq1 = dr_qos rq /\ dr_fwd_retained rq1 = false).
  { rewrite Erq1. cbn. auto. }
  destruct Hidx1 as (Hidx1 & Hgrp1 & Hqos1 & Hret1).
  assert (Hun2 : unshared st2 rq1) by (unfold unshared; now rewrite Hgrp1).
  set (es1 := firstn (N.to_nat (sweep_slots st1 o1 rq - lenN rs)) (skipn (N.to_nat (pos_of (d_log d1) (dr_cursor rq))) all)) in *.
  assert (Hle1 : pos_of (d_log d1) (dr_cursor rq) + lenN es1 <= lenN all).
  { unfold es1. rewrite lenN_firstn_skipn. lia. }
  assert (Hsnd2 : snd (dr_cursor rq1) <= lenN (all ++ xs)) by (rewrite lenN_app; lia).
  rewrite <- Hidx1 in Hd2.
  destruct (sweep_exact _ _ _ _ _ _ _ _ HI2 HB2 Hd2 W2 (HIss _ Hiss1') Hsnd2 Hun2 F2) as (o2 & Ho2 & S2).
  cbv zeta in S2. destruct S2 as (_ & _ & _ & [[E _] | (_ & _ & rs2 & ns2 & tail2 & S2)]); [contradiction|].
  cbv zeta in S2. destruct S2 as (Hout2 & Hrs2 & _ & Hnil2 & Hfw2 & Htail2 & _).
  specialize (Hnil2 Hret1). subst rs2. rewrite lenN_nil, N.sub_0_r in Hfw2.
  exists d2, xs, o1, o2, (lenN rs). rewrite Hidx1 in Hd2.
  split; [exact Hd2|]. split; [exact W2|]. split; [exact Ho1|]. split; [exact Ho2|]. cbv zeta. fold es1.
  split; [|split; [|split]].
  - exists rs, ns, tail. split; [exact Hout1|]. split; [exact Hrs|]. split; [reflexivity|]. split; [exact Hfw1|].
    destruct Htail1 as [[-> _] | [-> _]]; auto.
  - exists [], ns2, tail2. split; [exact Hout2|]. split; [constructor|]. split; [reflexivity|]. rewrite <- Hqos1. split; [exact Hfw2|].
    destruct Htail2 as [[-> _] | [-> _]]; auto.
  - intros Hs. assert (Ep : pos_of (d_log d2) (dr_cursor rq1) = snd (dr_cursor rq1)) by (unfold pos_of; now rewrite Hs).
    rewrite Ep. exact Hsnd1'.
  - intros Hs. assert (Ep : pos_of (d_log d2) (dr_cursor rq1) = base_of (d_log d2)) by (unfold pos_of; now rewrite Hs).
    rewrite Ep. split; [reflexivity|]. rewrite <- Hsnd1'. now apply Hstale.
Qed.

(* ------------------------------------------------------------------ when a subscription takes effect *)
(** [next_native_offset] (called by SUBSCRIBE for the filter's log) returns the log's current
    end: tail segment, offset = number of entries ever appended *)
Lemma next_native_offset_end st f st0 idx cu :
  CInv st -> next_native_offset st f = Ok (st0, idx, cu) ->
  exists d0 all, nget (r_datalog st0) idx = Some d0 /\ WFp (d_log d0) all /\
                 cu = (tail (d_log d0), lenN all) /\ Issued (d_log d0) cu /\ stale (d_log d0) cu = false.
Proof.
  intros HI H. destruct (next_native_offset_cinv _ _ _ _ _ HI H) as ([LI0 _] & _ & _ & _).
  unfold next_native_offset in H.
  destruct (al_get str_eqb f (dl_findex (r_datalog st))) as [i|].
  - apply bind_ok in H as (d & Hd & H). apply native_get_Some in Hd. apply bind_ok in H as (c & Hc & H). inv_ok.
    destruct (li_wf _ LI0 _ _ Hd) as [all W]. destruct (next_offset_ok pubdata_size _ _ _ W Hc) as (-> & Hi & Hs & _).
    exists d, all. auto.
  - apply bind_ok in H as (d & Hd & H). destruct (data_new_wf _ _ _ Hd) as (W & _ & _).
    destruct (slab_insert (dl_native (r_datalog st)) d) as [native' k] eqn:Ei.
    apply bind_ok in H as (pf & Hpf & H). apply bind_ok in H as (c & Hc & H). inv_ok.
    destruct HI as [LI _]. destruct (nget_insert _ _ _ _ (li_nofree _ LI) Ei) as (_ & _ & Hg & _).
    destruct (next_offset_ok pubdata_size _ _ _ W Hc) as (-> & Hi & Hs & _).
    exists d, []. unfold nget. cbn [r_datalog set_r_datalog dl_native]. rewrite Hg, N.eqb_refl. auto.
Qed.

(** A request created at subscribe time (cursor = what [next_native_offset] returned, [all] =
    the log's history then), swept in any later state [st2] whose logs extend those of the
    subscribe state: as long as the backlog stayed within retention the sweep forwards the
    first [slots] of [xs] — exactly the messages appended to the filter's log AFTER the
    subscription took effect, none from before. *)
Theorem sweep_after_subscribe st f st0 idx cu st2 id rq st2' rq2 cs :
  CInv st -> next_native_offset st f = Ok (st0, idx, cu) ->
  CInv st2 -> Bounded st2 -> dl_le (r_datalog st0) (r_datalog st2) ->
  dr_idx rq = idx -> dr_cursor rq = cu -> dr_group rq = None ->
  forward_device_data st2 id rq = Ok (st2', rq2, cs) -> cs <> SInflightFull ->
  exists d0 all d2 xs o nret,
    nget (r_datalog st0) idx = Some d0 /\ WFp (d_log d0) all /\
    nget (r_datalog st2) idx = Some d2 /\ WFp (d_log d2) (all ++ xs) /\
    slab_get (r_obufs st2) id = Some o /\
    (stale (d_log d2) cu = false ->
       sweep_out st2 st2' o (dr_qos rq) (lenN all) nret (firstn (N.to_nat (sweep_slots st2 o rq - nret)) xs)) /\
    (stale (d_log d2) cu = true ->
       lenN all <= base_of (d_log d2) /\
       sweep_out st2 st2' o (dr_qos rq) (base_of (d_log d2)) nret
         (firstn (N.to_nat (sweep_slots st2 o rq - nret)) (skipn (N.to_nat (base_of (d_log d2))) (all ++ xs)))).
Proof.
  intros HI Hnno HI2 HB2 [Hle _] Hidx Hcu Hgrp F Hcs.
  destruct (next_native_offset_end _ _ _ _ _ HI Hnno) as (d0 & all & Hd0 & W0 & Ecu & Hiss0 & Hst0).
  destruct (Hle _ _ Hd0) as (d2 & Hd2 & _ & LL). destruct (LL all W0) as (xs & W2 & HIss & _ & Hstale).
  assert (Hun : unshared st2 rq) by (unfold unshared; now rewrite Hgrp).
  assert (Hsnd : snd (dr_cursor rq) <= lenN (all ++ xs)) by (rewrite Hcu, Ecu, lenN_app; cbn [snd]; lia).
  rewrite <- Hidx in Hd2. rewrite <- Hcu in Hiss0.
  destruct (sweep_exact _ _ _ _ _ _ _ _ HI2 HB2 Hd2 W2 (HIss _ Hiss0) Hsnd Hun F) as (o & Ho & S).
  cbv zeta in S. destruct S as (_ & _ & _ & [[E _] | (_ & _ & rs & ns & tail & S)]); [contradiction|].
  cbv zeta in S. destruct S as (Hout & Hrs & _ & _ & Hfw & Htail & _).
  rewrite Hidx in Hd2. exists d0, all, d2, xs, o, (lenN rs).
  split; [exact Hd0|]. split; [exact W0|]. split; [exact Hd2|]. split; [exact W2|]. split; [exact Ho|].
  assert (Ht : tail = [] \/ tail = [NUnschedule]) by (destruct Htail as [[-> _] | [-> _]]; auto).
  rewrite Hcu in *. split.
  - intros Hs. assert (Ep : pos_of (d_log d2) cu = lenN all) by (unfold pos_of; rewrite Hs, Ecu; reflexivity).
    rewrite Ep in Hfw. replace (skipn (N.to_nat (lenN all)) (all ++ xs)) with xs in Hfw.
    + exists rs, ns, tail. auto.
    + unfold lenN. rewrite Nat2N.id, skipn_app, skipn_all, Nat.sub_diag. reflexivity.
  - intros Hs. assert (Ep : pos_of (d_log d2) cu = base_of (d_log d2)) by (unfold pos_of; now rewrite Hs).
    rewrite Ep in Hfw. split.
    + specialize (Hstale cu Hiss0 Hst0 Hs). rewrite Ecu in Hstale. exact Hstale.
    + exists rs, ns, tail. auto.
Qed.
