(** M-LOG without the "no u64 overflow" hypotheses: on a well-formed log every public function
    of the commit-log model either returns [Ok] (with a post-condition) or panics with exactly
    the tag [P_ADD] (a checked u64 addition overflowed).  No other panic site (P_BACK, P_FRONT,
    P_INDEX, P_SUB_ABS, P_SUB_LEN, P_SLICE, P_SUB_HEAD) is reachable and [Err] is never
    returned.  The arithmetic facts that exclude the other panic sites hold in unbounded [N],
    so the proofs follow Log/{SegProofs,ReadProofs,ReadTop,AppendProofs}.v with every
    [rewrite add64_ok by lia] replaced by a case split on [add64]. *)
From Rumqtt Require Import Log.Spec Log.ListFacts Log.SegProofs Log.ReadProofs Log.WfFacts
  Log.ReadTop Log.AppendProofs Log.Proofs.
From Coq Require Import Arith ZifyBool ZifyN ZifyNat.

(** [okadd r]: [r] is [Ok _] or [Panic P_ADD] *)
Definition okadd {A} (r : Outcome unit A) : Prop :=
  match r with Ok _ => True | Err _ => False | Panic t => t = P_ADD end.

Lemma okadd_bind {A B} (x : Outcome unit A) (f : A -> Outcome unit B) :
  okadd x -> (forall a, x = Ok a -> okadd (f a)) -> okadd (bind x f).
Proof.
  destruct x as [a | e | t]; cbn [okadd bind]; intros Hx Hf;
    [apply Hf; reflexivity | contradiction | exact Hx].
Qed.

Lemma bind_ok {A B} (x : Outcome unit A) (f : A -> Outcome unit B) r :
  bind x f = Ok r -> exists a, x = Ok a /\ f a = Ok r.
Proof.
  destruct x as [a | e | t]; cbn [bind]; intros H;
    [exists a; split; [reflexivity | exact H] | discriminate H | discriminate H].
Qed.

Lemma add64_cases a b : add64 a b = Ok (a + b) \/ add64 a b = Panic P_ADD.
Proof. unfold add64. destruct (a + b <? U64); [left | right]; reflexivity. Qed.

Lemma add64_okadd a b : okadd (add64 a b).
Proof. destruct (add64_cases a b) as [H | H]; rewrite H; cbn [okadd]; auto. Qed.

Lemma add64_inv a b r : add64 a b = Ok r -> r = a + b.
Proof.
  unfold add64. destruct (a + b <? U64); intros H; [injection H as <-; reflexivity | discriminate H].
Qed.

Lemma sub64_inv tag a b r : sub64 tag a b = Ok r -> b <= a /\ r = a - b.
Proof.
  unfold sub64. destruct (N.leb_spec b a) as [Hle | Hgt]; intros H; [|discriminate H].
  injection H as <-. split; [exact Hle | reflexivity].
Qed.

Lemma lenN_firstN {A} (l : list A) k : lenN (firstN k l) <= k.
Proof. rewrite firstN_firstn. unfold lenN. rewrite firstn_length. lia. Qed.

(* ------------------------------------------------------------------ size-free part *)
Section NoPanicRead.
Context {T : Type}.

Lemma lenN_tag_from sg off (d : list T) : lenN (tag_from sg off d) = lenN d.
Proof. unfold lenN. now rewrite tag_from_length. Qed.

(** what an [Ok] result of Segment::readv tells (for ANY segment and cursor) *)
Lemma seg_readv_inv (s : segment T) c n sp o :
  seg_readv s c n = Ok (sp, o) ->
  s_abs s <= snd c /\ lenN o <= n /\
  match sp with
  | SDone no => no = s_abs s + seg_len s /\ lenN o <= no - snd c /\ (snd c <= no -> no - snd c <= n)
  | SNext _ => True
  end.
Proof.
  unfold seg_readv, seg_next_offset. intros H.
  apply bind_ok in H. destruct H as (idx & Hidx & H).
  apply sub64_inv in Hidx. destruct Hidx as [Habs ->].
  split; [exact Habs|]. revert H.
  destruct (N.leb_spec (seg_len s) (snd c - s_abs s)) as [Hge | Hlt]; intros H.
  - apply bind_ok in H. destruct H as (no & Hno & H). apply add64_inv in Hno.
    injection H as <- <-. rewrite lenN_nil. split; [lia|]. split; [exact Hno|]. split; lia.
  - apply bind_ok in H. destruct H as (l0 & Hl0 & H). apply add64_inv in Hl0. subst l0.
    revert H.
    destruct (N.leb_spec (seg_len s) (snd c - s_abs s + n)) as [Hge2 | Hlt2]; cbn [bind]; intros H.
    + apply bind_ok in H. destruct H as (hi & _ & H).
      apply bind_ok in H. destruct H as (sl & Hsl & H).
      apply bind_ok in H. destruct H as (no & Hno & H). apply add64_inv in Hno.
      injection H as <- <-.
      revert Hsl. destruct ((snd c - s_abs s <=? seg_len s) && (seg_len s <=? seg_len s));
        intros Hsl; [|discriminate Hsl].
      injection Hsl as <-. rewrite lenN_tag_from.
      pose proof (lenN_firstN (skipN (snd c - s_abs s) (s_data s)) (seg_len s - (snd c - s_abs s))) as Hf.
      split; [lia|]. split; [exact Hno|]. split; lia.
    + apply bind_ok in H. destruct H as (hi & _ & H).
      apply bind_ok in H. destruct H as (sl & Hsl & H).
      apply bind_ok in H. destruct H as (a & _ & H).
      injection H as <- <-.
      revert Hsl. destruct ((snd c - s_abs s <=? snd c - s_abs s + n) && (snd c - s_abs s + n <=? seg_len s));
        intros Hsl; [|discriminate Hsl].
      injection Hsl as <-. rewrite lenN_tag_from.
      pose proof (lenN_firstN (skipN (snd c - s_abs s) (s_data s)) (snd c - s_abs s + n - (snd c - s_abs s))) as Hf.
      split; [lia | exact I].
Qed.

(** Segment::readv from a cursor at or after the segment's start: Ok or P_ADD *)
Lemma seg_readv_okadd (s : segment T) c n : s_abs s <= snd c -> okadd (seg_readv s c n).
Proof.
  intros Habs. unfold seg_readv, seg_next_offset.
  rewrite sub64_ok by assumption. cbn [bind].
  destruct (N.leb_spec (seg_len s) (snd c - s_abs s)) as [Hge | Hlt].
  - apply okadd_bind; [apply add64_okadd | intros no _; exact I].
  - apply okadd_bind; [apply add64_okadd|]. intros l0 Hl0. apply add64_inv in Hl0. subst l0.
    destruct (N.leb_spec (seg_len s) (snd c - s_abs s + n)) as [Hge2 | Hlt2]; cbn [bind].
    + apply okadd_bind; [apply add64_okadd|]. intros hi _.
      destruct (N.leb_spec (snd c - s_abs s) (seg_len s)) as [_ | ?]; [|lia].
      destruct (N.leb_spec (seg_len s) (seg_len s)) as [_ | ?]; [|lia].
      cbn [andb bind]. apply okadd_bind; [apply add64_okadd | intros no _; exact I].
    + apply okadd_bind; [apply add64_okadd|]. intros hi _.
      destruct (N.leb_spec (snd c - s_abs s) (snd c - s_abs s + n)) as [_ | ?]; [|lia].
      destruct (N.leb_spec (snd c - s_abs s + n) (seg_len s)) as [_ | ?]; [|lia].
      cbn [andb bind]. apply okadd_bind; [apply add64_okadd | intros a _; exact I].
Qed.

(** the walk: Ok or P_ADD, for a cursor anywhere at or after the start of its segment *)
Lemma walk_okadd : forall (more : list (segment T)) curr sgi off n start tl,
  chain (s_abs curr) (curr :: more) ->
  tl = sgi + lenN more ->
  s_abs curr <= off ->
  okadd (readv_walk tl start (sgi, off) n curr more).
Proof.
  induction more as [|nxt more' IH]; intros curr sgi off n start tl Hch Htl Hlo.
  - rewrite readv_walk_eq. cbn [fst snd]. rewrite lenN_nil in Htl.
    destruct (N.ltb_spec sgi tl) as [? | _]; [lia|].
    unfold readv_active, seg_next_offset. apply okadd_bind; [apply add64_okadd|]. intros no _.
    cbn [fst snd]. destruct (no <=? off); [exact I|].
    apply okadd_bind; [apply seg_readv_okadd; exact Hlo|]. intros [sp o] _. destruct sp; exact I.
  - rewrite readv_walk_eq. cbn [fst snd]. rewrite lenN_cons in Htl.
    destruct (N.ltb_spec sgi tl) as [_ | ?]; [|lia].
    destruct Hch as [_ Hch]. pose proof Hch as [Hnabs _].
    assert (Hch' : chain (s_abs nxt) (nxt :: more')) by (rewrite Hnabs; exact Hch).
    apply okadd_bind; [apply seg_readv_okadd; exact Hlo|]. intros [sp o] Hsr.
    apply seg_readv_inv in Hsr. cbn [snd] in Hsr. destruct Hsr as (_ & _ & Hsp).
    destruct sp as [v | no]; [exact I|]. destruct Hsp as (-> & _ & Hn).
    apply okadd_bind.
    { destruct (N.leb_spec off (s_abs curr + seg_len curr)) as [Hle | Hgt]; [|exact I].
      rewrite sub64_ok by (apply Hn; exact Hle). exact I. }
    intros n' _. apply okadd_bind; [apply add64_okadd|]. intros c0 Hc0.
    apply add64_inv in Hc0. subst c0. cbn zeta.
    destruct (n' =? 0); [exact I|].
    apply okadd_bind; [|intros [pos o2] _; exact I].
    apply IH; try assumption; lia.
Qed.

(** [readv] never returns more than [n] entries (for ANY log and cursor) *)
Lemma active_len start cur n (curr : segment T) pos out :
  readv_active start cur n curr = Ok (pos, out) -> lenN out <= n.
Proof.
  unfold readv_active. intros H. apply bind_ok in H. destruct H as (no & _ & H).
  revert H. destruct (no <=? snd cur); intros H.
  - injection H as _ <-. rewrite lenN_nil. lia.
  - apply bind_ok in H. destruct H as ([sp o] & Hsr & H).
    apply seg_readv_inv in Hsr. destruct Hsr as (_ & Hlen & _).
    destruct sp; injection H as _ <-; exact Hlen.
Qed.

Lemma walk_len : forall (more : list (segment T)) curr cur n start tl pos out,
  readv_walk tl start cur n curr more = Ok (pos, out) -> lenN out <= n.
Proof.
  induction more as [|nxt more' IH]; intros curr cur n start tl pos out; rewrite readv_walk_eq;
    (destruct (fst cur <? tl); [|apply active_len]); intros H.
  - apply bind_ok in H. destruct H as ([sp o] & Hsr & H).
    apply seg_readv_inv in Hsr. destruct Hsr as (_ & Hlen & Hsp).
    destruct sp as [v | no].
    + injection H as _ <-. exact Hlen.
    + apply bind_ok in H. destruct H as (n' & _ & H).
      apply bind_ok in H. destruct H as (c0 & _ & H). cbn zeta in H.
      revert H. destruct (n' =? 0); intros H; [|discriminate H].
      injection H as _ <-. exact Hlen.
  - apply bind_ok in H. destruct H as ([sp o] & Hsr & H).
    apply seg_readv_inv in Hsr. destruct Hsr as (_ & Hlen & Hsp).
    destruct sp as [v | no].
    + injection H as _ <-. exact Hlen.
    + destruct Hsp as (_ & Hlo & _).
      apply bind_ok in H. destruct H as (n' & Hn' & H).
      apply bind_ok in H. destruct H as (c0 & _ & H). cbn zeta in H.
      revert H. destruct (n' =? 0); intros H.
      * injection H as _ <-. exact Hlen.
      * apply bind_ok in H. destruct H as ([pos2 o2] & Hrec & H).
        apply IH in Hrec. injection H as _ <-. rewrite lenN_app.
        revert Hn'. destruct (N.leb_spec (snd cur) no) as [Hle | Hgt]; intros Hn'.
        -- apply sub64_inv in Hn'. lia.
        -- injection Hn' as <-. lia.
Qed.

Lemma readv_len (l : log T) c n pos out : readv l c n = Ok (pos, out) -> lenN out <= n.
Proof.
  unfold readv. destruct (tail l <? fst c); intros H.
  - injection H as _ <-. rewrite lenN_nil. lia.
  - apply bind_ok in H. destruct H as ([cur start] & _ & H).
    apply bind_ok in H. destruct H as (idx & _ & H).
    revert H. destruct (nth_rest (segs l) idx) as [[curr more]|]; intros H; [|discriminate H].
    revert H. destruct (snd cur <? s_abs curr); apply walk_len.
Qed.

End NoPanicRead.

(* ------------------------------------------------------------------ on a well-formed log *)
Section NoPanicLog.
Context {T : Type} (size : T -> N).

Lemma readv_okadd (l : log T) all c n : WFs size l all -> okadd (readv l c n).
Proof.
  intros W. unfold readv.
  destruct (N.ltb_spec (tail l) (fst c)) as [Hbeyond | Hin]; [exact I|].
  pose proof (wf_count size l all W) as Hcnt.
  assert (Hgo : forall cur start, head l <= fst cur -> fst cur <= tail l ->
    okadd
      (do idx <- sub64 P_SUB_HEAD (fst cur) (head l);
       match nth_rest (segs l) idx with
       | None => Panic P_INDEX
       | Some (curr, more) =>
           let '(cur, start) :=
             if snd cur <? s_abs curr
             then ((fst cur, s_abs curr), (fst start, s_abs curr))
             else (cur, start) in
           readv_walk (tail l) start cur n curr more
       end)).
  { intros cur start Hh Ht. rewrite sub64_ok by lia. cbn [bind].
    destruct (nth_rest (segs l) (fst cur - head l)) as [[curr more]|] eqn:E.
    2:{ apply nth_rest_none in E. lia. }
    apply nth_rest_split in E. destruct E as (pre & E & Hpre).
    destruct (wfs_split size l all pre curr more W E) as (Hc & Ha & Hd & Htail).
    destruct cur as [sg off]. cbn [fst snd] in *.
    destruct (N.ltb_spec off (s_abs curr)) as [Hjump | Hno];
      apply walk_okadd; try assumption; lia. }
  destruct (N.ltb_spec (fst c) (head l)) as [Hstale | Hlive].
  - destruct (segs l) as [|s r] eqn:E; [now destruct (wf_ne size l all W)|].
    cbn [bind]. rewrite <- E in Hgo. rewrite <- E. rewrite lenN_cons in Hcnt.
    apply Hgo; cbn [fst snd]; lia.
  - cbn [bind]. apply Hgo; lia.
Qed.

(** [apply_retention] without the bound on the number of entries *)
Lemma apply_retention_weak (l : log T) all :
  WFs size l all ->
  (exists l1, apply_retention l = Ok l1 /\ retention_case l l1 (lenN all)) \/
  apply_retention l = Panic P_ADD.
Proof.
  intros W. destruct (exists_last (wf_ne size l all W)) as (i & a & E).
  assert (E' : segs l = i ++ a :: []) by exact E.
  destruct (wfs_split size l all i a [] W E') as (_ & _ & Hend & Htail).
  rewrite lenD_cons, lenD_nil in Hend. rewrite lenN_nil in Htail.
  unfold apply_retention. rewrite (active_last l i a E). cbn [bind]. unfold seg_size.
  destruct (N.leb_spec (max_seg l) (s_total a)) as [Hfull | Hroom].
  - unfold seg_next_offset.
    destruct (add64_cases (s_abs a) (seg_len a)) as [Ha | Ha]; rewrite Ha; cbn [bind];
      [|right; reflexivity].
    replace (s_abs a + seg_len a) with (lenN all) by lia.
    destruct (N.leb_spec (max_mem l) (lenN (segs l))) as [Hev | Hno].
    + destruct (add64_cases (head l) 1) as [Hh | Hh]; rewrite Hh; cbn [bind];
        [|right; reflexivity].
      destruct (add64_cases (tail l) 1) as [Ht | Ht]; rewrite Ht; cbn [bind];
        [|right; reflexivity].
      destruct (segs l) as [|s0 rest] eqn:Es; [now destruct (wf_ne size l all W)|].
      cbn [tl]. left. eexists. split; [reflexivity|].
      eapply (RC_evict l _ _ s0 rest i a); try rewrite Es; try eassumption; try reflexivity.
    + cbn [bind].
      destruct (add64_cases (tail l) 1) as [Ht | Ht]; rewrite Ht; cbn [bind];
        [|right; reflexivity].
      left. eexists. split; [reflexivity|].
      eapply (RC_roll l _ _ i a); try eassumption. reflexivity.
  - left. exists l. split; [reflexivity|]. eapply (RC_same l l _ i a); try eassumption. reflexivity.
Qed.

(* ------------------------------------------------------------------ the five lemmas *)

Lemma lw_new (ms mm : N) :
  1024 <= ms -> 1 <= mm -> exists l : log T, new ms mm = Ok l /\ WF size l [].
Proof.
  intros Hs Hm. destruct (new_spec size ms mm) as [Hnew _].
  destruct (Hnew Hs Hm) as (l & Hn & W & _). exists l. split; assumption.
Qed.

Lemma lw_active (l : log T) all : WFs size l all -> exists a, active l = Ok a.
Proof.
  intros W. destruct (exists_last (wf_ne size l all W)) as (i & a & E).
  exists a. exact (active_last l i a E).
Qed.

Lemma lw_next_offset (l : log T) all : WF size l all ->
  (exists c, next_offset l = Ok c) \/ next_offset l = Panic P_ADD.
Proof.
  intros [W _]. destruct (exists_last (wf_ne size l all W)) as (i & a & E).
  unfold next_offset. rewrite (active_last l i a E). cbn [bind]. unfold seg_next_offset.
  destruct (add64_cases (s_abs a) (seg_len a)) as [H | H]; rewrite H; cbn [bind];
    [left; eexists; reflexivity | right; reflexivity].
Qed.

Lemma lw_append (l : log T) all x : WF size l all ->
  (exists l' c, append size l x = Ok (l', c) /\ WF size l' (all ++ [x])) \/
  append size l x = Panic P_ADD.
Proof.
  intros [W _].
  destruct (apply_retention_weak l all W) as [(l1 & Hret & RC) | Hret].
  2:{ right. unfold append. rewrite Hret. reflexivity. }
  destruct (retention_wfs size l l1 all W RC) as (W1 & i1 & a1 & E1 & Hroom & Hend1 & Hne1).
  pose proof (push_wf size l1 all i1 a1 x W1 E1 Hne1) as W2.
  unfold append. rewrite Hret. cbn [bind]. rewrite E1, split_back_app.
  unfold seg_push.
  destruct (add64_cases (s_total a1) (size x)) as [Hp | Hp]; rewrite Hp; cbn [bind];
    [|right; reflexivity].
  unfold active. cbn [segs]. rewrite split_back_app. cbn [bind].
  unfold seg_next_offset.
  match goal with
  | |- context [add64 ?p ?q] => destruct (add64_cases p q) as [Hq | Hq]; rewrite Hq
  end; cbn [bind]; [|right; reflexivity].
  left. eexists. eexists. split; [reflexivity|]. exact W2.
Qed.

Lemma lw_readv (l : log T) all c n : WFs size l all ->
  (exists pos out, readv l c n = Ok (pos, out) /\ lenN out <= n) \/
  readv l c n = Panic P_ADD.
Proof.
  intros W. pose proof (readv_okadd l all c n W) as Hk.
  destruct (readv l c n) as [[pos out] | e | t] eqn:E; cbn [okadd] in Hk.
  - left. exists pos, out. split; [reflexivity|]. exact (readv_len l c n pos out E).
  - contradiction.
  - right. now subst t.
Qed.

End NoPanicLog.
